(** C01 - integer ring arithmetic is exact for every operand size and sign.
    ONLY statements pinned here; proofs live in Dashu.Int.Ring*.
    [w] is the word size in bits (any w >= 8; 16/32/64 in the builds), B w = 2^w, word lists are
    little-endian, [value w] is the number a list denotes, [wf w] says every word is in [0, B). *)
From Dashu Require Import Base.Prelude Base.Words Int.RingSpec Int.RingSign Int.RingAdd Int.RingAddProofs
  Int.RingMul Int.RingMulProofs Int.RingKaraProofs Int.RingToomProofs Int.RingToomW Int.RingToomWProofs Int.RingDispatchProofs Int.RingSqrProofs
  Int.RingOps Int.RingOpsProofs Int.RingOpsMulProofs Int.RingPowProofs Int.RingTop Int.RingExamples
  Int.DivWordModel Int.DivWordProofs Int.RingMulW Int.RingMulWProofs Int.RingOpsW Int.RingOpsWProofs
  Int.RingScratch Int.RingScratchProofs Int.RingPowW Int.RingPowWProofs Int.RingTopW Int.RingPrim Int.RingPrimProofs
  Int.WordPrims Int.WordKernelSpec Int.WordKernelRun Int.WordKernelsGenProofs Int.WordKernelSpecProofs Int.WordKernelRunProofs Int.WordKernelsGenTransfer
  Int.RingOpsW4 Int.RingOpsW4Proofs Int.RingPowShift Int.RingPrimW4 Int.RingPrimW4Proofs
  Int.MulBodiesGenProofs Int.MulBodiesLen Int.MulBodiesRun Int.MulBodiesKnot.
From Dashu Require Int.IoSpec Int.IoModel Int.IoBytes.
From Dashu Require Int.BitsKernels Int.ReprOrdModel Int.DivWordInst.
From DashuGen Require Import SignTables Params MulMemory WordKernelsGen MulBodiesGen.
Open Scope Z_scope.

(** ---- IBig sign tables (regenerated from add_ops.rs / mul_ops.rs on every run) *)
Theorem C01_ibig_add_table : forall s0 m0 s1 m1, ibig_add_gen s0 m0 s1 m1 = signed s0 m0 + signed s1 m1.
Proof. exact ibig_add_gen_correct. Qed.
Print Assumptions C01_ibig_add_table.

Theorem C01_ibig_sub_table : forall s0 m0 s1 m1, ibig_sub_gen s0 m0 s1 m1 = signed s0 m0 - signed s1 m1.
Proof. exact ibig_sub_gen_correct. Qed.
Print Assumptions C01_ibig_sub_table.

Theorem C01_ibig_mul_table : forall s0 m0 s1 m1, ibig_mul_gen s0 m0 s1 m1 = signed s0 m0 * signed s1 m1.
Proof. exact ibig_mul_gen_correct. Qed.
Print Assumptions C01_ibig_mul_table.

(** ---- add.rs: carry / borrow kernels, every length *)
Theorem C01_add_in_place : forall w, 0 < w -> forall lhs rhs, (length rhs <= length lhs)%nat -> wf w lhs -> wf w rhs ->
  forall r c, add_in_place w lhs rhs = (r, c) ->
  length r = length lhs /\ wf w r /\ value w r + b2z c * B w ^ len lhs = value w lhs + value w rhs.
Proof. exact add_in_place_spec. Qed.
Print Assumptions C01_add_in_place.

Theorem C01_sub_in_place : forall w, 0 < w -> forall lhs rhs, (length rhs <= length lhs)%nat -> wf w lhs -> wf w rhs ->
  forall r c, sub_in_place w lhs rhs = (r, c) ->
  length r = length lhs /\ wf w r /\ value w r + - b2z c * B w ^ len lhs = value w lhs + - value w rhs.
Proof. exact sub_in_place_spec. Qed.
Print Assumptions C01_sub_in_place.

Theorem C01_sub_in_place_with_sign : forall w, 0 < w -> forall lhs rhs, (length rhs <= length lhs)%nat -> wf w lhs -> wf w rhs ->
  forall r s, sub_in_place_with_sign w lhs rhs = (r, s) ->
  length r = length lhs /\ wf w r /\ signed s (value w r) = value w lhs - value w rhs.
Proof. exact sub_in_place_with_sign_spec. Qed.
Print Assumptions C01_sub_in_place_with_sign.

(** ---- mul/*.rs: word and double-word multipliers *)
Theorem C01_mul_word_in_place : forall w, 8 <= w -> forall ws rhs, wf w ws -> 0 < rhs < B w ->
  forall r c, mul_word_in_place w ws rhs = (r, c) ->
  length r = length ws /\ wf w r /\ 0 <= c < B w /\ value w r + c * B w ^ len ws = value w ws * rhs.
Proof. exact mul_word_in_place_spec. Qed.
Print Assumptions C01_mul_word_in_place.

Theorem C01_mul_dword_in_place : forall w, 8 <= w -> forall ws rhs, wf w ws -> 0 <= rhs < B w * B w ->
  forall r c, mul_dword_in_place w ws rhs = (r, c) ->
  length r = length ws /\ wf w r /\ 0 <= c < B w * B w /\ value w r + c * B w ^ len ws = value w ws * rhs.
Proof. exact mul_dword_in_place_spec. Qed.
Print Assumptions C01_mul_dword_in_place.

(** ---- each multiplier meets the kernel contract  c' + carry * B^len c = c + sign * a * b
    (mul_ok), given the recursive multiplier does so on shorter operands (same_ok) *)
Theorem C01_schoolbook : forall w, 8 <= w -> forall c s a b,
  wf w c /\ wf w a /\ wf w b /\ length c = (length a + length b)%nat ->
  exists r carry, simple_chunk_fn w c s a b = Ok (r, carry) /\ length r = length c /\ wf w r /\
    value w r + carry * B w ^ len c = value w c + sgnz s * (value w a * value w b).
Proof. exact simple_chunk_ok. Qed.
Print Assumptions C01_schoolbook.

Theorem C01_karatsuba : forall w, 8 <= w -> forall rec_same c s a b,
  pre w c a b -> length a = length b -> (2 <= length a)%nat -> same_ok w rec_same (length a) ->
  exists r carry, karatsuba_same_len w rec_same c s a b = Ok (r, carry) /\ length r = length c /\ wf w r /\
    value w r + carry * B w ^ len c = value w c + sgnz s * (value w a * value w b).
Proof. exact karatsuba_ok. Qed.
Print Assumptions C01_karatsuba.

Theorem C01_toom3_value_level : forall w, 8 <= w -> forall rec_same c s a b,
  pre w c a b -> length a = length b -> (4 <= length a)%nat -> same_ok w rec_same (length a) ->
  exists r carry, toom3_same_len w rec_same c s a b = Ok (r, carry) /\ length r = length c /\ wf w r /\
    value w r + carry * B w ^ len c = value w c + sgnz s * (value w a * value w b).
Proof. exact toom3_ok. Qed.
Print Assumptions C01_toom3_value_level.

(** the word-level transcription of toom_3.rs (slices of c, scratch buffers t1/t2, evaluation at 0, 1, -1, 2
    and infinity, the five deferred carries, the exact divisions by 6 and 2 with their remainders asserted
    zero as in the code) never panics and meets the same contract, for every length >= 16 = MIN_LEN *)
Theorem C01_toom3_word_level : forall w, 8 <= w -> forall rec_same c s a b,
  pre w c a b -> length a = length b -> (16 <= length a)%nat -> same_ok w rec_same (length a) ->
  exists r carry, toom3w_same_len w rec_same c s a b = Ok (r, carry) /\ length r = length c /\ wf w r /\
    value w r + carry * B w ^ len c = value w c + sgnz s * (value w a * value w b).
Proof. exact toom3w_ok. Qed.
Print Assumptions C01_toom3_word_level.

(** ---- the size dispatch, for EVERY admissible threshold triple and every pair of lengths *)
Theorem C01_add_signed_mul_any_thresholds : forall w, 8 <= w -> forall T_simple T_kara CHUNK,
  (1 <= T_simple)%nat -> (3 <= T_kara)%nat -> (1 <= CHUNK)%nat ->
  forall c s a b, wf w c /\ wf w a /\ wf w b /\ length c = (length a + length b)%nat ->
  exists r carry, add_signed_mul w T_simple T_kara CHUNK c s a b = Ok (r, carry) /\ length r = length c /\ wf w r /\
    value w r + carry * B w ^ len c = value w c + sgnz s * (value w a * value w b).
Proof. exact add_signed_mul_ok. Qed.
Print Assumptions C01_add_signed_mul_any_thresholds.

Theorem C01_thresholds_admissible :
  (1 <= Z.to_nat mul_threshold_simple)%nat /\ (3 <= Z.to_nat mul_threshold_karatsuba)%nat /\
  (1 <= Z.to_nat mul_simple_chunk_len)%nat /\
  karatsuba_min_len <= mul_threshold_simple + 1 /\ toom3_min_len <= mul_threshold_karatsuba + 1.
Proof. exact source_thresholds_admissible. Qed.
Print Assumptions C01_thresholds_admissible.

(** ---- with the thresholds of the source: the kernel with accumulator and sign, and the product *)
Theorem C01_add_signed_mul : forall w, 8 <= w -> forall c s a b,
  wf w c /\ wf w a /\ wf w b /\ length c = (length a + length b)%nat ->
  exists r carry,
    add_signed_mul w (Z.to_nat mul_threshold_simple) (Z.to_nat mul_threshold_karatsuba) (Z.to_nat mul_simple_chunk_len) c s a b
      = Ok (r, carry) /\
    length r = length c /\ wf w r /\ -1 <= carry <= 1 /\
    value w r + carry * B w ^ len c = value w c + sgnz s * (value w a * value w b).
Proof. exact add_signed_mul_source_ok. Qed.
Print Assumptions C01_add_signed_mul.

Theorem C01_multiply : forall w, 8 <= w -> forall a b, wf w a -> wf w b ->
  exists r,
    multiply w (Z.to_nat mul_threshold_simple) (Z.to_nat mul_threshold_karatsuba) (Z.to_nat mul_simple_chunk_len) a b = Ok r /\
    length r = (length a + length b)%nat /\ wf w r /\ value w r = value w a * value w b.
Proof. exact multiply_source_correct. Qed.
Print Assumptions C01_multiply.

(** ---- sqr/*.rs *)
Theorem C01_simple_square : forall w, 8 <= w -> forall a, wf w a ->
  let r := simple_square w (repeat 0 (2 * length a)) a in
  length r = (2 * length a)%nat /\ wf w r /\ value w r = value w a * value w a.
Proof. exact simple_square_correct. Qed.
Print Assumptions C01_simple_square.

Theorem C01_sqr_kernel : forall w, 8 <= w -> forall a, wf w a ->
  exists r, sqr w (Z.to_nat mul_threshold_simple) (Z.to_nat mul_threshold_karatsuba) (Z.to_nat sqr_max_len_simple) a = Ok r /\
            length r = (2 * length a)%nat /\ wf w r /\ value w r = value w a * value w a.
Proof. exact sqr_kernel_exact. Qed.
Print Assumptions C01_sqr_kernel.

(** ---- the operators: Small/Large arms of add_ops.rs / mul_ops.rs / pow.rs over the kernels, with the
    thresholds of the source.  twf = inline iff <= 2 words, heap buffers normalised (what repr.rs keeps);
    tok = words in range.  [o] ranges over the four ownership forms. *)
Theorem C01_ubig_add : forall w, 8 <= w -> forall o x y, twf w x -> twf w y ->
  Ok (repr_value w (repr_add w o x y)) = ubig_add_spec (repr_value w x) (repr_value w y) /\ twf w (repr_add w o x y).
Proof. exact ubig_add_exact. Qed.
Print Assumptions C01_ubig_add.

Theorem C01_ubig_sub : forall w, 8 <= w -> forall o x y, twf w x -> twf w y ->
  match repr_sub w o x y, ubig_sub_spec (repr_value w x) (repr_value w y) with
  | Ok r, Ok v => repr_value w r = v /\ twf w r
  | Panic NegativeUBig, Panic NegativeUBig => True
  | _, _ => False
  end.
Proof. exact ubig_sub_exact. Qed.
Print Assumptions C01_ubig_sub.

Theorem C01_ibig_add : forall w, 8 <= w -> forall o s0 x s1 y, twf w x -> twf w y ->
  exists r, ibig_add_asis w o s0 x s1 y = Ok r /\
    srepr_value w r = ibig_add_spec (signed s0 (repr_value w x)) (signed s1 (repr_value w y)) /\ twf w (snd r).
Proof. exact ibig_add_exact. Qed.
Print Assumptions C01_ibig_add.

Theorem C01_ibig_sub : forall w, 8 <= w -> forall o s0 x s1 y, twf w x -> twf w y ->
  exists r, ibig_sub_asis w o s0 x s1 y = Ok r /\
    srepr_value w r = ibig_sub_spec (signed s0 (repr_value w x)) (signed s1 (repr_value w y)) /\ twf w (snd r).
Proof. exact ibig_sub_exact. Qed.
Print Assumptions C01_ibig_sub.

Theorem C01_ubig_mul : forall w, 8 <= w -> forall x y, tok w x -> tok w y ->
  exists r, repr_mul w src_T_simple src_T_kara src_CHUNK src_SQR x y = Ok r /\
    Ok (repr_value w r) = ubig_mul_spec (repr_value w x) (repr_value w y) /\ twf w r.
Proof. exact ubig_mul_exact. Qed.
Print Assumptions C01_ubig_mul.

Theorem C01_ibig_mul : forall w, 8 <= w -> forall s0 x s1 y, tok w x -> tok w y ->
  exists r, ibig_mul_asis w src_T_simple src_T_kara src_CHUNK src_SQR s0 x s1 y = Ok r /\
    srepr_value w r = ibig_mul_spec (signed s0 (repr_value w x)) (signed s1 (repr_value w y)) /\ twf w (snd r).
Proof. exact ibig_mul_exact. Qed.
Print Assumptions C01_ibig_mul.

Theorem C01_sqr : forall w, 8 <= w -> forall x, tok w x ->
  exists r, repr_sqr w src_T_simple src_T_kara src_SQR x = Ok r /\ repr_value w r = sqr_spec (repr_value w x) /\ twf w r.
Proof. exact sqr_exact. Qed.
Print Assumptions C01_sqr.

Theorem C01_ubig_cubic : forall w, 8 <= w -> forall x, tok w x ->
  exists r, ubig_cubic_asis w src_T_simple src_T_kara src_CHUNK src_SQR x = Ok r /\
    repr_value w r = cubic_spec (repr_value w x) /\ twf w r.
Proof. exact ubig_cubic_exact. Qed.
Print Assumptions C01_ubig_cubic.

Theorem C01_ibig_cubic : forall w, 8 <= w -> forall s x, tok w x ->
  exists r, ibig_cubic_asis w src_T_simple src_T_kara src_CHUNK src_SQR s x = Ok r /\
    srepr_value w r = cubic_spec (signed s (repr_value w x)) /\ twf w (snd r).
Proof. exact ibig_cubic_exact. Qed.
Print Assumptions C01_ibig_cubic.

Theorem C01_ubig_pow : forall w, 8 <= w -> forall x e, tok w x -> 0 <= e ->
  exists r, ubig_pow_asis w src_T_simple src_T_kara src_CHUNK src_SQR x e = Ok r /\ repr_value w r = pow_spec (repr_value w x) e.
Proof. exact ubig_pow_exact. Qed.
Print Assumptions C01_ubig_pow.

Theorem C01_ibig_pow : forall w, 8 <= w -> forall s x e, tok w x -> 0 <= e ->
  exists r, ibig_pow_asis w src_T_simple src_T_kara src_CHUNK src_SQR s x e = Ok r /\
    srepr_value w r = pow_spec (signed s (repr_value w x)) e.
Proof. exact ibig_pow_exact. Qed.
Print Assumptions C01_ibig_pow.

(** ================================================================================================
    Deepening round 3: the WORD-LEVEL multiplication stack (Int/RingMulW.v) - the as-is model the
    correspondence run evaluates.  Toom-3 is the slice-by-slice transcription of toom_3.rs INCLUDING its calls
    div::div_by_word_in_place(t1, 6) and shift::shr_in_place(t2, 1) (word-level models of Int/DivWordModel.v);
    [div2by1] is num-modular's Normalized2by1Divisor::div_rem_2by1 with the contract C02 assumes for it. *)
Theorem C01_toom3_fully_word_level : forall w, 8 <= w -> forall div2by1,
  (forall d a, norm1 w d -> 0 <= a < d * B w -> div2by1 d a = (a / d, a mod d)) ->
  forall rec_same c s a b,
  pre w c a b -> length a = length b -> (16 <= length a)%nat -> same_ok w rec_same (length a) ->
  exists r carry, toom3x_same_len w div2by1 rec_same c s a b = Ok (r, carry) /\ length r = length c /\ wf w r /\
    value w r + carry * B w ^ len c = value w c + sgnz s * (value w a * value w b).
Proof. exact toom3x_ok. Qed.
Print Assumptions C01_toom3_fully_word_level.

(** the size dispatch over the word-level kernels, for EVERY admissible threshold triple and every pair of lengths
    (balanced or not; Toom-3 only ever entered at >= 16 words) *)
Theorem C01_word_level_dispatch_any_thresholds : forall w, 8 <= w -> forall div2by1,
  (forall d a, norm1 w d -> 0 <= a < d * B w -> div2by1 d a = (a / d, a mod d)) ->
  forall T_simple T_kara CHUNK, (1 <= T_simple)%nat -> (15 <= T_kara)%nat -> (1 <= CHUNK)%nat ->
  forall c s a b, wf w c /\ wf w a /\ wf w b /\ length c = (length a + length b)%nat ->
  exists r carry, add_signed_mul_w w div2by1 T_simple T_kara CHUNK c s a b = Ok (r, carry) /\ length r = length c /\ wf w r /\
    value w r + carry * B w ^ len c = value w c + sgnz s * (value w a * value w b).
Proof. exact add_signed_mul_w_ok. Qed.
Print Assumptions C01_word_level_dispatch_any_thresholds.

Theorem C01_word_level_same_len_dispatch : forall w, 8 <= w -> forall div2by1,
  (forall d a, norm1 w d -> 0 <= a < d * B w -> div2by1 d a = (a / d, a mod d)) ->
  forall T_simple T_kara CHUNK, (1 <= T_simple)%nat -> (15 <= T_kara)%nat -> (1 <= CHUNK)%nat ->
  forall c s a b, wf w c /\ wf w a /\ wf w b /\ length c = (length a + length b)%nat -> length a = length b ->
  exists r carry, add_signed_mul_same_len_w w div2by1 T_simple T_kara c s a b = Ok (r, carry) /\ length r = length c /\ wf w r /\
    value w r + carry * B w ^ len c = value w c + sgnz s * (value w a * value w b).
Proof. exact add_signed_mul_same_len_w_ok. Qed.
Print Assumptions C01_word_level_same_len_dispatch.

(** the thresholds regenerated from the source meet what the word-level proof needs: Toom-3 is entered only at
    or above toom_3::MIN_LEN, and MIN_LEN is at least the 16 words the slice layout needs *)
Theorem C01_thresholds_admissible_word_level :
  (1 <= src_T_simple)%nat /\ (15 <= src_T_kara)%nat /\ (1 <= src_CHUNK)%nat /\
  toom3_min_len <= mul_threshold_karatsuba + 1 /\ 16 <= toom3_min_len /\
  karatsuba_min_len <= mul_threshold_simple + 1 /\ 2 <= karatsuba_min_len.
Proof. exact source_thresholds_admissible_w. Qed.
Print Assumptions C01_thresholds_admissible_word_level.

Theorem C01_add_signed_mul_word_level : forall w, 8 <= w -> forall div2by1,
  (forall d a, norm1 w d -> 0 <= a < d * B w -> div2by1 d a = (a / d, a mod d)) ->
  forall c s a b, wf w c /\ wf w a /\ wf w b /\ length c = (length a + length b)%nat ->
  exists r carry, add_signed_mul_w w div2by1 src_T_simple src_T_kara src_CHUNK c s a b = Ok (r, carry) /\
    length r = length c /\ wf w r /\ -1 <= carry <= 1 /\
    value w r + carry * B w ^ len c = value w c + sgnz s * (value w a * value w b).
Proof. exact add_signed_mul_w_source_ok. Qed.
Print Assumptions C01_add_signed_mul_word_level.

Theorem C01_multiply_word_level : forall w, 8 <= w -> forall div2by1,
  (forall d a, norm1 w d -> 0 <= a < d * B w -> div2by1 d a = (a / d, a mod d)) ->
  forall a b, wf w a -> wf w b ->
  exists r, multiply_w w div2by1 src_T_simple src_T_kara src_CHUNK a b = Ok r /\ length r = (length a + length b)%nat /\ wf w r /\
            value w r = value w a * value w b.
Proof. exact multiply_w_source_correct. Qed.
Print Assumptions C01_multiply_word_level.

(** the three kernels verif_hooks::mul_kernel drives directly (which = 1, 2, 3), on their documented domains *)
Theorem C01_hook_simple_word_level : forall w, 8 <= w -> forall div2by1,
  (forall d a, norm1 w d -> 0 <= a < d * B w -> div2by1 d a = (a / d, a mod d)) ->
  forall T_simple T_kara CHUNK, (1 <= T_simple)%nat -> (15 <= T_kara)%nat -> (1 <= CHUNK)%nat ->
  forall c s a b, pre w c a b -> (length b <= length a)%nat ->
  exists r carry, simple_add_signed_mul_w w div2by1 T_simple T_kara CHUNK c s a b = Ok (r, carry) /\ length r = length c /\ wf w r /\
    value w r + carry * B w ^ len c = value w c + sgnz s * (value w a * value w b).
Proof. exact simple_add_signed_mul_w_ok. Qed.
Print Assumptions C01_hook_simple_word_level.

Theorem C01_hook_karatsuba_word_level : forall w, 8 <= w -> forall div2by1,
  (forall d a, norm1 w d -> 0 <= a < d * B w -> div2by1 d a = (a / d, a mod d)) ->
  forall T_simple T_kara CHUNK, (1 <= T_simple)%nat -> (15 <= T_kara)%nat -> (1 <= CHUNK)%nat ->
  forall c s a b, pre w c a b -> (length b <= length a)%nat -> (2 <= length b)%nat ->
  exists r carry, karatsuba_add_signed_mul_w w div2by1 T_simple T_kara CHUNK c s a b = Ok (r, carry) /\ length r = length c /\ wf w r /\
    value w r + carry * B w ^ len c = value w c + sgnz s * (value w a * value w b).
Proof. exact karatsuba_add_signed_mul_w_ok. Qed.
Print Assumptions C01_hook_karatsuba_word_level.

Theorem C01_hook_toom3_word_level : forall w, 8 <= w -> forall div2by1,
  (forall d a, norm1 w d -> 0 <= a < d * B w -> div2by1 d a = (a / d, a mod d)) ->
  forall T_simple T_kara CHUNK, (1 <= T_simple)%nat -> (15 <= T_kara)%nat -> (1 <= CHUNK)%nat ->
  forall c s a b, pre w c a b -> (length b <= length a)%nat -> (16 <= length b)%nat ->
  exists r carry, toom3_add_signed_mul_w w div2by1 T_simple T_kara CHUNK c s a b = Ok (r, carry) /\ length r = length c /\ wf w r /\
    value w r + carry * B w ^ len c = value w c + sgnz s * (value w a * value w b).
Proof. exact toom3_add_signed_mul_w_ok. Qed.
Print Assumptions C01_hook_toom3_word_level.

(** the contract determines the answer: the word-level dispatch and the dispatch of RingMul.v (Toom-3
    interpolation at value level) are the same function on well-formed operands *)
Theorem C01_word_level_equals_value_level : forall w, 8 <= w -> forall div2by1,
  (forall d a, norm1 w d -> 0 <= a < d * B w -> div2by1 d a = (a / d, a mod d)) ->
  forall T_simple T_kara CHUNK, (1 <= T_simple)%nat -> (15 <= T_kara)%nat -> (1 <= CHUNK)%nat ->
  forall c s a b, pre w c a b ->
  add_signed_mul_w w div2by1 T_simple T_kara CHUNK c s a b = add_signed_mul w T_simple T_kara CHUNK c s a b.
Proof. exact add_signed_mul_w_eq. Qed.
Print Assumptions C01_word_level_equals_value_level.

(** sqr::sqr and the operators * sqr cubic over the word-level kernels, thresholds of the source *)
Theorem C01_sqr_kernel_word_level : forall w, 8 <= w -> forall div2by1,
  (forall d a, norm1 w d -> 0 <= a < d * B w -> div2by1 d a = (a / d, a mod d)) ->
  forall a, wf w a ->
  exists r, sqr_w w div2by1 src_T_simple src_T_kara src_SQR a = Ok r /\
            length r = (2 * length a)%nat /\ wf w r /\ value w r = value w a * value w a.
Proof. exact sqr_kernel_w_exact. Qed.
Print Assumptions C01_sqr_kernel_word_level.

Theorem C01_ubig_mul_word_level : forall w, 8 <= w -> forall div2by1,
  (forall d a, norm1 w d -> 0 <= a < d * B w -> div2by1 d a = (a / d, a mod d)) ->
  forall x y, tok w x -> tok w y ->
  exists r, repr_mul_w w div2by1 src_T_simple src_T_kara src_CHUNK src_SQR x y = Ok r /\
    Ok (repr_value w r) = ubig_mul_spec (repr_value w x) (repr_value w y) /\ twf w r.
Proof. exact ubig_mul_w_exact. Qed.
Print Assumptions C01_ubig_mul_word_level.

Theorem C01_ibig_mul_word_level : forall w, 8 <= w -> forall div2by1,
  (forall d a, norm1 w d -> 0 <= a < d * B w -> div2by1 d a = (a / d, a mod d)) ->
  forall s0 x s1 y, tok w x -> tok w y ->
  exists r, ibig_mul_asis_w w div2by1 src_T_simple src_T_kara src_CHUNK src_SQR s0 x s1 y = Ok r /\
    srepr_value w r = ibig_mul_spec (signed s0 (repr_value w x)) (signed s1 (repr_value w y)) /\ twf w (snd r).
Proof. exact ibig_mul_w_exact. Qed.
Print Assumptions C01_ibig_mul_word_level.

Theorem C01_sqr_word_level : forall w, 8 <= w -> forall div2by1,
  (forall d a, norm1 w d -> 0 <= a < d * B w -> div2by1 d a = (a / d, a mod d)) ->
  forall x, tok w x ->
  exists r, repr_sqr_w w div2by1 src_T_simple src_T_kara src_SQR x = Ok r /\ repr_value w r = sqr_spec (repr_value w x) /\ twf w r.
Proof. exact sqr_w_exact. Qed.
Print Assumptions C01_sqr_word_level.

Theorem C01_ubig_cubic_word_level : forall w, 8 <= w -> forall div2by1,
  (forall d a, norm1 w d -> 0 <= a < d * B w -> div2by1 d a = (a / d, a mod d)) ->
  forall x, tok w x ->
  exists r, ubig_cubic_asis_w w div2by1 src_T_simple src_T_kara src_CHUNK src_SQR x = Ok r /\
    repr_value w r = cubic_spec (repr_value w x) /\ twf w r.
Proof. exact ubig_cubic_w_exact. Qed.
Print Assumptions C01_ubig_cubic_word_level.

Theorem C01_ibig_cubic_word_level : forall w, 8 <= w -> forall div2by1,
  (forall d a, norm1 w d -> 0 <= a < d * B w -> div2by1 d a = (a / d, a mod d)) ->
  forall s x, tok w x ->
  exists r, ibig_cubic_asis_w w div2by1 src_T_simple src_T_kara src_CHUNK src_SQR s x = Ok r /\
    srepr_value w r = cubic_spec (signed s (repr_value w x)) /\ twf w (snd r).
Proof. exact ibig_cubic_w_exact. Qed.
Print Assumptions C01_ibig_cubic_word_level.

(** ================================================================================================
    Scratch memory (Int/RingScratch.v: words consumed, allocation by allocation, by karatsuba.rs / toom_3.rs /
    helpers.rs / mul/mod.rs / sqr/mod.rs; DashuGen.MulMemory: the amounts reserved by memory_requirement_*,
    regenerated from the source).  consumed <= reserved for EVERY length. *)
Theorem C01_scratch_same_len_any_thresholds : forall T_simple T_kara, 1 <= T_simple -> 15 <= T_kara ->
  forall fuel n, 0 <= n ->
  0 <= need_same T_simple T_kara fuel n <= alloc_up_to T_simple T_kara n.
Proof. exact need_same_le. Qed.
Print Assumptions C01_scratch_same_len_any_thresholds.

Theorem C01_scratch_any_lengths_any_thresholds : forall T_simple T_kara CHUNK, 1 <= T_simple -> 15 <= T_kara -> 1 <= CHUNK ->
  forall fuel la lb, 0 <= la -> 0 <= lb ->
  0 <= need_gen T_simple T_kara CHUNK fuel la lb <= alloc_up_to T_simple T_kara (Z.min la lb).
Proof. exact need_gen_le. Qed.
Print Assumptions C01_scratch_any_lengths_any_thresholds.

(** the fuel of the consumption model suffices: any fuel above the length gives the same number *)
Theorem C01_scratch_fuel : forall T_simple T_kara, 1 <= T_simple -> 15 <= T_kara ->
  forall f1 f2 n, n < Z.of_nat f1 -> n < Z.of_nat f2 -> need_same T_simple T_kara f1 n = need_same T_simple T_kara f2 n.
Proof. exact need_same_fuel. Qed.
Print Assumptions C01_scratch_fuel.

(** mul_ops.rs mul_large: MemoryAllocation::new(mul::memory_requirement_exact(res_len, min(la, lb))) suffices *)
Theorem C01_scratch_mul : forall la lb, 0 <= la -> 0 <= lb ->
  0 <= mul_need mul_threshold_simple mul_threshold_karatsuba mul_simple_chunk_len la lb
    <= mul_memory_words_exact (la + lb) (Z.min la lb).
Proof. exact mul_scratch_sufficient. Qed.
Print Assumptions C01_scratch_mul.

(** square_large / pow.rs: MemoryAllocation::new(sqr::memory_requirement_exact(len)) suffices; the formula is monotone *)
Theorem C01_scratch_sqr : forall n, 0 <= n ->
  0 <= sqr_need mul_threshold_simple mul_threshold_karatsuba sqr_max_len_simple n <= sqr_memory_words n.
Proof. exact sqr_scratch_sufficient. Qed.
Print Assumptions C01_scratch_sqr.

Theorem C01_scratch_sqr_formula_monotone : forall a b, 0 <= a <= b -> sqr_memory_words a <= sqr_memory_words b.
Proof. exact sqr_memory_words_mono. Qed.
Print Assumptions C01_scratch_sqr_formula_monotone.

(** the kernels as verif_hooks::mul_kernel reserves memory for them *)
Theorem C01_scratch_kernels : forall which la lb, 0 <= lb <= la ->
  (which = 1 -> lb <= mul_threshold_simple) ->
  (which = 2 -> mul_threshold_simple < lb <= mul_threshold_karatsuba) -> (which = 3 -> mul_threshold_karatsuba < lb) ->
  0 <= which <= 3 ->
  kernel_need which la lb <= kernel_alloc which la lb.
Proof. exact kernel_scratch_sufficient. Qed.
Print Assumptions C01_scratch_kernels.

(** ================================================================================================
    pow.rs at word level with its storage bookkeeping (Int/RingPowW.v): exact result, canonical, and no push
    beyond the requested capacity (exp + 1 resp. 2 exp words), no push_zeros without room, no scratch shortage;
    shifts / trailing_zeros / set_bit are the word-level models of C09. *)
Theorem C01_pow_word_base_word_level : forall w, 8 <= w -> forall div2by1,
  (forall d a, norm1 w d -> 0 <= a < d * B w -> div2by1 d a = (a / d, a mod d)) ->
  forall base e, 0 <= base < B w -> 3 <= e ->
  exists r, pow_word_base_w w div2by1 src_T_simple src_T_kara src_SQR base e = Ok r /\ repr_value w r = base ^ e /\ twf w r.
Proof. exact pow_word_base_w_exact. Qed.
Print Assumptions C01_pow_word_base_word_level.

Theorem C01_pow_dword_base_word_level : forall w, 8 <= w -> forall div2by1,
  (forall d a, norm1 w d -> 0 <= a < d * B w -> div2by1 d a = (a / d, a mod d)) ->
  forall base e, B w <= base < B w * B w -> 3 <= e ->
  exists r, pow_dword_base_w w div2by1 src_T_simple src_T_kara src_SQR base e = Ok r /\ repr_value w r = base ^ e /\ twf w r.
Proof. exact pow_dword_base_w_exact. Qed.
Print Assumptions C01_pow_dword_base_word_level.

Theorem C01_ubig_pow_word_level : forall w, 8 <= w -> forall div2by1,
  (forall d a, norm1 w d -> 0 <= a < d * B w -> div2by1 d a = (a / d, a mod d)) ->
  forall cap x e, twf w x -> 0 <= e ->
  exists r, ubig_pow_w w div2by1 src_T_simple src_T_kara src_CHUNK src_SQR cap x e = Ok r /\
    repr_value w r = pow_spec (repr_value w x) e /\ twf w r.
Proof. exact ubig_pow_w_exact. Qed.
Print Assumptions C01_ubig_pow_word_level.

Theorem C01_ibig_pow_word_level : forall w, 8 <= w -> forall div2by1,
  (forall d a, norm1 w d -> 0 <= a < d * B w -> div2by1 d a = (a / d, a mod d)) ->
  forall cap s x e, twf w x -> 0 <= e ->
  exists r, ibig_pow_w w div2by1 src_T_simple src_T_kara src_CHUNK src_SQR cap s x e = Ok r /\
    srepr_value w r = pow_spec (signed s (repr_value w x)) e /\ twf w (snd r).
Proof. exact ibig_pow_w_exact. Qed.
Print Assumptions C01_ibig_pow_word_level.

(** ================================================================================================
    Primitive-operand forms (UBig + u64, i128 * IBig, u8 - UBig, x += 5u16 ...): conversion + operation
    (Int/RingPrim.v).  [side]: big op prim | prim op big; [byref]: the big operand is borrowed. *)
Theorem C01_prim_from_unsigned : forall w, 8 <= w -> forall p, 0 <= p ->
  repr_value w (repr_from_unsigned w p) = p /\ twf w (repr_from_unsigned w p).
Proof. exact repr_from_unsigned_ok. Qed.
Print Assumptions C01_prim_from_unsigned.

Theorem C01_prim_from_signed : forall w, 8 <= w -> forall bits x, 1 <= bits -> - 2 ^ (bits - 1) <= x < 2 ^ (bits - 1) ->
  srepr_value w (ibig_from_signed w bits x) = x /\ twf w (snd (ibig_from_signed w bits x)).
Proof. exact ibig_from_signed_ok. Qed.
Print Assumptions C01_prim_from_signed.

Theorem C01_ubig_prim : forall w, 8 <= w -> forall div2by1,
  (forall d a, norm1 w d -> 0 <= a < d * B w -> div2by1 d a = (a / d, a mod d)) ->
  forall op side byref x p, twf w x -> 0 <= p ->
  let '(a, b) := match side with PLeft => (repr_value w x, p) | PRight => (p, repr_value w x) end in
  match ubig_prim w div2by1 src_T_simple src_T_kara src_CHUNK src_SQR op side byref x p, ubig_prim_spec op a b with
  | Ok r, Ok v => repr_value w r = v /\ twf w r
  | Panic NegativeUBig, Panic NegativeUBig => True
  | _, _ => False
  end.
Proof. exact ubig_prim_exact. Qed.
Print Assumptions C01_ubig_prim.

Theorem C01_ibig_prim : forall w, 8 <= w -> forall div2by1,
  (forall d a, norm1 w d -> 0 <= a < d * B w -> div2by1 d a = (a / d, a mod d)) ->
  forall op side byref x q, twf w (snd x) -> twf w (snd q) ->
  let '(a, b) := match side with PLeft => (srepr_value w x, srepr_value w q) | PRight => (srepr_value w q, srepr_value w x) end in
  exists r, ibig_prim w div2by1 src_T_simple src_T_kara src_CHUNK src_SQR op side byref x q = Ok r /\
            srepr_value w r = ibig_prim_spec op a b /\ twf w (snd r).
Proof. exact ibig_prim_exact. Qed.
Print Assumptions C01_ibig_prim.

(** ==== round 4: the LOOP KERNELS regenerated from the Rust source (tools/translate_c01_r4.py -> DashuGen.WordKernelsGen,
    one Gallina fold / fixpoint per Rust loop) equal the hand-written models - for every word size w and EVERY input (the
    equalities are between programs, no well-formedness needed).  An edited loop body breaks one of these. *)
Theorem C01_gen_math_rs : forall w a b c d,
  mul_add_carry_gen w a b c = mul_add_carry w a b c /\ mul_add_2carry_gen w a b c d = mul_add_2carry w a b c d /\
  mul_add_carry_dword_gen w a b c = mul_add_carry_dword w a b c.
Proof. intros. repeat split. Qed.
Print Assumptions C01_gen_math_rs.

Theorem C01_gen_add_one_word_dword : forall w ws x,
  add_one_in_place_gen w ws = add_one_in_place w ws /\ sub_one_in_place_gen w ws = sub_one_in_place w ws /\
  add_word_in_place_gen w ws x = add_word_in_place w ws x /\ sub_word_in_place_gen w ws x = sub_word_in_place w ws x /\
  add_dword_in_place_gen w ws x = add_dword_in_place w ws x /\ sub_dword_in_place_gen w ws x = sub_dword_in_place w ws x.
Proof.
  intros. exact (conj (add_one_in_place_gen_eq w ws) (conj (sub_one_in_place_gen_eq w ws) (conj (add_word_in_place_gen_eq w ws x)
    (conj (sub_word_in_place_gen_eq w ws x) (conj (add_dword_in_place_gen_eq w ws x) (sub_dword_in_place_gen_eq w ws x)))))).
Qed.
Print Assumptions C01_gen_add_one_word_dword.

Theorem C01_gen_same_len_loops : forall w lhs rhs,
  add_same_len_in_place_gen w lhs rhs = add_same_len_in_place w lhs rhs /\
  sub_same_len_in_place_gen w lhs rhs = sub_same_len_in_place w lhs rhs /\
  sub_same_len_in_place_swap_gen w lhs rhs = sub_same_len_in_place_swap w lhs rhs.
Proof.
  intros. exact (conj (add_same_len_in_place_gen_eq w lhs rhs) (conj (sub_same_len_in_place_gen_eq w lhs rhs)
    (sub_same_len_in_place_swap_gen_eq w lhs rhs))).
Qed.
Print Assumptions C01_gen_same_len_loops.

Theorem C01_gen_add_sub_in_place : forall w lhs rhs,
  add_in_place_gen w lhs rhs = add_in_place w lhs rhs /\ sub_in_place_gen w lhs rhs = sub_in_place w lhs rhs.
Proof. intros. exact (conj (add_in_place_gen_eq w lhs rhs) (sub_in_place_gen_eq w lhs rhs)). Qed.
Print Assumptions C01_gen_add_sub_in_place.

(** the three `while` loops (fuel = counter + 1) of sub_in_place_with_sign never run out of fuel and return what the model does *)
Theorem C01_gen_sub_in_place_with_sign : forall w lhs rhs,
  sub_in_place_with_sign_gen w lhs rhs = sub_in_place_with_sign w lhs rhs.
Proof. exact sub_in_place_with_sign_gen_eq. Qed.
Print Assumptions C01_gen_sub_in_place_with_sign.

Theorem C01_gen_signed_forms : forall w ws s rhs x,
  add_signed_word_in_place_gen w ws x = add_signed_word_in_place w ws x /\
  add_signed_same_len_in_place_gen w ws s rhs = add_signed_same_len_in_place w ws s rhs /\
  add_signed_in_place_gen w ws s rhs = add_signed_in_place w ws s rhs.
Proof.
  intros. exact (conj (add_signed_word_in_place_gen_eq w ws x) (conj (add_signed_same_len_in_place_gen_eq w ws s rhs)
    (add_signed_in_place_gen_eq w ws s rhs))).
Qed.
Print Assumptions C01_gen_signed_forms.

Theorem C01_gen_mul_word_dword : forall w ws x carry,
  mul_word_in_place_with_carry_gen w ws x carry = mul_word_in_place_with_carry w ws x carry /\
  mul_word_in_place_gen w ws x = mul_word_in_place w ws x /\ mul_dword_in_place_gen w ws x = mul_dword_in_place w ws x.
Proof.
  intros. exact (conj (mul_word_in_place_with_carry_gen_eq w ws x carry) (conj (mul_word_in_place_gen_eq w ws x)
    (mul_dword_in_place_gen_eq w ws x))).
Qed.
Print Assumptions C01_gen_mul_word_dword.

Theorem C01_gen_add_sub_mul_word : forall w ws mult rhs,
  add_mul_word_same_len_in_place_gen w ws mult rhs = add_mul_word_same_len_in_place w ws mult rhs /\
  sub_mul_word_same_len_in_place_gen w ws mult rhs = sub_mul_word_same_len_in_place w ws mult rhs.
Proof. intros. exact (conj (add_mul_word_same_len_in_place_gen_eq w ws mult rhs) (sub_mul_word_same_len_in_place_gen_eq w ws mult rhs)). Qed.
Print Assumptions C01_gen_add_sub_mul_word.

(** mul/simple.rs: the rows index into c (`c[i..i + a.len()]`); they equal the peeling model whenever they stay inside c *)
Theorem C01_gen_schoolbook_rows : forall w c s a b, (length a + length b <= length c)%nat ->
  add_mul_chunk_gen w c a b = add_mul_chunk w c a b false /\ sub_mul_chunk_gen w c a b = sub_mul_chunk w c a b false /\
  add_signed_mul_chunk_gen w c s a b = add_signed_mul_chunk w c s a b.
Proof.
  intros w c s a b H. exact (conj (add_mul_chunk_gen_eq w c a b H) (conj (sub_mul_chunk_gen_eq w c a b H) (add_signed_mul_chunk_gen_eq w c s a b H))).
Qed.
Print Assumptions C01_gen_schoolbook_rows.
Example C01_gen_schoolbook_rows_nonvacuous :
  (length [3; 4] + length [5] <= length [1; 2; 0])%nat /\ add_mul_chunk_gen 8 [1; 2; 0] [3; 4] [5] = ([16; 22; 0], false).
Proof. split; [cbn; lia | reflexivity]. Qed.

(** the dispatcher the correspondence run evaluates (op wk, kernels 0..19) *)
Theorem C01_gen_word_kernel_dispatch : forall w which lhs rhs x sx,
  word_kernel_gen w which lhs rhs x sx = word_kernel_hand w which lhs rhs x sx.
Proof. exact word_kernel_gen_eq. Qed.
Print Assumptions C01_gen_word_kernel_dispatch.

(** value contracts, now about the REGENERATED functions *)
Theorem C01_gen_add_in_place_contract : forall w, 0 < w -> forall lhs rhs, (length rhs <= length lhs)%nat -> wf w lhs -> wf w rhs ->
  forall r c, add_in_place_gen w lhs rhs = (r, c) ->
  length r = length lhs /\ wf w r /\ value w r + b2z c * B w ^ len lhs = value w lhs + value w rhs.
Proof. exact gen_add_in_place_contract. Qed.
Print Assumptions C01_gen_add_in_place_contract.

Theorem C01_gen_sub_in_place_contract : forall w, 0 < w -> forall lhs rhs, (length rhs <= length lhs)%nat -> wf w lhs -> wf w rhs ->
  forall r c, sub_in_place_gen w lhs rhs = (r, c) ->
  length r = length lhs /\ wf w r /\ value w r + - b2z c * B w ^ len lhs = value w lhs + - value w rhs.
Proof. exact gen_sub_in_place_contract. Qed.
Print Assumptions C01_gen_sub_in_place_contract.

Theorem C01_gen_sub_in_place_with_sign_contract : forall w, 0 < w -> forall lhs rhs, (length rhs <= length lhs)%nat -> wf w lhs -> wf w rhs ->
  forall r s, sub_in_place_with_sign_gen w lhs rhs = (r, s) ->
  length r = length lhs /\ wf w r /\ signed s (value w r) = value w lhs - value w rhs.
Proof. exact gen_sub_in_place_with_sign_contract. Qed.
Print Assumptions C01_gen_sub_in_place_with_sign_contract.

Theorem C01_gen_mul_word_in_place_contract : forall w, 8 <= w -> forall ws rhs, wf w ws -> 0 < rhs < B w ->
  forall r c, mul_word_in_place_gen w ws rhs = (r, c) ->
  length r = length ws /\ wf w r /\ 0 <= c < B w /\ value w r + c * B w ^ len ws = value w ws * rhs.
Proof. exact gen_mul_word_in_place_contract. Qed.
Print Assumptions C01_gen_mul_word_in_place_contract.

Theorem C01_gen_mul_dword_in_place_contract : forall w, 8 <= w -> forall ws rhs, wf w ws -> 0 <= rhs < B w * B w ->
  forall r c, mul_dword_in_place_gen w ws rhs = (r, c) ->
  length r = length ws /\ wf w r /\ 0 <= c < B w * B w /\ value w r + c * B w ^ len ws = value w ws * rhs.
Proof. exact gen_mul_dword_in_place_contract. Qed.
Print Assumptions C01_gen_mul_dword_in_place_contract.

Theorem C01_gen_schoolbook_contract : forall w, 8 <= w -> forall c s a b,
  wf w c /\ wf w a /\ wf w b /\ length c = (length a + length b)%nat ->
  exists r carry, add_signed_mul_chunk_gen w c s a b = (r, carry) /\ length r = length c /\ wf w r /\
    value w r + carry * B w ^ len c = value w c + sgnz s * (value w a * value w b).
Proof. exact gen_schoolbook_contract. Qed.
Print Assumptions C01_gen_schoolbook_contract.
Example C01_gen_contracts_nonvacuous :
  wf 8 [255; 255; 1] /\ wf 8 [1] /\ add_in_place_gen 8 [255; 255; 1] [1] = ([0; 0; 2], false) /\
  sub_in_place_with_sign_gen 8 [1; 0; 0] [2; 0] = ([1; 0; 0], Negative) /\ mul_dword_in_place_gen 8 [255; 255; 255] 65535 = ([1; 0; 255], 65534).
Proof. repeat split; try reflexivity; repeat constructor; cbn; lia. Qed.

(** every kernel the run drives (op wk): the REGENERATED function meets the integer specification the oracle judges with
    (result = r mod B^n, returned carry / borrow = |r div B^n| with its sign), inside the contract boundary word_kernel_pre *)
Theorem C01_gen_word_kernels_meet_spec : forall w, 8 <= w -> forall which lhs rhs x sx, 0 <= which <= 19 -> which <> 11 ->
  word_kernel_pre w which lhs rhs x sx ->
  let '(l, (m, neg)) := word_kernel_gen w which lhs rhs x sx in
  length l = length lhs /\ wf w l /\
  (value w l, m, neg) = word_kernel_spec w which (len lhs) (value w lhs) (value w rhs) x sx.
Proof. exact word_kernel_gen_meets_spec. Qed.
Print Assumptions C01_gen_word_kernels_meet_spec.

Theorem C01_gen_word_kernel_with_sign : forall w, 8 <= w -> forall lhs rhs x sx, word_kernel_pre w 11 lhs rhs x sx ->
  let '(l, (m, neg)) := word_kernel_gen w 11 lhs rhs x sx in
  length l = length lhs /\ wf w l /\ m = 0 /\ (if neg then - value w l else value w l) = value w lhs - value w rhs.
Proof. exact word_kernel_gen_with_sign. Qed.
Print Assumptions C01_gen_word_kernel_with_sign.
Example C01_gen_word_kernels_nonvacuous :
  word_kernel_pre 8 19 [1; 0] [2; 3] 200 0 /\ word_kernel_gen 8 19 [1; 0] [2; 3] 200 0 = ([113; 166], (3, false)) /\
  word_kernel_spec 8 19 2 1 770 200 0 = (113 + 256 * 166, 3, false) /\ word_kernel_pre 8 11 [1; 0] [2] 0 0.
Proof. repeat split; try reflexivity; repeat constructor; cbn; lia. Qed.

(** ==== round 4: the Small x Large arms of mul_ops.rs at word level *)
(** shift::shl_in_place regenerated from shift.rs = the word-level model of C09, all inputs *)
Theorem C01_gen_shl_in_place : forall w ws s, shl_in_place_gen w ws s = BitsKernels.shl_in_place w ws s.
Proof. exact shl_in_place_gen_eq. Qed.
Print Assumptions C01_gen_shl_in_place.

(** ... and that word-level shift is the by-value shift the round-3 model of mul_large_dword used *)
Theorem C01_shl_in_place_word_level : forall w, 8 <= w -> forall ws k, wf w ws -> 0 <= k < w ->
  BitsKernels.shl_in_place w ws k = RingOps.shl_in_place w ws k.
Proof. exact shl_in_place_word_level. Qed.
Print Assumptions C01_shl_in_place_word_level.

Theorem C01_mul_large_dword_word_level : forall w, 8 <= w -> forall buffer rhs, wf w buffer -> 0 <= rhs < B w * B w ->
  mul_large_dword_w w buffer rhs = mul_large_dword w buffer rhs.
Proof. exact mul_large_dword_w_eq. Qed.
Print Assumptions C01_mul_large_dword_word_level.

(** the `x * x` square shortcut of mul_large: cmp::cmp_in_place (C05's word-level model) is Equal exactly for equal word lists *)
Theorem C01_square_shortcut_cmp_in_place : forall a b,
  list_eqb a b = match ReprOrdModel.cmp_in_place a b with Eq => true | _ => false end.
Proof. exact cmp_in_place_is_eq. Qed.
Print Assumptions C01_square_shortcut_cmp_in_place.

Theorem C01_ubig_mul_word_level_r4 : forall w, 8 <= w -> forall div2by1,
  (forall d a, norm1 w d -> 0 <= a < d * B w -> div2by1 d a = (a / d, a mod d)) ->
  forall x y, tok w x -> tok w y ->
  exists r, repr_mul_w4 w div2by1 src_T_simple src_T_kara src_CHUNK src_SQR x y = Ok r /\
    Ok (repr_value w r) = ubig_mul_spec (repr_value w x) (repr_value w y) /\ twf w r.
Proof. exact ubig_mul_w4_exact. Qed.
Print Assumptions C01_ubig_mul_word_level_r4.
Example C01_mul_large_dword_nonvacuous :
  wf 8 [255; 1; 7] /\ mul_large_dword_w 8 [255; 1; 7] 16 = Large [240; 31; 112] /\ mul_large_dword_w 8 [255; 255; 255] 128 = Large [128; 255; 255; 127] /\
  mul_large_dword_w 8 [255; 255; 255] 65535 = Large [1; 0; 255; 254; 255].
Proof. repeat split; try reflexivity; repeat constructor; cbn; lia. Qed.

(** ==== round 4, finding F01 (fixed): the shift count exp * shift of UBig::pow / IBig::pow in usize arithmetic (U = 2^bits of usize).
    After the fix the count is checked: either pow returns (odd * 2^shift)^exp exactly, or it panics with the documented
    'try to allocate too much memory' - and then the true result has more than usize::MAX bits. *)
Theorem C01_pow_shift_checked : forall U odd e shift, 0 <= e -> 0 <= shift ->
  match pow_shifted (pow_shift U e shift) odd e with
  | Ok v => v = (odd * 2 ^ shift) ^ e
  | Panic r => r = AllocateTooMuch /\ U <= e * shift
  | _ => False
  end.
Proof. exact pow_shift_exact. Qed.
Print Assumptions C01_pow_shift_checked.

Theorem C01_pow_shift_panic_justified : forall U odd e shift, 0 < odd -> 0 <= e -> 0 <= shift -> U <= e * shift ->
  2 ^ U <= (odd * 2 ^ shift) ^ e.
Proof. exact pow_shift_panic_justified. Qed.
Print Assumptions C01_pow_shift_panic_justified.

(** before the fix (64-bit usize, no overflow checks): UBig 2^32 .pow(2^59) returned 1 *)
Theorem C01_pow_shift_before_fix_refuted :
  exists e shift, 0 <= e < 2 ^ 64 /\ 0 <= shift < 2 ^ 64 /\
    pow_shifted (pow_shift_before_fix (2 ^ 64) false e shift) 1 e = Ok 1 /\ 1 <> (1 * 2 ^ shift) ^ e.
Proof. exact pow_shift_before_fix_refuted. Qed.
Print Assumptions C01_pow_shift_before_fix_refuted.
Example C01_pow_shift_nonvacuous : pow_shifted (pow_shift (2 ^ 64) 5 3) 3 5 = Ok ((3 * 2 ^ 3) ^ 5) /\ pow_shift (2 ^ 64) (2 ^ 59) 32 = Panic AllocateTooMuch.
Proof. split; reflexivity. Qed.

(** ==== round 4: Repr::from_unsigned at word level (primitive operands wider than a double word go through their
    little-endian bytes and Repr::from_le_bytes_large::<false>; reachable with u128 on the 32-bit build) *)
Theorem C01_canonical_unique : forall w, 8 <= w -> forall r1 r2, twf w r1 -> twf w r2 -> repr_value w r1 = repr_value w r2 -> r1 = r2.
Proof. exact twf_unique. Qed.
Print Assumptions C01_canonical_unique.

(** one word per chunk of WORD_BYTES bytes + the zero-padded remainder: the number C07's model of Repr::from_le_bytes gives, canonical *)
Theorem C01_from_le_bytes_large_word_level : forall w, 8 <= w -> forall k, (1 <= k)%nat -> w = 8 * Z.of_nat k ->
  forall bs, IoBytes.bytes_ok bs ->
  repr_value w (from_le_bytes_large_w w bs) = IoModel.from_le_bytes_asis w bs /\ twf w (from_le_bytes_large_w w bs).
Proof. exact from_le_bytes_large_w_ok. Qed.
Print Assumptions C01_from_le_bytes_large_word_level.

(** hence the word-level from_unsigned IS the by-value model the primitive-operand theorems (C01_ubig_prim, C01_ibig_prim) use *)
Theorem C01_from_unsigned_word_level : forall w, 8 <= w -> forall k, (1 <= k)%nat -> w = 8 * Z.of_nat k ->
  forall nbytes x, 0 <= x < 256 ^ Z.of_nat nbytes -> repr_from_unsigned_w w nbytes x = repr_from_unsigned w x.
Proof. exact repr_from_unsigned_w_eq. Qed.
Print Assumptions C01_from_unsigned_word_level.
Example C01_from_unsigned_word_level_nonvacuous :
  32 = 8 * Z.of_nat 4 /\ 0 <= 2 ^ 100 + 5 < 256 ^ Z.of_nat 16 /\ repr_from_unsigned_w 32 16 (2 ^ 100 + 5) = Large [5; 0; 0; 16] /\
  repr_from_unsigned_w 32 16 (2 ^ 64 - 1) = Small (2 ^ 64 - 1).
Proof. repeat split; try reflexivity; cbn; lia. Qed.

(** ==== round 5: the BODIES of the multiplication stack are REGENERATED from the Rust source on every run
    (coq/gen/MulBodiesGen.v by tools/translate_c01_r5.py: helpers::add_signed_mul_split_into_chunks, simple / karatsuba /
    toom_3 ::add_signed_mul, karatsuba::add_signed_mul_same_len, the dispatch of mul/mod.rs, multiply, sqr::sqr, the four
    size constants, tied by a generated fuel knot) and proved equal to the hand models; toom_3::add_signed_mul_same_len is
    not regenerated (reported unparsed): it is the parameter [toom] / the hand model toom3x_same_len *)
Theorem C01_gen_size_constants :
  THRESHOLD_SIMPLE_gen = src_T_simple /\ THRESHOLD_KARATSUBA_gen = src_T_kara /\ CHUNK_LEN_gen = src_CHUNK /\ MAX_LEN_SIMPLE_gen = src_SQR.
Proof. exact gen_constants. Qed.
Print Assumptions C01_gen_size_constants.

(** karatsuba::add_signed_mul_same_len as generated IS the hand model: every w, every word list, every recursion parameter *)
Theorem C01_gen_karatsuba_step : forall w (rec_same rec_gen : mulfn) c s a b,
  karatsuba_add_signed_mul_same_len_gen w rec_same rec_gen c s a b = karatsuba_same_len w rec_same c s a b.
Proof. exact karatsuba_same_len_gen_eq. Qed.
Print Assumptions C01_gen_karatsuba_step.

(** helpers::add_signed_mul_split_into_chunks (fuelled while loop re-slicing a and c, code after the loop, operand swap of the
    tail) = split_into_chunks, inside the length contract the code debug_asserts, for every chunk multiplier that keeps the
    length of its output slice *)
Theorem C01_gen_chunk_loop : forall w (f1 f rec_same rg1 rec_gen : mulfn) (chunk_len : nat) c s a b,
  (forall c s a b, length c = (length a + length b)%nat -> rg1 c s a b = rec_gen c s a b) ->
  (forall c s a b, f1 c s a b = f c s a b) ->
  keeps_len f chunk_len (length b) -> length c = (length a + length b)%nat ->
  add_signed_mul_split_into_chunks_gen w rec_same rg1 c s a b chunk_len f1 = split_into_chunks w f rec_gen chunk_len c s a b.
Proof. exact split_into_chunks_gen_eq. Qed.
Print Assumptions C01_gen_chunk_loop.
Example C01_gen_chunk_loop_nonvacuous :
  keeps_len (simple_chunk_fn 8) 2 1 /\
  add_signed_mul_split_into_chunks_gen 8 (simple_chunk_fn 8) (simple_chunk_fn 8) [1; 2; 3; 4; 5; 6] Positive [255; 7; 9; 200; 13] [255] 2 (simple_chunk_fn 8)
  = Ok ([2; 249; 1; 69; 191; 19], 0).
Proof. split; [apply simple_chunk_keeps_len|reflexivity]. Qed.

(** the chunk multipliers do keep the length: schoolbook chunk inside its contract; Karatsuba step (>= 2 words) when the
    products it requests do; Toom-3 step whatever they return *)
Theorem C01_chunk_multipliers_keep_length : forall w,
  (forall la lb, keeps_len (simple_chunk_fn w) la lb) /\
  (forall rec_same : mulfn, (forall m, keeps_len rec_same m m) -> forall n, (2 <= n)%nat -> keeps_len (karatsuba_same_len w rec_same) n n) /\
  (forall div6 shr1 (rec_same : mulfn) c s a b r k, toom3g_same_len w div6 shr1 rec_same c s a b = Ok (r, k) -> length r = length c).
Proof. exact chunk_multipliers_keep_length. Qed.
Print Assumptions C01_chunk_multipliers_keep_length.

(** the hand dispatchers satisfy the GENERATED recursion equations: one level of the real code around the model is the model *)
Theorem C01_gen_same_len_dispatch_level : forall w (toom : mulfn -> mulfn) f (rec_gen : mulfn) c s a b,
  mulg_same w toom THRESHOLD_SIMPLE_gen THRESHOLD_KARATSUBA_gen (S f) c s a b
  = mul_add_signed_mul_same_len_body_gen w toom (mulg_same w toom THRESHOLD_SIMPLE_gen THRESHOLD_KARATSUBA_gen f) rec_gen c s a b.
Proof. exact mulg_same_unfold_gen. Qed.
Print Assumptions C01_gen_same_len_dispatch_level.

Theorem C01_gen_dispatch_level : forall w (toom : mulfn -> mulfn),
  (forall (rec_same : mulfn) c s a b r k, toom rec_same c s a b = Ok (r, k) -> length r = length c) ->
  forall f c s a b, length c = (length a + length b)%nat ->
  mulg_gen w toom THRESHOLD_SIMPLE_gen THRESHOLD_KARATSUBA_gen CHUNK_LEN_gen (S f) c s a b
  = mul_add_signed_mul_body_gen w toom (mulg_same w toom THRESHOLD_SIMPLE_gen THRESHOLD_KARATSUBA_gen f)
      (mulg_gen w toom THRESHOLD_SIMPLE_gen THRESHOLD_KARATSUBA_gen CHUNK_LEN_gen f) c s a b.
Proof. exact mulg_gen_unfold_gen_full. Qed.
Print Assumptions C01_gen_dispatch_level.

(** the regenerated stack as a whole, with its generated fuel knot and the word-level Toom-3 step: same-length entry point
    = hand model for EVERY input; general entry point and the four verif_hooks::mul_kernel entry points inside the length contract *)
Theorem C01_gen_stack_same_len : forall w div2by1 c s a b,
  gen_rec_same w div2by1 c s a b = add_signed_mul_same_len_w w div2by1 THRESHOLD_SIMPLE_gen THRESHOLD_KARATSUBA_gen c s a b.
Proof. exact gen_rec_same_eq. Qed.
Print Assumptions C01_gen_stack_same_len.

Theorem C01_gen_stack : forall w div2by1 c s a b, length c = (length a + length b)%nat ->
  gen_rec_gen w div2by1 c s a b = add_signed_mul_w w div2by1 THRESHOLD_SIMPLE_gen THRESHOLD_KARATSUBA_gen CHUNK_LEN_gen c s a b.
Proof. exact gen_rec_gen_eq. Qed.
Print Assumptions C01_gen_stack.

Theorem C01_gen_stack_kernel_entries : forall w div2by1 which c s a b,
  length c = (length a + length b)%nat -> (which = 2 -> (2 <= length b)%nat) ->
  kmul_bodies_gen w div2by1 which c s a b =
  (if which =? 0 then add_signed_mul_w w div2by1 THRESHOLD_SIMPLE_gen THRESHOLD_KARATSUBA_gen CHUNK_LEN_gen c s a b
   else if which =? 1 then simple_add_signed_mul_w w div2by1 THRESHOLD_SIMPLE_gen THRESHOLD_KARATSUBA_gen CHUNK_LEN_gen c s a b
   else if which =? 2 then karatsuba_add_signed_mul_w w div2by1 THRESHOLD_SIMPLE_gen THRESHOLD_KARATSUBA_gen CHUNK_LEN_gen c s a b
   else toom3_add_signed_mul_w w div2by1 THRESHOLD_SIMPLE_gen THRESHOLD_KARATSUBA_gen CHUNK_LEN_gen c s a b).
Proof. exact kmul_bodies_gen_eq. Qed.
Print Assumptions C01_gen_stack_kernel_entries.

(** mul::multiply and sqr::sqr as generated, on the zero-filled buffer their callers allocate = multiply_w / sqr_w; with
    C01_multiply_word_level / C01_sqr_word_level the regenerated code returns exactly a * b and a^2 *)
Theorem C01_gen_multiply_sqr : forall w div2by1,
  (forall a b, mul_multiply_gen (gen_rec_same w div2by1) (gen_rec_gen w div2by1) (repeat 0 (length a + length b)) a b
               = multiply_w w div2by1 THRESHOLD_SIMPLE_gen THRESHOLD_KARATSUBA_gen CHUNK_LEN_gen a b) /\
  (forall a, ksqr_bodies_gen w div2by1 a = sqr_w w div2by1 THRESHOLD_SIMPLE_gen THRESHOLD_KARATSUBA_gen MAX_LEN_SIMPLE_gen a).
Proof. exact gen_multiply_sqr. Qed.
Print Assumptions C01_gen_multiply_sqr.
Example C01_gen_stack_nonvacuous :
  mul_multiply_gen (gen_rec_same 64 DivWordInst.x2by1) (gen_rec_gen 64 DivWordInst.x2by1) (repeat 0 3) [2 ^ 64 - 1; 5] [2 ^ 64 - 1] = Ok [1; 2 ^ 64 - 7; 5].
Proof. vm_compute. reflexivity. Qed.
