(** C01 - integer ring arithmetic is exact for every operand size and sign.
    ONLY statements pinned here; proofs live in Dashu.Int.Ring*. *)
From Dashu Require Import Base.Prelude Base.Words Int.RingSpec Int.RingSign.
From DashuGen Require Import SignTables Params.
Open Scope Z_scope.

Theorem C01_ibig_add_table : forall s0 m0 s1 m1, ibig_add_gen s0 m0 s1 m1 = signed s0 m0 + signed s1 m1.
Proof. exact ibig_add_gen_correct. Qed.
Print Assumptions C01_ibig_add_table.

Theorem C01_ibig_sub_table : forall s0 m0 s1 m1, ibig_sub_gen s0 m0 s1 m1 = signed s0 m0 - signed s1 m1.
Proof. exact ibig_sub_gen_correct. Qed.
Print Assumptions C01_ibig_sub_table.

Theorem C01_ibig_mul_table : forall s0 m0 s1 m1, ibig_mul_gen s0 m0 s1 m1 = signed s0 m0 * signed s1 m1.
Proof. exact ibig_mul_gen_correct. Qed.
Print Assumptions C01_ibig_mul_table.
