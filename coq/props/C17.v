(** C17 - the hand-managed integer storage is memory-safe and keeps its invariants.
    ONLY statements pinned here; proofs live in Dashu.Int.Storage*.
    [safe c m Q]: running the machine computation c from ghost heap m ends in a result satisfying Q, or in
    one of the two "value too large for the address space" outcomes; any other guard failure (assert!,
    bounds precondition of an unsafe block, double free, free with a wrong size) is excluded.
    [Own bl m]: the live blocks of the ghost heap m are exactly bl, each once.
    [TargInv M a]: an operand handed to an arithmetic routine comes from a value satisfying the invariant (an
    owned buffer with len <= capacity and >= 3 words / borrowed words of a value with >= 3 words / a double word).
    [RQ M F Q]: Q holds for every result that satisfies the invariant and owns exactly its block beside the frame F.
    [OQ M F Q]: the same for a routine that may instead raise a documented panic after releasing what it owned.
    All statements hold for every word size w > 0 and every MAX_CAPACITY M >= 8. *)
From Dashu Require Import Base.Prelude Base.Words Int.StorageModel Int.StorageProofs Int.StorageArith Int.StorageHistory.
From Dashu Require Import Int.StorageOps2 Int.StorageOps2Proofs Int.ScratchModel Int.ScratchProofs Int.StorageGenProof.
From DashuGen Require Import StorageGen.
Open Scope Z_scope.

Theorem C17_default_capacity_compact : forall M, 8 <= M -> forall n, 0 <= n <= M ->
  n <= default_capacity M n <= max_compact_capacity M n /\ 2 <= default_capacity M n <= M.
Proof. exact default_capacity_bounds. Qed.
Print Assumptions C17_default_capacity_compact.

(** Repr::from_buffer - the exit of every arithmetic operation - establishes the invariant from ANY owned
    buffer with len <= capacity, frees the buffer when the value becomes inline, keeps the rest of the heap *)
Theorem C17_from_buffer_establishes_invariant : forall w M, 8 <= M ->
  forall (b : buffer) (F : list (Z * Z)) (m : mem) (Q : repr -> mem -> Prop),
  Own (bblk b :: F) m -> BufOK M b ->
  (forall r m', Own (rblks r ++ F) m' -> ReprInv M r -> rsign r = Positive -> Q r m') ->
  safe (from_buffer w M b) m Q.
Proof. exact wp_from_buffer. Qed.
Print Assumptions C17_from_buffer_establishes_invariant.

Theorem C17_clone : forall M, 8 <= M ->
  forall (v : view) (F : list (Z * Z)) (m : mem) (Q : repr -> mem -> Prop),
  Own F m -> ViewInv M v ->
  (forall r m', Own (rblks r ++ F) m' -> ReprInv M r -> Q r m') ->
  safe (repr_clone M v) m Q.
Proof. exact wp_repr_clone. Qed.
Print Assumptions C17_clone.

(** clone_from between values of any sizes (reuse window, reallocation, inline source, static source) *)
Theorem C17_clone_from : forall M, 8 <= M ->
  forall (self : repr) (v : view) (F : list (Z * Z)) (m : mem) (Q : repr -> mem -> Prop),
  Own (rblks self ++ F) m -> ReprInv M self -> ViewInv M v ->
  (forall r m', Own (rblks r ++ F) m' -> ReprInv M r -> Q r m') ->
  safe (repr_clone_from M self v) m Q.
Proof. exact wp_repr_clone_from. Qed.
Print Assumptions C17_clone_from.

(** Repr::ones as repaired by 28de539 (n <= DWORD_BITS inline): invariant for every n *)
Theorem C17_ones : forall w M, 0 < w -> 8 <= M ->
  forall (n : Z) (F : list (Z * Z)) (m : mem) (Q : repr -> mem -> Prop),
  Own F m -> 0 <= n ->
  (forall r m', Own (rblks r ++ F) m' -> ReprInv M r -> rsign r = Positive -> Q r m') ->
  safe (ones w M n) m Q.
Proof. exact wp_ones. Qed.
Print Assumptions C17_ones.

(** Buffer::push_resizing / ensure_capacity never fail their guards on a buffer of capacity >= 2 *)
Theorem C17_push_resizing : forall M, 8 <= M ->
  forall (b : buffer) (x : Z) (F : list (Z * Z)) (m : mem) (Q : buffer -> mem -> Prop),
  Own (bblk b :: F) m -> BufOK M b ->
  (forall b' m', Own (bblk b' :: F) m' -> BufOK M b' -> bws b' = bws b \/ bws b' = bws b ++ [x] -> Q b' m') ->
  safe (push_resizing M b x) m Q.
Proof. exact wp_push_resizing. Qed.
Print Assumptions C17_push_resizing.

Theorem C17_init : forall M n, StateInv M (repeat zero n) mem0.
Proof. exact StateInv_init. Qed.
Print Assumptions C17_init.

(** ---- the buffer handling of the arithmetic operations: every capacity computation of the code suffices
    (no guard fails), the result satisfies the invariant, by-value operands that are not reused are freed
    exactly once, nothing leaks.  Operand forms: TSmall / TLarge (by value), TRefSmall / TRefLarge (by reference
    or static) - all 16 combinations. *)

(** UBig + UBig: add_dword (spill to 3 words), add_large_dword, add_large (ensure_capacity + push_slice of the
    longer tail, carry propagation, push_resizing of the final carry) *)
Theorem C17_add : forall w M, 8 <= M ->
  forall (a b : targ) (F : list (Z * Z)) (m : mem) (Q : repr -> mem -> Prop),
  Own (tblks a ++ tblks b ++ F) m -> TargInv M a -> TargInv M b -> RQ M F Q -> safe (add_mag w M a b) m Q.
Proof. exact wp_add_mag. Qed.
Print Assumptions C17_add.

(** UBig - UBig: the documented NegativeUBig panic is raised only after every owned buffer was released *)
Theorem C17_sub : forall w M, 8 <= M ->
  forall (a b : targ) (F : list (Z * Z)) (m : mem) (Q : outcome -> mem -> Prop),
  Own (tblks a ++ tblks b ++ F) m -> TargInv M a -> TargInv M b -> OQ M F Q -> safe (sub_mag w M a b) m Q.
Proof. exact wp_sub_mag. Qed.
Print Assumptions C17_sub.

(** the signed subtraction behind IBig + / - (sub_large with sign, sub_large_ref_val growing the right operand) *)
Theorem C17_sub_signed : forall w M, 8 <= M ->
  forall (a b : targ) (F : list (Z * Z)) (m : mem) (Q : outcome -> mem -> Prop),
  Own (tblks a ++ tblks b ++ F) m -> TargInv M a -> TargInv M b -> OQ M F Q -> safe (sub_signed w M a b) m Q.
Proof. exact wp_sub_signed. Qed.
Print Assumptions C17_sub_signed.

(** UBig * UBig: mul_dword (spill to 4 words), mul_large_dword (push_resizing of a word carry / ensure_capacity
    len + 2 for a double-word carry), mul_large (result buffer of len lhs + len rhs words) *)
Theorem C17_mul : forall w M, 8 <= M ->
  forall (a b : targ) (F : list (Z * Z)) (m : mem) (Q : repr -> mem -> Prop),
  Own (tblks a ++ tblks b ++ F) m -> TargInv M a -> TargInv M b -> RQ M F Q -> safe (mul_mag w M a b) m Q.
Proof. exact wp_mul_mag. Qed.
Print Assumptions C17_mul.

(** & of magnitudes: lowest_dword of a large operand (len >= 2), bitand_large (truncate to the shorter length) *)
Theorem C17_bitand : forall w M, 8 <= M ->
  forall (a b : targ) (F : list (Z * Z)) (m : mem) (Q : repr -> mem -> Prop),
  Own (tblks a ++ tblks b ++ F) m -> TargInv M a -> TargInv M b -> RQ M F Q -> safe (and_mag w M a b) m Q.
Proof. exact wp_and_mag. Qed.
Print Assumptions C17_bitand.

(** | and ^ of magnitudes (f = Z.lor / Z.lxor; the theorem holds for any f): bitor_large_dword (lowest_dword_mut),
    bitor_large (ensure_capacity + push_slice of the longer tail) *)
Theorem C17_bitor_bitxor : forall w M, 8 <= M ->
  forall (f : Z -> Z -> Z) (a b : targ) (F : list (Z * Z)) (m : mem) (Q : repr -> mem -> Prop),
  Own (tblks a ++ tblks b ++ F) m -> TargInv M a -> TargInv M b -> RQ M F Q -> safe (orx_mag w M f a b) m Q.
Proof. exact wp_orx_mag. Qed.
Print Assumptions C17_bitor_bitxor.

(** / : div_large_dword, div_large (div_rem_in_lhs pushes the top quotient word with push_resizing, erase_front of
    the remainder words, the divisor buffer is freed); DivideBy0 only after the owned buffer was released *)
Theorem C17_div : forall w M, 8 <= M ->
  forall (a b : targ) (F : list (Z * Z)) (m : mem) (Q : outcome -> mem -> Prop),
  Own (tblks a ++ tblks b ++ F) m -> TargInv M a -> TargInv M b -> OQ M F Q -> safe (div_mag w M a b) m Q.
Proof. exact wp_div_mag. Qed.
Print Assumptions C17_div.

(** % : rem_large (the remainder is copied into the divisor's buffer, lhs[..n] in range, the dividend buffer is
    freed), the short-dividend cases (from_buffer of the dividend / Buffer::clone_from_slice into the divisor) *)
Theorem C17_rem : forall w M, 8 <= M ->
  forall (a b : targ) (F : list (Z * Z)) (m : mem) (Q : outcome -> mem -> Prop),
  Own (tblks a ++ tblks b ++ F) m -> TargInv M a -> TargInv M b -> OQ M F Q -> safe (rem_mag w M a b) m Q.
Proof. exact wp_rem_mag. Qed.
Print Assumptions C17_rem.

(** Buffer::into_boxed_slice (ConstLargeDivisor::new, ReducedLarge::{one, from_ubig}, inv_large,
    convert_from_normalized): realloc is handed the layout the block was allocated with, and the Box<[Word]> owns
    a block of exactly len words ... *)
Theorem C17_into_boxed_slice : forall (b : buffer) (F : list (Z * Z)) (m : mem) (Q : option Z * list Z -> mem -> Prop),
  Own (bblk b :: F) m ->
  (forall bx m', Own (box_blks bx ++ F) m' -> snd bx = bws b -> Q bx m') ->
  safe (into_boxed_slice b) m Q.
Proof. exact wp_into_boxed_slice. Qed.
Print Assumptions C17_into_boxed_slice.

(** ... so that dropping the box frees the block with the size it was last (re)allocated with *)
Theorem C17_drop_box : forall (bx : option Z * list Z) (F : list (Z * Z)) (m : mem) (Q : unit -> mem -> Prop),
  Own (box_blks bx ++ F) m -> (forall m', Own F m' -> Q tt m') -> safe (drop_box bx) m Q.
Proof. exact wp_drop_box. Qed.
Print Assumptions C17_drop_box.

(** all thirteen binary operators of the machine: UBig + - * & | ^ / %, IBig + - * / % through the sign tables *)
Theorem C17_binary_operators : forall w M, 8 <= M ->
  forall (f : binop) (s0 : sign) (a : targ) (s1 : sign) (b : targ) (F : list (Z * Z)) (m : mem) (Q : outcome -> mem -> Prop),
  Own (tblks a ++ tblks b ++ F) m -> TargInv M a -> TargInv M b -> OQ M F Q -> safe (run_bin w M f s0 a s1 b) m Q.
Proof. exact wp_run_bin. Qed.
Print Assumptions C17_binary_operators.

(** << : shl_dword (one / double word spilled), shl_large (in-place test capacity >= len + shift_words + 1,
    push + push_zeros_front), shl_large_ref *)
Theorem C17_shl : forall w M, 0 < w -> 8 <= M ->
  forall (a : targ) (n : Z) (F : list (Z * Z)) (m : mem) (Q : repr -> mem -> Prop),
  Own (tblks a ++ F) m -> TargInv M a -> 0 <= n -> RQ M F Q -> safe (shl_mag w M a n) m Q.
Proof. exact wp_shl_mag. Qed.
Print Assumptions C17_shl.

Theorem C17_shr : forall w M, 0 < w -> 8 <= M ->
  forall (a : targ) (n : Z) (F : list (Z * Z)) (m : mem) (Q : repr -> mem -> Prop),
  Own (tblks a ++ F) m -> TargInv M a -> 0 <= n -> RQ M F Q -> safe (shr_mag w M a n) m Q.
Proof. exact wp_shr_mag. Qed.
Print Assumptions C17_shr.

(** set_bit: with_bit_dword_spilled (idx + 1 words, idx - 2 does not underflow), with_bit_large (ensure_capacity idx + 1) *)
Theorem C17_set_bit : forall w M, 0 < w -> 8 <= M ->
  forall (a : targ) (n : Z) (F : list (Z * Z)) (m : mem) (Q : repr -> mem -> Prop),
  Own (tblks a ++ F) m -> TargInv M a -> is_ref a = false -> 0 <= n -> RQ M F Q -> safe (set_bit w M a n) m Q.
Proof. exact wp_set_bit. Qed.
Print Assumptions C17_set_bit.

Theorem C17_clear_bit : forall w M, 8 <= M ->
  forall (a : targ) (n : Z) (F : list (Z * Z)) (m : mem) (Q : repr -> mem -> Prop),
  Own (tblks a ++ F) m -> TargInv M a -> is_ref a = false -> RQ M F Q -> safe (clear_bit w M a n) m Q.
Proof. exact wp_clear_bit. Qed.
Print Assumptions C17_clear_bit.

(** EVERY step of the machine - construction from words / double words / ones, clone, clone_from of a value or a
    static, drop, move, swap, neg, abs, the thirteen binary operators (+ - * & | ^ / % and the signed + - * / %) in every call form (operands by value, by
    reference, static; a by-value operand is moved out of its slot), shl, shr, set_bit, clear_bit, the move of a value into a ConstDivisor
    (Buffer -> Box<[Word]>) with its read-back and drop, and the oracle's re-synchronisation device - preserves the invariant of the whole pool and the heap ledger.
    [op_ok] admits every constructor of [op]: slots exist, statics are normalized, bit counts are >= 0.
    (full version of the former C17_step_storage_ops_partial) *)
Theorem C17_step_storage_ops : forall w M, 0 < w -> 8 <= M ->
  forall (o : op) (pool : list repr) (m : mem),
  op_ok w M (length pool) o -> StateInv M pool m ->
  safe (step w M o pool) m (fun pr m' => StateInv M (fst pr) m' /\ length (fst pr) = length pool).
Proof. exact step_safe. Qed.
Print Assumptions C17_step_storage_ops.

(** all finite histories of steps from the initial pool: invariant at the end, and the final drop of the pool
    frees every block exactly once (empty ghost heap).  (full version of the former
    C17_histories_storage_ops_partial: the arithmetic steps are covered) *)
Theorem C17_histories_storage_ops : forall w M, 0 < w -> 8 <= M ->
  forall (n : nat) (ops : list op), Forall (op_ok w M n) ops ->
  safe (run w M ops (repeat zero n)) mem0
       (fun pool m => StateInv M pool m /\ safe (drop_all pool) m (fun _ m' => forall p, blk m' p = None)).
Proof. exact history_safe. Qed.
Print Assumptions C17_histories_storage_ops.

(** ================================================================== round 3 ==================================================================
    (a) the extended machine: pow, sqr, gcd, div_rem, next_power_of_two, clear_high_bits, split_bits
    [gk] is the Lehmer kernel gcd::gcd_in_place (length of the result, buffer it is stored in), constrained only by
    its contract; [OQ2] is OQ for a routine returning two values. *)

(** Buffer::push_resizing on a buffer with spare capacity never touches the allocator - the "actually never resize"
    comments of pow_word_base / pow_dword_base *)
Theorem C17_push_resizing_fits : forall (M : Z) (b : buffer) (x : Z) (m : mem) (Q : buffer -> mem -> Prop),
  len (bws b) < bcap b -> Q b m -> Q (setws b (bws b ++ [x])) m -> safe (push_resizing M b x) m Q.
Proof. exact push_resizing_fits. Qed.
Print Assumptions C17_push_resizing_fits.

(** the loop of pow_word_base from bit p of the exponent e down to bit 0: entered with res in at most
    2 * (e >> (p+1)) words, a capacity of at least e + 1 words (Buffer::allocate(exp + 1)) and a scratch copy area
    of at least e / 2 words, it runs to the end INSIDE THE SAME BLOCK and the same heap: every push_resizing
    fits, every res.push_zeros(res.len()) has room, every scratch copy of res fits; at most e words at the end *)
Theorem C17_pow_word_loop_in_place : forall (w M sc : Z) (p : nat) (e wbase : Z) (res : buffer) (m : mem),
  0 <= e -> 2 <= len (bws res) <= 2 * (e / 2 ^ (Z.of_nat p + 1)) -> e + 1 <= bcap res -> e / 2 <= sc ->
  safe (pow_word_loop w M sc p e wbase res) m (same_block res m 2 e).
Proof. exact wp_pow_word_loop. Qed.
Print Assumptions C17_pow_word_loop_in_place.

(** pow_dword_base: at most 4 * (e >> (p+1)) words on entry, capacity at least 2 * e (Buffer::allocate(2 * exp)) *)
Theorem C17_pow_dword_loop_in_place : forall (w M sc : Z) (p : nat) (e base : Z) (res : buffer) (m : mem),
  0 <= e -> 2 <= len (bws res) <= 4 * (e / 2 ^ (Z.of_nat p + 1)) -> 2 * e <= bcap res -> e <= sc ->
  safe (pow_dword_loop w M sc p e base res) m (same_block res m 2 (2 * e)).
Proof. exact wp_pow_dword_loop. Qed.
Print Assumptions C17_pow_dword_loop_in_place.

(** IBig::pow / UBig::pow of a borrowed operand: exp = 0, 1, 2 shortcuts, power-of-two bases through set_bit,
    pow_word_base, pow_dword_base, pow_large_base, and the path that first removes the factor 2^shift
    (shr of the borrowed operand, pow, shl of the owned result, drop of the temporary) *)
Theorem C17_pow : forall w M : Z, 0 < w -> 8 <= M ->
  forall (s : sign) (a : targ) (e : Z) (F : list (Z * Z)) (m : mem) (Q : repr -> mem -> Prop),
  Own F m -> TargInv M a -> tblks a = [] -> 0 <= e -> RQ M F Q -> safe (pow_top w M s a e) m Q.
Proof. exact wp_pow_top. Qed.
Print Assumptions C17_pow.

Theorem C17_sqr : forall w M : Z, 8 <= M ->
  forall (a : targ) (F : list (Z * Z)) (m : mem) (Q : repr -> mem -> Prop),
  Own F m -> TargInv M a -> RQ M F Q -> safe (sqr_ref w M a) m Q.
Proof. exact wp_sqr_ref. Qed.
Print Assumptions C17_sqr.

(** gcd in every call form: both operands copied into fresh buffers, the one holding the result truncated to the
    kernel's length and normalized, the other one and the by-value operands freed exactly once; gcd(0, 0) panics
    before anything is allocated *)
Theorem C17_gcd : forall w M : Z, 8 <= M ->
  forall gk : list Z -> list Z -> Z * bool,
  (forall l r : list Z, 0 <= fst (gk l r) <= len (if snd (gk l r) then r else l)) ->
  forall (a b : targ) (F : list (Z * Z)) (m : mem) (Q : outcome -> mem -> Prop),
  Own (tblks a ++ tblks b ++ F) m -> OQ M F Q -> safe (gcd_mag w M gk a b) m Q.
Proof. exact wp_gcd_mag. Qed.
Print Assumptions C17_gcd.

(** div_rem of two borrowed operands: quotient in the dividend's copy (push_resizing of the top word, erase_front),
    remainder in the divisor's copy (lhs[..n] in range); DivideBy0 after the copy was released *)
Theorem C17_div_rem : forall w M : Z, 8 <= M ->
  forall (a b : targ) (F : list (Z * Z)) (m : mem) (Q : outcome2 -> mem -> Prop),
  Own F m -> TargInv M a -> TargInv M b -> OQ2 M F Q -> safe (div_rem_ref w M a b) m Q.
Proof. exact wp_div_rem_ref. Qed.
Print Assumptions C17_div_rem.

Theorem C17_next_power_of_two : forall w M : Z, 8 <= M ->
  forall (a : targ) (F : list (Z * Z)) (m : mem) (Q : repr -> mem -> Prop),
  Own (tblks a ++ F) m -> TargInv M a -> is_ref a = false -> RQ M F Q -> safe (next_power_of_two w M a) m Q.
Proof. exact wp_next_power_of_two. Qed.
Print Assumptions C17_next_power_of_two.

(** clear_high_bits_large: truncate to ceil(n / w) words (<= len), last_mut().unwrap() on a non-empty buffer *)
Theorem C17_clear_high_bits : forall w M : Z, 0 < w -> 8 <= M ->
  forall (a : targ) (n : Z) (F : list (Z * Z)) (m : mem) (Q : repr -> mem -> Prop),
  Own (tblks a ++ F) m -> TargInv M a -> is_ref a = false -> 0 <= n -> RQ M F Q -> safe (clear_high_bits w M a n) m Q.
Proof. exact wp_clear_high_bits. Qed.
Print Assumptions C17_clear_high_bits.

Theorem C17_split_bits : forall w M : Z, 0 < w -> 8 <= M ->
  forall (a : targ) (n : Z) (F : list (Z * Z)) (m : mem) (Q : repr * repr -> mem -> Prop),
  Own (tblks a ++ F) m -> TargInv M a -> is_ref a = false -> 0 <= n ->
  (forall (lo hi : repr) (m' : mem), Own (rblks lo ++ rblks hi ++ F) m' -> ReprInv M lo -> ReprInv M hi -> Q (lo, hi) m') ->
  safe (split_bits w M a n) m Q.
Proof. exact wp_split_bits. Qed.
Print Assumptions C17_split_bits.

(** every step of the EXTENDED machine (all steps of C17_step_storage_ops plus pow, sqr, gcd in every call form,
    div_rem, next_power_of_two, clear_high_bits, split_bits) preserves the invariant of the pool and the ledger *)
Theorem C17_step2_storage_ops : forall w M : Z, 0 < w -> 8 <= M ->
  forall gk : list Z -> list Z -> Z * bool,
  (forall l r : list Z, 0 <= fst (gk l r) <= len (if snd (gk l r) then r else l)) ->
  forall (o : op2) (pool : list repr) (m : mem),
  op2_ok w M (length pool) o -> StateInv M pool m ->
  safe (step2 w M gk o pool) m (fun pr m' => StateInv M (fst pr) m' /\ length (fst pr) = length pool).
Proof. exact step2_safe. Qed.
Print Assumptions C17_step2_storage_ops.

(** all finite histories of the extended machine; the final drop leaves the ghost heap empty *)
Theorem C17_histories2_storage_ops : forall w M : Z, 0 < w -> 8 <= M ->
  forall gk : list Z -> list Z -> Z * bool,
  (forall l r : list Z, 0 <= fst (gk l r) <= len (if snd (gk l r) then r else l)) ->
  forall (n : nat) (ops : list op2), Forall (op2_ok w M n) ops ->
  safe (run2 w M gk ops (repeat zero n)) mem0
       (fun pool m => StateInv M pool m /\ safe (drop_all pool) m (fun _ m' => forall p, blk m' p = None)).
Proof. exact history2_safe. Qed.
Print Assumptions C17_histories2_storage_ops.

(** ---- (b) the scratch bump allocator (memory.rs) as an offset machine.  [good ws U m a]: the chunk m starts at an
    address aligned to the word size ws, lies inside [0, usize::MAX = U] and has room for a words.
    [dsame fuel n]: the words the recursion of mul::add_signed_mul_same_len(n) asks for, by its allocation plan.
    Requirement formulas, thresholds and allocation sizes are the REGENERATED ones (StorageGen). *)

(** Memory::allocate_slice_*::<Word>(n) in a good chunk: no padding, no overflow, the rest is good again *)
Theorem C17_scratch_allocate_slice : forall ws U : Z, 0 < ws ->
  forall (n : Z) (m : memory) (a : Z), good ws U m a -> 0 <= n <= a ->
  exists (s : Z) (m' : memory), alloc_slice ws U n m = Ok (s, m') /\ good ws U m' (a - n).
Proof. exact alloc_ok. Qed.
Print Assumptions C17_scratch_allocate_slice.

(** the whole recursion (schoolbook / Karatsuba / Toom-3 at every depth) runs without
    "internal error: not enough memory allocated" in any good chunk with room for dsame; fuel > n suffices *)
Theorem C17_scratch_mul_recursion : forall ws U : Z, 0 < ws ->
  forall (fuel : nat) (n : Z) (m : memory) (a : Z),
  (Z.to_nat n < fuel)%nat -> 0 <= n -> good ws U m a -> dsame fuel n <= a -> mul_same ws U fuel n m = Ok tt.
Proof. exact mul_same_ok. Qed.
Print Assumptions C17_scratch_mul_recursion.

(** karatsuba::memory_requirement_up_to: 2n + 2 ceil_log2 n *)
Theorem C17_scratch_karatsuba_requirement : forall (fuel : nat) (n : Z),
  0 <= n <= gen_mul_threshold_karatsuba -> dsame fuel n <= gen_kara_requirement n.
Proof. exact kara_bound. Qed.
Print Assumptions C17_scratch_karatsuba_requirement.

(** toom_3::memory_requirement_up_to: 4n + 13 ceil_log2 n, for EVERY length (the "20 log_3 n < 13 log_2 n" of the
    source comment is the integer fact 2^20 <= 3^13 applied per Toom-3 level) *)
Theorem C17_scratch_toom3_requirement : forall (fuel : nat) (n : Z), 0 <= n -> dsame fuel n <= gen_toom_requirement n.
Proof. exact toom_bound. Qed.
Print Assumptions C17_scratch_toom3_requirement.

(** mul::memory_requirement_up_to(_, s) covers the same-length product of every r <= s words *)
Theorem C17_scratch_requirement_covers : forall (fuel : nat) (r s : Z), 0 <= r <= s -> dsame fuel r <= gen_mul_requirement s.
Proof. exact requirement_covers. Qed.
Print Assumptions C17_scratch_requirement_covers.

(** mul_large: the block of mul::memory_requirement_exact(_, min(len lhs, len rhs)) words serves the whole product
    (chunks of the shorter length + the recursively multiplied remainder), at any aligned address where it fits *)
Theorem C17_scratch_mul_large : forall ws U : Z, 0 < ws ->
  forall base la lb : Z, base mod ws = 0 -> 0 <= base -> 1 <= la -> 1 <= lb ->
  base + gen_mul_requirement (Z.min la lb) * ws <= U -> mul_large_scratch ws U base la lb = Ok tt.
Proof. exact mul_large_scratch_ok. Qed.
Print Assumptions C17_scratch_mul_large.

Theorem C17_scratch_square_large : forall ws U : Z, 0 < ws ->
  forall base len : Z, base mod ws = 0 -> 0 <= base -> 0 <= len ->
  base + gen_sqr_requirement len * ws <= U -> square_large_scratch ws U base len = Ok tt.
Proof. exact square_large_scratch_ok. Qed.
Print Assumptions C17_scratch_square_large.

(** the squarings of pow_word_base (copy = sarg = exp / 2 + 1) and pow_dword_base (copy = sarg = exp): the copy of
    res (len <= copy by C17_pow_*_loop_in_place) and the squaring of len words fit the block of
    copy + sqr::memory_requirement_exact(sarg) words *)
Theorem C17_scratch_pow_square : forall ws U : Z, 0 < ws ->
  forall base copy sarg len : Z, base mod ws = 0 -> 0 <= base -> 0 <= len <= copy -> copy <= sarg ->
  base + (copy + gen_sqr_requirement sarg) * ws <= U -> pow_square_scratch ws U base copy sarg len = Ok tt.
Proof. exact pow_square_scratch_ok. Qed.
Print Assumptions C17_scratch_pow_square.

(** ---- (c) exact capacity arithmetic over the regenerated formulas of buffer.rs *)
Theorem C17_gen_capacity_compact : forall M n : Z, 8 <= M -> 0 <= n <= M ->
  n <= gen_default_capacity M n <= gen_max_compact_capacity M n /\ 2 <= gen_default_capacity M n <= M.
Proof. exact gen_capacity_compact. Qed.
Print Assumptions C17_gen_capacity_compact.

Theorem C17_gen_no_shrink_after_allocate : forall M n : Z, 8 <= M -> 0 <= n <= M ->
  gen_shrink_test M (gen_default_capacity M n) n = false.
Proof. exact gen_no_shrink_after_allocate. Qed.
Print Assumptions C17_gen_no_shrink_after_allocate.

(** MAX_CAPACITY words hold at most usize::MAX bits and (words of >= 16 bits) at most isize::MAX bytes *)
Theorem C17_max_capacity_bits : forall U wb : Z, 0 < wb -> gen_max_capacity U wb * wb <= U.
Proof. exact max_capacity_bits. Qed.
Print Assumptions C17_max_capacity_bits.
Theorem C17_max_capacity_bytes : forall U wb : Z, 16 <= wb -> 0 <= U -> gen_max_capacity U wb * (wb / 8) <= U / 2.
Proof. exact max_capacity_bytes. Qed.
Print Assumptions C17_max_capacity_bytes.

(** Buffer::allocate(n): capacity exactly default_capacity(n), one block; fails only by the debug assertion
    n <= MAX_CAPACITY; the AllocateTooMuch panic of allocate_exact is unreachable through allocate *)
Theorem C17_allocate_exact_outcome : forall (M n : Z) (m : mem), 8 <= M -> 0 <= n ->
  match allocate M n m with
  | Ok (b, m') => n <= M /\ bcap b = gen_default_capacity M n /\ bws b = [] /\ nlive m' = nlive m + 1 /\ nwords m' = nwords m + bcap b
  | Err e => e = 12 /\ M < n
  | Panic _ => False
  | OutOfFuel => False
  end.
Proof. exact allocate_exact_outcome. Qed.
Print Assumptions C17_allocate_exact_outcome.

Theorem C17_ensure_capacity_exact_outcome : forall (M : Z) (b : buffer) (n : Z) (F : list (Z * Z)) (m : mem),
  8 <= M -> Own (bblk b :: F) m -> len (bws b) <= n <= M ->
  match ensure_capacity M b n m with
  | Ok (b', m') => bws b' = bws b /\ bcap b' = (if gen_ensure_capacity_test (bcap b) n then gen_default_capacity M n else bcap b) /\
                   (gen_ensure_capacity_test (bcap b) n = false -> b' = b /\ m' = m) /\ nlive m' = nlive m
  | _ => False
  end.
Proof. exact ensure_capacity_exact_outcome. Qed.
Print Assumptions C17_ensure_capacity_exact_outcome.

(** the regenerated fragments are what the machine uses: the plans of Karatsuba / Toom-3 as read from the source today,
    and the routines of StorageModel.v rewritten with the regenerated tests / requests (a source edit breaks these) *)
Theorem C17_tie_scratch_plans : forall n : Z,
  kara_plan n = (let mid := (n + 1) / 2 in
     Seq (Alloc (2 * mid) (Call mid)) (Seq (Alloc (2 * (n - mid)) (Call (n - mid))) (Alloc mid (Alloc mid (Call mid))))) /\
  toom_plan n = (let n3 := (n + 2) / 3 in
     Alloc (2 * n3 + 2) (Seq (Call n3)
    (Alloc (n3 + 1) (Alloc (n3 + 1) (Seq (Call (n3 + 1))
    (Seq (Alloc (2 * n3 + 2) (Call (n - 2 * n3)))
    (Alloc (2 * n3 + 2) (Seq (Alloc (n3 + 1) (Alloc (n3 + 1) (Call (n3 + 1))))
                             (Alloc (2 * (n3 + 1)) (Call (n3 + 1))))))))))) /\
  gen_kara_calls = 3%nat /\ gen_toom_calls = 5%nat.
Proof. intros n. split; [apply kara_plan_eq | split; [apply toom_plan_eq | exact plan_call_counts]]. Qed.
Print Assumptions C17_tie_scratch_plans.

Theorem C17_tie_buffer : forall (M : Z) (b : buffer) (n : Z) (m : mem),
  (forall k, default_capacity M k = gen_default_capacity M k /\ max_compact_capacity M k = gen_max_compact_capacity M k) /\
  ensure_capacity M b n = (if gen_ensure_capacity_test (bcap b) n then reallocate M b n else ret b) /\
  shrink_to_fit M b m = (max_compact_chk M (len (bws b)) ;;;
                         if gen_shrink_test M (bcap b) (len (bws b)) then reallocate M b (len (bws b)) else ret b) m /\
  allocate_raw M n = (guard 1 (gen_allocate_raw_guard M n) ;;; raw_alloc n).
Proof.
  intros M b n m. split; [intros k; split; [apply tie_default_capacity | apply tie_max_compact_capacity]|].
  split; [apply tie_ensure_capacity|]. split; [apply tie_shrink_to_fit | apply tie_allocate_raw].
Qed.
Print Assumptions C17_tie_buffer.

Theorem C17_tie_requests : forall (w M : Z) (lhs rhs : list Z) (b : buffer) (n : Z),
  mul_large w M lhs rhs =
    (let k := gen_mul_large_request (len lhs) (len rhs) in
     guard 13 ((2 <=? len lhs) && (2 <=? len rhs)) ;;;
     b <- allocate M k ;; b1 <- push_repeat b 0 k ;; from_buffer w M (setws b1 (tow w k (val w lhs * val w rhs)))) /\
  shl_large w M b n =
    (let sw := n / w in
     if gen_shl_large_realloc_test (bcap b) (len (bws b)) sw then r <- shl_large_ref w M (bws b) n ;; drop_buffer b ;;; ret r
     else b1 <- push b 0 ;; b2 <- push_zeros_front b1 sw ;; from_buffer w M (setws b2 (tow w (len (bws b2)) (val w (bws b) * 2 ^ n)))) /\
  shl_large_ref w M lhs n =
    (let sw := n / w in
     b <- allocate M (gen_shl_large_ref_request sw (len lhs)) ;; b1 <- push_repeat b 0 sw ;; b2 <- push_slice b1 lhs ;;
     b3 <- push b2 0 ;; from_buffer w M (setws b3 (tow w (len (bws b3)) (val w lhs * 2 ^ n)))).
Proof. intros. split; [apply tie_mul_large | split; [apply tie_shl_large | apply tie_shl_large_ref]]. Qed.
Print Assumptions C17_tie_requests.

(** ================= round 4: the machine of Int/StorageOps3.v - sqrt / sqrt_rem, the modular rings (a Reduced value owns a
    Box<[Word]>), IBig & | ^ ! >> << with negative operands, the parsers with their error exits, to_chunks / from_chunks,
    the documented panics after a buffer was taken.  Capacities / lengths / scratch arguments are the REGENERATED ones of
    coq/gen/StorageGen4.v.  [box_blks bx]: the block a Box<[Word]> owns (exactly len words, none when empty);
    [CdivInv M c]: a large ConstDivisor holds a modulus of 3 .. M words; [econs c e]: an element of a small ring has no box;
    [PQ] / [OptQ]: a parser ends with an owned buffer / value, or - after an invalid digit - with nothing left. *)
From Dashu Require Import Int.StorageOps3 Int.StorageOps3Proofs Int.StorageOps3Bits Int.StorageOps3Sqrt Int.StorageOps3History
  Int.StorageOps3Pow Int.StorageOps3Examples Int.ScratchOps3 Int.DivMemModel.
From DashuGen Require Import StorageGen4 DivDispatch.

(** <Box<[Word]> as Clone>::clone_from: equal lengths copy in place, otherwise the new box is built and the old one freed with
    its own size; the result owns exactly one block of the source's length *)
Theorem C17_box_clone_from : forall (self src : box) (F : list (Z * Z)) (m : mem) (Q : box -> mem -> Prop),
  Own (box_blks self ++ F) m -> (forall nb m', Own (box_blks nb ++ F) m' -> snd nb = snd src -> Q nb m') ->
  safe (box_clone_from self src) m Q.
Proof. exact wp_box_clone_from. Qed.
Print Assumptions C17_box_clone_from.

(** ConstDivisor::new: the buffer of a large modulus becomes the boxed divisor (Buffer::into_boxed_slice); zero panics with
    nothing owned *)
Theorem C17_ring_new : forall (w M : Z) (x : targ) (F : list (Z * Z)) (m : mem) (Q : option cdiv -> mem -> Prop),
  Own (tblks x ++ F) m -> TargInv M x -> is_ref x = false ->
  (forall oc m', match oc with Some c => Own (cdiv_blks c ++ F) m' /\ CdivInv M c | None => Own F m' end -> Q oc m') ->
  safe (ring_new w x) m Q.
Proof. exact wp_ring_new. Qed.
Print Assumptions C17_ring_new.

(** ReducedLarge::from_ubig (rem_repr / rem_large, ensure_capacity_exact(modulus_len), push_zeros(modulus_len - len),
    into_boxed_slice): no guard fails - in particular `modulus_len - buffer.len()` does not underflow and the zeros fit - and the
    element owns one box *)
Theorem C17_reduce : forall w M : Z, 8 <= M -> forall (c : cdiv) (x : targ) (res : Z) (F : list (Z * Z)) (m : mem) (Q : relem -> mem -> Prop),
  Own (tblks x ++ F) m -> CdivInv M c -> TargInv M x -> is_ref x = false ->
  (forall e m', Own (elem_blks e ++ F) m' -> econs c e -> Q e m') -> safe (reduce w M c x res) m Q.
Proof. exact wp_reduce. Qed.
Print Assumptions C17_reduce.

(** Reduced::clone_from between elements of ANY two rings *)
Theorem C17_elem_clone_from : forall (c : cdiv) (self src : relem) (F : list (Z * Z)) (m : mem) (Q : relem -> mem -> Prop),
  Own (elem_blks self ++ F) m -> econs c src ->
  (forall e' m', Own (elem_blks e' ++ F) m' -> econs c e' -> Q e' m') -> safe (elem_clone_from self src) m Q.
Proof. exact wp_elem_clone_from. Qed.
Print Assumptions C17_elem_clone_from.

Theorem C17_rem_const : forall w M : Z, 8 <= M -> forall (c : cdiv) (x : targ) (F : list (Z * Z)) (m : mem) (Q : repr -> mem -> Prop),
  Own (tblks x ++ F) m -> CdivInv M c -> TargInv M x -> is_ref x = false -> RQ M F Q -> safe (rem_const w M c x) m Q.
Proof. exact wp_rem_const. Qed.
Print Assumptions C17_rem_const.

Theorem C17_div_const : forall w M : Z, 8 <= M -> forall (c : cdiv) (x : targ) (F : list (Z * Z)) (m : mem) (Q : repr -> mem -> Prop),
  Own (tblks x ++ F) m -> CdivInv M c -> TargInv M x -> is_ref x = false -> RQ M F Q -> safe (div_const w M c x) m Q.
Proof. exact wp_div_const. Qed.
Print Assumptions C17_div_const.

(** one ring step (ring, elements and all temporaries live and die inside it): value or the documented panic of
    ConstDivisor::new(0) - in both cases only the result is left beside the frame *)
Theorem C17_ring_step : forall w M : Z, 8 <= M ->
  forall (k : rkind) (sx : sign) (x : targ) (sy : sign) (y md : targ) (ex : Z) (F : list (Z * Z)) (m : mem) (Q : outcome -> mem -> Prop),
  Own (tblks x ++ tblks y ++ tblks md ++ F) m -> TargInv M x -> TargInv M y -> TargInv M md ->
  is_ref x = false -> is_ref y = false -> is_ref md = false -> OQ M F Q ->
  safe (ring_step w M k sx x sy y md ex) m Q.
Proof. exact wp_ring_step. Qed.
Print Assumptions C17_ring_step.

(** IBig & | ^ for every combination of signs and every ownership of the operands (sign tables of bits.rs) *)
Theorem C17_signed_bitops : forall w M : Z, 8 <= M ->
  forall (f : sbit) (s0 : sign) (a : targ) (s1 : sign) (b : targ) (F : list (Z * Z)) (m : mem) (Q : repr -> mem -> Prop),
  Own (tblks a ++ tblks b ++ F) m -> TargInv M a -> TargInv M b -> RQ M F Q -> safe (sbit_top w M f s0 a s1 b) m Q.
Proof. exact wp_sbit_top. Qed.
Print Assumptions C17_signed_bitops.

Theorem C17_and_not : forall w M : Z, 8 <= M -> forall (a b : targ) (F : list (Z * Z)) (m : mem) (Q : repr -> mem -> Prop),
  Own (tblks a ++ tblks b ++ F) m -> TargInv M a -> TargInv M b -> RQ M F Q -> safe (and_not w M a b) m Q.
Proof. exact wp_and_not. Qed.
Print Assumptions C17_and_not.

Theorem C17_not : forall w M : Z, 8 <= M -> forall (s : sign) (a : targ) (F : list (Z * Z)) (m : mem) (Q : repr -> mem -> Prop),
  Own (tblks a ++ F) m -> TargInv M a -> RQ M F Q -> safe (not_top w M s a) m Q.
Proof. exact wp_not_top. Qed.
Print Assumptions C17_not.

Theorem C17_ishl : forall w M : Z, 0 < w -> 8 <= M -> forall (s : sign) (a : targ) (n : Z) (F : list (Z * Z)) (m : mem) (Q : repr -> mem -> Prop),
  Own (tblks a ++ F) m -> TargInv M a -> 0 <= n -> RQ M F Q -> safe (ishl_top w M s a n) m Q.
Proof. exact wp_ishl_top. Qed.
Print Assumptions C17_ishl.

(** IBig >> n of a negative value: shift, negation, signed subtraction of the rounding bit *)
Theorem C17_ishr : forall w M : Z, 0 < w -> 8 <= M -> forall (s : sign) (a : targ) (n : Z) (F : list (Z * Z)) (m : mem) (Q : outcome -> mem -> Prop),
  Own (tblks a ++ F) m -> TargInv M a -> 0 <= n -> OQ M F Q -> safe (ishr_top w M s a n) m Q.
Proof. exact wp_ishr_top. Qed.
Print Assumptions C17_ishr.

(** the loop of power_two::parse_large never pushes beyond Buffer::allocate((src.len() * log_radix - 1) / WORD_BITS + 1), for every
    text (digits, separators, invalid bytes), and an invalid digit leaves nothing behind *)
Theorem C17_parse_pow2_loop : forall w M : Z, 0 < w -> 8 <= M ->
  forall (lr N : Z) (items : list pitem) (bits word : Z) (b : buffer) (F : list (Z * Z)) (m : mem) (Q : option buffer -> mem -> Prop),
  0 < lr <= w -> 0 <= bits < w -> Own (bblk b :: F) m -> BufOK M b ->
  len (bws b) * w + bits + len items * lr <= N * lr -> (N * lr - 1) / w + 1 <= bcap b -> PQ M F Q ->
  safe (parse2_loop w lr items bits word b) m Q.
Proof. exact wp_parse2_loop. Qed.
Print Assumptions C17_parse_pow2_loop.

Theorem C17_parse_pow2 : forall w M : Z, 0 < w -> 8 <= M ->
  forall (lr : Z) (items : list pitem) (F : list (Z * Z)) (m : mem) (Q : option repr -> mem -> Prop),
  Own F m -> 0 < lr <= w -> OptQ M F Q -> safe (parse2 w M lr items) m Q.
Proof. exact wp_parse2. Qed.
Print Assumptions C17_parse_pow2.

(** non_power_two::parse_word / parse_chunk: Buffer::allocate(groups.len()) holds every carry word; error exit as above *)
Theorem C17_parse_chunk : forall w M : Z, 8 <= M ->
  forall (rpw : Z) (gs : list (option Z)) (F : list (Z * Z)) (m : mem) (Q : option repr -> mem -> Prop),
  Own F m -> OptQ M F Q -> safe (parse_n w M rpw gs) m Q.
Proof. exact wp_parse_n. Qed.
Print Assumptions C17_parse_chunk.

Theorem C17_to_chunks : forall w M : Z, 0 < w -> 8 <= M ->
  forall (a : targ) (k : Z) (F : list (Z * Z)) (m : mem) (Q : list repr -> mem -> Prop),
  Own F m -> TargInv M a -> 0 < k ->
  (forall rs m', Own (reprs_blks rs ++ F) m' -> Forall (ReprInv M) rs -> Q rs m') -> safe (to_chunks w M a k) m Q.
Proof. exact wp_to_chunks. Qed.
Print Assumptions C17_to_chunks.

Theorem C17_from_chunks : forall w M : Z, 8 <= M ->
  forall (cs : list (list Z)) (k x : Z) (F : list (Z * Z)) (m : mem) (Q : repr -> mem -> Prop),
  Own F m -> 0 < k -> RQ M F Q -> safe (from_chunks w M cs k x) m Q.
Proof. exact wp_from_chunks. Qed.
Print Assumptions C17_from_chunks.

Theorem C17_chunks_round_trip : forall w M : Z, 0 < w -> 8 <= M ->
  forall (a : targ) (k : Z) (F : list (Z * Z)) (m : mem) (Q : repr -> mem -> Prop),
  Own F m -> TargInv M a -> 0 < k -> RQ M F Q -> safe (chunks_rt w M a k) m Q.
Proof. exact wp_chunks_rt. Qed.
Print Assumptions C17_chunks_round_trip.

(** the value-level fact behind sqrt_rem_large's buffer[..n], buffer[n], truncate(n + 1): the normalized operand shifted by
    WORD_BITS * (len & 1) + (leading_zeros & !1) has exactly 2 * ((len + 1) / 2) words - every word size w >= 2 *)
Theorem C17_sqrt_shifted_len : forall w : Z, 2 <= w -> forall (ws : list Z) (K : Z),
  Words.wf w ws -> 1 <= len ws -> last ws 0 <> 0 -> 2 * gen4_sqrt_out_len (len ws) <= K ->
  len (strip (tow w K (Words.value w ws * 2 ^ sqrt_shift w ws))) = 2 * gen4_sqrt_out_len (len ws).
Proof. exact shifted_len. Qed.
Print Assumptions C17_sqrt_shifted_len.

Theorem C17_sqrt_rem_large : forall w M : Z, 2 <= w -> 8 <= M ->
  forall (jv : list Z -> Z) (ws : list Z) (root_only : bool) (F : list (Z * Z)) (m : mem) (Q : repr * repr -> mem -> Prop),
  Own F m -> Words.wf w ws -> 3 <= len ws -> last ws 0 <> 0 ->
  (forall q r m', Own (rblks q ++ rblks r ++ F) m' -> ReprInv M q -> ReprInv M r -> Q (q, r) m') ->
  safe (sqrt_rem_large w M jv ws root_only) m Q.
Proof. exact wp_sqrt_rem_large. Qed.
Print Assumptions C17_sqrt_rem_large.

(** IBig::sqrt: value, or RootNegative before anything is allocated *)
Theorem C17_isqrt : forall w M : Z, 2 <= w -> 8 <= M ->
  forall (jv : list Z -> Z) (s : sign) (a : targ) (F : list (Z * Z)) (m : mem) (Q : outcome -> mem -> Prop),
  Own F m -> TargInv M a -> TargWf w a -> tblks a = [] -> OQ M F Q -> safe (isqrt_top w M jv s a) m Q.
Proof. exact wp_isqrt_top. Qed.
Print Assumptions C17_isqrt.

(** pow_large_base WITH the debug_assert!(len >= 2) of every mul_large / square_large inside its loop (round 3 left them out) *)
Theorem C17_pow_large_base_guarded : forall w M : Z, 2 <= w -> 8 <= M ->
  forall (base : list Z) (e : Z) (F : list (Z * Z)) (m : mem) (Q : repr -> mem -> Prop),
  Own F m -> Words.wf w base -> 3 <= len base -> last base 0 <> 0 -> 3 <= e -> RQ M F Q -> safe (pow_large_base_g w M base e) m Q.
Proof. exact wp_pow_large_base_g. Qed.
Print Assumptions C17_pow_large_base_guarded.

(** every step of the round-4 machine; [op3_pre]: the words a sqrt step reads are word digits *)
Theorem C17_step3_storage_ops : forall w M : Z, 2 <= w -> 8 <= M ->
  forall gk : list Z -> list Z -> Z * bool, (forall l r : list Z, 0 <= fst (gk l r) <= len (if snd (gk l r) then r else l)) ->
  forall (jv : list Z -> Z) (o : op3) (pool : list repr) (m : mem),
  op3_ok w M (length pool) o -> op3_pre w o pool -> StateInv M pool m ->
  safe (step3 w M gk jv o pool) m (fun pr m' => StateInv M (fst pr) m' /\ length (fst pr) = length pool).
Proof. exact step3_safe. Qed.
Print Assumptions C17_step3_storage_ops.

(** all finite histories whose steps meet their premises along the run; the final drop leaves the ghost heap empty *)
Theorem C17_histories3_storage_ops : forall w M : Z, 2 <= w -> 8 <= M ->
  forall gk : list Z -> list Z -> Z * bool, (forall l r : list Z, 0 <= fst (gk l r) <= len (if snd (gk l r) then r else l)) ->
  forall (jv : list Z -> Z) (n : nat) (ops : list op3), pre_along w M gk jv n ops (repeat zero n) mem0 ->
  safe (run3 w M gk jv ops (repeat zero n)) mem0
       (fun pool m => StateInv M pool m /\ safe (drop_all pool) m (fun _ m' => forall p, blk m' p = None)).
Proof. exact history3_safe. Qed.
Print Assumptions C17_histories3_storage_ops.

(** histories without sqrt steps (rings, signed bit operations, shifts, parsers, chunks, all earlier steps): no premise on the state *)
Theorem C17_histories3_static : forall w M : Z, 2 <= w -> 8 <= M ->
  forall gk : list Z -> list Z -> Z * bool, (forall l r : list Z, 0 <= fst (gk l r) <= len (if snd (gk l r) then r else l)) ->
  forall (jv : list Z -> Z) (n : nat) (ops : list op3), Forall (fun o => op3_ok w M n o /\ no_sqrt o) ops ->
  safe (run3 w M gk jv ops (repeat zero n)) mem0
       (fun pool m => StateInv M pool m /\ safe (drop_all pool) m (fun _ m' => forall p, blk m' p = None)).
Proof. exact history3_static_safe. Qed.
Print Assumptions C17_histories3_static.

(** non-vacuity: the premises hold along a 40-step history through every new kind of step *)
Theorem C17_histories3_nonvacuous : pre_along 64 M64 gk0 jv0 8 example_ops (repeat zero 8) mem0.
Proof. exact history3_example_pre. Qed.
Print Assumptions C17_histories3_nonvacuous.

(** ---- scratch memory of sqrt and of the modular multiplication (peak demands over the division / multiplication peak models
    of C02, whose sufficiency theorems C02_mem_div / C02_mem_mul are cited) *)
Theorem C17_scratch_sqrt : forall n : Z, 2 <= n ->
  exists p : Z, ksqrt_peak (Z.to_nat n) n = Ok p /\ 0 <= p <= sqrt_req (gen4_sqrt_scratch_arg n).
Proof. exact ksqrt_sufficient. Qed.
Print Assumptions C17_scratch_sqrt.

Theorem C17_scratch_sqrt_requirement_monotone : forall a b : Z, 3 <= a <= b -> sqrt_req a <= sqrt_req b.
Proof. exact sqrt_req_mono. Qed.
Print Assumptions C17_scratch_sqrt_requirement_monotone.

Theorem C17_scratch_ring_mul : forall n na nb : Z, 3 <= n -> 0 <= na <= n -> 0 <= nb <= n ->
  exists p : Z, ring_mul_peak n na nb = Ok p /\ 0 <= p <= ring_mul_req n.
Proof. exact ring_mul_sufficient. Qed.
Print Assumptions C17_scratch_ring_mul.

Theorem C17_scratch_const_div : forall wlen n : Z, gen4_rem_large_test wlen n = true -> 2 <= n ->
  exists p : Z, div_peak (gen4_rem_large_div_lhs wlen n) (gen4_rem_large_div_rhs wlen n) = Ok p /\
                0 <= p <= g_div_mem_req (gen4_rem_large_div_lhs wlen n) (gen4_rem_large_div_rhs wlen n).
Proof. exact const_div_sufficient. Qed.
Print Assumptions C17_scratch_const_div.

Theorem C17_tie_sqr_requirement : forall n : Z, gen_sqr_requirement n = sqr_req n.
Proof. exact tie_sqr_requirement. Qed.
Print Assumptions C17_tie_sqr_requirement.

(** ---- coordinator follow-up (seeded changes C17_E, C17_F) *)
(** Buffer::pop_zeros as the loop it is - every ptr::read guarded to lie inside the block, the length decrement guarded against
    underflow, the `if self.len == 0 { break; }` REGENERATED from buffer.rs -: for EVERY word list it ends without a failed guard and
    returns the normalized words.  Without the break the scan of an all-zero buffer reads index -1 (guard failure; proof breaks). *)
Theorem C17_pop_zeros_in_bounds : forall (ws : list Z) (m : mem), pop_zeros_asis ws m = Ok (strip ws, m).
Proof. exact pop_zeros_asis_ok. Qed.
Print Assumptions C17_pop_zeros_in_bounds.

Theorem C17_from_buffer_guarded : forall (w M : Z) (b : buffer) (m : mem), from_buffer_g w M b m = from_buffer w M b m.
Proof. exact from_buffer_g_ok. Qed.
Print Assumptions C17_from_buffer_guarded.

(** a growth the allocator refuses (realloc returns null; the Buffer still owns its block): the panic unwinds and the block is freed
    exactly once.  Whether the failure path releases the block itself is REGENERATED from Buffer::reallocate_raw: if it did, the
    Drop of the Buffer would free it a second time (guard 10) and this theorem would not hold. *)
Theorem C17_realloc_failure_balanced : forall w M : Z, 0 < w -> 8 <= M ->
  forall (a : targ) (n : Z) (F : list (Z * Z)) (m : mem) (Q : outcome -> mem -> Prop),
  Own (tblks a ++ F) m -> TargInv M a -> is_ref a = false -> 0 <= n -> OQ M F Q -> safe (set_bit_fail w M a n) m Q.
Proof. exact wp_set_bit_fail. Qed.
Print Assumptions C17_realloc_failure_balanced.

(** ================= round 5: the parser of texts of ANY length in a radix that is not a power of two (parse/non_power_two.rs:
    parse_word / parse_chunk / parse_large / parse_large_divide_conquer), model in Int/StorageOps5.v over the REGENERATED tests,
    lengths and exponents of coq/gen/StorageGen5.v.  [digits_ok radix bs]: every byte of the text (underscores removed) that is a
    digit is a digit of the radix ([None] = any other byte).  Every word size w >= 2, every MAX_CAPACITY >= 8, every radix >= 2 and
    digits_per_word >= 1 with radix^digits_per_word < 2^w, every text shorter than 2^(w-1) bytes (isize::MAX). *)
From Dashu Require Import Int.StorageOps5 Int.StorageOps5Proofs Int.StorageOps5Examples.
From DashuGen Require Import StorageGen5.

(** parse_word: no checked word operation overflows (word * radix + digit < 2^w), the length assertion holds *)
Theorem C17_parse_word_no_overflow : forall w radix dpw : Z, 2 <= radix -> 1 <= dpw -> radix ^ dpw < Bw w ->
  forall (bs : list (option Z)) (m : mem), digits_ok radix bs -> len bs <= dpw ->
  safe (parse_word5 w radix dpw bs) m (fun _ m' => m' = m).
Proof. exact parse_word5_safe. Qed.
Print Assumptions C17_parse_word_no_overflow.

(** parse_chunk at byte level: rchunks(digits_per_word) groups of at most digits_per_word bytes, Buffer::allocate(groups.len()) holds
    every carry; the error exit drops the buffer *)
Theorem C17_parse_chunk_bytes : forall w M : Z, 8 <= M -> forall radix dpw : Z, 2 <= radix -> 1 <= dpw -> radix ^ dpw < Bw w ->
  forall (rpw : Z) (bs : list (option Z)) (F : list (Z * Z)) (m : mem) (Q : option repr -> mem -> Prop),
  Own F m -> digits_ok radix bs -> len bs <= gen5_parse_chunk_len * dpw -> OptQ M F Q -> safe (parse_chunk5 w M radix dpw rpw bs) m Q.
Proof. exact wp_parse_chunk5. Qed.
Print Assumptions C17_parse_chunk_bytes.

(** parse_large_divide_conquer over ANY vector of radix powers (only read): the debug_assert `len <= chunk_bytes << powers` holds at
    every node (no wrap of the shift), split_at is inside the slice, every leaf meets parse_chunk's length bound, the partial
    results are consumed by `hi * power + lo` or dropped by the `?` exits: exactly the result is left *)
Theorem C17_parse_divide_conquer : forall w M : Z, 2 <= w -> 8 <= M -> forall radix dpw : Z, 2 <= radix -> 1 <= dpw -> radix ^ dpw < Bw w ->
  forall (rpw cb : Z) (powers : list repr) (bs : list (option Z)) (F : list (Z * Z)) (m : mem) (Q : option repr -> mem -> Prop),
  cb = gen5_chunk_bytes dpw -> Forall (ReprInv M) powers -> len powers < w -> cb * 2 ^ len powers < Bw w ->
  digits_ok radix bs -> len bs <= cb * 2 ^ len powers ->
  Own F m -> OptQ M F Q -> safe (parse_dc w M radix dpw rpw cb powers bs) m Q.
Proof. exact wp_parse_dc. Qed.
Print Assumptions C17_parse_divide_conquer.

(** parse_large: `bytes.len() - 1` does not underflow, the shift amounts stay below usize::BITS, the loop `while chunk_bytes <=
    (len - 1) >> powers.len()` ends within w iterations (fuel) with len <= chunk_bytes << powers.len() < 2^w, every power
    (range_per_word^256 and its squares) is freed exactly once at the end - also when the text is invalid *)
Theorem C17_parse_large : forall w M : Z, 2 <= w -> 8 <= M -> forall radix dpw : Z, 2 <= radix -> 1 <= dpw -> radix ^ dpw < Bw w ->
  forall (rpw : Z) (bs : list (option Z)) (F : list (Z * Z)) (m : mem) (Q : option repr -> mem -> Prop),
  Own F m -> digits_ok radix bs -> gen5_chunk_bytes dpw < len bs < 2 ^ (w - 1) -> OptQ M F Q ->
  safe (parse_large5 w M radix dpw rpw bs) m Q.
Proof. exact wp_parse_large5. Qed.
Print Assumptions C17_parse_large.

(** non_power_two::parse, all three routes *)
Theorem C17_parse_any_length : forall w M : Z, 2 <= w -> 8 <= M -> forall radix dpw : Z, 2 <= radix -> 1 <= dpw -> radix ^ dpw < Bw w ->
  forall (rpw : Z) (bs : list (option Z)) (F : list (Z * Z)) (m : mem) (Q : option repr -> mem -> Prop),
  Own F m -> digits_ok radix bs -> len bs < 2 ^ (w - 1) -> OptQ M F Q -> safe (parse5 w M radix dpw rpw bs) m Q.
Proof. exact wp_parse5. Qed.
Print Assumptions C17_parse_any_length.

(** the machine of round 5 (all earlier steps + the parse step): every step preserves the pool invariant, fails no guard, frees every
    block exactly once; all finite histories; histories without sqrt steps need no premise on the state *)
Theorem C17_step5_storage_ops : forall w M : Z, 2 <= w -> 8 <= M ->
  forall gk : list Z -> list Z -> Z * bool, (forall l r : list Z, 0 <= fst (gk l r) <= len (if snd (gk l r) then r else l)) ->
  forall (jv : list Z -> Z) (o : op5) (pool : list repr) (m : mem),
  op5_ok w M (length pool) o -> op5_pre w o pool -> StateInv M pool m ->
  safe (step5 w M gk jv o pool) m (fun pr m' => StateInv M (fst pr) m' /\ length (fst pr) = length pool).
Proof. exact step5_safe. Qed.
Print Assumptions C17_step5_storage_ops.

Theorem C17_histories5_storage_ops : forall w M : Z, 2 <= w -> 8 <= M ->
  forall gk : list Z -> list Z -> Z * bool, (forall l r : list Z, 0 <= fst (gk l r) <= len (if snd (gk l r) then r else l)) ->
  forall (jv : list Z -> Z) (n : nat) (ops : list op5), pre_along5 w M gk jv n ops (repeat zero n) mem0 ->
  safe (run5 w M gk jv ops (repeat zero n)) mem0
       (fun pool m => StateInv M pool m /\ safe (drop_all pool) m (fun _ m' => forall p, blk m' p = None)).
Proof. exact history5_safe. Qed.
Print Assumptions C17_histories5_storage_ops.

Theorem C17_histories5_static : forall w M : Z, 2 <= w -> 8 <= M ->
  forall gk : list Z -> list Z -> Z * bool, (forall l r : list Z, 0 <= fst (gk l r) <= len (if snd (gk l r) then r else l)) ->
  forall (jv : list Z -> Z) (n : nat) (ops : list op5), Forall (fun o => op5_ok w M n o /\ no_sqrt5 o) ops ->
  safe (run5 w M gk jv ops (repeat zero n)) mem0
       (fun pool m => StateInv M pool m /\ safe (drop_all pool) m (fun _ m' => forall p, blk m' p = None)).
Proof. exact history5_static_safe. Qed.
Print Assumptions C17_histories5_static.

(** non-vacuity: the premises hold for a history through parse_word, parse_chunk, the recursion over one and two radix powers and an
    invalid last byte, and the machine computes the parsed values *)
Theorem C17_histories5_nonvacuous : Forall (fun o => op5_ok 64 M64 4 o /\ no_sqrt5 o) example_ops5 /\ example5_values = Some example5_expected.
Proof. exact (conj example5_ok example5_runs). Qed.
Print Assumptions C17_histories5_nonvacuous.

(** ---- the printers in a radix that is not a power of two (fmt/non_power_two.rs), VALUE level (Int/FmtBounds5.v): every access to the
    fixed-size arrays is in bounds, for every word base B >= 2 and every radix with rpw = radix^dpw < B <= radix * rpw
    (max_exp_in_word).  [len] is the word count of the value ([wl]: any function that returns it). *)
From Dashu Require Import Int.FmtBounds5 Int.FmtBounds5Proofs.

(** the dispatch test `len * (digits_per_word + 1) <= CHUNK_LEN * digits_per_word` implies the bound PreparedMedium needs *)
Theorem C17_fmt_dispatch_medium : forall B radix dpw rpw : Z, 2 <= B -> 2 <= radix -> 1 <= dpw -> rpw = radix ^ dpw -> B <= radix * rpw ->
  forall len x : Z, 1 <= len -> 0 <= x < B ^ len -> fmt_dispatch dpw len = true -> x < rpw ^ 16.
Proof. exact dispatch_medium. Qed.
Print Assumptions C17_fmt_dispatch_medium.

(** PreparedMedium::new below the chunk power: the words fit [Word; CHUNK_LEN], low_groups[num_low_groups] stays inside the array
    (at most CHUNK_LEN - 1 low groups), the zero-stripping loop never reads buffer[-1], the stated fuel suffices *)
Theorem C17_fmt_medium_in_bounds : forall B radix dpw rpw : Z, 2 <= B -> 2 <= radix -> 1 <= dpw -> rpw = radix ^ dpw -> rpw < B -> B <= radix * rpw ->
  forall len x : Z, 0 <= x < rpw ^ 16 -> (0 < x -> B ^ (len - 1) <= x) -> (x = 0 -> len <= 1) ->
  exists top k : Z, medium_new B rpw len x = Ok (top, k) /\ 0 <= k < gen5_fmt_low_groups_len /\ 0 <= top < B.
Proof. exact medium_new_ok. Qed.
Print Assumptions C17_fmt_medium_in_bounds.

(** write_chunk: the copy fits and `assert_eq!(buffer_len, 0)` holds after CHUNK_LEN divisions *)
Theorem C17_fmt_write_chunk : forall B radix dpw rpw : Z, 2 <= B -> 2 <= radix -> 1 <= dpw -> rpw = radix ^ dpw -> rpw < B -> B <= radix * rpw ->
  forall len x : Z, 0 <= x < rpw ^ 16 -> (0 < x -> B ^ (len - 1) <= x) -> (x = 0 -> len <= 1) -> write_chunk rpw len x = Ok tt.
Proof. exact write_chunk_ok. Qed.
Print Assumptions C17_fmt_write_chunk.

(** PreparedWord::new: `start_index -= 1` never passes 0 in an array of at least digits_per_word + 1 bytes, for every word and
    every padding request up to digits_per_word; MAX_WORD_DIGITS_NON_POW_2 (regenerated base / increment) is that large for every
    radix >= its base *)
Theorem C17_fmt_prepared_word : forall B radix dpw rpw : Z, 2 <= radix -> 1 <= dpw -> rpw = radix ^ dpw -> B <= radix * rpw ->
  forall cap min_digits word : Z, 0 <= min_digits <= dpw -> dpw + 1 <= cap -> 0 <= word < B ->
  exists width : Z, prepared_word radix cap min_digits word = Ok width /\ min_digits <= width <= cap.
Proof. exact prepared_word_ok. Qed.
Print Assumptions C17_fmt_prepared_word.

Theorem C17_fmt_max_word_digits : forall B radix dpw rpw : Z, 2 <= radix -> 1 <= dpw -> rpw = radix ^ dpw -> rpw < B ->
  forall d3 : Z, gen5_max_word_digits_base <= radix -> B <= gen5_max_word_digits_base * gen5_max_word_digits_base ^ d3 -> 0 <= d3 ->
  dpw + 1 <= d3 + gen5_max_word_digits_inc.
Proof. exact max_word_digits_enough. Qed.
Print Assumptions C17_fmt_max_word_digits.

(** PreparedLarge::new: `2 * prev.len() - 1` does not underflow, the ladder of squares ends (fuel), the length test is sound, every
    big chunk is below its power and the top chunk below the chunk power (PreparedMedium::new is called WITHOUT the dispatch test here) *)
Theorem C17_fmt_large_new : forall B radix dpw rpw : Z, 2 <= B -> 2 <= radix -> 1 <= dpw -> rpw = radix ^ dpw -> rpw < B -> B <= radix * rpw ->
  forall wl : Z -> Z, (forall x : Z, 0 <= x -> 0 <= wl x /\ (x = 0 -> wl x <= 1) /\ (0 < x -> B ^ (wl x - 1) <= x < B ^ wl x)) ->
  forall number : Z, 0 <= number ->
  exists (top : Z) (chunks : list (Z * Z)), large_new rpw (Z.to_nat number) wl number = Ok (top, chunks) /\ 0 <= top < rpw ^ 16 /\
    Forall (fun pr : Z * Z => 0 <= snd pr < fst pr) chunks.
Proof. exact large_new_ok. Qed.
Print Assumptions C17_fmt_large_new.

(** write_big_chunk: a chunk below radix_powers[i] splits into two below radix_powers[i - 1], down to write_chunk *)
Theorem C17_fmt_write_big_chunk : forall B radix dpw rpw : Z, 2 <= B -> 2 <= radix -> 1 <= dpw -> rpw = radix ^ dpw -> rpw < B -> B <= radix * rpw ->
  forall wl : Z -> Z, (forall x : Z, 0 <= x -> 0 <= wl x /\ (x = 0 -> wl x <= 1) /\ (0 < x -> B ^ (wl x - 1) <= x < B ^ wl x)) ->
  forall (ps : list Z) (q x : Z), Desc rpw q ps -> 0 <= x < q -> write_big rpw wl ps x = Ok tt.
Proof. exact write_big_ok. Qed.
Print Assumptions C17_fmt_write_big_chunk.

Theorem C17_fmt_nonvacuous : fmt_dispatch 19 15 = true /\ fmt_dispatch 19 16 = false /\
  medium_new (2 ^ 64) (10 ^ 19) 15 (2 ^ 959) = Ok (2 ^ 959 / (10 ^ 19) ^ 15, 15) /\
  write_chunk (10 ^ 19) 16 ((10 ^ 19) ^ 16 - 1) = Ok tt /\ prepared_word 10 41 1 (2 ^ 64 - 1) = Ok 20 /\ prepared_word 3 41 40 (2 ^ 64 - 1) = Ok 41.
Proof. exact fmt_medium_example. Qed.
Print Assumptions C17_fmt_nonvacuous.

(** fmt/power_two.rs PreparedLarge: `len * WORD_BITS - leading_zeros` and `width * log_radix - (len - 1) * WORD_BITS` do not underflow and
    the first `bits` lies in (0, WORD_BITS + log_radix): the `as u32` cast is lossless and the digit loop starts inside the top word *)
Theorem C17_fmt_pow2_first_bits : forall len w lz lr : Z, 1 <= len -> 0 <= lz < w -> 1 <= lr -> w + lr <= 2 ^ 32 ->
  exists bits : Z, pow2_first_bits len w lz lr = Ok bits /\ 0 < bits < w + lr.
Proof. exact pow2_first_bits_ok. Qed.
Print Assumptions C17_fmt_pow2_first_bits.
