(** C17 - the hand-managed integer storage is memory-safe and keeps its invariants.
    ONLY statements pinned here; proofs live in Dashu.Int.Storage*.
    [safe c m Q]: running the machine computation c from ghost heap m ends in a result satisfying Q, or in
    one of the two "value too large for the address space" outcomes; any other guard failure (assert!,
    bounds precondition of an unsafe block, double free, free with a wrong size) is excluded.
    [Own bl m]: the live blocks of the ghost heap m are exactly bl, each once.
    [TargInv M a]: an operand handed to an arithmetic routine comes from a value satisfying the invariant (an
    owned buffer with len <= capacity and >= 3 words / borrowed words of a value with >= 3 words / a double word).
    [RQ M F Q]: Q holds for every result that satisfies the invariant and owns exactly its block beside the frame F.
    [OQ M F Q]: the same for a routine that may instead raise a documented panic after releasing what it owned.
    All statements hold for every word size w > 0 and every MAX_CAPACITY M >= 8. *)
From Dashu Require Import Base.Prelude Base.Words Int.StorageModel Int.StorageProofs Int.StorageArith Int.StorageHistory.
Open Scope Z_scope.

Theorem C17_default_capacity_compact : forall M, 8 <= M -> forall n, 0 <= n <= M ->
  n <= default_capacity M n <= max_compact_capacity M n /\ 2 <= default_capacity M n <= M.
Proof. exact default_capacity_bounds. Qed.
Print Assumptions C17_default_capacity_compact.

(** Repr::from_buffer - the exit of every arithmetic operation - establishes the invariant from ANY owned
    buffer with len <= capacity, frees the buffer when the value becomes inline, keeps the rest of the heap *)
Theorem C17_from_buffer_establishes_invariant : forall w M, 8 <= M ->
  forall (b : buffer) (F : list (Z * Z)) (m : mem) (Q : repr -> mem -> Prop),
  Own (bblk b :: F) m -> BufOK M b ->
  (forall r m', Own (rblks r ++ F) m' -> ReprInv M r -> rsign r = Positive -> Q r m') ->
  safe (from_buffer w M b) m Q.
Proof. exact wp_from_buffer. Qed.
Print Assumptions C17_from_buffer_establishes_invariant.

Theorem C17_clone : forall M, 8 <= M ->
  forall (v : view) (F : list (Z * Z)) (m : mem) (Q : repr -> mem -> Prop),
  Own F m -> ViewInv M v ->
  (forall r m', Own (rblks r ++ F) m' -> ReprInv M r -> Q r m') ->
  safe (repr_clone M v) m Q.
Proof. exact wp_repr_clone. Qed.
Print Assumptions C17_clone.

(** clone_from between values of any sizes (reuse window, reallocation, inline source, static source) *)
Theorem C17_clone_from : forall M, 8 <= M ->
  forall (self : repr) (v : view) (F : list (Z * Z)) (m : mem) (Q : repr -> mem -> Prop),
  Own (rblks self ++ F) m -> ReprInv M self -> ViewInv M v ->
  (forall r m', Own (rblks r ++ F) m' -> ReprInv M r -> Q r m') ->
  safe (repr_clone_from M self v) m Q.
Proof. exact wp_repr_clone_from. Qed.
Print Assumptions C17_clone_from.

(** Repr::ones as repaired by 28de539 (n <= DWORD_BITS inline): invariant for every n *)
Theorem C17_ones : forall w M, 0 < w -> 8 <= M ->
  forall (n : Z) (F : list (Z * Z)) (m : mem) (Q : repr -> mem -> Prop),
  Own F m -> 0 <= n ->
  (forall r m', Own (rblks r ++ F) m' -> ReprInv M r -> rsign r = Positive -> Q r m') ->
  safe (ones w M n) m Q.
Proof. exact wp_ones. Qed.
Print Assumptions C17_ones.

(** Buffer::push_resizing / ensure_capacity never fail their guards on a buffer of capacity >= 2 *)
Theorem C17_push_resizing : forall M, 8 <= M ->
  forall (b : buffer) (x : Z) (F : list (Z * Z)) (m : mem) (Q : buffer -> mem -> Prop),
  Own (bblk b :: F) m -> BufOK M b ->
  (forall b' m', Own (bblk b' :: F) m' -> BufOK M b' -> bws b' = bws b \/ bws b' = bws b ++ [x] -> Q b' m') ->
  safe (push_resizing M b x) m Q.
Proof. exact wp_push_resizing. Qed.
Print Assumptions C17_push_resizing.

Theorem C17_init : forall M n, StateInv M (repeat zero n) mem0.
Proof. exact StateInv_init. Qed.
Print Assumptions C17_init.

(** ---- the buffer handling of the arithmetic operations: every capacity computation of the code suffices
    (no guard fails), the result satisfies the invariant, by-value operands that are not reused are freed
    exactly once, nothing leaks.  Operand forms: TSmall / TLarge (by value), TRefSmall / TRefLarge (by reference
    or static) - all 16 combinations. *)

(** UBig + UBig: add_dword (spill to 3 words), add_large_dword, add_large (ensure_capacity + push_slice of the
    longer tail, carry propagation, push_resizing of the final carry) *)
Theorem C17_add : forall w M, 8 <= M ->
  forall (a b : targ) (F : list (Z * Z)) (m : mem) (Q : repr -> mem -> Prop),
  Own (tblks a ++ tblks b ++ F) m -> TargInv M a -> TargInv M b -> RQ M F Q -> safe (add_mag w M a b) m Q.
Proof. exact wp_add_mag. Qed.
Print Assumptions C17_add.

(** UBig - UBig: the documented NegativeUBig panic is raised only after every owned buffer was released *)
Theorem C17_sub : forall w M, 8 <= M ->
  forall (a b : targ) (F : list (Z * Z)) (m : mem) (Q : outcome -> mem -> Prop),
  Own (tblks a ++ tblks b ++ F) m -> TargInv M a -> TargInv M b -> OQ M F Q -> safe (sub_mag w M a b) m Q.
Proof. exact wp_sub_mag. Qed.
Print Assumptions C17_sub.

(** the signed subtraction behind IBig + / - (sub_large with sign, sub_large_ref_val growing the right operand) *)
Theorem C17_sub_signed : forall w M, 8 <= M ->
  forall (a b : targ) (F : list (Z * Z)) (m : mem) (Q : outcome -> mem -> Prop),
  Own (tblks a ++ tblks b ++ F) m -> TargInv M a -> TargInv M b -> OQ M F Q -> safe (sub_signed w M a b) m Q.
Proof. exact wp_sub_signed. Qed.
Print Assumptions C17_sub_signed.

(** UBig * UBig: mul_dword (spill to 4 words), mul_large_dword (push_resizing of a word carry / ensure_capacity
    len + 2 for a double-word carry), mul_large (result buffer of len lhs + len rhs words) *)
Theorem C17_mul : forall w M, 8 <= M ->
  forall (a b : targ) (F : list (Z * Z)) (m : mem) (Q : repr -> mem -> Prop),
  Own (tblks a ++ tblks b ++ F) m -> TargInv M a -> TargInv M b -> RQ M F Q -> safe (mul_mag w M a b) m Q.
Proof. exact wp_mul_mag. Qed.
Print Assumptions C17_mul.

(** & of magnitudes: lowest_dword of a large operand (len >= 2), bitand_large (truncate to the shorter length) *)
Theorem C17_bitand : forall w M, 8 <= M ->
  forall (a b : targ) (F : list (Z * Z)) (m : mem) (Q : repr -> mem -> Prop),
  Own (tblks a ++ tblks b ++ F) m -> TargInv M a -> TargInv M b -> RQ M F Q -> safe (and_mag w M a b) m Q.
Proof. exact wp_and_mag. Qed.
Print Assumptions C17_bitand.

(** | and ^ of magnitudes (f = Z.lor / Z.lxor; the theorem holds for any f): bitor_large_dword (lowest_dword_mut),
    bitor_large (ensure_capacity + push_slice of the longer tail) *)
Theorem C17_bitor_bitxor : forall w M, 8 <= M ->
  forall (f : Z -> Z -> Z) (a b : targ) (F : list (Z * Z)) (m : mem) (Q : repr -> mem -> Prop),
  Own (tblks a ++ tblks b ++ F) m -> TargInv M a -> TargInv M b -> RQ M F Q -> safe (orx_mag w M f a b) m Q.
Proof. exact wp_orx_mag. Qed.
Print Assumptions C17_bitor_bitxor.

(** / : div_large_dword, div_large (div_rem_in_lhs pushes the top quotient word with push_resizing, erase_front of
    the remainder words, the divisor buffer is freed); DivideBy0 only after the owned buffer was released *)
Theorem C17_div : forall w M, 8 <= M ->
  forall (a b : targ) (F : list (Z * Z)) (m : mem) (Q : outcome -> mem -> Prop),
  Own (tblks a ++ tblks b ++ F) m -> TargInv M a -> TargInv M b -> OQ M F Q -> safe (div_mag w M a b) m Q.
Proof. exact wp_div_mag. Qed.
Print Assumptions C17_div.

(** % : rem_large (the remainder is copied into the divisor's buffer, lhs[..n] in range, the dividend buffer is
    freed), the short-dividend cases (from_buffer of the dividend / Buffer::clone_from_slice into the divisor) *)
Theorem C17_rem : forall w M, 8 <= M ->
  forall (a b : targ) (F : list (Z * Z)) (m : mem) (Q : outcome -> mem -> Prop),
  Own (tblks a ++ tblks b ++ F) m -> TargInv M a -> TargInv M b -> OQ M F Q -> safe (rem_mag w M a b) m Q.
Proof. exact wp_rem_mag. Qed.
Print Assumptions C17_rem.

(** Buffer::into_boxed_slice (ConstLargeDivisor::new, ReducedLarge::{one, from_ubig}, inv_large,
    convert_from_normalized): realloc is handed the layout the block was allocated with, and the Box<[Word]> owns
    a block of exactly len words ... *)
Theorem C17_into_boxed_slice : forall (b : buffer) (F : list (Z * Z)) (m : mem) (Q : option Z * list Z -> mem -> Prop),
  Own (bblk b :: F) m ->
  (forall bx m', Own (box_blks bx ++ F) m' -> snd bx = bws b -> Q bx m') ->
  safe (into_boxed_slice b) m Q.
Proof. exact wp_into_boxed_slice. Qed.
Print Assumptions C17_into_boxed_slice.

(** ... so that dropping the box frees the block with the size it was last (re)allocated with *)
Theorem C17_drop_box : forall (bx : option Z * list Z) (F : list (Z * Z)) (m : mem) (Q : unit -> mem -> Prop),
  Own (box_blks bx ++ F) m -> (forall m', Own F m' -> Q tt m') -> safe (drop_box bx) m Q.
Proof. exact wp_drop_box. Qed.
Print Assumptions C17_drop_box.

(** all thirteen binary operators of the machine: UBig + - * & | ^ / %, IBig + - * / % through the sign tables *)
Theorem C17_binary_operators : forall w M, 8 <= M ->
  forall (f : binop) (s0 : sign) (a : targ) (s1 : sign) (b : targ) (F : list (Z * Z)) (m : mem) (Q : outcome -> mem -> Prop),
  Own (tblks a ++ tblks b ++ F) m -> TargInv M a -> TargInv M b -> OQ M F Q -> safe (run_bin w M f s0 a s1 b) m Q.
Proof. exact wp_run_bin. Qed.
Print Assumptions C17_binary_operators.

(** << : shl_dword (one / double word spilled), shl_large (in-place test capacity >= len + shift_words + 1,
    push + push_zeros_front), shl_large_ref *)
Theorem C17_shl : forall w M, 0 < w -> 8 <= M ->
  forall (a : targ) (n : Z) (F : list (Z * Z)) (m : mem) (Q : repr -> mem -> Prop),
  Own (tblks a ++ F) m -> TargInv M a -> 0 <= n -> RQ M F Q -> safe (shl_mag w M a n) m Q.
Proof. exact wp_shl_mag. Qed.
Print Assumptions C17_shl.

Theorem C17_shr : forall w M, 0 < w -> 8 <= M ->
  forall (a : targ) (n : Z) (F : list (Z * Z)) (m : mem) (Q : repr -> mem -> Prop),
  Own (tblks a ++ F) m -> TargInv M a -> 0 <= n -> RQ M F Q -> safe (shr_mag w M a n) m Q.
Proof. exact wp_shr_mag. Qed.
Print Assumptions C17_shr.

(** set_bit: with_bit_dword_spilled (idx + 1 words, idx - 2 does not underflow), with_bit_large (ensure_capacity idx + 1) *)
Theorem C17_set_bit : forall w M, 0 < w -> 8 <= M ->
  forall (a : targ) (n : Z) (F : list (Z * Z)) (m : mem) (Q : repr -> mem -> Prop),
  Own (tblks a ++ F) m -> TargInv M a -> is_ref a = false -> 0 <= n -> RQ M F Q -> safe (set_bit w M a n) m Q.
Proof. exact wp_set_bit. Qed.
Print Assumptions C17_set_bit.

Theorem C17_clear_bit : forall w M, 8 <= M ->
  forall (a : targ) (n : Z) (F : list (Z * Z)) (m : mem) (Q : repr -> mem -> Prop),
  Own (tblks a ++ F) m -> TargInv M a -> is_ref a = false -> RQ M F Q -> safe (clear_bit w M a n) m Q.
Proof. exact wp_clear_bit. Qed.
Print Assumptions C17_clear_bit.

(** EVERY step of the machine - construction from words / double words / ones, clone, clone_from of a value or a
    static, drop, move, swap, neg, abs, the thirteen binary operators (+ - * & | ^ / % and the signed + - * / %) in every call form (operands by value, by
    reference, static; a by-value operand is moved out of its slot), shl, shr, set_bit, clear_bit, the move of a value into a ConstDivisor
    (Buffer -> Box<[Word]>) with its read-back and drop, and the oracle's re-synchronisation device - preserves the invariant of the whole pool and the heap ledger.
    [op_ok] admits every constructor of [op]: slots exist, statics are normalized, bit counts are >= 0.
    (full version of the former C17_step_storage_ops_partial) *)
Theorem C17_step_storage_ops : forall w M, 0 < w -> 8 <= M ->
  forall (o : op) (pool : list repr) (m : mem),
  op_ok w M (length pool) o -> StateInv M pool m ->
  safe (step w M o pool) m (fun pr m' => StateInv M (fst pr) m' /\ length (fst pr) = length pool).
Proof. exact step_safe. Qed.
Print Assumptions C17_step_storage_ops.

(** all finite histories of steps from the initial pool: invariant at the end, and the final drop of the pool
    frees every block exactly once (empty ghost heap).  (full version of the former
    C17_histories_storage_ops_partial: the arithmetic steps are covered) *)
Theorem C17_histories_storage_ops : forall w M, 0 < w -> 8 <= M ->
  forall (n : nat) (ops : list op), Forall (op_ok w M n) ops ->
  safe (run w M ops (repeat zero n)) mem0
       (fun pool m => StateInv M pool m /\ safe (drop_all pool) m (fun _ m' => forall p, blk m' p = None)).
Proof. exact history_safe. Qed.
Print Assumptions C17_histories_storage_ops.
