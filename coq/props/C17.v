(** C17 - the hand-managed integer storage is memory-safe and keeps its invariants.
    ONLY statements pinned here; proofs live in Dashu.Int.Storage*.
    [safe c m Q]: running the machine computation c from ghost heap m ends in a result satisfying Q, or in
    one of the two "value too large for the address space" outcomes; any other guard failure (assert!,
    bounds precondition of an unsafe block, double free, free with a wrong size) is excluded.
    [Own bl m]: the live blocks of the ghost heap m are exactly bl, each once.
    All statements hold for every word size w > 0 and every MAX_CAPACITY M >= 8. *)
From Dashu Require Import Base.Prelude Base.Words Int.StorageModel Int.StorageProofs Int.StorageHistory.
Open Scope Z_scope.

Theorem C17_default_capacity_compact : forall M, 8 <= M -> forall n, 0 <= n <= M ->
  n <= default_capacity M n <= max_compact_capacity M n /\ 2 <= default_capacity M n <= M.
Proof. exact default_capacity_bounds. Qed.
Print Assumptions C17_default_capacity_compact.

(** Repr::from_buffer - the exit of every arithmetic operation - establishes the invariant from ANY owned
    buffer with len <= capacity, frees the buffer when the value becomes inline, keeps the rest of the heap *)
Theorem C17_from_buffer_establishes_invariant : forall w M, 8 <= M ->
  forall (b : buffer) (F : list (Z * Z)) (m : mem) (Q : repr -> mem -> Prop),
  Own (bblk b :: F) m -> BufOK M b ->
  (forall r m', Own (rblks r ++ F) m' -> ReprInv M r -> rsign r = Positive -> Q r m') ->
  safe (from_buffer w M b) m Q.
Proof. exact wp_from_buffer. Qed.
Print Assumptions C17_from_buffer_establishes_invariant.

Theorem C17_clone : forall M, 8 <= M ->
  forall (v : view) (F : list (Z * Z)) (m : mem) (Q : repr -> mem -> Prop),
  Own F m -> ViewInv M v ->
  (forall r m', Own (rblks r ++ F) m' -> ReprInv M r -> Q r m') ->
  safe (repr_clone M v) m Q.
Proof. exact wp_repr_clone. Qed.
Print Assumptions C17_clone.

(** clone_from between values of any sizes (reuse window, reallocation, inline source, static source) *)
Theorem C17_clone_from : forall M, 8 <= M ->
  forall (self : repr) (v : view) (F : list (Z * Z)) (m : mem) (Q : repr -> mem -> Prop),
  Own (rblks self ++ F) m -> ReprInv M self -> ViewInv M v ->
  (forall r m', Own (rblks r ++ F) m' -> ReprInv M r -> Q r m') ->
  safe (repr_clone_from M self v) m Q.
Proof. exact wp_repr_clone_from. Qed.
Print Assumptions C17_clone_from.

(** Repr::ones as repaired by 28de539 (n <= DWORD_BITS inline): invariant for every n *)
Theorem C17_ones : forall w M, 0 < w -> 8 <= M ->
  forall (n : Z) (F : list (Z * Z)) (m : mem) (Q : repr -> mem -> Prop),
  Own F m -> 0 <= n ->
  (forall r m', Own (rblks r ++ F) m' -> ReprInv M r -> rsign r = Positive -> Q r m') ->
  safe (ones w M n) m Q.
Proof. exact wp_ones. Qed.
Print Assumptions C17_ones.

(** Buffer::push_resizing / ensure_capacity never fail their guards on a buffer of capacity >= 2 *)
Theorem C17_push_resizing : forall M, 8 <= M ->
  forall (b : buffer) (x : Z) (F : list (Z * Z)) (m : mem) (Q : buffer -> mem -> Prop),
  Own (bblk b :: F) m -> BufOK M b ->
  (forall b' m', Own (bblk b' :: F) m' -> BufOK M b' -> bws b' = bws b \/ bws b' = bws b ++ [x] -> Q b' m') ->
  safe (push_resizing M b x) m Q.
Proof. exact wp_push_resizing. Qed.
Print Assumptions C17_push_resizing.

Theorem C17_init : forall M n, StateInv M (repeat zero n) mem0.
Proof. exact StateInv_init. Qed.
Print Assumptions C17_init.

(** every storage step (construction from words / double words / ones, clone, clone_from of a value or a
    static, drop, move, swap, neg, abs) preserves the invariant of the whole pool and the heap ledger *)
Theorem C17_step_storage_ops_partial : forall w M, 0 < w -> 8 <= M ->
  forall (o : op) (pool : list repr) (m : mem),
  op_ok (length pool) o -> StateInv M pool m ->
  safe (step w M o pool) m (fun pr m' => StateInv M (fst pr) m' /\ length (fst pr) = length pool).
Proof. exact step_safe. Qed.
Print Assumptions C17_step_storage_ops_partial.

(** all finite histories of storage steps from the initial pool: invariant at the end, and the final drop
    of the pool frees every block exactly once (empty ghost heap).  PARTIAL: the arithmetic steps of the
    machine (OBin, OShl, OShr, OSetBit, OClrBit) are not covered by op_ok; their exit from_buffer is
    covered by C17_from_buffer_establishes_invariant, their guards are compared on every run only. *)
Theorem C17_histories_storage_ops_partial : forall w M, 0 < w -> 8 <= M ->
  forall (n : nat) (ops : list op), Forall (op_ok n) ops ->
  safe (run w M ops (repeat zero n)) mem0
       (fun pool m => StateInv M pool m /\ safe (drop_all pool) m (fun _ m' => forall p, blk m' p = None)).
Proof. exact history_safe. Qed.
Print Assumptions C17_histories_storage_ops_partial.
