(** C16 - operations terminate and panic only where the documentation says so: pinned statements.
    Definitions: Cross/PanicSpec.v (documented table), Cross/PanicAsis.v (as-is panic mechanisms);
    proofs: Cross/PanicProofs.v. *)
From Dashu Require Import Base.Prelude Cross.PanicSpec Cross.PanicAsis Cross.PanicProofs.
Open Scope Z_scope.

(** the documented table, reason by reason *)
Theorem C16_doc_div : forall b r, In r (documented (KDiv b)) <-> r = Doc DivideBy0 /\ b = 0.
Proof. exact doc_div. Qed.
Print Assumptions C16_doc_div.

Theorem C16_doc_usub : forall a b r, In r (documented (KUSub a b)) <-> r = Doc NegativeUBig /\ a < b.
Proof. exact doc_usub. Qed.
Print Assumptions C16_doc_usub.

Theorem C16_doc_gcd : forall a b r, In r (documented (KGcd a b)) <-> r = Doc GcdZeroZero /\ a = 0 /\ b = 0.
Proof. exact doc_gcd. Qed.
Print Assumptions C16_doc_gcd.

Theorem C16_doc_root : forall x n r, In r (documented (KRoot x n)) <->
  (r = Doc RootZeroth /\ n = 0) \/ (r = Doc RootNegative /\ x < 0 /\ Z.even n = true).
Proof. exact doc_root. Qed.
Print Assumptions C16_doc_root.

Theorem C16_doc_ilog : forall x b r, In r (documented (KIlog x b)) <-> r = Doc LogOperand /\ (x = 0 \/ b < 2).
Proof. exact doc_ilog. Qed.
Print Assumptions C16_doc_ilog.

Theorem C16_doc_radix : forall x r, In r (documented (KRadix x)) <-> r = Doc InvalidRadix /\ ~ (2 <= x <= 36).
Proof. exact doc_radix. Qed.
Print Assumptions C16_doc_radix.

Theorem C16_doc_ring_same : forall m b r, m <> 0 -> In r (documented (KRing m m true true b)) <->
  r = Doc NonInvertible /\ Z.gcd (b mod m) m <> 1.
Proof. exact doc_ring_same. Qed.
Print Assumptions C16_doc_ring_same.

Theorem C16_float_clean : forall B o prec xs xe ys ye n,
  0 < prec -> 0 < xs -> 0 < ys -> 0 <= n -> documented (KFloat B o prec (Fin xs xe) (Fin ys ye) n) = [].
Proof. exact float_clean. Qed.
Print Assumptions C16_float_clean.

(** try_into().unwrap() of the primitive-operand forms *)
Theorem C16_prim_rem_signed : forall k a b, 0 < k -> - 2 ^ (k - 1) <= b <= 2 ^ (k - 1) - 1 ->
  prim_rem_asis (- 2 ^ (k - 1)) (2 ^ (k - 1) - 1) a b = if b =? 0 then OPanic (Doc DivideBy0) else ORet.
Proof. exact prim_rem_signed. Qed.
Print Assumptions C16_prim_rem_signed.

Theorem C16_prim_rem_unsigned : forall hi a b, 0 < b <= hi ->
  (prim_rem_asis 0 hi a b = ORet <-> (0 <= a \/ Z.rem a b = 0)) /\
  (prim_rem_asis 0 hi a b = OPanic (Doc Undocumented) <-> (a < 0 /\ Z.rem a b <> 0)).
Proof. exact prim_rem_unsigned. Qed.
Print Assumptions C16_prim_rem_unsigned.

Theorem C16_prim_div_unsigned_pos : forall hi a b, 0 <= a <= hi -> 0 < b -> prim_div_asis 0 hi a b = ORet.
Proof. exact prim_div_unsigned_pos. Qed.
Print Assumptions C16_prim_div_unsigned_pos.

(** the as-is mechanisms never leave the documented table outside the open finding classes *)
Theorem C16_float_asis_within_spec : forall B o prec x y n out,
  known (KFloat B o prec x y n) = None -> In out (float_asis B o prec x y n) ->
  accepts (KFloat B o prec x y n) out = true.
Proof. exact float_asis_within_spec. Qed.
Print Assumptions C16_float_asis_within_spec.

Theorem C16_prim_asis_within_spec : forall c out,
  match c with KPrimRem _ _ _ _ | KPrimDiv _ _ _ _ | KPrimStd _ _ _ => True | _ => False end ->
  known c = None -> In out (asis c) -> accepts c out = true.
Proof. exact prim_asis_within_spec. Qed.
Print Assumptions C16_prim_asis_within_spec.

(** the open finding classes are real *)
Theorem C16_prim_rem_negative_refuted :
  asis (KPrimRem 0 255 (-7) 3) = [OPanic (Doc Undocumented)] /\ accepts (KPrimRem 0 255 (-7) 3) (OPanic (Doc Undocumented)) = false
  /\ known (KPrimRem 0 255 (-7) 3) = Some TPrimRemNegative.
Proof. exact prim_rem_negative_refuted. Qed.
Print Assumptions C16_prim_rem_negative_refuted.

Theorem C16_prim_div_unfit_refuted :
  asis (KPrimDiv 0 65535 1 (-1)) = [OPanic (Doc Undocumented)] /\ accepts (KPrimDiv 0 65535 1 (-1)) (OPanic (Doc Undocumented)) = false
  /\ asis (KPrimDiv (-128) 127 (-128) (-1)) = [OPanic (Doc Undocumented)]
  /\ known (KPrimDiv (-128) 127 (-128) (-1)) = Some TPrimDivUnfit.
Proof. exact prim_div_unfit_refuted. Qed.
Print Assumptions C16_prim_div_unfit_refuted.

Theorem C16_ln_nonpositive_refuted :
  forall o, In o (asis (KFloat 2 FoLn 17 (Fin (-1) (-7)) (Fin 1 0) 0)) -> accepts (KFloat 2 FoLn 17 (Fin (-1) (-7)) (Fin 1 0) 0) o = false.
Proof. exact ln_nonpositive_refuted. Qed.
Print Assumptions C16_ln_nonpositive_refuted.

Theorem C16_with_base_precision_zero_refuted :
  auto_prec_zero 3 10 1 = true /\ with_base_asis 3 10 0 (Fin 1 1000) = OPanic (Doc UnlimitedPrecision)
  /\ accepts (KWithBase 3 10 1 (Fin 1 1000)) (OPanic (Doc UnlimitedPrecision)) = false.
Proof. exact with_base_precision_zero_refuted. Qed.
Print Assumptions C16_with_base_precision_zero_refuted.

(** Farey stepping: no fuel polynomial in the size of the input suffices *)
Theorem C16_farey_walk_linear : forall L, 1 <= L -> forall f m, 1 <= m -> m + Z.of_nat f <= L ->
  farey_walk f (0, 1) (1, m) (1, L * L + 1) L = OutOfFuel.
Proof. exact farey_walk_linear. Qed.
Print Assumptions C16_farey_walk_linear.

Theorem C16_farey_integer_linear : forall n L, 2 <= L -> farey_up_asis (Z.to_nat (L - 1)) n 1 L = OHang.
Proof. exact farey_integer_linear. Qed.
Print Assumptions C16_farey_integer_linear.
