(** C16 - operations terminate and panic only where the documentation says so: pinned statements.
    Definitions: Cross/PanicSpec.v (documented table), Cross/PanicAsis.v (as-is panic mechanisms);
    proofs: Cross/PanicProofs.v. *)
From Dashu Require Import Base.Prelude Cross.PanicSpec Cross.PanicAsis Cross.PanicProofs.
Open Scope Z_scope.

(** the documented table, reason by reason *)
Theorem C16_doc_div : forall b r, In r (documented (KDiv b)) <-> r = Doc DivideBy0 /\ b = 0.
Proof. exact doc_div. Qed.
Print Assumptions C16_doc_div.

Theorem C16_doc_usub : forall a b r, In r (documented (KUSub a b)) <-> r = Doc NegativeUBig /\ a < b.
Proof. exact doc_usub. Qed.
Print Assumptions C16_doc_usub.

Theorem C16_doc_gcd : forall a b r, In r (documented (KGcd a b)) <-> r = Doc GcdZeroZero /\ a = 0 /\ b = 0.
Proof. exact doc_gcd. Qed.
Print Assumptions C16_doc_gcd.

Theorem C16_doc_root : forall x n r, In r (documented (KRoot x n)) <->
  (r = Doc RootZeroth /\ n = 0) \/ (r = Doc RootNegative /\ x < 0 /\ Z.even n = true).
Proof. exact doc_root. Qed.
Print Assumptions C16_doc_root.

Theorem C16_doc_ilog : forall x b r, In r (documented (KIlog x b)) <-> r = Doc LogOperand /\ (x = 0 \/ b < 2).
Proof. exact doc_ilog. Qed.
Print Assumptions C16_doc_ilog.

Theorem C16_doc_radix : forall x r, In r (documented (KRadix x)) <-> r = Doc InvalidRadix /\ ~ (2 <= x <= 36).
Proof. exact doc_radix. Qed.
Print Assumptions C16_doc_radix.

Theorem C16_doc_ring_same : forall m b r, m <> 0 -> In r (documented (KRing m m true true b)) <->
  r = Doc NonInvertible /\ Z.gcd (b mod m) m <> 1.
Proof. exact doc_ring_same. Qed.
Print Assumptions C16_doc_ring_same.

Theorem C16_float_clean : forall B o prec xs xe ys ye n,
  0 < prec -> 0 < xs -> 0 < ys -> 0 <= n -> documented (KFloat B o prec (Fin xs xe) (Fin ys ye) n) = [].
Proof. exact float_clean. Qed.
Print Assumptions C16_float_clean.

(** try_into().unwrap() of the primitive-operand forms *)
Theorem C16_prim_rem_signed : forall k a b, 0 < k -> - 2 ^ (k - 1) <= b <= 2 ^ (k - 1) - 1 ->
  prim_rem_asis (- 2 ^ (k - 1)) (2 ^ (k - 1) - 1) a b = if b =? 0 then OPanic (Doc DivideBy0) else ORet.
Proof. exact prim_rem_signed. Qed.
Print Assumptions C16_prim_rem_signed.

Theorem C16_prim_rem_unsigned : forall hi a b, 0 < b <= hi ->
  (prim_rem_asis 0 hi a b = ORet <-> (0 <= a \/ Z.rem a b = 0)) /\
  (prim_rem_asis 0 hi a b = OPanic (Doc Undocumented) <-> (a < 0 /\ Z.rem a b <> 0)).
Proof. exact prim_rem_unsigned. Qed.
Print Assumptions C16_prim_rem_unsigned.

Theorem C16_prim_div_unsigned_pos : forall hi a b, 0 <= a <= hi -> 0 < b -> prim_div_asis 0 hi a b = ORet.
Proof. exact prim_div_unsigned_pos. Qed.
Print Assumptions C16_prim_div_unsigned_pos.

(** the float guard sequences never leave the documented table (no finding class excluded since the repair of ln) *)
Theorem C16_float_asis_within_spec : forall B o prec x y n out,
  In out (float_asis B o prec x y n) -> accepts (KFloat B o prec x y n) out = true.
Proof. exact float_asis_within_spec. Qed.
Print Assumptions C16_float_asis_within_spec.

(** ... and, except for powf and the total operations, are exact: return iff no documented precondition is violated,
    otherwise the first listed reason *)
Theorem C16_float_guards_exact : forall B o prec x y n,
  match o with FoPowf | FoTotal => False | _ => True end ->
  float_asis B o prec x y n = [first_documented (KFloat B o prec x y n)].
Proof. exact float_guards_exact. Qed.
Print Assumptions C16_float_guards_exact.

(** operator-form division (repr_div entered with unshrunk operands) *)
Theorem C16_opdiv_asis_within_spec : forall B prec x y out,
  known (KFloatOpDiv B prec x y) = None -> In out (opdiv_asis B prec x y) -> accepts (KFloatOpDiv B prec x y) out = true.
Proof. exact opdiv_asis_within_spec. Qed.
Print Assumptions C16_opdiv_asis_within_spec.

Theorem C16_opdiv_valid_operands_clean : forall B prec xs xe y, ndig B xs <= prec -> opdiv_long B prec (Fin xs xe) y = false.
Proof. exact opdiv_valid_operands_clean. Qed.
Print Assumptions C16_opdiv_valid_operands_clean.

Theorem C16_prim_asis_within_spec : forall c out,
  match c with KPrimRem _ _ _ _ | KPrimDiv _ _ _ _ | KPrimStd _ _ _ => True | _ => False end ->
  known c = None -> In out (asis c) -> accepts c out = true.
Proof. exact prim_asis_within_spec. Qed.
Print Assumptions C16_prim_asis_within_spec.

(** the open finding classes are real *)
Theorem C16_prim_rem_negative_refuted :
  asis (KPrimRem 0 255 (-7) 3) = [OPanic (Doc Undocumented)] /\ accepts (KPrimRem 0 255 (-7) 3) (OPanic (Doc Undocumented)) = false
  /\ known (KPrimRem 0 255 (-7) 3) = Some TPrimRemNegative.
Proof. exact prim_rem_negative_refuted. Qed.
Print Assumptions C16_prim_rem_negative_refuted.

Theorem C16_prim_div_unfit_refuted :
  asis (KPrimDiv 0 65535 1 (-1)) = [OPanic (Doc Undocumented)] /\ accepts (KPrimDiv 0 65535 1 (-1)) (OPanic (Doc Undocumented)) = false
  /\ asis (KPrimDiv (-128) 127 (-128) (-1)) = [OPanic (Doc Undocumented)]
  /\ known (KPrimDiv (-128) 127 (-128) (-1)) = Some TPrimDivUnfit.
Proof. exact prim_div_unfit_refuted. Qed.
Print Assumptions C16_prim_div_unfit_refuted.

(** finding ln_nonpositive, repaired by 60b59c4: the guard sequence before the repair was refused by the table on every
    outcome; today's sequence panics as documented *)
Theorem C16_ln_nonpositive_refuted :
  forall o, In o (ln_asis_before_60b59c4 2 false 17 (Fin (-1) (-7))) -> accepts (KFloat 2 FoLn 17 (Fin (-1) (-7)) (Fin 1 0) 0) o = false.
Proof. exact ln_nonpositive_refuted. Qed.
Print Assumptions C16_ln_nonpositive_refuted.

Theorem C16_ln_nonpositive_fixed :
  asis (KFloat 2 FoLn 17 (Fin (-1) (-7)) (Fin 1 0) 0) = [OPanic (Doc LogOperand)] /\
  asis (KFloat 10 FoLn 5 (Fin 0 0) (Fin 1 0) 0) = [OPanic (Doc LogOperand)] /\
  asis (KFloat 10 FoLn1p 5 (Fin (-1) 0) (Fin 1 0) 0) = [OPanic (Doc LogOperand)] /\
  asis (KFloat 10 FoLn1p 5 (Fin (-5) (-1)) (Fin 1 0) 0) = [ORet].
Proof. exact ln_nonpositive_fixed. Qed.
Print Assumptions C16_ln_nonpositive_fixed.

Theorem C16_float_operand_exceeds_precision_refuted :
  known (KFloatOpDiv 2 2 (Fin 31 0) (Fin 3 0)) = Some TFloatOperandExceedsPrecision /\
  asis (KFloatOpDiv 2 2 (Fin 31 0) (Fin 3 0)) = [OPanic (Doc Undocumented); ORet] /\
  accepts (KFloatOpDiv 2 2 (Fin 31 0) (Fin 3 0)) (OPanic (Doc Undocumented)) = false /\
  opdiv_long 10 1 (Fin 1000 0) (Fin 3 0) = false.
Proof. exact float_operand_exceeds_precision_refuted. Qed.
Print Assumptions C16_float_operand_exceeds_precision_refuted.

Theorem C16_with_base_precision_zero_refuted :
  auto_prec_zero 3 10 1 = true /\ with_base_asis 3 10 0 (Fin 1 1000) = OPanic (Doc UnlimitedPrecision)
  /\ accepts (KWithBase 3 10 1 (Fin 1 1000)) (OPanic (Doc UnlimitedPrecision)) = false.
Proof. exact with_base_precision_zero_refuted. Qed.
Print Assumptions C16_with_base_precision_zero_refuted.

(** Farey stepping: no fuel polynomial in the size of the input suffices *)
Theorem C16_farey_walk_linear : forall L, 1 <= L -> forall f m, 1 <= m -> m + Z.of_nat f <= L ->
  farey_walk f (0, 1) (1, m) (1, L * L + 1) L = OutOfFuel.
Proof. exact farey_walk_linear. Qed.
Print Assumptions C16_farey_walk_linear.

Theorem C16_farey_integer_linear : forall n L, 2 <= L -> farey_up_asis (Z.to_nat (L - 1)) n 1 L = OHang.
Proof. exact farey_integer_linear. Qed.
Print Assumptions C16_farey_integer_linear.

(** * Termination obligations discharged in the developments of the other properties (imported, not re-proved):
    every fuelled loop of the models returns a value under an explicit fuel bound, every parser / deserialiser
    model returns a value or an error. *)
From Dashu Require Words Ratio.RatArithModel Ratio.RatArithConst Ratio.SimplestSpec Ratio.SimplestModel Ratio.SimplestProof Ratio.SimplestAsis Ratio.FareyProof
  Int.DivWordModel Int.DivWordProofs Int.DivLargeProofs Int.DivDCTotal Int.IoSpec Int.IoModel Int.IoPow2 Int.IoRadix
  Serde.WireModel Serde.WireProofs Macro.LitModel Macro.LitGenProofs
  Int.GrlSpec Int.GrlModel Int.GrlRootProof Int.GrlLogProof Int.GrlRemoveProof Int.GrlGcdProof
  Int.ModRingSpec Int.ModRingSpecProofs Int.ModRingPowModel Int.ModRingPowProofs.

(** C04: the gcd loop of the const constructors (rational/src/repr.rs) never runs out of its fuel *)
Theorem C16_cgcd_fuel_enough : forall n d : Z, 0 < d ->
  RatArithModel.cgcd_loop (RatArithModel.cgcd_fuel d) d (n mod d) <> None.
Proof. exact RatArithConst.cgcd_fuel_enough. Qed.
Print Assumptions C16_cgcd_fuel_enough.

(** C18: simplest_in returns a value for every pair of end points (no panic, never out of fuel) *)
Theorem C16_simplest_in_total_distinct : forall l u, 0 < snd l -> 0 < snd u -> ~ SimplestProof.fval_eq l u ->
  exists r, SimplestModel.simplest_in_asis l u = Ok r /\ Z.gcd (fst r) (snd r) = 1 /\
    ((SimplestProof.fval_lt l u /\ SimplestProof.simplest_between l u r) \/ (SimplestProof.fval_lt u l /\ SimplestProof.simplest_between u l r)).
Proof. exact SimplestAsis.simplest_in_asis_optimal. Qed.
Print Assumptions C16_simplest_in_total_distinct.

Theorem C16_simplest_in_total_equal : forall l u, 0 < snd l -> 0 < snd u -> SimplestProof.fval_eq l u ->
  SimplestModel.simplest_in_asis l u = Ok (SimplestSpec.freduce l).
Proof. exact SimplestAsis.simplest_in_asis_equal. Qed.
Print Assumptions C16_simplest_in_total_equal.

(** C18: farey_neighbors stops within its limit + 1 iterations on its domain *)
Theorem C16_farey_neighbors_total : forall (x : Z * Z) (L : Z), 1 <= L -> L < snd x -> Z.gcd (fst x) (snd x) = 1 ->
  Z.abs (fst x) <= snd x ->
  exists l r, SimplestModel.farey_neighbors_asis x L = Ok (l, r) /\ FareyProof.farey_pair L x l r.
Proof. exact FareyProof.farey_neighbors_asis_ok. Qed.
Print Assumptions C16_farey_neighbors_total.

(** C02: the correction loop of the divide-and-conquer division returns within the fuel that bounds the deficit *)
Theorem C16_dc_fix_loop_total : forall w : Z, 0 < w -> forall (rhs : list Z) (n m : nat) (X : Z),
  Words.wf w rhs -> length rhs = n -> 0 < Words.value w rhs ->
  forall (fuel : nat) (rem q : list Z) (ro qo : Z),
  Words.wf w rem -> length rem = n -> Words.wf w q -> length q = m ->
  Words.value w rem + Words.B w ^ Z.of_nat n * ro = X - (Words.value w q + Words.B w ^ Z.of_nat m * qo) * Words.value w rhs ->
  - Z.of_nat fuel * Words.value w rhs <= X - (Words.value w q + Words.B w ^ Z.of_nat m * qo) * Words.value w rhs ->
  exists r, DivWordModel.dc_fix_loop w fuel rem q rhs ro qo = Ok r.
Proof. exact DivDCTotal.dc_fix_loop_total. Qed.
Print Assumptions C16_dc_fix_loop_total.

(** C02: the recursion div_rem_small_quotient of Burnikel-Ziegler returns (no panic, no 'not enough memory', fuel = recursion depth) *)
Theorem C16_dc_small_quotient_total : forall w : Z, 0 < w -> forall div3by2 : Z -> Z -> Z -> Z * Z,
  (forall d lo hi : Z, DivWordProofs.norm2 w d -> 0 <= lo < Words.B w -> 0 <= hi < d ->
     div3by2 d lo hi = ((lo + Words.B w * hi) / d, (lo + Words.B w * hi) mod d)) ->
  forall mul_sub : list Z -> list Z -> list Z -> list Z * Z,
  (forall (c a b c' : list Z) (k : Z), Words.wf w c -> Words.wf w a -> Words.wf w b -> length c = (length a + length b)%nat ->
     mul_sub c a b = (c', k) ->
     Words.wf w c' /\ length c' = length c /\ Words.value w c' + Words.B w ^ len c * k = Words.value w c - Words.value w a * Words.value w b) ->
  forall T : nat, (2 <= T)%nat ->
  forall (fuel : nat) (lhs rhs : list Z) (x : result (list Z * bool)),
  DivLargeProofs.kernel_pre w lhs rhs -> (length lhs - length rhs <= length rhs)%nat -> (length lhs - length rhs < fuel)%nat ->
  DivWordModel.dc_small_quotient w div3by2 mul_sub T fuel lhs rhs = x ->
  exists (res : list Z) (o : bool), x = Ok (res, o).
Proof. exact DivDCTotal.dc_small_quotient_total. Qed.
Print Assumptions C16_dc_small_quotient_total.

(** C02: the division kernel (schoolbook below the threshold, divide-and-conquer above) returns the quotient and remainder
    for every fuel above the divisor length *)
Theorem C16_div_rem_in_place_total : forall w : Z, 0 < w -> forall div3by2 : Z -> Z -> Z -> Z * Z,
  (forall d lo hi : Z, DivWordProofs.norm2 w d -> 0 <= lo < Words.B w -> 0 <= hi < d ->
     div3by2 d lo hi = ((lo + Words.B w * hi) / d, (lo + Words.B w * hi) mod d)) ->
  forall mul_sub : list Z -> list Z -> list Z -> list Z * Z,
  (forall (c a b c' : list Z) (k : Z), Words.wf w c -> Words.wf w a -> Words.wf w b -> length c = (length a + length b)%nat ->
     mul_sub c a b = (c', k) ->
     Words.wf w c' /\ length c' = length c /\ Words.value w c' + Words.B w ^ len c * k = Words.value w c - Words.value w a * Words.value w b) ->
  forall T : nat, (2 <= T)%nat ->
  forall (fuel : nat) (lhs rhs : list Z), DivLargeProofs.kernel_pre w lhs rhs -> (length rhs < fuel)%nat ->
  exists (res : list Z) (c : bool),
    DivWordModel.div_rem_in_place w div3by2 mul_sub T fuel lhs rhs = Ok (res, c) /\ DivLargeProofs.kernel_post w lhs rhs res c.
Proof. exact DivDCTotal.div_rem_in_place_correct. Qed.
Print Assumptions C16_div_rem_in_place_total.

(** C02: large division (normalise, kernel, denormalise) returns floor quotient and remainder: no panic for a non-zero divisor *)
Theorem C16_div_rem_large_total : forall w : Z, 0 < w -> forall div3by2 : Z -> Z -> Z -> Z * Z,
  (forall d lo hi : Z, DivWordProofs.norm2 w d -> 0 <= lo < Words.B w -> 0 <= hi < d ->
     div3by2 d lo hi = ((lo + Words.B w * hi) / d, (lo + Words.B w * hi) mod d)) ->
  forall mul_sub : list Z -> list Z -> list Z -> list Z * Z,
  (forall (c a b c' : list Z) (k : Z), Words.wf w c -> Words.wf w a -> Words.wf w b -> length c = (length a + length b)%nat ->
     mul_sub c a b = (c', k) ->
     Words.wf w c' /\ length c' = length c /\ Words.value w c' + Words.B w ^ len c * k = Words.value w c - Words.value w a * Words.value w b) ->
  forall T : nat, (2 <= T)%nat ->
  forall (fuel : nat) (lhs rhs : list Z), Words.wf w lhs -> Words.wf w rhs -> (2 <= length rhs)%nat -> (length rhs <= length lhs)%nat ->
  0 < DivWordModel.highest_word w rhs -> (length rhs < fuel)%nat ->
  exists q r : list Z, DivWordModel.div_rem_large w div3by2 mul_sub T fuel lhs rhs = Ok (q, r) /\
    Words.value w q = Words.value w lhs / Words.value w rhs /\ Words.value w r = Words.value w lhs mod Words.value w rhs /\
    Words.wf w q /\ Words.wf w r /\ length r = length rhs /\ length q = (length lhs - length rhs + 1)%nat.
Proof. exact DivDCTotal.div_rem_large_correct. Qed.
Print Assumptions C16_div_rem_large_total.

(** C12: Newton's iteration of nth_root returns for every fuel above its starting guess *)
Theorem C16_newton_root_terminates : forall x n : Z, 0 < x -> 2 <= n -> forall fuel : nat,
  GrlModel.newton_g0 x n < Z.of_nat fuel -> exists r : Z, GrlModel.newton_root fuel x n = Ok r.
Proof. exact GrlRootProof.newton_root_terminates. Qed.
Print Assumptions C16_newton_root_terminates.

(** C12: nth_root panics only for the zeroth root; IBig::nth_root exactly on the documented set *)
Theorem C16_nth_root_panics : forall (fuel : nat) (x n : Z) (r : reason),
  GrlModel.nth_root_asis fuel x n = Panic r -> r = RootZeroth /\ n = 0.
Proof. exact GrlRootProof.nth_root_asis_panics. Qed.
Print Assumptions C16_nth_root_panics.

Theorem C16_inth_root_panics : forall (fuel : nat) (x n : Z) (r : reason),
  GrlModel.inth_root_asis fuel x n = Panic r -> GrlSpec.root_panic n x = Some r.
Proof. exact GrlRootProof.inth_root_asis_panics. Qed.
Print Assumptions C16_inth_root_panics.

(** C12: the correction loops of ilog return within (target - estimate) + 1 steps *)
Theorem C16_log_large_loop_terminates : forall target base : Z, 2 <= base -> 1 <= target ->
  forall (fuel : nat) (est est_pow : Z), 1 <= est_pow -> Z.max 0 (target - est_pow) < Z.of_nat fuel ->
  exists r : Z * Z, GrlModel.log_large_loop fuel target base est est_pow = Ok r.
Proof. exact GrlLogProof.log_large_loop_terminates. Qed.
Print Assumptions C16_log_large_loop_terminates.

Theorem C16_log_word_base_loop_terminates : forall target base : Z, 2 <= base ->
  forall (fuel : nat) (est est_pow : Z), 1 <= est_pow -> Z.max 0 (target - est_pow) < Z.of_nat fuel ->
  exists r : Z * Z, GrlModel.lwb_stage_b fuel target base est est_pow = Ok r.
Proof. exact GrlLogProof.lwb_stage_b_terminates. Qed.
Print Assumptions C16_log_word_base_loop_terminates.

(** C12: remove (repeated squaring of the factor, then the descent) never runs out of fuel *)
Theorem C16_remove_terminates : forall (fuel : nat) (x f : Z), 0 < x -> 2 <= f -> x < Z.of_nat fuel ->
  GrlModel.remove_asis fuel x f <> OutOfFuel.
Proof. exact GrlRemoveProof.remove_asis_terminates. Qed.
Print Assumptions C16_remove_terminates.

(** C12: binary gcd and the extended Euclid loop of the primitive types terminate; they panic only for gcd(0, 0) *)
Theorem C16_prim_gcd_terminates : forall (fuel : nat) (bits a b : Z), 0 <= a -> 0 <= b -> a + b <= Z.of_nat fuel ->
  GrlModel.prim_gcd_asis fuel bits a b <> OutOfFuel.
Proof. exact GrlGcdProof.prim_gcd_asis_terminates. Qed.
Print Assumptions C16_prim_gcd_terminates.

Theorem C16_prim_gcd_panics : forall (fuel : nat) (bits a b : Z) (r : reason),
  GrlModel.prim_gcd_asis fuel bits a b = Panic r -> GrlSpec.gcd_spec a b = Panic r.
Proof. exact GrlGcdProof.prim_gcd_asis_panics. Qed.
Print Assumptions C16_prim_gcd_panics.

Theorem C16_euclid_ext_terminates : forall (fuel : nat) (last_r r last_s s last_t t : Z), 0 < r -> r < Z.of_nat fuel ->
  exists res : Z * Z * Z, GrlModel.euclid_ext fuel last_r r last_s s last_t t = Ok res.
Proof. exact GrlGcdProof.euclid_ext_terminates. Qed.
Print Assumptions C16_euclid_ext_terminates.

(** C07: the integer parser is total: every text gives the value or the error kind of the specification, whatever the radix *)
Theorem C16_parse_body_total : forall (w r : Z) (s : list Z), 0 < w -> w mod 2 = 0 -> 2 <= r -> r < IoModel.Bw w ->
  IoModel.body_asis w r s = IoSpec.body_spec r s.
Proof. exact IoPow2.body_asis_correct. Qed.
Print Assumptions C16_parse_body_total.

Theorem C16_from_str_radix_total : forall (w : Z) (sg : bool) (r : Z) (s : list Z), 0 < w -> w mod 2 = 0 -> 36 < IoModel.Bw w ->
  IoModel.from_str_radix_asis w sg r s = IoSpec.from_str_radix_spec sg r s.
Proof. exact IoPow2.from_str_radix_asis_correct. Qed.
Print Assumptions C16_from_str_radix_total.

(** C19: the binary deserialisers return a canonical value or an error on every byte string *)
Theorem C16_rbig_deserialise_total : forall input : list Z, Words.wf 8 input ->
  match WireModel.w_rbig_dec true input with
  | Ok (n, d, rest) => WireModel.rat_canon n d /\ Words.wf 8 rest
  | Err _ => True
  | _ => False
  end.
Proof. exact WireProofs.w_rbig_dec_total. Qed.
Print Assumptions C16_rbig_deserialise_total.

Theorem C16_relaxed_deserialise_total : forall input : list Z, Words.wf 8 input ->
  match WireModel.w_relaxed_dec true input with
  | Ok (_, d, rest) => 0 < d /\ Words.wf 8 rest
  | Err _ => True
  | _ => False
  end.
Proof. exact WireProofs.w_relaxed_dec_total. Qed.
Print Assumptions C16_relaxed_deserialise_total.

Theorem C16_fbig_deserialise_total : forall (B : Z) (input : list Z), 2 <= B -> Words.wf 8 input ->
  match WireModel.w_fbig_dec true B input with
  | Some (s, e, p, rest) => WireModel.fbig_canon B s e p /\ Words.wf 8 rest
  | None => True
  end.
Proof. exact WireProofs.w_fbig_dec_total. Qed.
Print Assumptions C16_fbig_deserialise_total.

(** C20: the gcd loop the literal macros run at compile time has enough fuel *)
Theorem C16_macro_gcd_loop_fuel : forall (fuel : nat) (y r : Z), 0 <= r < y -> IoSpec.blen y + IoSpec.blen r < Z.of_nat fuel ->
  LitModel.naive_gcd_loop fuel y r <> None.
Proof. exact LitGenProofs.naive_gcd_loop_fuel. Qed.
Print Assumptions C16_macro_gcd_loop_fuel.

(** C13: the sliding-window loop of modular exponentiation returns within (bit index + 1) iterations *)
Theorem C16_pow_window_loop_total : forall (T : Type) (sqr : T -> T) (mul : T -> T -> T) (R : T -> Z -> Prop),
  (forall (x : T) (j : Z), 0 <= j -> R x j -> R (sqr x) (2 * j)) ->
  (forall (x y : T) (j k : Z), 0 <= j -> 0 <= k -> R x j -> R y k -> R (mul x y) (j + k)) ->
  forall (winf : Z -> Z -> Z -> Z) (raw : T) (wl exp : Z), R raw 1 -> 1 <= wl -> 0 <= exp ->
  (forall bit : Z, 0 <= bit -> winf exp bit wl = ModRingPowModel.window_val exp bit wl) ->
  let table := ModRingPowModel.build_table T mul (Z.to_nat (2 ^ (wl - 1) - 1)) raw (sqr raw) in
  forall (fuel : nat) (bit : Z) (val : T), 0 <= bit -> (Z.to_nat bit < fuel)%nat -> R val (2 * (exp / 2 ^ (bit + 1))) ->
  exists res : T, ModRingPowModel.window_loop T sqr mul winf fuel raw table wl exp bit val = Ok res /\ R res exp.
Proof. exact ModRingPowProofs.window_loop_ok. Qed.
Print Assumptions C16_pow_window_loop_total.

(** C13: the extended Euclid loop of the ring inverse returns within its fuel *)
Theorem C16_ring_inverse_loop_total : forall (fuel : nat) (m x last_r r last_t t : Z), 0 < m -> 0 <= r < last_r ->
  last_r * r < 2 ^ Z.of_nat fuel \/ r = 0 ->
  (last_t * x) mod m = last_r mod m -> (t * x) mod m = r mod m -> Z.gcd last_r r = Z.gcd m x ->
  0 <= last_t < m -> 0 <= t < m ->
  exists g u : Z, ModRingSpec.egcd_loop (S fuel) m last_r r last_t t = Ok (g, u) /\
    g = Z.gcd m x /\ (u * x) mod m = g mod m /\ 0 <= u < m.
Proof. exact ModRingSpecProofs.egcd_loop_ok. Qed.
Print Assumptions C16_ring_inverse_loop_total.

(** C02, closed instances (num-modular's 3-by-2 division and C01's multiplication transcribed, no hypothesis but the word size):
    the division kernel returns for fuel = length + 1; every division entry point returns floor quotient / remainder for a
    non-zero divisor - never a panic, never out of fuel - and panics with DivideBy0 for a zero divisor; no debug assertion or
    overflow check inside num-modular's reciprocal division fires under the normalisation precondition *)
From Dashu Require Int.DivSrcInst Int.DivSrcInstProofs Int.DivNumModular Int.DivNumModularProofs.

Theorem C16_div_kernel_closed : forall w : Z, 8 <= w -> forall lhs rhs : list Z, DivLargeProofs.kernel_pre w lhs rhs ->
  exists (res : list Z) (c : bool),
    DivSrcInst.s_div_rem_in_place w (S (length lhs)) lhs rhs = Ok (res, c) /\ DivLargeProofs.kernel_post w lhs rhs res c.
Proof. exact DivSrcInstProofs.s_div_rem_in_place_correct. Qed.
Print Assumptions C16_div_kernel_closed.

Theorem C16_division_unconditional : forall w : Z, 8 <= w -> forall a b : Z, 0 <= a -> 0 < b ->
  DivSrcInst.s_repr_div_rem w a b = Ok (a / b, a mod b) /\
  DivSrcInst.s_repr_div w a b = Ok (a / b) /\
  DivSrcInst.s_repr_rem w a b = Ok (a mod b) /\
  DivSrcInst.s_const_div_rem w a b = DivSrcInst.s_repr_div_rem w a b /\
  DivSrcInst.s_const_rem w a b = DivSrcInst.s_repr_rem w a b.
Proof. exact DivSrcInstProofs.s_division_unconditional. Qed.
Print Assumptions C16_division_unconditional.

Theorem C16_division_zero_divisor : forall w a : Z,
  DivSrcInst.s_repr_div_rem w a 0 = Panic DivideBy0 /\
  DivSrcInst.s_repr_rem w a 0 = Panic DivideBy0 /\
  DivSrcInst.s_const_div_rem w a 0 = Panic DivideBy0 /\
  DivSrcInst.s_const_rem w a 0 = Panic DivideBy0.
Proof. exact DivSrcInstProofs.s_zero_divisor. Qed.
Print Assumptions C16_division_zero_divisor.

Theorem C16_num_modular_checks_hold : forall w : Z, 0 < w ->
  (forall d : Z, DivWordProofs.norm1 w d -> DivNumModular.nm_invert_word_checks w d = true) /\
  (forall d : Z, DivWordProofs.norm2 w d -> DivNumModular.nm_invert_double_word_checks w d = true) /\
  (forall d a : Z, DivWordProofs.norm1 w d -> 0 <= a < d * Words.B w ->
     DivNumModular.nm_div_rem_2by1_checks w (DivNumModular.nm_2by1_new w d) a = true) /\
  (forall d lo hi : Z, DivWordProofs.norm2 w d -> 0 <= lo < Words.B w -> 0 <= hi < d ->
     DivNumModular.nm_div_rem_3by2_checks w (DivNumModular.nm_3by2_new w d) lo hi = true).
Proof. exact DivNumModularProofs.nm_checks_hold. Qed.
Print Assumptions C16_num_modular_checks_hold.

(** * The series loops of exp / ln (float/src/exp.rs exp_internal, float/src/log.rs iacoth and ln_internal) on exact rationals:
    with a stopping threshold bounded below by eps > 0 the loop leaves within an explicit number of steps, because the terms
    decrease geometrically for the reduced arguments (1/n with n >= 2; |z| <= 1/3; |r| <= 1/2).  Definitions and proofs:
    Cross/SeriesLoops.v. *)
From Coq Require Import QArith Qabs.
From Dashu Require Import Cross.SeriesLoops.
Open Scope Z_scope.

Theorem C16_iacoth_terminates : forall (eps : Q) (thr : Q -> Q), (forall s : Q, (eps <= thr s)%Q) ->
  forall (n : Z) (N fuel : nat), 2 <= n -> (1 <= N)%nat ->
  ((1 / inject_Z n) * qpow ((1 / inject_Z n) * (1 / inject_Z n)) N < eps)%Q -> (N <= fuel)%nat ->
  iacoth thr fuel n <> None.
Proof. exact iacoth_terminates. Qed.
Print Assumptions C16_iacoth_terminates.

Theorem C16_iacoth_terminates_explicit : forall (eps : Q) (thr : Q -> Q), (0 < eps)%Q -> (forall s : Q, (eps <= thr s)%Q) ->
  forall (n : Z) (fuel : nat), 2 <= n -> (steps_half (1 / inject_Z n)%Q eps <= fuel)%nat -> iacoth thr fuel n <> None.
Proof. exact iacoth_terminates_explicit. Qed.
Print Assumptions C16_iacoth_terminates_explicit.

Theorem C16_ln_series_terminates : forall (eps : Q) (thr : Q -> Q), (forall s : Q, (eps <= thr s)%Q) ->
  forall (z : Q) (N fuel : nat), (1 <= N)%nat -> (Qabs z * qpow (z * z) N < eps)%Q -> (N <= fuel)%nat ->
  ln_series thr fuel z <> None.
Proof. exact ln_series_terminates. Qed.
Print Assumptions C16_ln_series_terminates.

Theorem C16_ln_series_terminates_explicit : forall (eps : Q) (thr : Q -> Q), (0 < eps)%Q -> (forall s : Q, (eps <= thr s)%Q) ->
  forall (z : Q) (fuel : nat), (Qabs z <= 1 # 3)%Q -> (steps_half (Qabs z) eps <= fuel)%nat -> ln_series thr fuel z <> None.
Proof. exact ln_series_terminates_explicit. Qed.
Print Assumptions C16_ln_series_terminates_explicit.

Theorem C16_ln_series_terminates_lt_1 : forall (eps : Q) (thr : Q -> Q), (0 < eps)%Q -> (forall s : Q, (eps <= thr s)%Q) ->
  forall (z : Q) (fuel : nat), (z * z < 1)%Q -> (steps_geo (Qabs z) (z * z)%Q eps <= fuel)%nat -> ln_series thr fuel z <> None.
Proof. exact ln_series_terminates_lt_1. Qed.
Print Assumptions C16_ln_series_terminates_lt_1.

Theorem C16_exp_series_terminates : forall (eps : Q) (thr : Q -> Q), (forall s : Q, (eps <= thr s)%Q) ->
  forall (no_scaling : bool) (r : Q) (N fuel : nat), (1 <= N)%nat -> (Qabs r * qpow (Qabs r) N < eps)%Q -> (N <= fuel)%nat ->
  exp_series thr fuel no_scaling r <> None.
Proof. exact exp_series_terminates. Qed.
Print Assumptions C16_exp_series_terminates.

Theorem C16_exp_series_terminates_explicit : forall (eps : Q) (thr : Q -> Q), (0 < eps)%Q -> (forall s : Q, (eps <= thr s)%Q) ->
  forall (no_scaling : bool) (r : Q) (fuel : nat), (Qabs r <= 1 # 2)%Q -> (steps_half (Qabs r) eps <= fuel)%nat ->
  exp_series thr fuel no_scaling r <> None.
Proof. exact exp_series_terminates_explicit. Qed.
Print Assumptions C16_exp_series_terminates_explicit.

Theorem C16_exp_series_terminates_lt_1 : forall (eps : Q) (thr : Q -> Q), (0 < eps)%Q -> (forall s : Q, (eps <= thr s)%Q) ->
  forall (no_scaling : bool) (r : Q) (fuel : nat), (Qabs r < 1)%Q -> (steps_geo (Qabs r) (Qabs r) eps <= fuel)%nat ->
  exp_series thr fuel no_scaling r <> None.
Proof. exact exp_series_terminates_lt_1. Qed.
Print Assumptions C16_exp_series_terminates_lt_1.

(** * Round 3.  (a) Text parsers never panic: the index-level models (Cross/ParseIdx.v) take every `&name[a..b]` of
    float/src/parse.rs and rational/src/parse.rs through str_range (a panic value unless both indices are in range and char
    boundaries); on EVERY well-formed UTF-8 byte string (Cross/Utf8.v: structure of UTF-8 only, a superset of Rust's &str) every
    slice is legal, for every base; the characters rfind looks for and the list of slice expressions are regenerated from the
    sources on every run (coq/gen/ParseSites.v). *)
From Dashu Require Float.TextIoSpec Float.TextIoModel Float.ParseProof Float.ParseSound.
From Dashu Require Import Cross.Utf8 Cross.ParseIdx Cross.ParseIdxProofs.
From DashuGen Require ParseSites.

Theorem C16_scale_markers_ascii : forall B has_prefix c, ParseSites.gen_marker B has_prefix c = true -> is_ascii c = true.
Proof. exact gen_marker_ascii. Qed.
Print Assumptions C16_scale_markers_ascii.

Theorem C16_scale_markers_are_grammar : forall B has_prefix c, ParseSites.gen_marker B has_prefix c = TextIoSpec.is_marker B has_prefix c.
Proof. exact gen_marker_is_marker. Qed.
Print Assumptions C16_scale_markers_are_grammar.


(** the index of an ASCII byte and the index behind it are char boundaries of a well-formed string *)
Theorem C16_ascii_index_boundaries : forall a c b, is_ascii c = true -> utf8 (a ++ c :: b) ->
  boundary (a ++ c :: b) (length a) = true /\ boundary (a ++ c :: b) (S (length a)) = true /\
  str_range (a ++ c :: b) 0 (length a) = Ok a /\ str_range (a ++ c :: b) (S (length a)) (length (a ++ c :: b)) = Ok b /\
  utf8 a /\ utf8 b.
Proof.
  intros a c b Hc Hu. destruct (utf8_split_ascii c Hc a 0%nat b Hu) as [Ha Hb].
  repeat split; [apply boundary_at_ascii | apply boundary_after_ascii | apply str_range_prefix | apply str_range_suffix | |]; assumption.
Qed.
Print Assumptions C16_ascii_index_boundaries.

(** float parser: the index-level model equals the C08 model on every well-formed text, for every base *)
Theorem C16_float_parse_slices_legal : forall B s, utf8 s -> parse_idx B s = TextIoModel.parse_asis B s.
Proof. exact parse_idx_eq. Qed.
Print Assumptions C16_float_parse_slices_legal.

Theorem C16_float_parse_never_panics : forall B s, utf8 s ->
  match parse_idx B s with Ok _ | Err _ => True | _ => False end.
Proof. exact parse_idx_no_panic. Qed.
Print Assumptions C16_float_parse_never_panics.

(** ... hence (C08 parse_iff) it accepts exactly the documented grammar *)
Theorem C16_float_parse_grammar : forall B s v, IoSpec.radix_valid B = true -> utf8 s ->
  (parse_idx B s = Ok v <-> TextIoSpec.parse_spec B s = Some v).
Proof.
  intros B s v HB Hu. rewrite (parse_idx_eq B s Hu). split.
  - apply ParseSound.parse_asis_sound. exact HB.
  - apply ParseProof.parse_asis_complete. exact HB.
Qed.
Print Assumptions C16_float_parse_grammar.

(** rational parsers *)
Theorem C16_ratio_parse_never_panics : forall radix s, utf8 s ->
  match ratio_radix_idx radix s with Ok _ | Err _ => True | _ => False end.
Proof. exact ratio_radix_idx_no_panic. Qed.
Print Assumptions C16_ratio_parse_never_panics.

Theorem C16_ratio_prefix_parse_never_panics : forall s, utf8 s ->
  match ratio_prefix_idx s with Ok _ | Err _ => True | _ => False end.
Proof. exact ratio_prefix_idx_no_panic. Qed.
Print Assumptions C16_ratio_prefix_parse_never_panics.

Theorem C16_ratio_parse_denominator_positive : forall radix s n d, ratio_radix_idx radix s = Ok (n, d) -> 0 < d.
Proof. exact ratio_radix_idx_den_pos. Qed.
Print Assumptions C16_ratio_parse_denominator_positive.

(** integer parser: Ok or Err on every byte string whatever the radix (the as-is parser equals this specification for every
    word size: C16_from_str_radix_total above) *)
Theorem C16_int_parse_never_panics : forall sg r s,
  match IoSpec.from_str_radix_spec sg r s with Ok _ | Err _ => True | _ => False end.
Proof. exact from_str_radix_spec_np. Qed.
Print Assumptions C16_int_parse_never_panics.

Theorem C16_int_prefix_parse_never_panics : forall sg d s,
  match IoSpec.from_str_prefix_spec sg d s with Ok _ | Err _ => True | _ => False end.
Proof. exact from_str_prefix_spec_np. Qed.
Print Assumptions C16_int_prefix_parse_never_panics.

(** (b) The series loops with rounding after every multiplication and division (magnitude enlarged by at most 1 + u), any
    rounding of the additions: geometric decay with ratio |multiplier| (1 + u), and a fuel LINEAR in the precision
    (fuel_prec B m = 1 + m * log2_up B for a threshold >= B^-m).  Cross/SeriesRounded.v. *)
From Coq Require Import Qround.
From Dashu Require Import Cross.SeriesRounded.
Open Scope Z_scope.

Theorem C16_iacoth_rounded_terminates : forall (eps : Q) (thr : Q -> Q) (u : Q) (rm rd ra : Q -> Q),
  (forall s, (eps <= thr s)%Q) -> (0 <= u)%Q ->
  (forall x, (Qabs (rm x) <= Qabs x * (1 + u))%Q) -> (forall x, (Qabs (rd x) <= Qabs x * (1 + u))%Q) ->
  forall (M fuel : nat) (inv2 sum pow : Q) (k : Z), 1 <= k ->
  (Qabs pow * qpow (Qabs inv2 * (1 + u)) (S M) * (1 + u) < eps)%Q -> (S M <= fuel)%nat ->
  iacoth_loop_r thr rm rd ra fuel inv2 sum pow k <> None.
Proof. intros eps thr u rm rd ra H1 H2 H3 H4 M. exact (iacoth_loop_r_terminates eps thr u rm rd ra H1 H2 H3 H4 M). Qed.
Print Assumptions C16_iacoth_rounded_terminates.

Theorem C16_ln_series_rounded_terminates : forall (eps : Q) (thr : Q -> Q) (u : Q) (rm rd ra : Q -> Q),
  (forall s, (eps <= thr s)%Q) -> (0 <= u)%Q ->
  (forall x, (Qabs (rm x) <= Qabs x * (1 + u))%Q) -> (forall x, (Qabs (rd x) <= Qabs x * (1 + u))%Q) ->
  forall (M fuel : nat) (z2 sum pow : Q) (k : Z), 1 <= k ->
  (Qabs pow * qpow (Qabs z2 * (1 + u)) (S M) * (1 + u) < eps)%Q -> (S M <= fuel)%nat ->
  ln_series_loop_r thr rm rd ra fuel z2 sum pow k <> None.
Proof. intros eps thr u rm rd ra H1 H2 H3 H4 M. exact (ln_series_loop_r_terminates eps thr u rm rd ra H1 H2 H3 H4 M). Qed.
Print Assumptions C16_ln_series_rounded_terminates.

Theorem C16_exp_series_rounded_terminates : forall (eps : Q) (thr : Q -> Q) (u : Q) (rm rd ra : Q -> Q),
  (forall s, (eps <= thr s)%Q) -> (0 <= u)%Q ->
  (forall x, (Qabs (rm x) <= Qabs x * (1 + u))%Q) -> (forall x, (Qabs (rd x) <= Qabs x * (1 + u))%Q) ->
  forall (M fuel : nat) (r sum pow : Q) (factorial k : Z), 1 <= factorial -> 1 <= k ->
  (Qabs pow * qpow (Qabs r * (1 + u)) (S M) * (1 + u) < eps)%Q -> (S M <= fuel)%nat ->
  exp_series_loop_r thr rm rd ra fuel r sum pow factorial k <> None.
Proof. intros eps thr u rm rd ra H1 H2 H3 H4 M. exact (exp_series_loop_r_terminates eps thr u rm rd ra H1 H2 H3 H4 M). Qed.
Print Assumptions C16_exp_series_rounded_terminates.

Theorem C16_iacoth_fuel_linear_in_precision : forall B m : Z, 2 <= B -> 0 <= m ->
  forall (thr : Q -> Q) (u : Q) (rm rd ra : Q -> Q),
  (forall s, (/ inject_Z (B ^ m) <= thr s)%Q) -> (0 <= u)%Q ->
  (forall x, (Qabs (rm x) <= Qabs x * (1 + u))%Q) -> (forall x, (Qabs (rd x) <= Qabs x * (1 + u))%Q) ->
  forall (n : Z) (fuel : nat),
  (Qabs (rd (1 / inject_Z n)) * (1 + u) <= 1)%Q ->
  (Qabs (rm (rd (1 / inject_Z n) * rd (1 / inject_Z n))) * (1 + u) <= 1 # 2)%Q ->
  (fuel_prec B m <= fuel)%nat -> iacoth_r thr rm rd ra fuel n <> None.
Proof. exact iacoth_r_fuel_prec. Qed.
Print Assumptions C16_iacoth_fuel_linear_in_precision.

Theorem C16_ln_series_fuel_linear_in_precision : forall B m : Z, 2 <= B -> 0 <= m ->
  forall (thr : Q -> Q) (u : Q) (rm rd ra : Q -> Q),
  (forall s, (/ inject_Z (B ^ m) <= thr s)%Q) -> (0 <= u)%Q ->
  (forall x, (Qabs (rm x) <= Qabs x * (1 + u))%Q) -> (forall x, (Qabs (rd x) <= Qabs x * (1 + u))%Q) ->
  forall (z : Q) (fuel : nat), (Qabs z * (1 + u) <= 1)%Q -> (Qabs (rm (z * z)) * (1 + u) <= 1 # 2)%Q ->
  (fuel_prec B m <= fuel)%nat -> ln_series_r thr rm rd ra fuel z <> None.
Proof. exact ln_series_r_fuel_prec. Qed.
Print Assumptions C16_ln_series_fuel_linear_in_precision.

Theorem C16_exp_series_fuel_linear_in_precision : forall B m : Z, 2 <= B -> 0 <= m ->
  forall (thr : Q -> Q) (u : Q) (rm rd ra : Q -> Q),
  (forall s, (/ inject_Z (B ^ m) <= thr s)%Q) -> (0 <= u)%Q ->
  (forall x, (Qabs (rm x) <= Qabs x * (1 + u))%Q) -> (forall x, (Qabs (rd x) <= Qabs x * (1 + u))%Q) ->
  forall (no_scaling : bool) (r : Q) (fuel : nat), (Qabs r * (1 + u) <= 1 # 2)%Q ->
  (fuel_prec B m <= fuel)%nat -> exp_series_r thr rm rd ra fuel no_scaling r <> None.
Proof. exact exp_series_r_fuel_prec. Qed.
Print Assumptions C16_exp_series_fuel_linear_in_precision.

(** the argument reductions deliver the small multipliers the series need *)
Theorem C16_ln_reduction_scaled : forall x : Q, (1 <= x)%Q -> (x < 2)%Q -> (0 <= (x - 1) / (x + 1))%Q /\ ((x - 1) / (x + 1) <= 1 # 3)%Q.
Proof. exact ln_reduction_scaled. Qed.
Print Assumptions C16_ln_reduction_scaled.

Theorem C16_ln_reduction_unscaled : forall x : Q, (Qabs x <= 1 # 2)%Q -> (Qabs (x / (x + 2)) <= 1 # 3)%Q.
Proof. exact ln_reduction_unscaled. Qed.
Print Assumptions C16_ln_reduction_unscaled.

Theorem C16_exp_reduction : forall (x L : Q) (B : Z) (n : nat), (0 < L)%Q -> (2 * L <= inject_Z B)%Q -> (1 <= n)%nat -> 2 <= B ->
  let s := Qfloor (x / L) in
  let r := ((x - inject_Z s * L) / inject_Z (B ^ Z.of_nat n))%Q in
  (0 <= r)%Q /\ (r <= 1 # 2)%Q.
Proof. exact exp_reduction. Qed.
Print Assumptions C16_exp_reduction.

(** every argument of iacoth in float/src/log.rs (regenerated) is >= 4, for which the start values satisfy the premises of
    C16_iacoth_fuel_linear_in_precision at every precision >= 2 (u <= 1/2) *)
Theorem C16_iacoth_arguments : Forall (fun n => 4 <= n) ParseSites.gen_iacoth_args.
Proof. exact gen_iacoth_args_ge_4. Qed.
Print Assumptions C16_iacoth_arguments.

Theorem C16_iacoth_start_small : forall (u : Q) (rm rd : Q -> Q) (n : Z), (0 <= u)%Q -> (u <= 1 # 2)%Q ->
  (forall x, (Qabs (rm x) <= Qabs x * (1 + u))%Q) -> (forall x, (Qabs (rd x) <= Qabs x * (1 + u))%Q) -> 4 <= n ->
  (Qabs (rd (1 / inject_Z n)) * (1 + u) <= 1)%Q /\
  (Qabs (rm (rd (1 / inject_Z n) * rd (1 / inject_Z n))) * (1 + u) <= 1 # 2)%Q.
Proof. exact iacoth_start_small. Qed.
Print Assumptions C16_iacoth_start_small.

(** (c) D&C radix conversion (C07, printing side; the parsing side is C16_parse_body_total above): the printer's recursion
    over the table of radix powers returns the digits of the specification for every value and word size *)
Theorem C16_print_digits_total : forall w r x, 0 < w -> w mod 2 = 0 -> 2 <= r -> r < IoModel.Bw w -> 0 <= x ->
  IoModel.digits_asis w r x = IoSpec.digits_spec r x.
Proof. exact IoPow2.digits_asis_correct. Qed.
Print Assumptions C16_print_digits_total.

(** (d) Allocation: result sizes that are not linear in the input size (Cross/AllocBounds.v) *)
From Dashu Require Import Cross.AllocBounds.
Theorem C16_alloc_shl_bits : forall a n, 0 < a -> 0 <= n -> bits (a * 2 ^ n) = bits a + n.
Proof. exact shl_bits. Qed.
Print Assumptions C16_alloc_shl_bits.

Theorem C16_alloc_mul_linear : forall a b, 0 < a -> 0 < b -> bits (a * b) <= bits a + bits b.
Proof. exact mul_bits. Qed.
Print Assumptions C16_alloc_mul_linear.

Theorem C16_alloc_pow_bits : forall a n, 2 <= a -> 0 <= n -> n * (bits a - 1) + 1 <= bits (a ^ n) <= n * bits a + 1.
Proof. intros a n Ha Hn. split; [apply pow_bits_lower | apply pow_bits_upper]; lia. Qed.
Print Assumptions C16_alloc_pow_bits.

Theorem C16_alloc_to_int_bits : forall s B e, 0 < s -> 2 <= B -> 0 <= e -> bits (s * B ^ e) <= bits s + e * bits B + 1.
Proof. exact to_int_bits. Qed.
Print Assumptions C16_alloc_to_int_bits.

Theorem C16_alloc_shl_not_linear : forall c, 0 < c -> exists a n, 0 < a /\ 0 <= n /\ c * (bits a + bits n) < bits (a * 2 ^ n).
Proof. exact shl_not_linear. Qed.
Print Assumptions C16_alloc_shl_not_linear.

(** (e) Lehmer gcd (integer/src/gcd/lehmer.rs over the C12 as-is model Int/GrlLehmer.v), Cross/LehmerTermination.v: the guess loop
    never exhausts its fuel w + 1 (b + d doubles per iteration below COEFF_LIMIT), its cofactors stay in 0 ..= COEFF_LIMIT and either
    b = 0 (no step guessed: Euclidean step) or the two combinations a x - b y, d y - c x, when both non-negative, have a sum
    strictly below x + y; hence the outer loop of gcd_in_place strictly decreases x + y and gcd_large never runs out of fuel,
    for every word size w >= 2 - without assuming that the guess is right. *)
From Dashu Require Int.GrlLehmer.
From Dashu Require Import Cross.LehmerTermination.

Theorem C16_lehmer_guess_total : forall w xbar ybar, 2 <= w -> 0 <= ybar ->
  match GrlLehmer.lehmer_guess w xbar ybar with
  | Ok (a, b, c, d) => 0 <= a <= GrlLehmer.coeff_limit w /\ 0 <= b <= GrlLehmer.coeff_limit w /\ 0 <= c <= GrlLehmer.coeff_limit w /\
                       0 <= d <= GrlLehmer.coeff_limit w /\
                       (b = 0 \/ forall x y, 0 <= x -> 0 < y -> 0 <= a * x - b * y -> 0 <= d * y - c * x -> (a * x - b * y) + (d * y - c * x) < x + y)
  | Panic _ => True
  | _ => False
  end.
Proof. exact lehmer_guess_total. Qed.
Print Assumptions C16_lehmer_guess_total.

Theorem C16_lehmer_guess_dword_total : forall w xbar ybar, 2 <= w -> 0 <= ybar ->
  match GrlLehmer.lehmer_guess_dword w xbar ybar with
  | Ok (a, b, c, d) => 0 <= a <= GrlLehmer.coeff_limit w /\ 0 <= b <= GrlLehmer.coeff_limit w /\ 0 <= c <= GrlLehmer.coeff_limit w /\
                       0 <= d <= GrlLehmer.coeff_limit w /\
                       (b = 0 \/ forall x y, 0 <= x -> 0 < y -> 0 <= a * x - b * y -> 0 <= d * y - c * x -> (a * x - b * y) + (d * y - c * x) < x + y)
  | Panic _ => True
  | _ => False
  end.
Proof. exact lehmer_guess_dword_total. Qed.
Print Assumptions C16_lehmer_guess_dword_total.

Theorem C16_lehmer_loop_terminates : forall fuel mdl w ml x y sw, 2 <= w -> 0 <= ml -> 0 <= y <= x -> x + y < Z.of_nat fuel ->
  match GrlLehmer.lehmer_loop fuel mdl w ml x y sw with
  | Ok (x', y', _) => 0 <= y' <= x' /\ x' + y' <= x + y
  | Panic _ => True
  | _ => False
  end.
Proof. exact lehmer_loop_terminates. Qed.
Print Assumptions C16_lehmer_loop_terminates.

Theorem C16_lehmer_gcd_terminates : forall fuel w x y, 2 <= w -> 0 <= x -> 0 <= y -> x + y < Z.of_nat fuel ->
  GrlLehmer.lehmer_gcd_asis fuel w x y <> OutOfFuel.
Proof. exact lehmer_gcd_asis_terminates. Qed.
Print Assumptions C16_lehmer_gcd_terminates.

(** the allocation size of the power-of-two parser (`src.len().checked_mul(log_radix).expect(..)`, parse/power_two.rs:55) cannot
    overflow for any text that fits the address space: log_radix <= 5 *)
Theorem C16_parse_pow2_bits_fit : forall len log_radix, 0 <= len < 2 ^ 61 -> 1 <= log_radix <= 5 -> len * log_radix < 2 ^ 64.
Proof. intros len lr H1 H2. assert (len * lr <= len * 5) by nia. lia. Qed.
Print Assumptions C16_parse_pow2_bits_fit.

(** * round 4 *)
(** ** (4) Repr::new / Repr::normalize with the isize exponent (finding F14, repaired by 064626d): as-is = specification *)
From Dashu Require Float.Model.
From Dashu Require Import Cross.ReprNew Cross.ReprNewProofs.

Theorem C16_repr_new_asis_eq_spec : forall B, 2 <= B -> forall s e, TextIoSpec.in_isize e = true -> Z.log2 (Z.abs s) <= TextIoSpec.isize_max ->
  repr_new_asis B s e = Ok (repr_new_spec B s e).
Proof. exact repr_new_asis_eq_spec. Qed.
Print Assumptions C16_repr_new_asis_eq_spec.

Theorem C16_repr_new_overflow_iff : forall B, 2 <= B -> forall s e, TextIoSpec.in_isize e = true -> Z.log2 (Z.abs s) <= TextIoSpec.isize_max ->
  (repr_new_asis B s e = Ok RnOverflow <-> s <> 0 /\ TextIoSpec.isize_max < e + snd (Model.normalize B s 0)).
Proof. exact repr_new_overflow_iff. Qed.
Print Assumptions C16_repr_new_overflow_iff.

Theorem C16_repr_new_ok_value : forall B, 2 <= B -> forall s e s' e', TextIoSpec.in_isize e = true -> Z.log2 (Z.abs s) <= TextIoSpec.isize_max ->
  repr_new_asis B s e = Ok (RnOk s' e') ->
  TextIoSpec.in_isize e' = true /\ (s = 0 -> s' = 0 /\ e' = 0) /\ (s <> 0 -> s' mod B <> 0 /\ e <= e' /\ s = s' * B ^ (e' - e)).
Proof. exact repr_new_ok_value. Qed.
Print Assumptions C16_repr_new_ok_value.

(** never the arithmetic-overflow panic, never out of fuel, for EVERY significand and exponent *)
Theorem C16_repr_new_clean : forall B, 2 <= B -> forall s e, exists o, repr_new_asis B s e = Ok o /\ o <> RnArith.
Proof. exact repr_new_asis_clean. Qed.
Print Assumptions C16_repr_new_clean.

(** the code before the repair: panic 'attempt to add with overflow' (checked builds) / 10 * 10^isize::MAX = 1 * 10^isize::MIN *)
Theorem C16_repr_new_old_refuted :
  repr_new_spec 10 10 TextIoSpec.isize_max = RnOverflow /\
  repr_new_old true 10 10 TextIoSpec.isize_max = Ok RnArith /\
  repr_new_old false 10 10 TextIoSpec.isize_max = Ok (RnOk 1 TextIoSpec.isize_min) /\
  repr_new_asis 10 10 TextIoSpec.isize_max = Ok RnOverflow.
Proof. exact repr_new_old_refuted. Qed.
Print Assumptions C16_repr_new_old_refuted.

Theorem C16_repr_from_fields_old_refuted :
  repr_from_fields_old true 10 10 TextIoSpec.isize_max = Panic Undocumented /\
  repr_from_fields_old false 10 10 TextIoSpec.isize_max = Ok (1, TextIoSpec.isize_min) /\
  repr_from_fields_asis 10 10 TextIoSpec.isize_max = Err 1.
Proof. exact repr_from_fields_old_refuted. Qed.
Print Assumptions C16_repr_from_fields_old_refuted.

(** ** (1) serde deserialisers: every visit_* method of every visitor, on every event a Deserializer can hand over *)
From Dashu Require Import Cross.SerdeText Cross.SerdeTextProofs.

Theorem C16_serde_struct_fields_never_panic : forall B s e p, 2 <= B ->
  no_panic (repr_from_fields_asis B s e) /\ no_panic (fbig_from_fields_asis B s e p).
Proof. intros B s e p HB. split; [apply repr_from_fields_no_panic | apply fbig_from_fields_no_panic]; exact HB. Qed.
Print Assumptions C16_serde_struct_fields_never_panic.

Theorem C16_serde_struct_fields_ok : forall B, 2 <= B -> forall s e p s' e' p', TextIoSpec.in_isize e = true ->
  Z.log2 (Z.abs s) <= TextIoSpec.isize_max -> fbig_from_fields_asis B s e p = Ok (s', e', p') ->
  p' = p /\ TextIoSpec.in_isize e' = true /\ (p = 0 \/ (s' = 0 /\ e' <> 0) \/ FloatOrdModel.ndigits B s' <= p).
Proof. exact fbig_from_fields_ok. Qed.
Print Assumptions C16_serde_struct_fields_ok.

Theorem C16_serde_visit_never_panics : forall t ev, base_ok t -> event_wf ev -> no_panic (visit t ev).
Proof. exact visit_no_panic. Qed.
Print Assumptions C16_serde_visit_never_panics.

Theorem C16_serde_deserialize_never_panics : forall t ev, base_ok t -> event_wf ev -> no_panic (deserialize t ev).
Proof. exact deserialize_no_panic. Qed.
Print Assumptions C16_serde_deserialize_never_panics.

Theorem C16_serde_str_route : forall t s, visit t (EvStr s) = visit_str t s.
Proof. exact visit_str_route. Qed.
Print Assumptions C16_serde_str_route.

Theorem C16_serde_visit_refuses : forall t : dtype, visit t EvOther = Err E_de /\
  (forall items : list (option Z), t = DUBig \/ t = DIBig -> visit t (EvSeq items) = Err E_de) /\
  (forall entries : list (option Z * option Z), t = DUBig \/ t = DIBig -> visit t (EvMap entries) = Err E_de) /\
  (forall b : list Z, t <> DUBig -> t <> DIBig -> visit t (EvBytes b) = Err E_de).
Proof. exact visit_refuses. Qed.
Print Assumptions C16_serde_visit_refuses.

Theorem C16_serde_json_int_route : forall (sg : bool) s v, deserialize (if sg then DIBig else DUBig) (EvStr s) = Ok (v, 0, 0) <->
  exists r, IoSpec.from_str_prefix_spec sg 10 s = Ok (v, r).
Proof. exact json_int_route. Qed.
Print Assumptions C16_serde_json_int_route.

Theorem C16_serde_json_float_route : forall B s, deserialize (DRepr B) (EvStr s) =
  match infinity_from_str s with
  | Some sg => Ok (0, sg, 0)
  | None => as_de (rbind (parse_idx B s) (fun '(sig, e, _) => Ok (sig, e, 0)))
  end.
Proof. exact json_float_route. Qed.
Print Assumptions C16_serde_json_float_route.

Theorem C16_serde_infinity_texts : forall s sg, infinity_from_str s = Some sg <->
  (s = [105; 110; 102] /\ sg = 1) \/ (s = [45; 105; 110; 102] /\ sg = -1).
Proof. exact infinity_from_str_char. Qed.
Print Assumptions C16_serde_infinity_texts.

Theorem C16_serde_json_rbig_route : forall s n d c, deserialize DRBig (EvStr s) = Ok (n, d, c) -> 0 < d /\ Z.gcd n d = 1.
Proof. exact json_rbig_route. Qed.
Print Assumptions C16_serde_json_rbig_route.

(** serde_json::from_slice::<T>(text) for every byte string (the text layer is a model of the third-party crate) *)
Theorem C16_serde_json_text_never_panics : forall t text, base_ok t -> no_panic (serde_json_de t text).
Proof. exact serde_json_de_no_panic. Qed.
Print Assumptions C16_serde_json_text_never_panics.

Theorem C16_serde_json_string_layer_total : forall fuel s acc, (length s < fuel)%nat -> no_panic (json_str fuel s acc).
Proof. exact json_str_total. Qed.
Print Assumptions C16_serde_json_string_layer_total.

(** ** (2) extended Lehmer gcd: cited from C12 round 3, and closed to the public entry point here *)
From Dashu Require Import Cross.LehmerExtTermination.

Theorem C16_lehmer_ext_loop_total : forall fuel mdl w cap x y t0 t1 sw, 2 <= w -> 0 <= y <= x ->
  x + y < Z.of_nat fuel -> GrlLehmer.lehmer_ext_loop fuel mdl w cap x y t0 t1 sw <> OutOfFuel.
Proof. exact GrlLehmerProof.lehmer_ext_loop_total. Qed.
Print Assumptions C16_lehmer_ext_loop_total.

Theorem C16_lehmer_ext_loop_terminates : forall fuel mdl w cap x y t0 t1 sw, 2 <= w -> 0 <= y <= x -> x + y < Z.of_nat fuel ->
  match GrlLehmer.lehmer_ext_loop fuel mdl w cap x y t0 t1 sw with
  | Ok (x', y', _, _, _) => 0 <= y' <= x' /\ x' + y' <= x + y /\ GrlModel.wlen w y' <= 1
  | Panic _ => True
  | _ => False
  end.
Proof. exact lehmer_ext_loop_terminates. Qed.
Print Assumptions C16_lehmer_ext_loop_terminates.

Theorem C16_prim_gcd_ext_terminates : forall fuel a b, 0 <= a -> 0 <= b -> a < Z.of_nat fuel -> b < Z.of_nat fuel ->
  GrlModel.prim_gcd_ext_asis fuel a b <> OutOfFuel.
Proof. exact prim_gcd_ext_asis_terminates. Qed.
Print Assumptions C16_prim_gcd_ext_terminates.

Theorem C16_lehmer_gcd_ext_terminates : forall fuel w x y, 2 <= w -> 0 <= x -> 0 <= y -> x + y < Z.of_nat fuel ->
  GrlLehmer.lehmer_gcd_ext_asis fuel w x y <> OutOfFuel.
Proof. exact lehmer_gcd_ext_asis_terminates. Qed.
Print Assumptions C16_lehmer_gcd_ext_terminates.

(** ** (5) cost classes *)
From Dashu Require Import Cross.CostClasses.

Theorem C16_cost_units_positive : forall o, nonneg_op o -> 0 < cost_units o.
Proof. exact cost_units_pos. Qed.
Print Assumptions C16_cost_units_positive.

Theorem C16_cost_covers_results : forall a b k e s B,
  (0 < a -> 0 <= k -> bits (a * 2 ^ k) <= cost_units (CoShl (bits a) k)) /\
  (0 < a -> 0 < b -> bits (a * b) <= cost_units (CoMul (bits a) (bits b))) /\
  (0 < a -> 0 <= e -> bits (a ^ e) <= cost_units (CoPow (bits a) e)) /\
  (0 < s -> 2 <= B -> 0 <= e -> bits (s * B ^ e) <= cost_units (CoToInt (bits s) (bits B) e)).
Proof.
  intros a b k e s B. split; [apply cost_covers_shl|]. split; [apply cost_covers_mul|]. split; [apply cost_covers_pow | apply cost_covers_to_int].
Qed.
Print Assumptions C16_cost_covers_results.

Theorem C16_cost_length_polynomial : forall o, nonneg_op o -> value_sized o = false ->
  cost_units o <= (input_len o + slack) * ((input_len o + slack) * (input_len o + slack)).
Proof. exact length_polynomial. Qed.
Print Assumptions C16_cost_length_polynomial.

Theorem C16_shl_not_length_polynomial : forall c d, 0 < c -> 0 <= d ->
  exists a k, 0 < a /\ 0 <= k /\ c * (bits a + bits k + 1) ^ d < bits (a * 2 ^ k).
Proof. exact shl_not_length_polynomial. Qed.
Print Assumptions C16_shl_not_length_polynomial.

(** ** (3) the digit-level stop criterion of the series loops: cited from C11 round 3 (inside a module: the float record of
       C11 and the value type of PanicSpec.v share field names) *)
From Coq Require Reals.
From Dashu Require Float.RoundSpec Float.Contract Float.ElemEntryProof Float.ElemEnclProof Float.ElemF32 Float.ElemAsis Float.ElemSubUlp Float.ElemSeriesFuel.
Module SubUlpCite.
Import Reals QArith Qabs.
Open Scope Z_scope.

Theorem C16_sub_ulp_positive_bounded : forall B, 2 <= B -> forall (F : Type) (O : ElemF32.f32ops F) W,
  (forall x, 0 <= ElemF32.f_to_usize O x) -> forall x, 0 <= ElemAsis.fprec x -> Z.abs (ElemAsis.fsig x) <= B ^ (ElemAsis.fprec x + 1) ->
  (Rabs (ElemEntryProof.fval B (ElemAsis.fsig x) (ElemAsis.fexp x)) * ElemEnclProof.bpw B (- (2 * ElemAsis.fprec x + 2)) <= ElemEnclProof.bpw B (ElemAsis.sub_ulp_exp B O W x))%R /\
  (0 < ElemEnclProof.bpw B (ElemAsis.sub_ulp_exp B O W x))%R.
Proof. exact @ElemSubUlp.sub_ulp_threshold. Qed.
Print Assumptions C16_sub_ulp_positive_bounded.

Theorem C16_series_fuel_with_sub_ulp : forall (B P : Z) eps rmul rdivz radd thr,
  (2 <= B)%Z -> (0 <= P)%Z -> (0 <= eps /\ eps <= 1 # 16)%Q ->
  (forall a b, Qabs (rmul a b) <= Qabs a * Qabs b * (1 + eps))%Q ->
  (forall a d, (1 <= d)%Z -> Qabs (rdivz a d) * inject_Z d <= Qabs a * (1 + eps))%Q ->
  (forall a b, Qabs (radd a b - (a + b)) <= eps * Qabs (a + b))%Q ->
  (forall s, 1 / inject_Z (B ^ (2 * P + 2)) * Qabs s <= thr s)%Q ->
  (inject_Z (Z.of_nat (ElemSeriesFuel.series_steps B P)) * eps <= 1 # 4)%Q ->
  forall fuel, (ElemSeriesFuel.series_fuel B P <= fuel)%nat ->
  (forall r, (Qabs r <= 1 # 2)%Q -> ElemSeriesFuel.exp_loop_r rmul rdivz radd thr fuel false r <> None) /\
  (forall r, (Qabs r <= 1 # 2)%Q -> ~ (r == 0)%Q -> ElemSeriesFuel.exp_loop_r rmul rdivz radd thr fuel true r <> None) /\
  (forall z z2, (Qabs z2 <= 1 # 4)%Q -> ~ (z == 0)%Q ->
     ElemSeriesFuel.atanh_loop_r rmul rdivz radd (ElemSeriesFuel.ln_test thr) fuel z z2 <> None /\
     ElemSeriesFuel.atanh_loop_r rmul rdivz radd (ElemSeriesFuel.iacoth_test thr) fuel z z2 <> None).
Proof. exact ElemSeriesFuel.series_fuel_partial. Qed.
Print Assumptions C16_series_fuel_with_sub_ulp.
End SubUlpCite.

(** the index-slice expressions present in the parser sources are exactly the modelled ones (regenerated list) *)
From Coq Require Import String.
Theorem C16_slice_sites_modelled :
  ParseSites.gen_float_slices = ["src[pos + 1..]"; "src[..pos]"; "src[..dot]"; "int_str[2..]"; "src[..dot]"; "src[dot + 1..]"; "src[2..]"]%string /\
  ParseSites.gen_ratio_slices = ["src[..slash]"; "src[slash + 1..]"; "src[..slash]"; "src[slash + 1..]"]%string /\
  ParseSites.gen_int_slices = []%string.
Proof. exact (conj gen_float_slices_modelled (conj gen_ratio_slices_modelled gen_int_slices_modelled)). Qed.
Print Assumptions C16_slice_sites_modelled.

(** the serde tables present in the sources are exactly the modelled ones (regenerated), and every type asks the
    human-readable Deserializer for a string *)
Theorem C16_serde_sites_modelled :
  SerdeSites.gen_visitors =
    [("int:UBigVisitor", ["visit_str"; "visit_bytes"]); ("int:IBigVisitor", ["visit_str"; "visit_bytes"]);
     ("float:ReprVisitor", ["visit_str"; "visit_seq"; "visit_map"]); ("float:FBigVisitor", ["visit_str"; "visit_seq"; "visit_map"]);
     ("ratio:ReprVisitor", ["visit_str"; "visit_seq"; "visit_map"])]%string /\
  SerdeSites.gen_visit_str_calls =
    [("int:UBigVisitor", "UBig::from_str_with_radix_prefix"); ("int:IBigVisitor", "IBig::from_str_with_radix_prefix");
     ("float:ReprVisitor", "infinity_from_str;Repr::<B>::from_str_native"); ("float:FBigVisitor", "infinity_from_str;FBig::from_str_native");
     ("ratio:ReprVisitor", "Repr::from_str_with_radix_prefix")]%string /\
  SerdeSites.gen_infinity_strs = [([105; 110; 102], 1); ([45; 105; 110; 102], -1)]%Z /\
  SerdeSites.gen_zero_sig_exps = [(0, 0); (1, 1); (-1, -1)]%Z /\
  SerdeSites.gen_repr_from_fields_ctor = "Repr{significand,exponent}.try_normalize()"%string /\
  SerdeSites.gen_exponent_step = "isize::try_from(shift).ok().and_then(|shift|exponent.checked_add(shift))?"%string.
Proof. exact serde_sites_modelled. Qed.
Print Assumptions C16_serde_sites_modelled.

Theorem C16_serde_human_route_is_str : forallb (fun e => asks_for_str (snd (fst e))) SerdeSites.gen_entry_points = true.
Proof. exact serde_human_route_is_str. Qed.
Print Assumptions C16_serde_human_route_is_str.
