(** C19 - results do not depend on word size, build features or serialization medium.
    ONLY statements pinned here; proofs live in Dashu.Serde.*.
    [k] = WORD_BYTES (8: 64-bit words, 4: force_bits="32", 2: 16-bit), word lists are little-endian
    over w = 8k bits, bytes are words of size 8 ([sle_value = value 8]). *)
From Dashu Require Import Base.Prelude Base.Words Int.BitsWords Int.RingAdd Int.RingMul.
From Dashu Require Import Float.RoundSpec Float.Model.
From Dashu Require Import Serde.WireModel Serde.WireProofs Serde.CfgValueSpec Serde.CfgValueProofs Serde.WordSizeCorollaries Serde.FloatToIeeeAsis.
From DashuGen Require Import Params.
Open Scope Z_scope.

(** ---- the byte strings written for an integer do not depend on the word size *)
Theorem C19_words_to_le_bytes : forall k, 0 < k -> forall ws, normalized (8 * k) ws -> ws <> [] ->
  words_to_le_bytes k ws = sle_bytes (value (8 * k) ws).
Proof. exact words_to_le_bytes_spec. Qed.
Print Assumptions C19_words_to_le_bytes.

Theorem C19_ubig_bytes_any_word_size : forall k, 0 < k -> forall ws, normalized (8 * k) ws ->
  ubig_ser_asis k ws = ubig_enc (value (8 * k) ws).
Proof. exact ubig_ser_asis_spec. Qed.
Print Assumptions C19_ubig_bytes_any_word_size.

Theorem C19_ibig_bytes_any_word_size : forall k, 0 < k -> forall s ws, normalized (8 * k) ws ->
  ibig_ser_asis k s ws = ibig_enc (signed s (value (8 * k) ws)).
Proof. exact ibig_ser_asis_spec. Qed.
Print Assumptions C19_ibig_bytes_any_word_size.

Theorem C19_ubig_bytes_identical_across_word_sizes : forall k1 k2 ws1 ws2, 0 < k1 -> 0 < k2 ->
  normalized (8 * k1) ws1 -> normalized (8 * k2) ws2 -> value (8 * k1) ws1 = value (8 * k2) ws2 ->
  ubig_ser_asis k1 ws1 = ubig_ser_asis k2 ws2.
Proof. exact ubig_bytes_word_size_independent. Qed.
Print Assumptions C19_ubig_bytes_identical_across_word_sizes.

Theorem C19_ibig_bytes_identical_across_word_sizes : forall k1 k2 s ws1 ws2, 0 < k1 -> 0 < k2 ->
  normalized (8 * k1) ws1 -> normalized (8 * k2) ws2 -> value (8 * k1) ws1 = value (8 * k2) ws2 ->
  ibig_ser_asis k1 s ws1 = ibig_ser_asis k2 s ws2.
Proof. exact ibig_bytes_word_size_independent. Qed.
Print Assumptions C19_ibig_bytes_identical_across_word_sizes.

(** ---- decoding does not depend on the word size either (every byte string, any k) *)
Theorem C19_ubig_decode_any_word_size : forall k, 0 < k -> forall bs, ubig_de_asis k bs = ubig_dec bs.
Proof. exact ubig_de_asis_spec. Qed.
Print Assumptions C19_ubig_decode_any_word_size.

Theorem C19_ibig_decode_any_word_size : forall k, 0 < k -> forall bs, ibig_de_asis k bs = ibig_dec bs.
Proof. exact ibig_de_asis_spec. Qed.
Print Assumptions C19_ibig_decode_any_word_size.

(** ---- decode (encode x) = x; every byte string decodes to a canonically re-encodable value *)
Theorem C19_ubig_roundtrip : forall v, 0 <= v -> ubig_dec (ubig_enc v) = v.
Proof. exact ubig_roundtrip. Qed.
Print Assumptions C19_ubig_roundtrip.

Theorem C19_ibig_roundtrip : forall v, ibig_dec (ibig_enc v) = v.
Proof. exact ibig_roundtrip. Qed.
Print Assumptions C19_ibig_roundtrip.

Theorem C19_ibig_sign_is_length_parity : forall v, v <> 0 -> odd_len (ibig_enc v) = (v <? 0).
Proof. exact ibig_enc_parity. Qed.
Print Assumptions C19_ibig_sign_is_length_parity.

Theorem C19_ibig_encoding_injective : forall v1 v2, ibig_enc v1 = ibig_enc v2 -> v1 = v2.
Proof. exact ibig_enc_injective. Qed.
Print Assumptions C19_ibig_encoding_injective.

Theorem C19_ibig_every_bytes_canonical : forall bs, ibig_dec (ibig_enc (ibig_dec bs)) = ibig_dec bs.
Proof. exact ibig_dec_canonical. Qed.
Print Assumptions C19_ibig_every_bytes_canonical.

Theorem C19_ubig_every_bytes_canonical : forall bs, wf 8 bs -> ubig_dec (ubig_enc (ubig_dec bs)) = ubig_dec bs.
Proof. exact ubig_dec_canonical. Qed.
Print Assumptions C19_ubig_every_bytes_canonical.

(** ---- the medium: postcard varints, zigzag exponents, length-prefixed byte strings *)
Theorem C19_varint_roundtrip : forall n rest, 0 <= n < 2 ^ 64 -> varint_dec (varint_enc n ++ rest) = Some (n, rest).
Proof. exact varint_roundtrip. Qed.
Print Assumptions C19_varint_roundtrip.

Theorem C19_zigzag_roundtrip : forall n, unzigzag (zigzag n) = n /\ 0 <= zigzag n.
Proof. exact zigzag_roundtrip. Qed.
Print Assumptions C19_zigzag_roundtrip.

Theorem C19_bytes_roundtrip : forall bs rest, len bs < 2 ^ 64 -> bytes_dec (bytes_enc bs ++ rest) = Some (bs, rest).
Proof. exact bytes_roundtrip. Qed.
Print Assumptions C19_bytes_roundtrip.

Theorem C19_wire_ubig_roundtrip : forall v rest, 0 <= v -> sbyte_len v < 2 ^ 64 -> w_ubig_dec (w_ubig_enc v ++ rest) = Some (v, rest).
Proof. exact w_ubig_roundtrip. Qed.
Print Assumptions C19_wire_ubig_roundtrip.

Theorem C19_wire_ibig_roundtrip : forall v rest, len (ibig_enc v) < 2 ^ 64 -> w_ibig_dec (w_ibig_enc v ++ rest) = Some (v, rest).
Proof. exact w_ibig_roundtrip. Qed.
Print Assumptions C19_wire_ibig_roundtrip.

(** ---- rationals: rejected or canonical; round trip; the repaired defect stays refuted *)
Theorem C19_rbig_fields_canonical : forall n d v, 0 <= d -> rbig_of_fields true n d = Ok v -> rat_canon (fst v) (snd v).
Proof. exact rbig_of_fields_canonical. Qed.
Print Assumptions C19_rbig_fields_canonical.

Theorem C19_rbig_fields_value : forall n d v, 0 <= d -> rbig_of_fields true n d = Ok v -> fst v * d = n * snd v.
Proof. exact rbig_of_fields_value. Qed.
Print Assumptions C19_rbig_fields_value.

Theorem C19_relaxed_fields_ok : forall n d v, 0 <= d -> relaxed_of_fields true n d = Ok v -> 0 < snd v /\ fst v * d = n * snd v.
Proof. exact relaxed_of_fields_ok. Qed.
Print Assumptions C19_relaxed_fields_ok.

Theorem C19_wire_rbig_roundtrip : forall n d rest, rat_canon n d -> len (ibig_enc n) < 2 ^ 64 -> sbyte_len d < 2 ^ 64 ->
  w_rbig_dec true (w_rat_enc n d ++ rest) = Ok (n, d, rest).
Proof. exact w_rbig_roundtrip. Qed.
Print Assumptions C19_wire_rbig_roundtrip.

Theorem C19_zero_denominator_refuted :
  w_rbig_dec false [2; 2; 0; 0] = Ok (1, 0, []) /\ ~ rat_canon 1 0 /\
  w_relaxed_dec false [2; 2; 0; 0] = Panic Undocumented /\
  w_rbig_dec true [2; 2; 0; 0] = Err 2 /\ w_relaxed_dec true [2; 2; 0; 0] = Err 2.
Proof. exact rbig_zero_denominator_refuted. Qed.
Print Assumptions C19_zero_denominator_refuted.

(** ---- floats: rejected or canonical (normalised significand within the precision, the two
         infinities); round trip; the repaired defects stay refuted *)
Theorem C19_fbig_fields_canonical : forall B s e p v, 2 <= B -> 0 <= p ->
  fbig_of_fields true B s e p = Some v -> let '(s', e', p') := v in fbig_canon B s' e' p' /\ p' = p.
Proof. exact fbig_of_fields_canonical. Qed.
Print Assumptions C19_fbig_fields_canonical.

Theorem C19_normalize_keeps_value : forall B s e, 2 <= B -> s <> 0 ->
  let '(s', e') := fnormalize B s e in s' <> 0 /\ s' mod B <> 0 /\ s = s' * B ^ (e' - e) /\ e <= e'.
Proof. exact fnormalize_canon. Qed.
Print Assumptions C19_normalize_keeps_value.

Theorem C19_wire_fbig_roundtrip : forall B s e p rest,
  fbig_canon B s e p -> len (ibig_enc s) < 2 ^ 64 -> - 2 ^ 63 <= e < 2 ^ 63 -> 0 <= p < 2 ^ 64 ->
  w_fbig_dec true B (w_fbig_enc s e p ++ rest) = Some (s, e, p, rest).
Proof. exact w_fbig_roundtrip. Qed.
Print Assumptions C19_wire_fbig_roundtrip.

Theorem C19_infinity_roundtrip_refuted :
  w_fbig_dec false 2 (w_fbig_enc 0 1 0) = Some (0, 0, 0, []) /\
  w_fbig_dec true 2 (w_fbig_enc 0 1 0) = Some (0, 1, 0, []) /\
  w_fbig_dec true 2 (w_fbig_enc 0 (-1) 0) = Some (0, -1, 0, []) /\
  w_repr_dec false 10 (w_repr_enc 0 1) = Some (0, 0, []) /\ w_repr_dec true 10 (w_repr_enc 0 1) = Some (0, 1, []).
Proof. exact fbig_infinity_refuted. Qed.
Print Assumptions C19_infinity_roundtrip_refuted.

Theorem C19_precision_invariant_refuted :
  w_fbig_dec false 10 [2; 57; 48; 0; 2] = Some (12345, 0, 2, []) /\ ~ fbig_canon 10 12345 0 2 /\
  w_fbig_dec true 10 [2; 57; 48; 0; 2] = None /\ w_fbig_dec true 10 [2; 57; 48; 0; 5] = Some (12345, 0, 5, []).
Proof. exact fbig_precision_refuted. Qed.
Print Assumptions C19_precision_invariant_refuted.

(** ---- whole inputs: every byte string (bytes in 0..255) is rejected or decoded to a canonical value;
         the decoders neither panic nor run out of fuel *)
Theorem C19_rbig_every_bytes : forall input, wf 8 input ->
  match w_rbig_dec true input with
  | Ok (n, d, rest) => rat_canon n d /\ wf 8 rest
  | Err _ => True
  | Panic _ | OutOfFuel => False
  end.
Proof. exact w_rbig_dec_total. Qed.
Print Assumptions C19_rbig_every_bytes.

Theorem C19_relaxed_every_bytes : forall input, wf 8 input ->
  match w_relaxed_dec true input with
  | Ok (n, d, rest) => 0 < d /\ wf 8 rest
  | Err _ => True
  | Panic _ | OutOfFuel => False
  end.
Proof. exact w_relaxed_dec_total. Qed.
Print Assumptions C19_relaxed_every_bytes.

Theorem C19_fbig_every_bytes : forall B input, 2 <= B -> wf 8 input ->
  match w_fbig_dec true B input with
  | Some (s, e, p, rest) => fbig_canon B s e p /\ wf 8 rest
  | None => True
  end.
Proof. exact w_fbig_dec_total. Qed.
Print Assumptions C19_fbig_every_bytes.

(** ---- word-size independence of the integer kernels: corollaries of C01 / C09 theorems, which hold
         for an arbitrary word size and whose right-hand sides do not mention it *)
Theorem C19_multiply_word_size_independent : forall w1 w2, 8 <= w1 -> 8 <= w2 ->
  forall a1 b1 a2 b2, wf w1 a1 -> wf w1 b1 -> wf w2 a2 -> wf w2 b2 ->
  value w1 a1 = value w2 a2 -> value w1 b1 = value w2 b2 ->
  exists r1 r2,
    multiply w1 (Z.to_nat mul_threshold_simple) (Z.to_nat mul_threshold_karatsuba) (Z.to_nat mul_simple_chunk_len) a1 b1 = Ok r1 /\
    multiply w2 (Z.to_nat mul_threshold_simple) (Z.to_nat mul_threshold_karatsuba) (Z.to_nat mul_simple_chunk_len) a2 b2 = Ok r2 /\
    value w1 r1 = value w2 r2.
Proof. exact multiply_word_size_independent. Qed.
Print Assumptions C19_multiply_word_size_independent.

Theorem C19_add_in_place_word_size_independent : forall w1 w2, 0 < w1 -> 0 < w2 ->
  forall l1 r1 l2 r2, (length r1 <= length l1)%nat -> (length r2 <= length l2)%nat ->
  wf w1 l1 -> wf w1 r1 -> wf w2 l2 -> wf w2 r2 ->
  value w1 l1 = value w2 l2 -> value w1 r1 = value w2 r2 ->
  forall s1 c1 s2 c2, add_in_place w1 l1 r1 = (s1, c1) -> add_in_place w2 l2 r2 = (s2, c2) ->
  value w1 s1 + b2z c1 * B w1 ^ len l1 = value w2 s2 + b2z c2 * B w2 ^ len l2.
Proof. exact add_in_place_word_size_independent. Qed.
Print Assumptions C19_add_in_place_word_size_independent.

Theorem C19_trailing_zeros_word_size_independent : forall w1 w2, 0 < w1 -> 0 < w2 ->
  forall ws1 ws2, wf w1 ws1 -> wf w2 ws2 -> value w1 ws1 = value w2 ws2 -> value w1 ws1 <> 0 ->
  trailing_zeros_large w1 ws1 = trailing_zeros_large w2 ws2.
Proof. exact trailing_zeros_word_size_independent. Qed.
Print Assumptions C19_trailing_zeros_word_size_independent.

(** ---- the word-size-free specifications that judge every build *)
Theorem C19_euclid_spec : forall a b, b <> 0 -> let '(q, r) := cv_diveuc a b in a = q * b + r /\ 0 <= r < Z.abs b.
Proof. exact cv_diveuc_ok. Qed.
Print Assumptions C19_euclid_spec.

Theorem C19_trunc_spec : forall a b, b <> 0 ->
  let '(q, r) := cv_divrem a b in a = q * b + r /\ Z.abs r < Z.abs b /\ (r = 0 \/ Z.sgn r = Z.sgn a).
Proof. exact cv_divrem_ok. Qed.
Print Assumptions C19_trunc_spec.

Theorem C19_powmod_spec : forall m x e, 0 < m -> 0 <= e -> cv_powmod m x e = (x ^ e) mod m.
Proof. exact cv_powmod_spec. Qed.
Print Assumptions C19_powmod_spec.

Theorem C19_root_certificate_unique : forall x n r r', 0 < n -> cv_root_ok x n r = true -> cv_root_ok x n r' = true -> r = r'.
Proof. exact cv_root_ok_unique. Qed.
Print Assumptions C19_root_certificate_unique.

Theorem C19_ilog_certificate_unique : forall x b e e', 1 < b -> cv_ilog_ok x b e = true -> cv_ilog_ok x b e' = true -> e = e'.
Proof. exact cv_ilog_ok_unique. Qed.
Print Assumptions C19_ilog_certificate_unique.

(** ---- debug assertions: the assertion of into_f64_internal / into_f32_internal is NOT a theorem
         (open finding F06: debug builds panic, release builds round a second time); outside the
         class the debug and the release build agree *)
Theorem C19_to_f64_debug_assert_refuted :
  exists a, conv_div_route 53 MHalfEven 10 4899 (-7) = Ok a /\ handed_bits a = 54 /\
            into_ieee_asis true 53 a = Panic Undocumented /\ into_ieee_asis false 53 a = Ok a.
Proof. exact to_f64_debug_assert_refuted. Qed.
Print Assumptions C19_to_f64_debug_assert_refuted.

Theorem C19_to_f32_debug_assert_refuted :
  exists a, conv_div_route 24 MZero 10 12 (-1) = Ok a /\ handed_bits a = 25 /\
            into_ieee_asis true 24 a = Panic Undocumented /\ into_ieee_asis false 24 a = Ok a.
Proof. exact to_f32_debug_assert_refuted. Qed.
Print Assumptions C19_to_f32_debug_assert_refuted.

Theorem C19_debug_release_agree_outside_class : forall p a, wide p a = false -> into_ieee_asis true p a = into_ieee_asis false p a.
Proof. exact into_ieee_debug_release_agree. Qed.
Print Assumptions C19_debug_release_agree_outside_class.

(** ================================================================================================
    Deepening round 3.  (1) word-size independence of every public operation family, as corollaries of the
    word-level theorems of C01 / C02 / C09 / C07 / C13 / C12; (2) the word-level runs the oracle evaluates at the word
    size of the answering build; (3) std / no_std: results that use a log2 estimate only through its contract;
    (4) the human-readable serde forms.  [contract_2by1 w d] is what C02 proves of num-modular's div_rem_2by1. *)
From Dashu Require Import Int.RingSpec Int.RingOps Int.RingOpsProofs Int.RingDispatchProofs Int.RingTop Int.RingMulW Int.RingOpsW Int.DivContracts Int.DivSrcInst Int.DivWordInst.
From Dashu Require Import Int.BitsSpec Int.BitsKernels Int.BitsKernelsBase Int.BitsSignedProofs Int.IoSpec Int.IoModel Int.ModRingModel Int.GrlSpec Int.GrlModel Int.GrlKsqrt.
From Dashu Require Import Float.Contract Float.FloatOrdModel Float.AddModel Float.TextIoSpec Float.TextIoModel Conv.ConvSpec Conv.ConvModel.
From Dashu Require Import Serde.WordRunsModel Serde.WordSizeKernels Serde.WordSizeKernels2 Serde.WordRuns Serde.EstimatorIndependence Serde.JsonModel Serde.JsonProofs.

(** mul::multiply over the word-level kernels (schoolbook, Karatsuba, the slice-by-slice Toom-3), thresholds of the source counted in words *)
Theorem C19_multiply_word_level_ws_independent :
  forall w1 w2 : Z,
  8 <= w1 ->
  8 <= w2 ->
  forall d1 d2 : Z -> Z -> Z * Z,
  contract_2by1 w1 d1 ->
  contract_2by1 w2 d2 ->
  forall a1 b1 a2 b2 : list Z,
  wf w1 a1 ->
  wf w1 b1 ->
  wf w2 a2 ->
  wf w2 b2 ->
  value w1 a1 = value w2 a2 ->
  value w1 b1 = value w2 b2 ->
  exists r1 r2 : list Z,
  multiply_w w1 d1 src_T_simple src_T_kara src_CHUNK a1 b1 = Ok r1 /\
  multiply_w w2 d2 src_T_simple src_T_kara src_CHUNK a2 b2 = Ok r2 /\ value w1 r1 = value w2 r2.
Proof. exact multiply_w_ws_independent. Qed.
Print Assumptions C19_multiply_word_level_ws_independent.

(** the accumulate-with-sign kernel *)
Theorem C19_add_signed_mul_word_level_ws_independent :
  forall w1 w2 : Z,
  8 <= w1 ->
  8 <= w2 ->
  forall d1 d2 : Z -> Z -> Z * Z,
  contract_2by1 w1 d1 ->
  contract_2by1 w2 d2 ->
  forall (c1 a1 b1 c2 a2 b2 : list Z) (s : sign),
  wf w1 c1 /\ wf w1 a1 /\ wf w1 b1 /\ length c1 = (length a1 + length b1)%nat ->
  wf w2 c2 /\ wf w2 a2 /\ wf w2 b2 /\ length c2 = (length a2 + length b2)%nat ->
  value w1 c1 = value w2 c2 ->
  value w1 a1 = value w2 a2 ->
  value w1 b1 = value w2 b2 ->
  exists (r1 : list Z) (k1 : Z) (r2 : list Z) (k2 : Z),
  add_signed_mul_w w1 d1 src_T_simple src_T_kara src_CHUNK c1 s a1 b1 = Ok (r1, k1) /\
  add_signed_mul_w w2 d2 src_T_simple src_T_kara src_CHUNK c2 s a2 b2 = Ok (r2, k2) /\
  value w1 r1 + k1 * B w1 ^ len c1 = value w2 r2 + k2 * B w2 ^ len c2.
Proof. exact add_signed_mul_w_ws_independent. Qed.
Print Assumptions C19_add_signed_mul_word_level_ws_independent.

(** sqr::sqr *)
Theorem C19_sqr_kernel_ws_independent :
  forall w1 w2 : Z,
  8 <= w1 ->
  8 <= w2 ->
  forall d1 d2 : Z -> Z -> Z * Z,
  contract_2by1 w1 d1 ->
  contract_2by1 w2 d2 ->
  forall a1 a2 : list Z,
  wf w1 a1 ->
  wf w2 a2 ->
  value w1 a1 = value w2 a2 ->
  exists r1 r2 : list Z,
  sqr_w w1 d1 src_T_simple src_T_kara src_SQR a1 = Ok r1 /\
  sqr_w w2 d2 src_T_simple src_T_kara src_SQR a2 = Ok r2 /\ value w1 r1 = value w2 r2.
Proof. exact sqr_w_ws_independent. Qed.
Print Assumptions C19_sqr_kernel_ws_independent.

(** UBig * UBig over typed representations (inline up to two WORDS) *)
Theorem C19_ubig_mul_ws_independent :
  forall w1 w2 : Z,
  8 <= w1 ->
  8 <= w2 ->
  forall d1 d2 : Z -> Z -> Z * Z,
  contract_2by1 w1 d1 ->
  contract_2by1 w2 d2 ->
  forall x1 y1 x2 y2 : trepr,
  RingOpsMulProofs.tok w1 x1 ->
  RingOpsMulProofs.tok w1 y1 ->
  RingOpsMulProofs.tok w2 x2 ->
  RingOpsMulProofs.tok w2 y2 ->
  repr_value w1 x1 = repr_value w2 x2 ->
  repr_value w1 y1 = repr_value w2 y2 ->
  exists r1 r2 : trepr,
  repr_mul_w w1 d1 src_T_simple src_T_kara src_CHUNK src_SQR x1 y1 = Ok r1 /\
  repr_mul_w w2 d2 src_T_simple src_T_kara src_CHUNK src_SQR x2 y2 = Ok r2 /\ repr_value w1 r1 = repr_value w2 r2.
Proof. exact ubig_mul_ws_independent. Qed.
Print Assumptions C19_ubig_mul_ws_independent.

(** IBig * IBig *)
Theorem C19_ibig_mul_ws_independent :
  forall w1 w2 : Z,
  8 <= w1 ->
  8 <= w2 ->
  forall d1 d2 : Z -> Z -> Z * Z,
  contract_2by1 w1 d1 ->
  contract_2by1 w2 d2 ->
  forall (s0 s1 : sign) (x1 y1 x2 y2 : trepr),
  RingOpsMulProofs.tok w1 x1 ->
  RingOpsMulProofs.tok w1 y1 ->
  RingOpsMulProofs.tok w2 x2 ->
  RingOpsMulProofs.tok w2 y2 ->
  repr_value w1 x1 = repr_value w2 x2 ->
  repr_value w1 y1 = repr_value w2 y2 ->
  exists r1 r2 : sign * trepr,
  ibig_mul_asis_w w1 d1 src_T_simple src_T_kara src_CHUNK src_SQR s0 x1 s1 y1 = Ok r1 /\
  ibig_mul_asis_w w2 d2 src_T_simple src_T_kara src_CHUNK src_SQR s0 x2 s1 y2 = Ok r2 /\ srepr_value w1 r1 = srepr_value w2 r2.
Proof. exact ibig_mul_ws_independent. Qed.
Print Assumptions C19_ibig_mul_ws_independent.

(** sqr() *)
Theorem C19_sqr_ws_independent :
  forall w1 w2 : Z,
  8 <= w1 ->
  8 <= w2 ->
  forall d1 d2 : Z -> Z -> Z * Z,
  contract_2by1 w1 d1 ->
  contract_2by1 w2 d2 ->
  forall x1 x2 : trepr,
  RingOpsMulProofs.tok w1 x1 ->
  RingOpsMulProofs.tok w2 x2 ->
  repr_value w1 x1 = repr_value w2 x2 ->
  exists r1 r2 : trepr,
  repr_sqr_w w1 d1 src_T_simple src_T_kara src_SQR x1 = Ok r1 /\
  repr_sqr_w w2 d2 src_T_simple src_T_kara src_SQR x2 = Ok r2 /\ repr_value w1 r1 = repr_value w2 r2.
Proof. exact sqr_ws_independent. Qed.
Print Assumptions C19_sqr_ws_independent.

(** cubic() *)
Theorem C19_ibig_cubic_ws_independent :
  forall w1 w2 : Z,
  8 <= w1 ->
  8 <= w2 ->
  forall d1 d2 : Z -> Z -> Z * Z,
  contract_2by1 w1 d1 ->
  contract_2by1 w2 d2 ->
  forall (s : sign) (x1 x2 : trepr),
  RingOpsMulProofs.tok w1 x1 ->
  RingOpsMulProofs.tok w2 x2 ->
  repr_value w1 x1 = repr_value w2 x2 ->
  exists r1 r2 : sign * trepr,
  ibig_cubic_asis_w w1 d1 src_T_simple src_T_kara src_CHUNK src_SQR s x1 = Ok r1 /\
  ibig_cubic_asis_w w2 d2 src_T_simple src_T_kara src_CHUNK src_SQR s x2 = Ok r2 /\ srepr_value w1 r1 = srepr_value w2 r2.
Proof. exact ibig_cubic_ws_independent. Qed.
Print Assumptions C19_ibig_cubic_ws_independent.

(** UBig + UBig, any two ownership forms *)
Theorem C19_ubig_add_ws_independent :
  forall w1 w2 : Z,
  8 <= w1 ->
  8 <= w2 ->
  forall (o1 o2 : own) (x1 y1 x2 y2 : trepr),
  twf w1 x1 ->
  twf w1 y1 ->
  twf w2 x2 ->
  twf w2 y2 ->
  repr_value w1 x1 = repr_value w2 x2 ->
  repr_value w1 y1 = repr_value w2 y2 -> repr_value w1 (repr_add w1 o1 x1 y1) = repr_value w2 (repr_add w2 o2 x2 y2).
Proof. exact ubig_add_ws_independent. Qed.
Print Assumptions C19_ubig_add_ws_independent.

(** UBig - UBig: the same value or the same documented panic *)
Theorem C19_ubig_sub_ws_independent :
  forall w1 w2 : Z,
  8 <= w1 ->
  8 <= w2 ->
  forall (o1 o2 : own) (x1 y1 x2 y2 : trepr),
  twf w1 x1 ->
  twf w1 y1 ->
  twf w2 x2 ->
  twf w2 y2 ->
  repr_value w1 x1 = repr_value w2 x2 ->
  repr_value w1 y1 = repr_value w2 y2 ->
  match repr_sub w1 o1 x1 y1 with
  | Ok r1 => match repr_sub w2 o2 x2 y2 with
  | Ok r2 => repr_value w1 r1 = repr_value w2 r2
  | _ => False
  end
  | Panic NegativeUBig => match repr_sub w2 o2 x2 y2 with
  | Panic NegativeUBig => True
  | _ => False
  end
  | _ => False
  end.
Proof. exact ubig_sub_ws_independent. Qed.
Print Assumptions C19_ubig_sub_ws_independent.

(** IBig + IBig and IBig - IBig *)
Theorem C19_ibig_add_sub_ws_independent :
  forall w1 w2 : Z,
  8 <= w1 ->
  8 <= w2 ->
  forall (o1 o2 : own) (s0 s1 : sign) (x1 y1 x2 y2 : trepr),
  twf w1 x1 ->
  twf w1 y1 ->
  twf w2 x2 ->
  twf w2 y2 ->
  repr_value w1 x1 = repr_value w2 x2 ->
  repr_value w1 y1 = repr_value w2 y2 ->
  (exists r1 r2 : sign * trepr,
  ibig_add_asis w1 o1 s0 x1 s1 y1 = Ok r1 /\ ibig_add_asis w2 o2 s0 x2 s1 y2 = Ok r2 /\ srepr_value w1 r1 = srepr_value w2 r2) /\
  (exists r1 r2 : sign * trepr,
  ibig_sub_asis w1 o1 s0 x1 s1 y1 = Ok r1 /\ ibig_sub_asis w2 o2 s0 x2 s1 y2 = Ok r2 /\ srepr_value w1 r1 = srepr_value w2 r2).
Proof. exact ibig_add_sub_ws_independent. Qed.
Print Assumptions C19_ibig_add_sub_ws_independent.

(** pow (max_exp_in_word depends on Word::BITS) *)
Theorem C19_pow_ws_independent :
  forall w1 w2 : Z,
  8 <= w1 ->
  8 <= w2 ->
  forall (s : sign) (x1 x2 : trepr) (e : Z),
  RingOpsMulProofs.tok w1 x1 ->
  RingOpsMulProofs.tok w2 x2 ->
  0 <= e ->
  repr_value w1 x1 = repr_value w2 x2 ->
  (exists r1 r2 : trepr,
  ubig_pow_asis w1 src_T_simple src_T_kara src_CHUNK src_SQR x1 e = Ok r1 /\
  ubig_pow_asis w2 src_T_simple src_T_kara src_CHUNK src_SQR x2 e = Ok r2 /\ repr_value w1 r1 = repr_value w2 r2) /\
  (exists r1 r2 : sign * trepr,
  ibig_pow_asis w1 src_T_simple src_T_kara src_CHUNK src_SQR s x1 e = Ok r1 /\
  ibig_pow_asis w2 src_T_simple src_T_kara src_CHUNK src_SQR s x2 e = Ok r2 /\ srepr_value w1 r1 = srepr_value w2 r2).
Proof. exact pow_ws_independent. Qed.
Print Assumptions C19_pow_ws_independent.

(** DivRem / Div / Rem / ConstDivisor with every kernel transcribed *)
Theorem C19_division_ws_independent :
  forall w1 w2 : Z,
  8 <= w1 ->
  8 <= w2 ->
  forall a b : Z,
  0 <= a ->
  0 < b ->
  s_repr_div_rem w1 a b = s_repr_div_rem w2 a b /\
  s_repr_div w1 a b = s_repr_div w2 a b /\
  s_repr_rem w1 a b = s_repr_rem w2 a b /\
  s_const_div_rem w1 a b = s_const_div_rem w2 a b /\ s_const_rem w1 a b = s_const_rem w2 a b /\ s_repr_div_rem w1 a b = Ok (a / b, a mod b).
Proof. exact division_ws_independent. Qed.
Print Assumptions C19_division_ws_independent.

(** & | ^ and_not of magnitudes *)
Theorem C19_repr_bitops_ws_independent :
  forall w1 w2 : Z,
  0 < w1 ->
  0 < w2 ->
  forall (o1 o2 : bown) (a1 b1 a2 b2 : brepr),
  brepr_ok w1 a1 ->
  brepr_ok w1 b1 ->
  brepr_ok w2 a2 ->
  brepr_ok w2 b2 ->
  bvalue w1 a1 = bvalue w2 a2 ->
  bvalue w1 b1 = bvalue w2 b2 ->
  bvalue w1 (repr_bitand w1 o1 a1 b1) = bvalue w2 (repr_bitand w2 o2 a2 b2) /\
  bvalue w1 (repr_bitor w1 o1 a1 b1) = bvalue w2 (repr_bitor w2 o2 a2 b2) /\
  bvalue w1 (repr_bitxor w1 o1 a1 b1) = bvalue w2 (repr_bitxor w2 o2 a2 b2) /\
  bvalue w1 (repr_and_not w1 a1 b1) = bvalue w2 (repr_and_not w2 a2 b2).
Proof. exact repr_bitops_ws_independent. Qed.
Print Assumptions C19_repr_bitops_ws_independent.

(** & | ^ of IBig *)
Theorem C19_ibig_bitops_ws_independent :
  forall w1 w2 : Z,
  0 < w1 ->
  0 < w2 ->
  forall (o1 o2 : bown) (s0 s1 : sign) (a1 b1 a2 b2 : brepr),
  mag_ok w1 s0 a1 ->
  mag_ok w1 s1 b1 ->
  mag_ok w2 s0 a2 ->
  mag_ok w2 s1 b2 ->
  bvalue w1 a1 = bvalue w2 a2 ->
  bvalue w1 b1 = bvalue w2 b2 ->
  ibig_bitand_asis w1 o1 s0 a1 s1 b1 = ibig_bitand_asis w2 o2 s0 a2 s1 b2 /\
  ibig_bitor_asis w1 o1 s0 a1 s1 b1 = ibig_bitor_asis w2 o2 s0 a2 s1 b2 /\
  ibig_bitxor_asis w1 o1 s0 a1 s1 b1 = ibig_bitxor_asis w2 o2 s0 a2 s1 b2.
Proof. exact ibig_bitops_ws_independent. Qed.
Print Assumptions C19_ibig_bitops_ws_independent.

(** << >> of magnitudes and of IBig *)
Theorem C19_shifts_ws_independent :
  forall w1 w2 : Z,
  0 < w1 ->
  0 < w2 ->
  forall (cap1 cap2 : bool) (s : sign) (r1 r2 : brepr) (n : Z),
  0 <= n ->
  brepr_ok w1 r1 ->
  brepr_ok w2 r2 ->
  bvalue w1 r1 = bvalue w2 r2 ->
  bvalue w1 (repr_shl w1 cap1 r1 n) = bvalue w2 (repr_shl w2 cap2 r2 n) /\
  bvalue w1 (repr_shr w1 r1 n) = bvalue w2 (repr_shr w2 r2 n) /\
  ibig_shl_asis w1 s cap1 r1 n = ibig_shl_asis w2 s cap2 r2 n /\
  ibig_shr_asis w1 s r1 n = ibig_shr_asis w2 s r2 n /\ are_low_bits_nonzero w1 r1 n = are_low_bits_nonzero w2 r2 n.
Proof. exact shifts_ws_independent. Qed.
Print Assumptions C19_shifts_ws_independent.

(** bit_len, count_ones, trailing_zeros/ones, power-of-two tests, single bits *)
Theorem C19_bit_queries_ws_independent :
  forall w1 w2 : Z,
  0 < w1 ->
  0 < w2 ->
  forall (r1 r2 : brepr) (n : Z),
  0 <= n ->
  brepr_ok w1 r1 ->
  brepr_ok w2 r2 ->
  bvalue w1 r1 = bvalue w2 r2 ->
  repr_bit_len w1 r1 = repr_bit_len w2 r2 /\
  repr_count_ones r1 = repr_count_ones r2 /\
  repr_trailing_zeros w1 r1 = repr_trailing_zeros w2 r2 /\
  repr_trailing_ones w1 r1 = repr_trailing_ones w2 r2 /\
  repr_is_power_of_two r1 = repr_is_power_of_two r2 /\
  bvalue w1 (repr_next_power_of_two w1 r1) = bvalue w2 (repr_next_power_of_two w2 r2) /\
  repr_bit w1 r1 n = repr_bit w2 r2 n /\
  bvalue w1 (repr_set_bit w1 r1 n) = bvalue w2 (repr_set_bit w2 r2 n) /\
  bvalue w1 (repr_clear_bit w1 r1 n) = bvalue w2 (repr_clear_bit w2 r2 n) /\
  bvalue w1 (repr_clear_high_bits w1 r1 n) = bvalue w2 (repr_clear_high_bits w2 r2 n).
Proof. exact bit_queries_ws_independent. Qed.
Print Assumptions C19_bit_queries_ws_independent.

(** Display / in_radix and the three parsers *)
Theorem C19_text_ws_independent :
  forall w1 w2 : Z,
  io_w_ok w1 ->
  io_w_ok w2 ->
  (forall (k : fkind) (f : fmtflags) (v : Z), fmt_asis w1 k f v = fmt_asis w2 k f v) /\
  (forall (sg : bool) (r : Z) (s : list Z), from_str_radix_asis w1 sg r s = from_str_radix_asis w2 sg r s) /\
  (forall (sg : bool) (default : Z) (s : list Z),
  2 <= default <= 36 -> from_str_prefix_asis w1 sg default s = from_str_prefix_asis w2 sg default s).
Proof. exact text_ws_independent. Qed.
Print Assumptions C19_text_ws_independent.

(** little/big-endian bytes and chunks, both directions *)
Theorem C19_bytes_ws_independent :
  forall w1 w2 : Z,
  0 < w1 ->
  w1 mod 8 = 0 ->
  0 < w2 ->
  w2 mod 8 = 0 ->
  (forall m : Z,
  0 <= m -> to_le_bytes_asis w1 m = to_le_bytes_asis w2 m /\ IoBytesBEModel.to_be_bytes_asis w1 m = IoBytesBEModel.to_be_bytes_asis w2 m) /\
  (forall v : Z,
  to_signed_le_bytes_asis w1 v = to_signed_le_bytes_asis w2 v /\
  IoBytesBEModel.to_signed_be_bytes_asis w1 v = IoBytesBEModel.to_signed_be_bytes_asis w2 v) /\
  (forall bs : list Z,
  from_le_bytes_asis w1 bs = from_le_bytes_asis w2 bs /\ IoBytesBEModel.from_be_bytes_asis w1 bs = IoBytesBEModel.from_be_bytes_asis w2 bs) /\
  (forall bs : list Z,
  IoBytes.bytes_ok bs ->
  from_signed_le_bytes_asis w1 bs = from_signed_le_bytes_asis w2 bs /\
  IoBytesBEModel.from_signed_be_bytes_asis w1 bs = IoBytesBEModel.from_signed_be_bytes_asis w2 bs) /\
  (forall v cb : Z, 0 <= v -> 0 < cb -> to_chunks_asis w1 v cb = to_chunks_asis w2 v cb) /\
  (forall (cb : Z) (cs : list Z), 0 <= cb -> from_chunks_asis w1 cb cs = from_chunks_asis w2 cb cs).
Proof. exact bytes_ws_independent. Qed.
Print Assumptions C19_bytes_ws_independent.

(** ConstDivisor ring: construction, reduce, multiply, residue (ring kind chosen by comparing m with 2^w, 2^2w) *)
Theorem C19_modmul_any_word_size :
  forall w : Z, 2 <= w -> forall m x y : Z, 1 <= m -> ws_modmul w m x y = Ok ((x * y) mod m).
Proof. exact ws_modmul_spec. Qed.
Print Assumptions C19_modmul_any_word_size.

(** the same with pow *)
Theorem C19_modpow_any_word_size :
  forall w : Z, 2 <= w -> forall m x e : Z, 1 <= m -> 0 <= e -> ws_modpow w m x e = Ok (x ^ e mod m).
Proof. exact ws_modpow_spec. Qed.
Print Assumptions C19_modpow_any_word_size.

(** hence identical in two builds *)
Theorem C19_modular_ws_independent :
  forall w1 w2 : Z,
  2 <= w1 ->
  2 <= w2 -> forall m x y e : Z, 1 <= m -> 0 <= e -> ws_modmul w1 m x y = ws_modmul w2 m x y /\ ws_modpow w1 m x e = ws_modpow w2 m x e.
Proof. exact modular_ws_independent. Qed.
Print Assumptions C19_modular_ws_independent.

(** sqrt_rem of three or more words (Karatsuba square root) *)
Theorem C19_sqrt_ws_independent :
  forall w1 w2 : Z,
  2 <= w1 ->
  w1 mod 2 = 0 ->
  2 <= w2 ->
  w2 mod 2 = 0 ->
  forall x : Z,
  (2 ^ w1) ^ 2 <= x ->
  (2 ^ w2) ^ 2 <= x -> sqrt_rem_large_asis w1 x = sqrt_rem_large_asis w2 x /\ sqrt_rem_large_asis w1 x = Ok (sqrt_rem_spec x).
Proof. exact sqrt_ws_independent. Qed.
Print Assumptions C19_sqrt_ws_independent.

(** the word-level runs the oracle evaluates at the word size of the answering build: each = its specification for EVERY word size *)
Theorem C19_run_mul :
  forall w : Z, 8 <= w -> forall a b : Z, wr_mul w a b = Ok (a * b).
Proof. exact wr_mul_spec. Qed.
Print Assumptions C19_run_mul.

Theorem C19_run_sqr :
  forall w : Z, 8 <= w -> forall a : Z, wr_sqr w a = Ok (a * a).
Proof. exact wr_sqr_spec. Qed.
Print Assumptions C19_run_sqr.

Theorem C19_run_add_sub :
  forall w : Z, 8 <= w -> forall a b : Z, wr_add w a b = Ok (a + b) /\ wr_sub w a b = Ok (a - b).
Proof. exact wr_add_sub_spec. Qed.
Print Assumptions C19_run_add_sub.

Theorem C19_run_pow :
  forall w : Z, 8 <= w -> forall a e : Z, 0 <= e -> wr_pow w a e = Ok (a ^ e).
Proof. exact wr_pow_spec. Qed.
Print Assumptions C19_run_pow.

Theorem C19_run_divrem :
  forall w : Z, 8 <= w -> forall a b : Z, wr_divrem w a b = (if b =? 0 then Panic DivideBy0 else Ok (a ÷ b, Z.rem a b)).
Proof. exact wr_divrem_spec. Qed.
Print Assumptions C19_run_divrem.

Theorem C19_run_bitops :
  forall w : Z, 8 <= w -> forall a b : Z, wr_and w a b = Z.land a b /\ wr_or w a b = Z.lor a b /\ wr_xor w a b = Z.lxor a b.
Proof. exact wr_bitops_spec. Qed.
Print Assumptions C19_run_bitops.

Theorem C19_run_shift :
  forall w : Z, 8 <= w -> forall a n : Z, 0 <= n -> wr_shl w a n = Z.shiftl a n /\ wr_shr w a n = Z.shiftr a n.
Proof. exact wr_shift_spec. Qed.
Print Assumptions C19_run_shift.

Theorem C19_run_queries :
  forall w : Z,
  8 <= w ->
  forall a : Z, wr_bitlen w a = bit_len_spec (Z.abs a) /\ wr_tz w a = trailing_zeros_spec (Z.abs a) /\ wr_ones w a = count_ones_spec (Z.abs a).
Proof. exact wr_queries_spec. Qed.
Print Assumptions C19_run_queries.

Theorem C19_run_text :
  forall w : Z,
  8 <= w ->
  w mod 2 = 0 ->
  (forall r v : Z, wr_tostr w r v = fmt_spec (KInRadix r) json_flags v) /\
  (forall (r : Z) (s : list Z), wr_fromstr w r s = from_str_radix_spec true r s).
Proof. exact wr_text_spec. Qed.
Print Assumptions C19_run_text.

Theorem C19_run_sqrt :
  forall w : Z, 8 <= w -> w mod 2 = 0 -> forall x : Z, 0 <= x -> wr_sqrt w x = Ok (Z.sqrt x).
Proof. exact wr_sqrt_spec. Qed.
Print Assumptions C19_run_sqrt.

(** IBig::to_f64 / to_f32: the double-word shortcut depends on DoubleWord::BITS *)
Theorem C19_run_tofloat :
  forall w v : Z, 32 <= w -> wr_tof64 w v = ieee_rne F64 v 1 /\ wr_tof32 w v = ieee_rne F32 v 1.
Proof. exact wr_tofloat_spec. Qed.
Print Assumptions C19_run_tofloat.

(** run by run: two word sizes, the same answer *)
Theorem C19_word_runs_independent :
  forall w1 w2 : Z,
  8 <= w1 ->
  8 <= w2 ->
  w1 mod 2 = 0 ->
  w2 mod 2 = 0 ->
  (forall a b : Z,
  wr_mul w1 a b = wr_mul w2 a b /\
  wr_add w1 a b = wr_add w2 a b /\
  wr_sub w1 a b = wr_sub w2 a b /\
  wr_divrem w1 a b = wr_divrem w2 a b /\ wr_and w1 a b = wr_and w2 a b /\ wr_or w1 a b = wr_or w2 a b /\ wr_xor w1 a b = wr_xor w2 a b) /\
  (forall a : Z, wr_sqr w1 a = wr_sqr w2 a /\ wr_bitlen w1 a = wr_bitlen w2 a /\ wr_tz w1 a = wr_tz w2 a /\ wr_ones w1 a = wr_ones w2 a) /\
  (forall a n : Z, 0 <= n -> wr_pow w1 a n = wr_pow w2 a n /\ wr_shl w1 a n = wr_shl w2 a n /\ wr_shr w1 a n = wr_shr w2 a n) /\
  (forall (r v : Z) (s : list Z), wr_tostr w1 r v = wr_tostr w2 r v /\ wr_fromstr w1 r s = wr_fromstr w2 r s) /\
  (forall x : Z, 0 <= x -> wr_sqrt w1 x = wr_sqrt w2 x) /\
  (forall m x y e : Z, 1 <= m -> 0 <= e -> ws_modmul w1 m x y = ws_modmul w2 m x y /\ ws_modpow w1 m x e = ws_modpow w2 m x e).
Proof. exact word_runs_independent. Qed.
Print Assumptions C19_word_runs_independent.

(** std vs no_std: the estimate-then-correct loops of ilog return the same exponent for ANY two first guesses *)
Theorem C19_ilog_large_estimator_independent :
  forall target base : Z,
  2 <= base ->
  1 <= target ->
  forall (fuel1 fuel2 : nat) (est1 est2 e1 p1 e2 p2 : Z),
  log_large_asis fuel1 est1 target base = Ok (e1, p1) -> log_large_asis fuel2 est2 target base = Ok (e2, p2) -> e1 = e2 /\ p1 = p2.
Proof. exact ilog_large_estimator_independent. Qed.
Print Assumptions C19_ilog_large_estimator_independent.

Theorem C19_ilog_dword_estimator_independent :
  forall target base : Z,
  2 <= base ->
  1 <= target ->
  forall (fuel1 fuel2 : nat) (D1 D2 est1 est2 e1 p1 e2 p2 : Z),
  target < D1 ->
  target < D2 ->
  0 <= est1 ->
  0 <= est2 ->
  log_dword_asis fuel1 D1 est1 target base = Ok (e1, p1) -> log_dword_asis fuel2 D2 est2 target base = Ok (e2, p2) -> e1 = e2 /\ p1 = p2.
Proof. exact ilog_dword_estimator_independent. Qed.
Print Assumptions C19_ilog_dword_estimator_independent.

(** ... and any two word sizes (the largest power of the base in a word differs) *)
Theorem C19_ilog_word_base_estimator_and_ws_independent :
  forall target base : Z,
  2 <= base ->
  1 <= target ->
  forall w1 w2 : Z,
  0 < w1 ->
  0 < w2 ->
  forall wexp1 wexp2 : Z,
  0 <= wexp1 ->
  0 <= wexp2 ->
  base ^ wexp1 < 2 ^ w1 ->
  base ^ wexp2 < 2 ^ w2 ->
  forall (fuel1 fuel2 : nat) (est1 est2 e1 p1 e2 p2 : Z),
  2 <= wlen w1 target ->
  2 <= wlen w2 target ->
  0 <= est1 ->
  0 <= est2 ->
  log_word_base_asis fuel1 w1 est1 wexp1 target base = Ok (e1, p1) ->
  log_word_base_asis fuel2 w2 est2 wexp2 target base = Ok (e2, p2) -> e1 = e2 /\ p1 = p2.
Proof. exact ilog_word_base_estimator_and_ws_independent. Qed.
Print Assumptions C19_ilog_word_base_estimator_and_ws_independent.

(** Newton from any positive first guess *)
Theorem C19_nth_root_guess_independent :
  forall x n : Z,
  0 < x ->
  2 <= n ->
  forall (fuel1 fuel2 : nat) (g1 g2 r1 r2 : Z),
  0 < g1 -> 0 < g2 -> newton_root_from fuel1 x n g1 = Ok r1 -> newton_root_from fuel2 x n g2 = Ok r2 -> r1 = r2.
Proof. exact nth_root_guess_independent. Qed.
Print Assumptions C19_nth_root_guess_independent.

(** FBig comparison for any two sound digit estimates (digits_ub comes from log2_bounds) *)
Theorem C19_float_cmp_estimator_independent :
  forall B : Z,
  2 <= B ->
  forall du1 du2 : Z -> Z,
  digits_ub_sound B du1 ->
  digits_ub_sound B du2 ->
  forall (a : bool) (l r : frepr),
  FloatOrdProofs.fwf l -> FloatOrdProofs.fwf r -> repr_cmp_same_base B du1 a l r = repr_cmp_same_base B du2 a l r.
Proof. exact float_cmp_estimator_independent. Qed.
Print Assumptions C19_float_cmp_estimator_independent.

(** FBig + / -: with either estimate the correctly rounded exact sum *)
Theorem C19_float_add_sub_estimator_contract :
  forall B : Z,
  2 <= B ->
  forall du1 du2 : Z -> Z,
  (forall s : Z, dlen B s <= du1 s) ->
  (forall s : Z, dlen B s <= du2 s) ->
  forall (p : Z) (m : mode) (s1 e1 s2 e2 : Z),
  1 <= p ->
  dlen B s1 <= p ->
  dlen B s2 <= p ->
  AddModelProof.rounded_sum B p m (AddModelProof.exact_sum B s1 e1 s2 e2 Positive) (Z.min e1 e2) (ctx_add B du1 p m s1 e1 s2 e2) /\
  AddModelProof.rounded_sum B p m (AddModelProof.exact_sum B s1 e1 s2 e2 Positive) (Z.min e1 e2) (ctx_add B du2 p m s1 e1 s2 e2) /\
  AddModelProof.rounded_sum B p m (AddModelProof.exact_sum B s1 e1 s2 e2 Negative) (Z.min e1 e2) (ctx_sub B du1 p m s1 e1 s2 e2) /\
  AddModelProof.rounded_sum B p m (AddModelProof.exact_sum B s1 e1 s2 e2 Negative) (Z.min e1 e2) (ctx_sub B du2 p m s1 e1 s2 e2).
Proof. exact float_add_sub_estimator_contract. Qed.
Print Assumptions C19_float_add_sub_estimator_contract.

(** human-readable serde of UBig/IBig: Display, then from_str_with_radix_prefix *)
Theorem C19_json_int_roundtrip :
  forall (v : Z) (t : list Z), json_int_text v = Ok t -> json_int_de true t = Ok v /\ (0 <= v -> json_int_de false t = Ok v).
Proof. exact json_int_roundtrip. Qed.
Print Assumptions C19_json_int_roundtrip.

(** the as-is printer / parser at any word size write / accept the same texts *)
Theorem C19_json_int_any_word_size :
  forall w : Z,
  0 < w ->
  w mod 2 = 0 ->
  36 < Bw w ->
  (forall v : Z, json_int_text_asis w v = json_int_text v) /\ (forall (sg : bool) (s : list Z), json_int_de_asis w sg s = json_int_de sg s).
Proof. exact json_int_any_word_size. Qed.
Print Assumptions C19_json_int_any_word_size.

Theorem C19_json_int_asis_roundtrip :
  forall w : Z,
  0 < w ->
  w mod 2 = 0 ->
  36 < Bw w ->
  forall (v : Z) (t : list Z),
  json_int_text_asis w v = Ok t -> json_int_de_asis w true t = Ok v /\ (0 <= v -> json_int_de_asis w false t = Ok v).
Proof. exact json_int_asis_roundtrip. Qed.
Print Assumptions C19_json_int_asis_roundtrip.

(** RBig: n or n/d, Repr::from_str_with_radix_prefix, zero guard, reduce *)
Theorem C19_json_rbig_roundtrip :
  forall (n d : Z) (t : list Z), rat_canon n d -> json_rat_text n d = Ok t -> json_rat_de false t = Ok (n, d).
Proof. exact json_rbig_roundtrip. Qed.
Print Assumptions C19_json_rbig_roundtrip.

(** every accepted text decodes to lowest terms with a positive denominator *)
Theorem C19_json_rbig_de_canonical :
  forall (t : list Z) (n d : Z), json_rat_de false t = Ok (n, d) -> rat_canon n d.
Proof. exact json_rbig_de_canonical. Qed.
Print Assumptions C19_json_rbig_de_canonical.

(** FBig / Repr: the infinities round trip in every base *)
Theorem C19_json_float_inf_roundtrip :
  forall B e : Z, e <> 0 -> json_float_de B (json_float_text B 0 e) = Ok (0, Z.sgn e).
Proof. exact json_float_inf_roundtrip. Qed.
Print Assumptions C19_json_float_inf_roundtrip.

(** finite floats in normal form round trip outside the class of the open finding fbig_json_inf_collision *)
Theorem C19_json_float_roundtrip :
  forall B s e : Z,
  2 <= B <= 36 ->
  s mod B <> 0 \/ s = 0 /\ e = 0 -> in_isize e = true -> json_inf_collision B s e = false -> json_float_de B (json_float_text B s e) = Ok (s, e).
Proof. exact json_float_roundtrip. Qed.
Print Assumptions C19_json_float_roundtrip.

(** OPEN finding: in base 36 the number 24171 is written "inf" and read back as +infinity *)
Theorem C19_json_float_inf_collision_refuted :
  json_inf_collision 36 24171 0 = true /\
  json_float_text 36 24171 0 = json_float_text 36 0 1 /\
  json_float_de 36 (json_float_text 36 24171 0) = Ok (0, 1) /\
  json_float_de 36 (json_float_text 36 (-24171) 0) = Ok (0, -1) /\
  json_inf_collision 10 24171 0 = false /\ json_float_de 10 (json_float_text 10 24171 0) = Ok (24171, 0).
Proof. exact json_float_inf_collision_refuted. Qed.
Print Assumptions C19_json_float_inf_collision_refuted.

(** the class is exactly: base >= 24, exponent 0, digits i n f *)
Theorem C19_json_inf_collision_class :
  forall B s e : Z, 2 <= B <= 36 -> json_inf_collision B s e = true -> 24 <= B /\ e = 0 /\ Z.abs s = 18 * B * B + 23 * B + 15.
Proof. exact json_inf_collision_class. Qed.
Print Assumptions C19_json_inf_collision_class.

(** hence unconditional below base 24 *)
Theorem C19_json_float_roundtrip_small_base :
  forall B s e : Z, 2 <= B < 24 -> s mod B <> 0 \/ s = 0 /\ e = 0 -> in_isize e = true -> json_float_de B (json_float_text B s e) = Ok (s, e).
Proof. exact json_float_roundtrip_small_base. Qed.
Print Assumptions C19_json_float_roundtrip_small_base.

(** ---- the architecture selection, over the fragment coq/gen/ArchGen.v regenerated from integer/src/arch on every run:
         whatever cfg values are set, cfg_if! selects an architecture whose Word is 16, 32 or 64 bits wide (DoubleWord
         twice that): every premise the word-size-generic theorems put on [w] holds in every build *)
From Coq Require Import String.
From Dashu Require Import Serde.ArchModel Serde.ArchSelect Serde.ArchProofs.
From DashuGen Require Import ArchGen.
Theorem C19_arch_word_admissible : forall c : cfg, exists w,
  arch_word_bits c = Some w /\ (w = 16 \/ w = 32 \/ w = 64) /\ 8 <= w /\ w mod 8 = 0 /\ w mod 2 = 0 /\ 36 < 2 ^ w.
Proof. exact arch_word_admissible. Qed.
Print Assumptions C19_arch_word_admissible.

Theorem C19_arch_force_bits : forall c : cfg,
  (cfg_has c (KForceBits, "16"%string) = true -> arch_word_bits c = Some 16) /\
  (cfg_has c (KForceBits, "16"%string) = false -> cfg_has c (KForceBits, "32"%string) = true -> arch_word_bits c = Some 32) /\
  (cfg_has c (KForceBits, "16"%string) = false -> cfg_has c (KForceBits, "32"%string) = false ->
   cfg_has c (KForceBits, "64"%string) = true -> arch_word_bits c = Some 64).
Proof. exact arch_force_bits. Qed.
Print Assumptions C19_arch_force_bits.

Theorem C19_arch_x86_64_default : forall c : cfg,
  (forall v, cfg_has c (KForceBits, v) = false) -> cfg_has c (KTargetArch, "x86"%string) = false ->
  cfg_has c (KTargetArch, "x86_64"%string) = true -> arch_word_bits c = Some 64.
Proof. exact arch_x86_64_default. Qed.
Print Assumptions C19_arch_x86_64_default.

(** arch/generic/add.rs as regenerated = the carry primitives C01's model is written with, any word size *)
Theorem C19_arch_add_with_carry : forall w a b c, 0 < w -> 0 <= a < B w -> 0 <= b < B w ->
  add_with_carry_gen w a b c = add_with_carry w a b c.
Proof. exact add_with_carry_gen_spec. Qed.
Print Assumptions C19_arch_add_with_carry.

Theorem C19_arch_sub_with_borrow : forall w a b c, 0 < w -> 0 <= a < B w -> 0 <= b < B w ->
  sub_with_borrow_gen w a b c = sub_with_borrow w a b c.
Proof. exact sub_with_borrow_gen_spec. Qed.
Print Assumptions C19_arch_sub_with_borrow.

(** Relaxed: the canonical form is the fixed point of reduce2 *)
Theorem C19_json_relaxed_roundtrip : forall n d t, 0 < d -> rat_reduce2 n d = (n, d) ->
  json_rat_text n d = Ok t -> json_rat_de true t = Ok (n, d).
Proof. exact json_relaxed_roundtrip. Qed.
Print Assumptions C19_json_relaxed_roundtrip.

(** ================================================================================================================
    ROUND 4.  (1) gcd / gcd_ext / nth_root / ilog with the dispatch of each word size (Serde/WordRunsModel2.v over C12's
    kernels: Lehmer on w-bit words, primitive gcd on the Word / DoubleWord type, Karatsuba square root, the largest power
    of the base in a word), (2) float mul / div / sqrt per build against C03's digit-exact models, (3) arbitrary JSON token
    streams into the human-readable deserializers (what reaches visit_str; regenerated serde glue), (4) the repaired text
    form of floats round trips in every base. *)
From Dashu Require Import Int.GrlLehmer Float.LongModel Float.AddModelProof Float.NormalProof.
From Dashu Require Import Serde.WordRunsModel2 Serde.WordRuns2 Serde.JsonTokenModel Serde.JsonTokenProofs Serde.SerdeGlueProofs Serde.FloatBuilds.
From DashuGen Require Import SerdeVisitorsGen.

Theorem C19_run_gcd : forall w, 8 <= w -> forall fuel a b g, wr_gcd fuel w a b = Ok g -> g = Z.gcd a b.
Proof. exact wr_gcd_correct. Qed.
Print Assumptions C19_run_gcd.

Theorem C19_run_gcdext : forall w, 8 <= w -> forall fuel x y g s t, 0 <= x -> 0 <= y ->
  wr_gcdext fuel w x y = Ok (g, s, t) -> gcd_ext_cert x y g s t = true.
Proof. exact wr_gcdext_correct. Qed.
Print Assumptions C19_run_gcdext.

Theorem C19_run_nthroot : forall w, 8 <= w -> w mod 2 = 0 -> forall fuel x n, 0 <= x ->
  wr_nthroot fuel w x n = nth_root_asis fuel x n.
Proof. exact wr_nthroot_eq. Qed.
Print Assumptions C19_run_nthroot.

Theorem C19_run_nthroot_cert : forall w, 8 <= w -> w mod 2 = 0 -> forall fuel x n r, 0 <= x -> 0 < n ->
  wr_nthroot fuel w x n = Ok r -> root_cert n x r = true.
Proof. exact wr_nthroot_correct. Qed.
Print Assumptions C19_run_nthroot_cert.

Theorem C19_run_nthroot_panics : forall w, 8 <= w -> w mod 2 = 0 -> forall fuel x n r, 0 <= x ->
  wr_nthroot fuel w x n = Panic r -> r = RootZeroth /\ n = 0.
Proof. exact wr_nthroot_panics. Qed.
Print Assumptions C19_run_nthroot_panics.

Theorem C19_max_exp_in_word : forall w, 8 <= w -> forall base e p, 2 <= base < 2 ^ w ->
  max_exp_in_word_asis w base = Ok (e, p) ->
  0 <= e /\ p = base ^ e /\ p < 2 ^ w /\ (2 ^ (w / 2) - 1 < base \/ 2 ^ w <= p * base).
Proof. exact max_exp_in_word_asis_correct. Qed.
Print Assumptions C19_max_exp_in_word.

Theorem C19_run_ilog : forall w, 8 <= w -> forall fuel x b e, 0 <= x -> 0 <= b ->
  wr_ilog fuel w x b = Ok e -> ilog_cert x b e = true.
Proof. exact wr_ilog_correct. Qed.
Print Assumptions C19_run_ilog.

Theorem C19_word_runs2_independent : forall w1 w2, 8 <= w1 -> 8 <= w2 -> w1 mod 2 = 0 -> w2 mod 2 = 0 -> forall f1 f2,
  (forall a b g1 g2, wr_gcd f1 w1 a b = Ok g1 -> wr_gcd f2 w2 a b = Ok g2 -> g1 = g2) /\
  (forall x y g1 s1 t1 g2 s2 t2, 0 <= x -> 0 <= y -> wr_gcdext f1 w1 x y = Ok (g1, s1, t1) -> wr_gcdext f2 w2 x y = Ok (g2, s2, t2) ->
     g1 = g2 /\ g1 = Z.gcd x y /\ s1 * x + t1 * y = g1 /\ s2 * x + t2 * y = g1) /\
  (forall x n r1 r2, 0 <= x -> 0 < n -> wr_nthroot f1 w1 x n = Ok r1 -> wr_nthroot f2 w2 x n = Ok r2 -> r1 = r2) /\
  (forall x n, 0 <= x -> wr_nthroot f1 w1 x n = wr_nthroot f1 w2 x n) /\
  (forall x b e1 e2, 0 <= x -> 2 <= b -> wr_ilog f1 w1 x b = Ok e1 -> wr_ilog f2 w2 x b = Ok e2 -> e1 = e2).
Proof. exact word_runs2_independent. Qed.
Print Assumptions C19_word_runs2_independent.

(** ---- float mul / div / sqrt per build *)
Theorem C19_float_div_n_estimator_independent : forall B, 2 <= B -> forall du1 dl1 du2 dl2 p m s1 e1 s2 e2,
  div_long_class B p s1 s2 = false ->
  ctx_div_n B du1 dl1 p m s1 e1 s2 e2 = ctx_div_n B du2 dl2 p m s1 e1 s2 e2.
Proof. exact float_div_n_estimator_independent. Qed.
Print Assumptions C19_float_div_n_estimator_independent.

Theorem C19_float_n_results_normal : forall B, 2 <= B -> forall du dl p m s1 e1 s2 e2,
  approx_normal B (ctx_mul_n B p m s1 e1 s2 e2) /\ result_normal B (ctx_div_n B du dl p m s1 e1 s2 e2) /\
  result_normal B (ctx_sqrt_n B p m s1 e1).
Proof. exact float_n_results_normal. Qed.
Print Assumptions C19_float_n_results_normal.

Theorem C19_float_mul_n_one_rounding : forall B, 2 <= B -> forall p m s1 e1 s2 e2, 1 <= p -> mul_long_class B p s1 s2 = false ->
  ctx_mul_n B p m s1 e1 s2 e2 = norm_approx B (ctx_mul B p m s1 e1 s2 e2) /\
  rounded_sum B p m (s1 * s2) (e1 + e2) (ctx_mul B p m s1 e1 s2 e2).
Proof. exact float_mul_n_one_rounding. Qed.
Print Assumptions C19_float_mul_n_one_rounding.

(** ---- arbitrary JSON token streams *)
Theorem C19_json_lexer_total : forall inp, json_str_token inp <> OutOfFuel.
Proof. exact json_str_token_total. Qed.
Print Assumptions C19_json_lexer_total.

Theorem C19_json_plain_string : forall w1 body w2, all_ws w1 -> all_ws w2 -> Forall plain_char body ->
  json_str_token (w1 ++ json_quote body ++ w2)%list = Ok body.
Proof. exact json_str_token_plain. Qed.
Print Assumptions C19_json_plain_string.

Theorem C19_json_non_string_rejected : forall inp,
  (skip_ws inp = [] \/ exists c t, skip_ws inp = c :: t /\ c <> 34) ->
  json_str_token inp = Err E_Json /\
  (forall sg, json_tok_int sg inp = Err E_Json) /\ (forall rl, json_tok_rat rl inp = Err E_Json) /\ (forall B, json_tok_float B inp = Err E_Json).
Proof. exact json_non_string_rejected. Qed.
Print Assumptions C19_json_non_string_rejected.

Theorem C19_json_tok_int_roundtrip : forall v t w1 w2, all_ws w1 -> all_ws w2 -> json_int_text v = Ok t ->
  json_tok_int true (w1 ++ json_quote t ++ w2)%list = Ok v /\ (0 <= v -> json_tok_int false (w1 ++ json_quote t ++ w2)%list = Ok v).
Proof. exact json_tok_int_roundtrip. Qed.
Print Assumptions C19_json_tok_int_roundtrip.

Theorem C19_json_tok_rbig_roundtrip : forall n d t w1 w2, all_ws w1 -> all_ws w2 -> rat_canon n d -> json_rat_text n d = Ok t ->
  json_tok_rat false (w1 ++ json_quote t ++ w2)%list = Ok (n, d).
Proof. exact json_tok_rbig_roundtrip. Qed.
Print Assumptions C19_json_tok_rbig_roundtrip.

Theorem C19_json_tok_rbig_canonical : forall inp n d, json_tok_rat false inp = Ok (n, d) -> rat_canon n d.
Proof. exact json_tok_rbig_canonical. Qed.
Print Assumptions C19_json_tok_rbig_canonical.

(** ---- the repaired float text form (finding fbig_json_inf_collision, fixed): every finite normal-form value of every
    base 2..36 round trips, the infinities as before *)
Theorem C19_json_float_ser_roundtrip : forall B s e, 2 <= B <= 36 ->
  s mod B <> 0 \/ (s = 0 /\ e = 0) -> in_isize e = true -> json_float_de_gen B (json_float_ser B s e) = Ok (s, e).
Proof. exact json_float_ser_roundtrip. Qed.
Print Assumptions C19_json_float_ser_roundtrip.

Theorem C19_json_float_ser_inf : forall B e, e <> 0 -> json_float_de_gen B (json_float_ser B 0 e) = Ok (0, Z.sgn e).
Proof. exact json_float_ser_inf. Qed.
Print Assumptions C19_json_float_ser_inf.

(** ---- the regenerated serde glue is what the token model assumes *)
Theorem C19_serde_glue_is_modelled : hints_ok = true /\ visit_str_ok = true /\
  gen_inf_tokens = [(txt_inf, 1); (txt_ninf, -1)] /\ gen_inf_escape_min_base <= 24 /\ gen_inf_escape_suffix = [64; 48].
Proof. exact serde_glue_is_modelled. Qed.
Print Assumptions C19_serde_glue_is_modelled.

(** ---- finding fbig_to_float_wide_significand is fixed (344196e): the hand-over to into_f32/f64_internal fits *)
Theorem C19_to_float_div_route_fits : forall p m N D e1 e2, 1 <= p -> 0 < D -> N <> 0 ->
  let a := Conv.ConvModel.div_round_once 2 p m N e1 D e2 in
  dlen 2 (fst (Float.Model.normalize 2 (Float.Model.approx_sig a) (Float.Model.approx_exp a))) <= p.
Proof. exact to_float_div_route_fits. Qed.
Print Assumptions C19_to_float_div_route_fits.

(** ---- release vs debug builds: exponent arithmetic on isize (open finding float_exponent_range_unchecked, Context::mul) *)
From Dashu Require Import Serde.ExpRangeModel Serde.ExpRangeProofs.
From DashuGen Require Import RoundTables.

Theorem C19_ctx_mul_builds_agree : forall B p m s1 e1 s2 e2, mul_exp_range_class e1 e2 = false ->
  ctx_mul_build true B p m s1 e1 s2 e2 = ctx_mul_build false B p m s1 e1 s2 e2 /\
  ctx_mul_build true B p m s1 e1 s2 e2 = Ok (ctx_mul_n B p m s1 e1 s2 e2).
Proof. exact ctx_mul_builds_agree. Qed.
Print Assumptions C19_ctx_mul_builds_agree.

Theorem C19_mul_exp_range_class_small : forall e1 e2, - 2 ^ 62 <= e1 < 2 ^ 62 -> - 2 ^ 62 <= e2 < 2 ^ 62 -> mul_exp_range_class e1 e2 = false.
Proof. exact mul_exp_range_class_small. Qed.
Print Assumptions C19_mul_exp_range_class_small.

Theorem C19_mul_exp_range_refuted :
  mul_exp_range_class (2 ^ 63 - 1) (2 ^ 63 - 1) = true /\
  ctx_mul_build true 10 1 MHalfEven 3 (2 ^ 63 - 1) 5 (2 ^ 63 - 1) = Panic Undocumented /\
  ctx_mul_build false 10 1 MHalfEven 3 (2 ^ 63 - 1) 5 (2 ^ 63 - 1) = Ok (AInexact 2 (-1) AddOne) /\
  ctx_mul_n 10 1 MHalfEven 3 (2 ^ 63 - 1) 5 (2 ^ 63 - 1) = AInexact 2 (2 ^ 64 - 1) AddOne.
Proof. exact mul_exp_range_refuted. Qed.
Print Assumptions C19_mul_exp_range_refuted.
