(** C19 - results do not depend on word size, build features or serialization medium.
    ONLY statements pinned here; proofs live in Dashu.Serde.*.
    [k] = WORD_BYTES (8: 64-bit words, 4: force_bits="32", 2: 16-bit), word lists are little-endian
    over w = 8k bits, bytes are words of size 8 ([sle_value = value 8]). *)
From Dashu Require Import Base.Prelude Base.Words Int.BitsWords Int.RingAdd Int.RingMul.
From Dashu Require Import Float.RoundSpec Float.Model.
From Dashu Require Import Serde.WireModel Serde.WireProofs Serde.CfgValueSpec Serde.CfgValueProofs Serde.WordSizeCorollaries Serde.FloatToIeeeAsis.
From DashuGen Require Import Params.
Open Scope Z_scope.

(** ---- the byte strings written for an integer do not depend on the word size *)
Theorem C19_words_to_le_bytes : forall k, 0 < k -> forall ws, normalized (8 * k) ws -> ws <> [] ->
  words_to_le_bytes k ws = sle_bytes (value (8 * k) ws).
Proof. exact words_to_le_bytes_spec. Qed.
Print Assumptions C19_words_to_le_bytes.

Theorem C19_ubig_bytes_any_word_size : forall k, 0 < k -> forall ws, normalized (8 * k) ws ->
  ubig_ser_asis k ws = ubig_enc (value (8 * k) ws).
Proof. exact ubig_ser_asis_spec. Qed.
Print Assumptions C19_ubig_bytes_any_word_size.

Theorem C19_ibig_bytes_any_word_size : forall k, 0 < k -> forall s ws, normalized (8 * k) ws ->
  ibig_ser_asis k s ws = ibig_enc (signed s (value (8 * k) ws)).
Proof. exact ibig_ser_asis_spec. Qed.
Print Assumptions C19_ibig_bytes_any_word_size.

Theorem C19_ubig_bytes_identical_across_word_sizes : forall k1 k2 ws1 ws2, 0 < k1 -> 0 < k2 ->
  normalized (8 * k1) ws1 -> normalized (8 * k2) ws2 -> value (8 * k1) ws1 = value (8 * k2) ws2 ->
  ubig_ser_asis k1 ws1 = ubig_ser_asis k2 ws2.
Proof. exact ubig_bytes_word_size_independent. Qed.
Print Assumptions C19_ubig_bytes_identical_across_word_sizes.

Theorem C19_ibig_bytes_identical_across_word_sizes : forall k1 k2 s ws1 ws2, 0 < k1 -> 0 < k2 ->
  normalized (8 * k1) ws1 -> normalized (8 * k2) ws2 -> value (8 * k1) ws1 = value (8 * k2) ws2 ->
  ibig_ser_asis k1 s ws1 = ibig_ser_asis k2 s ws2.
Proof. exact ibig_bytes_word_size_independent. Qed.
Print Assumptions C19_ibig_bytes_identical_across_word_sizes.

(** ---- decoding does not depend on the word size either (every byte string, any k) *)
Theorem C19_ubig_decode_any_word_size : forall k, 0 < k -> forall bs, ubig_de_asis k bs = ubig_dec bs.
Proof. exact ubig_de_asis_spec. Qed.
Print Assumptions C19_ubig_decode_any_word_size.

Theorem C19_ibig_decode_any_word_size : forall k, 0 < k -> forall bs, ibig_de_asis k bs = ibig_dec bs.
Proof. exact ibig_de_asis_spec. Qed.
Print Assumptions C19_ibig_decode_any_word_size.

(** ---- decode (encode x) = x; every byte string decodes to a canonically re-encodable value *)
Theorem C19_ubig_roundtrip : forall v, 0 <= v -> ubig_dec (ubig_enc v) = v.
Proof. exact ubig_roundtrip. Qed.
Print Assumptions C19_ubig_roundtrip.

Theorem C19_ibig_roundtrip : forall v, ibig_dec (ibig_enc v) = v.
Proof. exact ibig_roundtrip. Qed.
Print Assumptions C19_ibig_roundtrip.

Theorem C19_ibig_sign_is_length_parity : forall v, v <> 0 -> odd_len (ibig_enc v) = (v <? 0).
Proof. exact ibig_enc_parity. Qed.
Print Assumptions C19_ibig_sign_is_length_parity.

Theorem C19_ibig_encoding_injective : forall v1 v2, ibig_enc v1 = ibig_enc v2 -> v1 = v2.
Proof. exact ibig_enc_injective. Qed.
Print Assumptions C19_ibig_encoding_injective.

Theorem C19_ibig_every_bytes_canonical : forall bs, ibig_dec (ibig_enc (ibig_dec bs)) = ibig_dec bs.
Proof. exact ibig_dec_canonical. Qed.
Print Assumptions C19_ibig_every_bytes_canonical.

Theorem C19_ubig_every_bytes_canonical : forall bs, wf 8 bs -> ubig_dec (ubig_enc (ubig_dec bs)) = ubig_dec bs.
Proof. exact ubig_dec_canonical. Qed.
Print Assumptions C19_ubig_every_bytes_canonical.

(** ---- the medium: postcard varints, zigzag exponents, length-prefixed byte strings *)
Theorem C19_varint_roundtrip : forall n rest, 0 <= n < 2 ^ 64 -> varint_dec (varint_enc n ++ rest) = Some (n, rest).
Proof. exact varint_roundtrip. Qed.
Print Assumptions C19_varint_roundtrip.

Theorem C19_zigzag_roundtrip : forall n, unzigzag (zigzag n) = n /\ 0 <= zigzag n.
Proof. exact zigzag_roundtrip. Qed.
Print Assumptions C19_zigzag_roundtrip.

Theorem C19_bytes_roundtrip : forall bs rest, len bs < 2 ^ 64 -> bytes_dec (bytes_enc bs ++ rest) = Some (bs, rest).
Proof. exact bytes_roundtrip. Qed.
Print Assumptions C19_bytes_roundtrip.

Theorem C19_wire_ubig_roundtrip : forall v rest, 0 <= v -> sbyte_len v < 2 ^ 64 -> w_ubig_dec (w_ubig_enc v ++ rest) = Some (v, rest).
Proof. exact w_ubig_roundtrip. Qed.
Print Assumptions C19_wire_ubig_roundtrip.

Theorem C19_wire_ibig_roundtrip : forall v rest, len (ibig_enc v) < 2 ^ 64 -> w_ibig_dec (w_ibig_enc v ++ rest) = Some (v, rest).
Proof. exact w_ibig_roundtrip. Qed.
Print Assumptions C19_wire_ibig_roundtrip.

(** ---- rationals: rejected or canonical; round trip; the repaired defect stays refuted *)
Theorem C19_rbig_fields_canonical : forall n d v, 0 <= d -> rbig_of_fields true n d = Ok v -> rat_canon (fst v) (snd v).
Proof. exact rbig_of_fields_canonical. Qed.
Print Assumptions C19_rbig_fields_canonical.

Theorem C19_rbig_fields_value : forall n d v, 0 <= d -> rbig_of_fields true n d = Ok v -> fst v * d = n * snd v.
Proof. exact rbig_of_fields_value. Qed.
Print Assumptions C19_rbig_fields_value.

Theorem C19_relaxed_fields_ok : forall n d v, 0 <= d -> relaxed_of_fields true n d = Ok v -> 0 < snd v /\ fst v * d = n * snd v.
Proof. exact relaxed_of_fields_ok. Qed.
Print Assumptions C19_relaxed_fields_ok.

Theorem C19_wire_rbig_roundtrip : forall n d rest, rat_canon n d -> len (ibig_enc n) < 2 ^ 64 -> sbyte_len d < 2 ^ 64 ->
  w_rbig_dec true (w_rat_enc n d ++ rest) = Ok (n, d, rest).
Proof. exact w_rbig_roundtrip. Qed.
Print Assumptions C19_wire_rbig_roundtrip.

Theorem C19_zero_denominator_refuted :
  w_rbig_dec false [2; 2; 0; 0] = Ok (1, 0, []) /\ ~ rat_canon 1 0 /\
  w_relaxed_dec false [2; 2; 0; 0] = Panic Undocumented /\
  w_rbig_dec true [2; 2; 0; 0] = Err 2 /\ w_relaxed_dec true [2; 2; 0; 0] = Err 2.
Proof. exact rbig_zero_denominator_refuted. Qed.
Print Assumptions C19_zero_denominator_refuted.

(** ---- floats: rejected or canonical (normalised significand within the precision, the two
         infinities); round trip; the repaired defects stay refuted *)
Theorem C19_fbig_fields_canonical : forall B s e p v, 2 <= B -> 0 <= p ->
  fbig_of_fields true B s e p = Some v -> let '(s', e', p') := v in fbig_canon B s' e' p' /\ p' = p.
Proof. exact fbig_of_fields_canonical. Qed.
Print Assumptions C19_fbig_fields_canonical.

Theorem C19_normalize_keeps_value : forall B s e, 2 <= B -> s <> 0 ->
  let '(s', e') := fnormalize B s e in s' <> 0 /\ s' mod B <> 0 /\ s = s' * B ^ (e' - e) /\ e <= e'.
Proof. exact fnormalize_canon. Qed.
Print Assumptions C19_normalize_keeps_value.

Theorem C19_wire_fbig_roundtrip : forall B s e p rest,
  fbig_canon B s e p -> len (ibig_enc s) < 2 ^ 64 -> - 2 ^ 63 <= e < 2 ^ 63 -> 0 <= p < 2 ^ 64 ->
  w_fbig_dec true B (w_fbig_enc s e p ++ rest) = Some (s, e, p, rest).
Proof. exact w_fbig_roundtrip. Qed.
Print Assumptions C19_wire_fbig_roundtrip.

Theorem C19_infinity_roundtrip_refuted :
  w_fbig_dec false 2 (w_fbig_enc 0 1 0) = Some (0, 0, 0, []) /\
  w_fbig_dec true 2 (w_fbig_enc 0 1 0) = Some (0, 1, 0, []) /\
  w_fbig_dec true 2 (w_fbig_enc 0 (-1) 0) = Some (0, -1, 0, []) /\
  w_repr_dec false 10 (w_repr_enc 0 1) = Some (0, 0, []) /\ w_repr_dec true 10 (w_repr_enc 0 1) = Some (0, 1, []).
Proof. exact fbig_infinity_refuted. Qed.
Print Assumptions C19_infinity_roundtrip_refuted.

Theorem C19_precision_invariant_refuted :
  w_fbig_dec false 10 [2; 57; 48; 0; 2] = Some (12345, 0, 2, []) /\ ~ fbig_canon 10 12345 0 2 /\
  w_fbig_dec true 10 [2; 57; 48; 0; 2] = None /\ w_fbig_dec true 10 [2; 57; 48; 0; 5] = Some (12345, 0, 5, []).
Proof. exact fbig_precision_refuted. Qed.
Print Assumptions C19_precision_invariant_refuted.

(** ---- whole inputs: every byte string (bytes in 0..255) is rejected or decoded to a canonical value;
         the decoders neither panic nor run out of fuel *)
Theorem C19_rbig_every_bytes : forall input, wf 8 input ->
  match w_rbig_dec true input with
  | Ok (n, d, rest) => rat_canon n d /\ wf 8 rest
  | Err _ => True
  | Panic _ | OutOfFuel => False
  end.
Proof. exact w_rbig_dec_total. Qed.
Print Assumptions C19_rbig_every_bytes.

Theorem C19_relaxed_every_bytes : forall input, wf 8 input ->
  match w_relaxed_dec true input with
  | Ok (n, d, rest) => 0 < d /\ wf 8 rest
  | Err _ => True
  | Panic _ | OutOfFuel => False
  end.
Proof. exact w_relaxed_dec_total. Qed.
Print Assumptions C19_relaxed_every_bytes.

Theorem C19_fbig_every_bytes : forall B input, 2 <= B -> wf 8 input ->
  match w_fbig_dec true B input with
  | Some (s, e, p, rest) => fbig_canon B s e p /\ wf 8 rest
  | None => True
  end.
Proof. exact w_fbig_dec_total. Qed.
Print Assumptions C19_fbig_every_bytes.

(** ---- word-size independence of the integer kernels: corollaries of C01 / C09 theorems, which hold
         for an arbitrary word size and whose right-hand sides do not mention it *)
Theorem C19_multiply_word_size_independent : forall w1 w2, 8 <= w1 -> 8 <= w2 ->
  forall a1 b1 a2 b2, wf w1 a1 -> wf w1 b1 -> wf w2 a2 -> wf w2 b2 ->
  value w1 a1 = value w2 a2 -> value w1 b1 = value w2 b2 ->
  exists r1 r2,
    multiply w1 (Z.to_nat mul_threshold_simple) (Z.to_nat mul_threshold_karatsuba) (Z.to_nat mul_simple_chunk_len) a1 b1 = Ok r1 /\
    multiply w2 (Z.to_nat mul_threshold_simple) (Z.to_nat mul_threshold_karatsuba) (Z.to_nat mul_simple_chunk_len) a2 b2 = Ok r2 /\
    value w1 r1 = value w2 r2.
Proof. exact multiply_word_size_independent. Qed.
Print Assumptions C19_multiply_word_size_independent.

Theorem C19_add_in_place_word_size_independent : forall w1 w2, 0 < w1 -> 0 < w2 ->
  forall l1 r1 l2 r2, (length r1 <= length l1)%nat -> (length r2 <= length l2)%nat ->
  wf w1 l1 -> wf w1 r1 -> wf w2 l2 -> wf w2 r2 ->
  value w1 l1 = value w2 l2 -> value w1 r1 = value w2 r2 ->
  forall s1 c1 s2 c2, add_in_place w1 l1 r1 = (s1, c1) -> add_in_place w2 l2 r2 = (s2, c2) ->
  value w1 s1 + b2z c1 * B w1 ^ len l1 = value w2 s2 + b2z c2 * B w2 ^ len l2.
Proof. exact add_in_place_word_size_independent. Qed.
Print Assumptions C19_add_in_place_word_size_independent.

Theorem C19_trailing_zeros_word_size_independent : forall w1 w2, 0 < w1 -> 0 < w2 ->
  forall ws1 ws2, wf w1 ws1 -> wf w2 ws2 -> value w1 ws1 = value w2 ws2 -> value w1 ws1 <> 0 ->
  trailing_zeros_large w1 ws1 = trailing_zeros_large w2 ws2.
Proof. exact trailing_zeros_word_size_independent. Qed.
Print Assumptions C19_trailing_zeros_word_size_independent.

(** ---- the word-size-free specifications that judge every build *)
Theorem C19_euclid_spec : forall a b, b <> 0 -> let '(q, r) := cv_diveuc a b in a = q * b + r /\ 0 <= r < Z.abs b.
Proof. exact cv_diveuc_ok. Qed.
Print Assumptions C19_euclid_spec.

Theorem C19_trunc_spec : forall a b, b <> 0 ->
  let '(q, r) := cv_divrem a b in a = q * b + r /\ Z.abs r < Z.abs b /\ (r = 0 \/ Z.sgn r = Z.sgn a).
Proof. exact cv_divrem_ok. Qed.
Print Assumptions C19_trunc_spec.

Theorem C19_powmod_spec : forall m x e, 0 < m -> 0 <= e -> cv_powmod m x e = (x ^ e) mod m.
Proof. exact cv_powmod_spec. Qed.
Print Assumptions C19_powmod_spec.

Theorem C19_root_certificate_unique : forall x n r r', 0 < n -> cv_root_ok x n r = true -> cv_root_ok x n r' = true -> r = r'.
Proof. exact cv_root_ok_unique. Qed.
Print Assumptions C19_root_certificate_unique.

Theorem C19_ilog_certificate_unique : forall x b e e', 1 < b -> cv_ilog_ok x b e = true -> cv_ilog_ok x b e' = true -> e = e'.
Proof. exact cv_ilog_ok_unique. Qed.
Print Assumptions C19_ilog_certificate_unique.

(** ---- debug assertions: the assertion of into_f64_internal / into_f32_internal is NOT a theorem
         (open finding F06: debug builds panic, release builds round a second time); outside the
         class the debug and the release build agree *)
Theorem C19_to_f64_debug_assert_refuted :
  exists a, conv_div_route 53 MHalfEven 10 4899 (-7) = Ok a /\ handed_bits a = 54 /\
            into_ieee_asis true 53 a = Panic Undocumented /\ into_ieee_asis false 53 a = Ok a.
Proof. exact to_f64_debug_assert_refuted. Qed.
Print Assumptions C19_to_f64_debug_assert_refuted.

Theorem C19_to_f32_debug_assert_refuted :
  exists a, conv_div_route 24 MZero 10 12 (-1) = Ok a /\ handed_bits a = 25 /\
            into_ieee_asis true 24 a = Panic Undocumented /\ into_ieee_asis false 24 a = Ok a.
Proof. exact to_f32_debug_assert_refuted. Qed.
Print Assumptions C19_to_f32_debug_assert_refuted.

Theorem C19_debug_release_agree_outside_class : forall p a, wide p a = false -> into_ieee_asis true p a = into_ieee_asis false p a.
Proof. exact into_ieee_debug_release_agree. Qed.
Print Assumptions C19_debug_release_agree_outside_class.
