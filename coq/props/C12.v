(** C12 - placeholder while the development is being built *)
From Dashu Require Import Base.Prelude Int.GrlSpec.
Open Scope Z_scope.
