(** C12 - gcd, integer roots and integer logarithms satisfy their defining inequalities;
    log2_bounds encloses; remove() strips the full power.
    ONLY statements pinned here; proofs live in Dashu.Int.Grl*. *)
From Dashu Require Import Base.Prelude Int.GrlSpec Int.GrlModel Int.GrlSpecProof Int.GrlRootProof
  Int.GrlLogProof Int.GrlRemoveProof Int.GrlSqrtProof Int.GrlGcdProof Int.GrlLog2Tab Int.GrlLog2TabProof Int.GrlLog2Real.
From Coq Require Import Znumtheory.
Open Scope Z_scope.

(** * certificates are complete: a checked answer IS the gcd / root / logarithm / full power *)
Theorem C12_gcd_ext_cert_complete : forall a b g s t,
  gcd_ext_cert a b g s t = true -> g = Z.gcd a b /\ s * a + t * b = g.
Proof. exact gcd_ext_cert_complete. Qed.
Print Assumptions C12_gcd_ext_cert_complete.

Theorem C12_gcd_spec_ok : forall a b g, gcd_spec a b = Ok g ->
  0 <= g /\ (g | a) /\ (g | b) /\ (forall d, (d | a) -> (d | b) -> (d | g)).
Proof. exact gcd_spec_ok. Qed.
Print Assumptions C12_gcd_spec_ok.

Theorem C12_gcd_spec_panic : forall a b, (exists r, gcd_spec a b = Panic r) <-> a = 0 /\ b = 0.
Proof. exact gcd_spec_panic. Qed.
Print Assumptions C12_gcd_spec_panic.

Theorem C12_root_cert_meaning : forall n x r, root_cert n x r = true -> 0 <= r /\ r ^ n <= x < (r + 1) ^ n.
Proof. exact root_cert_meaning. Qed.
Print Assumptions C12_root_cert_meaning.

Theorem C12_root_cert_unique : forall n x r r', 0 < n ->
  root_cert n x r = true -> root_cert n x r' = true -> r = r'.
Proof. exact root_cert_unique. Qed.
Print Assumptions C12_root_cert_unique.

Theorem C12_root_cert_sqrt : forall x r, root_cert 2 x r = true -> r = Z.sqrt x.
Proof. exact root_cert_sqrt. Qed.
Print Assumptions C12_root_cert_sqrt.

Theorem C12_sqrt_rem_spec_ok : forall x, 0 <= x ->
  let '(s, r) := sqrt_rem_spec x in 0 <= s /\ s * s + r = x /\ 0 <= r <= 2 * s.
Proof. exact sqrt_rem_spec_ok. Qed.
Print Assumptions C12_sqrt_rem_spec_ok.

Theorem C12_root_rem_cert_meaning : forall n x r e, root_rem_cert n x r e = true ->
  0 <= r /\ r ^ n <= x < (r + 1) ^ n /\ e = x - r ^ n /\ 0 <= e.
Proof. exact root_rem_cert_meaning. Qed.
Print Assumptions C12_root_rem_cert_meaning.

Theorem C12_iroot_cert_meaning : forall n x r, iroot_cert n x r = true ->
  Z.abs r ^ n <= Z.abs x < (Z.abs r + 1) ^ n /\ 0 <= r * x.
Proof. exact iroot_cert_meaning. Qed.
Print Assumptions C12_iroot_cert_meaning.

Theorem C12_iroot_cert_unique : forall n x r r', 0 < n ->
  iroot_cert n x r = true -> iroot_cert n x r' = true -> r = r'.
Proof. exact iroot_cert_unique. Qed.
Print Assumptions C12_iroot_cert_unique.

Theorem C12_root_panic_documented : forall n x r, root_panic n x = Some r ->
  (r = RootZeroth /\ n = 0) \/ (r = RootNegative /\ x < 0 /\ Z.even n = true).
Proof. exact root_panic_documented. Qed.
Print Assumptions C12_root_panic_documented.

Theorem C12_ilog_cert_meaning : forall x b e, ilog_cert x b e = true -> 0 <= e /\ b ^ e <= Z.abs x < b ^ (e + 1).
Proof. exact ilog_cert_meaning. Qed.
Print Assumptions C12_ilog_cert_meaning.

Theorem C12_ilog_cert_unique : forall x b e e', 2 <= b ->
  ilog_cert x b e = true -> ilog_cert x b e' = true -> e = e'.
Proof. exact ilog_cert_unique. Qed.
Print Assumptions C12_ilog_cert_unique.

Theorem C12_remove_cert_meaning : forall x f e rest, remove_cert x f e rest = true ->
  0 <= e /\ rest * f ^ e = x /\ rest mod f <> 0.
Proof. exact remove_cert_meaning. Qed.
Print Assumptions C12_remove_cert_meaning.

Theorem C12_remove_cert_unique : forall x f e rest e' rest', 2 <= f -> x <> 0 ->
  remove_cert x f e rest = true -> remove_cert x f e' rest' = true -> e = e' /\ rest = rest'.
Proof. exact remove_cert_unique. Qed.
Print Assumptions C12_remove_cert_unique.

Theorem C12_remove_spec_ok : forall x f e rest, 0 <= x -> remove_spec x f = Some (e, rest) ->
  remove_cert x f e rest = true.
Proof. exact remove_spec_ok. Qed.
Print Assumptions C12_remove_spec_ok.

Theorem C12_remove_none_documented : forall x f, 0 <= x -> 0 <= f ->
  (remove_spec x f = None <-> x = 0 \/ f = 0 \/ f = 1).
Proof. exact remove_none_documented. Qed.
Print Assumptions C12_remove_none_documented.

(** * the bracket decision used to judge log2_bounds answers is sound *)
Theorem C12_log2_lb_dec_sound : forall prec m k p q b, 0 <= p -> 0 <= q ->
  log2_lb_dec prec m k p q = Some b -> (if b then log2_lb_holds m k p q else ~ log2_lb_holds m k p q).
Proof. exact log2_lb_dec_sound. Qed.
Print Assumptions C12_log2_lb_dec_sound.

Theorem C12_log2_lb_exact_spec : forall m k p q, log2_lb_exact m k p q = true <-> log2_lb_holds m k p q.
Proof. exact log2_lb_exact_spec. Qed.
Print Assumptions C12_log2_lb_exact_spec.

(** * as-is model of UBig::nth_root / IBig::nth_root / IBig::cbrt (Newton, first up then down) *)
Theorem C12_newton_root_correct : forall x n, 0 < x -> 2 <= n -> forall fuel r,
  newton_root fuel x n = Ok r -> 0 < r /\ r ^ n <= x < (r + 1) ^ n.
Proof. exact newton_root_correct. Qed.
Print Assumptions C12_newton_root_correct.

Theorem C12_newton_root_from_correct : forall x n, 0 < x -> 2 <= n -> forall fuel g0 r, 0 < g0 ->
  newton_root_from fuel x n g0 = Ok r -> 0 < r /\ r ^ n <= x < (r + 1) ^ n.
Proof. exact newton_root_from_correct. Qed.
Print Assumptions C12_newton_root_from_correct.

(** fuel 2^ceil(bits/n) + 1 (about twice the root) is enough; the climbing loop never runs (repair F08) *)
Theorem C12_newton_root_terminates : forall x n, 0 < x -> 2 <= n -> forall fuel,
  newton_g0 x n < Z.of_nat fuel -> exists r, newton_root fuel x n = Ok r.
Proof. exact newton_root_terminates. Qed.
Print Assumptions C12_newton_root_terminates.

Theorem C12_newton_root_no_overshoot : forall x n, 0 < x -> 2 <= n -> forall k,
  newton_up (S k) x n (newton_g0 x n) (newton_next x n (newton_g0 x n)) =
    Ok (newton_g0 x n, newton_next x n (newton_g0 x n)) /\
  newton_next x n (newton_g0 x n) < newton_g0 x n.
Proof. exact newton_root_no_overshoot. Qed.
Print Assumptions C12_newton_root_no_overshoot.

(** repaired defect F08 (performance) stays refuted: the pre-repair first guess needs > 300 steps for 7^33 *)
Theorem C12_newton_root_prefix_slow_refuted :
  newton_root_prefix 300 (7 ^ 33) 33 = OutOfFuel /\ newton_root 10 (7 ^ 33) 33 = Ok 7.
Proof. exact newton_root_prefix_slow_refuted. Qed.
Print Assumptions C12_newton_root_prefix_slow_refuted.

Theorem C12_nth_root_asis_correct : forall fuel x n r, 0 <= x -> 0 < n ->
  nth_root_asis fuel x n = Ok r -> root_cert n x r = true.
Proof. exact nth_root_asis_correct. Qed.
Print Assumptions C12_nth_root_asis_correct.

Theorem C12_nth_root_asis_panics : forall fuel x n r, nth_root_asis fuel x n = Panic r -> r = RootZeroth /\ n = 0.
Proof. exact nth_root_asis_panics. Qed.
Print Assumptions C12_nth_root_asis_panics.

Theorem C12_inth_root_asis_correct : forall fuel x n r, 0 <= n ->
  inth_root_asis fuel x n = Ok r -> iroot_cert n x r = true.
Proof. exact inth_root_asis_correct. Qed.
Print Assumptions C12_inth_root_asis_correct.

Theorem C12_inth_root_asis_panics : forall fuel x n r, inth_root_asis fuel x n = Panic r -> root_panic n x = Some r.
Proof. exact inth_root_asis_panics. Qed.
Print Assumptions C12_inth_root_asis_panics.

Theorem C12_icbrt_asis_eq : forall fuel x, icbrt_asis fuel x = inth_root_asis fuel x 3.
Proof. exact icbrt_asis_eq. Qed.
Print Assumptions C12_icbrt_asis_eq.

(** repaired defects F01 / F02 stay refuted *)
Theorem C12_nth_root_prefix_refuted : exists fuel x n r, nth_root_prefix fuel x n = Ok r /\ root_cert n x r = false.
Proof. exact nth_root_prefix_refuted. Qed.
Print Assumptions C12_nth_root_prefix_refuted.

Theorem C12_icbrt_prefix_refuted : exists fuel x, icbrt_prefix fuel x = Panic RootNegative /\ root_panic 3 x = None.
Proof. exact icbrt_prefix_refuted. Qed.
Print Assumptions C12_icbrt_prefix_refuted.

(** * sqrt_rem_large: pre-shift / post-shift around the kernel (any even word size) *)
Theorem C12_sqrt_rem_post_correct : forall w, 2 <= w -> forall n x h s' r', 0 <= x -> 0 <= n ->
  0 <= h <= w - 1 -> 0 <= s' < (2 ^ w) ^ n ->
  s' * s' + r' = x * 2 ^ (2 * h) -> 0 <= r' <= 2 * s' ->
  sqrt_rem_post w n (2 * h) s' r' = sqrt_rem_spec x.
Proof. exact sqrt_rem_post_correct. Qed.
Print Assumptions C12_sqrt_rem_post_correct.

Theorem C12_sqrt_shift_bounds : forall w len lz, 0 <= lz <= w - 1 -> w mod 2 = 0 -> 2 <= w ->
  exists h, sqrt_shift w len lz = 2 * h /\ 0 <= h <= w - 1.
Proof. exact sqrt_shift_bounds. Qed.
Print Assumptions C12_sqrt_shift_bounds.

(** repaired defect F03 stays refuted (shift > WORD_BITS instead of >=) *)
Theorem C12_sqrt_rem_large_prefix_refuted :
  sqrt_rem_large_gen false 64 (2 ^ 191 + 12345) <> sqrt_rem_spec (2 ^ 191 + 12345) /\
  sqrt_rem_large_gen true 64 (2 ^ 191 + 12345) = sqrt_rem_spec (2 ^ 191 + 12345).
Proof. exact sqrt_rem_large_prefix_refuted. Qed.
Print Assumptions C12_sqrt_rem_large_prefix_refuted.

(** * the three estimate-then-correct logarithm loops of integer/src/log.rs, for ANY estimate *)
Theorem C12_log_large_asis_correct : forall target base, 2 <= base -> 1 <= target -> forall fuel est0 e p,
  log_large_asis fuel est0 target base = Ok (e, p) -> ilog_cert target base e = true /\ p = base ^ e.
Proof. exact log_large_asis_correct. Qed.
Print Assumptions C12_log_large_asis_correct.

Theorem C12_log_large_loop_terminates : forall target base, 2 <= base -> 1 <= target -> forall fuel est est_pow,
  1 <= est_pow -> Z.max 0 (target - est_pow) < Z.of_nat fuel ->
  exists r, log_large_loop fuel target base est est_pow = Ok r.
Proof. exact log_large_loop_terminates. Qed.
Print Assumptions C12_log_large_loop_terminates.

Theorem C12_log_dword_asis_correct : forall target base, 2 <= base -> 1 <= target -> forall fuel D est e p,
  target < D -> 0 <= est ->
  log_dword_asis fuel D est target base = Ok (e, p) -> ilog_cert target base e = true /\ p = base ^ e.
Proof. exact log_dword_asis_correct. Qed.
Print Assumptions C12_log_dword_asis_correct.

Theorem C12_log_word_base_asis_correct : forall target base, 2 <= base -> 1 <= target ->
  forall w, 0 < w -> forall wbase wexp, 0 <= wexp -> wbase = base ^ wexp -> wbase < 2 ^ w ->
  forall fuel est e p, 2 <= wlen w target -> 0 <= est ->
  log_word_base_asis fuel w est wexp target base = Ok (e, p) -> ilog_cert target base e = true /\ p = base ^ e.
Proof. exact log_word_base_asis_correct. Qed.
Print Assumptions C12_log_word_base_asis_correct.

Theorem C12_ilog_shortcuts_correct : forall x b r, 0 <= x -> ilog_shortcuts x b = Some r ->
  match r with
  | Ok e => ilog_cert x b e = true
  | Panic LogOperand => ilog_panic x b = true
  | _ => False
  end.
Proof. exact ilog_shortcuts_correct. Qed.
Print Assumptions C12_ilog_shortcuts_correct.

(** * UBig::remove: power-of-two shortcut and square-and-divide *)
Theorem C12_remove_asis_correct : forall fuel x f e rest, 0 <= x -> 0 <= f ->
  remove_asis fuel x f = Ok (Some (e, rest)) -> remove_cert x f e rest = true.
Proof. exact remove_asis_correct. Qed.
Print Assumptions C12_remove_asis_correct.

Theorem C12_remove_asis_none : forall fuel x f, 0 <= x -> 0 <= f ->
  (remove_asis fuel x f = Ok None <-> x = 0 \/ f = 0 \/ f = 1).
Proof. exact remove_asis_none. Qed.
Print Assumptions C12_remove_asis_none.

Theorem C12_remove_asis_terminates : forall fuel x f, 0 < x -> 2 <= f -> x < Z.of_nat fuel ->
  remove_asis fuel x f <> OutOfFuel.
Proof. exact remove_asis_terminates. Qed.
Print Assumptions C12_remove_asis_terminates.

(** * primitive gcd / gcd_ext of base/src/ring/gcd.rs (every type width: [bits] only selects a branch) *)
Theorem C12_binary_gcd_correct : forall fuel a b g, 0 < a -> 0 < b -> Z.odd a = true -> Z.odd b = true ->
  binary_gcd fuel a b = Ok g -> g = Z.gcd a b.
Proof. exact binary_gcd_correct. Qed.
Print Assumptions C12_binary_gcd_correct.

Theorem C12_prim_gcd_asis_correct : forall fuel bits a b g, 0 <= a -> 0 <= b ->
  prim_gcd_asis fuel bits a b = Ok g -> gcd_spec a b = Ok g.
Proof. exact prim_gcd_asis_correct. Qed.
Print Assumptions C12_prim_gcd_asis_correct.

Theorem C12_prim_gcd_asis_panics : forall fuel bits a b r,
  prim_gcd_asis fuel bits a b = Panic r -> gcd_spec a b = Panic r.
Proof. exact prim_gcd_asis_panics. Qed.
Print Assumptions C12_prim_gcd_asis_panics.

Theorem C12_prim_gcd_asis_terminates : forall fuel bits a b, 0 <= a -> 0 <= b -> a + b <= Z.of_nat fuel ->
  prim_gcd_asis fuel bits a b <> OutOfFuel.
Proof. exact prim_gcd_asis_terminates. Qed.
Print Assumptions C12_prim_gcd_asis_terminates.

Theorem C12_euclid_ext_correct : forall fuel a b last_r r last_s s last_t t g cs ct,
  0 < r -> 0 <= last_r ->
  last_r = a * last_s + b * last_t -> r = a * s + b * t -> Z.gcd last_r r = Z.gcd a b ->
  euclid_ext fuel last_r r last_s s last_t t = Ok (g, cs, ct) ->
  g = Z.gcd a b /\ cs * a + ct * b = g.
Proof. exact euclid_ext_correct. Qed.
Print Assumptions C12_euclid_ext_correct.

Theorem C12_euclid_ext_terminates : forall fuel last_r r last_s s last_t t, 0 < r -> r < Z.of_nat fuel ->
  exists res, euclid_ext fuel last_r r last_s s last_t t = Ok res.
Proof. exact euclid_ext_terminates. Qed.
Print Assumptions C12_euclid_ext_terminates.

Theorem C12_prim_gcd_ext_asis_correct : forall fuel a b g s t, 0 <= a -> 0 <= b ->
  prim_gcd_ext_asis fuel a b = Ok (g, s, t) -> gcd_ext_cert a b g s t = true.
Proof. exact prim_gcd_ext_asis_correct. Qed.
Print Assumptions C12_prim_gcd_ext_asis_correct.

Theorem C12_prim_gcd_ext_asis_panics : forall fuel a b r,
  prim_gcd_ext_asis fuel a b = Panic r -> gcd_spec a b = Panic r.
Proof. exact prim_gcd_ext_asis_panics. Qed.
Print Assumptions C12_prim_gcd_ext_asis_panics.

(** * the no_std log2 table estimator: finite domain, EVERY u8 / u16 value 0..65535 (by computation) *)
Theorem C12_nostd_log2_u16_encloses : forall n, 0 <= n <= 65535 ->
  match nostd_log2_u16 n with
  | None => n = 0
  | Some ((lm, lk), (um, uk)) => log2_lb_holds lm lk n 1 /\ log2_ub_holds um uk n 1
  end.
Proof. exact nostd_log2_u16_encloses. Qed.
Print Assumptions C12_nostd_log2_u16_encloses.

Theorem C12_nostd_gap_small : forall n, 256 <= n <= 65535 -> pow2b n = false -> 0 <= nostd_gap n <= 4.
Proof. exact nostd_gap_small. Qed.
Print Assumptions C12_nostd_gap_small.

(** * what the integer enclosure statements mean over the reals (log2R x = ln x / ln 2) *)
From Coq Require Import Reals.
Theorem C12_log2_holds_real : forall m k p q, (0 < p)%Z -> (0 < q)%Z ->
  (log2_lb_holds m k p q <-> (IZR m / 2 ^ k <= log2R (IZR p / IZR q))%R) /\
  (log2_ub_holds m k p q <-> (log2R (IZR p / IZR q) <= IZR m / 2 ^ k)%R).
Proof. intros m k p q Hp Hq. split; [exact (log2_lb_holds_real m k p q Hp Hq) | exact (log2_ub_holds_real m k p q Hp Hq)]. Qed.
Print Assumptions C12_log2_holds_real.

(** * the estimator table is re-read from base/src/math/log.rs on every run *)
From Dashu Require Import Int.GrlLog2TabGen.
From DashuGen Require Import Log2Tab.
Theorem C12_log2_tab_is_source : LOG2_TAB = LOG2_TAB_gen.
Proof. exact log2_tab_is_source. Qed.
Print Assumptions C12_log2_tab_is_source.

(** * the Karatsuba square root kernel (integer/src/root.rs), as-is on Z-with-lengths: every length, every word size *)
From Dashu Require Import Int.GrlKsqrt Int.GrlKsqrtProof.
(** a has 2n words and is normalised (top two bits not both zero); fuel n suffices; the answer is
    (isqrt, low n words of the remainder, carry of the remainder) *)
Theorem C12_ksqrt_correct : forall w, 2 <= w -> forall fuel n A, 2 <= n -> (Z.to_nat n <= fuel)%nat ->
  (2 ^ w) ^ (2 * n) <= 4 * A -> A < (2 ^ w) ^ (2 * n) ->
  ksqrt w fuel n A = Ok (Z.sqrt A, (A - Z.sqrt A * Z.sqrt A) mod (2 ^ w) ^ n, (2 ^ w) ^ n <=? A - Z.sqrt A * Z.sqrt A).
Proof. exact ksqrt_correct. Qed.
Print Assumptions C12_ksqrt_correct.

(** the four-word base case sqrt_rem_42 *)
Theorem C12_sqrt_rem_42_correct : forall w, 2 <= w -> forall A, (2 ^ w) ^ 4 <= 4 * A -> A < (2 ^ w) ^ 4 ->
  exists S R, sqrt_rem_42 w A = Ok (S, R mod (2 ^ w) ^ 2, (2 ^ w) ^ 2 <=? R)
    /\ A = S * S + R /\ 0 <= R <= 2 * S /\ 0 <= S.
Proof. exact sqrt_rem_42_correct. Qed.
Print Assumptions C12_sqrt_rem_42_correct.

(** one level of the recursion (division by s1, q == B overflow, odd quotient fix, correction s -= 1)
    for abstract slice sizes: Zimmermann's invariant A = S^2 + R, 0 <= R <= 2S is re-established *)
Theorem C12_kstep_abs_correct : forall L2 L H2 Hh M LL (oddn : bool) A s1 r1,
  0 < L2 -> L = 2 * L2 -> Hh = 2 * H2 -> L <= Hh -> M = Hh * L -> LL = L * L ->
  (if oddn then 2 * LL <= M else LL = M) ->
  0 <= A ->
  A / LL = s1 * s1 + r1 -> 0 <= r1 <= 2 * s1 -> H2 <= s1 < Hh ->
  exists S R, kstep_abs L Hh M LL L2 oddn A (s1, r1 mod Hh, Hh <=? r1) = Ok (S, R mod M, M <=? R)
    /\ A = S * S + R /\ 0 <= R <= 2 * S /\ 0 <= S.
Proof. exact kstep_abs_correct. Qed.
Print Assumptions C12_kstep_abs_correct.

(** sqrt_rem_large of root_ops.rs with the kernel inside: every integer of three or more words, every even word size *)
Theorem C12_sqrt_rem_large_asis_correct : forall w, 2 <= w -> w mod 2 = 0 -> forall x, (2 ^ w) ^ 2 <= x ->
  sqrt_rem_large_asis w x = Ok (sqrt_rem_spec x).
Proof. exact sqrt_rem_large_asis_correct. Qed.
Print Assumptions C12_sqrt_rem_large_asis_correct.

(** * Lehmer gcd / extended gcd (integer/src/gcd/lehmer.rs, gcd_ops.rs gcd_large / gcd_ext_large), value-level as-is model *)
From Dashu Require Import Int.GrlLehmer Int.GrlLehmerProof.
(** lehmer_guess / lehmer_guess_dword: the cosequence matrix stays unimodular with entries in [0, COEFF_LIMIT] *)
Theorem C12_lehmer_guess_loop_inv : forall fuel B L a b c d xb yb a' b' c' d',
  0 <= xb -> 0 <= yb -> ginv L a b c d ->
  lehmer_guess_loop fuel B L a b c d xb yb = Ok (a', b', c', d') ->
  0 <= a' <= L /\ 0 <= b' <= L /\ 0 <= c' <= L /\ 0 <= d' <= L /\ a' * d' - b' * c' = 1.
Proof. exact guess_loop_inv. Qed.
Print Assumptions C12_lehmer_guess_loop_inv.

(** the guess loop ends within w + 1 iterations (b + d at least doubles and stays below 2^w) *)
Theorem C12_lehmer_guess_total : forall mdl w x y, 2 <= w -> 0 <= y -> lehmer_guess_for mdl w x y <> OutOfFuel.
Proof. exact lehmer_guess_for_total. Qed.
Print Assumptions C12_lehmer_guess_total.

Theorem C12_gcd_unimodular : forall a b c d x y, a * d - b * c = 1 ->
  Z.gcd (a * x - b * y) (d * y - c * x) = Z.gcd x y.
Proof. exact gcd_unimodular. Qed.
Print Assumptions C12_gcd_unimodular.

(** gcd_in_place: every iteration (Lehmer step or Euclidean fallback, with or without the ordering swap) keeps the gcd *)
Theorem C12_lehmer_loop_inv : forall fuel mdl w ml x y sw x' y' sw', 2 <= w -> 0 <= ml -> 0 <= x -> 0 <= y ->
  lehmer_loop fuel mdl w ml x y sw = Ok (x', y', sw') ->
  Z.gcd x' y' = Z.gcd x y /\ 0 <= x' /\ 0 <= y'.
Proof. exact lehmer_loop_inv. Qed.
Print Assumptions C12_lehmer_loop_inv.

Theorem C12_lehmer_loop_total : forall fuel mdl w ml x y sw, 2 <= w -> 0 <= ml -> 0 <= y <= x ->
  x + y < Z.of_nat fuel -> lehmer_loop fuel mdl w ml x y sw <> OutOfFuel.
Proof. exact lehmer_loop_total. Qed.
Print Assumptions C12_lehmer_loop_total.

(** gcd_ext_in_place: the Bezout congruences x = sg*t0*rhs, y = -sg*t1*rhs (mod lhs), sg = +1 iff swapped *)
Theorem C12_lehmer_ext_loop_inv : forall fuel mdl w cap lhs rhs x y t0 t1 sw x' y' t0' t1' sw', 2 <= w ->
  einv lhs rhs x y t0 t1 sw ->
  lehmer_ext_loop fuel mdl w cap x y t0 t1 sw = Ok (x', y', t0', t1', sw') ->
  0 <= x' /\ 0 <= y' /\ Z.gcd x' y' = Z.gcd lhs rhs /\
  (lhs | x' - sg sw' * t0' * rhs) /\ (lhs | y' + sg sw' * t1' * rhs).
Proof. exact lehmer_ext_loop_inv. Qed.
Print Assumptions C12_lehmer_ext_loop_inv.

Theorem C12_lehmer_ext_loop_total : forall fuel mdl w cap x y t0 t1 sw, 2 <= w -> 0 <= y <= x ->
  x + y < Z.of_nat fuel -> lehmer_ext_loop fuel mdl w cap x y t0 t1 sw <> OutOfFuel.
Proof. exact lehmer_ext_loop_total. Qed.
Print Assumptions C12_lehmer_ext_loop_total.

(** the sign line [swapped ^= (cx < 0) || (cx == 0 && cy > 0)] relies on this *)
Theorem C12_prim_gcd_ext_signs : forall fuel a b g s t, 0 <= a -> 0 <= b ->
  prim_gcd_ext_asis fuel a b = Ok (g, s, t) -> s * t <= 0.
Proof. exact prim_gcd_ext_signs. Qed.
Print Assumptions C12_prim_gcd_ext_signs.

Theorem C12_gcd_ext_in_place_correct : forall lf pf mdl w lhs rhs g bm bs, 2 <= w -> 0 <= rhs ->
  gcd_ext_in_place_gen true lf pf mdl w lhs rhs = Ok (g, bm, bs) ->
  g = Z.gcd lhs rhs /\ (lhs | g - signed bs bm * rhs).
Proof. exact gcd_ext_in_place_gen_correct. Qed.
Print Assumptions C12_gcd_ext_in_place_correct.

(** gcd_large / gcd_ext_large as run by the oracle: any fuel, any word size *)
Theorem C12_lehmer_gcd_asis_correct : forall fuel w x y g, 2 <= w -> 0 <= x -> 0 <= y ->
  lehmer_gcd_asis fuel w x y = Ok g -> g = Z.gcd x y.
Proof. exact lehmer_gcd_asis_correct. Qed.
Print Assumptions C12_lehmer_gcd_asis_correct.

Theorem C12_lehmer_gcd_ext_asis_correct : forall fuel w x y g s t, 2 <= w -> 0 <= x -> 0 <= y ->
  lehmer_gcd_ext_asis fuel w x y = Ok (g, s, t) -> gcd_ext_cert x y g s t = true.
Proof. exact lehmer_gcd_ext_asis_correct. Qed.
Print Assumptions C12_lehmer_gcd_ext_asis_correct.

(** * primitive square / cube roots (base/src/ring/root.rs NormalizedRootRem, fix_sqrt_error / fix_cbrt_error, wrappers) *)
From Dashu Require Import Int.GrlPrimRoot Int.GrlPrimRootProof.
From DashuGen Require Import RootTabs.
(** RSQRT_TAB, RCBRT_TAB, the four guard constants and MIN_DWORD_GUESS_LEN are re-read from the sources on every run *)
Theorem C12_root_tabs_are_source :
  RSQRT_TAB = RSQRT_TAB_gen /\ RCBRT_TAB = RCBRT_TAB_gen /\ ROOT_GUARDS = ROOT_GUARDS_gen /\
  MIN_DWORD_GUESS_LEN = MIN_DWORD_GUESS_LEN_gen.
Proof. exact root_tabs_are_source. Qed.
Print Assumptions C12_root_tabs_are_source.

(** the correction loops: from any underestimate to the exact root, every n *)
Theorem C12_fix_sqrt_correct : forall fuel HB n s s' e', 0 <= s ->
  fix_sqrt fuel HB n s = Ok (s', e') -> s' = Z.sqrt n /\ e' = n - s' * s'.
Proof. exact fix_sqrt_correct. Qed.
Print Assumptions C12_fix_sqrt_correct.

Theorem C12_fix_sqrt_total : forall fuel HB n s, 0 <= s -> s * s <= n -> Z.sqrt n < HB ->
  Z.sqrt n - s < Z.of_nat fuel -> exists r, fix_sqrt fuel HB n s = Ok r.
Proof. exact fix_sqrt_total. Qed.
Print Assumptions C12_fix_sqrt_total.

Theorem C12_fix_cbrt_correct : forall fuel HB n c c' e', 0 <= c ->
  fix_cbrt fuel HB n c = Ok (c', e') -> (0 <= c' /\ c' ^ 3 <= n < (c' + 1) ^ 3) /\ e' = n - c' ^ 3.
Proof. exact fix_cbrt_correct. Qed.
Print Assumptions C12_fix_cbrt_correct.

Theorem C12_fix_cbrt_total : forall fuel HB n c r0, 0 <= c -> c ^ 3 <= n -> (0 <= r0 /\ r0 ^ 3 <= n < (r0 + 1) ^ 3) -> r0 < HB ->
  r0 - c < Z.of_nat fuel -> exists r, fix_cbrt fuel HB n c = Ok r.
Proof. exact fix_cbrt_total. Qed.
Print Assumptions C12_fix_cbrt_total.

(** u8 .. u64 (table + Newton + correction + normalising wrapper): an answer is the exact root and remainder, all inputs *)
Theorem C12_prim_sqrt_rem_asis_sound : forall fuel bits n r, (bits = 8 \/ bits = 16 \/ bits = 32 \/ bits = 64) ->
  0 <= n < 2 ^ bits -> prim_sqrt_rem_asis fuel bits n = Ok r -> r = sqrt_rem_spec n.
Proof. exact prim_sqrt_rem_asis_sound. Qed.
Print Assumptions C12_prim_sqrt_rem_asis_sound.

Theorem C12_prim_cbrt_rem_asis_sound : forall fuel bits n c e, (bits = 8 \/ bits = 16 \/ bits = 32 \/ bits = 64) ->
  0 <= n < 2 ^ bits -> prim_cbrt_rem_asis fuel bits n = Ok (c, e) ->
  (0 <= c /\ c ^ 3 <= n < (c + 1) ^ 3) /\ e = n - c ^ 3.
Proof. exact prim_cbrt_rem_asis_sound. Qed.
Print Assumptions C12_prim_cbrt_rem_asis_sound.

(** u128 square root: one Karatsuba step (KBITS = 32) over the u64 routine, wrapping arithmetic included *)
Theorem C12_nsqrt128_sound : forall fuel A S R, A < 2 ^ 128 -> nsqrt128 fuel A = Ok (S, R) -> S = Z.sqrt A /\ R = A - S * S.
Proof. exact nsqrt128_sound. Qed.
Print Assumptions C12_nsqrt128_sound.

Theorem C12_prim_sqrt_rem_asis_sound_all : forall fuel bits n r,
  (bits = 8 \/ bits = 16 \/ bits = 32 \/ bits = 64 \/ bits = 128) ->
  0 <= n < 2 ^ bits -> prim_sqrt_rem_asis fuel bits n = Ok r -> r = sqrt_rem_spec n.
Proof. exact prim_sqrt_rem_asis_sound_all. Qed.
Print Assumptions C12_prim_sqrt_rem_asis_sound_all.

(** finite domains, by computation: EVERY u16 value 0..65535 with at most 3 corrections, EVERY u8 value 0..255 *)
Theorem C12_prim_sqrt_rem_u16_total : forall n, 0 <= n <= 65535 -> prim_sqrt_rem_asis 4 16 n = Ok (sqrt_rem_spec n).
Proof. exact prim_sqrt_rem_u16_total. Qed.
Print Assumptions C12_prim_sqrt_rem_u16_total.

Theorem C12_prim_cbrt_rem_u16_total : forall n, 0 <= n <= 65535 ->
  exists c, prim_cbrt_rem_asis 4 16 n = Ok (c, n - c ^ 3) /\ (0 <= c /\ c ^ 3 <= n < (c + 1) ^ 3).
Proof. exact prim_cbrt_rem_u16_total. Qed.
Print Assumptions C12_prim_cbrt_rem_u16_total.

Theorem C12_prim_sqrt_rem_u8_total : forall n, 0 <= n <= 255 -> prim_sqrt_rem_asis 17 8 n = Ok (sqrt_rem_spec n).
Proof. exact prim_sqrt_rem_u8_total. Qed.
Print Assumptions C12_prim_sqrt_rem_u8_total.

Theorem C12_prim_cbrt_rem_u8_total : forall n, 0 <= n <= 255 ->
  exists c, prim_cbrt_rem_asis 8 8 n = Ok (c, n - c ^ 3) /\ (0 <= c /\ c ^ 3 <= n < (c + 1) ^ 3).
Proof. exact prim_cbrt_rem_u8_total. Qed.
Print Assumptions C12_prim_cbrt_rem_u8_total.

(** * the no_std log2 estimator of the unsigned types wider than u16 (base/src/math/log.rs, impl_log2_bounds_for_uint
      under cfg(not(feature = "std"))), with next_down / next_up on the f32 bit patterns *)
From Dashu Require Import Int.GrlLog2Wide Int.GrlLog2WideProof.
Theorem C12_nostd_log2_wide_encloses : forall n, 0 <= n < 2 ^ 128 ->
  match nostd_log2_wide n with
  | None => n = 0
  | Some ((lm, lk), (um, uk)) => log2_lb_holds lm lk n 1 /\ log2_ub_holds um uk n 1
  end.
Proof. exact nostd_log2_wide_encloses. Qed.
Print Assumptions C12_nostd_log2_wide_encloses.

(** any width up to 65000 bits (the shift stays exact in f32) *)
Theorem C12_nostd_log2_wide_encloses_gen : forall n, 0 <= n -> Z.log2 n < 65000 ->
  match nostd_log2_wide n with
  | None => n = 0
  | Some ((lm, lk), (um, uk)) => log2_lb_holds lm lk n 1 /\ log2_ub_holds um uk n 1
  end.
Proof. exact nostd_log2_wide_encloses_gen. Qed.
Print Assumptions C12_nostd_log2_wide_encloses_gen.

Theorem C12_nostd_log2_wide_u16 : forall n, 0 <= n <= 65535 -> nostd_log2_wide n = nostd_log2_u16 n.
Proof. exact nostd_log2_wide_u16. Qed.
Print Assumptions C12_nostd_log2_wide_u16.

(** the bit-pattern functions of the source (next_down / next_up) produce the patterns of the model's values *)
Theorem C12_nostd_wide_bits_decode : forall n, 2 ^ 16 <= n -> Z.log2 n < 65000 ->
  let lo := nf_next_down (nf_of_fp8 (nostd_wide_lb256 n)) in
  let up := nf_next_up (nf_of_fp8 (nostd_wide_ub256 n)) in
  nostd_wide_bits n = (nf_bits lo, nf_bits up) /\
  f32_decode (fst (nostd_wide_bits n)) = FFin (fst lo) (snd lo) /\
  f32_decode (snd (nostd_wide_bits n)) = FFin (fst up) (snd up) /\
  snd lo <= 0 /\ snd up <= 0.
Proof. exact nostd_wide_bits_decode. Qed.
Print Assumptions C12_nostd_wide_bits_decode.

(** * round 4: Lehmer guess never goes negative / never overflows; word loops of lehmer_step and
      lehmer_ext_step = the value-level linear updates (every word size, every length) *)
From Dashu Require Import Int.GrlLehmerGuessProof Int.GrlLehmerTopProof Int.GrlLehmerW Int.GrlLehmerWProof Int.GrlLehmerTieProof.
From Coq Require Import List.
Import ListNotations.
Open Scope Z_scope.

(** the guess loop on the aligned leading bits xh = x / P, yh = y / P of ANY x >= y: both new values are
    non-negative whatever the low bits are; after a successful guess the new x is below y *)
Theorem C12_guess_loop_nonneg : forall x y P xh yh : Z,
  0 < P -> xh * P <= x < (xh + 1) * P -> yh * P <= y < (yh + 1) * P -> 0 <= xh -> 0 <= yh ->
  forall (fuel : nat) (B L a b c d : Z), 1 <= L -> yh <= xh ->
  lehmer_guess_loop fuel B L 1 0 0 1 xh yh = Ok (a, b, c, d) ->
  ginv L a b c d /\ 0 <= a * x - b * y /\ 0 <= d * y - c * x /\
  (b <> 0 -> a * x - b * y < y /\ xh < (L + 1) * yh).
Proof. exact guess_loop_nonneg. Qed.
Print Assumptions C12_guess_loop_nonneg.

(** no Word / DoubleWord operation of the guess overflows, no division by zero, [xbar - c] does not underflow *)
Theorem C12_lehmer_guess_no_panic : forall (w xb yb : Z) (r : reason),
  2 <= w -> 0 <= yb <= xb -> xb < 2 ^ w -> lehmer_guess w xb yb <> Panic r.
Proof. exact lehmer_guess_no_panic. Qed.
Print Assumptions C12_lehmer_guess_no_panic.

Theorem C12_lehmer_guess_dword_no_panic : forall (w xb yb : Z) (r : reason),
  2 <= w -> 0 <= yb <= xb -> xb < 2 ^ (2 * w) -> lehmer_guess_dword w xb yb <> Panic r.
Proof. exact lehmer_guess_dword_no_panic. Qed.
Print Assumptions C12_lehmer_guess_dword_no_panic.

(** highest_word_normalized / highest_dword_normalized return the leading w / 2w bits of x and the bits of y at
    the same position, in all length cases *)
Theorem C12_highest_word_normalized_div : forall w : Z, 1 <= w -> forall x y : Z, 0 <= y <= x -> 2 <= wlen w x ->
  highest_word_normalized w x y = (x / 2 ^ (bit_len x - w), y / 2 ^ (bit_len x - w)) /\
  w <= bit_len x /\ 2 ^ (w - 1) <= x / 2 ^ (bit_len x - w) < 2 ^ w.
Proof. exact highest_word_normalized_div. Qed.
Print Assumptions C12_highest_word_normalized_div.

Theorem C12_highest_dword_normalized_div : forall w : Z, 1 <= w -> forall x y : Z, 0 <= y <= x -> 3 <= wlen w x ->
  highest_dword_normalized w x y = (x / 2 ^ (bit_len x - 2 * w), y / 2 ^ (bit_len x - 2 * w)) /\
  2 * w <= bit_len x /\ 2 ^ (2 * w - 1) <= x / 2 ^ (bit_len x - 2 * w) < 2 ^ (2 * w).
Proof. exact highest_dword_normalized_div. Qed.
Print Assumptions C12_highest_dword_normalized_div.

(** the step guessed in gcd_in_place / gcd_ext_in_place is never negative; the new x is below y; the lengths
    of x and y differ by at most one word (debug_assert of lehmer_step) *)
Theorem C12_lehmer_guess_for_nonneg : forall w : Z, 2 <= w -> forall mdl x y a b c d : Z,
  3 <= mdl -> 0 <= y <= x -> 2 <= wlen w x ->
  lehmer_guess_for mdl w x y = Ok (a, b, c, d) ->
  ginv (coeff_limit w) a b c d /\ 0 <= a * x - b * y /\ 0 <= d * y - c * x /\
  (b <> 0 -> a * x - b * y < y /\ wlen w x - wlen w y <= 1).
Proof. exact lehmer_guess_for_nonneg. Qed.
Print Assumptions C12_lehmer_guess_for_nonneg.

(** the panic branch "the guessed step went negative" of the value-level model is dead, one iteration always
    succeeds, and the main loop of gcd_in_place never panics *)
Theorem C12_lehmer_iter_negative_branch_dead : forall w : Z, 2 <= w -> forall mdl x y : Z,
  3 <= mdl -> 0 <= y <= x -> 2 <= wlen w x -> lehmer_iter mdl w x y = lehmer_iter_total_step w mdl x y.
Proof. exact lehmer_iter_negative_branch_dead. Qed.
Print Assumptions C12_lehmer_iter_negative_branch_dead.

Theorem C12_lehmer_iter_always_ok : forall w : Z, 2 <= w -> forall mdl x y : Z,
  3 <= mdl -> 0 <= y <= x -> 2 <= wlen w x -> exists st : lstep, lehmer_iter mdl w x y = Ok st.
Proof. exact lehmer_iter_always_ok. Qed.
Print Assumptions C12_lehmer_iter_always_ok.

Theorem C12_lehmer_loop_never_panics : forall w fuel mdl ml x y sw r, 2 <= w -> 3 <= mdl -> 1 <= ml -> 0 <= y <= x ->
  lehmer_loop fuel mdl w ml x y sw <> Panic r.
Proof. exact lehmer_loop_never_panics. Qed.
Print Assumptions C12_lehmer_loop_never_panics.

(** one word of the two loops: no SignedDoubleWord / DoubleWord overflow, the carry is a SignedWord / Word *)
Theorem C12_sd_lin_ok : forall w : Z, 2 <= w -> forall p u q v cr : Z,
  0 <= p <= coeff_limit w -> 0 <= q <= coeff_limit w -> 0 <= u < 2 ^ w -> 0 <= v < 2 ^ w -> cbound w cr ->
  sd_lin (2 ^ w) p u q v cr = Ok ((p * u - q * v + cr) mod 2 ^ w, (p * u - q * v + cr) / 2 ^ w) /\
  cbound w ((p * u - q * v + cr) / 2 ^ w).
Proof. exact sd_lin_ok. Qed.
Print Assumptions C12_sd_lin_ok.

Theorem C12_ud_lin_ok : forall w : Z, 2 <= w -> forall p u q v cr : Z,
  0 <= p <= coeff_limit w -> 0 <= q <= coeff_limit w -> 0 <= u < 2 ^ w -> 0 <= v < 2 ^ w -> 0 <= cr < 2 ^ w ->
  ud_lin (2 ^ w) p u q v cr = Ok ((p * u + q * v + cr) mod 2 ^ w, (p * u + q * v + cr) / 2 ^ w) /\
  0 <= (p * u + q * v + cr) / 2 ^ w < 2 ^ w.
Proof. exact ud_lin_ok. Qed.
Print Assumptions C12_ud_lin_ok.

(** lehmer_step on word lists = (a*x - b*y, d*y - c*x), incl. the extra step for the top word of a longer x *)
Theorem C12_lstep_words_correct : forall w : Z, 2 <= w -> forall (a b c d : Z) (xs ys : list Z),
  wordl w xs -> wordl w ys -> ginv (coeff_limit w) a b c d ->
  length xs = length ys \/ length xs = S (length ys) ->
  0 <= a * wval (2 ^ w) xs - b * wval (2 ^ w) ys < (2 ^ w) ^ Z.of_nat (length ys) ->
  0 <= d * wval (2 ^ w) ys - c * wval (2 ^ w) xs ->
  exists xs1 ys1 : list Z,
    lstep_words w a b c d xs ys = Ok (xs1, ys1) /\ length xs1 = length xs /\ length ys1 = length ys /\
    wordl w xs1 /\ wordl w ys1 /\
    wval (2 ^ w) xs1 = a * wval (2 ^ w) xs - b * wval (2 ^ w) ys /\
    wval (2 ^ w) ys1 = d * wval (2 ^ w) ys - c * wval (2 ^ w) xs.
Proof. exact lstep_words_correct. Qed.
Print Assumptions C12_lstep_words_correct.

(** lehmer_ext_step on word lists: first len words and carries = a*x + b*y, c*x + d*y; never panics *)
Theorem C12_lext_words_correct : forall w : Z, 2 <= w -> forall (a b c d : Z) (len : nat) (xs ys : list Z),
  wordl w xs -> wordl w ys ->
  0 <= a <= coeff_limit w -> 0 <= b <= coeff_limit w -> 0 <= c <= coeff_limit w -> 0 <= d <= coeff_limit w ->
  (len <= length xs)%nat -> (len <= length ys)%nat ->
  exists (xl1 yl1 : list Z) (cx cy : Z),
    lext_words w a b c d (Z.of_nat len) xs ys = Ok (xl1 ++ skipn len xs, yl1 ++ skipn len ys, cx, cy) /\
    length xl1 = len /\ length yl1 = len /\ wordl w xl1 /\ wordl w yl1 /\ 0 <= cx < 2 ^ w /\ 0 <= cy < 2 ^ w /\
    wval (2 ^ w) xl1 + cx * (2 ^ w) ^ Z.of_nat len = a * wval (2 ^ w) (firstn len xs) + b * wval (2 ^ w) (firstn len ys) /\
    wval (2 ^ w) yl1 + cy * (2 ^ w) ^ Z.of_nat len = c * wval (2 ^ w) (firstn len xs) + d * wval (2 ^ w) (firstn len ys).
Proof. exact lext_words_correct. Qed.
Print Assumptions C12_lext_words_correct.

(** refinement: on the word lists of x >= y the word-level iteration (guess + lehmer_step) returns the words of
    the value-level step *)
Theorem C12_lehmer_iter_words_refines : forall w : Z, 2 <= w ->
  forall (mdl : Z) (xs ys : list Z) (a b c d x' y' : Z), 3 <= mdl -> wordl w xs -> wordl w ys ->
  Z.of_nat (length xs) = wlen w (wval (2 ^ w) xs) -> Z.of_nat (length ys) = wlen w (wval (2 ^ w) ys) ->
  wval (2 ^ w) ys <= wval (2 ^ w) xs -> (2 <= length xs)%nat ->
  lehmer_iter mdl w (wval (2 ^ w) xs) (wval (2 ^ w) ys) = Ok (StLehmer a b c d x' y') ->
  exists xs1 ys1 : list Z,
    lehmer_iter_words mdl w xs ys = Ok (Some (a, b, c, d, xs1, ys1)) /\
    length xs1 = length xs /\ length ys1 = length ys /\ wordl w xs1 /\ wordl w ys1 /\
    wval (2 ^ w) xs1 = x' /\ wval (2 ^ w) ys1 = y' /\ 0 <= x' < wval (2 ^ w) ys /\ 0 <= y'.
Proof. exact lehmer_iter_words_refines. Qed.
Print Assumptions C12_lehmer_iter_words_refines.

(** trimmed slices (non-zero top word) have wlen words: the length hypotheses above hold for them *)
Theorem C12_wlen_canonical : forall (w : Z) (l : list Z) (t : Z), 2 <= w -> wordl w (l ++ [t]) -> t <> 0 ->
  Z.of_nat (length (l ++ [t])) = wlen w (wval (2 ^ w) (l ++ [t])).
Proof. exact wlen_canonical. Qed.
Print Assumptions C12_wlen_canonical.

(** outside the contract a negative step is not always caught by the debug_asserts (so the theorems above matter) *)
Theorem C12_lstep_words_negative_example :
  lstep_words 64 1 1 0 1 [5; 0] [7; 0] = Ok ([2 ^ 64 - 2; 2 ^ 64 - 2], [7; 0]) /\
  lstep_words 64 2 3 1 2 [5; 0] [7; 0] = Panic Undocumented.
Proof. exact lstep_words_negative_example. Qed.
Print Assumptions C12_lstep_words_negative_example.

(** * round 4: the Lehmer models against the fragments regenerated from integer/src/gcd/lehmer.rs on every run *)
From Dashu Require Import Int.GrlLehmerGenTie.
From DashuGen Require Import LehmerFrag.

(** the guess loops of the model take exactly the decisions of the loop bodies of the source (word and double word) *)
Theorem C12_lehmer_guess_loop_is_source : forall fuel B L a b c d xb yb res,
  lehmer_guess_loop fuel B L a b c d xb yb = Ok res ->
  gen_guess_loop gen_half1 gen_half2 fuel L a b c d xb yb = Some res /\
  gen_guess_loop gen_dhalf1 gen_dhalf2 fuel L a b c d xb yb = Some res.
Proof. exact lehmer_guess_loop_is_source. Qed.
Print Assumptions C12_lehmer_guess_loop_is_source.

Theorem C12_gen_dest_is_model :
  gen_half1_dest = [0; 1; 4]%nat /\ gen_half2_dest = [3; 2; 5]%nat /\
  gen_dhalf1_dest = [0; 1; 4]%nat /\ gen_dhalf2_dest = [3; 2; 5]%nat.
Proof. exact gen_dest_is_model. Qed.
Print Assumptions C12_gen_dest_is_model.

Theorem C12_gen_coeff_limit_is_model : forall w, gen_coeff_limit w = coeff_limit w.
Proof. exact gen_coeff_limit_is_model. Qed.
Print Assumptions C12_gen_coeff_limit_is_model.

Theorem C12_sd_lin_is_source : forall W a b c d x y cx cy xt m k,
  (sd_lin W a x b y cx = Ok (m, k) -> m = gen_lstep_x a b c d x y cx cy xt mod W /\ k = gen_lstep_x a b c d x y cx cy xt / W) /\
  (sd_lin W d y c x cy = Ok (m, k) -> m = gen_lstep_y a b c d x y cx cy xt mod W /\ k = gen_lstep_y a b c d x y cx cy xt / W).
Proof. exact sd_lin_is_source. Qed.
Print Assumptions C12_sd_lin_is_source.

Theorem C12_lstep_top_is_source : forall a b c d x y cx cy xt,
  gen_lstep_top a b c d x y cx cy xt = a * xt + cx /\ gen_lstep_assert a b c d x y cx cy xt = c * xt.
Proof. exact lstep_top_is_source. Qed.
Print Assumptions C12_lstep_top_is_source.

Theorem C12_ud_lin_is_source : forall W a b c d x y cx cy m k,
  (ud_lin W a x b y cx = Ok (m, k) -> m = gen_lext_x a b c d x y cx cy mod W /\ k = gen_lext_x a b c d x y cx cy / W) /\
  (ud_lin W c x d y cy = Ok (m, k) -> m = gen_lext_y a b c d x y cx cy mod W /\ k = gen_lext_y a b c d x y cx cy / W).
Proof. exact ud_lin_is_source. Qed.
Print Assumptions C12_ud_lin_is_source.

(** * finding F09 (fixed, /repo 1be8c4c): the cofactor update t0 += q*t1 of the Euclidean step worked on the low
      q_lo.len() + t1_len words of t0 only; equal to t0 + q*t1 iff t0 fits them *)
Theorem C12_euclid_t0_prefix_ok : forall w qlo_len t0 q t1, 1 <= w -> 0 <= t0 -> 0 <= t1 -> 0 <= qlo_len ->
  wlen w t0 <= qlo_len + wlen w t1 -> euclid_t0_prefix w qlo_len t0 q t1 = t0 + q * t1.
Proof. exact euclid_t0_prefix_ok. Qed.
Print Assumptions C12_euclid_t0_prefix_ok.

Theorem C12_euclid_t0_prefix_refuted :
  euclid_t0_prefix 64 0 (2 ^ 64) 1 1 = 1 /\ 2 ^ 64 + 1 * 1 <> 1 /\ wlen 64 (2 ^ 64) = 2 /\ wlen 64 1 = 1.
Proof. exact euclid_t0_prefix_refuted. Qed.
Print Assumptions C12_euclid_t0_prefix_refuted.

(** * round 4: the u128 cube root (base/src/ring/root.rs, impl NormalizedRootRem for u128) *)
From Dashu Require Import Int.GrlPrimCbrt128Proof.

(** every answer of normalized_cbrt_rem for u128 is the exact root and remainder: c1*B + q is never below the
    root, the i128 remainder is n - c^3, the adjustment loop only decrements *)
Theorem C12_ncbrt128_sound : forall fuel n c r, 0 <= n < 2 ^ 128 -> ncbrt128 fuel n = Ok (c, r) -> cb c n /\ r = n - c ^ 3.
Proof. exact ncbrt128_sound. Qed.
Print Assumptions C12_ncbrt128_sound.

Theorem C12_cbrt_div_step : forall n A c1 r1 B b2 low q u,
  0 < B -> 1 <= c1 -> A = c1 ^ 3 + r1 -> n = A * B ^ 3 + b2 * B ^ 2 + low ->
  0 <= b2 < B -> 0 <= low < B ^ 2 -> 0 <= q ->
  r1 * B + b2 = q * (3 * (c1 * c1)) + u -> 0 <= u < 3 * (c1 * c1) ->
  n - (c1 * B + q) ^ 3 = u * B ^ 2 + low - (3 * c1 * B + q) * (q * q) /\ n < (c1 * B + q + 1) ^ 3.
Proof. exact cbrt_div_step. Qed.
Print Assumptions C12_cbrt_div_step.

(** cbrt_rem of every primitive width, u128 included *)
Theorem C12_prim_cbrt_rem_asis_sound_all : forall fuel bits n c e,
  (bits = 8 \/ bits = 16 \/ bits = 32 \/ bits = 64 \/ bits = 128) -> 0 <= n < 2 ^ bits ->
  prim_cbrt_rem_asis fuel bits n = Ok (c, e) -> cb c n /\ e = n - c ^ 3.
Proof. exact prim_cbrt_rem_asis_sound_all. Qed.
Print Assumptions C12_prim_cbrt_rem_asis_sound_all.

(** * round 5: NO OVERSHOOT of the table + Newton estimates of the u32 / u64 roots (base/src/ring/root.rs)
      class x monotonicity: the estimate is a step function of n whose stages are monotone once the earlier stages are
      fixed; an interval on which every stage has equal values at both ends is checked at its ends *)
From Dashu Require Import Int.GrlPrimRootCert Int.GrlPrimRootTotal Int.GrlPrimRootTotal64.

Theorem C12_cover_sound : forall (Q : Z -> Prop) leaf split,
  (forall lo hi, leaf lo hi = true -> forall n, lo <= n <= hi -> Q n) ->
  forall fuel lo hi, cover leaf split fuel lo hi = true -> forall n, lo <= n <= hi -> Q n.
Proof. exact cover_sound. Qed.
Print Assumptions C12_cover_sound.

(** one interval, any ends: equal stage values at lo and hi, s^2 <= lo, hi < (s+F)^2 => the routine answers on [lo, hi] *)
Theorem C12_sq32_iv_sound : forall F lo hi, 0 <= F -> sq32_iv F lo hi = true -> forall n, lo <= n <= hi ->
  forall fuel, F <= Z.of_nat fuel -> exists r, nsqrt32 fuel n = Ok r.
Proof. exact sq32_iv_sound. Qed.
Print Assumptions C12_sq32_iv_sound.

Theorem C12_sq64_iv_sound : forall F lo hi, 0 <= F -> sq64_iv F lo hi = true -> forall n, lo <= n <= hi ->
  forall fuel, F <= Z.of_nat fuel -> exists r, nsqrt64 fuel n = Ok r.
Proof. exact sq64_iv_sound. Qed.
Print Assumptions C12_sq64_iv_sound.

(** EVERY normalised u32 input (finite: 3 * 2^30 resp. 7 * 2^29 values, decided through 49152 / 57344 classes): the estimate
    never exceeds the root, nothing overflows, 2 resp. 3 corrections suffice *)
Theorem C12_nsqrt32_total : forall n, 2 ^ 30 <= n < 2 ^ 32 -> nsqrt32 3 n = Ok (sqrt_rem_spec n).
Proof. exact nsqrt32_total. Qed.
Print Assumptions C12_nsqrt32_total.

Theorem C12_ncbrt32_total : forall n, 2 ^ 29 <= n < 2 ^ 32 -> exists c, ncbrt32 4 n = Ok (c, n - c ^ 3) /\ cb c n.
Proof. exact ncbrt32_total. Qed.
Print Assumptions C12_ncbrt32_total.

(** a total normalised routine makes the normalising wrapper total: any width *)
Theorem C12_prim_sqrt_rem_total_of_norm : forall norm bits n, 2 <= bits -> 0 <= n < 2 ^ bits ->
  (forall m, 2 ^ (bits - 2) <= m < 2 ^ bits -> exists r, norm m = Ok r) ->
  exists r, prim_sqrt_rem norm bits n = Ok r.
Proof. exact prim_sqrt_rem_total_of_norm. Qed.
Print Assumptions C12_prim_sqrt_rem_total_of_norm.

Theorem C12_prim_cbrt_rem_total_of_norm : forall norm bits n, 3 <= bits -> 0 <= n < 2 ^ bits ->
  (forall m, 2 ^ (bits - 3) <= m < 2 ^ bits -> exists r, norm m = Ok r) ->
  exists r, prim_cbrt_rem norm bits n = Ok r.
Proof. exact prim_cbrt_rem_total_of_norm. Qed.
Print Assumptions C12_prim_cbrt_rem_total_of_norm.

(** EVERY u32 value (0 .. 2^32 - 1): sqrt_rem / cbrt_rem as written return the specified pair and never panic *)
Theorem C12_prim_sqrt_rem_u32_total : forall n, 0 <= n < 2 ^ 32 -> prim_sqrt_rem_asis 3 32 n = Ok (sqrt_rem_spec n).
Proof. exact prim_sqrt_rem_u32_total. Qed.
Print Assumptions C12_prim_sqrt_rem_u32_total.

Theorem C12_prim_cbrt_rem_u32_total : forall n, 0 <= n < 2 ^ 32 ->
  exists c, prim_cbrt_rem_asis 4 32 n = Ok (c, n - c ^ 3) /\ cb c n.
Proof. exact prim_cbrt_rem_u32_total. Qed.
Print Assumptions C12_prim_cbrt_rem_u32_total.

Theorem C12_u32_fuel_tight :
  (exists n, prim_sqrt_rem_asis 2 32 n = OutOfFuel) /\ (exists n, prim_cbrt_rem_asis 3 32 n = OutOfFuel).
Proof. exact u32_fuel_tight. Qed.
Print Assumptions C12_u32_fuel_tight.

Theorem C12_fix_cbrt_total_pow : forall fuel HB n c, 0 <= c -> c ^ 3 <= n -> n < HB ^ 3 -> n < (c + Z.of_nat fuel) ^ 3 ->
  exists r, fix_cbrt fuel HB n c = Ok r.
Proof. exact fix_cbrt_total_pow. Qed.
Print Assumptions C12_fix_cbrt_total_pow.

(** u64, per class X = n >> 32 (3 * 2^30 classes, not enumerated here): a decidable certificate of the class - the estimate at
    the class ends and at the steps of (n - s0^2) >> 32 - gives the answer for EVERY n of the class *)
Theorem C12_nsqrt64_class_total : forall X n, sq64_cert X = true -> X * T32 <= n < (X + 1) * T32 ->
  nsqrt64 3 n = Ok (sqrt_rem_spec n).
Proof. exact nsqrt64_class_total. Qed.
Print Assumptions C12_nsqrt64_class_total.

Theorem C12_ncbrt64_class_total : forall X n, 2 ^ 29 <= X < 2 ^ 32 -> cb64_cert X = true -> X * T32 <= n < (X + 1) * T32 ->
  exists c, ncbrt64 8 n = Ok (c, n - c ^ 3) /\ cb c n.
Proof. exact ncbrt64_class_total. Qed.
Print Assumptions C12_ncbrt64_class_total.

Theorem C12_prim_sqrt_rem_u64_class : forall n X, 0 < n < 2 ^ 64 ->
  X = (n * 2 ^ (2 * (lzeros 64 n / 2))) / T32 -> sq64_cert X = true ->
  prim_sqrt_rem_asis 3 64 n = Ok (sqrt_rem_spec n).
Proof. exact prim_sqrt_rem_u64_class. Qed.
Print Assumptions C12_prim_sqrt_rem_u64_class.

(** the certificates hold on 4096 classes spread evenly over the whole normalised range (finite sample, stated) *)
Theorem C12_sq64_sample : forallb sq64_cert (sample_classes (2 ^ 30) 786433 4096) = true.
Proof. exact sq64_sample. Qed.
Print Assumptions C12_sq64_sample.

Theorem C12_cb64_sample : forallb cb64_cert (sample_classes (2 ^ 29) 917521 4096) = true.
Proof. exact cb64_sample. Qed.
Print Assumptions C12_cb64_sample.

Theorem C12_sq64_edges : forallb sq64_cert (edge_classes 32 96 25) = true.
Proof. exact sq64_edges. Qed.
Print Assumptions C12_sq64_edges.

Theorem C12_cb64_edges : forallb cb64_cert (edge_classes 16 48 25 ++ edge_classes 8 8 28) = true.
Proof. exact cb64_edges. Qed.
Print Assumptions C12_cb64_edges.

(** * round 4: the std (libm) log2 estimator, under an explicit libm contract
      "f32::log2 of a positive binary32 is a binary32 whose two neighbours enclose the true logarithm".
      No interval tactic any more (ln 2 >= 1/2 from exp 1 <= 3): only the axioms of the real numbers. *)
From Dashu Require Import Int.GrlLog2Std Int.GrlLog2StdProof.
Open Scope Z_scope.

(** the contract is satisfiable: a correctly rounding libm fulfils it *)
Theorem C12_libm_contract_inhabited :
  let f := fun x => rnd32 (log2R x) in
  (forall x, (0 < x)%R -> format32 x -> format32 (f x)) /\
  (forall x, (0 < x)%R -> format32 x -> (next_down (f x) <= log2R x <= next_up (f x))%R).
Proof. exact libm_contract_inhabited. Qed.
Print Assumptions C12_libm_contract_inhabited.

(** log2_bounds of u8..u128 (std build): power-of-two shortcut, exact conversion up to 24 bits, shifted top 24 bits *)
Theorem C12_std_log2_uint_encloses : forall flog2 : R -> R,
  (forall x, (0 < x)%R -> format32 x -> format32 (flog2 x)) ->
  (forall x, (0 < x)%R -> format32 x -> (next_down (flog2 x) <= log2R x <= next_up (flog2 x))%R) ->
  forall n : Z, 0 < n < 2 ^ 128 -> encloses (std_log2_uint flog2 n) (IZR n).
Proof. exact std_log2_uint_encloses. Qed.
Print Assumptions C12_std_log2_uint_encloses.

(** log2_bounds_large (integer/src/log.rs): top double word + the two ADJUST products, any length >= 3 words *)
Theorem C12_std_log2_large_encloses : forall flog2 : R -> R,
  (forall x, (0 < x)%R -> format32 x -> format32 (flog2 x)) ->
  (forall x, (0 < x)%R -> format32 x -> (next_down (flog2 x) <= log2R x <= next_up (flog2 x))%R) ->
  forall wb n len : Z, 32 <= wb <= 64 -> 3 <= len -> 2 ^ ((len - 1) * wb) <= n < 2 ^ (len * wb) ->
  encloses (std_log2_large flog2 wb n len) (IZR n).
Proof. exact std_log2_large_encloses. Qed.
Print Assumptions C12_std_log2_large_encloses.

(** UBig / IBig log2_bounds: every positive integer *)
Theorem C12_std_log2_ubig_encloses : forall flog2 : R -> R,
  (forall x, (0 < x)%R -> format32 x -> format32 (flog2 x)) ->
  (forall x, (0 < x)%R -> format32 x -> (next_down (flog2 x) <= log2R x <= next_up (flog2 x))%R) ->
  forall wb n : Z, 32 <= wb <= 64 -> 0 < n -> encloses (std_log2_ubig flog2 wb n) (IZR n).
Proof. exact std_log2_ubig_encloses. Qed.
Print Assumptions C12_std_log2_ubig_encloses.

(** RBig / Relaxed log2_bounds (rational/src/repr.rs): numerator bounds minus denominator bounds *)
Theorem C12_std_log2_ratio_encloses : forall flog2 : R -> R,
  (forall x, (0 < x)%R -> format32 x -> format32 (flog2 x)) ->
  (forall x, (0 < x)%R -> format32 x -> (next_down (flog2 x) <= log2R x <= next_up (flog2 x))%R) ->
  forall wb num den : Z, 32 <= wb <= 64 -> num <> 0 -> 0 < den ->
  encloses (std_log2_ratio flog2 wb num den) (IZR (Z.abs num) / IZR den)%R.
Proof. exact std_log2_ratio_encloses. Qed.
Print Assumptions C12_std_log2_ratio_encloses.

(** * round 4: FBig / RBig / IBig log2_bounds on IEEE binary32 operations (Flocq): proved by C14 in
      Cross/XLog2Flocq.v and Cross/XLog2Large.v for the estimator contract lg_contract (instantiated there by
      the correctly rounded logarithm); cited here because log2_bounds is C12's property.  After the repair
      388fab5 of float/src/log.rs (outward step after each rounding). *)
From Dashu Require Import Cross.XLog2Model Cross.XLog2Flocq Cross.XLog2Large.
Open Scope Z_scope.

Theorem C12_fbig_log2_bounds_enclose : forall lg, lg_contract lg -> forall w, 32 <= w <= 64 -> forall B s e,
  2 <= B < 2 ^ 128 -> s <> 0 -> Z.log2 (Z.abs s) < 2 ^ 62 -> Z.abs e <= 2 ^ 63 ->
  let b := f_log2_bounds lg w B s e in
  fin (fst b) = true /\ fin (snd b) = true /\
  (b2r (fst b) <= XLog2Flocq.log2R (IZR (Z.abs s)) + IZR e * XLog2Flocq.log2R (IZR B) <= b2r (snd b))%R.
Proof. exact f_log2_sound_any. Qed.
Print Assumptions C12_fbig_log2_bounds_enclose.

Theorem C12_rbig_log2_bounds_enclose : forall lg, lg_contract lg -> forall w, 32 <= w <= 64 -> forall n d,
  n <> 0 -> 0 < d -> Z.log2 (Z.abs n) < 2 ^ 62 -> Z.log2 d < 2 ^ 62 ->
  let b := q_log2_bounds lg w n d in
  fin (fst b) = true /\ fin (snd b) = true /\
  (b2r (fst b) <= XLog2Flocq.log2R (IZR (Z.abs n) / IZR d) <= b2r (snd b))%R.
Proof. exact q_log2_sound_any. Qed.
Print Assumptions C12_rbig_log2_bounds_enclose.

Theorem C12_ibig_log2_bounds_enclose : forall lg, lg_contract lg -> forall w, 32 <= w <= 64 -> forall z,
  z <> 0 -> Z.log2 (Z.abs z) < 2 ^ 62 ->
  let b := ibig_log2_bounds lg w z in
  bd 64 (fst b) /\ bd 64 (snd b) /\ (b2r (fst b) <= XLog2Flocq.log2R (IZR (Z.abs z)) <= b2r (snd b))%R.
Proof. exact ibig_log2_sound. Qed.
Print Assumptions C12_ibig_log2_bounds_enclose.

Theorem C12_lg_contract_inhabited : lg_contract lg_nearest.
Proof. exact lg_nearest_ok. Qed.
Print Assumptions C12_lg_contract_inhabited.

(** * round 5: the size dispatch of gcd_ops.rs / log.rs / root_ops.rs as tables regenerated from the sources
      (coq/gen/GrlDispatchGen.v); the hand-written dispatch = the interpreted table, for ANY kernels
      (instantiated with C19's word-size-specific models in Int/GrlDispatchC19.v, with C12's nth_root model here) *)
From Dashu Require Import Int.GrlDispatch Int.GrlDispatchTie.
From DashuGen Require Import GrlDispatchGen.

Theorem C12_gcd_dispatch_is_source : forall (A : Type) (k0 k1 k2 : Z -> Z -> result A) (swap : A -> A) sx sy x y,
  gcd_dispatch k0 k1 k2 sx sy x y = run_arm k0 k1 k2 swap (lookup2 gcd_dispatch_gen sx sy) x y.
Proof. intros A. exact (@gcd_dispatch_is_source A). Qed.
Print Assumptions C12_gcd_dispatch_is_source.

(** all four ownership forms of ExtendedGcd carry the same table *)
Theorem C12_gcd_ext_dispatch_is_source : forall (A : Type) (k0 k1 k2 : Z -> Z -> result A) (swap : A -> A) sx sy x y,
  gcd_ext_dispatch k0 k1 k2 swap sx sy x y = run_arm k0 k1 k2 swap (lookup2 gcd_ext_dispatch_gen_0 sx sy) x y /\
  gcd_ext_dispatch k0 k1 k2 swap sx sy x y = run_arm k0 k1 k2 swap (lookup2 gcd_ext_dispatch_gen_1 sx sy) x y /\
  gcd_ext_dispatch k0 k1 k2 swap sx sy x y = run_arm k0 k1 k2 swap (lookup2 gcd_ext_dispatch_gen_2 sx sy) x y /\
  gcd_ext_dispatch k0 k1 k2 swap sx sy x y = run_arm k0 k1 k2 swap (lookup2 gcd_ext_dispatch_gen_3 sx sy) x y.
Proof. intros A. exact (@gcd_ext_dispatch_is_source A). Qed.
Print Assumptions C12_gcd_ext_dispatch_is_source.

Theorem C12_log_dispatch_is_source : forall (A : Type) (k_dword k_wordbase k_large : Z -> Z -> result A) (zero one : result A)
  (is_word : Z -> bool) sx sb x b,
  log_dispatch k_dword k_wordbase k_large zero one is_word sx sb x b =
  run_log_arm k_dword k_wordbase k_large zero one is_word (lookup2 log_dispatch_gen sx sb) x b.
Proof. intros A. exact (@log_dispatch_is_source A). Qed.
Print Assumptions C12_log_dispatch_is_source.

Theorem C12_nth_dispatch_is_source : forall (A : Type) (self sqrt rest : result A) n,
  nth_dispatch self sqrt rest n = run_nth self sqrt rest (lookup_n nth_root_dispatch_gen n).
Proof. intros A. exact (@nth_dispatch_is_source A). Qed.
Print Assumptions C12_nth_dispatch_is_source.

Theorem C12_nth_root_asis_is_table : forall fuel x n,
  nth_root_asis fuel x n =
  run_nth (Ok x) (Ok (Z.sqrt x))
          (if bit_len x =? 0 then Ok 0 else if bit_len x <=? n then Ok 1 else newton_root fuel x n)
          (lookup_n nth_root_dispatch_gen n).
Proof. exact nth_root_asis_is_table. Qed.
Print Assumptions C12_nth_root_asis_is_table.

(** * round 5: the cofactor BUFFER of the Euclidean step of gcd_ext_in_place (lengths t0_len / t1_len / q_lo.len(); the lines
      repaired by 1be8c4c, finding F09): for EVERY relation of t0_len and qt1_len the repaired update is t0 + q*t1 with the
      exact new length, and it answers whenever the sum fits the buffer and the carry fits a word *)
From Dashu Require Import Int.GrlExtBuf Int.GrlExtBufProof.

Theorem C12_ebuf_step_correct : forall w, 1 <= w -> forall cap lhs_len T0 t0_len T1 t1_len q_lo qlo_len q_top T' len',
  0 <= t0_len -> 0 <= t1_len -> 0 <= qlo_len ->
  0 <= T0 < (2 ^ w) ^ t0_len -> 0 <= T1 < (2 ^ w) ^ t1_len -> 0 <= q_lo < (2 ^ w) ^ qlo_len -> 0 <= q_top < 2 ^ w ->
  ebuf_step true w cap lhs_len T0 t0_len T1 t1_len q_lo qlo_len q_top = Ok (T', len') ->
  T' = T0 + (q_top * (2 ^ w) ^ qlo_len + q_lo) * T1 /\ T' < (2 ^ w) ^ len' /\ (0 < len' -> (2 ^ w) ^ (len' - 1) <= T') /\ 0 <= len'.
Proof. exact ebuf_step_correct. Qed.
Print Assumptions C12_ebuf_step_correct.

Theorem C12_ebuf_step_total : forall w, 1 <= w -> forall cap lhs_len T0 t0_len T1 t1_len q_lo qlo_len q_top,
  0 <= t0_len -> 0 <= t1_len -> 0 <= qlo_len ->
  0 <= T0 < (2 ^ w) ^ t0_len -> 0 <= T1 < (2 ^ w) ^ t1_len -> 0 <= q_lo < (2 ^ w) ^ qlo_len -> 0 <= q_top < 2 ^ w ->
  qlo_len + t1_len <= cap ->
  T0 + (q_top * (2 ^ w) ^ qlo_len + q_lo) * T1 < (2 ^ w) ^ cap ->
  (0 < q_top -> qlo_len + t1_len <= lhs_len /\
                T0 mod (2 ^ w) ^ (qlo_len + t1_len) + (q_top * (2 ^ w) ^ qlo_len + q_lo) * T1 < 2 ^ w * (2 ^ w) ^ (qlo_len + t1_len)) ->
  exists r, ebuf_step true w cap lhs_len T0 t0_len T1 t1_len q_lo qlo_len q_top = Ok r.
Proof. exact ebuf_step_total. Qed.
Print Assumptions C12_ebuf_step_total.

(** t0 as long as q*t1, one word longer (the F09 shape), three words longer with a rippling carry; the code before the repair *)
Theorem C12_ebuf_step_len_relations :
  ebuf_step true 64 4 3 (2 ^ 64 - 1) 1 (2 ^ 64 - 1) 1 0 0 1 = Ok (2 ^ 65 - 2, 2) /\
  ebuf_step true 64 4 3 (2 ^ 128 - 1) 2 (2 ^ 64 - 1) 1 0 0 1 = Ok (2 ^ 128 + 2 ^ 64 - 2, 3) /\
  ebuf_step true 64 5 4 (2 ^ 256 - 1) 4 1 1 0 0 1 = Ok (2 ^ 256, 5).
Proof. exact ebuf_step_len_relations. Qed.
Print Assumptions C12_ebuf_step_len_relations.

Theorem C12_ebuf_step_prefix_refuted :
  ebuf_step false 64 4 3 (2 ^ 128 - 1) 2 (2 ^ 64 - 1) 1 0 0 1 = Ok (2 ^ 64 - 2 + 2 ^ 64 + 0, 2) /\
  ebuf_step false 64 3 2 (2 ^ 64) 2 1 1 0 0 1 = Ok (1 + 2 ^ 64, 1).
Proof. exact ebuf_step_prefix_refuted. Qed.
Print Assumptions C12_ebuf_step_prefix_refuted.

(** * round 5: the source text of the table + Newton routines the models were transcribed from = the text re-read on this run *)
From Dashu Require Import Int.GrlRootSrcTie.
Theorem C12_root_newton_src_pinned : root_newton_src = root_newton_src_gen.
Proof. exact root_newton_src_pinned. Qed.
Print Assumptions C12_root_newton_src_pinned.
