(** C15 - all forms of an operator give the same answer; clone / clone_from.
    ONLY statements pinned here; proofs live in Dashu.Forms.*. *)
From Dashu Require Import Base.Prelude Forms.FormsSpec Forms.FormsProofs Forms.FormsClone.
From Dashu Require Import Base.Words Int.RingOps Int.RingOpsProofs Forms.FormsInt.
From Dashu Require Import Float.RoundSpec Float.Contract Float.Model Float.AddModel Forms.FormsFloatSpec Forms.FormsFloat.
From Dashu Require Import Int.RingDispatchProofs Forms.FormsMul.
From Dashu Require Import Int.DivWordModel Forms.FormsDiv.
From Dashu Require Import Int.BitsKernels Int.BitsSignedProofs Forms.FormsBits.
From Dashu Require Import Ratio.RatArithModel Ratio.RatArithRelaxed Forms.FormsRat.
From Dashu Require Import Int.ModRingModel Int.ModRingProofs Int.ModRingMain Forms.FormsMod.
From Dashu Require Import Int.ModRingSpec Forms.FormsGcd Forms.FormsArmsProofs Forms.FormsR3Spec Forms.FormsFloatR3 Forms.FormsModR3 Forms.FormsRatR3.
From DashuGen Require Import FormsArms FormsFloatGen FormsModGen FormsRatGen.
Open Scope Z_scope.

(** the primitive-operand forms ( big op prim, prim op big, in the four ownership arms each ) return
    what the all-big form returns, unless the result does not fit the primitive Output type *)
Theorem C15_prim_right_forms : forall t pt o x p,
  prim_unrepresentable (out_ty t pt o false) (big_op t o x p) = false ->
  prim_right_asis t pt o x p = big_op t o x p.
Proof. exact prim_right_agrees. Qed.
Print Assumptions C15_prim_right_forms.

Theorem C15_prim_left_forms : forall t pt o p x,
  prim_unrepresentable (out_ty t pt o true) (big_op t o p x) = false ->
  prim_left_asis t pt o p x = big_op t o p x.
Proof. exact prim_left_agrees. Qed.
Print Assumptions C15_prim_left_forms.

Theorem C15_prim_assign_forms : forall t o x p, prim_assign_asis t o x p = big_op t o x p.
Proof. exact prim_assign_agrees. Qed.
Print Assumptions C15_prim_assign_forms.

(** open finding class prim_result_unrepresentable: there the primitive forms panic, the big form returns *)
Theorem C15_prim_right_known_class : forall t pt o x p,
  prim_unrepresentable (out_ty t pt o false) (big_op t o x p) = true ->
  prim_right_asis t pt o x p = Panic Undocumented /\ exists v, big_op t o x p = Ok v.
Proof. exact prim_right_known. Qed.
Print Assumptions C15_prim_right_known_class.

Theorem C15_prim_left_known_class : forall t pt o p x,
  prim_unrepresentable (out_ty t pt o true) (big_op t o p x) = true ->
  prim_left_asis t pt o p x = Panic Undocumented /\ exists v, big_op t o p x = Ok v.
Proof. exact prim_left_known. Qed.
Print Assumptions C15_prim_left_known_class.

Theorem C15_prim_class_refuted :
  prim_right_asis TIBig (TPrim false 8) IoRem (-7) 3 = Panic Undocumented /\ big_op TIBig IoRem (-7) 3 = Ok (-1).
Proof. exact prim_rem_refuted. Qed.
Print Assumptions C15_prim_class_refuted.

(** where the class is empty / exactly what it is *)
Theorem C15_big_output_never_in_class : forall t o x p,
  (t = TUBig \/ t = TIBig) -> prim_unrepresentable t (big_op t o x p) = false.
Proof. exact prim_big_output_never_known. Qed.
Print Assumptions C15_big_output_never_in_class.

Theorem C15_rem_signed_fits : forall n x p, 0 < n ->
  in_ty (TPrim true n) p = true -> p <> 0 -> in_ty (TPrim true n) (Z.rem x p) = true.
Proof. exact rem_signed_fits. Qed.
Print Assumptions C15_rem_signed_fits.

Theorem C15_rem_unsigned_fits_iff : forall n x p, 0 <= p < 2 ^ n -> p <> 0 ->
  (in_ty (TPrim false n) (Z.rem x p) = true <-> (0 <= x \/ Z.rem x p = 0)).
Proof. exact rem_unsigned_fits_iff. Qed.
Print Assumptions C15_rem_unsigned_fits_iff.

Theorem C15_and_unsigned_fits : forall n x p, 0 <= n -> 0 <= p < 2 ^ n ->
  in_ty (TPrim false n) (Z.land x p) = true.
Proof. exact and_unsigned_fits. Qed.
Print Assumptions C15_and_unsigned_fits.

Theorem C15_rdiv_ubig_fits : forall n p x, 0 <= p < 2 ^ n -> 0 < x ->
  in_ty (TPrim false n) (Z.quot p x) = true.
Proof. exact rdiv_ubig_fits. Qed.
Print Assumptions C15_rdiv_ubig_fits.

Theorem C15_rdiv_ibig_unsigned_fits_iff : forall n p x, 0 <= p < 2 ^ n -> x <> 0 ->
  (in_ty (TPrim false n) (Z.quot p x) = true <-> 0 <= Z.quot p x).
Proof. exact rdiv_ibig_unsigned_fits_iff. Qed.
Print Assumptions C15_rdiv_ibig_unsigned_fits_iff.

(** op= by take-and-replace *)
Theorem C15_assign_by_taking : forall op a b,
  fst (assign_by_taking op a b) = op a b /\
  (forall v, op a b = Ok v -> snd (assign_by_taking op a b) = v) /\
  ((forall v, op a b <> Ok v) -> snd (assign_by_taking op a b) = 0).
Proof. exact assign_by_taking_ok. Qed.
Print Assumptions C15_assign_by_taking.

(** float shifts: << and <<=, >> and (repaired) >>= *)
Theorem C15_float_shift_forms : forall x n,
  fshl_asis x n = fshift_spec x n /\ fshr_asis x n = fshift_spec x (- n).
Proof. exact fshift_forms_agree. Qed.
Print Assumptions C15_float_shift_forms.

Theorem C15_float_shr_assign_pinned_refuted :
  fshr_assign_pinned (FFin 1 3) 1 = Ok (FFin 1 1) /\ fshift_spec (FFin 1 3) (-1) = Ok (FFin 1 2) /\
  fshr_assign_pinned (FFin 0 0) 1 = Ok (FFin 0 (-1)) /\ fshift_spec (FFin 0 0) (-1) = Ok (FFin 0 0).
Proof. exact fshr_assign_pinned_refuted. Qed.
Print Assumptions C15_float_shr_assign_pinned_refuted.

(** Clone for Repr *)
Theorem C15_clone_cap : forall maxcap src_cap len, 3 <= len <= maxcap -> 2 < src_cap ->
  let c := clone_cap maxcap src_cap len in len <= c <= max_compact_capacity maxcap len.
Proof. exact clone_cap_ok. Qed.
Print Assumptions C15_clone_cap.

Theorem C15_clone_from_cap : forall maxcap dst_cap src_cap len, 3 <= len <= maxcap -> 2 < src_cap ->
  let c := clone_from_cap maxcap dst_cap src_cap len in
  len <= c <= max_compact_capacity maxcap len /\
  (len <= dst_cap <= max_compact_capacity maxcap len -> c = dst_cap).
Proof. exact clone_from_cap_ok. Qed.
Print Assumptions C15_clone_from_cap.

Theorem C15_clone_inline : forall maxcap dst_cap src_cap len, src_cap <= 2 ->
  clone_cap maxcap src_cap len = src_cap /\ clone_from_cap maxcap dst_cap src_cap len = src_cap.
Proof. exact clone_inline. Qed.
Print Assumptions C15_clone_inline.

(** the four hand-written bodies of FBig + and - (add_val_val / add_val_ref / add_ref_val / add_ref_ref;
    += and -= take self and call the val_* bodies) return the same value - for every base, digit
    estimate that only looks at the magnitude, pair of precisions, mode, operands and sign of the operation *)
Theorem C15_float_add_forms_agree : forall B digits_ub, (forall s, digits_ub (- s) = digits_ub s) ->
  forall p1 p2 m s1 e1 s2 e2 sg,
  add_val_ref B digits_ub p1 p2 m s1 e1 s2 e2 sg = add_val_val B digits_ub p1 p2 m s1 e1 s2 e2 sg /\
  add_ref_val B digits_ub p1 p2 m s1 e1 s2 e2 sg = add_val_val B digits_ub p1 p2 m s1 e1 s2 e2 sg /\
  add_ref_ref B digits_ub p1 p2 m s1 e1 s2 e2 sg = add_val_val B digits_ub p1 p2 m s1 e1 s2 e2 sg.
Proof. exact float_add_forms_agree. Qed.
Print Assumptions C15_float_add_forms_agree.

(** FBig operator vs Context method at the same precision: equal unless an operand is longer than it *)
Theorem C15_float_add_ctx_agrees : forall B digits_ub, (forall s, digits_ub (- s) = digits_ub s) ->
  forall p1 p2 m s1 e1 s2 e2,
  let p := ctx_max p1 p2 in
  (p = 0 \/ (dlen B s1 <= p /\ dlen B s2 <= p)) ->
  approx_val (ctx_add B digits_ub p m s1 e1 s2 e2) = add_val_val B digits_ub p1 p2 m s1 e1 s2 e2 Positive.
Proof. intros B du _. exact (float_add_ctx_agrees B du). Qed.
Print Assumptions C15_float_add_ctx_agrees.

Theorem C15_float_sub_ctx_agrees : forall B digits_ub, (forall s, digits_ub (- s) = digits_ub s) ->
  forall p1 p2 m s1 e1 s2 e2,
  let p := ctx_max p1 p2 in
  (p = 0 \/ (dlen B s1 <= p /\ dlen B s2 <= p)) ->
  approx_val (ctx_sub B digits_ub p m s1 e1 s2 e2) = add_val_val B digits_ub p1 p2 m s1 e1 s2 e2 Negative.
Proof. exact float_sub_ctx_agrees. Qed.
Print Assumptions C15_float_sub_ctx_agrees.

Theorem C15_float_mul_ctx_agrees : forall B p m s1 e1 s2 e2,
  (p = 0 \/ (dlen B s1 <= 2 * p /\ dlen B s2 <= 2 * p)) ->
  approx_val (ctx_mul B p m s1 e1 s2 e2) = fmul_op B p m s1 e1 s2 e2.
Proof. exact float_mul_ctx_agrees. Qed.
Print Assumptions C15_float_mul_ctx_agrees.

(** open finding class float_operand_exceeds_precision: the agreement fails there *)
Theorem C15_float_operand_exceeds_precision_refuted :
  (add_val_val_x 10 0 3 MHalfAway 123456 0 0 0 Positive = (123456, 0) /\
   approx_val (ctx_add_x 10 3 MHalfAway 123456 0 0 0) = (123, 3)) /\
  (fmul_op 10 2 MHalfAway 12495001 0 1 0 = (12, 6) /\
   approx_val (ctx_mul 10 2 MHalfAway 12495001 0 1 0) = (13, 6)).
Proof. exact (conj float_add_zero_shortcut_refuted float_mul_double_rounding_refuted). Qed.
Print Assumptions C15_float_operand_exceeds_precision_refuted.

(** ownership forms (T/&T x T/&T, op= through take) of the integer + and - at the level of the Repr
    kernels, any word size w >= 8: [o : own] selects the reused buffer and the kernel; every form
    builds the IDENTICAL canonical representation, or every form panics *)
Theorem C15_ubig_add_forms_identical : forall w, 8 <= w -> forall o o' x y, twf w x -> twf w y ->
  repr_add w o x y = repr_add w o' x y /\ repr_value w (repr_add w o x y) = repr_value w x + repr_value w y.
Proof. exact ubig_add_forms_identical. Qed.
Print Assumptions C15_ubig_add_forms_identical.

Theorem C15_ubig_sub_forms_identical : forall w, 8 <= w -> forall o o' x y, twf w x -> twf w y ->
  repr_sub w o x y = repr_sub w o' x y /\
  (repr_value w x < repr_value w y -> repr_sub w o x y = Panic NegativeUBig) /\
  (repr_value w y <= repr_value w x -> exists r, repr_sub w o x y = Ok r /\ repr_value w r = repr_value w x - repr_value w y).
Proof. exact ubig_sub_forms_identical. Qed.
Print Assumptions C15_ubig_sub_forms_identical.

Theorem C15_ibig_add_forms_identical : forall w, 8 <= w -> forall o o' s0 x s1 y, twf w x -> twf w y ->
  exists r r', ibig_add_asis w o s0 x s1 y = Ok r /\ ibig_add_asis w o' s0 x s1 y = Ok r' /\
    srepr_value w r = signed s0 (repr_value w x) + signed s1 (repr_value w y) /\
    srepr_value w r' = signed s0 (repr_value w x) + signed s1 (repr_value w y) /\ snd r = snd r'.
Proof. exact ibig_add_forms_identical. Qed.
Print Assumptions C15_ibig_add_forms_identical.

Theorem C15_ibig_sub_forms_identical : forall w, 8 <= w -> forall o o' s0 x s1 y, twf w x -> twf w y ->
  exists r r', ibig_sub_asis w o s0 x s1 y = Ok r /\ ibig_sub_asis w o' s0 x s1 y = Ok r' /\
    srepr_value w r = signed s0 (repr_value w x) - signed s1 (repr_value w y) /\
    srepr_value w r' = signed s0 (repr_value w x) - signed s1 (repr_value w y) /\ snd r = snd r'.
Proof. exact ibig_sub_forms_identical. Qed.
Print Assumptions C15_ibig_sub_forms_identical.

Theorem C15_rdiv_signed_fits_iff : forall n p x, 0 < n -> in_ty (TPrim true n) p = true -> x <> 0 ->
  (in_ty (TPrim true n) (Z.quot p x) = true <-> ~ (p = - 2 ^ (n - 1) /\ x = -1)).
Proof. exact rdiv_signed_fits_iff. Qed.
Print Assumptions C15_rdiv_signed_fits_iff.

Theorem C15_prim_divrem_forms : forall t pt x p,
  (forall q r, divrem_spec x p = Ok (q, r) -> in_ty pt r = true) ->
  prim_divrem_asis t pt x p = divrem_spec x p.
Proof. exact prim_divrem_agrees. Qed.
Print Assumptions C15_prim_divrem_forms.

Theorem C15_float_div_ctx_agrees : forall B p m s1 e1 s2 e2,
  dlen B s1 <= p + dlen B s2 ->
  fdiv_ctx B p m s1 e1 s2 e2 = fdiv_op B p m s1 e1 s2 e2.
Proof. exact float_div_ctx_agrees. Qed.
Print Assumptions C15_float_div_ctx_agrees.

(** Clone for Repr on the abstract representation (capacity field, sign, words): clone() and
    clone_from() onto ANY previous value copy sign and words, keep the invariant of a stored integer
    and leave a compact buffer; lifted to every finite history of clone_from by induction *)
Theorem C15_clone_ok : forall maxcap src, rinv maxcap src ->
  let c := clone_asis maxcap src in
  r_words c = r_words src /\ r_neg c = r_neg src /\ rinv maxcap c /\ compact maxcap c.
Proof. exact clone_ok. Qed.
Print Assumptions C15_clone_ok.

Theorem C15_clone_from_ok : forall maxcap dst src, rinv maxcap dst -> rinv maxcap src ->
  let c := clone_from_asis maxcap dst src in
  r_words c = r_words src /\ r_neg c = r_neg src /\ rinv maxcap c /\ compact maxcap c.
Proof. exact clone_from_ok. Qed.
Print Assumptions C15_clone_from_ok.

Theorem C15_clone_from_history : forall maxcap srcs dst, rinv maxcap dst ->
  Forall (rinv maxcap) srcs -> srcs <> [] ->
  let c := clone_from_history maxcap dst srcs in
  r_words c = r_words (last srcs dst) /\ r_neg c = r_neg (last srcs dst) /\ rinv maxcap c /\ compact maxcap c.
Proof. exact clone_from_history_ok. Qed.
Print Assumptions C15_clone_from_history.

(** ================================================================================================
    deepening: the Repr-level ownership arms of * / % div_rem & | ^ << >> ; rational and residue forms
    ================================================================================================ *)

(** integer * (mul_ops.rs mod repr; thresholds of the source; on C01's repr_mul_correct): the four
    ownership impls - one of them runs the arms on the EXCHANGED operands - build the identical
    canonical Repr and never panic; with the sign rule of impl_ibig_mul; the squaring shortcut of
    mul_large for equal operands and the method sqr() build the same Repr as the product *)
Theorem C15_ubig_mul_forms_identical : forall w, 8 <= w -> forall o o' x y, twf w x -> twf w y ->
  exists r, repr_mul_form w o x y = Ok r /\ repr_mul_form w o' x y = Ok r /\
    repr_value w r = repr_value w x * repr_value w y /\ twf w r.
Proof. exact ubig_mul_forms_identical. Qed.
Print Assumptions C15_ubig_mul_forms_identical.

Theorem C15_ibig_mul_forms_identical : forall w, 8 <= w -> forall o o' s0 x s1 y, twf w x -> twf w y ->
  exists r, ibig_mul_form w o s0 x s1 y = Ok r /\ ibig_mul_form w o' s0 x s1 y = Ok r /\
    srepr_value w r = signed s0 (repr_value w x) * signed s1 (repr_value w y) /\ twf w (snd r).
Proof. exact ibig_mul_forms_identical. Qed.
Print Assumptions C15_ibig_mul_forms_identical.

Theorem C15_ubig_sqr_forms_identical : forall w, 8 <= w -> forall o x, twf w x ->
  exists r, repr_mul_form w o x x = Ok r /\ repr_sqr w src_T_simple src_T_kara forms_SQR x = Ok r /\
    repr_value w r = repr_value w x * repr_value w x /\ twf w r.
Proof. exact ubig_sqr_forms_identical. Qed.
Print Assumptions C15_ubig_sqr_forms_identical.

(** integer div_rem, / and % (div_ops.rs mod repr over C02's kernel models, instance of the C02
    oracle): every ownership impl of DivRem returns the same pair of canonical Reprs; `/` (quotient
    words of div_rem_in_lhs) and `%` (the remainder-only loops rem_by_word / rem_by_dword for one-
    and two-word divisors) return the two halves of div_rem as identical Reprs; all forms panic with
    DivideBy0 exactly for a zero divisor and otherwise return floor quotient and remainder *)
Theorem C15_ubig_div_forms_identical : forall w, 8 <= w -> forall o o' x y, twf w x -> twf w y ->
  i_div_rem_form w o x y = i_div_rem_form w o' x y /\
  i_div_form w o x y = rfst (i_div_rem_form w o' x y) /\
  i_rem_form w o x y = rsnd (i_div_rem_form w o' x y) /\
  (repr_value w y = 0 -> i_div_rem_form w o x y = Panic DivideBy0) /\
  (repr_value w y <> 0 -> exists q r, i_div_rem_form w o x y = Ok (q, r) /\
     repr_value w q = repr_value w x / repr_value w y /\ repr_value w r = repr_value w x mod repr_value w y /\
     twf w q /\ twf w r).
Proof. exact i_ubig_div_forms_identical. Qed.
Print Assumptions C15_ubig_div_forms_identical.

(** the same for ANY word kernels that meet the kernel contracts (what C02 proves of its models) *)
Theorem C15_ubig_div_forms_identical_rel : forall w, 8 <= w ->
  forall (k_dw k_dd : list Z -> Z -> list Z * Z) (k_rw k_rd : list Z -> Z -> Z) (k_large : list Z -> list Z -> result (list Z * list Z)),
  (forall ws d, wf w ws -> 0 < d < B w -> forall q r, k_dw ws d = (q, r) -> value w q = value w ws / d /\ r = value w ws mod d /\ wf w q) ->
  (forall ws d, wf w ws -> (2 <= length ws)%nat -> B w <= d < B w * B w -> forall q r, k_dd ws d = (q, r) ->
     value w q = value w ws / d /\ r = value w ws mod d /\ wf w q) ->
  (forall ws d, wf w ws -> ws <> [] -> 0 < d < B w -> k_rw ws d = value w ws mod d) ->
  (forall ws d, wf w ws -> (2 <= length ws)%nat -> B w <= d < B w * B w -> k_rd ws d = value w ws mod d) ->
  (forall lhs rhs, wf w lhs -> wf w rhs -> (2 <= length rhs)%nat -> (length rhs <= length lhs)%nat -> nth (length rhs - 1) rhs 0 <> 0 ->
     exists q r, k_large lhs rhs = Ok (q, r) /\ value w q = value w lhs / value w rhs /\ value w r = value w lhs mod value w rhs /\
       wf w q /\ wf w r) ->
  forall o o' x y, twf w x -> twf w y ->
  repr_div_rem_form w k_dw k_dd k_large o x y = repr_div_rem_form w k_dw k_dd k_large o' x y /\
  repr_div_form w k_dw k_dd k_large o x y = rfst (repr_div_rem_form w k_dw k_dd k_large o' x y) /\
  repr_rem_form w k_rw k_rd k_large o x y = rsnd (repr_div_rem_form w k_dw k_dd k_large o' x y) /\
  divrem_post w x y (repr_div_rem_form w k_dw k_dd k_large o x y).
Proof. exact ubig_div_forms_identical. Qed.
Print Assumptions C15_ubig_div_forms_identical_rel.

Theorem C15_ibig_div_forms_identical : forall w, 8 <= w -> forall o o' s0 x s1 y, twf w x -> twf w y ->
  i_ibig_div_rem_form w o s0 x s1 y = i_ibig_div_rem_form w o' s0 x s1 y /\
  i_ibig_div_form w o s0 x s1 y = rfst (i_ibig_div_rem_form w o' s0 x s1 y) /\
  i_ibig_rem_form w o s0 x s1 y = rsnd (i_ibig_div_rem_form w o' s0 x s1 y) /\
  (repr_value w y = 0 -> i_ibig_div_rem_form w o s0 x s1 y = Panic DivideBy0) /\
  (repr_value w y <> 0 -> exists q r, i_ibig_div_rem_form w o s0 x s1 y = Ok (q, r) /\
     srepr_value w q = Z.quot (signed s0 (repr_value w x)) (signed s1 (repr_value w y)) /\
     srepr_value w r = Z.rem (signed s0 (repr_value w x)) (signed s1 (repr_value w y)) /\
     twf w (snd q) /\ twf w (snd r)).
Proof. exact i_ibig_div_forms_identical. Qed.
Print Assumptions C15_ibig_div_forms_identical.

(** integer & | ^ (bits.rs mod repr; on C09's repr_bit*_correct): every ownership arm (reuse the
    shorter / the longer / the owned buffer, operands exchanged for &T op T) builds the identical
    canonical Repr; any word size *)
Theorem C15_ubig_bitand_forms_identical : forall w, 0 < w -> forall o o' a b, brepr_ok w a -> brepr_ok w b ->
  repr_bitand w o a b = repr_bitand w o' a b /\ bvalue w (repr_bitand w o a b) = Z.land (bvalue w a) (bvalue w b).
Proof. exact ubig_bitand_forms_identical. Qed.
Print Assumptions C15_ubig_bitand_forms_identical.

Theorem C15_ubig_bitor_forms_identical : forall w, 0 < w -> forall o o' a b, brepr_ok w a -> brepr_ok w b ->
  repr_bitor w o a b = repr_bitor w o' a b /\ bvalue w (repr_bitor w o a b) = Z.lor (bvalue w a) (bvalue w b).
Proof. exact ubig_bitor_forms_identical. Qed.
Print Assumptions C15_ubig_bitor_forms_identical.

Theorem C15_ubig_bitxor_forms_identical : forall w, 0 < w -> forall o o' a b, brepr_ok w a -> brepr_ok w b ->
  repr_bitxor w o a b = repr_bitxor w o' a b /\ bvalue w (repr_bitxor w o a b) = Z.lxor (bvalue w a) (bvalue w b).
Proof. exact ubig_bitxor_forms_identical. Qed.
Print Assumptions C15_ubig_bitxor_forms_identical.

Theorem C15_ubig_bitops_swapped_identical : forall w, 0 < w -> forall o a b, brepr_ok w a -> brepr_ok w b ->
  repr_bitand w o b a = repr_bitand w o a b /\ repr_bitor w o b a = repr_bitor w o a b /\
  repr_bitxor w o b a = repr_bitxor w o a b.
Proof. exact ubig_bitops_swapped_identical. Qed.
Print Assumptions C15_ubig_bitops_swapped_identical.

Theorem C15_ibig_bitops_forms_identical : forall w, 0 < w -> forall o o' s0 r0 s1 r1, mag_ok w s0 r0 -> mag_ok w s1 r1 ->
  ibig_bitand_asis w o s0 r0 s1 r1 = ibig_bitand_asis w o' s0 r0 s1 r1 /\
  ibig_bitor_asis w o s0 r0 s1 r1 = ibig_bitor_asis w o' s0 r0 s1 r1 /\
  ibig_bitxor_asis w o s0 r0 s1 r1 = ibig_bitxor_asis w o' s0 r0 s1 r1 /\
  ibig_bitand_asis w o s0 r0 s1 r1 = Z.land (signed s0 (bvalue w r0)) (signed s1 (bvalue w r1)) /\
  ibig_bitor_asis w o s0 r0 s1 r1 = Z.lor (signed s0 (bvalue w r0)) (signed s1 (bvalue w r1)) /\
  ibig_bitxor_asis w o s0 r0 s1 r1 = Z.lxor (signed s0 (bvalue w r0)) (signed s1 (bvalue w r1)).
Proof. exact ibig_bitops_forms_identical. Qed.
Print Assumptions C15_ibig_bitops_forms_identical.

(** integer << and >> (shift_ops.rs mod repr; on C09's repr_sh*_correct): the owned body (in place
    when the capacity suffices [cap], copying otherwise) and the borrowed body build the identical Repr *)
Theorem C15_ubig_shl_forms_identical : forall w, 0 < w -> forall cap cap' r n, 0 <= n -> brepr_ok w r ->
  repr_shl w cap r n = repr_shl w cap' r n /\ repr_shl_ref w r n = repr_shl w cap r n /\
  bvalue w (repr_shl w cap r n) = Z.shiftl (bvalue w r) n.
Proof. exact ubig_shl_forms_identical. Qed.
Print Assumptions C15_ubig_shl_forms_identical.

Theorem C15_ubig_shr_forms_identical : forall w, 0 < w -> forall r n, 0 <= n -> brepr_ok w r ->
  repr_shr_ref w r n = repr_shr w r n /\ bvalue w (repr_shr w r n) = Z.shiftr (bvalue w r) n.
Proof. exact ubig_shr_forms_identical. Qed.
Print Assumptions C15_ubig_shr_forms_identical.

Theorem C15_ibig_shift_forms_identical : forall w, 0 < w -> forall s cap cap' r n, 0 <= n -> brepr_ok w r ->
  ibig_shl_asis w s cap r n = ibig_shl_asis w s cap' r n /\
  ibig_shl_ref_asis w s r n = ibig_shl_asis w s cap r n /\
  ibig_shl_asis w s cap r n = Z.shiftl (signed s (bvalue w r)) n /\
  ibig_shr_ref_asis w s r n = ibig_shr_asis w s r n /\
  ibig_shr_asis w s r n = Z.shiftr (signed s (bvalue w r)) n.
Proof. exact ibig_shift_forms_identical. Qed.
Print Assumptions C15_ibig_shift_forms_identical.

(** rational forms (corollaries of C04): the integer-mixed forms, both ways round, return exactly
    what the all-rational operator returns on the embedded integer; div_rem_euclid = (div_euclid,
    rem_euclid); Relaxed: the same up to the value; every Relaxed form = the RBig form *)
Theorem C15_rbig_int_forms_agree : forall u o x i, Inv x -> (u = true -> 0 <= i) ->
  int_asis u o x i = bin3 bin_asis (int_as_bin o x i).
Proof. exact rbig_int_forms_agree. Qed.
Print Assumptions C15_rbig_int_forms_agree.

Theorem C15_rbig_int_commuted_forms_agree : forall u x i, Inv x -> (u = true -> 0 <= i) ->
  int_asis u IAdd x i = bin_asis OAdd (i, 1) x /\ int_asis u IMul x i = bin_asis OMul (i, 1) x.
Proof. exact rbig_int_commuted_forms_agree. Qed.
Print Assumptions C15_rbig_int_commuted_forms_agree.

Theorem C15_rbig_euclid_forms_agree : forall x y, Inv x -> Inv y ->
  divreme_asis x y = rbind (dive_asis x y) (fun q => rbind (reme_asis x y) (fun r => Ok (q, r))).
Proof. exact rbig_euclid_forms_agree. Qed.
Print Assumptions C15_rbig_euclid_forms_agree.

Theorem C15_relaxed_int_forms_agree : forall u o x i, RInv x -> (u = true -> 0 <= i) ->
  forms_veq (xint_asis u o x i) (bin3 xbin_asis (int_as_bin o x i)).
Proof. exact relaxed_int_forms_agree. Qed.
Print Assumptions C15_relaxed_int_forms_agree.

Theorem C15_relaxed_forms_eq_rbig : forall o io u x' y' x y i,
  RInv x' -> RInv y' -> Inv x -> Inv y -> veq x' x -> veq y' y -> (u = true -> 0 <= i) ->
  res_veq (xbin_asis o x' y') (bin_asis o x y) /\ res_veq (xint_asis u io x' i) (int_asis u io x i).
Proof. exact relaxed_forms_eq_rbig. Qed.
Print Assumptions C15_relaxed_forms_eq_rbig.

(** residue forms (corollaries of C13, relative to its contracts of the external functions):
    `&a + b` / `&a * b` run the body on the exchanged operands, a.sqr() / a.dbl() are separate
    kernels - all return the identical Reduced value; different rings: every form panics *)
Theorem C15_residue_forms_identical : forall w f2 f3 finv fgcd, 2 <= w -> externals_ok w f2 f3 finv fgcd ->
  forall o o' r x y a b, ring_wf w r -> rep r x a -> rep r y b ->
  (exists c, residue_add_form w o a b = Ok c /\ residue_add_form w o' a b = Ok c /\ rep r (x + y) c) /\
  (exists c, residue_mul_form w f2 f3 o a b = Ok c /\ residue_mul_form w f2 f3 o' a b = Ok c /\ rep r (x * y) c) /\
  (exists c, residue_sub_form w o a b = Ok c /\ residue_sub_form w o' a b = Ok c /\ rep r (x - y) c).
Proof. exact residue_forms_identical. Qed.
Print Assumptions C15_residue_forms_identical.

Theorem C15_residue_forms_different_rings : forall w f2 f3 o a b, r_id (e_ring a) <> r_id (e_ring b) ->
  residue_add_form w o a b = Panic DifferentRings /\ residue_mul_form w f2 f3 o a b = Panic DifferentRings /\
  residue_sub_form w o a b = Panic DifferentRings.
Proof. exact residue_forms_different_rings. Qed.
Print Assumptions C15_residue_forms_different_rings.

Theorem C15_residue_method_forms_identical : forall w f2 f3 finv fgcd, 2 <= w -> externals_ok w f2 f3 finv fgcd ->
  forall o r x a, ring_wf w r -> rep r x a ->
  (exists c, sqr_asis w f2 f3 a = Ok c /\ residue_mul_form w f2 f3 o a a = Ok c /\ rep r (x * x) c) /\
  (exists c, dbl_asis w a = Ok c /\ residue_add_form w o a a = Ok c /\ rep r (x + x) c).
Proof. exact residue_method_forms_identical. Qed.
Print Assumptions C15_residue_method_forms_identical.

(** ================================================================================================
    round 3: arm tables regenerated from the source; gcd at Repr level; the repaired zero shortcut of
    FBig + / -; the classes of * and / exactly; Sum / Product; residue / and op=; rational macro arms
    ================================================================================================ *)

(** directly over the REGENERATED arm tables (DashuGen.FormsArms, from mul_ops.rs / div_ops.rs /
    gcd_ops.rs mod repr), for ANY kernels: the separately written ownership impls are the same
    function of the kernels (T * &T runs the arms on the exchanged operands; &T / T copies the
    shorter dividend into the divisor's buffer) *)
Theorem C15_gen_add_sub_arms_same : forall K,
  (forall a b, k_add_dword K a b = k_add_dword K b a) -> (forall a b, k_add_large K a b = k_add_large K b a) ->
  (forall a b, k_sub_large_ref_val K a b = k_sub_large K a b) ->
  forall o x y, gen_add K o x y = gen_add K OVV x y /\ gen_sub K o x y = gen_sub K OVV x y.
Proof. intros K H0 H1 H2 o x y. exact (conj (gen_add_arms_same K H0 H1 o x y) (gen_sub_arms_same K H2 o x y)). Qed.
Print Assumptions C15_gen_add_sub_arms_same.

Theorem C15_gen_mul_arms_same : forall K x y,
  gen_mul K ORV x y = gen_mul K OVV x y /\ gen_mul K ORR x y = gen_mul K OVV x y /\
  gen_mul K OVR x y = gen_mul K OVV y x.
Proof. exact gen_mul_arms_same. Qed.
Print Assumptions C15_gen_mul_arms_same.

Theorem C15_gen_div_arms_same : forall K, (forall buf src, k_clone_from_slice K buf src = src) ->
  forall o x y,
  gen_div_rem K o x y = gen_div_rem K OVV x y /\ gen_div K o x y = gen_div K OVV x y /\
  gen_rem K o x y = gen_rem K OVV x y.
Proof. exact gen_div_arms_same. Qed.
Print Assumptions C15_gen_div_arms_same.

Theorem C15_gen_gcd_arms_same : forall K o x y,
  gen_gcd K o x y = gen_gcd K ORR x y /\ gen_gcd_ext K o x y = gen_gcd_ext K OVV x y.
Proof. exact gen_gcd_arms_same. Qed.
Print Assumptions C15_gen_gcd_arms_same.

(** the regenerated arm tables ARE the hand-written form models of the theorems above *)
Theorem C15_gen_int_arms_model : forall w k_dw k_dd k_rw k_rd k_large k_dg k_wg k_core k_xd k_xld k_xl o x y,
  let MK := model_kernels w k_dw k_dd k_rw k_rd k_large k_dg k_wg k_core k_xd k_xld k_xl in
  gen_add MK o x y = Ok (repr_add w o x y) /\ gen_sub MK o x y = repr_sub w o x y /\
  gen_mul MK o x y = repr_mul_form w o x y /\
  gen_div_rem MK o x y = repr_div_rem_form w k_dw k_dd k_large o x y /\
  gen_div MK o x y = repr_div_form w k_dw k_dd k_large o x y /\
  gen_rem MK o x y = repr_rem_form w k_rw k_rd k_large o x y /\
  gen_gcd MK o x y = repr_gcd_form w k_dg k_wg k_rw k_rd k_core o x y.
Proof.
  intros. refine (conj (gen_add_model _ _ _ _ _ _ _ _ _ _ _ _ o x y) (conj (gen_sub_model _ _ _ _ _ _ _ _ _ _ _ _ o x y) _)).
  exact (conj (gen_mul_model _ _ _ _ _ _ _ _ _ _ _ _ o x y) (conj (gen_div_rem_model _ _ _ _ _ _ _ _ _ _ _ _ o x y)
    (conj (gen_div_model _ _ _ _ _ _ _ _ _ _ _ _ o x y) (conj (gen_rem_model _ _ _ _ _ _ _ _ _ _ _ _ o x y) (gen_gcd_model _ _ _ _ _ _ _ _ _ _ _ _ o x y))))).
Qed.
Print Assumptions C15_gen_int_arms_model.

(** integer gcd (gcd_ops.rs mod repr), for ANY kernels that meet the kernel contracts: every
    ownership form and the call with the operands exchanged build the identical canonical Repr of
    Z.gcd; all panic exactly for gcd(0, 0) *)
Theorem C15_ubig_gcd_forms_identical_rel : forall w, 8 <= w ->
  forall (k_dg k_wg : Z -> Z -> result Z) (k_rw k_rd : list Z -> Z -> Z) (k_core : list Z -> list Z -> result (list Z)),
  (forall a b, 0 <= a -> 0 <= b -> k_dg a b = if (a =? 0) && (b =? 0) then Panic GcdZeroZero else Ok (Z.gcd a b)) ->
  (forall a b, 0 < a -> 0 < b -> k_wg a b = Ok (Z.gcd a b)) ->
  (forall ws d, wf w ws -> ws <> [] -> 0 < d < B w -> k_rw ws d = value w ws mod d) ->
  (forall ws d, wf w ws -> (2 <= length ws)%nat -> B w <= d < B w * B w -> k_rd ws d = value w ws mod d) ->
  (forall a b, wf w a -> wf w b -> 0 < value w b < value w a ->
     exists g, k_core a b = Ok g /\ wf w g /\ value w g = Z.gcd (value w a) (value w b)) ->
  forall o o' x y, twf w x -> twf w y ->
  let f := repr_gcd_form w k_dg k_wg k_rw k_rd k_core in
  f o x y = f o' x y /\ f o y x = f o' x y /\
  (repr_value w x = 0 /\ repr_value w y = 0 -> f o x y = Panic GcdZeroZero) /\
  (~ (repr_value w x = 0 /\ repr_value w y = 0) ->
     exists r, f o x y = Ok r /\ repr_value w r = Z.gcd (repr_value w x) (repr_value w y) /\ twf w r).
Proof. exact ubig_gcd_forms_identical. Qed.
Print Assumptions C15_ubig_gcd_forms_identical_rel.

(** the table of primitive-operand forms regenerated from the macro invocations of add_ops.rs /
    mul_ops.rs / div_ops.rs / bits.rs: Output types = out_ty of the model; which forms exist *)
Theorem C15_gen_prim_out_model : forall bs ps n o left, gen_prim_out bs ps o left <> PoNone ->
  pout_ty bs ps n (gen_prim_out bs ps o left) = Some (out_ty (big_ty bs) (TPrim ps n) o left).
Proof. exact gen_prim_out_model. Qed.
Print Assumptions C15_gen_prim_out_model.

Theorem C15_gen_prim_offered : forall bs ps o left,
  gen_prim_out bs ps o left = PoNone <-> ((bs = false /\ ps = true) \/ (o = IoRem /\ left = true)).
Proof. exact gen_prim_offered. Qed.
Print Assumptions C15_gen_prim_offered.

Theorem C15_gen_prim_divrem_offered : forall bs ps, gen_prim_divrem bs ps = negb (negb bs && ps).
Proof. exact gen_prim_divrem_offered. Qed.
Print Assumptions C15_gen_prim_divrem_offered.

(** FBig + and - after the repair of the zero shortcut: all four operator bodies (and += / -=
    through take) and the Context method agree for ALL operands - no hypothesis on their lengths *)
Theorem C15_float_add_forms_agree_r3 : forall B digits_ub, (forall s, digits_ub (- s) = digits_ub s) ->
  forall o o' p1 p2 m s1 e1 s2 e2 sg,
  fadd_form B digits_ub o p1 p2 m s1 e1 s2 e2 sg = fadd_form B digits_ub o' p1 p2 m s1 e1 s2 e2 sg.
Proof. exact float_add_forms_agree_r3. Qed.
Print Assumptions C15_float_add_forms_agree_r3.

Theorem C15_float_add_ctx_agrees_r3 : forall B digits_ub, (forall s, digits_ub (- s) = digits_ub s) ->
  forall o p1 p2 m s1 e1 s2 e2,
  approx_val (ctx_add B digits_ub (ctx_max p1 p2) m s1 e1 s2 e2) = fadd_form B digits_ub o p1 p2 m s1 e1 s2 e2 Positive.
Proof. exact float_add_ctx_agrees_r3. Qed.
Print Assumptions C15_float_add_ctx_agrees_r3.

Theorem C15_float_sub_ctx_agrees_r3 : forall B digits_ub, (forall s, digits_ub (- s) = digits_ub s) ->
  forall o p1 p2 m s1 e1 s2 e2,
  approx_val (ctx_sub_r3 B digits_ub (ctx_max p1 p2) m s1 e1 s2 e2) = fadd_form B digits_ub o p1 p2 m s1 e1 s2 e2 Negative.
Proof. exact float_sub_ctx_agrees_r3. Qed.
Print Assumptions C15_float_sub_ctx_agrees_r3.

Theorem C15_fadd_form_eq_pinned : forall B digits_ub p1 p2 m s1 e1 s2 e2 sg,
  let p := ctx_max p1 p2 in (p = 0 \/ (dlen B s1 <= p /\ dlen B s2 <= p)) ->
  fadd_form B digits_ub OVV p1 p2 m s1 e1 s2 e2 sg = add_val_val B digits_ub p1 p2 m s1 e1 s2 e2 sg.
Proof. exact fadd_form_eq_pinned. Qed.
Print Assumptions C15_fadd_form_eq_pinned.

Theorem C15_float_zero_shortcut_repaired :
  fadd_form 10 (dlen 10) OVV 0 3 MHalfAway 123456 0 0 0 Positive = (123, 3) /\
  add_val_val_x 10 0 3 MHalfAway 123456 0 0 0 Positive = (123456, 0) /\
  approx_val (ctx_sub_r3 10 (dlen 10) 3 MUp 0 0 123456 0) = (-123, 3) /\
  approx_val (ctx_sub_x 10 3 MUp 0 0 123456 0) = (-124, 3).
Proof. exact float_zero_shortcut_repaired. Qed.
Print Assumptions C15_float_zero_shortcut_repaired.

(** regenerated float fragments (DashuGen.FormsFloatGen, from float/src/mul.rs, div.rs, shift.rs,
    iter.rs and the method wrappers) = the models *)
Theorem C15_gen_fmul_model : forall o B m p1 s1 e1 p2 s2 e2,
  gen_fmul o B m p1 s1 e1 p2 s2 e2 = (fmul_op B (ctx_max p1 p2) m s1 e1 s2 e2, ctx_max p1 p2) /\
  gen_fmul_checks_finite o = true.
Proof. exact gen_fmul_model. Qed.
Print Assumptions C15_gen_fmul_model.

Theorem C15_gen_fdivrem_model : forall (A V : Type) o (f : Z -> A -> A -> V) p1 r1 p2 r2,
  gen_fdivrem o f p1 r1 p2 r2 = (f (ctx_max p1 p2) r1 r2, ctx_max p1 p2) /\
  gen_fdivrem_insts = [(FDivOp, FReprDiv); (FRemOp, FReprRem)].
Proof. intros. exact (conj (gen_fdivrem_model A V o f p1 r1 p2 r2) gen_fdivrem_insts_model). Qed.
Print Assumptions C15_gen_fdivrem_model.

Theorem C15_gen_fshift_model : forall s e n,
  fshl_asis (FFin s e) n = Ok (fin_of (gen_fshl s e n)) /\ fshl_asis (FFin s e) n = Ok (fin_of (gen_fshl_assign s e n)) /\
  fshr_asis (FFin s e) n = Ok (fin_of (gen_fshr s e n)) /\ fshr_asis (FFin s e) n = Ok (fin_of (gen_fshr_assign s e n)) /\
  gen_fshl_checks_finite && gen_fshl_assign_checks_finite && gen_fshr_checks_finite && gen_fshr_assign_checks_finite = true.
Proof. exact gen_fshift_model. Qed.
Print Assumptions C15_gen_fshift_model.

Theorem C15_gen_fmethod_forwards :
  map fst gen_fmethod_forwards = [FM_exp; FM_exp_m1; FM_powi; FM_ln; FM_ln_1p; FM_sqrt; FM_sqr; FM_cubic; FM_inv] /\
  Forall (fun p => fst p = snd p) gen_fmethod_forwards.
Proof. exact gen_fmethod_forwards_model. Qed.
Print Assumptions C15_gen_fmethod_forwards.

(** the open class float_operand_exceeds_precision, exactly: `/` and Context::div agree IFF the
    dividend is not longer than precision + digits of the divisor; inside the class the operator
    trips the assertion of repr_div (Undocumented) and Context::div never does *)
Theorem C15_float_div_class_exact : forall B p m s1 e1 s2 e2,
  fdiv_ctx B p m s1 e1 s2 e2 = fdiv_op B p m s1 e1 s2 e2 <-> ~ (p <> 0 /\ p + dlen B s2 < dlen B s1).
Proof. exact float_div_class_exact. Qed.
Print Assumptions C15_float_div_class_exact.

Theorem C15_fdiv_op_undocumented_iff : forall B p m s1 e1 s2 e2,
  (fdiv_op B p m s1 e1 s2 e2 = Panic Undocumented <-> (p <> 0 /\ p + dlen B s2 < dlen B s1)) /\
  fdiv_ctx B p m s1 e1 s2 e2 <> Panic Undocumented.
Proof. intros. exact (conj (fdiv_op_undocumented_iff B p m s1 e1 s2 e2) (fdiv_ctx_never_undocumented B p m s1 e1 s2 e2)). Qed.
Print Assumptions C15_fdiv_op_undocumented_iff.

Theorem C15_float_mul_class : forall B p m s1 e1 s2 e2, ~ fmul_class B p s1 s2 ->
  approx_val (ctx_mul B p m s1 e1 s2 e2) = fmul_op B p m s1 e1 s2 e2.
Proof. exact float_mul_class. Qed.
Print Assumptions C15_float_mul_class.

(** Sum / Product of FBig = the fold of + / * from FBig::ZERO / FBig::ONE (regenerated from iter.rs);
    over owned items, borrowed items, or folded by hand with + / += : one value, for every list *)
Theorem C15_gen_fsum_model : forall B digits_ub m o (fsub fdiv : fval3 -> fval3 -> fval3) items,
  gen_fsum F_ZERO F_ONE F_NEG_ONE (fadd3 B digits_ub m o Positive) fsub (fmul3 B m) fdiv items = fsum_asis B digits_ub m o items /\
  gen_fprod F_ZERO F_ONE F_NEG_ONE (fadd3 B digits_ub m o Positive) fsub (fmul3 B m) fdiv items = fprod_asis B m items.
Proof. exact gen_fsum_model. Qed.
Print Assumptions C15_gen_fsum_model.

Theorem C15_fsum_forms_agree : forall B digits_ub, (forall s, digits_ub (- s) = digits_ub s) ->
  forall m o o' items, fsum_asis B digits_ub m o items = fsum_asis B digits_ub m o' items.
Proof. exact fsum_forms_agree. Qed.
Print Assumptions C15_fsum_forms_agree.

(** residue forms: the forwarding structure regenerated from modular/{add,mul,div}.rs = the form
    models; `/`, `/=` and the other op= forms *)
Theorem C15_gen_residue_model : forall w f2 f3 finv fgcd o a b,
  let MK := model_res_kernels w f2 f3 finv fgcd in
  gen_radd MK o a b = residue_add_form w (rown_of o) a b /\
  gen_rsub MK o a b = residue_sub_form w (rown_of o) a b /\
  gen_rmul MK o a b = residue_mul_form w f2 f3 (rown_of o) a b /\
  gen_rdiv MK o a b = div_asis w f2 f3 finv fgcd a b /\
  (forall byref, gen_radd_assign MK byref a b = add_asis w a b /\ gen_rsub_assign MK byref a b = sub_asis w a b /\
                 gen_rmul_assign MK byref a b = mul_asis w f2 f3 a b /\ gen_rdiv_assign MK byref a b = div_asis w f2 f3 finv fgcd a b).
Proof. exact gen_residue_model. Qed.
Print Assumptions C15_gen_residue_model.

Theorem C15_residue_div_forms_identical : forall w f2 f3 finv fgcd, 2 <= w -> externals_ok w f2 f3 finv fgcd ->
  forall o o' byref r x y a b, ring_wf w r -> rep r x a -> rep r y b ->
  let MK := model_res_kernels w f2 f3 finv fgcd in
  gen_rdiv MK o a b = gen_rdiv MK o' a b /\ gen_rdiv_assign MK byref a b = gen_rdiv MK o a b /\
  match div_spec (r_m r) x y with
  | Ok q => exists c, gen_rdiv MK o a b = Ok c /\ rep r q c
  | Panic p => gen_rdiv MK o a b = Panic p
  | _ => False
  end.
Proof. exact residue_div_forms_identical. Qed.
Print Assumptions C15_residue_div_forms_identical.

Theorem C15_residue_assign_forms_identical : forall w f2 f3 finv fgcd byref a b,
  let MK := model_res_kernels w f2 f3 finv fgcd in
  gen_radd_assign MK byref a b = gen_radd MK OVR a b /\ gen_rsub_assign MK byref a b = gen_rsub MK OVR a b /\
  gen_rmul_assign MK byref a b = gen_rmul MK OVR a b.
Proof. exact residue_assign_forms_identical. Qed.
Print Assumptions C15_residue_assign_forms_identical.

(** rational macro families (regenerated from rational/src/helper_macros.rs): every ownership arm
    hands the ONE operator body the numerator and denominator of self, then of rhs (or the integer) *)
Theorem C15_gen_ratio_arms_same : forall o,
  gen_ratio_arm RmBin o = [SelfNum; SelfDen; RhsNum; RhsDen; SelfNum; SelfDen; RhsNum; RhsDen] /\
  gen_ratio_arm RmBin2 o = [SelfNum; SelfDen; RhsNum; RhsDen; SelfNum; SelfDen; RhsNum; RhsDen] /\
  gen_ratio_arm RmIntRight o = [SelfNum; SelfDen; RhsInt; SelfNum; SelfDen; RhsInt] /\
  gen_ratio_arm RmIntLeft o = [RhsNum; RhsDen; SelfInt; RhsNum; RhsDen; SelfInt] /\
  gen_ratio_assign_by_taking = true.
Proof. exact gen_ratio_arms_same. Qed.
Print Assumptions C15_gen_ratio_arms_same.

(** ------------------------------------------------------------------------------------------------
    round 4 *)
From Dashu Require Import Int.GrlSpec Int.GrlModel Int.GrlLehmer Forms.FormsGcdInst Forms.FormsGcdClosed.
From Dashu Require Import Float.DivMulModel Float.DivMulProof Float.AddModelProof Float.FixModel Float.FixMulDivProof Forms.FormsR4Spec Forms.FormsFloatR4.
From Dashu Require Forms.FormsInventoryProofs.
From DashuGen Require Import FormsCtxGen.
From DashuGen Require FormsInventory.

(** integer gcd, the five kernel contracts DISCHARGED for the as-is instance (C12: primitive binary gcd,
    Lehmer loop of gcd_in_place; C02: rem_by_word / rem_by_dword): every ownership form and the call with the
    operands exchanged build the identical canonical Repr of Z.gcd, all panic exactly for gcd(0, 0); any word
    size; the only premises left are that the fuels of the model suffice (fuel is not part of the code) *)
Theorem C15_prim_gcd_asis_total : forall fuel bits a b, 0 <= a -> 0 <= b -> a + b <= Z.of_nat fuel ->
  prim_gcd_asis fuel bits a b = gcd_spec a b.
Proof. exact prim_gcd_asis_total. Qed.
Print Assumptions C15_prim_gcd_asis_total.

Theorem C15_gcd_in_place_total : forall lf pf mdl w x y, 2 <= w -> 3 <= mdl -> 0 <= y <= x ->
  x + y < Z.of_nat lf -> 2 * 2 ^ (2 * w) <= Z.of_nat pf ->
  exists sw, gcd_in_place_gen lf pf mdl w x y = Ok (Z.gcd x y, sw).
Proof. exact gcd_in_place_total. Qed.
Print Assumptions C15_gcd_in_place_total.

Theorem C15_ubig_gcd_forms_identical : forall w, 8 <= w -> forall (lf : Z -> Z -> nat) (pf : nat),
  (forall x y, 0 <= y <= x -> x + y < Z.of_nat (lf x y)) -> 2 * (B w * B w) <= Z.of_nat pf ->
  forall o o' x y, twf w x -> twf w y ->
  let f := i_gcd_form_f lf pf w in
  f o x y = f o' x y /\ f o y x = f o' x y /\
  (repr_value w x = 0 /\ repr_value w y = 0 -> f o x y = Panic GcdZeroZero) /\
  (~ (repr_value w x = 0 /\ repr_value w y = 0) ->
     exists r, f o x y = Ok r /\ repr_value w r = Z.gcd (repr_value w x) (repr_value w y) /\ twf w r).
Proof. exact ubig_gcd_forms_identical_closed. Qed.
Print Assumptions C15_ubig_gcd_forms_identical.

(** ... and such fuels exist: the statement without any premise about the model *)
Theorem C15_ubig_gcd_forms_identical_total : forall w, 8 <= w -> forall o o' x y, twf w x -> twf w y ->
  let f := i_gcd_form_f lf_total (pf_total w) w in
  f o x y = f o' x y /\ f o y x = f o' x y /\
  (repr_value w x = 0 /\ repr_value w y = 0 -> f o x y = Panic GcdZeroZero) /\
  (~ (repr_value w x = 0 /\ repr_value w y = 0) ->
     exists r, f o x y = Ok r /\ repr_value w r = Z.gcd (repr_value w x) (repr_value w y) /\ twf w r).
Proof. exact ubig_gcd_forms_identical_total. Qed.
Print Assumptions C15_ubig_gcd_forms_identical_total.

(** the instance the oracle runs is this one with the fuels lehmer_fuel / gcd_prim_fuel *)
Theorem C15_gcd_oracle_instance : forall w, i_gcd_form w = i_gcd_form_f lehmer_fuel gcd_prim_fuel w.
Proof. exact i_gcd_form_is_f. Qed.
Print Assumptions C15_gcd_oracle_instance.

(** FBig `*` and `/` after the repairs 675af08 / da565f6: the class float_operand_exceeds_precision is closed.
    Over the code regenerated from float/src/{mul,div}.rs: every operator arm = the Context method at the
    larger precision, for ALL operands *)
Theorem C15_gen_ctx_mul_model : forall B p m s1 e1 s2 e2, gen_ctx_mul B p m s1 e1 s2 e2 = ctx_mul_fix B p m s1 e1 s2 e2.
Proof. exact gen_ctx_mul_model. Qed.
Print Assumptions C15_gen_ctx_mul_model.

Theorem C15_gen_ctx_sqr_cubic_model : forall B p m s e,
  gen_ctx_sqr B p m s e = ctx_sqr_fix B p m s e /\ gen_ctx_cubic B p m s e = ctx_cubic_fix B p m s e /\
  gen_ctx_sqr B p m s e = gen_ctx_mul B p m s e s e.
Proof. exact (fun B p m s e => conj (gen_ctx_sqr_model B p m s e) (conj (gen_ctx_cubic_model B p m s e) (gen_ctx_sqr_is_mul B p m s e))). Qed.
Print Assumptions C15_gen_ctx_sqr_cubic_model.

Theorem C15_gen_div_scale_model : forall B p s1 s2 e2, gen_div_scale B p s1 s2 e2 = div_scale B p s1 s2 e2.
Proof. exact gen_div_scale_model. Qed.
Print Assumptions C15_gen_div_scale_model.

Theorem C15_gen_repr_div_checks_model : gen_repr_div_checks = [RdFinite; RdLimited].
Proof. exact gen_repr_div_checks_model. Qed.
Print Assumptions C15_gen_repr_div_checks_model.

Theorem C15_gen_ctx_div_inv_model : forall B m p s1 e1 s2 e2,
  gen_ctx_div (k_repr_div B m) p s1 e1 s2 e2 = fdiv_ctx_r4 B p m s1 e1 s2 e2 /\
  gen_ctx_inv (k_repr_div B m) p s2 e2 = finv_r4 B p m s2 e2.
Proof. exact (fun B m p s1 e1 s2 e2 => conj (gen_ctx_div_model B m p s1 e1 s2 e2) (gen_ctx_inv_model B m p s2 e2)). Qed.
Print Assumptions C15_gen_ctx_div_inv_model.

Theorem C15_float_mul_forms_ctx_r4 : forall o B m p1 s1 e1 p2 s2 e2,
  gen_fmul o B m p1 s1 e1 p2 s2 e2 = (approx_val (gen_ctx_mul B (ctx_max p1 p2) m s1 e1 s2 e2), ctx_max p1 p2).
Proof. exact float_mul_forms_ctx_r4. Qed.
Print Assumptions C15_float_mul_forms_ctx_r4.

Theorem C15_float_div_forms_ctx_r4 : forall o (V : Type) (k : Z -> Z * Z -> Z * Z -> V) p1 s1 e1 p2 s2 e2,
  gen_fdivrem o k p1 (s1, e1) p2 (s2, e2) = (gen_ctx_div k (ctx_max p1 p2) s1 e1 s2 e2, ctx_max p1 p2).
Proof. exact float_div_forms_ctx_r4. Qed.
Print Assumptions C15_float_div_forms_ctx_r4.

(** the hand-written form models: operator = Context method for ALL operands (no length hypothesis) *)
Theorem C15_float_mul_ctx_agrees_r4 : forall B p m s1 e1 s2 e2,
  fmul_op B p m s1 e1 s2 e2 = fmul_ctx_r4 B p m s1 e1 s2 e2.
Proof. exact float_mul_ctx_agrees_r4. Qed.
Print Assumptions C15_float_mul_ctx_agrees_r4.

Theorem C15_float_div_ctx_agrees_r4 : forall B p m s1 e1 s2 e2,
  fdiv_op_r4 B p m s1 e1 s2 e2 = fdiv_ctx_r4 B p m s1 e1 s2 e2.
Proof. exact float_div_ctx_agrees_r4. Qed.
Print Assumptions C15_float_div_ctx_agrees_r4.

Theorem C15_fdiv_op_r4_eq_pinned : forall B, 2 <= B -> forall p m s1 e1 s2 e2, dlen B s1 <= p + dlen B s2 ->
  fdiv_op_r4 B p m s1 e1 s2 e2 = fdiv_op B p m s1 e1 s2 e2.
Proof. exact fdiv_op_r4_eq_pinned. Qed.
Print Assumptions C15_fdiv_op_r4_eq_pinned.

Theorem C15_float_div_panics_r4 : forall B m s1 e1 s2 e2 p,
  fdiv_op_r4 B 0 m s1 e1 s2 e2 = Panic UnlimitedPrecision /\ fdiv_ctx_r4 B 0 m s1 e1 s2 e2 = Panic UnlimitedPrecision /\
  (1 <= p -> fdiv_op_r4 B p m s1 e1 0 e2 = Panic DivideBy0 /\ fdiv_ctx_r4 B p m s1 e1 0 e2 = Panic DivideBy0).
Proof. exact float_div_panics_r4. Qed.
Print Assumptions C15_float_div_panics_r4.

(** ... and the common value is the correctly rounded one (C03: Float/FixMulDivProof.v) *)
Theorem C15_float_mul_forms_rounded_r4 : forall B, 2 <= B -> forall o m p1 s1 e1 p2 s2 e2, 1 <= ctx_max p1 p2 ->
  exists a, rounded_sum B (ctx_max p1 p2) m (s1 * s2) (e1 + e2) a /\
    gen_fmul o B m p1 s1 e1 p2 s2 e2 = (approx_val a, ctx_max p1 p2) /\
    gen_ctx_mul B (ctx_max p1 p2) m s1 e1 s2 e2 = a.
Proof. exact float_mul_forms_rounded_r4. Qed.
Print Assumptions C15_float_mul_forms_rounded_r4.

Theorem C15_float_div_forms_rounded_r4 : forall B, 2 <= B -> forall o m p1 s1 e1 p2 s2 e2, 1 <= ctx_max p1 p2 -> s2 <> 0 ->
  let p := ctx_max p1 p2 in
  let j := div_excess B p s1 s2 in
  let k := repr_div_shift B p s1 (s2 * B ^ j) in
  exists a, rounded_quot B p m (Z.sgn s2 * (s1 * B ^ k)) (Z.abs s2 * B ^ j) a /\ approx_exp a = e1 - e2 + j - k /\
    gen_fdivrem o (k_repr_div B m) p1 (s1, e1) p2 (s2, e2) = (Ok (approx_val a), p) /\
    gen_ctx_div (k_repr_div B m) p s1 e1 s2 e2 = Ok (approx_val a).
Proof. exact float_div_forms_rounded_r4. Qed.
Print Assumptions C15_float_div_forms_rounded_r4.

(** the repairs refute the pinned code on the witnesses of the (now fixed) finding *)
Theorem C15_float_mul_div_repaired :
  fmul_op 10 2 MHalfAway 12495001 0 1 0 = (12, 6) /\ approx_val (ctx_mul 10 2 MHalfAway 12495001 0 1 0) = (13, 6) /\
  fmul_ctx_r4 10 2 MHalfAway 12495001 0 1 0 = (12, 6) /\
  fdiv_op 10 2 MHalfAway 99999999 0 3 0 = Panic Undocumented /\ fdiv_ctx 10 2 MHalfAway 99999999 0 3 0 = Ok (33, 6) /\
  fdiv_op_r4 10 2 MHalfAway 99999999 0 3 0 = Ok (333, 5) /\ fdiv_ctx_r4 10 2 MHalfAway 99999999 0 3 0 = Ok (333, 5).
Proof. exact float_mul_div_repaired. Qed.
Print Assumptions C15_float_mul_div_repaired.

(** the inventory of operator-trait impls after macro expansion (regenerated from the rustdoc JSON of the working
    tree): Output types of the primitive-operand forms = the model; all ownership variants of one operator return
    the same types.  Finite domain: the generated table (FormsInventory.inventory_size rows) *)
Theorem C15_inventory_prim_out : forall r, In r FormsInventory.inventory -> FormsInventoryProofs.row_prim_ok r = true.
Proof. exact FormsInventoryProofs.inventory_prim_out. Qed.
Print Assumptions C15_inventory_prim_out.

Theorem C15_inventory_outputs_uniform : forall a b, In a FormsInventory.inventory -> In b FormsInventory.inventory ->
  FormsInventoryProofs.same_op a b = true -> FormsInventoryProofs.same_out a b = true.
Proof. exact FormsInventoryProofs.inventory_outputs_uniform. Qed.
Print Assumptions C15_inventory_outputs_uniform.

(** the forms with a prepared divisor (&ConstDivisor; integer/src/div_const.rs) return what the plain operators return *)
From Dashu Require Import Forms.FormsConstDiv.
Theorem C15_constdiv_forms_agree : forall w, 0 < w -> forall a d, 0 <= d ->
  cd_divrem_asis w a d = divrem_spec a d /\ cd_div_asis w a d = iop_spec IoDiv a d /\ cd_rem_asis w a d = iop_spec IoRem a d.
Proof. exact constdiv_forms_agree. Qed.
Print Assumptions C15_constdiv_forms_agree.
