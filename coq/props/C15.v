(** C15 - all forms of an operator give the same answer; clone / clone_from.
    ONLY statements pinned here; proofs live in Dashu.Forms.*. *)
From Dashu Require Import Base.Prelude Forms.FormsSpec Forms.FormsProofs Forms.FormsClone.
From Dashu Require Import Base.Words Int.RingOps Int.RingOpsProofs Forms.FormsInt.
From Dashu Require Import Float.RoundSpec Float.Contract Float.Model Float.AddModel Forms.FormsFloatSpec Forms.FormsFloat.
Open Scope Z_scope.

(** the primitive-operand forms ( big op prim, prim op big, in the four ownership arms each ) return
    what the all-big form returns, unless the result does not fit the primitive Output type *)
Theorem C15_prim_right_forms : forall t pt o x p,
  prim_unrepresentable (out_ty t pt o false) (big_op t o x p) = false ->
  prim_right_asis t pt o x p = big_op t o x p.
Proof. exact prim_right_agrees. Qed.
Print Assumptions C15_prim_right_forms.

Theorem C15_prim_left_forms : forall t pt o p x,
  prim_unrepresentable (out_ty t pt o true) (big_op t o p x) = false ->
  prim_left_asis t pt o p x = big_op t o p x.
Proof. exact prim_left_agrees. Qed.
Print Assumptions C15_prim_left_forms.

Theorem C15_prim_assign_forms : forall t o x p, prim_assign_asis t o x p = big_op t o x p.
Proof. exact prim_assign_agrees. Qed.
Print Assumptions C15_prim_assign_forms.

(** open finding class prim_result_unrepresentable: there the primitive forms panic, the big form returns *)
Theorem C15_prim_right_known_class : forall t pt o x p,
  prim_unrepresentable (out_ty t pt o false) (big_op t o x p) = true ->
  prim_right_asis t pt o x p = Panic Undocumented /\ exists v, big_op t o x p = Ok v.
Proof. exact prim_right_known. Qed.
Print Assumptions C15_prim_right_known_class.

Theorem C15_prim_left_known_class : forall t pt o p x,
  prim_unrepresentable (out_ty t pt o true) (big_op t o p x) = true ->
  prim_left_asis t pt o p x = Panic Undocumented /\ exists v, big_op t o p x = Ok v.
Proof. exact prim_left_known. Qed.
Print Assumptions C15_prim_left_known_class.

Theorem C15_prim_class_refuted :
  prim_right_asis TIBig (TPrim false 8) IoRem (-7) 3 = Panic Undocumented /\ big_op TIBig IoRem (-7) 3 = Ok (-1).
Proof. exact prim_rem_refuted. Qed.
Print Assumptions C15_prim_class_refuted.

(** where the class is empty / exactly what it is *)
Theorem C15_big_output_never_in_class : forall t o x p,
  (t = TUBig \/ t = TIBig) -> prim_unrepresentable t (big_op t o x p) = false.
Proof. exact prim_big_output_never_known. Qed.
Print Assumptions C15_big_output_never_in_class.

Theorem C15_rem_signed_fits : forall n x p, 0 < n ->
  in_ty (TPrim true n) p = true -> p <> 0 -> in_ty (TPrim true n) (Z.rem x p) = true.
Proof. exact rem_signed_fits. Qed.
Print Assumptions C15_rem_signed_fits.

Theorem C15_rem_unsigned_fits_iff : forall n x p, 0 <= p < 2 ^ n -> p <> 0 ->
  (in_ty (TPrim false n) (Z.rem x p) = true <-> (0 <= x \/ Z.rem x p = 0)).
Proof. exact rem_unsigned_fits_iff. Qed.
Print Assumptions C15_rem_unsigned_fits_iff.

Theorem C15_and_unsigned_fits : forall n x p, 0 <= n -> 0 <= p < 2 ^ n ->
  in_ty (TPrim false n) (Z.land x p) = true.
Proof. exact and_unsigned_fits. Qed.
Print Assumptions C15_and_unsigned_fits.

Theorem C15_rdiv_ubig_fits : forall n p x, 0 <= p < 2 ^ n -> 0 < x ->
  in_ty (TPrim false n) (Z.quot p x) = true.
Proof. exact rdiv_ubig_fits. Qed.
Print Assumptions C15_rdiv_ubig_fits.

Theorem C15_rdiv_ibig_unsigned_fits_iff : forall n p x, 0 <= p < 2 ^ n -> x <> 0 ->
  (in_ty (TPrim false n) (Z.quot p x) = true <-> 0 <= Z.quot p x).
Proof. exact rdiv_ibig_unsigned_fits_iff. Qed.
Print Assumptions C15_rdiv_ibig_unsigned_fits_iff.

(** op= by take-and-replace *)
Theorem C15_assign_by_taking : forall op a b,
  fst (assign_by_taking op a b) = op a b /\
  (forall v, op a b = Ok v -> snd (assign_by_taking op a b) = v) /\
  ((forall v, op a b <> Ok v) -> snd (assign_by_taking op a b) = 0).
Proof. exact assign_by_taking_ok. Qed.
Print Assumptions C15_assign_by_taking.

(** float shifts: << and <<=, >> and (repaired) >>= *)
Theorem C15_float_shift_forms : forall x n,
  fshl_asis x n = fshift_spec x n /\ fshr_asis x n = fshift_spec x (- n).
Proof. exact fshift_forms_agree. Qed.
Print Assumptions C15_float_shift_forms.

Theorem C15_float_shr_assign_pinned_refuted :
  fshr_assign_pinned (FFin 1 3) 1 = Ok (FFin 1 1) /\ fshift_spec (FFin 1 3) (-1) = Ok (FFin 1 2) /\
  fshr_assign_pinned (FFin 0 0) 1 = Ok (FFin 0 (-1)) /\ fshift_spec (FFin 0 0) (-1) = Ok (FFin 0 0).
Proof. exact fshr_assign_pinned_refuted. Qed.
Print Assumptions C15_float_shr_assign_pinned_refuted.

(** Clone for Repr *)
Theorem C15_clone_cap : forall maxcap src_cap len, 3 <= len <= maxcap -> 2 < src_cap ->
  let c := clone_cap maxcap src_cap len in len <= c <= max_compact_capacity maxcap len.
Proof. exact clone_cap_ok. Qed.
Print Assumptions C15_clone_cap.

Theorem C15_clone_from_cap : forall maxcap dst_cap src_cap len, 3 <= len <= maxcap -> 2 < src_cap ->
  let c := clone_from_cap maxcap dst_cap src_cap len in
  len <= c <= max_compact_capacity maxcap len /\
  (len <= dst_cap <= max_compact_capacity maxcap len -> c = dst_cap).
Proof. exact clone_from_cap_ok. Qed.
Print Assumptions C15_clone_from_cap.

Theorem C15_clone_inline : forall maxcap dst_cap src_cap len, src_cap <= 2 ->
  clone_cap maxcap src_cap len = src_cap /\ clone_from_cap maxcap dst_cap src_cap len = src_cap.
Proof. exact clone_inline. Qed.
Print Assumptions C15_clone_inline.

(** the four hand-written bodies of FBig + and - (add_val_val / add_val_ref / add_ref_val / add_ref_ref;
    += and -= take self and call the val_* bodies) return the same value - for every base, digit
    estimate that only looks at the magnitude, pair of precisions, mode, operands and sign of the operation *)
Theorem C15_float_add_forms_agree : forall B digits_ub, (forall s, digits_ub (- s) = digits_ub s) ->
  forall p1 p2 m s1 e1 s2 e2 sg,
  add_val_ref B digits_ub p1 p2 m s1 e1 s2 e2 sg = add_val_val B digits_ub p1 p2 m s1 e1 s2 e2 sg /\
  add_ref_val B digits_ub p1 p2 m s1 e1 s2 e2 sg = add_val_val B digits_ub p1 p2 m s1 e1 s2 e2 sg /\
  add_ref_ref B digits_ub p1 p2 m s1 e1 s2 e2 sg = add_val_val B digits_ub p1 p2 m s1 e1 s2 e2 sg.
Proof. exact float_add_forms_agree. Qed.
Print Assumptions C15_float_add_forms_agree.

(** FBig operator vs Context method at the same precision: equal unless an operand is longer than it *)
Theorem C15_float_add_ctx_agrees : forall B digits_ub, (forall s, digits_ub (- s) = digits_ub s) ->
  forall p1 p2 m s1 e1 s2 e2,
  let p := ctx_max p1 p2 in
  (p = 0 \/ (dlen B s1 <= p /\ dlen B s2 <= p)) ->
  approx_val (ctx_add B digits_ub p m s1 e1 s2 e2) = add_val_val B digits_ub p1 p2 m s1 e1 s2 e2 Positive.
Proof. intros B du _. exact (float_add_ctx_agrees B du). Qed.
Print Assumptions C15_float_add_ctx_agrees.

Theorem C15_float_sub_ctx_agrees : forall B digits_ub, (forall s, digits_ub (- s) = digits_ub s) ->
  forall p1 p2 m s1 e1 s2 e2,
  let p := ctx_max p1 p2 in
  (p = 0 \/ (dlen B s1 <= p /\ dlen B s2 <= p)) ->
  approx_val (ctx_sub B digits_ub p m s1 e1 s2 e2) = add_val_val B digits_ub p1 p2 m s1 e1 s2 e2 Negative.
Proof. exact float_sub_ctx_agrees. Qed.
Print Assumptions C15_float_sub_ctx_agrees.

Theorem C15_float_mul_ctx_agrees : forall B p m s1 e1 s2 e2,
  (p = 0 \/ (dlen B s1 <= 2 * p /\ dlen B s2 <= 2 * p)) ->
  approx_val (ctx_mul B p m s1 e1 s2 e2) = fmul_op B p m s1 e1 s2 e2.
Proof. exact float_mul_ctx_agrees. Qed.
Print Assumptions C15_float_mul_ctx_agrees.

(** open finding class float_operand_exceeds_precision: the agreement fails there *)
Theorem C15_float_operand_exceeds_precision_refuted :
  (add_val_val_x 10 0 3 MHalfAway 123456 0 0 0 Positive = (123456, 0) /\
   approx_val (ctx_add_x 10 3 MHalfAway 123456 0 0 0) = (123, 3)) /\
  (fmul_op 10 2 MHalfAway 12495001 0 1 0 = (12, 6) /\
   approx_val (ctx_mul 10 2 MHalfAway 12495001 0 1 0) = (13, 6)).
Proof. exact (conj float_add_zero_shortcut_refuted float_mul_double_rounding_refuted). Qed.
Print Assumptions C15_float_operand_exceeds_precision_refuted.

(** ownership forms (T/&T x T/&T, op= through take) of the integer + and - at the level of the Repr
    kernels, any word size w >= 8: [o : own] selects the reused buffer and the kernel; every form
    builds the IDENTICAL canonical representation, or every form panics *)
Theorem C15_ubig_add_forms_identical : forall w, 8 <= w -> forall o o' x y, twf w x -> twf w y ->
  repr_add w o x y = repr_add w o' x y /\ repr_value w (repr_add w o x y) = repr_value w x + repr_value w y.
Proof. exact ubig_add_forms_identical. Qed.
Print Assumptions C15_ubig_add_forms_identical.

Theorem C15_ubig_sub_forms_identical : forall w, 8 <= w -> forall o o' x y, twf w x -> twf w y ->
  repr_sub w o x y = repr_sub w o' x y /\
  (repr_value w x < repr_value w y -> repr_sub w o x y = Panic NegativeUBig) /\
  (repr_value w y <= repr_value w x -> exists r, repr_sub w o x y = Ok r /\ repr_value w r = repr_value w x - repr_value w y).
Proof. exact ubig_sub_forms_identical. Qed.
Print Assumptions C15_ubig_sub_forms_identical.

Theorem C15_ibig_add_forms_identical : forall w, 8 <= w -> forall o o' s0 x s1 y, twf w x -> twf w y ->
  exists r r', ibig_add_asis w o s0 x s1 y = Ok r /\ ibig_add_asis w o' s0 x s1 y = Ok r' /\
    srepr_value w r = signed s0 (repr_value w x) + signed s1 (repr_value w y) /\
    srepr_value w r' = signed s0 (repr_value w x) + signed s1 (repr_value w y) /\ snd r = snd r'.
Proof. exact ibig_add_forms_identical. Qed.
Print Assumptions C15_ibig_add_forms_identical.

Theorem C15_ibig_sub_forms_identical : forall w, 8 <= w -> forall o o' s0 x s1 y, twf w x -> twf w y ->
  exists r r', ibig_sub_asis w o s0 x s1 y = Ok r /\ ibig_sub_asis w o' s0 x s1 y = Ok r' /\
    srepr_value w r = signed s0 (repr_value w x) - signed s1 (repr_value w y) /\
    srepr_value w r' = signed s0 (repr_value w x) - signed s1 (repr_value w y) /\ snd r = snd r'.
Proof. exact ibig_sub_forms_identical. Qed.
Print Assumptions C15_ibig_sub_forms_identical.

Theorem C15_rdiv_signed_fits_iff : forall n p x, 0 < n -> in_ty (TPrim true n) p = true -> x <> 0 ->
  (in_ty (TPrim true n) (Z.quot p x) = true <-> ~ (p = - 2 ^ (n - 1) /\ x = -1)).
Proof. exact rdiv_signed_fits_iff. Qed.
Print Assumptions C15_rdiv_signed_fits_iff.

Theorem C15_prim_divrem_forms : forall t pt x p,
  (forall q r, divrem_spec x p = Ok (q, r) -> in_ty pt r = true) ->
  prim_divrem_asis t pt x p = divrem_spec x p.
Proof. exact prim_divrem_agrees. Qed.
Print Assumptions C15_prim_divrem_forms.

Theorem C15_float_div_ctx_agrees : forall B p m s1 e1 s2 e2,
  dlen B s1 <= p + dlen B s2 ->
  fdiv_ctx B p m s1 e1 s2 e2 = fdiv_op B p m s1 e1 s2 e2.
Proof. exact float_div_ctx_agrees. Qed.
Print Assumptions C15_float_div_ctx_agrees.

(** Clone for Repr on the abstract representation (capacity field, sign, words): clone() and
    clone_from() onto ANY previous value copy sign and words, keep the invariant of a stored integer
    and leave a compact buffer; lifted to every finite history of clone_from by induction *)
Theorem C15_clone_ok : forall maxcap src, rinv maxcap src ->
  let c := clone_asis maxcap src in
  r_words c = r_words src /\ r_neg c = r_neg src /\ rinv maxcap c /\ compact maxcap c.
Proof. exact clone_ok. Qed.
Print Assumptions C15_clone_ok.

Theorem C15_clone_from_ok : forall maxcap dst src, rinv maxcap dst -> rinv maxcap src ->
  let c := clone_from_asis maxcap dst src in
  r_words c = r_words src /\ r_neg c = r_neg src /\ rinv maxcap c /\ compact maxcap c.
Proof. exact clone_from_ok. Qed.
Print Assumptions C15_clone_from_ok.

Theorem C15_clone_from_history : forall maxcap srcs dst, rinv maxcap dst ->
  Forall (rinv maxcap) srcs -> srcs <> [] ->
  let c := clone_from_history maxcap dst srcs in
  r_words c = r_words (last srcs dst) /\ r_neg c = r_neg (last srcs dst) /\ rinv maxcap c /\ compact maxcap c.
Proof. exact clone_from_history_ok. Qed.
Print Assumptions C15_clone_from_history.
