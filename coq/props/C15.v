(** C15 - all forms of an operator give the same answer; clone / clone_from.
    ONLY statements pinned here; proofs live in Dashu.Forms.*. *)
From Dashu Require Import Base.Prelude Forms.FormsSpec Forms.FormsProofs Forms.FormsClone.
From Dashu Require Import Base.Words Int.RingOps Int.RingOpsProofs Forms.FormsInt.
From Dashu Require Import Float.RoundSpec Float.Contract Float.Model Float.AddModel Forms.FormsFloatSpec Forms.FormsFloat.
From Dashu Require Import Int.RingDispatchProofs Forms.FormsMul.
From Dashu Require Import Int.DivWordModel Forms.FormsDiv.
From Dashu Require Import Int.BitsKernels Int.BitsSignedProofs Forms.FormsBits.
From Dashu Require Import Ratio.RatArithModel Ratio.RatArithRelaxed Forms.FormsRat.
From Dashu Require Import Int.ModRingModel Int.ModRingProofs Int.ModRingMain Forms.FormsMod.
Open Scope Z_scope.

(** the primitive-operand forms ( big op prim, prim op big, in the four ownership arms each ) return
    what the all-big form returns, unless the result does not fit the primitive Output type *)
Theorem C15_prim_right_forms : forall t pt o x p,
  prim_unrepresentable (out_ty t pt o false) (big_op t o x p) = false ->
  prim_right_asis t pt o x p = big_op t o x p.
Proof. exact prim_right_agrees. Qed.
Print Assumptions C15_prim_right_forms.

Theorem C15_prim_left_forms : forall t pt o p x,
  prim_unrepresentable (out_ty t pt o true) (big_op t o p x) = false ->
  prim_left_asis t pt o p x = big_op t o p x.
Proof. exact prim_left_agrees. Qed.
Print Assumptions C15_prim_left_forms.

Theorem C15_prim_assign_forms : forall t o x p, prim_assign_asis t o x p = big_op t o x p.
Proof. exact prim_assign_agrees. Qed.
Print Assumptions C15_prim_assign_forms.

(** open finding class prim_result_unrepresentable: there the primitive forms panic, the big form returns *)
Theorem C15_prim_right_known_class : forall t pt o x p,
  prim_unrepresentable (out_ty t pt o false) (big_op t o x p) = true ->
  prim_right_asis t pt o x p = Panic Undocumented /\ exists v, big_op t o x p = Ok v.
Proof. exact prim_right_known. Qed.
Print Assumptions C15_prim_right_known_class.

Theorem C15_prim_left_known_class : forall t pt o p x,
  prim_unrepresentable (out_ty t pt o true) (big_op t o p x) = true ->
  prim_left_asis t pt o p x = Panic Undocumented /\ exists v, big_op t o p x = Ok v.
Proof. exact prim_left_known. Qed.
Print Assumptions C15_prim_left_known_class.

Theorem C15_prim_class_refuted :
  prim_right_asis TIBig (TPrim false 8) IoRem (-7) 3 = Panic Undocumented /\ big_op TIBig IoRem (-7) 3 = Ok (-1).
Proof. exact prim_rem_refuted. Qed.
Print Assumptions C15_prim_class_refuted.

(** where the class is empty / exactly what it is *)
Theorem C15_big_output_never_in_class : forall t o x p,
  (t = TUBig \/ t = TIBig) -> prim_unrepresentable t (big_op t o x p) = false.
Proof. exact prim_big_output_never_known. Qed.
Print Assumptions C15_big_output_never_in_class.

Theorem C15_rem_signed_fits : forall n x p, 0 < n ->
  in_ty (TPrim true n) p = true -> p <> 0 -> in_ty (TPrim true n) (Z.rem x p) = true.
Proof. exact rem_signed_fits. Qed.
Print Assumptions C15_rem_signed_fits.

Theorem C15_rem_unsigned_fits_iff : forall n x p, 0 <= p < 2 ^ n -> p <> 0 ->
  (in_ty (TPrim false n) (Z.rem x p) = true <-> (0 <= x \/ Z.rem x p = 0)).
Proof. exact rem_unsigned_fits_iff. Qed.
Print Assumptions C15_rem_unsigned_fits_iff.

Theorem C15_and_unsigned_fits : forall n x p, 0 <= n -> 0 <= p < 2 ^ n ->
  in_ty (TPrim false n) (Z.land x p) = true.
Proof. exact and_unsigned_fits. Qed.
Print Assumptions C15_and_unsigned_fits.

Theorem C15_rdiv_ubig_fits : forall n p x, 0 <= p < 2 ^ n -> 0 < x ->
  in_ty (TPrim false n) (Z.quot p x) = true.
Proof. exact rdiv_ubig_fits. Qed.
Print Assumptions C15_rdiv_ubig_fits.

Theorem C15_rdiv_ibig_unsigned_fits_iff : forall n p x, 0 <= p < 2 ^ n -> x <> 0 ->
  (in_ty (TPrim false n) (Z.quot p x) = true <-> 0 <= Z.quot p x).
Proof. exact rdiv_ibig_unsigned_fits_iff. Qed.
Print Assumptions C15_rdiv_ibig_unsigned_fits_iff.

(** op= by take-and-replace *)
Theorem C15_assign_by_taking : forall op a b,
  fst (assign_by_taking op a b) = op a b /\
  (forall v, op a b = Ok v -> snd (assign_by_taking op a b) = v) /\
  ((forall v, op a b <> Ok v) -> snd (assign_by_taking op a b) = 0).
Proof. exact assign_by_taking_ok. Qed.
Print Assumptions C15_assign_by_taking.

(** float shifts: << and <<=, >> and (repaired) >>= *)
Theorem C15_float_shift_forms : forall x n,
  fshl_asis x n = fshift_spec x n /\ fshr_asis x n = fshift_spec x (- n).
Proof. exact fshift_forms_agree. Qed.
Print Assumptions C15_float_shift_forms.

Theorem C15_float_shr_assign_pinned_refuted :
  fshr_assign_pinned (FFin 1 3) 1 = Ok (FFin 1 1) /\ fshift_spec (FFin 1 3) (-1) = Ok (FFin 1 2) /\
  fshr_assign_pinned (FFin 0 0) 1 = Ok (FFin 0 (-1)) /\ fshift_spec (FFin 0 0) (-1) = Ok (FFin 0 0).
Proof. exact fshr_assign_pinned_refuted. Qed.
Print Assumptions C15_float_shr_assign_pinned_refuted.

(** Clone for Repr *)
Theorem C15_clone_cap : forall maxcap src_cap len, 3 <= len <= maxcap -> 2 < src_cap ->
  let c := clone_cap maxcap src_cap len in len <= c <= max_compact_capacity maxcap len.
Proof. exact clone_cap_ok. Qed.
Print Assumptions C15_clone_cap.

Theorem C15_clone_from_cap : forall maxcap dst_cap src_cap len, 3 <= len <= maxcap -> 2 < src_cap ->
  let c := clone_from_cap maxcap dst_cap src_cap len in
  len <= c <= max_compact_capacity maxcap len /\
  (len <= dst_cap <= max_compact_capacity maxcap len -> c = dst_cap).
Proof. exact clone_from_cap_ok. Qed.
Print Assumptions C15_clone_from_cap.

Theorem C15_clone_inline : forall maxcap dst_cap src_cap len, src_cap <= 2 ->
  clone_cap maxcap src_cap len = src_cap /\ clone_from_cap maxcap dst_cap src_cap len = src_cap.
Proof. exact clone_inline. Qed.
Print Assumptions C15_clone_inline.

(** the four hand-written bodies of FBig + and - (add_val_val / add_val_ref / add_ref_val / add_ref_ref;
    += and -= take self and call the val_* bodies) return the same value - for every base, digit
    estimate that only looks at the magnitude, pair of precisions, mode, operands and sign of the operation *)
Theorem C15_float_add_forms_agree : forall B digits_ub, (forall s, digits_ub (- s) = digits_ub s) ->
  forall p1 p2 m s1 e1 s2 e2 sg,
  add_val_ref B digits_ub p1 p2 m s1 e1 s2 e2 sg = add_val_val B digits_ub p1 p2 m s1 e1 s2 e2 sg /\
  add_ref_val B digits_ub p1 p2 m s1 e1 s2 e2 sg = add_val_val B digits_ub p1 p2 m s1 e1 s2 e2 sg /\
  add_ref_ref B digits_ub p1 p2 m s1 e1 s2 e2 sg = add_val_val B digits_ub p1 p2 m s1 e1 s2 e2 sg.
Proof. exact float_add_forms_agree. Qed.
Print Assumptions C15_float_add_forms_agree.

(** FBig operator vs Context method at the same precision: equal unless an operand is longer than it *)
Theorem C15_float_add_ctx_agrees : forall B digits_ub, (forall s, digits_ub (- s) = digits_ub s) ->
  forall p1 p2 m s1 e1 s2 e2,
  let p := ctx_max p1 p2 in
  (p = 0 \/ (dlen B s1 <= p /\ dlen B s2 <= p)) ->
  approx_val (ctx_add B digits_ub p m s1 e1 s2 e2) = add_val_val B digits_ub p1 p2 m s1 e1 s2 e2 Positive.
Proof. intros B du _. exact (float_add_ctx_agrees B du). Qed.
Print Assumptions C15_float_add_ctx_agrees.

Theorem C15_float_sub_ctx_agrees : forall B digits_ub, (forall s, digits_ub (- s) = digits_ub s) ->
  forall p1 p2 m s1 e1 s2 e2,
  let p := ctx_max p1 p2 in
  (p = 0 \/ (dlen B s1 <= p /\ dlen B s2 <= p)) ->
  approx_val (ctx_sub B digits_ub p m s1 e1 s2 e2) = add_val_val B digits_ub p1 p2 m s1 e1 s2 e2 Negative.
Proof. exact float_sub_ctx_agrees. Qed.
Print Assumptions C15_float_sub_ctx_agrees.

Theorem C15_float_mul_ctx_agrees : forall B p m s1 e1 s2 e2,
  (p = 0 \/ (dlen B s1 <= 2 * p /\ dlen B s2 <= 2 * p)) ->
  approx_val (ctx_mul B p m s1 e1 s2 e2) = fmul_op B p m s1 e1 s2 e2.
Proof. exact float_mul_ctx_agrees. Qed.
Print Assumptions C15_float_mul_ctx_agrees.

(** open finding class float_operand_exceeds_precision: the agreement fails there *)
Theorem C15_float_operand_exceeds_precision_refuted :
  (add_val_val_x 10 0 3 MHalfAway 123456 0 0 0 Positive = (123456, 0) /\
   approx_val (ctx_add_x 10 3 MHalfAway 123456 0 0 0) = (123, 3)) /\
  (fmul_op 10 2 MHalfAway 12495001 0 1 0 = (12, 6) /\
   approx_val (ctx_mul 10 2 MHalfAway 12495001 0 1 0) = (13, 6)).
Proof. exact (conj float_add_zero_shortcut_refuted float_mul_double_rounding_refuted). Qed.
Print Assumptions C15_float_operand_exceeds_precision_refuted.

(** ownership forms (T/&T x T/&T, op= through take) of the integer + and - at the level of the Repr
    kernels, any word size w >= 8: [o : own] selects the reused buffer and the kernel; every form
    builds the IDENTICAL canonical representation, or every form panics *)
Theorem C15_ubig_add_forms_identical : forall w, 8 <= w -> forall o o' x y, twf w x -> twf w y ->
  repr_add w o x y = repr_add w o' x y /\ repr_value w (repr_add w o x y) = repr_value w x + repr_value w y.
Proof. exact ubig_add_forms_identical. Qed.
Print Assumptions C15_ubig_add_forms_identical.

Theorem C15_ubig_sub_forms_identical : forall w, 8 <= w -> forall o o' x y, twf w x -> twf w y ->
  repr_sub w o x y = repr_sub w o' x y /\
  (repr_value w x < repr_value w y -> repr_sub w o x y = Panic NegativeUBig) /\
  (repr_value w y <= repr_value w x -> exists r, repr_sub w o x y = Ok r /\ repr_value w r = repr_value w x - repr_value w y).
Proof. exact ubig_sub_forms_identical. Qed.
Print Assumptions C15_ubig_sub_forms_identical.

Theorem C15_ibig_add_forms_identical : forall w, 8 <= w -> forall o o' s0 x s1 y, twf w x -> twf w y ->
  exists r r', ibig_add_asis w o s0 x s1 y = Ok r /\ ibig_add_asis w o' s0 x s1 y = Ok r' /\
    srepr_value w r = signed s0 (repr_value w x) + signed s1 (repr_value w y) /\
    srepr_value w r' = signed s0 (repr_value w x) + signed s1 (repr_value w y) /\ snd r = snd r'.
Proof. exact ibig_add_forms_identical. Qed.
Print Assumptions C15_ibig_add_forms_identical.

Theorem C15_ibig_sub_forms_identical : forall w, 8 <= w -> forall o o' s0 x s1 y, twf w x -> twf w y ->
  exists r r', ibig_sub_asis w o s0 x s1 y = Ok r /\ ibig_sub_asis w o' s0 x s1 y = Ok r' /\
    srepr_value w r = signed s0 (repr_value w x) - signed s1 (repr_value w y) /\
    srepr_value w r' = signed s0 (repr_value w x) - signed s1 (repr_value w y) /\ snd r = snd r'.
Proof. exact ibig_sub_forms_identical. Qed.
Print Assumptions C15_ibig_sub_forms_identical.

Theorem C15_rdiv_signed_fits_iff : forall n p x, 0 < n -> in_ty (TPrim true n) p = true -> x <> 0 ->
  (in_ty (TPrim true n) (Z.quot p x) = true <-> ~ (p = - 2 ^ (n - 1) /\ x = -1)).
Proof. exact rdiv_signed_fits_iff. Qed.
Print Assumptions C15_rdiv_signed_fits_iff.

Theorem C15_prim_divrem_forms : forall t pt x p,
  (forall q r, divrem_spec x p = Ok (q, r) -> in_ty pt r = true) ->
  prim_divrem_asis t pt x p = divrem_spec x p.
Proof. exact prim_divrem_agrees. Qed.
Print Assumptions C15_prim_divrem_forms.

Theorem C15_float_div_ctx_agrees : forall B p m s1 e1 s2 e2,
  dlen B s1 <= p + dlen B s2 ->
  fdiv_ctx B p m s1 e1 s2 e2 = fdiv_op B p m s1 e1 s2 e2.
Proof. exact float_div_ctx_agrees. Qed.
Print Assumptions C15_float_div_ctx_agrees.

(** Clone for Repr on the abstract representation (capacity field, sign, words): clone() and
    clone_from() onto ANY previous value copy sign and words, keep the invariant of a stored integer
    and leave a compact buffer; lifted to every finite history of clone_from by induction *)
Theorem C15_clone_ok : forall maxcap src, rinv maxcap src ->
  let c := clone_asis maxcap src in
  r_words c = r_words src /\ r_neg c = r_neg src /\ rinv maxcap c /\ compact maxcap c.
Proof. exact clone_ok. Qed.
Print Assumptions C15_clone_ok.

Theorem C15_clone_from_ok : forall maxcap dst src, rinv maxcap dst -> rinv maxcap src ->
  let c := clone_from_asis maxcap dst src in
  r_words c = r_words src /\ r_neg c = r_neg src /\ rinv maxcap c /\ compact maxcap c.
Proof. exact clone_from_ok. Qed.
Print Assumptions C15_clone_from_ok.

Theorem C15_clone_from_history : forall maxcap srcs dst, rinv maxcap dst ->
  Forall (rinv maxcap) srcs -> srcs <> [] ->
  let c := clone_from_history maxcap dst srcs in
  r_words c = r_words (last srcs dst) /\ r_neg c = r_neg (last srcs dst) /\ rinv maxcap c /\ compact maxcap c.
Proof. exact clone_from_history_ok. Qed.
Print Assumptions C15_clone_from_history.

(** ================================================================================================
    deepening: the Repr-level ownership arms of * / % div_rem & | ^ << >> ; rational and residue forms
    ================================================================================================ *)

(** integer * (mul_ops.rs mod repr; thresholds of the source; on C01's repr_mul_correct): the four
    ownership impls - one of them runs the arms on the EXCHANGED operands - build the identical
    canonical Repr and never panic; with the sign rule of impl_ibig_mul; the squaring shortcut of
    mul_large for equal operands and the method sqr() build the same Repr as the product *)
Theorem C15_ubig_mul_forms_identical : forall w, 8 <= w -> forall o o' x y, twf w x -> twf w y ->
  exists r, repr_mul_form w o x y = Ok r /\ repr_mul_form w o' x y = Ok r /\
    repr_value w r = repr_value w x * repr_value w y /\ twf w r.
Proof. exact ubig_mul_forms_identical. Qed.
Print Assumptions C15_ubig_mul_forms_identical.

Theorem C15_ibig_mul_forms_identical : forall w, 8 <= w -> forall o o' s0 x s1 y, twf w x -> twf w y ->
  exists r, ibig_mul_form w o s0 x s1 y = Ok r /\ ibig_mul_form w o' s0 x s1 y = Ok r /\
    srepr_value w r = signed s0 (repr_value w x) * signed s1 (repr_value w y) /\ twf w (snd r).
Proof. exact ibig_mul_forms_identical. Qed.
Print Assumptions C15_ibig_mul_forms_identical.

Theorem C15_ubig_sqr_forms_identical : forall w, 8 <= w -> forall o x, twf w x ->
  exists r, repr_mul_form w o x x = Ok r /\ repr_sqr w src_T_simple src_T_kara forms_SQR x = Ok r /\
    repr_value w r = repr_value w x * repr_value w x /\ twf w r.
Proof. exact ubig_sqr_forms_identical. Qed.
Print Assumptions C15_ubig_sqr_forms_identical.

(** integer div_rem, / and % (div_ops.rs mod repr over C02's kernel models, instance of the C02
    oracle): every ownership impl of DivRem returns the same pair of canonical Reprs; `/` (quotient
    words of div_rem_in_lhs) and `%` (the remainder-only loops rem_by_word / rem_by_dword for one-
    and two-word divisors) return the two halves of div_rem as identical Reprs; all forms panic with
    DivideBy0 exactly for a zero divisor and otherwise return floor quotient and remainder *)
Theorem C15_ubig_div_forms_identical : forall w, 8 <= w -> forall o o' x y, twf w x -> twf w y ->
  i_div_rem_form w o x y = i_div_rem_form w o' x y /\
  i_div_form w o x y = rfst (i_div_rem_form w o' x y) /\
  i_rem_form w o x y = rsnd (i_div_rem_form w o' x y) /\
  (repr_value w y = 0 -> i_div_rem_form w o x y = Panic DivideBy0) /\
  (repr_value w y <> 0 -> exists q r, i_div_rem_form w o x y = Ok (q, r) /\
     repr_value w q = repr_value w x / repr_value w y /\ repr_value w r = repr_value w x mod repr_value w y /\
     twf w q /\ twf w r).
Proof. exact i_ubig_div_forms_identical. Qed.
Print Assumptions C15_ubig_div_forms_identical.

(** the same for ANY word kernels that meet the kernel contracts (what C02 proves of its models) *)
Theorem C15_ubig_div_forms_identical_rel : forall w, 8 <= w ->
  forall (k_dw k_dd : list Z -> Z -> list Z * Z) (k_rw k_rd : list Z -> Z -> Z) (k_large : list Z -> list Z -> result (list Z * list Z)),
  (forall ws d, wf w ws -> 0 < d < B w -> forall q r, k_dw ws d = (q, r) -> value w q = value w ws / d /\ r = value w ws mod d /\ wf w q) ->
  (forall ws d, wf w ws -> (2 <= length ws)%nat -> B w <= d < B w * B w -> forall q r, k_dd ws d = (q, r) ->
     value w q = value w ws / d /\ r = value w ws mod d /\ wf w q) ->
  (forall ws d, wf w ws -> ws <> [] -> 0 < d < B w -> k_rw ws d = value w ws mod d) ->
  (forall ws d, wf w ws -> (2 <= length ws)%nat -> B w <= d < B w * B w -> k_rd ws d = value w ws mod d) ->
  (forall lhs rhs, wf w lhs -> wf w rhs -> (2 <= length rhs)%nat -> (length rhs <= length lhs)%nat -> nth (length rhs - 1) rhs 0 <> 0 ->
     exists q r, k_large lhs rhs = Ok (q, r) /\ value w q = value w lhs / value w rhs /\ value w r = value w lhs mod value w rhs /\
       wf w q /\ wf w r) ->
  forall o o' x y, twf w x -> twf w y ->
  repr_div_rem_form w k_dw k_dd k_large o x y = repr_div_rem_form w k_dw k_dd k_large o' x y /\
  repr_div_form w k_dw k_dd k_large o x y = rfst (repr_div_rem_form w k_dw k_dd k_large o' x y) /\
  repr_rem_form w k_rw k_rd k_large o x y = rsnd (repr_div_rem_form w k_dw k_dd k_large o' x y) /\
  divrem_post w x y (repr_div_rem_form w k_dw k_dd k_large o x y).
Proof. exact ubig_div_forms_identical. Qed.
Print Assumptions C15_ubig_div_forms_identical_rel.

Theorem C15_ibig_div_forms_identical : forall w, 8 <= w -> forall o o' s0 x s1 y, twf w x -> twf w y ->
  i_ibig_div_rem_form w o s0 x s1 y = i_ibig_div_rem_form w o' s0 x s1 y /\
  i_ibig_div_form w o s0 x s1 y = rfst (i_ibig_div_rem_form w o' s0 x s1 y) /\
  i_ibig_rem_form w o s0 x s1 y = rsnd (i_ibig_div_rem_form w o' s0 x s1 y) /\
  (repr_value w y = 0 -> i_ibig_div_rem_form w o s0 x s1 y = Panic DivideBy0) /\
  (repr_value w y <> 0 -> exists q r, i_ibig_div_rem_form w o s0 x s1 y = Ok (q, r) /\
     srepr_value w q = Z.quot (signed s0 (repr_value w x)) (signed s1 (repr_value w y)) /\
     srepr_value w r = Z.rem (signed s0 (repr_value w x)) (signed s1 (repr_value w y)) /\
     twf w (snd q) /\ twf w (snd r)).
Proof. exact i_ibig_div_forms_identical. Qed.
Print Assumptions C15_ibig_div_forms_identical.

(** integer & | ^ (bits.rs mod repr; on C09's repr_bit*_correct): every ownership arm (reuse the
    shorter / the longer / the owned buffer, operands exchanged for &T op T) builds the identical
    canonical Repr; any word size *)
Theorem C15_ubig_bitand_forms_identical : forall w, 0 < w -> forall o o' a b, brepr_ok w a -> brepr_ok w b ->
  repr_bitand w o a b = repr_bitand w o' a b /\ bvalue w (repr_bitand w o a b) = Z.land (bvalue w a) (bvalue w b).
Proof. exact ubig_bitand_forms_identical. Qed.
Print Assumptions C15_ubig_bitand_forms_identical.

Theorem C15_ubig_bitor_forms_identical : forall w, 0 < w -> forall o o' a b, brepr_ok w a -> brepr_ok w b ->
  repr_bitor w o a b = repr_bitor w o' a b /\ bvalue w (repr_bitor w o a b) = Z.lor (bvalue w a) (bvalue w b).
Proof. exact ubig_bitor_forms_identical. Qed.
Print Assumptions C15_ubig_bitor_forms_identical.

Theorem C15_ubig_bitxor_forms_identical : forall w, 0 < w -> forall o o' a b, brepr_ok w a -> brepr_ok w b ->
  repr_bitxor w o a b = repr_bitxor w o' a b /\ bvalue w (repr_bitxor w o a b) = Z.lxor (bvalue w a) (bvalue w b).
Proof. exact ubig_bitxor_forms_identical. Qed.
Print Assumptions C15_ubig_bitxor_forms_identical.

Theorem C15_ubig_bitops_swapped_identical : forall w, 0 < w -> forall o a b, brepr_ok w a -> brepr_ok w b ->
  repr_bitand w o b a = repr_bitand w o a b /\ repr_bitor w o b a = repr_bitor w o a b /\
  repr_bitxor w o b a = repr_bitxor w o a b.
Proof. exact ubig_bitops_swapped_identical. Qed.
Print Assumptions C15_ubig_bitops_swapped_identical.

Theorem C15_ibig_bitops_forms_identical : forall w, 0 < w -> forall o o' s0 r0 s1 r1, mag_ok w s0 r0 -> mag_ok w s1 r1 ->
  ibig_bitand_asis w o s0 r0 s1 r1 = ibig_bitand_asis w o' s0 r0 s1 r1 /\
  ibig_bitor_asis w o s0 r0 s1 r1 = ibig_bitor_asis w o' s0 r0 s1 r1 /\
  ibig_bitxor_asis w o s0 r0 s1 r1 = ibig_bitxor_asis w o' s0 r0 s1 r1 /\
  ibig_bitand_asis w o s0 r0 s1 r1 = Z.land (signed s0 (bvalue w r0)) (signed s1 (bvalue w r1)) /\
  ibig_bitor_asis w o s0 r0 s1 r1 = Z.lor (signed s0 (bvalue w r0)) (signed s1 (bvalue w r1)) /\
  ibig_bitxor_asis w o s0 r0 s1 r1 = Z.lxor (signed s0 (bvalue w r0)) (signed s1 (bvalue w r1)).
Proof. exact ibig_bitops_forms_identical. Qed.
Print Assumptions C15_ibig_bitops_forms_identical.

(** integer << and >> (shift_ops.rs mod repr; on C09's repr_sh*_correct): the owned body (in place
    when the capacity suffices [cap], copying otherwise) and the borrowed body build the identical Repr *)
Theorem C15_ubig_shl_forms_identical : forall w, 0 < w -> forall cap cap' r n, 0 <= n -> brepr_ok w r ->
  repr_shl w cap r n = repr_shl w cap' r n /\ repr_shl_ref w r n = repr_shl w cap r n /\
  bvalue w (repr_shl w cap r n) = Z.shiftl (bvalue w r) n.
Proof. exact ubig_shl_forms_identical. Qed.
Print Assumptions C15_ubig_shl_forms_identical.

Theorem C15_ubig_shr_forms_identical : forall w, 0 < w -> forall r n, 0 <= n -> brepr_ok w r ->
  repr_shr_ref w r n = repr_shr w r n /\ bvalue w (repr_shr w r n) = Z.shiftr (bvalue w r) n.
Proof. exact ubig_shr_forms_identical. Qed.
Print Assumptions C15_ubig_shr_forms_identical.

Theorem C15_ibig_shift_forms_identical : forall w, 0 < w -> forall s cap cap' r n, 0 <= n -> brepr_ok w r ->
  ibig_shl_asis w s cap r n = ibig_shl_asis w s cap' r n /\
  ibig_shl_ref_asis w s r n = ibig_shl_asis w s cap r n /\
  ibig_shl_asis w s cap r n = Z.shiftl (signed s (bvalue w r)) n /\
  ibig_shr_ref_asis w s r n = ibig_shr_asis w s r n /\
  ibig_shr_asis w s r n = Z.shiftr (signed s (bvalue w r)) n.
Proof. exact ibig_shift_forms_identical. Qed.
Print Assumptions C15_ibig_shift_forms_identical.

(** rational forms (corollaries of C04): the integer-mixed forms, both ways round, return exactly
    what the all-rational operator returns on the embedded integer; div_rem_euclid = (div_euclid,
    rem_euclid); Relaxed: the same up to the value; every Relaxed form = the RBig form *)
Theorem C15_rbig_int_forms_agree : forall u o x i, Inv x -> (u = true -> 0 <= i) ->
  int_asis u o x i = bin3 bin_asis (int_as_bin o x i).
Proof. exact rbig_int_forms_agree. Qed.
Print Assumptions C15_rbig_int_forms_agree.

Theorem C15_rbig_int_commuted_forms_agree : forall u x i, Inv x -> (u = true -> 0 <= i) ->
  int_asis u IAdd x i = bin_asis OAdd (i, 1) x /\ int_asis u IMul x i = bin_asis OMul (i, 1) x.
Proof. exact rbig_int_commuted_forms_agree. Qed.
Print Assumptions C15_rbig_int_commuted_forms_agree.

Theorem C15_rbig_euclid_forms_agree : forall x y, Inv x -> Inv y ->
  divreme_asis x y = rbind (dive_asis x y) (fun q => rbind (reme_asis x y) (fun r => Ok (q, r))).
Proof. exact rbig_euclid_forms_agree. Qed.
Print Assumptions C15_rbig_euclid_forms_agree.

Theorem C15_relaxed_int_forms_agree : forall u o x i, RInv x -> (u = true -> 0 <= i) ->
  forms_veq (xint_asis u o x i) (bin3 xbin_asis (int_as_bin o x i)).
Proof. exact relaxed_int_forms_agree. Qed.
Print Assumptions C15_relaxed_int_forms_agree.

Theorem C15_relaxed_forms_eq_rbig : forall o io u x' y' x y i,
  RInv x' -> RInv y' -> Inv x -> Inv y -> veq x' x -> veq y' y -> (u = true -> 0 <= i) ->
  res_veq (xbin_asis o x' y') (bin_asis o x y) /\ res_veq (xint_asis u io x' i) (int_asis u io x i).
Proof. exact relaxed_forms_eq_rbig. Qed.
Print Assumptions C15_relaxed_forms_eq_rbig.

(** residue forms (corollaries of C13, relative to its contracts of the external functions):
    `&a + b` / `&a * b` run the body on the exchanged operands, a.sqr() / a.dbl() are separate
    kernels - all return the identical Reduced value; different rings: every form panics *)
Theorem C15_residue_forms_identical : forall w f2 f3 finv fgcd, 2 <= w -> externals_ok w f2 f3 finv fgcd ->
  forall o o' r x y a b, ring_wf w r -> rep r x a -> rep r y b ->
  (exists c, residue_add_form w o a b = Ok c /\ residue_add_form w o' a b = Ok c /\ rep r (x + y) c) /\
  (exists c, residue_mul_form w f2 f3 o a b = Ok c /\ residue_mul_form w f2 f3 o' a b = Ok c /\ rep r (x * y) c) /\
  (exists c, residue_sub_form w o a b = Ok c /\ residue_sub_form w o' a b = Ok c /\ rep r (x - y) c).
Proof. exact residue_forms_identical. Qed.
Print Assumptions C15_residue_forms_identical.

Theorem C15_residue_forms_different_rings : forall w f2 f3 o a b, r_id (e_ring a) <> r_id (e_ring b) ->
  residue_add_form w o a b = Panic DifferentRings /\ residue_mul_form w f2 f3 o a b = Panic DifferentRings /\
  residue_sub_form w o a b = Panic DifferentRings.
Proof. exact residue_forms_different_rings. Qed.
Print Assumptions C15_residue_forms_different_rings.

Theorem C15_residue_method_forms_identical : forall w f2 f3 finv fgcd, 2 <= w -> externals_ok w f2 f3 finv fgcd ->
  forall o r x a, ring_wf w r -> rep r x a ->
  (exists c, sqr_asis w f2 f3 a = Ok c /\ residue_mul_form w f2 f3 o a a = Ok c /\ rep r (x * x) c) /\
  (exists c, dbl_asis w a = Ok c /\ residue_add_form w o a a = Ok c /\ rep r (x + x) c).
Proof. exact residue_method_forms_identical. Qed.
Print Assumptions C15_residue_method_forms_identical.
