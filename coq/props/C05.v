(** C05 - equality, ordering and hashing follow the mathematical value in every type.
    ONLY statements pinned here; proofs live in Dashu.Int.ReprOrdProofs, Dashu.Float.FloatOrdProofs,
    Dashu.Ratio.RatioOrdProofs.  [w] is the word size (any w > 0), [B] the float base (any B >= 2),
    [digits_ub] any admissible over-estimate of the digit count (Repr::digits_ub). *)
From Dashu Require Import Base.Prelude Base.Words.
From Dashu Require Import Int.ReprOrdModel Int.ReprOrdProofs.
From Dashu Require Import Float.FloatOrdModel Float.FloatOrdProofs Float.FloatOrdTotal.
From Dashu Require Import Ratio.RatioOrdModel Ratio.RatioOrdProofs.
Open Scope Z_scope.

(* ------------------------------------------------------------------ UBig / IBig (integer/src/{repr,cmp}.rs) *)

Theorem C05_int_eq : forall w, 0 < w -> forall a b, canonical w a -> canonical w b ->
  (repr_eq a b = true <-> rvalue w a = rvalue w b).
Proof. exact repr_eq_correct. Qed.
Print Assumptions C05_int_eq.

Theorem C05_ibig_cmp : forall w, 0 < w -> forall a b, canonical w a -> canonical w b ->
  ibig_cmp w a b = (rvalue w a ?= rvalue w b).
Proof. exact ibig_cmp_correct. Qed.
Print Assumptions C05_ibig_cmp.

Theorem C05_ubig_cmp : forall w, 0 < w -> forall a b, canonical w a -> canonical w b ->
  rsign a = Positive -> rsign b = Positive -> ubig_cmp w a b = (rvalue w a ?= rvalue w b).
Proof. exact ubig_cmp_correct. Qed.
Print Assumptions C05_ubig_cmp.

Theorem C05_int_cmp_eq_iff_eq : forall w, 0 < w -> forall a b, canonical w a -> canonical w b ->
  (ibig_cmp w a b = Eq <-> repr_eq a b = true).
Proof. exact cmp_eq_iff_eq. Qed.
Print Assumptions C05_int_cmp_eq_iff_eq.

Theorem C05_int_abs_cmp : forall w, 0 < w -> forall a b, canonical w a -> canonical w b ->
  abs_cmp w a b = (Z.abs (rvalue w a) ?= Z.abs (rvalue w b)).
Proof. exact abs_cmp_correct. Qed.
Print Assumptions C05_int_abs_cmp.

Theorem C05_int_abs_eq : forall w, 0 < w -> forall a b, canonical w a -> canonical w b ->
  (abs_eq a b = true <-> Z.abs (rvalue w a) = Z.abs (rvalue w b)).
Proof. exact abs_eq_correct. Qed.
Print Assumptions C05_int_abs_eq.

Theorem C05_int_hash : forall w, 0 < w -> forall a b, canonical w a -> canonical w b ->
  rvalue w a = rvalue w b -> hash_input a = hash_input b.
Proof. exact hash_input_eq. Qed.
Print Assumptions C05_int_hash.

Theorem C05_int_hash_inj : forall w a b, canonical w a -> canonical w b ->
  hash_input a = hash_input b -> rvalue w a = rvalue w b.
Proof. exact hash_input_inj. Qed.
Print Assumptions C05_int_hash_inj.

(** every constructor returns the canonical layout of the right value *)
Theorem C05_from_dword : forall w, 0 < w -> forall n, 0 <= n < Words.B w * Words.B w ->
  canonical w (from_dword w n) /\ rvalue w (from_dword w n) = n.
Proof. exact from_dword_ok. Qed.
Print Assumptions C05_from_dword.

Theorem C05_from_buffer : forall w, 0 < w -> forall cap ws, Words.wf w ws -> len ws <= cap ->
  canonical w (from_buffer w cap ws) /\ rvalue w (from_buffer w cap ws) = Words.value w ws.
Proof. exact from_buffer_ok. Qed.
Print Assumptions C05_from_buffer.

Theorem C05_ones : forall w, 0 < w -> forall n, 0 <= n ->
  canonical w (ones w n) /\ rvalue w (ones w n) = 2 ^ n - 1.
Proof. exact ones_ok. Qed.
Print Assumptions C05_ones.

Theorem C05_neg : forall w, 0 < w -> forall r, canonical w r ->
  canonical w (rneg r) /\ rvalue w (rneg r) = - rvalue w r.
Proof. exact rneg_ok. Qed.
Print Assumptions C05_neg.

Theorem C05_with_sign : forall w, 0 < w -> forall r s, canonical w r ->
  canonical w (with_sign r s) /\ rvalue w (with_sign r s) = signed s (Z.abs (rvalue w r)).
Proof. exact with_sign_ok. Qed.
Print Assumptions C05_with_sign.

Theorem C05_clone : forall w, 0 < w -> forall r, canonical w r ->
  canonical w (rclone r) /\ rvalue w (rclone r) = rvalue w r.
Proof. exact rclone_ok. Qed.
Print Assumptions C05_clone.

Theorem C05_clone_from : forall w self src, canonical w src ->
  canonical w (rclone_from self src) /\ rvalue w (rclone_from self src) = rvalue w src.
Proof. exact rclone_from_ok. Qed.
Print Assumptions C05_clone_from.

(** ... hence after every finite history of constructor / copy / sign steps *)
Theorem C05_history_canonical : forall w, 0 < w -> forall os p, Forall (canonical w) p -> Forall (hop_ok w) os ->
  Forall (canonical w) (hrun w p os).
Proof. exact hrun_canonical. Qed.
Print Assumptions C05_history_canonical.

Theorem C05_history_values_compare : forall w, 0 < w -> forall os a b, Forall (hop_ok w) os ->
  In a (hrun w [] os) -> In b (hrun w [] os) ->
  (repr_eq a b = true <-> rvalue w a = rvalue w b) /\
  ibig_cmp w a b = (rvalue w a ?= rvalue w b) /\
  (ibig_cmp w a b = Eq <-> repr_eq a b = true) /\
  (rvalue w a = rvalue w b -> hash_input a = hash_input b).
Proof. exact history_values_compare. Qed.
Print Assumptions C05_history_values_compare.

(** the defect of the pinned tree (F01, repaired): Repr::ones(2 * word bits) left the canonical layout *)
Theorem C05_ones_pinned_refuted :
  let a := ones_pinned 64 128 in
  let b := from_dword 64 (2 ^ 128 - 1) in
  canonicalb 64 a = false /\ canonicalb 64 b = true /\ rvalue 64 a = rvalue 64 b /\
  repr_eq a b = true /\ ubig_cmp 64 a b = Gt.
Proof. exact ones_pinned_refuted. Qed.
Print Assumptions C05_ones_pinned_refuted.

(* ------------------------------------------------------------------ FBig (float/src/{cmp,repr,utils}.rs) *)

Theorem C05_float_cmp : forall B, 2 <= B -> forall digits_ub,
  (forall s, s <> 0 -> Z.abs s < B ^ (digits_ub s + 1)) ->
  forall l r, fwf l -> fwf r -> repr_cmp_same_base B digits_ub false l r = fcmp_spec B l r.
Proof. exact repr_cmp_same_base_correct. Qed.
Print Assumptions C05_float_cmp.

Theorem C05_float_abs_cmp : forall B, 2 <= B -> forall digits_ub,
  (forall s, s <> 0 -> Z.abs s < B ^ (digits_ub s + 1)) ->
  forall l r, fwf l -> fwf r -> repr_cmp_same_base B digits_ub true l r = fabs_cmp_spec B l r.
Proof. exact repr_cmp_same_base_abs_correct. Qed.
Print Assumptions C05_float_abs_cmp.

Theorem C05_float_eq : forall B, 2 <= B -> forall l r, fwf l -> fwf r ->
  normalized_ext B l -> normalized_ext B r -> fbig_eq l r = feq_spec B l r.
Proof. exact fbig_eq_correct. Qed.
Print Assumptions C05_float_eq.

Theorem C05_float_cmp_eq_iff_eq : forall B, 2 <= B -> forall digits_ub,
  (forall s, s <> 0 -> Z.abs s < B ^ (digits_ub s + 1)) ->
  forall l r, fwf l -> fwf r -> normalized_ext B l -> normalized_ext B r ->
  (repr_cmp_same_base B digits_ub false l r = Eq <-> fbig_eq l r = true).
Proof. exact fbig_cmp_eq_iff_eq. Qed.
Print Assumptions C05_float_cmp_eq_iff_eq.

Theorem C05_float_shl_digits : forall B x e, 0 <= e -> shl_digits B x e = x * B ^ e.
Proof. exact shl_digits_correct. Qed.
Print Assumptions C05_float_shl_digits.

Theorem C05_float_digits_estimate_exists : forall B s, 2 <= B -> s <> 0 -> Z.abs s < B ^ (ndigits B s + 1).
Proof. exact ndigits_ok. Qed.
Print Assumptions C05_float_digits_estimate_exists.

Theorem C05_float_order_antisym : forall B l r, fin_cmp B r l = CompOpp (fin_cmp B l r).
Proof. exact fin_cmp_antisym. Qed.
Print Assumptions C05_float_order_antisym.

Theorem C05_float_order_trans : forall B, 2 <= B -> forall a b c x,
  fin_cmp B a b = x -> fin_cmp B b c = x -> fin_cmp B a c = x.
Proof. exact fin_cmp_trans. Qed.
Print Assumptions C05_float_order_trans.

(** Repr::normalize, all three branches (base 2, other powers of two, generic), for every base *)
Theorem C05_float_normalize : forall B r, 2 <= B ->
  exists r', normalize B r = Ok r' /\ normalized B r' /\
    (fsig r = 0 -> r' = FR 0 0) /\
    (fsig r <> 0 -> fexp r <= fexp r' /\ fsig r = fsig r' * B ^ (fexp r' - fexp r)).
Proof. exact normalize_ok. Qed.
Print Assumptions C05_float_normalize.

(** the order the comparison is proved equal to is a total order on finite values and the infinities *)
Theorem C05_float_order_total_refl : forall B a, fcmp_spec B a a = Eq.
Proof. exact fcmp_spec_refl. Qed.
Print Assumptions C05_float_order_total_refl.

Theorem C05_float_order_total_antisym : forall B a b, fcmp_spec B b a = CompOpp (fcmp_spec B a b).
Proof. exact fcmp_spec_antisym. Qed.
Print Assumptions C05_float_order_total_antisym.

Theorem C05_float_order_total_trans : forall B, 2 <= B -> forall a b c x,
  fcmp_spec B a b = x -> fcmp_spec B b c = x -> fcmp_spec B a c = x.
Proof. exact fcmp_spec_trans. Qed.
Print Assumptions C05_float_order_total_trans.

Theorem C05_float_order_is_value_order : forall B l r m, 2 <= B -> m <= fexp l -> m <= fexp r ->
  fin_cmp B l r = (fsig l * B ^ (fexp l - m) ?= fsig r * B ^ (fexp r - m)).
Proof. exact fin_cmp_is_value_order. Qed.
Print Assumptions C05_float_order_is_value_order.

(** the comparison of the pinned tree agreed with the order only without excess digits (F02, repaired) *)
Theorem C05_float_cmp_pinned_conditional : forall B, 2 <= B -> forall digits_ub,
  (forall s, s <> 0 -> Z.abs s < B ^ (digits_ub s + 1)) ->
  forall l r prec, fwf l -> fwf r ->
  (forall lp rp, prec = Some (lp, rp) -> lp <> 0 -> rp <> 0 ->
     Z.abs (fsig l) < B ^ (lp + 1) /\ Z.abs (fsig r) < B ^ (rp + 1)) ->
  repr_cmp_same_base_pinned B digits_ub false l r prec = fcmp_spec B l r.
Proof. exact repr_cmp_same_base_pinned_correct. Qed.
Print Assumptions C05_float_cmp_pinned_conditional.

Theorem C05_float_cmp_pinned_refuted :
  let a := FR (5 ^ 30) 30 in
  let b := FR 3 40 in
  excess_digits 2 a 3 = true /\
  repr_cmp_same_base_pinned 2 (ndigits 2) false a b (Some (3, 3)) = Lt /\
  fcmp_spec 2 a b = Gt /\
  repr_cmp_same_base 2 (ndigits 2) false a b = Gt.
Proof. exact pinned_precision_shortcut_refuted. Qed.
Print Assumptions C05_float_cmp_pinned_refuted.

(* ------------------------------------------------------------------ RBig / Relaxed (rational/src/cmp.rs) *)

Theorem C05_ratio_cmp : forall l r, 0 < qden l -> 0 < qden r -> q_repr_cmp false l r = qcmp_spec l r.
Proof. exact q_repr_cmp_correct. Qed.
Print Assumptions C05_ratio_cmp.

Theorem C05_ratio_abs_cmp : forall l r, 0 < qden l -> 0 < qden r ->
  q_repr_cmp true l r = qcmp_spec (qabs l) (qabs r).
Proof. exact q_repr_cmp_abs_correct. Qed.
Print Assumptions C05_ratio_abs_cmp.

Theorem C05_relaxed_eq : forall a b, 0 < qden a -> 0 < qden b -> q_repr_eq false a b = qeq_spec a b.
Proof. exact q_repr_eq_correct. Qed.
Print Assumptions C05_relaxed_eq.

Theorem C05_relaxed_abs_eq : forall a b, 0 < qden a -> 0 < qden b ->
  q_repr_eq true a b = qeq_spec (qabs a) (qabs b).
Proof. exact q_repr_eq_abs_correct. Qed.
Print Assumptions C05_relaxed_abs_eq.

Theorem C05_relaxed_cmp_eq_iff_eq : forall a b, 0 < qden a -> 0 < qden b ->
  (q_repr_cmp false a b = Eq <-> q_repr_eq false a b = true).
Proof. exact q_cmp_eq_iff_eq. Qed.
Print Assumptions C05_relaxed_cmp_eq_iff_eq.

Theorem C05_ratio_spec_is_Q_order : forall a b, 0 < qden a -> 0 < qden b ->
  qcmp_spec a b = QArith_base.Qcompare (QArith_base.Qmake (qnum a) (Z.to_pos (qden a)))
                                       (QArith_base.Qmake (qnum b) (Z.to_pos (qden b))).
Proof. exact qcmp_spec_Q. Qed.
Print Assumptions C05_ratio_spec_is_Q_order.

Theorem C05_rbig_eq : forall a b, reduced a -> reduced b -> rbig_eq a b = qeq_spec a b.
Proof. exact rbig_eq_correct. Qed.
Print Assumptions C05_rbig_eq.

Theorem C05_rbig_abs_eq : forall a b, reduced a -> reduced b -> rbig_abs_eq a b = qeq_spec (qabs a) (qabs b).
Proof. exact rbig_abs_eq_correct. Qed.
Print Assumptions C05_rbig_abs_eq.

Theorem C05_rbig_hash : forall a b, reduced a -> reduced b -> qeq_spec a b = true ->
  rbig_hash_input a = rbig_hash_input b.
Proof. exact rbig_hash_correct. Qed.
Print Assumptions C05_rbig_hash.

Theorem C05_rbig_cmp_eq_iff_eq : forall a b, reduced a -> reduced b ->
  (q_repr_cmp false a b = Eq <-> rbig_eq a b = true).
Proof. exact rbig_cmp_eq_iff_eq. Qed.
Print Assumptions C05_rbig_cmp_eq_iff_eq.
