(** C05 - equality, ordering and hashing follow the mathematical value in every type.
    ONLY statements pinned here; proofs live in Dashu.Int.ReprOrdProofs, Dashu.Float.FloatOrdProofs,
    Dashu.Ratio.RatioOrdProofs.  [w] is the word size (any w > 0), [B] the float base (any B >= 2),
    [digits_ub] any admissible over-estimate of the digit count (Repr::digits_ub). *)
From Dashu Require Import Base.Prelude Base.Words.
From Dashu Require Import Int.RingOps Int.BitsKernels Int.BitsSpec.
From Dashu Require Import Float.RoundSpec Float.Contract Float.Model Float.TextIoModel Float.RoundOpsModel.
From Dashu Require Import Int.ReprOrdNoNegZero Int.ReprOrdModel Int.ReprOrdProofs Int.ReprOrdArith.
From Dashu Require Import Float.FloatOrdModel Float.FloatOrdProofs Float.FloatOrdTotal Float.FloatOrdProducers.
From Dashu Require Import Ratio.RatioOrdModel Ratio.RatioOrdProofs.
From Dashu Require Import Int.DivSpec Int.ReprOrdArith2Model Int.ReprOrdArith2 Float.FloatOrdProducers2 Float.FloatOrdDispatch Ratio.RatioOrdGen.
From DashuGen Require Import CmpGen DigitsEstGen.
Open Scope Z_scope.

(* ------------------------------------------------------------------ UBig / IBig (integer/src/{repr,cmp}.rs) *)

Theorem C05_int_eq : forall w, 0 < w -> forall a b, canonical w a -> canonical w b ->
  (repr_eq a b = true <-> rvalue w a = rvalue w b).
Proof. exact repr_eq_correct. Qed.
Print Assumptions C05_int_eq.

Theorem C05_ibig_cmp : forall w, 0 < w -> forall a b, canonical w a -> canonical w b ->
  ibig_cmp w a b = (rvalue w a ?= rvalue w b).
Proof. exact ibig_cmp_correct. Qed.
Print Assumptions C05_ibig_cmp.

Theorem C05_ubig_cmp : forall w, 0 < w -> forall a b, canonical w a -> canonical w b ->
  rsign a = Positive -> rsign b = Positive -> ubig_cmp w a b = (rvalue w a ?= rvalue w b).
Proof. exact ubig_cmp_correct. Qed.
Print Assumptions C05_ubig_cmp.

Theorem C05_int_cmp_eq_iff_eq : forall w, 0 < w -> forall a b, canonical w a -> canonical w b ->
  (ibig_cmp w a b = Eq <-> repr_eq a b = true).
Proof. exact cmp_eq_iff_eq. Qed.
Print Assumptions C05_int_cmp_eq_iff_eq.

Theorem C05_int_abs_cmp : forall w, 0 < w -> forall a b, canonical w a -> canonical w b ->
  abs_cmp w a b = (Z.abs (rvalue w a) ?= Z.abs (rvalue w b)).
Proof. exact abs_cmp_correct. Qed.
Print Assumptions C05_int_abs_cmp.

Theorem C05_int_abs_eq : forall w, 0 < w -> forall a b, canonical w a -> canonical w b ->
  (abs_eq a b = true <-> Z.abs (rvalue w a) = Z.abs (rvalue w b)).
Proof. exact abs_eq_correct. Qed.
Print Assumptions C05_int_abs_eq.

Theorem C05_int_hash : forall w, 0 < w -> forall a b, canonical w a -> canonical w b ->
  rvalue w a = rvalue w b -> hash_input a = hash_input b.
Proof. exact hash_input_eq. Qed.
Print Assumptions C05_int_hash.

Theorem C05_int_hash_inj : forall w a b, canonical w a -> canonical w b ->
  hash_input a = hash_input b -> rvalue w a = rvalue w b.
Proof. exact hash_input_inj. Qed.
Print Assumptions C05_int_hash_inj.

(** every constructor returns the canonical layout of the right value *)
Theorem C05_from_dword : forall w, 0 < w -> forall n, 0 <= n < Words.B w * Words.B w ->
  canonical w (from_dword w n) /\ rvalue w (from_dword w n) = n.
Proof. exact from_dword_ok. Qed.
Print Assumptions C05_from_dword.

Theorem C05_from_buffer : forall w, 0 < w -> forall cap ws, Words.wf w ws -> len ws <= cap ->
  canonical w (from_buffer w cap ws) /\ rvalue w (from_buffer w cap ws) = Words.value w ws.
Proof. exact from_buffer_ok. Qed.
Print Assumptions C05_from_buffer.

Theorem C05_ones : forall w, 0 < w -> forall n, 0 <= n ->
  canonical w (ones w n) /\ rvalue w (ones w n) = 2 ^ n - 1.
Proof. exact ones_ok. Qed.
Print Assumptions C05_ones.

Theorem C05_neg : forall w, 0 < w -> forall r, canonical w r ->
  canonical w (rneg r) /\ rvalue w (rneg r) = - rvalue w r.
Proof. exact rneg_ok. Qed.
Print Assumptions C05_neg.

Theorem C05_with_sign : forall w, 0 < w -> forall r s, canonical w r ->
  canonical w (with_sign r s) /\ rvalue w (with_sign r s) = signed s (Z.abs (rvalue w r)).
Proof. exact with_sign_ok. Qed.
Print Assumptions C05_with_sign.

Theorem C05_clone : forall w, 0 < w -> forall r, canonical w r ->
  canonical w (rclone r) /\ rvalue w (rclone r) = rvalue w r.
Proof. exact rclone_ok. Qed.
Print Assumptions C05_clone.

Theorem C05_clone_from : forall w self src, canonical w src ->
  canonical w (rclone_from self src) /\ rvalue w (rclone_from self src) = rvalue w src.
Proof. exact rclone_from_ok. Qed.
Print Assumptions C05_clone_from.

(** ... hence after every finite history of constructor / copy / sign steps *)
Theorem C05_history_canonical : forall w, 0 < w -> forall os p, Forall (canonical w) p -> Forall (hop_ok w) os ->
  Forall (canonical w) (hrun w p os).
Proof. exact hrun_canonical. Qed.
Print Assumptions C05_history_canonical.

Theorem C05_history_values_compare : forall w, 0 < w -> forall os a b, Forall (hop_ok w) os ->
  In a (hrun w [] os) -> In b (hrun w [] os) ->
  (repr_eq a b = true <-> rvalue w a = rvalue w b) /\
  ibig_cmp w a b = (rvalue w a ?= rvalue w b) /\
  (ibig_cmp w a b = Eq <-> repr_eq a b = true) /\
  (rvalue w a = rvalue w b -> hash_input a = hash_input b).
Proof. exact history_values_compare. Qed.
Print Assumptions C05_history_values_compare.

(** the defect of the pinned tree (F01, repaired): Repr::ones(2 * word bits) left the canonical layout *)
Theorem C05_ones_pinned_refuted :
  let a := ones_pinned 64 128 in
  let b := from_dword 64 (2 ^ 128 - 1) in
  canonicalb 64 a = false /\ canonicalb 64 b = true /\ rvalue 64 a = rvalue 64 b /\
  repr_eq a b = true /\ ubig_cmp 64 a b = Gt.
Proof. exact ones_pinned_refuted. Qed.
Print Assumptions C05_ones_pinned_refuted.

(* ------------------------------------------------------------------ FBig (float/src/{cmp,repr,utils}.rs) *)

Theorem C05_float_cmp : forall B, 2 <= B -> forall digits_ub,
  (forall s, s <> 0 -> Z.abs s < B ^ (digits_ub s + 1)) ->
  forall l r, fwf l -> fwf r -> repr_cmp_same_base B digits_ub false l r = fcmp_spec B l r.
Proof. exact repr_cmp_same_base_correct. Qed.
Print Assumptions C05_float_cmp.

Theorem C05_float_abs_cmp : forall B, 2 <= B -> forall digits_ub,
  (forall s, s <> 0 -> Z.abs s < B ^ (digits_ub s + 1)) ->
  forall l r, fwf l -> fwf r -> repr_cmp_same_base B digits_ub true l r = fabs_cmp_spec B l r.
Proof. exact repr_cmp_same_base_abs_correct. Qed.
Print Assumptions C05_float_abs_cmp.

Theorem C05_float_eq : forall B, 2 <= B -> forall l r, fwf l -> fwf r ->
  normalized_ext B l -> normalized_ext B r -> fbig_eq l r = feq_spec B l r.
Proof. exact fbig_eq_correct. Qed.
Print Assumptions C05_float_eq.

Theorem C05_float_cmp_eq_iff_eq : forall B, 2 <= B -> forall digits_ub,
  (forall s, s <> 0 -> Z.abs s < B ^ (digits_ub s + 1)) ->
  forall l r, fwf l -> fwf r -> normalized_ext B l -> normalized_ext B r ->
  (repr_cmp_same_base B digits_ub false l r = Eq <-> fbig_eq l r = true).
Proof. exact fbig_cmp_eq_iff_eq. Qed.
Print Assumptions C05_float_cmp_eq_iff_eq.

Theorem C05_float_shl_digits : forall B x e, 0 <= e -> shl_digits B x e = x * B ^ e.
Proof. exact shl_digits_correct. Qed.
Print Assumptions C05_float_shl_digits.

Theorem C05_float_digits_estimate_exists : forall B s, 2 <= B -> s <> 0 -> Z.abs s < B ^ (ndigits B s + 1).
Proof. exact ndigits_ok. Qed.
Print Assumptions C05_float_digits_estimate_exists.

Theorem C05_float_order_antisym : forall B l r, fin_cmp B r l = CompOpp (fin_cmp B l r).
Proof. exact fin_cmp_antisym. Qed.
Print Assumptions C05_float_order_antisym.

Theorem C05_float_order_trans : forall B, 2 <= B -> forall a b c x,
  fin_cmp B a b = x -> fin_cmp B b c = x -> fin_cmp B a c = x.
Proof. exact fin_cmp_trans. Qed.
Print Assumptions C05_float_order_trans.

(** Repr::normalize, all three branches (base 2, other powers of two, generic), for every base *)
Theorem C05_float_normalize : forall B r, 2 <= B ->
  exists r', normalize B r = Ok r' /\ normalized B r' /\
    (fsig r = 0 -> r' = FR 0 0) /\
    (fsig r <> 0 -> fexp r <= fexp r' /\ fsig r = fsig r' * B ^ (fexp r' - fexp r)).
Proof. exact normalize_ok. Qed.
Print Assumptions C05_float_normalize.

(** the order the comparison is proved equal to is a total order on finite values and the infinities *)
Theorem C05_float_order_total_refl : forall B a, fcmp_spec B a a = Eq.
Proof. exact fcmp_spec_refl. Qed.
Print Assumptions C05_float_order_total_refl.

Theorem C05_float_order_total_antisym : forall B a b, fcmp_spec B b a = CompOpp (fcmp_spec B a b).
Proof. exact fcmp_spec_antisym. Qed.
Print Assumptions C05_float_order_total_antisym.

Theorem C05_float_order_total_trans : forall B, 2 <= B -> forall a b c x,
  fcmp_spec B a b = x -> fcmp_spec B b c = x -> fcmp_spec B a c = x.
Proof. exact fcmp_spec_trans. Qed.
Print Assumptions C05_float_order_total_trans.

Theorem C05_float_order_is_value_order : forall B l r m, 2 <= B -> m <= fexp l -> m <= fexp r ->
  fin_cmp B l r = (fsig l * B ^ (fexp l - m) ?= fsig r * B ^ (fexp r - m)).
Proof. exact fin_cmp_is_value_order. Qed.
Print Assumptions C05_float_order_is_value_order.

(** the comparison of the pinned tree agreed with the order only without excess digits (F02, repaired) *)
Theorem C05_float_cmp_pinned_conditional : forall B, 2 <= B -> forall digits_ub,
  (forall s, s <> 0 -> Z.abs s < B ^ (digits_ub s + 1)) ->
  forall l r prec, fwf l -> fwf r ->
  (forall lp rp, prec = Some (lp, rp) -> lp <> 0 -> rp <> 0 ->
     Z.abs (fsig l) < B ^ (lp + 1) /\ Z.abs (fsig r) < B ^ (rp + 1)) ->
  repr_cmp_same_base_pinned B digits_ub false l r prec = fcmp_spec B l r.
Proof. exact repr_cmp_same_base_pinned_correct. Qed.
Print Assumptions C05_float_cmp_pinned_conditional.

Theorem C05_float_cmp_pinned_refuted :
  let a := FR (5 ^ 30) 30 in
  let b := FR 3 40 in
  excess_digits 2 a 3 = true /\
  repr_cmp_same_base_pinned 2 (ndigits 2) false a b (Some (3, 3)) = Lt /\
  fcmp_spec 2 a b = Gt /\
  repr_cmp_same_base 2 (ndigits 2) false a b = Gt.
Proof. exact pinned_precision_shortcut_refuted. Qed.
Print Assumptions C05_float_cmp_pinned_refuted.

(* ------------------------------------------------------------------ RBig / Relaxed (rational/src/cmp.rs) *)

Theorem C05_ratio_cmp : forall l r, 0 < qden l -> 0 < qden r -> q_repr_cmp false l r = qcmp_spec l r.
Proof. exact q_repr_cmp_correct. Qed.
Print Assumptions C05_ratio_cmp.

Theorem C05_ratio_abs_cmp : forall l r, 0 < qden l -> 0 < qden r ->
  q_repr_cmp true l r = qcmp_spec (qabs l) (qabs r).
Proof. exact q_repr_cmp_abs_correct. Qed.
Print Assumptions C05_ratio_abs_cmp.

Theorem C05_relaxed_eq : forall a b, 0 < qden a -> 0 < qden b -> q_repr_eq false a b = qeq_spec a b.
Proof. exact q_repr_eq_correct. Qed.
Print Assumptions C05_relaxed_eq.

Theorem C05_relaxed_abs_eq : forall a b, 0 < qden a -> 0 < qden b ->
  q_repr_eq true a b = qeq_spec (qabs a) (qabs b).
Proof. exact q_repr_eq_abs_correct. Qed.
Print Assumptions C05_relaxed_abs_eq.

Theorem C05_relaxed_cmp_eq_iff_eq : forall a b, 0 < qden a -> 0 < qden b ->
  (q_repr_cmp false a b = Eq <-> q_repr_eq false a b = true).
Proof. exact q_cmp_eq_iff_eq. Qed.
Print Assumptions C05_relaxed_cmp_eq_iff_eq.

Theorem C05_ratio_spec_is_Q_order : forall a b, 0 < qden a -> 0 < qden b ->
  qcmp_spec a b = QArith_base.Qcompare (QArith_base.Qmake (qnum a) (Z.to_pos (qden a)))
                                       (QArith_base.Qmake (qnum b) (Z.to_pos (qden b))).
Proof. exact qcmp_spec_Q. Qed.
Print Assumptions C05_ratio_spec_is_Q_order.

Theorem C05_rbig_eq : forall a b, reduced a -> reduced b -> rbig_eq a b = qeq_spec a b.
Proof. exact rbig_eq_correct. Qed.
Print Assumptions C05_rbig_eq.

Theorem C05_rbig_abs_eq : forall a b, reduced a -> reduced b -> rbig_abs_eq a b = qeq_spec (qabs a) (qabs b).
Proof. exact rbig_abs_eq_correct. Qed.
Print Assumptions C05_rbig_abs_eq.

Theorem C05_rbig_hash : forall a b, reduced a -> reduced b -> qeq_spec a b = true ->
  rbig_hash_input a = rbig_hash_input b.
Proof. exact rbig_hash_correct. Qed.
Print Assumptions C05_rbig_hash.

Theorem C05_rbig_cmp_eq_iff_eq : forall a b, reduced a -> reduced b ->
  (q_repr_cmp false a b = Eq <-> rbig_eq a b = true).
Proof. exact rbig_cmp_eq_iff_eq. Qed.
Print Assumptions C05_rbig_cmp_eq_iff_eq.

(* ================================================================== added by the deepening pass *)

(* ------------------------------------------------------------------ integers: remaining constructors, the run-time check *)

Theorem C05_from_word : forall w, 0 < w -> forall n, 0 <= n < Words.B w ->
  canonical w (ReprOrdModel.from_word n) /\ rvalue w (ReprOrdModel.from_word n) = n.
Proof. exact from_word_ok. Qed.
Print Assumptions C05_from_word.

Theorem C05_from_ref : forall w, 0 < w -> forall r, canonical w r ->
  canonical w (from_ref w (as_typed w r)) /\ rvalue w (from_ref w (as_typed w r)) = Z.abs (rvalue w r).
Proof. exact from_ref_ok. Qed.
Print Assumptions C05_from_ref.

(** the boolean the oracle evaluates on every representation the implementation reports IS the invariant *)
Theorem C05_layout_check_is_invariant : forall w r, canonicalb w r = true <-> canonical w r.
Proof. exact canonicalb_ok. Qed.
Print Assumptions C05_layout_check_is_invariant.

Theorem C05_is_zero : forall w, 0 < w -> forall r, canonical w r -> (r_is_zero r = true <-> rvalue w r = 0).
Proof. exact r_is_zero_value. Qed.
Print Assumptions C05_is_zero.

(* ------------------------------------------------------------------ integers: arithmetic results are canonical
   (C01's and C09's as-is operator models composed with Repr::as_sign_typed / from_typed / with_sign) *)

Theorem C05_ibig_add : forall w, 8 <= w -> forall o c a b, canonical w a -> canonical w b ->
  exists r, ibig_add w o c a b = Ok r /\ canonical w r /\ rvalue w r = rvalue w a + rvalue w b.
Proof. exact ibig_add_ok. Qed.
Print Assumptions C05_ibig_add.

Theorem C05_ibig_sub : forall w, 8 <= w -> forall o c a b, canonical w a -> canonical w b ->
  exists r, ibig_sub w o c a b = Ok r /\ canonical w r /\ rvalue w r = rvalue w a - rvalue w b.
Proof. exact ibig_sub_ok. Qed.
Print Assumptions C05_ibig_sub.

Theorem C05_ibig_mul : forall w, 8 <= w -> forall c a b, canonical w a -> canonical w b ->
  exists r, ibig_mul w c a b = Ok r /\ canonical w r /\ rvalue w r = rvalue w a * rvalue w b.
Proof. exact ibig_mul_ok. Qed.
Print Assumptions C05_ibig_mul.

Theorem C05_ibig_sqr : forall w, 8 <= w -> forall c a, canonical w a ->
  exists r, ibig_sqr w c a = Ok r /\ canonical w r /\ rvalue w r = rvalue w a * rvalue w a.
Proof. exact ibig_sqr_ok. Qed.
Print Assumptions C05_ibig_sqr.

Theorem C05_ibig_cubic : forall w, 8 <= w -> forall c a, canonical w a ->
  exists r, ibig_cubic w c a = Ok r /\ canonical w r /\ rvalue w r = rvalue w a * rvalue w a * rvalue w a.
Proof. exact ibig_cubic_ok. Qed.
Print Assumptions C05_ibig_cubic.

Theorem C05_ubig_sub : forall w, 8 <= w -> forall o c a b, canonical w a -> canonical w b ->
  0 <= rvalue w a -> 0 <= rvalue w b ->
  if rvalue w a <? rvalue w b then ubig_sub w o c a b = Panic NegativeUBig
  else exists r, ubig_sub w o c a b = Ok r /\ canonical w r /\ rvalue w r = rvalue w a - rvalue w b.
Proof. exact ubig_sub_ok. Qed.
Print Assumptions C05_ubig_sub.

Theorem C05_ubig_bit : forall w, 8 <= w -> forall f c a b, canonical w a -> canonical w b ->
  canonical w (ubig_bit w f c a b) /\
  rvalue w (ubig_bit w f c a b) = bit_spec f (Z.abs (rvalue w a)) (Z.abs (rvalue w b)).
Proof. exact ubig_bit_ok. Qed.
Print Assumptions C05_ubig_bit.

Theorem C05_ubig_shift : forall w, 8 <= w -> forall f c a n, canonical w a -> 0 <= n ->
  canonical w (ubig_shift w f c a n) /\ rvalue w (ubig_shift w f c a n) = shift_spec f (Z.abs (rvalue w a)) n.
Proof. exact ubig_shift_ok. Qed.
Print Assumptions C05_ubig_shift.

(** C01's models never return a negative zero, so the sign the composition stores is the sign the model computed
    (Repr::with_sign never has to correct it): zero is positive after every signed operation *)
Theorem C05_ibig_add_no_negative_zero : forall w o s0 x s1 y r, ibig_add_asis w o s0 x s1 y = Ok r ->
  fst r = Negative -> RingOps.is_zero (snd r) = false.
Proof. exact ibig_add_no_negative_zero. Qed.
Print Assumptions C05_ibig_add_no_negative_zero.

Theorem C05_ibig_sub_no_negative_zero : forall w o s0 x s1 y r, ibig_sub_asis w o s0 x s1 y = Ok r ->
  fst r = Negative -> RingOps.is_zero (snd r) = false.
Proof. exact ibig_sub_no_negative_zero. Qed.
Print Assumptions C05_ibig_sub_no_negative_zero.

Theorem C05_ibig_mul_no_negative_zero : forall w TS TK CH SQ s0 x s1 y r, ibig_mul_asis w TS TK CH SQ s0 x s1 y = Ok r ->
  fst r = Negative -> RingOps.is_zero (snd r) = false.
Proof. exact ibig_mul_no_negative_zero. Qed.
Print Assumptions C05_ibig_mul_no_negative_zero.

Theorem C05_ibig_add_sign_exact : forall w, 8 <= w -> forall o c a b s t, canonical w a -> canonical w b ->
  ibig_add_asis w o (rsign a) (to_t w a) (rsign b) (to_t w b) = Ok (s, t) -> rsign (of_mag w c s (of_t t)) = s.
Proof. exact ibig_add_sign_exact. Qed.
Print Assumptions C05_ibig_add_sign_exact.

Theorem C05_ibig_sub_sign_exact : forall w, 8 <= w -> forall o c a b s t, canonical w a -> canonical w b ->
  ibig_sub_asis w o (rsign a) (to_t w a) (rsign b) (to_t w b) = Ok (s, t) -> rsign (of_mag w c s (of_t t)) = s.
Proof. exact ibig_sub_sign_exact. Qed.
Print Assumptions C05_ibig_sub_sign_exact.

(** whatever is computed on integers and then stored through Repr::from_buffer / with_sign is canonical *)
Theorem C05_store_value : forall w, 8 <= w -> forall c n v, 0 <= n -> Z.abs v < Words.B w ^ n ->
  canonical w (store_value w c n v) /\ rvalue w (store_value w c n v) = v.
Proof. exact store_value_ok. Qed.
Print Assumptions C05_store_value.

(** histories that mix constructors, copies, sign changes, in-place updates and arithmetic *)
Theorem C05_arith_history_canonical : forall w, 8 <= w -> forall os p, Forall (canonical w) p -> Forall (aop_ok w) os ->
  Forall (canonical w) (arun w p os).
Proof. exact arun_canonical. Qed.
Print Assumptions C05_arith_history_canonical.

Theorem C05_arith_history_values_compare : forall w, 8 <= w -> forall os a b, Forall (aop_ok w) os ->
  In a (arun w [] os) -> In b (arun w [] os) ->
  (repr_eq a b = true <-> rvalue w a = rvalue w b) /\
  ibig_cmp w a b = (rvalue w a ?= rvalue w b) /\
  (ibig_cmp w a b = Eq <-> repr_eq a b = true) /\
  (rvalue w a = rvalue w b -> hash_input a = hash_input b).
Proof. exact arith_history_values_compare. Qed.
Print Assumptions C05_arith_history_values_compare.

(* ------------------------------------------------------------------ floats: every modelled producer returns a normalised Repr *)

Theorem C05_float_new_normalized : forall B, 2 <= B -> forall s e, nz B (Model.normalize B s e).
Proof. exact new_nz. Qed.
Print Assumptions C05_float_new_normalized.

(** C05's three-branch model of Repr::normalize and C03's generic one are the same function *)
Theorem C05_float_normalize_models_agree : forall B, 2 <= B -> forall s e,
  FloatOrdModel.normalize B (FR s e) = Ok (fr (Model.normalize B s e)).
Proof. exact normalize_models_agree. Qed.
Print Assumptions C05_float_normalize_models_agree.

Theorem C05_float_convert_base_normalized : forall NB, 2 <= NB -> forall B p m s e s' e' f,
  convert_base_asis B NB p m s e = CDone s' e' f -> nz NB (s', e').
Proof. exact convert_base_nz. Qed.
Print Assumptions C05_float_convert_base_normalized.

Theorem C05_float_with_precision_normalized : forall B, 2 <= B -> forall p0 p m s e, nz B (s, e) ->
  nz B (fst (TextIoModel.with_precision_asis B p0 p m s e)).
Proof. exact with_precision_c08_nz. Qed.
Print Assumptions C05_float_with_precision_normalized.

Theorem C05_float_with_precision_normalized' : forall B, 2 <= B -> forall pinned m p s e np, nz B (s, e) ->
  nz B (approx_pair (RoundOpsModel.with_precision_asis B pinned m p s e np)).
Proof. exact with_precision_c10_nz. Qed.
Print Assumptions C05_float_with_precision_normalized'.

Theorem C05_float_mul_normalized : forall B, 2 <= B -> forall p m s1 e1 s2 e2,
  nz B (approx_pair (norm_approx B (ctx_mul B p m s1 e1 s2 e2))).
Proof. exact ctx_mul_nz. Qed.
Print Assumptions C05_float_mul_normalized.

Theorem C05_float_sqr_normalized : forall B, 2 <= B -> forall p m s e,
  nz B (approx_pair (norm_approx B (ctx_sqr B p m s e))).
Proof. exact ctx_sqr_nz. Qed.
Print Assumptions C05_float_sqr_normalized.

Theorem C05_float_cubic_normalized : forall B, 2 <= B -> forall p m s e,
  nz B (approx_pair (norm_approx B (ctx_cubic B p m s e))).
Proof. exact ctx_cubic_nz. Qed.
Print Assumptions C05_float_cubic_normalized.

Theorem C05_float_trunc_normalized : forall B, 2 <= B -> forall digits_ub p s e, nz B (s, e) ->
  nz B (fl_pair (trunc_asis B digits_ub p s e)).
Proof. exact trunc_nz. Qed.
Print Assumptions C05_float_trunc_normalized.

Theorem C05_float_fract_normalized : forall B, 2 <= B -> forall digits_ub pinned p s e,
  nz B (fl_pair (fract_asis B digits_ub pinned p s e)).
Proof. exact fract_nz. Qed.
Print Assumptions C05_float_fract_normalized.

Theorem C05_float_split_normalized : forall B, 2 <= B -> forall digits_ub p s e, nz B (s, e) ->
  nz B (fl_pair (fst (split_asis B digits_ub p s e))) /\ nz B (fl_pair (snd (split_asis B digits_ub p s e))).
Proof. exact split_nz. Qed.
Print Assumptions C05_float_split_normalized.

Theorem C05_float_ceil_normalized : forall B, 2 <= B -> forall digits_ub pinned p s e r, nz B (s, e) ->
  ceil_asis B digits_ub pinned p s e = Ok r -> nz B (fl_pair r).
Proof. exact ceil_nz. Qed.
Print Assumptions C05_float_ceil_normalized.

Theorem C05_float_floor_normalized : forall B, 2 <= B -> forall digits_ub pinned p s e r, nz B (s, e) ->
  floor_asis B digits_ub pinned p s e = Ok r -> nz B (fl_pair r).
Proof. exact floor_nz. Qed.
Print Assumptions C05_float_floor_normalized.

Theorem C05_float_round_normalized : forall B, 2 <= B -> forall digits_ub pinned p s e r, nz B (s, e) ->
  round_asis B digits_ub pinned p s e = Ok r -> nz B (fl_pair r).
Proof. exact round_nz. Qed.
Print Assumptions C05_float_round_normalized.

Theorem C05_float_parse_normalized : forall B s0 s e nd, 2 <= B -> parse_asis B s0 = Ok (s, e, nd) -> nz B (s, e).
Proof. exact parse_nz. Qed.
Print Assumptions C05_float_parse_normalized.

(** Context::repr_round (convert_int, integers, every `repr_round(Repr::new(..))`): normalised in, normalised out *)
Theorem C05_float_repr_round_normalized : forall B, 2 <= B -> forall p m s e, nz B (s, e) ->
  nz B (approx_pair (norm_approx B (repr_round B p m s e))).
Proof. exact norm_approx_round_nz. Qed.
Print Assumptions C05_float_repr_round_normalized.

Theorem C05_float_producers_normalized : forall B x, 2 <= B -> produced B x -> fwf x /\ normalized_ext B x.
Proof. exact produced_normalized. Qed.
Print Assumptions C05_float_producers_normalized.

(** fbig_eq sound on every modelled producer: == is equality of the values, cmp is their order, Equal iff == *)
Theorem C05_float_eq_sound_on_producers : forall B digits_ub x y, 2 <= B ->
  (forall s, s <> 0 -> Z.abs s < B ^ (digits_ub s + 1)) ->
  produced B x -> produced B y ->
  fbig_eq x y = feq_spec B x y /\
  repr_cmp_same_base B digits_ub false x y = fcmp_spec B x y /\
  (repr_cmp_same_base B digits_ub false x y = Eq <-> fbig_eq x y = true).
Proof. exact fbig_eq_sound_on_producers. Qed.
Print Assumptions C05_float_eq_sound_on_producers.

Theorem C05_float_eq_sym : forall B a b, feq_spec B a b = feq_spec B b a.
Proof. exact feq_spec_sym. Qed.
Print Assumptions C05_float_eq_sym.

Theorem C05_float_eq_trans : forall B, 2 <= B -> forall a b c,
  feq_spec B a b = true -> feq_spec B b c = true -> feq_spec B a c = true.
Proof. exact feq_spec_trans. Qed.
Print Assumptions C05_float_eq_trans.

(* ------------------------------------------------------------------ rationals *)

(** the second bit-length filter of repr_cmp repeats the first condition: it can never fire (dead code, harmless) *)
Theorem C05_ratio_second_filter_dead : forall lb rb, (lb >? rb + 1) = false -> (rb <? lb - 1) = false.
Proof. exact q_repr_cmp_second_filter_dead. Qed.
Print Assumptions C05_ratio_second_filter_dead.

(** the boolean the oracle evaluates on every RBig the implementation reports IS the invariant *)
Theorem C05_rbig_invariant_check : forall a, reducedb a = true <-> reduced a.
Proof. exact reducedb_ok. Qed.
Print Assumptions C05_rbig_invariant_check.

(* ================================================================== added by deepening round 3 *)

(* ------------------------------------------------------------------ integers: the rest of the operator surface
   (C02's transcribed division kernels and sign tables, C09's signed bit operators and shifts) composed with the
   full representation; histories over everything *)

Theorem C05_store_fit : forall w, 8 <= w -> forall c v, canonical w (store_fit w c v) /\ rvalue w (store_fit w c v) = v.
Proof. exact store_fit_ok. Qed.
Print Assumptions C05_store_fit.

(** inline exactly when the magnitude fits a double word *)
Theorem C05_canonical_inline_iff : forall w, 8 <= w -> forall r, canonical w r ->
  match r with
  | Inline _ _ _ => Z.abs (rvalue w r) < Words.B w * Words.B w
  | Heap _ _ => Words.B w * Words.B w <= Z.abs (rvalue w r)
  end.
Proof. exact canonical_inline_iff. Qed.
Print Assumptions C05_canonical_inline_iff.

Theorem C05_ibig_bit_signed : forall w, 8 <= w -> forall f o c a b, canonical w a -> canonical w b ->
  canonical w (ibig_bit w f o c a b) /\ rvalue w (ibig_bit w f o c a b) = sbit_spec f (rvalue w a) (rvalue w b).
Proof. exact ibig_bit_ok. Qed.
Print Assumptions C05_ibig_bit_signed.

Theorem C05_ibig_not : forall w, 8 <= w -> forall byref c a, canonical w a ->
  canonical w (ibig_not w byref c a) /\ rvalue w (ibig_not w byref c a) = Z.lnot (rvalue w a).
Proof. exact ibig_not_ok. Qed.
Print Assumptions C05_ibig_not.

Theorem C05_ibig_shift_signed : forall w, 8 <= w -> forall f c a n, canonical w a -> 0 <= n ->
  canonical w (ibig_shift w f c a n) /\ rvalue w (ibig_shift w f c a n) = sshift_spec f (rvalue w a) n.
Proof. exact ibig_shift_ok. Qed.
Print Assumptions C05_ibig_shift_signed.

Theorem C05_ibig_shr_floor : forall w, 8 <= w -> forall c a n, canonical w a -> 0 <= n ->
  rvalue w (ibig_shift w HShr c a n) = rvalue w a / 2 ^ n.
Proof. exact ibig_shr_floor. Qed.
Print Assumptions C05_ibig_shr_floor.

(** DivRem / Div / Rem of magnitudes through the transcribed kernels (two-word primitives, by word, by double word,
    Knuth D, Burnikel-Ziegler over C01's multiplier): canonical quotient and remainder of the right values *)
Theorem C05_ubig_div_rem : forall w, 8 <= w -> forall c a b, rvalue w b <> 0 ->
  exists q r, ubig_div_rem w c a b = Ok (q, r) /\ ubig_div w c a b = Ok q /\ ubig_rem w c a b = Ok r /\
    canonical w q /\ canonical w r /\
    rvalue w q = Z.abs (rvalue w a) / Z.abs (rvalue w b) /\ rvalue w r = Z.abs (rvalue w a) mod Z.abs (rvalue w b).
Proof. exact ubig_div_rem_ok. Qed.
Print Assumptions C05_ubig_div_rem.

Theorem C05_ubig_div_rem_zero : forall w c a b, rvalue w b = 0 ->
  ubig_div_rem w c a b = Panic DivideBy0 /\ ubig_rem w c a b = Panic DivideBy0.
Proof. exact ubig_div_rem_zero. Qed.
Print Assumptions C05_ubig_div_rem_zero.

(** the seven signed forms: what the specification of C02 demands, stored canonically; panics exactly where it says *)
Theorem C05_ibig_divform : forall w, 8 <= w -> forall f c a b,
  match form_spec f (rvalue w a) (rvalue w b) with
  | Ok vs => exists rs, ibig_divform w f c a b = Ok rs /\ Forall (canonical w) rs /\ map (rvalue w) rs = vs
  | Panic p => ibig_divform w f c a b = Panic p
  | Err e => ibig_divform w f c a b = Err e
  | OutOfFuel => ibig_divform w f c a b = OutOfFuel
  end.
Proof. exact ibig_divform_ok. Qed.
Print Assumptions C05_ibig_divform.

Theorem C05_full_history_canonical : forall w, 8 <= w -> forall os p, Forall (canonical w) p -> Forall (aop2_ok w) os ->
  Forall (canonical w) (arun2 w p os).
Proof. exact arun2_canonical. Qed.
Print Assumptions C05_full_history_canonical.

Theorem C05_full_history_values_compare : forall w, 8 <= w -> forall os a b, Forall (aop2_ok w) os ->
  In a (arun2 w [] os) -> In b (arun2 w [] os) ->
  (repr_eq a b = true <-> rvalue w a = rvalue w b) /\
  ibig_cmp w a b = (rvalue w a ?= rvalue w b) /\
  (ibig_cmp w a b = Eq <-> repr_eq a b = true) /\
  (rvalue w a = rvalue w b -> hash_input a = hash_input b) /\
  (abs_eq a b = true <-> Z.abs (rvalue w a) = Z.abs (rvalue w b)) /\
  abs_cmp w a b = (Z.abs (rvalue w a) ?= Z.abs (rvalue w b)).
Proof. exact full_history_values_compare. Qed.
Print Assumptions C05_full_history_values_compare.

(* ------------------------------------------------------------------ floats: add / sub / div / inv / sqrt and the operator
   bodies; the regenerated comparison code; FBig with its context *)

Theorem C05_float_new_of_normalized : forall B a, 2 <= B -> nz B (new_of B a).
Proof. exact new_of_nz. Qed.
Print Assumptions C05_float_new_of_normalized.

Theorem C05_float_new_idempotent : forall B se, 2 <= B -> nz B se -> new_pair B se = se.
Proof. exact new_pair_id. Qed.
Print Assumptions C05_float_new_idempotent.

Theorem C05_float_producers2_normalized : forall B x, 2 <= B -> produced2 B x -> fwf x /\ normalized_ext B x.
Proof. exact produced2_normalized. Qed.
Print Assumptions C05_float_producers2_normalized.

(** the function the run replays against Context::add/sub/mul/div/inv/sqrt/sqr/cubic: always normalised *)
Theorem C05_float_fprod_normalized : forall B du dl o p m s1 e1 s2 e2 s e f, 2 <= B ->
  FloatOrdProducers2Model.fprod_asis B du dl o p m s1 e1 s2 e2 = Ok (s, e, f) ->
  nz B (s, e) /\ fwf (FR s e) /\ normalized_ext B (FR s e).
Proof. exact fprod_asis_normalized. Qed.
Print Assumptions C05_float_fprod_normalized.

Theorem C05_float_eq_sound_on_producers2 : forall B digits_ub x y, 2 <= B ->
  (forall s, s <> 0 -> Z.abs s < B ^ (digits_ub s + 1)) ->
  produced2 B x -> produced2 B y ->
  fbig_eq x y = feq_spec B x y /\
  repr_cmp_same_base B digits_ub false x y = fcmp_spec B x y /\
  repr_cmp_same_base B digits_ub true x y = fabs_cmp_spec B x y /\
  (repr_cmp_same_base B digits_ub false x y = Eq <-> fbig_eq x y = true).
Proof. exact fbig_eq_sound_on_producers2. Qed.
Print Assumptions C05_float_eq_sound_on_producers2.

(** a finite value has one normalised representation: two routes to one value give the same Repr *)
Theorem C05_float_normalized_value_unique : forall B x y, 2 <= B -> fwf x -> fwf y ->
  normalized_ext B x -> normalized_ext B y -> feq_spec B x y = true -> f_is_inf x = false -> f_is_inf y = false -> x = y.
Proof. exact normalized_value_unique. Qed.
Print Assumptions C05_float_normalized_value_unique.

(** the bodies regenerated from float/src/cmp.rs on every run are the hand-written as-is models *)
Theorem C05_fbig_eq_gen_is_model : forall a b, fbig_eq_gen a b = fbig_eq a b.
Proof. exact fbig_eq_gen_is_model. Qed.
Print Assumptions C05_fbig_eq_gen_is_model.

Theorem C05_repr_cmp_gen_is_model : forall B digits_ub abs lhs rhs,
  repr_cmp_same_base_gen B digits_ub abs lhs rhs = repr_cmp_same_base B digits_ub abs lhs rhs.
Proof. exact repr_cmp_gen_is_model. Qed.
Print Assumptions C05_repr_cmp_gen_is_model.

(** PartialOrd between any two rounding modes, Ord, AbsOrd of FBig and Ord of Repr, for any precisions *)
Theorem C05_fbig_ord_any_context : forall B digits_ub, 2 <= B ->
  (forall s, s <> 0 -> Z.abs s < B ^ (digits_ub s + 1)) ->
  forall x y : fbig_c, fwf (fc_repr x) -> fwf (fc_repr y) ->
  fc_partial_cmp B digits_ub x y = Some (fcmp_spec B (fc_repr x) (fc_repr y)) /\
  fc_cmp B digits_ub x y = fcmp_spec B (fc_repr x) (fc_repr y) /\
  fc_abs_cmp B digits_ub x y = fabs_cmp_spec B (fc_repr x) (fc_repr y) /\
  frepr_cmp B digits_ub (fc_repr x) (fc_repr y) = fcmp_spec B (fc_repr x) (fc_repr y).
Proof. exact fbig_ord_any_context. Qed.
Print Assumptions C05_fbig_ord_any_context.

Theorem C05_fbig_eq_any_context : forall B digits_ub, 2 <= B ->
  (forall s, s <> 0 -> Z.abs s < B ^ (digits_ub s + 1)) ->
  forall x y : fbig_c, fwf (fc_repr x) -> fwf (fc_repr y) ->
  normalized_ext B (fc_repr x) -> normalized_ext B (fc_repr y) ->
  fc_eq x y = feq_spec B (fc_repr x) (fc_repr y) /\
  (fc_cmp B digits_ub x y = Eq <-> fc_eq x y = true) /\ (fc_partial_cmp B digits_ub x y = Some Eq <-> fc_eq x y = true).
Proof. exact fbig_eq_any_context. Qed.
Print Assumptions C05_fbig_eq_any_context.

Theorem C05_fbig_cmp_ignores_context : forall B digits_ub r1 r2 p1 m1 p2 m2 p1' m1' p2' m2',
  fc_eq (FC r1 p1 m1) (FC r2 p2 m2) = fc_eq (FC r1 p1' m1') (FC r2 p2' m2') /\
  fc_partial_cmp B digits_ub (FC r1 p1 m1) (FC r2 p2 m2) = fc_partial_cmp B digits_ub (FC r1 p1' m1') (FC r2 p2' m2') /\
  fc_cmp B digits_ub (FC r1 p1 m1) (FC r2 p2 m2) = fc_cmp B digits_ub (FC r1 p1' m1') (FC r2 p2' m2') /\
  fc_abs_cmp B digits_ub (FC r1 p1 m1) (FC r2 p2 m2) = fc_abs_cmp B digits_ub (FC r1 p1' m1') (FC r2 p2' m2').
Proof. exact fbig_cmp_ignores_context. Qed.
Print Assumptions C05_fbig_cmp_ignores_context.

(** Hash exists for UBig, IBig, RBig only: nothing hashes a non-canonical representation *)
Theorem C05_no_structural_hash : relaxed_has_hash_gen = false /\ fbig_has_hash_gen = false.
Proof. exact no_structural_hash. Qed.
Print Assumptions C05_no_structural_hash.

(* ------------------------------------------------------------------ rationals: the regenerated bodies, RBig and Relaxed as dispatched *)

Theorem C05_q_repr_eq_gen_is_model : forall abs a b, q_repr_eq_gen abs a b = q_repr_eq abs a b.
Proof. exact q_repr_eq_gen_is_model. Qed.
Print Assumptions C05_q_repr_eq_gen_is_model.

Theorem C05_q_repr_cmp_gen_is_model : forall abs l r, q_repr_cmp_gen abs l r = q_repr_cmp abs l r.
Proof. exact q_repr_cmp_gen_is_model. Qed.
Print Assumptions C05_q_repr_cmp_gen_is_model.

Theorem C05_rbig_gen_is_model : forall a b,
  rbig_eq_gen a b = rbig_eq a b /\ rbig_abs_eq_gen a b = rbig_abs_eq a b /\
  rbig_hash_fields_gen a = [fst (rbig_hash_input a); snd (rbig_hash_input a)].
Proof. exact rbig_gen_is_model. Qed.
Print Assumptions C05_rbig_gen_is_model.

Theorem C05_derive_lists : relaxed_derives_eq_gen = true /\ relaxed_derives_ord_gen = true /\ rbig_derives_ord_gen = true /\
  rbig_derives_eq_gen = false /\ relaxed_has_hash_gen = false.
Proof. exact derive_lists. Qed.
Print Assumptions C05_derive_lists.

(** Relaxed: == / cmp by value on any representations (common factors allowed): Qeq_bool / Qcompare *)
Theorem C05_relaxed_by_value : forall a b, 0 < qden a -> 0 < qden b ->
  relaxed_eq a b = QArith_base.Qeq_bool (Qof a) (Qof b) /\
  relaxed_cmp a b = QArith_base.Qcompare (Qof a) (Qof b) /\
  relaxed_partial_cmp a b = Some (QArith_base.Qcompare (Qof a) (Qof b)) /\
  (relaxed_cmp a b = Eq <-> relaxed_eq a b = true) /\
  relaxed_abs_eq a b = qeq_spec (qabs a) (qabs b) /\
  rat_abs_cmp a b = qcmp_spec (qabs a) (qabs b).
Proof. exact relaxed_by_value. Qed.
Print Assumptions C05_relaxed_by_value.

Theorem C05_relaxed_scale_invariant : forall a b t, 0 < qden a -> 0 < qden b -> 0 < t ->
  let a' := QR (qnum a * t) (qden a * t) in
  relaxed_eq a' b = relaxed_eq a b /\ relaxed_cmp a' b = relaxed_cmp a b /\ relaxed_eq a' a = true.
Proof. exact relaxed_scale_invariant. Qed.
Print Assumptions C05_relaxed_scale_invariant.

Theorem C05_rbig_consistent_with_relaxed : forall a b, reduced a -> reduced b ->
  rbig_eq_gen a b = relaxed_eq a b /\
  rbig_eq_gen a b = QArith_base.Qeq_bool (Qof a) (Qof b) /\
  rbig_cmp a b = QArith_base.Qcompare (Qof a) (Qof b) /\
  (rbig_cmp a b = Eq <-> rbig_eq_gen a b = true) /\
  (rbig_eq_gen a b = true -> rbig_hash_fields_gen a = rbig_hash_fields_gen b) /\
  rbig_abs_eq_gen a b = relaxed_abs_eq a b.
Proof. exact rbig_consistent_with_relaxed. Qed.
Print Assumptions C05_rbig_consistent_with_relaxed.

(* ================================================================== deepening round 4 *)
From Dashu Require Int.GrlSpec Int.IoSpec Float.ElemF32 Float.ElemAsis Float.LongModel Float.NormalProof Float.FixModel.
From Dashu Require Import Int.ReprOrdArith3Model Int.ReprOrdArith3 Int.HashSeqModel Int.HashSeqProofs Float.FloatOrdProducers2Model Float.FloatOrdProducers3.
From DashuGen Require Import HashGen.

(* ------------------------------------------------------------------ integers: gcd, gcd_ext, roots, pow, radix parsing at Repr level.
   The value-level / word-level as-is models are C12's (Lehmer, Karatsuba square root, Newton, primitive routines), C01's
   (pow.rs at word level) and C07's (word-level parser); the dispatch, the reduction of the large/dword gcd forms, the signs
   and the storing are modelled and proved here.  Every word size w >= 8 (sqrt: the primitive widths 8..64). *)
Theorem C05_repr_gcd : forall w, 8 <= w -> forall fuel c a b r, canonical w a -> canonical w b ->
  repr_gcd w fuel c a b = Ok r -> canonical w r /\ rvalue w r = Z.gcd (rvalue w a) (rvalue w b).
Proof. exact repr_gcd_ok. Qed.
Print Assumptions C05_repr_gcd.

Theorem C05_repr_gcd_small_panics : forall w, 8 <= w -> forall fuel c a b p, canonical w a -> canonical w b ->
  Z.abs (rvalue w a) < Words.B w * Words.B w -> Z.abs (rvalue w b) < Words.B w * Words.B w ->
  repr_gcd w fuel c a b = Panic p -> rvalue w a = 0 /\ rvalue w b = 0 /\ p = GcdZeroZero.
Proof. exact repr_gcd_small_panics. Qed.
Print Assumptions C05_repr_gcd_small_panics.

(** gcd::gcd_ext_word / gcd_ext_dword (large operand against one or two words): the rebuilt cofactor satisfies Bezout *)
Theorem C05_gcd_ext_small_bezout : forall fuel big rhs g s t, 0 <= big -> 0 <= rhs ->
  gcd_ext_small_val fuel big rhs = Ok (g, s, t) -> g = Z.gcd big rhs /\ s * big + t * rhs = g.
Proof. exact gcd_ext_small_val_ok. Qed.
Print Assumptions C05_gcd_ext_small_bezout.

Theorem C05_repr_gcd_ext : forall w, 8 <= w -> forall fuel c a b rs, canonical w a -> canonical w b ->
  repr_gcd_ext w fuel c a b = Ok rs ->
  exists g s t, rs = [g; s; t] /\ canonical w g /\ canonical w s /\ canonical w t /\
    rvalue w g = Z.gcd (rvalue w a) (rvalue w b) /\
    rvalue w s * rvalue w a + rvalue w t * rvalue w b = rvalue w g.
Proof. exact repr_gcd_ext_ok. Qed.
Print Assumptions C05_repr_gcd_ext.

Theorem C05_repr_sqrt : forall w, 8 <= w -> w = 8 \/ w = 16 \/ w = 32 \/ w = 64 -> forall fuel c a, canonical w a ->
  match rsign a with
  | Positive => forall r, repr_sqrt w fuel c a = Ok r -> canonical w r /\ rvalue w r = Z.sqrt (rvalue w a)
  | Negative => repr_sqrt w fuel c a = Panic RootNegative
  end.
Proof. exact repr_sqrt_ok. Qed.
Print Assumptions C05_repr_sqrt.

Theorem C05_repr_sqrt_rem : forall w, 8 <= w -> w = 8 \/ w = 16 \/ w = 32 \/ w = 64 -> forall fuel c a rs, canonical w a ->
  repr_sqrt_rem w fuel c a = Ok rs ->
  exists s r, rs = [s; r] /\ canonical w s /\ canonical w r /\
    rvalue w s = Z.sqrt (Z.abs (rvalue w a)) /\ rvalue w r = Z.abs (rvalue w a) - rvalue w s * rvalue w s.
Proof. exact repr_sqrt_rem_ok. Qed.
Print Assumptions C05_repr_sqrt_rem.

Theorem C05_repr_nth_root : forall w, 8 <= w -> w = 8 \/ w = 16 \/ w = 32 \/ w = 64 -> forall fuel c a n r, canonical w a -> 0 < n ->
  repr_nth_root w fuel c a n = Ok r -> canonical w r /\ GrlSpec.iroot_cert n (rvalue w a) (rvalue w r) = true.
Proof. exact repr_nth_root_ok. Qed.
Print Assumptions C05_repr_nth_root.

Theorem C05_repr_nth_root_any_word : forall w, 8 <= w -> forall fuel c a n r, canonical w a -> 0 < n -> n <> 2 ->
  repr_nth_root w fuel c a n = Ok r -> canonical w r /\ GrlSpec.iroot_cert n (rvalue w a) (rvalue w r) = true.
Proof. exact repr_nth_root_ok_any. Qed.
Print Assumptions C05_repr_nth_root_any_word.

Theorem C05_repr_nth_root_panics : forall w, 8 <= w -> forall fuel c a, canonical w a ->
  repr_nth_root w fuel c a 0 = Panic RootZeroth /\
  (forall n, n <> 0 -> rvalue w a < 0 -> Z.even n = true -> repr_nth_root w fuel c a n = Panic RootNegative).
Proof. exact repr_nth_root_panics. Qed.
Print Assumptions C05_repr_nth_root_panics.

(** total: pow.rs at word level (C01) never fails; canonical result, the power *)
Theorem C05_repr_pow : forall w, 8 <= w -> forall cap c a e, canonical w a -> 0 <= e ->
  exists r, repr_ipow w cap c a e = Ok r /\ canonical w r /\ rvalue w r = rvalue w a ^ e.
Proof. exact repr_ipow_ok. Qed.
Print Assumptions C05_repr_pow.

Theorem C05_parse_is_spec : forall w, 8 <= w -> forall sg r s, w mod 2 = 0 ->
  parse_val w sg r s = IoSpec.from_str_radix_spec sg r s.
Proof. exact parse_val_is_spec. Qed.
Print Assumptions C05_parse_is_spec.

Theorem C05_repr_parse : forall w, 8 <= w -> forall sg c r s x, w mod 2 = 0 ->
  repr_parse w sg c r s = Ok x -> canonical w x /\ IoSpec.from_str_radix_spec sg r s = Ok (rvalue w x).
Proof. exact repr_parse_ok. Qed.
Print Assumptions C05_repr_parse.

Theorem C05_producer_history_canonical : forall w, 8 <= w -> forall os p,
  Forall (canonical w) p -> Forall (aop3_ok w) os -> Forall (canonical w) (arun3 w p os).
Proof. exact arun3_canonical. Qed.
Print Assumptions C05_producer_history_canonical.

(** every finite history over constructors, copies, sign changes, in-place updates, + - * sqr cubic, all division forms,
    & | ^ ! << >>, gcd, gcd_ext, sqrt, sqrt_rem, nth_root, pow and from_str_radix *)
Theorem C05_producer_history_values_compare : forall w, 8 <= w -> forall os a b, Forall (aop3_ok w) os ->
  In a (arun3 w [] os) -> In b (arun3 w [] os) ->
  (repr_eq a b = true <-> rvalue w a = rvalue w b) /\
  ibig_cmp w a b = (rvalue w a ?= rvalue w b) /\
  (ibig_cmp w a b = Eq <-> repr_eq a b = true) /\
  (rvalue w a = rvalue w b -> hash_input a = hash_input b) /\
  (abs_eq a b = true <-> Z.abs (rvalue w a) = Z.abs (rvalue w b)) /\
  abs_cmp w a b = (Z.abs (rvalue w a) ?= Z.abs (rvalue w b)).
Proof. exact producer_history_values_compare. Qed.
Print Assumptions C05_producer_history_values_compare.

(* ------------------------------------------------------------------ the call sequence of Hash::hash, any Hasher, any word size *)
Theorem C05_hash_calls_eq : forall w, 0 < w -> forall le a b, canonical w a -> canonical w b -> rvalue w a = rvalue w b ->
  repr_hash le w a = repr_hash le w b.
Proof. exact repr_hash_eq. Qed.
Print Assumptions C05_hash_calls_eq.

Theorem C05_any_hasher_agrees : forall w, 0 < w -> forall le a b, canonical w a -> canonical w b -> rvalue w a = rvalue w b ->
  forall (S : Type) (H : hasher S) (st : S),
    feed H st (repr_hash le w a) = feed H st (repr_hash le w b) /\
    h_finish H (feed H st (repr_hash le w a)) = h_finish H (feed H st (repr_hash le w b)).
Proof. exact any_hasher_agrees. Qed.
Print Assumptions C05_any_hasher_agrees.

Theorem C05_hash_byte_stream_eq : forall w, 0 < w -> forall le pw a b, canonical w a -> canonical w b -> rvalue w a = rvalue w b ->
  byte_stream le pw (repr_hash le w a) = byte_stream le pw (repr_hash le w b).
Proof. exact byte_stream_eq. Qed.
Print Assumptions C05_hash_byte_stream_eq.

(** the hasher input of rounds 1-3 (discriminant, length, words) is this sequence before the byte encoding *)
Theorem C05_hash_calls_of_input : forall w le r,
  repr_hash le w r = match hash_input r with
                     | d :: n :: ws => [HWriteIsize d; HWriteUsize n; HWrite (slice_bytes le w ws)]
                     | _ => []
                     end.
Proof. exact repr_hash_of_input. Qed.
Print Assumptions C05_hash_calls_of_input.

Theorem C05_rbig_hash_calls : forall w, 0 < w -> forall le na da nb db,
  canonical w na -> canonical w da -> canonical w nb -> canonical w db ->
  reduced (QR (rvalue w na) (rvalue w da)) -> reduced (QR (rvalue w nb) (rvalue w db)) ->
  qeq_spec (QR (rvalue w na) (rvalue w da)) (QR (rvalue w nb) (rvalue w db)) = true ->
  rbig_hash le w na da = rbig_hash le w nb db /\
  forall (S : Type) (H : hasher S) (st : S), feed H st (rbig_hash le w na da) = feed H st (rbig_hash le w nb db).
Proof. exact rbig_hash_eq. Qed.
Print Assumptions C05_rbig_hash_calls.

Theorem C05_hash_calls_inj : forall w, 0 < w -> forall le a b, w mod 8 = 0 -> canonical w a -> canonical w b ->
  repr_hash le w a = repr_hash le w b -> rvalue w a = rvalue w b.
Proof. exact repr_hash_inj. Qed.
Print Assumptions C05_hash_calls_inj.

(** NOT cross-build stable: builds with different word sizes feed different sequences for every non-zero value *)
Theorem C05_hash_depends_on_word_size : forall le1 le2 w1 w2 a b, 0 < w1 -> 0 < w2 -> w1 mod 8 = 0 -> w2 mod 8 = 0 -> w1 <> w2 ->
  canonical w1 a -> canonical w2 b -> rvalue w1 a = rvalue w2 b -> rvalue w1 a <> 0 ->
  repr_hash le1 w1 a <> repr_hash le2 w2 b.
Proof. exact hash_depends_on_word_size. Qed.
Print Assumptions C05_hash_depends_on_word_size.

Theorem C05_hash_of_zero : forall le w r, 0 < w -> canonical w r -> rvalue w r = 0 ->
  repr_hash le w r = [HWriteIsize 0; HWriteUsize 0; HWrite []].
Proof. exact hash_of_zero. Qed.
Print Assumptions C05_hash_of_zero.

(** regenerated from integer/src/repr.rs, cmp.rs, ubig.rs, ibig.rs, base/src/sign.rs on every run *)
Theorem C05_repr_hash_gen_is_model : forall le w r, hash_fields le w r repr_hash_steps_gen = repr_hash le w r.
Proof. exact repr_hash_gen_is_model. Qed.
Print Assumptions C05_repr_hash_gen_is_model.

Theorem C05_sign_disc_gen_is_model : forall s, sign_disc_gen s = sign_disc s.
Proof. exact sign_disc_gen_is_model. Qed.
Print Assumptions C05_sign_disc_gen_is_model.

Theorem C05_int_derive_lists :
  (forall t, In t [TrHash; TrPartialEq; TrEq] -> In t ubig_derives_gen /\ In t ibig_derives_gen /\ In t sign_derives_gen) /\
  ~ In TrOrd ubig_derives_gen /\ ~ In TrOrd ibig_derives_gen /\ ~ In TrPartialOrd ubig_derives_gen /\ ~ In TrPartialOrd ibig_derives_gen /\
  repr_eq_views_gen = [VSignSlice; VSignSlice].
Proof. exact int_derive_lists. Qed.
Print Assumptions C05_int_derive_lists.

Theorem C05_typed_cmp_gen_is_model : forall a b, typed_cmp_gen a b = typed_cmp a b.
Proof. exact typed_cmp_gen_is_model. Qed.
Print Assumptions C05_typed_cmp_gen_is_model.

Theorem C05_ibig_cmp_gen_is_model : forall w a b, ibig_cmp_gen w a b = ibig_cmp w a b.
Proof. exact ibig_cmp_gen_is_model. Qed.
Print Assumptions C05_ibig_cmp_gen_is_model.

(** which comparison impls exist between UBig, IBig and primitives (finite regenerated table): ==, <, cmp only within one
    type; the four AbsOrd and four AbsEq pairs read magnitudes only *)
Theorem C05_int_cmp_impl_table :
  forallb impl_ok int_cmp_impls_gen = true /\
  forallb (fun sr => has_impl TrAbsOrd (fst sr) (snd sr) && has_impl TrAbsEq (fst sr) (snd sr))
          [(TUBig, TUBig); (TIBig, TIBig); (TIBig, TUBig); (TUBig, TIBig)] = true /\
  forallb (fun t => has_impl TrOrd t t && has_impl TrPartialOrd t t) [TUBig; TIBig] = true /\
  forallb (fun t => negb (has_impl t TUBig TIBig) && negb (has_impl t TIBig TUBig) && negb (has_impl t TUBig TOther) && negb (has_impl t TIBig TOther))
          [TrPartialEq; TrEq; TrPartialOrd; TrOrd] = true /\
  cmp_in_place_shape_gen = 1.
Proof. exact int_cmp_impl_table. Qed.
Print Assumptions C05_int_cmp_impl_table.

(* ------------------------------------------------------------------ floats: the replayed producer is C03's `_n` model; exp / ln / powi / powf *)
Theorem C05_fprod_is_c03_model : forall B, 2 <= B -> forall du dl o p m s1 e1 s2 e2,
  LongModel.is_normal B s1 e1 = true -> LongModel.is_normal B s2 e2 = true ->
  let raw := match o with
             | FoAdd => FixModel.ctx_add_fix_n B du p m s1 e1 s2 e2 | FoSub => FixModel.ctx_sub_fix_n B du p m s1 e1 s2 e2
             | FoMul => Ok (FixModel.ctx_mul_fix_n B p m s1 e1 s2 e2) | FoSqr => Ok (FixModel.ctx_sqr_fix_n B p m s1 e1)
             | FoCubic => Ok (FixModel.ctx_cubic_fix_n B p m s1 e1)
             | FoDiv => FixModel.repr_div_fix_n B p m s1 e1 s2 e2 | FoInv => FixModel.ctx_inv_fix_n B p m s1 e1
             | FoSqrt => LongModel.ctx_sqrt_n B p m s1 e1
             end in
  FloatOrdProducers2Model.fprod_asis B du dl o p m s1 e1 s2 e2 =
    match raw with
    | Ok a => Ok (approx_sig a, approx_exp a, match a with AExact _ _ => None | AInexact _ _ r => Some r end)
    | Panic c => Panic c | Err c => Err c | OutOfFuel => OutOfFuel
    end.
Proof. exact fprod_asis_is_c03_model. Qed.
Print Assumptions C05_fprod_is_c03_model.

(** C11's as-is models of Context::powi / exp / exp_m1 / ln / ln_1p / powf return normalised pairs: every base, precision,
    mode, operand, fuel, word size and f32 estimate layer *)
Theorem C05_float_elem_normalized : forall B, 2 <= B -> forall (F : Type) (O : ElemF32.f32ops F) W fuel p m s e n ys ye flag,
  (forall a, ElemAsis.powi_asis B p m s e n = Ok a -> NormalProof.approx_normal B a) /\
  (forall a, ElemAsis.exp_internal B O W fuel p m s e flag = Ok a -> NormalProof.approx_normal B a) /\
  (forall a, ElemAsis.ln_internal B O W fuel p m s e flag = Ok a -> NormalProof.approx_normal B a) /\
  (forall a, ElemAsis.powf_asis B O W fuel p m s e ys ye = Ok a -> NormalProof.approx_normal B a).
Proof. exact elem_results_normal. Qed.
Print Assumptions C05_float_elem_normalized.

Theorem C05_float_producers3_normalized : forall B x, 2 <= B -> produced3 B x -> fwf x /\ normalized_ext B x.
Proof. exact produced3_normalized. Qed.
Print Assumptions C05_float_producers3_normalized.

Theorem C05_float_eq_sound_on_producers3 : forall B digits_ub x y, 2 <= B ->
  (forall s, s <> 0 -> Z.abs s < B ^ (digits_ub s + 1)) ->
  produced3 B x -> produced3 B y ->
  fbig_eq x y = feq_spec B x y /\
  repr_cmp_same_base B digits_ub false x y = fcmp_spec B x y /\
  repr_cmp_same_base B digits_ub true x y = fabs_cmp_spec B x y /\
  (repr_cmp_same_base B digits_ub false x y = Eq <-> fbig_eq x y = true).
Proof. exact fbig_eq_sound_on_producers3. Qed.
Print Assumptions C05_float_eq_sound_on_producers3.

(* ------------------------------------------------------------------ Repr::digits_ub: the hypothesis of the float theorems is a
   theorem for the f32 code (arms regenerated from float/src/repr.rs), for every sound log2 estimator *)
From Coq Require Import Reals.
From Flocq Require Import Core IEEE754.BinarySingleNaN.
From Dashu Require Import Cross.XLog2Model Cross.XLog2Flocq Float.DigitsUbModel Float.DigitsUbProof.
Open Scope Z_scope.

Theorem C05_digits_ub32_is_gen : forall lg w B s, s <> 0 ->
  digits_ub32 lg 64 w B s =
  digits_ub_est B (fst (ibig_log2_bounds lg w s)) (snd (ibig_log2_bounds lg w s)) (fst (u_log2_bounds lg B)) (snd (u_log2_bounds lg B)).
Proof. exact digits_ub32_is_gen. Qed.
Print Assumptions C05_digits_ub32_is_gen.

Theorem C05_digits_ub_contract : forall (B s : Z) (lb ub blb bub : f32),
  2 <= B -> s <> 0 -> Z.abs s < B ^ (2 ^ 24) ->
  is_finite ub = true -> (log2R (IZR (Z.abs s)) <= B2R ub)%R -> (B2R ub <= bpow radix2 100)%R ->
  (B <> 2 -> B <> 10 -> is_finite blb = true /\ (/ 2 <= B2R blb <= log2R (IZR B))%R) ->
  Z.abs s < B ^ digits_ub_est B lb ub blb bub.
Proof. exact digits_ub_contract. Qed.
Print Assumptions C05_digits_ub_contract.

Theorem C05_digits_ub_hypothesis : forall (B s : Z) (lb ub blb bub : f32),
  2 <= B -> s <> 0 -> Z.abs s < B ^ (2 ^ 24) ->
  is_finite ub = true -> (log2R (IZR (Z.abs s)) <= B2R ub)%R -> (B2R ub <= bpow radix2 100)%R ->
  (B <> 2 -> B <> 10 -> is_finite blb = true /\ (/ 2 <= B2R blb <= log2R (IZR B))%R) ->
  Z.abs s < B ^ (digits_ub_est B lb ub blb bub + 1).
Proof. exact digits_ub_hypothesis. Qed.
Print Assumptions C05_digits_ub_hypothesis.

(** the regenerated comparison body run with the regenerated f32 digit estimate is the order of the values *)
Theorem C05_float_cmp_with_f32_estimate : forall B, 2 <= B ->
  forall (est : Z -> f32 * f32) (best : f32 * f32),
  (forall s, s <> 0 -> Z.abs s < B ^ (2 ^ 24) ->
     is_finite (snd (est s)) = true /\ (log2R (IZR (Z.abs s)) <= B2R (snd (est s)) <= bpow radix2 100)%R) ->
  (B <> 2 -> B <> 10 -> is_finite (fst best) = true /\ (/ 2 <= B2R (fst best) <= log2R (IZR B))%R) ->
  forall l r, fwf l -> fwf r ->
  repr_cmp_same_base_gen B (du32 B est best) false l r = fcmp_spec B l r /\
  repr_cmp_same_base_gen B (du32 B est best) true l r = fabs_cmp_spec B l r.
Proof. exact float_cmp_with_f32_estimate. Qed.
Print Assumptions C05_float_cmp_with_f32_estimate.
