(** C20 - literal macros build exactly the number that was written: pinned statements.
    Models: theories/Macro/LitModel.v; proofs: LitGenProofs.v (generators, constructors),
    LitTokProofs.v (token loops).  Every statement is for all magnitudes / all token lists. *)
From Dashu Require Import Base.Prelude Base.Words Int.IoSpec Int.IoModel Float.TextIoSpec Float.PartsConstModel Ratio.RatArithModel
  Macro.LitModel Macro.LitGenProofs Macro.LitTokProofs
  Macro.LitLexModel Macro.LitLexProofs Macro.LitRefModel Macro.LitRefProofs Macro.LitSrcProofs Macro.LitTemplateProofs
  Macro.LitLexComplete Macro.LitSrcComplete Macro.LitSrcRatio.
From DashuGen Require Import LitTemplates.
Open Scope Z_scope.

(** from_le_bytes (to_le_bytes n) = n, and the byte string is the shortest one *)
Theorem C20_le_bytes_roundtrip : forall n, 0 <= n -> value 8 (le_bytes n) = n.
Proof. exact le_bytes_value. Qed.
Print Assumptions C20_le_bytes_roundtrip.

Theorem C20_le_bytes_minimal : forall n, 0 <= n -> le_bytes n = [] \/ last (le_bytes n) 0 <> 0.
Proof. exact le_bytes_top. Qed.
Print Assumptions C20_le_bytes_minimal.

(** the byte strings used here are C07's specification of UBig::to_le_bytes / from_le_bytes *)
Theorem C20_le_bytes_is_c07_spec : forall n bs, le_bytes n = to_le_bytes_spec n /\ value 8 bs = le_value bs.
Proof. exact le_bytes_c07_spec. Qed.
Print Assumptions C20_le_bytes_is_c07_spec.

(** regrouping bytes into words of k bytes (le_bytes_to_<int>_array), any k > 0: well-formed words,
    same value, length = ceil(bytes / k), top word non-zero when the top byte is *)
Theorem C20_regroup : forall k : nat, (0 < k)%nat -> forall bs, wf 8 bs ->
  let a := le_bytes_to_array k bs in
  wf (8 * Z.of_nat k) a /\ value (8 * Z.of_nat k) a = value 8 bs /\
  (length bs <= length a * k)%nat /\ (length a * k < length bs + k)%nat /\
  (bs <> [] -> last bs 0 <> 0 -> a <> [] /\ last a 0 <> 0).
Proof. exact le_bytes_to_array_spec. Qed.
Print Assumptions C20_regroup.

(** quote_words for 16/32/64-bit words: LEN excludes the padding, max_len suffices, entries in range *)
Theorem C20_static_slice : forall wbits bs, std_word wbits -> wf 8 bs ->
  select_words wbits (quote_words bs) = Some (le_bytes_to_array (word_bytes wbits) bs).
Proof. exact select_words_quote. Qed.
Print Assumptions C20_static_slice.

(** from_static_words' assertions hold and it builds the number *)
Theorem C20_static_words_value : forall wbits bs, std_word wbits -> wf 8 bs -> (bs = [] \/ last bs 0 <> 0) ->
  eval_words wbits (quote_words bs) = Some (value 8 bs).
Proof. exact eval_words_quote. Qed.
Print Assumptions C20_static_words_value.

(** the three integer generators build the parsed number, whatever the magnitude and the word size *)
Theorem C20_int_generators : forall wbits static_ s mag, std_word wbits -> 0 <= mag ->
  eval_ishape wbits (gen_int_asis static_ s mag) = Some (int_spec s mag).
Proof. exact gen_int_asis_correct. Qed.
Print Assumptions C20_int_generators.

Theorem C20_int_generator_path : forall static_ s mag, 0 <= mag ->
  (exists u, gen_int_asis static_ s mag = IC32 s u) <-> (mag < 2 ^ 32 /\ static_ = false).
Proof. exact gen_int_asis_path. Qed.
Print Assumptions C20_int_generator_path.

(** float generators: (sign, significand, exponent, precision) preserved outside the two listed classes *)
Theorem C20_float_generators : forall B wbits static_ s mag e p,
  B = 2 \/ B = 10 -> std_word wbits -> float_pre B mag e p ->
  ~ Known_static_precision static_ mag p -> ~ Known_zero_precision mag p ->
  eval_fshape B wbits (gen_float_asis static_ s mag e p) = Some (float_spec s mag e p).
Proof. exact gen_float_asis_correct. Qed.
Print Assumptions C20_float_generators.

Theorem C20_float_static_precision_refuted :
  exists s mag e p, float_pre 2 mag e p /\ Known_static_precision true mag p /\
    eval_fshape 2 64 (gen_float_asis true s mag e p) <> Some (float_spec s mag e p).
Proof. exact float_static_precision_refuted. Qed.
Print Assumptions C20_float_static_precision_refuted.

Theorem C20_float_zero_precision_refuted :
  exists st s e p, float_pre 10 0 e p /\ Known_zero_precision 0 p /\
    eval_fshape 10 64 (gen_float_asis st s 0 e p) <> Some (float_spec s 0 e p).
Proof. exact float_zero_precision_refuted. Qed.
Print Assumptions C20_float_zero_precision_refuted.

(** ratio generators: (numerator, denominator) preserved; the macro's components are reduced *)
Theorem C20_ratio_generators : forall wbits static_ relaxed num den,
  std_word wbits -> ratio_pre num den -> ratio_reduced relaxed num den ->
  eval_rshape wbits relaxed (gen_ratio_asis static_ num den) = Some (num, den).
Proof. exact gen_ratio_asis_correct. Qed.
Print Assumptions C20_ratio_generators.

Theorem C20_ratio_parts_reduced : forall relaxed num den a c,
  ratio_parts_spec relaxed num den = Some (a, c) -> relaxed = false -> ratio_pre a c /\ ratio_reduced false a c.
Proof. exact ratio_parts_spec_reduced. Qed.
Print Assumptions C20_ratio_parts_reduced.

(** the const Euclid loop of RBig::from_parts_const never runs out of the model's fuel *)
Theorem C20_const_gcd_fuel : forall fuel y r, 0 <= r < y -> blen y + blen r < Z.of_nat fuel ->
  naive_gcd_loop fuel y r <> None.
Proof. exact naive_gcd_loop_fuel. Qed.
Print Assumptions C20_const_gcd_fuel.

(** token loops (after the repairs F03-F05): the loops of parse_integer_with_error / parse_ratio_with_error
    accept exactly the literal grammar and read every literal as the grammar does, for every token list *)
Theorem C20_int_tokens_eq : forall signed_ ts, int_tokens_asis signed_ ts = int_tokens_spec signed_ ts.
Proof. exact int_tokens_asis_eq_spec. Qed.
Print Assumptions C20_int_tokens_eq.

Theorem C20_rat_tokens_eq : forall ts, rat_tokens_asis ts = rat_tokens_spec ts.
Proof. exact rat_tokens_asis_eq_spec. Qed.
Print Assumptions C20_rat_tokens_eq.

Theorem C20_fbin_text : forall ts, fbin_text_asis ts = fbin_text_spec ts.
Proof. exact fbin_text_asis_spec. Qed.
Print Assumptions C20_fbin_text.

(** every accepted token sets one more mark of the loop: at most 4 / 8 tokens *)
Theorem C20_int_tokens_length : forall signed_ ts r, int_tokens_asis signed_ ts = Some r -> (length ts <= 4)%nat.
Proof. exact int_tokens_asis_length. Qed.
Print Assumptions C20_int_tokens_length.

Theorem C20_rat_tokens_length : forall ts r, rat_tokens_asis ts = Some r -> (length ts <= 8)%nat.
Proof. exact rat_tokens_asis_length. Qed.
Print Assumptions C20_rat_tokens_length.

(** the repaired deviations (findings F03, F04, F05): the witnesses are refused *)
Theorem C20_int_repeated_sign_rejected :
  int_tokens_asis true [mk_tok TPunct [45]; mk_tok TPunct [45]; mk_tok TLit [53]] = None /\
  int_tokens_asis true [mk_tok TPunct [45]; mk_tok TPunct [43]; mk_tok TLit [53]] = None /\
  int_tokens_asis false [mk_tok TLit [53]; mk_tok TIdent t_base; mk_tok TIdent t_base; mk_tok TLit [49; 48]] = None.
Proof. exact int_repeated_sign_rejected. Qed.
Print Assumptions C20_int_repeated_sign_rejected.

Theorem C20_rat_outside_grammar_rejected :
  rat_tokens_asis [mk_tok TLit [49]; mk_tok TLit [50]] = None /\
  rat_tokens_asis [mk_tok TLit [49]; mk_tok TPunct [47]] = None /\
  rat_tokens_asis [mk_tok TPunct [47]; mk_tok TLit [50]] = None /\
  rat_tokens_asis [mk_tok TPunct [45]; mk_tok TPunct [45]; mk_tok TLit [49]; mk_tok TPunct [47]; mk_tok TLit [50]] = None /\
  rat_tokens_asis [mk_tok TPunct [126]; mk_tok TPunct [126]; mk_tok TLit [49]] = None /\
  rat_tokens_asis [mk_tok TLit [49]; mk_tok TPunct [45]; mk_tok TPunct [47]; mk_tok TLit [50]] = None.
Proof. exact rat_outside_grammar_rejected. Qed.
Print Assumptions C20_rat_outside_grammar_rejected.

Theorem C20_fbin_double_sign_rejected :
  fbin_text_asis [mk_tok TPunct [45]; mk_tok TPunct [43]; mk_tok TLit [49]] = None /\
  fbin_text_asis [mk_tok TPunct [45]; mk_tok TIdent [95; 48; 120; 49]] = Some (Negative, [48; 120; 49]).
Proof. exact fbin_double_sign_rejected. Qed.
Print Assumptions C20_fbin_double_sign_rejected.

(* ================================================================================================================ *)
(** * round 3: relative to the GRAMMAR VALUE of the literal, with the run-time parsers as their own properties model them
    (C07 Int/IoModel.v, C08 Float/PartsConstModel.v fbig_from_str_asis, C04 Ratio/RatArithModel.v), Macro/LitRefModel.v *)

(** ubig!/ibig!/static_ubig!/static_ibig!, the whole macro (token loop -> C07's as-is parser for the host word size w ->
    generator -> emitted constructor for the target word size): it compiles iff the tokens are a literal of the grammar
    [+|-]? value [`base` N]? with value = digits and `_` of the radix (C07 body_rel), and then it builds exactly
    sign * positional value of the written digits *)
Theorem C20_int_macro_builds_the_written_number : forall w wbits signed_ static_ ts z, parser_word w -> std_word wbits ->
  (macro_int_asis w wbits signed_ static_ ts = Some z <-> int_literal signed_ ts z).
Proof. exact macro_int_asis_literal. Qed.
Print Assumptions C20_int_macro_builds_the_written_number.

(** with `base N` the digits are digits of radix N even where they look like a radix prefix (seeded change C20_D) *)
Theorem C20_base_suffix_ignores_pseudo_prefix :
  macro_int_asis 64 64 false false [mk_tok TLit [48; 98; 49; 48; 49]; mk_tok TIdent t_base; mk_tok TLit [49; 54]] = Some 45313 /\
  macro_int_asis 64 32 false true [mk_tok TLit [48; 111; 49; 55]; mk_tok TIdent t_base; mk_tok TLit [51; 50]] = Some 24615 /\
  macro_int_asis 64 64 true false [mk_tok TPunct [45]; mk_tok TLit [48; 120; 49; 102]; mk_tok TIdent t_base; mk_tok TLit [51; 54]] = Some (- 42819) /\
  macro_int_asis 64 64 false false [mk_tok TLit [48; 120; 49; 48]; mk_tok TIdent t_base; mk_tok TLit [49; 48]] = None /\
  macro_int_asis 64 64 false false [mk_tok TLit [48; 98; 49; 48; 49]; mk_tok TIdent t_base; mk_tok TLit [49; 49]] = None.
Proof. exact macro_int_pseudo_prefix. Qed.
Print Assumptions C20_base_suffix_ignores_pseudo_prefix.

(** ... which is what the run-time parser of the same signedness returns for the text sign + value in that radix *)
Theorem C20_int_macro_equals_runtime_parser : forall w signed_ neg v b, parser_word w -> value_text_ok v = true ->
  (neg = true -> signed_ = true) ->
  int_runtime w signed_ neg v b =
  match macro_uint_asis w v b with Some (m, _) => Some (signed (sign_of_neg neg) m) | None => None end.
Proof. exact macro_int_eq_runtime. Qed.
Print Assumptions C20_int_macro_equals_runtime_parser.

Theorem C20_uint_value_is_grammar_value : forall v b m r,
  macro_uint_value v b = Some (m, r) <->
  exists body ds, uint_text_split v b = Some (r, body) /\ body_rel r body ds /\ ds <> [] /\ m = digits_value r ds.
Proof. exact macro_uint_value_literal. Qed.
Print Assumptions C20_uint_value_is_grammar_value.

(** a float literal of C08's grammar hands the generators what they are proved for *)
Theorem C20_float_literal_meets_generator_precondition : forall B s sig e p, 2 <= B ->
  TextIoSpec.parse_spec B s = Some (sig, e, p) -> float_pre B (Z.abs sig) e p.
Proof. exact parse_spec_float_pre. Qed.
Print Assumptions C20_float_literal_meets_generator_precondition.

(** fbig!/static_fbig! and dbig!/static_dbig!, the whole macro (text of the tokens -> FBig::from_str as C08 models it ->
    generator -> constructor): a literal of the grammar outside the two recorded precision classes builds exactly the
    written significand, exponent and digit count; everything the macro compiles is a literal of the grammar *)
Theorem C20_fbin_macro_builds_the_written_number : forall wbits static_ ts r, std_word wbits -> fbin_literal ts r ->
  ~ Known_float static_ r -> macro_fbin_asis wbits static_ ts = Some r.
Proof. exact macro_fbin_correct. Qed.
Print Assumptions C20_fbin_macro_builds_the_written_number.

Theorem C20_fbin_macro_rejects_the_rest : forall wbits static_ ts r, macro_fbin_asis wbits static_ ts = Some r ->
  exists s body sig e p, fbin_text_spec ts = Some (s, body) /\ TextIoSpec.parse_spec 2 body = Some (sig, e, p).
Proof. exact macro_fbin_rejects. Qed.
Print Assumptions C20_fbin_macro_rejects_the_rest.

Theorem C20_fdec_macro_builds_the_written_number : forall wbits static_ ts r, std_word wbits -> fdec_literal ts r ->
  ~ Known_float static_ r -> macro_fdec_asis wbits static_ ts = Some r.
Proof. exact macro_fdec_correct. Qed.
Print Assumptions C20_fdec_macro_builds_the_written_number.

Theorem C20_fdec_macro_rejects_the_rest : forall wbits static_ ts r, macro_fdec_asis wbits static_ ts = Some r ->
  exists v, TextIoSpec.parse_spec 10 (join_tokens ts) = Some v.
Proof. exact macro_fdec_rejects. Qed.
Print Assumptions C20_fdec_macro_rejects_the_rest.

(** the sign fbig! strips itself is the sign FBig::from_str reads: same text, same number *)
Theorem C20_fbin_sign_is_runtime_sign : forall body sig e p, starts_with_sign body = false ->
  TextIoSpec.parse_spec 2 body = Some (sig, e, p) ->
  TextIoSpec.parse_spec 2 (45 :: body) = Some (- sig, e, p) /\ TextIoSpec.parse_spec 2 (43 :: body) = Some (sig, e, p).
Proof. exact fbin_runtime_text. Qed.
Print Assumptions C20_fbin_sign_is_runtime_sign.

(** rbig!/static_rbig!: the components are those the run-time parser (rational/src/parse.rs over C07's integer parsers,
    then C04's reduce / reduce2) builds from the text [-]num[/[-]den] in the same radix ... *)
Theorem C20_ratio_macro_equals_runtime_parser : forall w o, rat_texts_ok o = true ->
  macro_rat_parts_asis w o =
  match rat_runtime w o with Some (a, c) => Some (fst (fst (fst (fst o))), a, c) | None => None end.
Proof. exact macro_rat_parts_eq_runtime. Qed.
Print Assumptions C20_ratio_macro_equals_runtime_parser.

(** ... the macro compiles iff the tokens are a fraction literal of the grammar with a non-zero denominator ... *)
Theorem C20_ratio_macro_builds_the_written_fraction : forall w wbits static_ ts rel a c, parser_word w -> std_word wbits ->
  (macro_rat_asis w wbits static_ ts = Some (rel, (a, c)) <->
   exists num den, rat_literal ts rel num den /\
                   (if rel then xfrom_parts_signed_asis num den else from_parts_signed_asis num den) = Ok (a, c)).
Proof. exact macro_rat_asis_literal. Qed.
Print Assumptions C20_ratio_macro_builds_the_written_fraction.

(** ... and what is built has the value of the written fraction, a positive denominator, lowest terms for RBig and no
    common factor two for Relaxed - on the const, the heap and the static path, for every target word size *)
Theorem C20_ratio_macro_value : forall w wbits static_ ts rel a c, parser_word w -> std_word wbits ->
  macro_rat_asis w wbits static_ ts = Some (rel, (a, c)) ->
  exists num den, rat_literal ts rel num den /\ den <> 0 /\ 0 < c /\ a * den = num * c /\
                  (rel = false -> Z.gcd a c = 1) /\ (rel = true -> a = 0 \/ Z.abs a mod 2 <> 0 \/ c mod 2 <> 0).
Proof. exact macro_rat_asis_value. Qed.
Print Assumptions C20_ratio_macro_value.

(** * round 3: token reconstruction (Macro/LitLexModel.v = the lexer that cuts the literal text into the macro's tokens) *)

(** the tokens joined again are the text without its white space - nothing dropped, changed or re-ordered; every token is
    a non-empty run of visible characters, literals start with a digit, identifiers with a letter or `_`, punctuation is
    one character, no groups *)
Theorem C20_tokens_are_the_text : forall s ts, lex s = LexOk ts -> join_tokens ts = strip_ws s /\ Forall tok_ok ts.
Proof. exact lex_join. Qed.
Print Assumptions C20_tokens_are_the_text.

Theorem C20_text_of_tokens_of_literal : forall s ts, Forall vis s -> lex s = LexOk ts -> join_tokens ts = s.
Proof. exact lex_text_roundtrip. Qed.
Print Assumptions C20_text_of_tokens_of_literal.

Theorem C20_lexer_fuel : forall s, lex s <> LexOutOfFuel.
Proof. exact lex_total. Qed.
Print Assumptions C20_lexer_fuel.

(* ---- round 4: the lexer keeps maximal-munch tokens; tokens -> text -> the same tokens ---- *)

(** a token never ends inside a run of letters, digits and `_` (`a3f`, `0x1F`, `123`, `1e5` are never split): identifiers
    and integer literals ARE such a maximal run, a float literal contains the run it starts with *)
Theorem C20_lexer_maximal_munch : forall s k n, leaf s = Some (k, n) ->
  match k with
  | TPunct => n = 1%nat
  | TIdent => n = span is_ident_continue s
  | TLit => (span is_ident_continue s <= n)%nat /\ (n = span is_ident_continue s \/ float_len s = Some n)
  | TGroup => False
  end.
Proof. exact leaf_munch. Qed.
Print Assumptions C20_lexer_maximal_munch.

Theorem C20_int_literal_token_is_the_run : forall s n, int_len s = Some n -> n = span is_ident_continue s.
Proof. exact int_len_span. Qed.
Print Assumptions C20_int_literal_token_is_the_run.

(** the only lexical error of the modelled alphabet: `0x` / `0o` / `0b` at the start of a token without a digit of that
    radix behind it, or with a decimal digit that is none (`0x`, `0xg`, `0b2`, `0o8`) *)
Theorem C20_lexer_errors_located : forall s, lex s = LexErr ->
  exists pre rest, s = pre ++ rest /\ bad_radix_literal rest.
Proof. exact lex_err_located. Qed.
Print Assumptions C20_lexer_errors_located.

Theorem C20_lexer_accepts_the_rest : forall s, modelled s = true ->
  (forall pre rest, s = pre ++ rest -> ~ bad_radix_literal rest) -> exists ts, lex s = LexOk ts.
Proof. exact lex_ok. Qed.
Print Assumptions C20_lexer_accepts_the_rest.

(** which words are one token in front of any separator: identifiers; numbers = a digit, then letters, digits, `_`
    (`123`, `0x1F`, `1e5`, `1_000`, `12a`) unless a radix prefix has no digits *)
Theorem C20_identifier_is_one_token : forall c w, is_ident_start c = true ->
  Forall (fun x => is_ident_continue x = true) w -> tok_lexes (mk_tok TIdent (c :: w)).
Proof. exact ident_word_lexes. Qed.
Print Assumptions C20_identifier_is_one_token.

Theorem C20_number_word_is_one_token : forall d w, is_digit d = true ->
  Forall (fun x => is_ident_continue x = true) w -> int_digits (d :: w) <> None -> tok_lexes (mk_tok TLit (d :: w)).
Proof. exact number_word_lexes. Qed.
Print Assumptions C20_number_word_is_one_token.

Theorem C20_decimal_word_is_one_token : forall d w, is_digit d = true -> Forall (fun x => is_ident_continue x = true) w ->
  (d <> 48 \/ match w with x :: _ => x <> 120 /\ x <> 111 /\ x <> 98 | [] => True end) -> tok_lexes (mk_tok TLit (d :: w)).
Proof. exact decimal_word_lexes. Qed.
Print Assumptions C20_decimal_word_is_one_token.

(** tokens -> text -> the same tokens: any sequence of such tokens, white space (or a separating punctuation character,
    or the end) after every identifier and number, is lexed back into exactly these tokens *)
Theorem C20_text_of_tokens_lexes_back : forall l tail, layout_ok l tail -> modelled (render l tail) = true ->
  lex (render l tail) = LexOk (map snd l).
Proof. exact lex_render. Qed.
Print Assumptions C20_text_of_tokens_lexes_back.

(** integer macros, the converse of C20_source_text_int: EVERY text laid out as  [+|-]? value [base N]?  is cut into these
    tokens and the macro is the run-time parser: it compiles iff the parser accepts, with the same number *)
Theorem C20_int_layout_is_well_formed : forall sg wsS ws0 vt bs tail,
  ws_text wsS -> ws_text ws0 -> ws_text tail -> tok_lexes vt ->
  match bs with Some (ws1, ws2, nt) => ws_text ws1 /\ ws1 <> [] /\ ws_text ws2 /\ ws2 <> [] /\ tok_lexes nt | None => True end ->
  layout_ok (int_layout sg wsS ws0 vt bs) tail.
Proof. exact int_layout_ok. Qed.
Print Assumptions C20_int_layout_is_well_formed.

Theorem C20_source_text_int_complete : forall w wbits signed_ static_ l tail neg v b, parser_word w -> std_word wbits ->
  layout_ok l tail -> modelled (render l tail) = true -> int_tokens_spec signed_ (map snd l) = Some (neg, v, b) ->
  lex (render l tail) = LexOk (map snd l) /\
  macro_int_asis w wbits signed_ static_ (map snd l) = int_runtime w signed_ neg v b.
Proof. exact src_int_complete. Qed.
Print Assumptions C20_source_text_int_complete.

Theorem C20_source_text_int_literal : forall w wbits signed_ static_ sg wsS ws0 vt bs tail, parser_word w -> std_word wbits ->
  ws_text wsS -> ws_text ws0 -> ws_text tail -> tok_lexes vt -> is_value_tok vt = true -> (sg <> None -> signed_ = true) ->
  match bs with
  | Some (ws1, ws2, nt) => ws_text ws1 /\ ws1 <> [] /\ ws_text ws2 /\ ws2 <> [] /\ tok_lexes nt /\ is_lit_tok nt = true
  | None => True end ->
  let l := int_layout sg wsS ws0 vt bs in
  modelled (render l tail) = true ->
  lex (render l tail) = LexOk (map snd l) /\
  macro_int_asis w wbits signed_ static_ (map snd l) =
  int_runtime w signed_ (match sg with Some true => true | _ => false end) (ttext vt)
              (match bs with Some (_, _, nt) => Some (ttext nt) | None => None end).
Proof. exact src_int_literal_text. Qed.
Print Assumptions C20_source_text_int_literal.

(** float macros: every text whose radix prefixes are well-formed is cut into tokens and the macros read its text *)
Theorem C20_source_text_float_complete : forall wbits static_ s, modelled s = true ->
  (forall pre rest, s = pre ++ rest -> ~ bad_radix_literal rest) ->
  exists ts, lex s = LexOk ts /\
    macro_fbin_asis wbits static_ ts = fbin_of_text wbits static_ (strip_ws s) /\
    macro_fdec_asis wbits static_ ts = fdec_of_text wbits static_ (strip_ws s).
Proof. exact src_float_complete. Qed.
Print Assumptions C20_source_text_float_complete.

Theorem C20_source_text_decimal_float_complete : forall wbits static_ s, modelled s = true -> no_radix_letters s = true ->
  exists ts, lex s = LexOk ts /\ macro_fdec_asis wbits static_ ts = fdec_of_text wbits static_ (strip_ws s).
Proof. exact src_decimal_float_complete. Qed.
Print Assumptions C20_source_text_decimal_float_complete.

(** identifier and number tokens of a lexed text consist of letters, digits, `_`, `.`, `+`, `-` *)
Theorem C20_value_token_characters : forall s ts, lex s = LexOk ts ->
  Forall (fun t => is_value_tok t = true -> Forall (fun c => lit_char c = true) (ttext t)) ts.
Proof. exact lex_value_tokens. Qed.
Print Assumptions C20_value_token_characters.

(** ... so the side condition of C20_ratio_macro_equals_runtime_parser holds for every text the lexer cuts *)
Theorem C20_source_text_ratio_side_condition : forall s ts o, lex s = LexOk ts -> rat_tokens_spec ts = Some o -> rat_texts_ok o = true.
Proof. exact src_rat_texts_ok. Qed.
Print Assumptions C20_source_text_ratio_side_condition.

(** rbig!/static_rbig! from the SOURCE TEXT: the components of the run-time ratio parser on  [-]num[/[-]den]  in that radix,
    a compile error exactly when the tokens are no fraction literal or that parser refuses the text *)
Theorem C20_source_text_ratio : forall w wbits static_ s ts, std_word wbits -> lex s = LexOk ts ->
  macro_rat_asis w wbits static_ ts =
  match rat_tokens_spec ts with
  | Some o => match rat_runtime w o with Some (a, c) => Some (fst (fst (fst (fst o))), (a, c)) | None => None end
  | None => None
  end.
Proof. exact src_rat_macro_runtime. Qed.
Print Assumptions C20_source_text_ratio.

(** from the SOURCE TEXT to the number, integer macros: if the text lexes and the macro compiles, the text without white
    space is [+|-]? value [base N]? and the number built is the run-time parser's for [-]? value in that radix *)
Theorem C20_source_text_int : forall w wbits signed_ static_ s ts z, parser_word w -> std_word wbits ->
  lex s = LexOk ts -> macro_int_asis w wbits signed_ static_ ts = Some z ->
  exists neg v b sgn, strip_ws s = sgn ++ v ++ base_suffix b /\ (sgn = sign_text neg \/ (sgn = [43] /\ neg = false)) /\
                      int_runtime w signed_ neg v b = Some z.
Proof. exact src_int_macro_runtime. Qed.
Print Assumptions C20_source_text_int.

(** float macros: however the lexer cuts the text (`1e5` one token, `1.` `e5` three, `0x1.8p-3` five), and whatever white
    space separates the tokens, the same float is built *)
Theorem C20_source_text_float : forall wbits static_ s ts s' ts', lex s = LexOk ts -> lex s' = LexOk ts' ->
  strip_ws s = strip_ws s' ->
  macro_fbin_asis wbits static_ ts = macro_fbin_asis wbits static_ ts' /\
  macro_fdec_asis wbits static_ ts = macro_fdec_asis wbits static_ ts'.
Proof. exact src_float_macros. Qed.
Print Assumptions C20_source_text_float.

Theorem C20_source_text_fdec_literal : forall s ts r, lex s = LexOk ts ->
  (fdec_literal ts r <-> TextIoSpec.parse_spec 10 (strip_ws s) = Some r).
Proof. exact src_fdec_literal. Qed.
Print Assumptions C20_source_text_fdec_literal.

(* ================================================================================================================ *)
(** * round 3: the code-generator templates, regenerated from macros/src/parse/{int,float,ratio}.rs on every run
    (coq/gen/LitTemplates.v): for every flag combination and magnitude the row the guards select calls the constructor,
    with the arguments, that the shape of the model stands for.  String literals: this section comes last. *)
From Coq Require Import String.
Local Open Scope string_scope.
Local Open Scope Z_scope.

Theorem C20_templates_int : forall signed_ static_ s mag,
  select (env_int signed_ static_ (blen mag <=? nth 0 bitlen_thresholds_parse_integer 0)) "" tpl_parse_integer
  = Some (int_calls signed_ (gen_int_asis static_ s mag)) /\
  select (env_int signed_ static_ false) "data_defs" tpl_parse_integer
  = (if static_ then Some ["generator quote_words(& big.to_le_bytes(), embedded)"] else None).
Proof. exact tpl_int_matches_model. Qed.
Print Assumptions C20_templates_int.

Theorem C20_templates_bytes :
  select [] "" tpl_quote_ubig = Some ["UBig::from_le_bytes(& BYTES)"] /\
  select [] "bytes_tt" tpl_quote_ubig = Some ["generator quote_bytes(& bytes)"] /\
  select [] "" tpl_quote_ibig = Some ["IBig::from_parts(#sign, #mag_tt)"] /\
  select [] "mag_tt" tpl_quote_ibig = Some ["generator quote_ubig(embedded, mag)"].
Proof. exact tpl_bytes_matches_model. Qed.
Print Assumptions C20_templates_bytes.

Theorem C20_templates_float : forall static_ s mag e p,
  float_value_row static_ (blen mag <=? nth 0 bitlen_thresholds_parse_binary_float 0) tpl_parse_binary_float
  = Some (fbin_calls (gen_float_asis static_ s mag e p)) /\
  float_value_row static_ (blen mag <=? nth 0 bitlen_thresholds_parse_decimal_float 0) tpl_parse_decimal_float
  = Some (fdec_calls (gen_float_asis static_ s mag e p)) /\
  select (env_float true true) "" tpl_parse_binary_float = Some [] /\
  select (env_float true true) "" tpl_parse_decimal_float = Some [] /\
  select (env_float false false) "signif_tt" tpl_parse_binary_float = Some ["generator quote_ibig(embedded, IBig::from_parts(sign, mag))"] /\
  select (env_float false false) "signif_tt" tpl_parse_decimal_float = Some ["generator quote_ibig(embedded, IBig::from_parts(sign, mag))"] /\
  select (env_float true false) "data_defs" tpl_parse_binary_float = Some ["generator quote_words(& mag.to_le_bytes(), embedded)"] /\
  select (env_float true false) "data_defs" tpl_parse_decimal_float = Some ["generator quote_words(& bytes, embedded)"].
Proof. exact tpl_float_matches_model. Qed.
Print Assumptions C20_templates_float.

Theorem C20_templates_ratio : forall relaxed num den,
  let th k := nth k bitlen_thresholds_parse_ratio 0 in
  let nf := blen (Z.abs num) <=? th 2%nat in
  let df := blen den <=? th 3%nat in
  th 0%nat = 32 /\ th 1%nat = 32 /\
  match gen_ratio_asis false num den with
  | RC32 _ _ _ => select (env_ratio relaxed nf df) "" tpl_parse_ratio = Some ["#type_tt::from_parts_const(#sign, #num as _, #den as _)"]
  | RParts n d =>
    select (env_ratio relaxed nf df) "" tpl_parse_ratio = Some ["#type_tt::from_parts(#num_tt, #den_tt)"] /\
    select (env_ratio relaxed nf df) "num_tt" tpl_parse_ratio = Some (part_calls true n) /\
    select (env_ratio relaxed nf df) "den_tt" tpl_parse_ratio = Some (part_calls false d)
  | RStatic _ _ _ => False
  end /\
  select (env_ratio relaxed nf df) "type_tt" tpl_parse_ratio = Some [] /\
  select (env_ratio relaxed nf df) "" tpl_parse_static_ratio =
    Some (if relaxed then ["Relaxed::from_static_words(#sign, NUM_DATA, DEN_DATA)"]
          else ["mem::transmute(#ns::Relaxed::from_static_words(#sign, NUM_DATA, DEN_DATA))"; "Relaxed::from_static_words(#sign, NUM_DATA, DEN_DATA)"]) /\
  select [] "num_data_defs" tpl_parse_static_ratio = Some ["generator quote_words(& num.to_le_bytes(), embedded)"] /\
  select [] "den_data_defs" tpl_parse_static_ratio = Some ["generator quote_words(& den.to_le_bytes(), embedded)"].
Proof. exact tpl_ratio_matches_model. Qed.
Print Assumptions C20_templates_ratio.

Theorem C20_templates_thresholds :
  bitlen_thresholds_parse_integer = [32] /\ bitlen_thresholds_parse_binary_float = [32] /\ bitlen_thresholds_parse_decimal_float = [32] /\
  bitlen_thresholds_parse_ratio = [32; 32; 32; 32] /\ bitlen_thresholds_parse_static_ratio = [] /\
  bitlen_thresholds_quote_ubig = [] /\ bitlen_thresholds_quote_ibig = [].
Proof. exact tpl_thresholds. Qed.
Print Assumptions C20_templates_thresholds.

(* ---- round 4: the tables behind the macro names, regenerated from macros/src/lib.rs, src/lib.rs and quote_words ---- *)
From Dashu Require Import Macro.LitEntryProofs.
From DashuGen Require Import LitEntryPoints.

(** each of the twenty proc-macro names calls the front end the model is indexed by, with the flags its name promises *)
Theorem C20_entry_points : forall k static_ embedded,
  find_entry (macro_name k static_ embedded) = Some (expected_entry k static_ embedded).
Proof. exact entry_points_table. Qed.
Print Assumptions C20_entry_points.

Theorem C20_entry_points_count :
  List.length proc_macro_entries = 20%nat /\ NoDup (map (fun e => fst (fst (fst e))) proc_macro_entries).
Proof. exact entry_points_count. Qed.
Print Assumptions C20_entry_points_count.

(** every `dashu::` wrapper hands over `[$crate]` and reaches the front end of the plain macro with embedded = true *)
Theorem C20_dashu_wrappers_pass_crate : forall k static_,
  exists target, find_wrapper (macro_name k static_ false) = Some (macro_name k static_ false, target, true) /\
                 find_entry target = Some (expected_entry k static_ true).
Proof. exact dashu_path_front_end. Qed.
Print Assumptions C20_dashu_wrappers_pass_crate.

(** the selector rows of quote_words are the model's selectors: element type uN, LEN and DATA of the same converter *)
Theorem C20_static_selector_rows :
  Forall row_consistent quote_words_selectors /\
  quote_words_max_len = "(le_bytes.len() + 1) / 2" /\ quote_words_trait_len = "max_len" /\
  forall bs, q_sel (quote_words bs) =
    map (fun r => let '(d, l) := array_tokens (row_bytes r) bs (Nat.div (List.length bs + 1) 2) in (l, d)) quote_words_selectors /\
    map (fun r => sel_index (Z.of_nat (let '(n, _, _, _, _, _) := r in n))) quote_words_selectors = [0; 1; 2]%nat.
Proof. exact selectors_table. Qed.
Print Assumptions C20_static_selector_rows.
