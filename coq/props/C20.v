(** C20 - literal macros build exactly the number that was written: pinned statements.
    Models: theories/Macro/LitModel.v; proofs: LitGenProofs.v (generators, constructors),
    LitTokProofs.v (token loops).  Every statement is for all magnitudes / all token lists. *)
From Dashu Require Import Base.Prelude Base.Words Int.IoSpec Macro.LitModel Macro.LitGenProofs Macro.LitTokProofs.
Open Scope Z_scope.

(** from_le_bytes (to_le_bytes n) = n, and the byte string is the shortest one *)
Theorem C20_le_bytes_roundtrip : forall n, 0 <= n -> value 8 (le_bytes n) = n.
Proof. exact le_bytes_value. Qed.
Print Assumptions C20_le_bytes_roundtrip.

Theorem C20_le_bytes_minimal : forall n, 0 <= n -> le_bytes n = [] \/ last (le_bytes n) 0 <> 0.
Proof. exact le_bytes_top. Qed.
Print Assumptions C20_le_bytes_minimal.

(** the byte strings used here are C07's specification of UBig::to_le_bytes / from_le_bytes *)
Theorem C20_le_bytes_is_c07_spec : forall n bs, le_bytes n = to_le_bytes_spec n /\ value 8 bs = le_value bs.
Proof. exact le_bytes_c07_spec. Qed.
Print Assumptions C20_le_bytes_is_c07_spec.

(** regrouping bytes into words of k bytes (le_bytes_to_<int>_array), any k > 0: well-formed words,
    same value, length = ceil(bytes / k), top word non-zero when the top byte is *)
Theorem C20_regroup : forall k : nat, (0 < k)%nat -> forall bs, wf 8 bs ->
  let a := le_bytes_to_array k bs in
  wf (8 * Z.of_nat k) a /\ value (8 * Z.of_nat k) a = value 8 bs /\
  (length bs <= length a * k)%nat /\ (length a * k < length bs + k)%nat /\
  (bs <> [] -> last bs 0 <> 0 -> a <> [] /\ last a 0 <> 0).
Proof. exact le_bytes_to_array_spec. Qed.
Print Assumptions C20_regroup.

(** quote_words for 16/32/64-bit words: LEN excludes the padding, max_len suffices, entries in range *)
Theorem C20_static_slice : forall wbits bs, std_word wbits -> wf 8 bs ->
  select_words wbits (quote_words bs) = Some (le_bytes_to_array (word_bytes wbits) bs).
Proof. exact select_words_quote. Qed.
Print Assumptions C20_static_slice.

(** from_static_words' assertions hold and it builds the number *)
Theorem C20_static_words_value : forall wbits bs, std_word wbits -> wf 8 bs -> (bs = [] \/ last bs 0 <> 0) ->
  eval_words wbits (quote_words bs) = Some (value 8 bs).
Proof. exact eval_words_quote. Qed.
Print Assumptions C20_static_words_value.

(** the three integer generators build the parsed number, whatever the magnitude and the word size *)
Theorem C20_int_generators : forall wbits static_ s mag, std_word wbits -> 0 <= mag ->
  eval_ishape wbits (gen_int_asis static_ s mag) = Some (int_spec s mag).
Proof. exact gen_int_asis_correct. Qed.
Print Assumptions C20_int_generators.

Theorem C20_int_generator_path : forall static_ s mag, 0 <= mag ->
  (exists u, gen_int_asis static_ s mag = IC32 s u) <-> (mag < 2 ^ 32 /\ static_ = false).
Proof. exact gen_int_asis_path. Qed.
Print Assumptions C20_int_generator_path.

(** float generators: (sign, significand, exponent, precision) preserved outside the two listed classes *)
Theorem C20_float_generators : forall B wbits static_ s mag e p,
  B = 2 \/ B = 10 -> std_word wbits -> float_pre B mag e p ->
  ~ Known_static_precision static_ mag p -> ~ Known_zero_precision mag p ->
  eval_fshape B wbits (gen_float_asis static_ s mag e p) = Some (float_spec s mag e p).
Proof. exact gen_float_asis_correct. Qed.
Print Assumptions C20_float_generators.

Theorem C20_float_static_precision_refuted :
  exists s mag e p, float_pre 2 mag e p /\ Known_static_precision true mag p /\
    eval_fshape 2 64 (gen_float_asis true s mag e p) <> Some (float_spec s mag e p).
Proof. exact float_static_precision_refuted. Qed.
Print Assumptions C20_float_static_precision_refuted.

Theorem C20_float_zero_precision_refuted :
  exists st s e p, float_pre 10 0 e p /\ Known_zero_precision 0 p /\
    eval_fshape 10 64 (gen_float_asis st s 0 e p) <> Some (float_spec s 0 e p).
Proof. exact float_zero_precision_refuted. Qed.
Print Assumptions C20_float_zero_precision_refuted.

(** ratio generators: (numerator, denominator) preserved; the macro's components are reduced *)
Theorem C20_ratio_generators : forall wbits static_ relaxed num den,
  std_word wbits -> ratio_pre num den -> ratio_reduced relaxed num den ->
  eval_rshape wbits relaxed (gen_ratio_asis static_ num den) = Some (num, den).
Proof. exact gen_ratio_asis_correct. Qed.
Print Assumptions C20_ratio_generators.

Theorem C20_ratio_parts_reduced : forall relaxed num den a c,
  ratio_parts_spec relaxed num den = Some (a, c) -> relaxed = false -> ratio_pre a c /\ ratio_reduced false a c.
Proof. exact ratio_parts_spec_reduced. Qed.
Print Assumptions C20_ratio_parts_reduced.

(** the const Euclid loop of RBig::from_parts_const never runs out of the model's fuel *)
Theorem C20_const_gcd_fuel : forall fuel y r, 0 <= r < y -> blen y + blen r < Z.of_nat fuel ->
  naive_gcd_loop fuel y r <> None.
Proof. exact naive_gcd_loop_fuel. Qed.
Print Assumptions C20_const_gcd_fuel.

(** token loops (after the repairs F03-F05): the loops of parse_integer_with_error / parse_ratio_with_error
    accept exactly the literal grammar and read every literal as the grammar does, for every token list *)
Theorem C20_int_tokens_eq : forall signed_ ts, int_tokens_asis signed_ ts = int_tokens_spec signed_ ts.
Proof. exact int_tokens_asis_eq_spec. Qed.
Print Assumptions C20_int_tokens_eq.

Theorem C20_rat_tokens_eq : forall ts, rat_tokens_asis ts = rat_tokens_spec ts.
Proof. exact rat_tokens_asis_eq_spec. Qed.
Print Assumptions C20_rat_tokens_eq.

Theorem C20_fbin_text : forall ts, fbin_text_asis ts = fbin_text_spec ts.
Proof. exact fbin_text_asis_spec. Qed.
Print Assumptions C20_fbin_text.

(** every accepted token sets one more mark of the loop: at most 4 / 8 tokens *)
Theorem C20_int_tokens_length : forall signed_ ts r, int_tokens_asis signed_ ts = Some r -> (length ts <= 4)%nat.
Proof. exact int_tokens_asis_length. Qed.
Print Assumptions C20_int_tokens_length.

Theorem C20_rat_tokens_length : forall ts r, rat_tokens_asis ts = Some r -> (length ts <= 8)%nat.
Proof. exact rat_tokens_asis_length. Qed.
Print Assumptions C20_rat_tokens_length.

(** the repaired deviations (findings F03, F04, F05): the witnesses are refused *)
Theorem C20_int_repeated_sign_rejected :
  int_tokens_asis true [mk_tok TPunct [45]; mk_tok TPunct [45]; mk_tok TLit [53]] = None /\
  int_tokens_asis true [mk_tok TPunct [45]; mk_tok TPunct [43]; mk_tok TLit [53]] = None /\
  int_tokens_asis false [mk_tok TLit [53]; mk_tok TIdent t_base; mk_tok TIdent t_base; mk_tok TLit [49; 48]] = None.
Proof. exact int_repeated_sign_rejected. Qed.
Print Assumptions C20_int_repeated_sign_rejected.

Theorem C20_rat_outside_grammar_rejected :
  rat_tokens_asis [mk_tok TLit [49]; mk_tok TLit [50]] = None /\
  rat_tokens_asis [mk_tok TLit [49]; mk_tok TPunct [47]] = None /\
  rat_tokens_asis [mk_tok TPunct [47]; mk_tok TLit [50]] = None /\
  rat_tokens_asis [mk_tok TPunct [45]; mk_tok TPunct [45]; mk_tok TLit [49]; mk_tok TPunct [47]; mk_tok TLit [50]] = None /\
  rat_tokens_asis [mk_tok TPunct [126]; mk_tok TPunct [126]; mk_tok TLit [49]] = None /\
  rat_tokens_asis [mk_tok TLit [49]; mk_tok TPunct [45]; mk_tok TPunct [47]; mk_tok TLit [50]] = None.
Proof. exact rat_outside_grammar_rejected. Qed.
Print Assumptions C20_rat_outside_grammar_rejected.

Theorem C20_fbin_double_sign_rejected :
  fbin_text_asis [mk_tok TPunct [45]; mk_tok TPunct [43]; mk_tok TLit [49]] = None /\
  fbin_text_asis [mk_tok TPunct [45]; mk_tok TIdent [95; 48; 120; 49]] = Some (Negative, [48; 120; 49]).
Proof. exact fbin_double_sign_rejected. Qed.
Print Assumptions C20_fbin_double_sign_rejected.
