(** C20 - literal macros build exactly the number that was written: pinned statements.
    Models: theories/Macro/LitModel.v; proofs: LitGenProofs.v (generators, constructors),
    LitTokProofs.v (token loops).  Every statement is for all magnitudes / all token lists. *)
From Dashu Require Import Base.Prelude Base.Words Int.IoSpec Macro.LitModel Macro.LitGenProofs Macro.LitTokProofs.
Open Scope Z_scope.

(** from_le_bytes (to_le_bytes n) = n, and the byte string is the shortest one *)
Theorem C20_le_bytes_roundtrip : forall n, 0 <= n -> value 8 (le_bytes n) = n.
Proof. exact le_bytes_value. Qed.
Print Assumptions C20_le_bytes_roundtrip.

Theorem C20_le_bytes_minimal : forall n, 0 <= n -> le_bytes n = [] \/ last (le_bytes n) 0 <> 0.
Proof. exact le_bytes_top. Qed.
Print Assumptions C20_le_bytes_minimal.

(** regrouping bytes into words of k bytes (le_bytes_to_<int>_array), any k > 0: well-formed words,
    same value, length = ceil(bytes / k), top word non-zero when the top byte is *)
Theorem C20_regroup : forall k : nat, (0 < k)%nat -> forall bs, wf 8 bs ->
  let a := le_bytes_to_array k bs in
  wf (8 * Z.of_nat k) a /\ value (8 * Z.of_nat k) a = value 8 bs /\
  (length bs <= length a * k)%nat /\ (length a * k < length bs + k)%nat /\
  (bs <> [] -> last bs 0 <> 0 -> a <> [] /\ last a 0 <> 0).
Proof. exact le_bytes_to_array_spec. Qed.
Print Assumptions C20_regroup.

(** quote_words for 16/32/64-bit words: LEN excludes the padding, max_len suffices, entries in range *)
Theorem C20_static_slice : forall wbits bs, std_word wbits -> wf 8 bs ->
  select_words wbits (quote_words bs) = Some (le_bytes_to_array (word_bytes wbits) bs).
Proof. exact select_words_quote. Qed.
Print Assumptions C20_static_slice.

(** from_static_words' assertions hold and it builds the number *)
Theorem C20_static_words_value : forall wbits bs, std_word wbits -> wf 8 bs -> (bs = [] \/ last bs 0 <> 0) ->
  eval_words wbits (quote_words bs) = Some (value 8 bs).
Proof. exact eval_words_quote. Qed.
Print Assumptions C20_static_words_value.

(** the three integer generators build the parsed number, whatever the magnitude and the word size *)
Theorem C20_int_generators : forall wbits static_ s mag, std_word wbits -> 0 <= mag ->
  eval_ishape wbits (gen_int_asis static_ s mag) = Some (int_spec s mag).
Proof. exact gen_int_asis_correct. Qed.
Print Assumptions C20_int_generators.

Theorem C20_int_generator_path : forall static_ s mag, 0 <= mag ->
  (exists u, gen_int_asis static_ s mag = IC32 s u) <-> (mag < 2 ^ 32 /\ static_ = false).
Proof. exact gen_int_asis_path. Qed.
Print Assumptions C20_int_generator_path.

(** float generators: (sign, significand, exponent, precision) preserved outside the two listed classes *)
Theorem C20_float_generators : forall B wbits static_ s mag e p,
  B = 2 \/ B = 10 -> std_word wbits -> float_pre B mag e p ->
  ~ Known_static_precision static_ mag p -> ~ Known_zero_precision mag p ->
  eval_fshape B wbits (gen_float_asis static_ s mag e p) = Some (float_spec s mag e p).
Proof. exact gen_float_asis_correct. Qed.
Print Assumptions C20_float_generators.

Theorem C20_float_static_precision_refuted :
  exists s mag e p, float_pre 2 mag e p /\ Known_static_precision true mag p /\
    eval_fshape 2 64 (gen_float_asis true s mag e p) <> Some (float_spec s mag e p).
Proof. exact float_static_precision_refuted. Qed.
Print Assumptions C20_float_static_precision_refuted.

Theorem C20_float_zero_precision_refuted :
  exists st s e p, float_pre 10 0 e p /\ Known_zero_precision 0 p /\
    eval_fshape 10 64 (gen_float_asis st s 0 e p) <> Some (float_spec s 0 e p).
Proof. exact float_zero_precision_refuted. Qed.
Print Assumptions C20_float_zero_precision_refuted.

(** ratio generators: (numerator, denominator) preserved; the macro's components are reduced *)
Theorem C20_ratio_generators : forall wbits static_ relaxed num den,
  std_word wbits -> ratio_pre num den -> ratio_reduced relaxed num den ->
  eval_rshape wbits relaxed (gen_ratio_asis static_ num den) = Some (num, den).
Proof. exact gen_ratio_asis_correct. Qed.
Print Assumptions C20_ratio_generators.

Theorem C20_ratio_parts_reduced : forall relaxed num den a c,
  ratio_parts_spec relaxed num den = Some (a, c) -> relaxed = false -> ratio_pre a c /\ ratio_reduced false a c.
Proof. exact ratio_parts_spec_reduced. Qed.
Print Assumptions C20_ratio_parts_reduced.

(** the const Euclid loop of RBig::from_parts_const never runs out of the model's fuel *)
Theorem C20_const_gcd_fuel : forall fuel y r, 0 <= r < y -> blen y + blen r < Z.of_nat fuel ->
  naive_gcd_loop fuel y r <> None.
Proof. exact naive_gcd_loop_fuel. Qed.
Print Assumptions C20_const_gcd_fuel.

(** token loops: every literal of the grammar is accepted with the grammar's reading ... *)
Theorem C20_int_tokens_sound : forall signed_ ts r,
  int_tokens_spec signed_ ts = Some r -> int_tokens_asis signed_ ts = Some r.
Proof. exact int_tokens_spec_sound. Qed.
Print Assumptions C20_int_tokens_sound.

Theorem C20_rat_tokens_sound : forall ts r, rat_tokens_spec ts = Some r -> rat_tokens_asis ts = Some r.
Proof. exact rat_tokens_spec_sound. Qed.
Print Assumptions C20_rat_tokens_sound.

Theorem C20_fbin_text_sound : forall ts s b, fbin_text_spec ts = Some (s, b) -> fbin_text_asis ts = (s, b).
Proof. exact fbin_text_spec_sound. Qed.
Print Assumptions C20_fbin_text_sound.

(** ... and the loops accept more than the grammar (findings F03, F04, F05) *)
Theorem C20_int_tokens_refuted :
  exists ts, int_lax ts /\ int_tokens_spec true ts = None /\ int_tokens_asis true ts = Some (true, [53], None).
Proof. exact int_tokens_refuted. Qed.
Print Assumptions C20_int_tokens_refuted.

Theorem C20_rat_tokens_refuted :
  (exists ts, rat_tokens_spec ts = None /\ rat_tokens_asis ts = Some (false, false, [49], Some (false, [50]), None)) /\
  (exists ts, rat_tokens_spec ts = None /\ rat_tokens_asis ts = Some (false, false, [49], None, None) /\ length ts = 2%nat).
Proof. exact rat_tokens_refuted. Qed.
Print Assumptions C20_rat_tokens_refuted.

Theorem C20_fbin_double_sign_refuted :
  exists ts, fbin_text_spec ts = None /\ fbin_text_asis ts = (Negative, [43; 49]).
Proof. exact fbin_double_sign_refuted. Qed.
Print Assumptions C20_fbin_double_sign_refuted.
