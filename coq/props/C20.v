(** C20 - literal macros build exactly the number that was written: pinned statements. *)
From Dashu Require Import Base.Prelude Base.Words Int.IoSpec Macro.LitModel.
Open Scope Z_scope.
