(** C18 - rational approximation functions return the optimal fraction they promise.
    ONLY statements pinned here; proofs live in Dashu.Ratio.*. *)
From Dashu Require Import Base.Prelude Ratio.SimplestSpec Ratio.SimplestModel Ratio.SimplerOrder.
Open Scope Z_scope.

Theorem C18_is_simpler_than : forall x y, is_simpler_than_asis x y = simpler x y.
Proof. exact is_simpler_than_asis_spec. Qed.
Print Assumptions C18_is_simpler_than.
