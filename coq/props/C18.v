(** C18 - rational approximation functions return the optimal fraction they promise.
    ONLY statements pinned here; proofs live in Dashu.Ratio.*.  Fractions are pairs (n, d) : Z * Z
    with d > 0; [fval_lt]/[fval_eq] compare values by cross multiplication. *)
From Dashu Require Import Base.Prelude Float.RoundSpec Ratio.SimplestSpec Ratio.SimplestModel Ratio.SimplerOrder
  Ratio.SimplestProof Ratio.SimplestAsis Ratio.FareyProof Ratio.FareyNext Ratio.FareyNearest Ratio.SimplestFindings
  Ratio.SimplestClosed Ratio.SimplestFloatEq Ratio.SimplestIeeeEq Ratio.SimplestIeeeFixed Ratio.RoundPreimage Ratio.FloatPreimage Ratio.IeeePreimage
  Ratio.SimplestFromFloatCorrect
  Ratio.ErrorBoundsTableProof Ratio.SimplifyGenProof Ratio.RoundExecProof Ratio.SimplestEdges
  Ratio.SimplestDeepModel Ratio.SimplestDeepProof Ratio.SimplifyBodiesModel Ratio.SimplifyBodiesProof Ratio.SimplestIeeeDeepModel Ratio.SimplestIeeeDeepProof
  Ratio.SimplestR4Findings.
From Dashu Require Conv.ConvSpec Conv.ConvModel Float.Contract Float.AddModel.
From DashuGen Require Import ErrorBoundsTable SimplifyGen SimplestFloatGen SimplifyBodiesGen.
Open Scope Z_scope.

(** ** is_simpler_than *)
Theorem C18_is_simpler_than : forall x y, is_simpler_than_asis x y = simpler x y.
Proof. exact is_simpler_than_asis_spec. Qed.
Print Assumptions C18_is_simpler_than.

Theorem C18_simpler_keys : forall x y, simpler x y = true <->
  snd x < snd y \/ (snd x = snd y /\ (Z.abs (fst x) < Z.abs (fst y) \/ (Z.abs (fst x) = Z.abs (fst y) /\ fst y < 0 < fst x))).
Proof. exact simpler_keys. Qed.
Print Assumptions C18_simpler_keys.

Theorem C18_simpler_strict_total_order :
  (forall x, simpler x x = false) /\
  (forall x y, simpler x y = true -> simpler y x = false) /\
  (forall x y z, simpler x y = true -> simpler y z = true -> simpler x z = true) /\
  (forall x y, x <> y -> simpler x y = true \/ simpler y x = true).
Proof. exact simpler_strict_total_order. Qed.
Print Assumptions C18_simpler_strict_total_order.

(** ** simplest_in *)
Theorem C18_simplest_in_spec_optimal : forall l u, 0 < snd l -> 0 < snd u -> ~ fval_eq l u ->
  exists r, simplest_in_spec l u = Ok r /\ Z.gcd (fst r) (snd r) = 1 /\
    ((fval_lt l u /\ simplest_between l u r) \/ (fval_lt u l /\ simplest_between u l r)).
Proof. exact simplest_in_spec_correct. Qed.
Print Assumptions C18_simplest_in_spec_optimal.

Theorem C18_simplest_in_model_eq_spec : forall l u, 0 < snd l -> 0 < snd u ->
  simplest_in_asis l u = simplest_in_spec l u.
Proof. exact simplest_in_asis_spec. Qed.
Print Assumptions C18_simplest_in_model_eq_spec.

Theorem C18_simplest_in_model_optimal : forall l u, 0 < snd l -> 0 < snd u -> ~ fval_eq l u ->
  exists r, simplest_in_asis l u = Ok r /\ Z.gcd (fst r) (snd r) = 1 /\
    ((fval_lt l u /\ simplest_between l u r) \/ (fval_lt u l /\ simplest_between u l r)).
Proof. exact simplest_in_asis_optimal. Qed.
Print Assumptions C18_simplest_in_model_optimal.

Theorem C18_simplest_in_equal_end_points : forall l u, 0 < snd l -> 0 < snd u -> fval_eq l u ->
  simplest_in_asis l u = Ok (freduce l).
Proof. exact simplest_in_asis_equal. Qed.
Print Assumptions C18_simplest_in_equal_end_points.

(** the two-sided continued-fraction loop of Repr::simplest_in is the Stern-Brocot recursion *)
Theorem C18_cf_loop : forall l u, pos_itv l u -> cf_loop l u = simplest_pos l u.
Proof. exact cf_loop_spec. Qed.
Print Assumptions C18_cf_loop.

(** ** farey_neighbors, next_up, next_down, nearest *)
Theorem C18_farey_neighbors : forall x L, 1 <= L -> L < snd x -> Z.gcd (fst x) (snd x) = 1 ->
  Z.abs (fst x) <= snd x ->
  exists l r, farey_neighbors_asis x L = Ok (l, r) /\ farey_pair L x l r.
Proof. exact farey_neighbors_asis_ok. Qed.
Print Assumptions C18_farey_neighbors.

Theorem C18_farey_adjacent : forall ln ld rn rd n m, 0 < ld -> 0 < rd -> rn * ld - ln * rd = 1 ->
  0 < m -> ln * m < n * ld -> n * rd < rn * m -> ld + rd <= m.
Proof. exact farey_adjacent. Qed.
Print Assumptions C18_farey_adjacent.

Theorem C18_next_up : forall x L, 1 <= L -> 0 < snd x -> Z.gcd (fst x) (snd x) = 1 ->
  exists r, next_up_asis x L = Ok r /\ is_succ x L r.
Proof. exact next_up_asis_correct. Qed.
Print Assumptions C18_next_up.

Theorem C18_next_down : forall x L, 1 <= L -> 0 < snd x -> Z.gcd (fst x) (snd x) = 1 ->
  exists r, next_down_asis x L = Ok r /\ is_pred x L r.
Proof. exact next_down_asis_correct. Qed.
Print Assumptions C18_next_down.

Theorem C18_nearest : forall x L, 1 <= L -> 0 < snd x -> Z.gcd (fst x) (snd x) = 1 ->
  (snd x <= L -> nearest_asis x L = Ok (AExact x)) /\
  (L < snd x -> exists r sg, nearest_asis x L = Ok (AInexact r sg) /\ is_nearest x L r /\
     ((sg = Positive /\ is_succ x L r) \/ (sg = Negative /\ is_pred x L r))).
Proof. exact nearest_asis_correct. Qed.
Print Assumptions C18_nearest.

Theorem C18_limit_zero : forall x,
  next_up_asis x 0 = Panic DivideBy0 /\ next_down_asis x 0 = Panic DivideBy0 /\ nearest_asis x 0 = Panic DivideBy0.
Proof. exact (fun x => conj (proj1 (next_limit_zero x)) (conj (proj2 (next_limit_zero x)) (nearest_limit_zero x))). Qed.
Print Assumptions C18_limit_zero.

(** ** the oracle's verdict functions are sound for the declarative notions above *)
Theorem C18_next_up_check_sound : forall x L r, 0 < snd x -> next_up_check x L r = Ok true -> is_succ x L r.
Proof. exact next_up_check_sound. Qed.
Print Assumptions C18_next_up_check_sound.

Theorem C18_next_down_check_sound : forall x L r, 0 < snd x -> next_down_check x L r = Ok true -> is_pred x L r.
Proof. exact next_down_check_sound. Qed.
Print Assumptions C18_next_down_check_sound.

Theorem C18_nearest_check_sound : forall x L r sg, 0 < snd x -> nearest_check x L r sg = Ok true ->
  is_nearest x L r /\ ((sg = Positive /\ fval_lt x r) \/ (sg = Negative /\ fval_lt r x)).
Proof. exact nearest_check_sound. Qed.
Print Assumptions C18_nearest_check_sound.

(** ** simplest_from_f32 / f64 / float *)
(** the selection step: THE simplest canonical fraction of an interval with optional end points *)
Theorem C18_simplest_closed : forall lo hi ilo ihi, canon lo -> canon hi -> fval_lt lo hi ->
  exists r, simplest_closed (lo, hi, ilo, ihi) = Ok r /\ member (lo, hi, ilo, ihi) r /\
    forall s, member (lo, hi, ilo, ihi) s -> s <> r -> simpler r s = true.
Proof. exact simplest_closed_correct. Qed.
Print Assumptions C18_simplest_closed.

(** the code after error_bounds is that selection step (FBig) *)
Theorem C18_simplest_from_float_glue : forall B md p sig0 ex0, 0 < B ->
  simplest_from_float_asis B md p sig0 ex0 =
  let '(sig, ex) := fnormalize B sig0 ex0 in
  if sig =? 0 then Ok (Some (0, 1))
  else match error_bounds_asis B md p sig ex with
       | Ok (l, r, il, ir) =>
           opt_wrap (simplest_closed (freduce (fsub (scaled B sig ex 1) l), freduce (fadd (scaled B sig ex 1) r), il, ir))
       | Panic e => Panic e | Err e => Err e | OutOfFuel => OutOfFuel
       end.
Proof. exact simplest_from_float_asis_closed. Qed.
Print Assumptions C18_simplest_from_float_glue.

(** ... and of impl_simplest_from_float! (f32/f64, after the repair of F04: the end points are computed from
    the decoded mantissa and exponent in units of ulp/4) *)
Theorem C18_simplest_from_ieee_glue : forall mb eb bits,
  let E := (bits / 2 ^ mb) mod 2 ^ eb in
  let M := bits mod 2 ^ mb in
  let neg := (bits / 2 ^ (mb + eb)) mod 2 =? 1 in
  let man0 := if E =? 0 then M else M + 2 ^ mb in
  let man := if neg then - man0 else man0 in
  let ex := (if E =? 0 then 1 else E) - (2 ^ (eb - 1) - 1) - mb in
  let tz := if (Z.abs man =? 2 ^ mb) && (1 - (2 ^ (eb - 1) - 1) - mb <? ex) then 1 else 2 in
  let outer := if 0 <? man then 4 * man + 2 else 4 * man - 2 in
  let inner := if 0 <? man then 4 * man - tz else 4 * man + tz in
  simplest_from_ieee_asis mb eb bits =
  if E =? 2 ^ eb - 1 then Ok None
  else if (E =? 0) && (M =? 0) then Ok (Some (0, 1))
  else opt_wrap (simplest_closed (scaled 2 outer (ex - 2) 1, scaled 2 inner (ex - 2) 1, Z.even bits, Z.even bits)).
Proof. exact simplest_from_ieee_asis_closed. Qed.
Print Assumptions C18_simplest_from_ieee_glue.

(** the pinned (pre-repair) macro body: end points (2n +- 1) / 2d of the doubled Repr::try_from(f) *)
Theorem C18_simplest_from_ieee_pinned_glue : forall mb eb bits,
  let E := (bits / 2 ^ mb) mod 2 ^ eb in
  let M := bits mod 2 ^ mb in
  let neg := (bits / 2 ^ (mb + eb)) mod 2 =? 1 in
  let man0 := if E =? 0 then M else M + 2 ^ mb in
  let man := if neg then - man0 else man0 in
  let ex := (if E =? 0 then 1 else E) - (2 ^ (eb - 1) - 1) - mb in
  let est : frac := if 0 <=? ex then (man * 2 ^ ex, 1) else (man, 2 ^ (- ex)) in
  simplest_from_ieee_pinned mb eb bits =
  if E =? 2 ^ eb - 1 then Ok None
  else if (E =? 0) && (M =? 0) then Ok (Some (0, 1))
  else opt_wrap (simplest_closed (freduce (2 * fst est + 1, 2 * snd est), freduce (2 * fst est - 1, 2 * snd est),
                                  Z.even bits, Z.even bits)).
Proof. exact simplest_from_ieee_pinned_closed. Qed.
Print Assumptions C18_simplest_from_ieee_pinned_glue.

(** outside the open finding class F06 (odd base, half modes) - F05, F07 and F08 are repaired; [known_float] is
    [known_oddbase] now, powers of the base included - the FBig code computes the specified optimum:
    every base, mode, precision, normalised significand with at most p digits, exponent *)
Theorem C18_simplest_from_float_unless_known : forall B md p sig ex,
  2 <= B -> 0 < p -> sig mod B <> 0 -> ndigits B (Z.abs sig) <= p ->
  known_float B md p sig = false ->
  simplest_from_float_asis B md p sig ex = simplest_from_float_spec B md p sig ex.
Proof. exact simplest_from_float_asis_spec. Qed.
Print Assumptions C18_simplest_from_float_unless_known.

(** unlimited precision: after the repair of F08 no finding class is left, every mode returns the float *)
Theorem C18_simplest_from_float_unlimited_unless_known : forall B md sig ex, 2 <= B -> sig mod B <> 0 ->
  simplest_from_float_asis B md 0 sig ex = simplest_from_float_spec B md 0 sig ex.
Proof. exact simplest_from_float_asis_spec_unlimited_all. Qed.
Print Assumptions C18_simplest_from_float_unlimited_unless_known.

(** after the repair of F04 the f32/f64 macro computes the specified optimum for every format with at
    least one mantissa bit and EVERY bit pattern (subnormals, powers of two, ulp >= 2, both signs,
    infinities and NaN): no finding class is left *)
Theorem C18_simplest_from_ieee_unless_known : forall mb eb bits, 1 <= mb ->
  simplest_from_ieee_asis mb eb bits = simplest_from_ieee_spec mb eb bits.
Proof. exact simplest_from_ieee_asis_spec_all. Qed.
Print Assumptions C18_simplest_from_ieee_unless_known.

(** the pinned body was right exactly outside the class of F04 (ulp <= 1) *)
Theorem C18_simplest_from_ieee_pinned_unless_known : forall mb eb bits, 1 <= mb ->
  known_ieee mb eb bits = false ->
  simplest_from_ieee_pinned mb eb bits = simplest_from_ieee_spec mb eb bits.
Proof. exact simplest_from_ieee_pinned_spec. Qed.
Print Assumptions C18_simplest_from_ieee_pinned_unless_known.

(** ** the ErrorBounds table of float/src/round.rs, REGENERATED on every run (gen/ErrorBoundsTable.v,
    tools/translate_c18.py), evaluates to the hand-written as-is model for every base, mode,
    precision, exponent and non-zero significand: a changed table entry breaks this proof *)
Theorem C18_error_bounds_table : forall B md p sig ex, sig <> 0 ->
  error_bounds_asis B md p sig ex = eb_eval B md p sig ex (error_bounds_table md B p sig (ndigits B (Z.abs sig))).
Proof. exact error_bounds_asis_eq_table. Qed.
Print Assumptions C18_error_bounds_table.

(** ** the specified rounding interval IS the preimage of the float under its rounding rule *)
(** the integers N/d that the shared rounding specification sends to r, for the six modes *)
Theorem C18_spec_round_preimage : forall md N d r, 0 < d ->
  (spec_round md N d = r <->
   match md with
   | MDown => r * d <= N < (r + 1) * d
   | MUp => (r - 1) * d < N <= r * d
   | MZero => (0 < r /\ r * d <= N < (r + 1) * d) \/ (r < 0 /\ (r - 1) * d < N <= r * d) \/ (r = 0 /\ - d < N < d)
   | MAway => (0 < r /\ (r - 1) * d < N <= r * d) \/ (r < 0 /\ r * d <= N < (r + 1) * d) \/ (r = 0 /\ N = 0)
   | MHalfAway => (0 < r /\ (2 * r - 1) * d <= 2 * N < (2 * r + 1) * d) \/
                  (r < 0 /\ (2 * r - 1) * d < 2 * N <= (2 * r + 1) * d) \/ (r = 0 /\ - d < 2 * N < d)
   | MHalfEven => if Z.even r then (2 * r - 1) * d <= 2 * N <= (2 * r + 1) * d
                  else (2 * r - 1) * d < 2 * N < (2 * r + 1) * d
   end).
Proof. exact spec_round_preimage. Qed.
Print Assumptions C18_spec_round_preimage.

(** FBig: every base >= 2, six modes, precision p >= 1, non-zero significand of at most p digits
    (normalised or not), every exponent: a canonical fraction x belongs to the interval the
    specification of simplest_from_float uses iff x rounded to p significant digits under the mode
    (a digit position k with B^(p-1) <= |x|/B^k < B^p, then spec_round at that position) is the float.
    Directed modes: half-open ulp intervals; HalfAway/HalfEven: half-ulp intervals, the tie rule
    deciding the closed end; at powers of the base the lower (toward zero) part is B times narrower. *)
Theorem C18_float_interval_is_preimage : forall B md p sig ex x,
  2 <= B -> 1 <= p -> sig <> 0 -> ndigits B (Z.abs sig) <= p -> canon x ->
  (member (float_interval_spec B md p sig ex) x <->
   exists k, B ^ (p - 1) * snd (qscale B k x) <= Z.abs (fst (qscale B k x)) < B ^ p * snd (qscale B k x) /\
             scaled B sig ex 1 = scaled B (spec_round md (fst (qscale B k x)) (snd (qscale B k x))) k 1).
Proof. exact float_interval_is_preimage. Qed.
Print Assumptions C18_float_interval_is_preimage.

(** f32/f64 (any binary format with mb >= 1 mantissa bits): for every finite non-zero bit pattern (normal,
    subnormal, powers of two, both signs) a canonical fraction x belongs to the interval the specification
    of simplest_from_f32/f64 uses iff x rounds to the float under round-to-nearest, ties to even: the
    rounding position k is the one of x's binade (mb+1 significant bits) but never below emin
    (fixed-point rounding of subnormals), the integer rounding is spec_round MHalfEven *)
Theorem C18_ieee_interval_is_preimage : forall mb eb bits i x, 1 <= mb -> 0 <= eb ->
  ieee_interval_spec mb eb bits = Some (Some i) -> canon x ->
  (member i x <->
   exists k, 1 - (2 ^ (eb - 1) - 1) - mb <= k /\
     Z.abs (fst (qscale 2 k x)) < 2 ^ (mb + 1) * snd (qscale 2 k x) /\
     (k = 1 - (2 ^ (eb - 1) - 1) - mb \/ 2 ^ mb * snd (qscale 2 k x) <= Z.abs (fst (qscale 2 k x))) /\
     ieee_value mb eb bits = scaled 2 (spec_round MHalfEven (fst (qscale 2 k x)) (snd (qscale 2 k x))) k 1).
Proof. exact ieee_interval_is_preimage. Qed.
Print Assumptions C18_ieee_interval_is_preimage.

(** ** end to end: the answer is THE simplest canonical fraction among those that round back to the float *)
(** the specification of simplest_from_float, every base / mode / precision >= 1 / non-zero significand *)
Theorem C18_simplest_from_float_spec_meaning : forall B md p sig ex,
  2 <= B -> 1 <= p -> sig <> 0 -> ndigits B (Z.abs sig) <= p ->
  exists r, simplest_from_float_spec B md p sig ex = Ok (Some r) /\ canon r /\
    rounds_to B md p r (scaled B sig ex 1) /\
    forall s, canon s -> rounds_to B md p s (scaled B sig ex 1) -> s <> r -> simpler r s = true.
Proof. exact simplest_from_float_spec_meaning. Qed.
Print Assumptions C18_simplest_from_float_spec_meaning.

(** the code (as-is model) of simplest_from_float outside the open class F06 *)
Theorem C18_simplest_from_float_correct : forall B md p sig ex,
  2 <= B -> 1 <= p -> sig mod B <> 0 -> ndigits B (Z.abs sig) <= p -> known_float B md p sig = false ->
  exists r, simplest_from_float_asis B md p sig ex = Ok (Some r) /\ canon r /\
    rounds_to B md p r (scaled B sig ex 1) /\
    forall s, canon s -> rounds_to B md p s (scaled B sig ex 1) -> s <> r -> simpler r s = true.
Proof. exact simplest_from_float_correct. Qed.
Print Assumptions C18_simplest_from_float_correct.

(** the code (as-is model) of simplest_from_f32/f64: every format, every finite non-zero bit pattern *)
Theorem C18_simplest_from_ieee_correct : forall mb eb bits i, 1 <= mb -> 0 <= eb ->
  ieee_interval_spec mb eb bits = Some (Some i) ->
  exists r, simplest_from_ieee_asis mb eb bits = Ok (Some r) /\ canon r /\
    ieee_rounds_to mb eb r (ieee_value mb eb bits) /\
    forall s, canon s -> ieee_rounds_to mb eb s (ieee_value mb eb bits) -> s <> r -> simpler r s = true.
Proof. exact simplest_from_ieee_correct. Qed.
Print Assumptions C18_simplest_from_ieee_correct.

(** ** findings: the repaired defects (F01-F05, F07, F08) stay refuted on the earlier bodies, the open one (F06) on the as-is model *)
Theorem C18_F01_is_simpler_than_pinned_refuted :
  simpler (1, 2) (5, 3) = true /\ is_simpler_than_pinned (1, 2) (5, 3) = false.
Proof. exact is_simpler_than_pinned_refuted. Qed.
Print Assumptions C18_F01_is_simpler_than_pinned_refuted.

Theorem C18_F02_simplest_in_pinned_refuted :
  simplest_in_pinned_shortcut (-1, 2) (0, 1) = true /\ simplest_in_spec (-1, 2) (0, 1) = Ok (-1, 3).
Proof. exact simplest_in_pinned_refuted. Qed.
Print Assumptions C18_F02_simplest_in_pinned_refuted.

Theorem C18_F03_next_up_pinned_refuted :
  next_up_pinned (3, 1) 1 = Panic Undocumented /\ next_up_asis (3, 1) 1 = Ok (4, 1).
Proof. exact next_up_pinned_refuted. Qed.
Print Assumptions C18_F03_next_up_pinned_refuted.

Theorem C18_F04_simplest_from_ieee_refuted :
  known_ieee 23 8 1275068416 = true /\
  simplest_from_ieee_pinned 23 8 1275068416 = Ok (Some (33554432, 1)) /\
  simplest_from_ieee_asis 23 8 1275068416 = Ok (Some (33554431, 1)) /\
  simplest_from_ieee_spec 23 8 1275068416 = Ok (Some (33554431, 1)).
Proof. exact simplest_from_ieee_asis_refuted. Qed.
Print Assumptions C18_F04_simplest_from_ieee_refuted.

Theorem C18_F05_halfeven_refuted :
  fnormalize 2 5 1 = (5, 1) /\ known_halfeven MHalfEven 3 = true /\ known_float 2 MHalfEven 3 5 = false /\
  simplest_from_float_pinned 2 MHalfEven 3 5 1 = Ok (Some (9, 1)) /\
  simplest_from_float_asis 2 MHalfEven 3 5 1 = Ok (Some (10, 1)) /\
  simplest_from_float_spec 2 MHalfEven 3 5 1 = Ok (Some (10, 1)) /\
  round_to_prec 2 MHalfEven 3 (9, 1) = (8, 1).
Proof. exact simplest_from_float_halfeven_refuted. Qed.
Print Assumptions C18_F05_halfeven_refuted.

Theorem C18_F06_oddbase_refuted :
  known_float 3 MHalfEven 1 1 = true /\
  simplest_from_float_asis 3 MHalfEven 1 1 (-1) = Ok (Some (1, 2)) /\
  simplest_from_float_spec 3 MHalfEven 1 1 (-1) = Ok (Some (1, 3)).
Proof. exact simplest_from_float_oddbase_refuted. Qed.
Print Assumptions C18_F06_oddbase_refuted.

(** F07 is repaired (towards_zero in float/src/round.rs): the body before the repair stays refuted, today's body
    returns the specified optimum at the witnesses (directed mode; half mode) *)
Theorem C18_F07_powbase_refuted :
  known_powbase 1 1 = true /\ known_float 3 MAway 1 1 = false /\
  simplest_from_float_r2 3 MAway 1 1 1 = Ok (Some (1, 1)) /\
  simplest_from_float_asis 3 MAway 1 1 1 = Ok (Some (3, 1)) /\
  simplest_from_float_spec 3 MAway 1 1 1 = Ok (Some (3, 1)).
Proof. exact simplest_from_float_powbase_refuted. Qed.
Print Assumptions C18_F07_powbase_refuted.

Theorem C18_F07_powbase_half_refuted :
  simplest_from_float_r2 10 MHalfAway 1 1 1 = Ok (Some (5, 1)) /\
  simplest_from_float_asis 10 MHalfAway 1 1 1 = Ok (Some (10, 1)) /\
  simplest_from_float_spec 10 MHalfAway 1 1 1 = Ok (Some (10, 1)) /\
  round_to_prec 10 MHalfAway 1 (5, 1) = (5, 1).
Proof. exact simplest_from_float_powbase_half_refuted. Qed.
Print Assumptions C18_F07_powbase_half_refuted.

Theorem C18_F08_unlimited_refuted :
  known_unlimited MAway 0 = true /\ known_float 10 MAway 0 123 = false /\
  simplest_from_float_pinned 10 MAway 0 123 (-1) = Panic UnlimitedPrecision /\
  simplest_from_float_asis 10 MAway 0 123 (-1) = Ok (Some (123, 10)) /\
  simplest_from_float_spec 10 MAway 0 123 (-1) = Ok (Some (123, 10)).
Proof. exact simplest_from_float_unlimited_refuted. Qed.
Print Assumptions C18_F08_unlimited_refuted.

Theorem C18_F09_unlimited_rounded_refuted :
  simplest_from_float_zero_shortcut 10 MAway 123 (-1) = Ok (Some (20, 1)) /\
  simplest_from_float_asis 10 MAway 0 123 (-1) = Ok (Some (123, 10)) /\
  simplest_from_float_spec 10 MAway 0 123 (-1) = Ok (Some (123, 10)).
Proof. exact simplest_from_float_unlimited_rounded_refuted. Qed.
Print Assumptions C18_F09_unlimited_rounded_refuted.

(** ** round 3 *)
(** after the repair of F07 the only class left on the FBig side is F06 (odd base with a half mode) *)
Theorem C18_known_float_is_oddbase : forall B md p sig, known_float B md p sig = known_oddbase B md p.
Proof. reflexivity. Qed.
Print Assumptions C18_known_float_is_oddbase.

(** the repaired bounds of a power of the base (towards_zero, the HalfEven tie flag on the side of zero) are the
    specified ones: every base >= 2, mode, precision, exponent, both signs *)
Theorem C18_error_bounds_power_of_base : forall B p sig ex, 2 <= B -> 0 < p -> sig mod B <> 0 ->
  ndigits B (Z.abs sig) <= p -> Z.abs sig = 1 -> forall md, known_float B md p sig = false ->
  match error_bounds_asis B md p sig ex with
  | Ok (l, r, il, ir) =>
      (freduce (fsub (scaled B sig ex 1) l), freduce (fadd (scaled B sig ex 1) r), il, ir) = float_interval_spec B md p sig ex
  | _ => False
  end.
Proof. exact interval_asis_spec_pow. Qed.
Print Assumptions C18_error_bounds_power_of_base.

(** ** bodies of rational/src/simplify.rs REGENERATED on every run (gen/SimplifyGen.v, tools/translate_c18_r3.py):
    an edit of one of these bodies changes the generated definition and breaks the statement *)
Theorem C18_is_simpler_than_regenerated : forall x y,
  is_simpler_than_gen x y = is_simpler_than_asis x y /\ is_simpler_than_gen x y = simpler x y.
Proof. exact (fun x y => conj (is_simpler_than_gen_asis x y) (is_simpler_than_gen_spec x y)). Qed.
Print Assumptions C18_is_simpler_than_regenerated.

Theorem C18_sign_order_regenerated : forall a b,
  sign_cmp_gen a b = match a, b with Positive, Negative => Gt | Negative, Positive => Lt | _, _ => Eq end.
Proof. exact sign_cmp_gen_spec. Qed.
Print Assumptions C18_sign_order_regenerated.

(** one iteration of the loop of farey_neighbors = one unfolding of the as-is model *)
Theorem C18_farey_step_regenerated : forall x L k ln ld rn rd,
  farey_F x L k (ln, ld, rn, rd) = farey_step_result k (farey_step_gen x L (ln, ld) (rn, rd)).
Proof. exact farey_F_gen. Qed.
Print Assumptions C18_farey_step_regenerated.

(** the three debug assertions, the start pair and the walk, all regenerated, are the as-is model *)
Theorem C18_farey_neighbors_regenerated : forall x L, 0 < snd x ->
  farey_neighbors_gen x L = farey_neighbors_asis x L.
Proof. exact farey_neighbors_gen_asis. Qed.
Print Assumptions C18_farey_neighbors_regenerated.

(** one iteration of the continued-fraction loop of Repr::simplest_in (the model adds the panic of div_rem by zero) *)
Theorem C18_cf_step_regenerated : forall k n0 d0 n1 d1 nl dl nr dr,
  cf_F k (n0, d0, n1, d1, nl, dl, nr, dr) =
  if dl =? 0 then Panic DivideBy0 else cf_step_result k (cf_step_gen n0 d0 n1 d1 nl dl nr dr).
Proof. exact cf_F_gen. Qed.
Print Assumptions C18_cf_step_regenerated.

(** the regenerated loop with the regenerated start values computes the Stern-Brocot optimum of every positive interval *)
Theorem C18_cf_loop_regenerated : forall l u,
  cf_loop_gen l u = cf_loop l u /\ (pos_itv l u -> cf_loop_gen l u = simplest_pos l u).
Proof. exact (fun l u => conj (cf_loop_gen_asis l u) (cf_loop_gen_spec l u)). Qed.
Print Assumptions C18_cf_loop_regenerated.

Theorem C18_nudge_regenerated : forall L, nudge_den_gen L = nudge L.
Proof. exact nudge_gen. Qed.
Print Assumptions C18_nudge_regenerated.

Theorem C18_nearest_selection_regenerated : forall (r lf rt : frac),
  let mid0 := freduce (fadd lf rt) in
  (if nearest_first_gen r (fst mid0, 2 ^ nearest_mid_shift_gen * snd mid0)
   then (nearest_first_is_right_gen, nearest_first_sign_gen)
   else (negb nearest_first_is_right_gen, match nearest_first_sign_gen with Positive => Negative | Negative => Positive end))
  = (if flt (fst mid0, 2 * snd mid0) r then (true, Positive) else (false, Negative)).
Proof. exact nearest_selection_gen. Qed.
Print Assumptions C18_nearest_selection_regenerated.

(** ** the EXECUTABLE roundings the oracle uses to re-check every float case are the declarative relations in
    which the preimage theorems are stated: the p-digit window holds at exactly one position, the code finds it *)
Theorem C18_round_to_prec_is_rounds_to : forall B md p x y, 2 <= B -> 1 <= p -> 0 < snd x -> fst x <> 0 ->
  (round_to_prec B md p x = y <-> rounds_to B md p x y).
Proof. exact round_to_prec_rounds_to. Qed.
Print Assumptions C18_round_to_prec_is_rounds_to.

Theorem C18_rounds_to_functional : forall B md p x y y', 2 <= B -> 1 <= p -> 0 < snd x -> fst x <> 0 ->
  rounds_to B md p x y -> rounds_to B md p x y' -> y = y'.
Proof. exact rounds_to_functional. Qed.
Print Assumptions C18_rounds_to_functional.

Theorem C18_ieee_round_is_rounds_to : forall mb eb x, 0 <= mb -> 0 < snd x -> fst x <> 0 ->
  (forall y, ieee_round mb eb x = Some y -> ieee_rounds_to mb eb x y) /\
  (forall y, ieee_rounds_to mb eb x y ->
     ieee_round mb eb x = (if 2 ^ (2 ^ (eb - 1) - 1 + 1) * snd y <=? Z.abs (fst y) then None else Some y)).
Proof. exact ieee_round_rounds_to. Qed.
Print Assumptions C18_ieee_round_is_rounds_to.

(** ** edges of simplest_in and simplest_from_f32/f64, all inputs *)
Theorem C18_simplest_in_argument_order : forall l u, 0 < snd l -> 0 < snd u -> simplest_in_asis l u = simplest_in_asis u l.
Proof. exact simplest_in_asis_swap. Qed.
Print Assumptions C18_simplest_in_argument_order.

Theorem C18_simplest_in_different_signs : forall l u,
  (fst l < 0 < fst u \/ fst u < 0 < fst l) -> simplest_in_asis l u = Ok (0, 1).
Proof. exact simplest_in_asis_straddle. Qed.
Print Assumptions C18_simplest_in_different_signs.

Theorem C18_simplest_in_total : forall l u, 0 < snd l -> 0 < snd u -> exists r, simplest_in_asis l u = Ok r.
Proof. exact simplest_in_asis_total. Qed.
Print Assumptions C18_simplest_in_total.

Theorem C18_simplest_from_ieee_nonfinite : forall mb eb bits,
  (bits / 2 ^ mb) mod 2 ^ eb = 2 ^ eb - 1 -> simplest_from_ieee_asis mb eb bits = Ok None.
Proof. exact simplest_from_ieee_asis_nonfinite. Qed.
Print Assumptions C18_simplest_from_ieee_nonfinite.

Theorem C18_simplest_from_ieee_zero : forall mb eb bits,
  (bits / 2 ^ mb) mod 2 ^ eb <> 2 ^ eb - 1 -> (bits / 2 ^ mb) mod 2 ^ eb = 0 -> bits mod 2 ^ mb = 0 ->
  simplest_from_ieee_asis mb eb bits = Ok (Some (0, 1)).
Proof. exact simplest_from_ieee_asis_zero. Qed.
Print Assumptions C18_simplest_from_ieee_zero.

(** ** round 4 *)
(** the DEEP as-is model of simplest_from_float forms the bounds the way the code does - error_bounds as FBig values
    (regenerated table, regenerated FBig::ulp, half_ulp, towards_zero), .with_precision(p+1).unwrap() (regenerated over
    C10's repr_round), &FBig -/+ FBig (regenerated add_ref_val over C03's Context::max / repr_round / repr_add_small_large
    / repr_add_large_small / repr_round_sum models, FBig::new normalising), RBig::try_from (regenerated) - inside the
    REGENERATED body of simplest_from_float.  It equals the value-level model for every base >= 2, mode, precision
    (0 = unlimited included), normalised significand of at most p digits, exponent and every sound digit estimate:
    the FBig subtraction / addition is exact there (F09 was a failure of exactly this) *)
Theorem C18_simplest_from_float_deep_is_asis : forall B, 2 <= B -> forall dub, (forall s, Contract.dlen B s <= dub s) ->
  forall md p sig ex, 0 <= p -> sig mod B <> 0 -> (p = 0 \/ ndigits B (Z.abs sig) <= p) ->
  simplest_from_float_deep B dub md p sig ex = simplest_from_float_asis B md p sig ex.
Proof. exact simplest_from_float_deep_asis. Qed.
Print Assumptions C18_simplest_from_float_deep_is_asis.

(** the interval the code ACTUALLY forms is the specified preimage interval of the float (outside F06) *)
Theorem C18_float_bounds_deep_interval : forall B, 2 <= B -> forall dub, (forall s, Contract.dlen B s <= dub s) ->
  forall md p sig ex, 0 < p -> sig mod B <> 0 -> ndigits B (Z.abs sig) <= p -> known_float B md p sig = false ->
  exists tl tr il ir lb rb,
    float_bounds_deep B dub md p sig ex = Ok (tl, tr, il, ir, lb, rb) /\
    (freduce (repr_try_from_gen B (fb_sig lb) (fb_exp lb)), freduce (repr_try_from_gen B (fb_sig rb) (fb_exp rb)), il, ir)
    = float_interval_spec B md p sig ex.
Proof. exact float_bounds_deep_interval. Qed.
Print Assumptions C18_float_bounds_deep_interval.

Theorem C18_simplest_from_float_deep_unless_known : forall B, 2 <= B -> forall dub, (forall s, Contract.dlen B s <= dub s) ->
  forall md p sig ex, 0 < p -> sig mod B <> 0 -> ndigits B (Z.abs sig) <= p -> known_float B md p sig = false ->
  simplest_from_float_deep B dub md p sig ex = simplest_from_float_spec B md p sig ex.
Proof. exact simplest_from_float_deep_spec. Qed.
Print Assumptions C18_simplest_from_float_deep_unless_known.

Theorem C18_simplest_from_float_deep_unlimited : forall B, 2 <= B -> forall dub, (forall s, Contract.dlen B s <= dub s) ->
  forall md sig ex, sig mod B <> 0 ->
  simplest_from_float_deep B dub md 0 sig ex = simplest_from_float_spec B md 0 sig ex.
Proof. exact simplest_from_float_deep_spec_unlimited. Qed.
Print Assumptions C18_simplest_from_float_deep_unlimited.

(** towards_zero is only applied to the bound on the side of zero: re-proved over the REGENERATED ErrorBounds table
    (this is what keeps the sums within p+1 digits) *)
Theorem C18_error_bounds_rows_good : forall B md p sig dg, sig <> 0 ->
  let '(l, r, _, _) := eb_table_of md B p sig dg in term_good Negative sig l /\ term_good Positive sig r.
Proof. exact row_good. Qed.
Print Assumptions C18_error_bounds_rows_good.

(** C03's add models return a sum that fits the result precision exactly: the lemma the bounds rest on *)
Theorem C18_fbig_add_exact : forall B, 2 <= B -> forall dub, (forall s, Contract.dlen B s <= dub s) ->
  forall m f t sg, let P := ctx_max_gen (fb_prec f) (fb_prec t) in
  1 <= P -> fb_sig f <> 0 -> fb_sig t <> 0 -> Contract.dlen B (fb_sig f) <= P -> Contract.dlen B (fb_sig t) <= P ->
  Z.abs (AddModelProof.exact_sum B (fb_sig f) (fb_exp f) (fb_sig t) (fb_exp t) sg) < B ^ P ->
  let X := add_ref_val_gen B dub m f t sg in
  freduce (repr_try_from_gen B (fb_sig X) (fb_exp X))
  = freduce (fop sg (scaled B (fb_sig f) (fb_exp f) 1) (scaled B (fb_sig t) (fb_exp t) 1)).
Proof. exact add_exact. Qed.
Print Assumptions C18_fbig_add_exact.

(** f32 / f64: the macro over C06's as-is model of FloatEncoding::decode (base/src/bit.rs; C06_decode_f32/f64 prove
    it equal to decode_spec) computes the specified optimum for EVERY bit pattern of the width *)
Theorem C18_simplest_from_f32_over_decode : forall bits, 0 <= bits < 2 ^ 32 ->
  simplest_from_f32_deep bits = simplest_from_ieee_asis 23 8 bits /\
  simplest_from_f32_deep bits = simplest_from_ieee_spec 23 8 bits.
Proof. exact (fun bits H => conj (simplest_from_f32_deep_asis bits H) (simplest_from_f32_deep_spec bits H)). Qed.
Print Assumptions C18_simplest_from_f32_over_decode.

Theorem C18_simplest_from_f64_over_decode : forall bits, 0 <= bits < 2 ^ 64 ->
  simplest_from_f64_deep bits = simplest_from_ieee_asis 52 11 bits /\
  simplest_from_f64_deep bits = simplest_from_ieee_spec 52 11 bits.
Proof. exact (fun bits H => conj (simplest_from_f64_deep_asis bits H) (simplest_from_f64_deep_spec bits H)). Qed.
Print Assumptions C18_simplest_from_f64_over_decode.

Theorem C18_simplest_from_ieee_over_decode_spec : forall mb eb bits, 0 <= mb -> 0 <= eb -> 0 <= bits < 2 ^ (mb + eb + 1) ->
  simplest_from_ieee_deep (ConvSpec.decode_spec (fmt_mb_eb mb eb)) mb eb bits = simplest_from_ieee_asis mb eb bits.
Proof. exact ieee_deep_spec_asis. Qed.
Print Assumptions C18_simplest_from_ieee_over_decode_spec.

(** WHOLE bodies of rational/src/simplify.rs regenerated (gen/SimplifyBodiesGen.v): Repr::simplest_in (sign dispatch,
    abs, cmp / swap / equal end points, loop entry state, debug assertion, tail) + RBig::simplest_in, around the
    regenerated loop step of round 3; nearest / next_up / next_down around farey_neighbors *)
Theorem C18_simplest_in_body_regenerated : forall l u,
  rbig_simplest_in_gen cf_run_gen l u = simplest_in_asis l u /\
  (0 < snd l -> 0 < snd u -> rbig_simplest_in_gen cf_run_gen l u = simplest_in_spec l u).
Proof. exact (fun l u => conj (rbig_simplest_in_gen_asis l u) (rbig_simplest_in_gen_spec l u)). Qed.
Print Assumptions C18_simplest_in_body_regenerated.

Theorem C18_nearest_body_regenerated : forall x L, nearest_gen farey_neighbors_asis x L = nearest_asis x L.
Proof. exact nearest_gen_asis. Qed.
Print Assumptions C18_nearest_body_regenerated.

Theorem C18_next_up_body_regenerated : forall x L,
  next_up_gen farey_neighbors_asis x L = next_up_asis x L /\
  (1 <= L -> 0 < snd x -> Z.gcd (fst x) (snd x) = 1 -> exists r, next_up_gen farey_neighbors_asis x L = Ok r /\ is_succ x L r).
Proof. exact (fun x L => conj (next_up_gen_asis x L) (next_up_gen_correct x L)). Qed.
Print Assumptions C18_next_up_body_regenerated.

Theorem C18_next_down_body_regenerated : forall x L,
  next_down_gen farey_neighbors_asis x L = next_down_asis x L /\
  (1 <= L -> 0 < snd x -> Z.gcd (fst x) (snd x) = 1 -> exists r, next_down_gen farey_neighbors_asis x L = Ok r /\ is_pred x L r).
Proof. exact (fun x L => conj (next_down_gen_asis x L) (next_down_gen_correct x L)). Qed.
Print Assumptions C18_next_down_body_regenerated.

(** F06 decision: the conservative bounds floor(B/2) * B^(e-1) make the answer round back to the float but not optimal *)
Theorem C18_F06_conservative_not_optimal :
  known_float 3 MHalfAway 2 4 = true /\
  float_interval_spec 3 MHalfAway 2 4 (-2) = ((7, 18), (1, 2), true, false) /\
  simplest_from_float_spec 3 MHalfAway 2 4 (-2) = Ok (Some (2, 5)) /\
  simplest_from_float_asis 3 MHalfAway 2 4 (-2) = Ok (Some (1, 2)) /\
  round_to_prec 3 MHalfAway 2 (1, 2) = (5, 9) /\
  conservative_half_interval 3 2 4 (-2) = ((11, 27), (13, 27), true, true) /\
  simplest_closed (conservative_half_interval 3 2 4 (-2)) = Ok (3, 7) /\
  round_to_prec 3 MHalfAway 2 (3, 7) = (4, 9) /\ round_to_prec 3 MHalfAway 2 (2, 5) = (4, 9) /\
  simpler (2, 5) (3, 7) = true.
Proof. exact F06_conservative_not_optimal. Qed.
Print Assumptions C18_F06_conservative_not_optimal.
