(** C18 - rational approximation functions return the optimal fraction they promise.
    ONLY statements pinned here; proofs live in Dashu.Ratio.*.  Fractions are pairs (n, d) : Z * Z
    with d > 0; [fval_lt]/[fval_eq] compare values by cross multiplication. *)
From Dashu Require Import Base.Prelude Float.RoundSpec Ratio.SimplestSpec Ratio.SimplestModel Ratio.SimplerOrder
  Ratio.SimplestProof Ratio.SimplestAsis Ratio.FareyProof Ratio.FareyNext Ratio.FareyNearest Ratio.SimplestFindings.
Open Scope Z_scope.

(** ** is_simpler_than *)
Theorem C18_is_simpler_than : forall x y, is_simpler_than_asis x y = simpler x y.
Proof. exact is_simpler_than_asis_spec. Qed.
Print Assumptions C18_is_simpler_than.

Theorem C18_simpler_keys : forall x y, simpler x y = true <->
  snd x < snd y \/ (snd x = snd y /\ (Z.abs (fst x) < Z.abs (fst y) \/ (Z.abs (fst x) = Z.abs (fst y) /\ fst y < 0 < fst x))).
Proof. exact simpler_keys. Qed.
Print Assumptions C18_simpler_keys.

Theorem C18_simpler_strict_total_order :
  (forall x, simpler x x = false) /\
  (forall x y, simpler x y = true -> simpler y x = false) /\
  (forall x y z, simpler x y = true -> simpler y z = true -> simpler x z = true) /\
  (forall x y, x <> y -> simpler x y = true \/ simpler y x = true).
Proof. exact simpler_strict_total_order. Qed.
Print Assumptions C18_simpler_strict_total_order.

(** ** simplest_in *)
Theorem C18_simplest_in_spec_optimal : forall l u, 0 < snd l -> 0 < snd u -> ~ fval_eq l u ->
  exists r, simplest_in_spec l u = Ok r /\ Z.gcd (fst r) (snd r) = 1 /\
    ((fval_lt l u /\ simplest_between l u r) \/ (fval_lt u l /\ simplest_between u l r)).
Proof. exact simplest_in_spec_correct. Qed.
Print Assumptions C18_simplest_in_spec_optimal.

Theorem C18_simplest_in_model_eq_spec : forall l u, 0 < snd l -> 0 < snd u ->
  simplest_in_asis l u = simplest_in_spec l u.
Proof. exact simplest_in_asis_spec. Qed.
Print Assumptions C18_simplest_in_model_eq_spec.

Theorem C18_simplest_in_model_optimal : forall l u, 0 < snd l -> 0 < snd u -> ~ fval_eq l u ->
  exists r, simplest_in_asis l u = Ok r /\ Z.gcd (fst r) (snd r) = 1 /\
    ((fval_lt l u /\ simplest_between l u r) \/ (fval_lt u l /\ simplest_between u l r)).
Proof. exact simplest_in_asis_optimal. Qed.
Print Assumptions C18_simplest_in_model_optimal.

Theorem C18_simplest_in_equal_end_points : forall l u, 0 < snd l -> 0 < snd u -> fval_eq l u ->
  simplest_in_asis l u = Ok (freduce l).
Proof. exact simplest_in_asis_equal. Qed.
Print Assumptions C18_simplest_in_equal_end_points.

(** the two-sided continued-fraction loop of Repr::simplest_in is the Stern-Brocot recursion *)
Theorem C18_cf_loop : forall l u, pos_itv l u -> cf_loop l u = simplest_pos l u.
Proof. exact cf_loop_spec. Qed.
Print Assumptions C18_cf_loop.

(** ** farey_neighbors, next_up, next_down, nearest *)
Theorem C18_farey_neighbors : forall x L, 1 <= L -> L < snd x -> Z.gcd (fst x) (snd x) = 1 ->
  Z.abs (fst x) <= snd x ->
  exists l r, farey_neighbors_asis x L = Ok (l, r) /\ farey_pair L x l r.
Proof. exact farey_neighbors_asis_ok. Qed.
Print Assumptions C18_farey_neighbors.

Theorem C18_farey_adjacent : forall ln ld rn rd n m, 0 < ld -> 0 < rd -> rn * ld - ln * rd = 1 ->
  0 < m -> ln * m < n * ld -> n * rd < rn * m -> ld + rd <= m.
Proof. exact farey_adjacent. Qed.
Print Assumptions C18_farey_adjacent.

Theorem C18_next_up : forall x L, 1 <= L -> 0 < snd x -> Z.gcd (fst x) (snd x) = 1 ->
  exists r, next_up_asis x L = Ok r /\ is_succ x L r.
Proof. exact next_up_asis_correct. Qed.
Print Assumptions C18_next_up.

Theorem C18_next_down : forall x L, 1 <= L -> 0 < snd x -> Z.gcd (fst x) (snd x) = 1 ->
  exists r, next_down_asis x L = Ok r /\ is_pred x L r.
Proof. exact next_down_asis_correct. Qed.
Print Assumptions C18_next_down.

Theorem C18_nearest : forall x L, 1 <= L -> 0 < snd x -> Z.gcd (fst x) (snd x) = 1 ->
  (snd x <= L -> nearest_asis x L = Ok (AExact x)) /\
  (L < snd x -> exists r sg, nearest_asis x L = Ok (AInexact r sg) /\ is_nearest x L r /\
     ((sg = Positive /\ is_succ x L r) \/ (sg = Negative /\ is_pred x L r))).
Proof. exact nearest_asis_correct. Qed.
Print Assumptions C18_nearest.

Theorem C18_limit_zero : forall x,
  next_up_asis x 0 = Panic DivideBy0 /\ next_down_asis x 0 = Panic DivideBy0 /\ nearest_asis x 0 = Panic DivideBy0.
Proof. exact (fun x => conj (proj1 (next_limit_zero x)) (conj (proj2 (next_limit_zero x)) (nearest_limit_zero x))). Qed.
Print Assumptions C18_limit_zero.

(** ** the oracle's verdict functions are sound for the declarative notions above *)
Theorem C18_next_up_check_sound : forall x L r, 0 < snd x -> next_up_check x L r = Ok true -> is_succ x L r.
Proof. exact next_up_check_sound. Qed.
Print Assumptions C18_next_up_check_sound.

Theorem C18_next_down_check_sound : forall x L r, 0 < snd x -> next_down_check x L r = Ok true -> is_pred x L r.
Proof. exact next_down_check_sound. Qed.
Print Assumptions C18_next_down_check_sound.

Theorem C18_nearest_check_sound : forall x L r sg, 0 < snd x -> nearest_check x L r sg = Ok true ->
  is_nearest x L r /\ ((sg = Positive /\ fval_lt x r) \/ (sg = Negative /\ fval_lt r x)).
Proof. exact nearest_check_sound. Qed.
Print Assumptions C18_nearest_check_sound.

(** ** findings: the repaired defects stay refuted on the pinned bodies, the open ones on the as-is models *)
Theorem C18_F01_is_simpler_than_pinned_refuted :
  simpler (1, 2) (5, 3) = true /\ is_simpler_than_pinned (1, 2) (5, 3) = false.
Proof. exact is_simpler_than_pinned_refuted. Qed.
Print Assumptions C18_F01_is_simpler_than_pinned_refuted.

Theorem C18_F02_simplest_in_pinned_refuted :
  simplest_in_pinned_shortcut (-1, 2) (0, 1) = true /\ simplest_in_spec (-1, 2) (0, 1) = Ok (-1, 3).
Proof. exact simplest_in_pinned_refuted. Qed.
Print Assumptions C18_F02_simplest_in_pinned_refuted.

Theorem C18_F03_next_up_pinned_refuted :
  next_up_pinned (3, 1) 1 = Panic Undocumented /\ next_up_asis (3, 1) 1 = Ok (4, 1).
Proof. exact next_up_pinned_refuted. Qed.
Print Assumptions C18_F03_next_up_pinned_refuted.

Theorem C18_F04_simplest_from_ieee_refuted :
  known_ieee 23 8 1275068416 = true /\
  simplest_from_ieee_asis 23 8 1275068416 = Ok (Some (33554432, 1)) /\
  simplest_from_ieee_spec 23 8 1275068416 = Ok (Some (33554431, 1)).
Proof. exact simplest_from_ieee_asis_refuted. Qed.
Print Assumptions C18_F04_simplest_from_ieee_refuted.

Theorem C18_F05_halfeven_refuted :
  fnormalize 2 5 1 = (5, 1) /\ known_float 2 MHalfEven 3 5 = true /\
  simplest_from_float_asis 2 MHalfEven 3 5 1 = Ok (Some (9, 1)) /\
  simplest_from_float_spec 2 MHalfEven 3 5 1 = Ok (Some (10, 1)) /\
  round_to_prec 2 MHalfEven 3 (9, 1) = (8, 1).
Proof. exact simplest_from_float_halfeven_refuted. Qed.
Print Assumptions C18_F05_halfeven_refuted.

Theorem C18_F06_oddbase_refuted :
  known_float 3 MHalfEven 1 1 = true /\
  simplest_from_float_asis 3 MHalfEven 1 1 (-1) = Ok (Some (1, 2)) /\
  simplest_from_float_spec 3 MHalfEven 1 1 (-1) = Ok (Some (1, 3)).
Proof. exact simplest_from_float_oddbase_refuted. Qed.
Print Assumptions C18_F06_oddbase_refuted.

Theorem C18_F07_powbase_refuted :
  known_float 3 MAway 1 1 = true /\
  simplest_from_float_asis 3 MAway 1 1 1 = Ok (Some (1, 1)) /\
  simplest_from_float_spec 3 MAway 1 1 1 = Ok (Some (3, 1)).
Proof. exact simplest_from_float_powbase_refuted. Qed.
Print Assumptions C18_F07_powbase_refuted.

Theorem C18_F08_unlimited_refuted :
  known_float 10 MAway 0 123 = true /\
  simplest_from_float_asis 10 MAway 0 123 (-1) = Panic UnlimitedPrecision /\
  simplest_from_float_spec 10 MAway 0 123 (-1) = Ok (Some (123, 10)).
Proof. exact simplest_from_float_unlimited_refuted. Qed.
Print Assumptions C18_F08_unlimited_refuted.
