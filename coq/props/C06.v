(** C06 - conversions are lossless or refused; lossy ones are correctly rounded and say so.
    ONLY statements pinned here; proofs live in Dashu.Conv.*. *)
From Dashu Require Import Base.Prelude Float.RoundSpec Float.Contract Float.Model Conv.ConvSpec Conv.ConvModel Conv.ConvPrimProofs
  Conv.ConvArith Conv.ConvIeee Conv.ConvEncodeProofs Conv.ConvStickyProofs Conv.ConvDecodeProofs Conv.ConvRatProofs Conv.ConvFindings Conv.ConvSmallProofs Conv.ConvRatFull.
From Dashu Require Import Conv.ConvFlocq Conv.ConvFlocqCor Conv.ConvParamsProof Conv.ConvFloatProofs Conv.ConvTryProofs.
From Dashu Require Import Conv.ConvModel2 Conv.ConvSubnormal.
From DashuGen Require Import ConvParams.
From Coq Require Import List.
Import ListNotations.
From Coq Require Import Reals.
From Flocq Require Import Core IEEE754.BinarySingleNaN IEEE754.Binary IEEE754.Bits.
From DashuGen Require Import RoundTables.
Open Scope Z_scope.

Theorem C06_ubig_to_prim : forall w sg TW v,
  widths_ok w TW -> 0 <= v -> ubig_to_prim w sg TW v = to_prim_spec sg TW v.
Proof. exact ubig_to_prim_correct. Qed.
Print Assumptions C06_ubig_to_prim.

Theorem C06_ibig_to_prim : forall w sg TW v,
  widths_ok w TW -> ibig_to_prim w sg TW v = to_prim_spec sg TW v.
Proof. exact ibig_to_prim_correct. Qed.
Print Assumptions C06_ibig_to_prim.

Theorem C06_to_prim_only_if_exact : forall sg TW v r,
  to_prim_spec sg TW v = COk r -> r = v /\ prim_fits sg TW v = true.
Proof. exact to_prim_spec_sound. Qed.
Print Assumptions C06_to_prim_only_if_exact.

Theorem C06_prim_to_ibig : forall sg TW v,
  0 < TW -> prim_fits sg TW v = true -> prim_to_ibig sg TW v = v.
Proof. exact prim_to_ibig_correct. Qed.
Print Assumptions C06_prim_to_ibig.

Theorem C06_prim_to_ubig : forall sg TW v,
  0 < TW -> prim_fits sg TW v = true ->
  prim_to_ubig sg TW v = if v <? 0 then COutOfBounds else COk v.
Proof. exact prim_to_ubig_correct. Qed.
Print Assumptions C06_prim_to_ubig.

Theorem C06_prim_ibig_roundtrip : forall w sg TW v,
  widths_ok w TW -> prim_fits sg TW v = true ->
  ibig_to_prim w sg TW (prim_to_ibig sg TW v) = COk v.
Proof. exact prim_ibig_roundtrip. Qed.
Print Assumptions C06_prim_ibig_roundtrip.

(** FloatEncoding::encode = round to nearest even with the true error sign, all mantissas and exponents *)
Theorem C06_encode_f32 : forall m exp, - 2 ^ 31 <= m < 2 ^ 31 ->
  encode_asis P32 m exp = ieee_rne F32 (fst (frac_of m exp)) (snd (frac_of m exp)).
Proof. exact encode_f32_correct. Qed.
Print Assumptions C06_encode_f32.

Theorem C06_encode_f64 : forall m exp, - 2 ^ 63 <= m < 2 ^ 63 ->
  encode_asis P64 m exp = ieee_rne F64 (fst (frac_of m exp)) (snd (frac_of m exp)).
Proof. exact encode_f64_correct. Qed.
Print Assumptions C06_encode_f64.

(** the specification is odd in the source value (sign bit set, error sign mirrored) *)
Theorem C06_spec_sign_symmetry : forall f N D, 0 < N -> 0 < D ->
  ieee_rne f (- N) D = (fst (ieee_rne f N D) + sign_bit f, CompOpp (snd (ieee_rne f N D))).
Proof. exact ieee_rne_opp. Qed.
Print Assumptions C06_spec_sign_symmetry.

(** truncation with a sticky bit keeps the correctly rounded result (two guard bits) *)
Theorem C06_sticky_rounding : forall f v k, 0 < v -> 0 <= k -> prec f + 2 <= blen v - k -> 1 <= prec f ->
  ieee_rne f (fst (frac_of (sticky_of v k) k)) (snd (frac_of (sticky_of v k) k)) = ieee_rne f v 1.
Proof. exact ieee_rne_sticky. Qed.
Print Assumptions C06_sticky_rounding.

(** UBig::to_f32 / to_f64 on the multi-word route: every integer of at least 32 / 64 bits *)
Theorem C06_to_f32_nontrivial : forall v, 32 <= blen v -> to_float_nontrivial P32 v = ieee_rne F32 v 1.
Proof. exact to_f32_nontrivial_correct. Qed.
Print Assumptions C06_to_f32_nontrivial.

Theorem C06_to_f64_nontrivial : forall v, 64 <= blen v -> to_float_nontrivial P64 v = ieee_rne F64 v 1.
Proof. exact to_f64_nontrivial_correct. Qed.
Print Assumptions C06_to_f64_nontrivial.

Theorem C06_ubig_to_f64_large : forall DW v, 64 <= DW -> 2 ^ DW <= v -> ubig_to_float P64 DW v = ieee_rne F64 v 1.
Proof. exact ubig_to_f64_large. Qed.
Print Assumptions C06_ubig_to_f64_large.

Theorem C06_ubig_to_f32_large : forall DW v, 32 <= DW -> 2 ^ DW <= v -> ubig_to_float P32 DW v = ieee_rne F32 v 1.
Proof. exact ubig_to_f32_large. Qed.
Print Assumptions C06_ubig_to_f32_large.

(** decode, and float -> integer conversions: only integers convert, with their exact value *)
Theorem C06_decode_f32 : forall bits, 0 <= bits -> decode_asis P32 bits = decode_spec F32 bits.
Proof. exact decode_f32_correct. Qed.
Print Assumptions C06_decode_f32.

Theorem C06_decode_f64 : forall bits, 0 <= bits -> decode_asis P64 bits = decode_spec F64 bits.
Proof. exact decode_f64_correct. Qed.
Print Assumptions C06_decode_f64.

Theorem C06_float_to_int_f32 : forall uns bits, 0 <= bits ->
  float_try_to_int P32 uns bits = float_to_int_spec F32 uns bits.
Proof. exact float_try_to_int_f32. Qed.
Print Assumptions C06_float_to_int_f32.

Theorem C06_float_to_int_f64 : forall uns bits, 0 <= bits ->
  float_try_to_int P64 uns bits = float_to_int_spec F64 uns bits.
Proof. exact float_try_to_int_f64. Qed.
Print Assumptions C06_float_to_int_f64.

Theorem C06_float_to_int_only_if_exact : forall f uns bits v,
  float_to_int_spec f uns bits = COk v ->
  exists man exp, decode_spec f bits = DFin man exp /\
    v * snd (frac_of man exp) = fst (frac_of man exp) /\ (uns = true -> 0 <= v).
Proof. exact float_to_int_only_if_exact. Qed.
Print Assumptions C06_float_to_int_only_if_exact.

(** encode (decode bits) = Exact(bits) for every finite pattern but -0.0 *)
Theorem C06_encode_decode_f32 : forall bits man exp, 0 <= bits < 2 ^ 32 ->
  decode_spec F32 bits = DFin man exp -> bits <> 2 ^ 31 -> encode_asis P32 man exp = (bits, Eq).
Proof. exact encode_decode_f32. Qed.
Print Assumptions C06_encode_decode_f32.

Theorem C06_encode_decode_f64 : forall bits man exp, 0 <= bits < 2 ^ 64 ->
  decode_spec F64 bits = DFin man exp -> bits <> 2 ^ 63 -> encode_asis P64 man exp = (bits, Eq).
Proof. exact encode_decode_f64. Qed.
Print Assumptions C06_encode_decode_f64.

(** open findings: the as-is models leave the specification on the recorded witnesses *)
(** F37 repaired (RBig::to_float rounds once): the former witnesses now meet the specification *)
Theorem C06_rat_to_float_single_rounding_witness :
  rat_to_fbig 10 2 MHalfAway 9449 1000 = AInexact 94 (-1) NoOp /\
  rat_to_fbig_spec 10 2 MHalfAway 9449 1000 = (94, -1, Lt) /\
  flag_of_error 1 Lt = Some NoOp /\
  rat_to_fbig_twice 10 2 MHalfAway 9449 1000 = false /\
  rat_to_fbig 10 3 MHalfAway 12346 1000 = AInexact 123 (-1) NoOp.
Proof. exact rat_to_fbig_repaired_witness. Qed.
Print Assumptions C06_rat_to_float_single_rounding_witness.

(** F38, repaired for base 2 in the fourth round: the two statements are kept over the model of the code
    BEFORE the repair ([fbig_to_float_old]); the class stays open for the other bases *)
Theorem C06_fbig_to_float_subnormal_refuted :
  fbig_to_float_old P32 2 MHalfEven 3 (-151) = Ok (FR 1 (Some NoOp)) /\
  ieee_round F32 MHalfEven 3 (2 ^ 151) = (1, Gt) /\
  flag_of_error 1 Gt = Some AddOne.
Proof. exact fbig_to_float_subnormal_refuted. Qed.
Print Assumptions C06_fbig_to_float_subnormal_refuted.

Theorem C06_fbig_to_float_subnormal_value_refuted :
  fbig_to_float_old P32 2 MHalfEven (2 ^ 25 + 23) (-153) = Ok (FR (2 ^ 21 + 2) (Some NoOp)) /\
  fst (ieee_round F32 MHalfEven (2 ^ 25 + 23) (2 ^ 153)) = 2 ^ 21 + 1.
Proof. exact fbig_to_float_subnormal_value_refuted. Qed.
Print Assumptions C06_fbig_to_float_subnormal_value_refuted.

(** F39 (repaired in the fourth round, see C06_fbig_to_f64_div_route below): the statement is kept over
    the model of the code BEFORE the repair ([fbig_to_float_old]: the division route through repr_div) *)
Theorem C06_fbig_to_float_division_route_refuted :
  fbig_to_float_old P64 10 MHalfEven 4899 (-7) = Panic Undocumented /\
  ieee_round F64 MHalfEven 4899 (10 ^ 7) = (4557657753232426611, Gt).
Proof. exact fbig_to_float_division_refuted. Qed.
Print Assumptions C06_fbig_to_float_division_route_refuted.

Theorem C06_fbig_to_float_division_route_repaired_witness :
  fbig_to_float P64 10 MHalfEven 4899 (-7) = Ok (FR 4557657753232426611 (Some AddOne)) /\
  flag_of_error 1 Gt = Some AddOne.
Proof. exact fbig_to_float_division_repaired_witness. Qed.
Print Assumptions C06_fbig_to_float_division_route_repaired_witness.

Theorem C06_int_to_float_refuses_representable_refuted :
  int_try_to_float P32 16777218 = CLossOfPrecision /\ exact_to_float F32 16777218 1 = Some 1266679809.
Proof. exact int_try_to_float_refuted. Qed.
Print Assumptions C06_int_to_float_refuses_representable_refuted.

Theorem C06_rat_to_float_fast_two_ulps_refuted :
  rat_to_float_fast P32 (-4486) 73509287 = fst (ieee_rne F32 (-4486) 73509287) + 2.
Proof. exact rat_to_float_fast_refuted. Qed.
Print Assumptions C06_rat_to_float_fast_two_ulps_refuted.

(** RBig::to_f32/to_f64: rounding N/D two or more bits below the quotient's last bit only sees the
    quotient with a sticky bit; the main branch is then one rounding in encode (partial, see the
    comment in Conv/ConvRatProofs.v for what is not formalised) *)
Theorem C06_rational_sticky_rounding : forall num den c, 0 <= num -> 0 < den -> 2 <= c ->
  let m := Z.lor (num / den) (if num mod den =? 0 then 0 else 1) in
  spec_round MHalfEven num (den * 2 ^ c) = rne m c /\
  (spec_round MHalfEven num (den * 2 ^ c) * (den * 2 ^ c) ?= num) = (rne m c * 2 ^ c ?= m).
Proof. exact rne_rat_sticky. Qed.
Print Assumptions C06_rational_sticky_rounding.

(** RBig / Relaxed ::to_f32 / to_f64, the whole function (exponent bookkeeping, main branch, overflow
    and underflow shortcuts): the correctly rounded value of N/D with the true error sign, for every
    numerator and every positive denominator (replaces C06_rat_to_float_main_partial) *)
Theorem C06_rat_to_f32 : forall N D, 0 < D -> rat_to_float P32 N D = ieee_rne F32 N D.
Proof. exact rat_to_f32_correct. Qed.
Print Assumptions C06_rat_to_f32.

Theorem C06_rat_to_f64 : forall N D, 0 < D -> rat_to_float P64 N D = ieee_rne F64 N D.
Proof. exact rat_to_f64_correct. Qed.
Print Assumptions C06_rat_to_f64.

(** the double-word route (native cast = ieee_rne, error sign recovered by casting back) for every
    double word, hence UBig / IBig ::to_f32 / to_f64 for EVERY integer (DW = bits of a double word) *)
Theorem C06_to_f32_small : forall DW v, 1 <= DW -> 0 <= v < 2 ^ DW -> to_float_small P32 DW v = ieee_rne F32 v 1.
Proof. exact to_f32_small_correct. Qed.
Print Assumptions C06_to_f32_small.

Theorem C06_to_f64_small : forall DW v, 1 <= DW -> 0 <= v < 2 ^ DW -> to_float_small P64 DW v = ieee_rne F64 v 1.
Proof. exact to_f64_small_correct. Qed.
Print Assumptions C06_to_f64_small.

Theorem C06_ubig_to_f32 : forall DW v, 32 <= DW -> 0 <= v -> ubig_to_float P32 DW v = ieee_rne F32 v 1.
Proof. exact ubig_to_f32_correct. Qed.
Print Assumptions C06_ubig_to_f32.

Theorem C06_ubig_to_f64 : forall DW v, 64 <= DW -> 0 <= v -> ubig_to_float P64 DW v = ieee_rne F64 v 1.
Proof. exact ubig_to_f64_correct. Qed.
Print Assumptions C06_ubig_to_f64.

Theorem C06_ibig_to_f32 : forall DW v, 32 <= DW -> ibig_to_float P32 DW v = ieee_rne F32 v 1.
Proof. exact ibig_to_f32_correct. Qed.
Print Assumptions C06_ibig_to_f32.

Theorem C06_ibig_to_f64 : forall DW v, 64 <= DW -> ibig_to_float P64 DW v = ieee_rne F64 v 1.
Proof. exact ibig_to_f64_correct. Qed.
Print Assumptions C06_ibig_to_f64.

(** Bridge to Flocq: the in-house specification [ieee_rne] on every dyadic m * 2^e IS Flocq's
    [binary_normalize ... mode_NE m e false] (bit pattern by [bits_of_b32/b64], error sign by
    [Rcompare] of the rounded against the exact real value; overflow to the infinity of the sign
    of m).  With these, [ieee_rne] leaves the trusted base for dyadic sources. *)
Theorem C06_spec_is_flocq_f64 : forall m e : Z, m <> 0 ->
  let b := binary_normalize 53 1024 (eq_refl) (eq_refl) mode_NE m e false in
  fst (ieee_rne F64 (fst (frac_of m e)) (snd (frac_of m e))) = bits_of_b64 b.
Proof. exact ieee_rne_flocq_f64. Qed.
Print Assumptions C06_spec_is_flocq_f64.

Theorem C06_spec_is_flocq_f64_sign : forall m e : Z, m <> 0 ->
  let b := binary_normalize 53 1024 (eq_refl) (eq_refl) mode_NE m e false in
  snd (ieee_rne F64 (fst (frac_of m e)) (snd (frac_of m e))) =
  if is_finite 53 1024 b then Rcompare (B2R 53 1024 b) (F2R (Float radix2 m e))
  else if m <? 0 then Lt else Gt.
Proof. exact ieee_rne_flocq_f64_sign. Qed.
Print Assumptions C06_spec_is_flocq_f64_sign.

Theorem C06_spec_is_flocq_f32 : forall m e : Z, m <> 0 ->
  let b := binary_normalize 24 128 (eq_refl) (eq_refl) mode_NE m e false in
  fst (ieee_rne F32 (fst (frac_of m e)) (snd (frac_of m e))) = bits_of_b32 b.
Proof. exact ieee_rne_flocq_f32. Qed.
Print Assumptions C06_spec_is_flocq_f32.

Theorem C06_spec_is_flocq_f32_sign : forall m e : Z, m <> 0 ->
  let b := binary_normalize 24 128 (eq_refl) (eq_refl) mode_NE m e false in
  snd (ieee_rne F32 (fst (frac_of m e)) (snd (frac_of m e))) =
  if is_finite 24 128 b then Rcompare (B2R 24 128 b) (F2R (Float radix2 m e))
  else if m <? 0 then Lt else Gt.
Proof. exact ieee_rne_flocq_f32_sign. Qed.
Print Assumptions C06_spec_is_flocq_f32_sign.

(** the code against Flocq directly: FloatEncoding::encode and IBig/UBig::to_f32/to_f64 *)
Theorem C06_encode_f64_flocq : forall m e, - 2 ^ 63 <= m < 2 ^ 63 -> m <> 0 ->
  fst (encode_asis P64 m e) = bits_of_b64 (flocq64 m e) /\
  snd (encode_asis P64 m e) =
    if is_finite 53 1024 (flocq64 m e) then Rcompare (B2R 53 1024 (flocq64 m e)) (F2R (Float radix2 m e))
    else if m <? 0 then Lt else Gt.
Proof. exact encode_f64_flocq. Qed.
Print Assumptions C06_encode_f64_flocq.

Theorem C06_encode_f32_flocq : forall m e, - 2 ^ 31 <= m < 2 ^ 31 -> m <> 0 ->
  fst (encode_asis P32 m e) = bits_of_b32 (flocq32 m e) /\
  snd (encode_asis P32 m e) =
    if is_finite 24 128 (flocq32 m e) then Rcompare (B2R 24 128 (flocq32 m e)) (F2R (Float radix2 m e))
    else if m <? 0 then Lt else Gt.
Proof. exact encode_f32_flocq. Qed.
Print Assumptions C06_encode_f32_flocq.

Theorem C06_ibig_to_f64_flocq : forall DW v, 64 <= DW -> v <> 0 ->
  fst (ibig_to_float P64 DW v) = bits_of_b64 (flocq64 v 0) /\
  snd (ibig_to_float P64 DW v) =
    if is_finite 53 1024 (flocq64 v 0) then Rcompare (B2R 53 1024 (flocq64 v 0)) (IZR v)
    else if v <? 0 then Lt else Gt.
Proof. exact ibig_to_f64_flocq. Qed.
Print Assumptions C06_ibig_to_f64_flocq.

Theorem C06_ibig_to_f32_flocq : forall DW v, 32 <= DW -> v <> 0 ->
  fst (ibig_to_float P32 DW v) = bits_of_b32 (flocq32 v 0) /\
  snd (ibig_to_float P32 DW v) =
    if is_finite 24 128 (flocq32 v 0) then Rcompare (B2R 24 128 (flocq32 v 0)) (IZR v)
    else if v <? 0 then Lt else Gt.
Proof. exact ibig_to_f32_flocq. Qed.
Print Assumptions C06_ibig_to_f32_flocq.

(** tie to the sources: the literals of encode/decode, to_f32/to_f64_nontrivial, to_f32/to_f64_small
    (shape), Repr::to_f32/to_f64 and into_f32/f64_internal, re-read from the repository on every
    run (coq/gen/ConvParams.v), are the constants of the as-is models *)
Theorem C06_source_literals_tie :
  encode_f32_gen = encode_lits P32 /\ encode_f64_gen = encode_lits P64 /\
  decode_f32_gen = decode_lits P32 /\ decode_f64_gen = decode_lits P64 /\
  int_to_f32_nontrivial_gen = int_nontrivial_lits P32 /\ int_to_f64_nontrivial_gen = int_nontrivial_lits P64 /\
  int_to_f32_small_gen = [1; 1; 2] /\ int_to_f64_small_gen = [1; 1; 2] /\
  rat_to_f32_gen = rat_lits P32 /\ rat_to_f64_gen = rat_lits P64 /\
  fbig_into_f32_gen = fbig_into_lits P32 /\ fbig_into_f64_gen = fbig_into_lits P64 /\
  UNDER P32 = - (BIAS P32 - 1) - MB P32 /\ UNDER P64 = - (BIAS P64 - 1) - MB P64.
Proof. exact conv_params_tie. Qed.
Print Assumptions C06_source_literals_tie.

(** FBig<R,2>::to_f32 (mode R) / to_f64 (the harness passes HalfEven, as the code does): normalise,
    round to 24 / 53 bits under the mode, into_f32/f64_internal.  Outside the open class
    fbig_to_float_subnormal (results below the smallest normal number) the result is the value
    rounded under the mode with the truthful flag, for every mode, significand and exponent,
    including the overflow to infinity *)
Theorem C06_fbig2_to_f64 : forall m s e,
  s <> 0 -> emin F64 + prec F64 - 1 < blen (Z.abs s) + e ->
  fbig2_to_float P64 m s e =
    FR (fst (ieee_round F64 m (fst (frac_of s e)) (snd (frac_of s e))))
       (flag_of_error (Z.sgn s) (snd (ieee_round F64 m (fst (frac_of s e)) (snd (frac_of s e))))).
Proof. exact fbig2_to_f64_correct_r4. Qed.
Print Assumptions C06_fbig2_to_f64.

Theorem C06_fbig2_to_f32 : forall m s e,
  s <> 0 -> emin F32 + prec F32 - 1 < blen (Z.abs s) + e ->
  fbig2_to_float P32 m s e =
    FR (fst (ieee_round F32 m (fst (frac_of s e)) (snd (frac_of s e))))
       (flag_of_error (Z.sgn s) (snd (ieee_round F32 m (fst (frac_of s e)) (snd (frac_of s e))))).
Proof. exact fbig2_to_f32_correct_r4. Qed.
Print Assumptions C06_fbig2_to_f32.

(** (the code before the fourth round, [fbig2_to_float_old]; still the route of every base other than 2 after
    convert_base) ... and for a significand that already fits (at most 53 / 24 bits) over the WHOLE exponent range,
    subnormal results included: the bits are the round-to-nearest-even pattern whatever the mode
    (only encode rounds), the flag is None exactly when nothing was lost *)
Theorem C06_fbig2_to_f64_short : forall m s e, s <> 0 -> blen (Z.abs s) <= 53 ->
  fbig2_to_float_old P64 m s e =
    FR (fst (ieee_rne F64 (fst (frac_of s e)) (snd (frac_of s e))))
       (short_flag P64 s e (snd (ieee_rne F64 (fst (frac_of s e)) (snd (frac_of s e))))).
Proof. exact fbig2_to_f64_short. Qed.
Print Assumptions C06_fbig2_to_f64_short.

Theorem C06_fbig2_to_f32_short : forall m s e, s <> 0 -> blen (Z.abs s) <= 24 ->
  fbig2_to_float_old P32 m s e =
    FR (fst (ieee_rne F32 (fst (frac_of s e)) (snd (frac_of s e))))
       (short_flag P32 s e (snd (ieee_rne F32 (fst (frac_of s e)) (snd (frac_of s e))))).
Proof. exact fbig2_to_f32_short. Qed.
Print Assumptions C06_fbig2_to_f32_short.

(** TryFrom<FBig> / TryFrom<Repr> for IBig, UBig and the primitive types; From<UBig/IBig> for FBig;
    TryFrom<RBig> for UBig/IBig; TryFrom<FBig> for RBig: exact or refused (models in Conv/ConvTryProofs.v) *)
Theorem C06_fbig_to_ibig : forall B s e, 2 <= B -> (s mod B <> 0 \/ (s = 0 /\ e = 0)) ->
  fbig_try_to_ibig B false s e = rat_to_int_spec false (fst (repr_frac B s e)) (snd (repr_frac B s e)).
Proof. exact fbig_try_to_ibig_correct. Qed.
Print Assumptions C06_fbig_to_ibig.

Theorem C06_fbig_to_ibig_only_if_exact : forall B inf s e v, 0 < B ->
  fbig_try_to_ibig B inf s e = COk v -> inf = false /\ 0 <= e /\ v = s * B ^ e.
Proof. exact fbig_try_to_ibig_ok. Qed.
Print Assumptions C06_fbig_to_ibig_only_if_exact.

Theorem C06_fbig_to_ubig_only_if_exact : forall B inf s e v, 0 < B ->
  fbig_try_to_ubig B inf s e = COk v -> inf = false /\ 0 <= e /\ v = s * B ^ e /\ 0 <= v.
Proof. exact fbig_try_to_ubig_ok. Qed.
Print Assumptions C06_fbig_to_ubig_only_if_exact.

Theorem C06_fbig_to_ubig_refused_iff : forall B inf s e, 0 < B ->
  (forall v, fbig_try_to_ubig B inf s e <> COk v) <-> (inf = true \/ e < 0 \/ s < 0).
Proof. exact fbig_try_to_ubig_refused. Qed.
Print Assumptions C06_fbig_to_ubig_refused_iff.

(** primitives: for EVERY sound lower estimate of log2 (the log2_bounds shortcut) *)
Theorem C06_fbig_to_prim : forall B : Z, 2 <= B -> forall lb : Z -> Z -> Z,
  (forall s e : Z, s <> 0 -> 0 <= e -> 0 <= lb s e -> 2 ^ lb s e <= Z.abs s * B ^ e) ->
  forall (w : Z) (sg : bool) (TW s e : Z), widths_ok w TW -> 0 <= e ->
  fbig_try_to_prim lb w B sg TW false s e = to_prim_spec sg TW (s * B ^ e).
Proof. exact fbig_try_to_prim_correct. Qed.
Print Assumptions C06_fbig_to_prim.

Theorem C06_fbig_to_prim_only_if_exact : forall B : Z, 2 <= B -> forall lb : Z -> Z -> Z,
  (forall s e : Z, s <> 0 -> 0 <= e -> 0 <= lb s e -> 2 ^ lb s e <= Z.abs s * B ^ e) ->
  forall (w : Z) (sg : bool) (TW : Z) (inf : bool) (s e v : Z), widths_ok w TW ->
  fbig_try_to_prim lb w B sg TW inf s e = COk v ->
  inf = false /\ 0 <= e /\ v = s * B ^ e /\ prim_fits sg TW v = true.
Proof. exact fbig_try_to_prim_ok. Qed.
Print Assumptions C06_fbig_to_prim_only_if_exact.

Theorem C06_int_fbig_roundtrip : forall B v, 2 <= B ->
  fbig_try_to_ibig B false (fst (int_to_repr B v)) (snd (int_to_repr B v)) = COk v.
Proof. exact int_repr_roundtrip. Qed.
Print Assumptions C06_int_fbig_roundtrip.

Theorem C06_rat_to_ubig : forall N D, 0 < D -> Z.gcd N D = 1 -> rat_try_to_ubig N D = rat_to_int_spec true N D.
Proof. exact rat_try_to_ubig_correct. Qed.
Print Assumptions C06_rat_to_ubig.

Theorem C06_rat_to_ibig : forall N D, 0 < D -> Z.gcd N D = 1 -> rat_try_to_ibig N D = rat_to_int_spec false N D.
Proof. exact rat_try_to_ibig_correct. Qed.
Print Assumptions C06_rat_to_ibig.

Theorem C06_rat_to_int_only_if_exact : forall uns N D v, 0 < D ->
  rat_to_int_spec uns N D = COk v -> v * D = N /\ (uns = true -> 0 <= v).
Proof. exact rat_to_int_spec_ok. Qed.
Print Assumptions C06_rat_to_int_only_if_exact.

Theorem C06_int_rat_roundtrip : forall v,
  rat_try_to_ibig (fst (int_to_rat v)) (snd (int_to_rat v)) = COk v /\
  (0 <= v -> rat_try_to_ubig (fst (int_to_rat v)) (snd (int_to_rat v)) = COk v) /\
  Z.gcd (fst (int_to_rat v)) (snd (int_to_rat v)) = 1.
Proof. exact int_rat_roundtrip. Qed.
Print Assumptions C06_int_rat_roundtrip.

Theorem C06_fbig_to_rbig : forall B s e, 2 <= B ->
  exists n d, fbig_try_to_rbig B false s e = COk (n, d) /\ 0 < d /\ Z.gcd n d = 1 /\
              n * snd (repr_frac B s e) = fst (repr_frac B s e) * d.
Proof. exact fbig_try_to_rbig_correct. Qed.
Print Assumptions C06_fbig_to_rbig.

(** ------------------------------------------------------------------------------------------
    third round *)
From Dashu Require Import Float.RoundOpsModel Conv.ConvModel2 Conv.ConvRatToFbig Conv.ConvTry2Proofs Conv.ConvFloat2Proofs
  Conv.ConvToInt Conv.ConvParams2Proof.
From DashuGen Require Import ConvParams2.

(** RBig / Relaxed ::to_float, the whole function (digit counts, shift, quotient cut to exactly p
    digits, ONE rounding by round_ratio, convert_int, exponent fix-up): for every base, precision,
    mode, numerator and positive denominator the result is the correctly rounded p-digit float of
    N/D in normal form with the truthful flag *)
Theorem C06_rat_to_fbig : forall B, 2 <= B -> forall p m N D, 1 <= p -> 0 < D ->
  let '(M, u, c) := rat_to_fbig_spec B p m N D in
  rat_to_fbig B p m N D = approx_of (normalize B M u) (flag_of_error (Z.sgn N) c).
Proof. exact rat_to_fbig_correct. Qed.
Print Assumptions C06_rat_to_fbig.

Theorem C06_rat_to_fbig_rounds_once : forall B, 2 <= B -> forall p m N D, 1 <= p -> 0 < D ->
  rat_to_fbig_twice B p m N D = false.
Proof. exact rat_to_fbig_never_twice. Qed.
Print Assumptions C06_rat_to_fbig_rounds_once.

(** TryFrom<RBig/Relaxed> for f32 / f64 (power-of-two test, top-bit window, trailing zeros stripped,
    MANTISSA_DIGITS test, encode): Ok(pattern) exactly when the reduced fraction is a value of the
    format, refused otherwise *)
Theorem C06_rat_try_to_f32 : forall N D, 0 < D -> Z.gcd N D = 1 ->
  conv_ok (rat_try_to_float P32 N D) = exact_to_float F32 N D.
Proof. exact rat_try_to_f32_correct. Qed.
Print Assumptions C06_rat_try_to_f32.

Theorem C06_rat_try_to_f64 : forall N D, 0 < D -> Z.gcd N D = 1 ->
  conv_ok (rat_try_to_float P64 N D) = exact_to_float F64 N D.
Proof. exact rat_try_to_f64_correct. Qed.
Print Assumptions C06_rat_try_to_f64.

(** TryFrom<FBig<R,2>> / TryFrom<Repr<2>> for f32 / f64, every mode, WHOLE exponent range *)
Theorem C06_fbig2_try_to_f32 : forall m s e, s <> 0 ->
  conv_ok (fbig2_try_to_float P32 m s e) = exact_to_float F32 (fst (frac_of s e)) (snd (frac_of s e)).
Proof. exact fbig2_try_to_f32_all. Qed.
Print Assumptions C06_fbig2_try_to_f32.

Theorem C06_fbig2_try_to_f64 : forall m s e, s <> 0 ->
  conv_ok (fbig2_try_to_float P64 m s e) = exact_to_float F64 (fst (frac_of s e)) (snd (frac_of s e)).
Proof. exact fbig2_try_to_f64_all. Qed.
Print Assumptions C06_fbig2_try_to_f64.

(** TryFrom<f32/f64> for RBig / Relaxed (decode, reduce2) and for Repr<2> / FBig<R,2> *)
Theorem C06_float_try_to_rat_f32 : forall bits, 0 <= bits ->
  match decode_spec F32 bits with
  | DFin man exp =>
      exists n d, float_try_to_rat P32 bits = COk (n, d) /\ 0 < d /\ Z.gcd n d = 1 /\
                  n * snd (frac_of man exp) = fst (frac_of man exp) * d
  | _ => float_try_to_rat P32 bits = COutOfBounds
  end.
Proof. exact float_try_to_rat_f32. Qed.
Print Assumptions C06_float_try_to_rat_f32.

Theorem C06_float_try_to_rat_f64 : forall bits, 0 <= bits ->
  match decode_spec F64 bits with
  | DFin man exp =>
      exists n d, float_try_to_rat P64 bits = COk (n, d) /\ 0 < d /\ Z.gcd n d = 1 /\
                  n * snd (frac_of man exp) = fst (frac_of man exp) * d
  | _ => float_try_to_rat P64 bits = COutOfBounds
  end.
Proof. exact float_try_to_rat_f64. Qed.
Print Assumptions C06_float_try_to_rat_f64.

Theorem C06_float_try_to_fbig_f32 : forall bits, 0 <= bits ->
  match decode_spec F32 bits with
  | DFin man exp => float_try_to_fbig P32 bits = COk (fst (normalize 2 man exp), snd (normalize 2 man exp), blen (Z.abs man))
  | _ => float_try_to_fbig P32 bits = COutOfBounds
  end.
Proof. exact float_try_to_fbig_f32. Qed.
Print Assumptions C06_float_try_to_fbig_f32.

Theorem C06_float_try_to_fbig_f64 : forall bits, 0 <= bits ->
  match decode_spec F64 bits with
  | DFin man exp => float_try_to_fbig P64 bits = COk (fst (normalize 2 man exp), snd (normalize 2 man exp), blen (Z.abs man))
  | _ => float_try_to_fbig P64 bits = COutOfBounds
  end.
Proof. exact float_try_to_fbig_f64. Qed.
Print Assumptions C06_float_try_to_fbig_f64.

(** TryFrom<RBig> for the primitive integers (any word size), RBig / Relaxed ::to_int *)
Theorem C06_rat_try_to_prim : forall w sg TW N D, widths_ok w TW -> 0 < D -> Z.gcd N D = 1 ->
  rat_try_to_prim w sg TW N D =
    match rat_to_int_spec false N D with
    | COk v => to_prim_spec sg TW v
    | _ => CLossOfPrecision
    end.
Proof. exact rat_try_to_prim_correct. Qed.
Print Assumptions C06_rat_try_to_prim.

Theorem C06_rat_to_int : forall N D, 0 < D ->
  fst (rat_to_int_asis N D) = fst (rat_trunc_spec N D) /\
  (let '(n, d) := snd (rat_to_int_asis N D) in let '(n', d') := snd (rat_trunc_spec N D) in n * d' = n' * d /\ 0 < d).
Proof. exact rat_to_int_asis_correct. Qed.
Print Assumptions C06_rat_to_int.

(** FBig::to_int (mode of the number) and Repr::to_int (towards zero): the as-is models of C10 meet
    C06's statement of the to_int family for every base and every sound digit estimate *)
Theorem C06_fbig_to_int : forall B, 2 <= B -> forall digits_ub, (forall s, dlen B s <= digits_ub s) ->
  forall m p s e, (e < 0 -> s mod B <> 0) ->
  to_int_asis B digits_ub false m p s e =
    Ok (iapprox_of (int_round_spec m (fst (repr_frac B s e)) (snd (repr_frac B s e)))).
Proof. exact fbig_to_int_correct. Qed.
Print Assumptions C06_fbig_to_int.

Theorem C06_repr_to_int : forall B, 2 <= B -> forall digits_ub, (forall s, dlen B s <= digits_ub s) ->
  forall s e, (e < 0 -> s mod B <> 0) ->
  repr_to_int_asis B digits_ub s e =
    iapprox_of (int_round_spec MZero (fst (repr_frac B s e)) (snd (repr_frac B s e))).
Proof. exact repr_to_int_correct. Qed.
Print Assumptions C06_repr_to_int.

(** FBig<R,2> / Repr<2> ::to_f32 / to_f64 as the code stands, WHOLE range: round to 24 / 53 bits
    under the mode, then encode rounds to nearest even; flag of the first step unless encode was
    inexact (then NoOp / overflow flag).  The exact content of the open class
    fbig_to_float_subnormal. *)
Theorem C06_fbig2_to_f32_two_step : forall m s e, s <> 0 ->
  fbig2_to_float_old P32 m s e = two_step P32 m (fst (normalize 2 s e)) (snd (normalize 2 s e)).
Proof. exact fbig2_to_f32_two_step. Qed.
Print Assumptions C06_fbig2_to_f32_two_step.

Theorem C06_fbig2_to_f64_two_step : forall m s e, s <> 0 ->
  fbig2_to_float_old P64 m s e = two_step P64 m (fst (normalize 2 s e)) (snd (normalize 2 s e)).
Proof. exact fbig2_to_f64_two_step. Qed.
Print Assumptions C06_fbig2_to_f64_two_step.

(** to_f32_fast / to_f64_fast, main branch: the correctly rounded pattern of the approximate
    quotient (truncated 48/106-bit numerator over truncated 24/53-bit denominator, rounded to
    nearest even); the distance to the correctly rounded N/D stays compared (open class
    rat_to_float_fast_two_ulps) *)
Theorem C06_rat_to_f32_fast_main : forall N D, N <> 0 -> 0 < D ->
  let '(man, ex) := fast_quotient P32 N D in
  ex < 128 -> -149 - 25 <= ex ->
  rat_to_float_fast P32 N D =
    fst (ieee_rne F32 (fst (frac_of (if N <? 0 then - man else man) ex)) (snd (frac_of (if N <? 0 then - man else man) ex))).
Proof. exact rat_to_f32_fast_main. Qed.
Print Assumptions C06_rat_to_f32_fast_main.

Theorem C06_rat_to_f64_fast_main : forall N D, N <> 0 -> 0 < D ->
  let '(man, ex) := fast_quotient P64 N D in
  ex < 1024 -> -1074 - 54 <= ex ->
  rat_to_float_fast P64 N D =
    fst (ieee_rne F64 (fst (frac_of (if N <? 0 then - man else man) ex)) (snd (frac_of (if N <? 0 then - man else man) ex))).
Proof. exact rat_to_f64_fast_main. Qed.
Print Assumptions C06_rat_to_f64_fast_main.

(** tie to the sources, over the numbers regenerated by tools/translate_c06_r3.py *)
Theorem C06_fast_f32_gen_tie : forall N D,
  rat_to_float_fast_gen P32 (g rat_fast_f32_gen 0) (g rat_fast_f32_gen 1) (g rat_fast_f32_gen 2)
    (g rat_fast_f32_gen 3 - g rat_fast_f32_gen 4) N D = rat_to_float_fast P32 N D.
Proof. exact fast_f32_gen_tie. Qed.
Print Assumptions C06_fast_f32_gen_tie.

Theorem C06_fast_f64_gen_tie : forall N D,
  rat_to_float_fast_gen P64 (g rat_fast_f64_gen 0) (g rat_fast_f64_gen 1) (g rat_fast_f64_gen 2)
    (g rat_fast_f64_gen 3 - g rat_fast_f64_gen 4) N D = rat_to_float_fast P64 N D.
Proof. exact fast_f64_gen_tie. Qed.
Print Assumptions C06_fast_f64_gen_tie.

Theorem C06_rat_try_f32_gen : forall N D, 0 < D -> Z.gcd N D = 1 ->
  conv_ok (rat_try_to_float_gen P32 (g rat_try_f32_gen 0) (g rat_try_f32_gen 1) 24 N D) = exact_to_float F32 N D.
Proof. exact rat_try_f32_gen_correct. Qed.
Print Assumptions C06_rat_try_f32_gen.

Theorem C06_rat_try_f64_gen : forall N D, 0 < D -> Z.gcd N D = 1 ->
  conv_ok (rat_try_to_float_gen P64 (g rat_try_f64_gen 0) (g rat_try_f64_gen 1) 53 N D) = exact_to_float F64 N D.
Proof. exact rat_try_f64_gen_correct. Qed.
Print Assumptions C06_rat_try_f64_gen.

Theorem C06_source_literals_tie_r3 :
  skipn 5 rat_fast_f32_gen = [2; 1; 1] /\ skipn 5 rat_fast_f64_gen = [2; 1; 1] /\
  fbig_to_f32_ctx_gen = [MB P32 + 1; 2; MB P32 + 1; 2] /\ fbig_to_f64_ctx_gen = [MB P64 + 1; 2; MB P64 + 1; 2] /\
  int_try_float_gen = [1; 1] /\
  (forall v, int_try_to_float P32 v =
     let a := Z.abs v in let mx := (MB P32 + 1) + g int_try_float_gen 0 in
     if (blen a >? mx) || ((blen a =? mx) && negb (is_pow2 a)) then CLossOfPrecision
     else COk ((if v <? 0 then 2 ^ (W P32 - 1) else 0) + cast_uint P32 a)).
Proof. exact conv_params2_tie. Qed.
Print Assumptions C06_source_literals_tie_r3.

(** FBig<R,B> / Repr<B> ::to_f32 / to_f64 for bases other than 2 on the routes of convert_base that
    are exact before rounding: B = 2^n (exponent multiplied by n), and a non-negative exponent up to
    the regenerated THRESHOLD_SMALL_EXP for a base that is not a power of two (an integer: no range
    condition).  The debug assertion of into_f32/f64_internal never fires on them. *)
From Dashu Require Import Conv.ConvBaseProofs.

Theorem C06_fbig_to_f64_pow2_base : forall m n s e, 1 < n -> s <> 0 ->
  emin F64 + prec F64 - 1 < blen (Z.abs s) + e * n ->
  fbig_to_float P64 (2 ^ n) m s e = Ok (to_float_spec F64 m s (e * n)).
Proof. exact fbig_to_f64_pow2_base. Qed.
Print Assumptions C06_fbig_to_f64_pow2_base.

Theorem C06_fbig_to_f32_pow2_base : forall m n s e, 1 < n -> s <> 0 ->
  emin F32 + prec F32 - 1 < blen (Z.abs s) + e * n ->
  fbig_to_float P32 (2 ^ n) m s e = Ok (to_float_spec F32 m s (e * n)).
Proof. exact fbig_to_f32_pow2_base. Qed.
Print Assumptions C06_fbig_to_f32_pow2_base.

Theorem C06_fbig_to_f64_nonneg_exp : forall B m s e, 2 < B -> ilog_exact2 B <= 1 -> s <> 0 ->
  0 <= e <= nth 0 convert_small_exp_gen 0 ->
  fbig_to_float P64 B m s e = Ok (to_float_spec F64 m (s * B ^ e) 0).
Proof. exact fbig_to_f64_nonneg_exp. Qed.
Print Assumptions C06_fbig_to_f64_nonneg_exp.

Theorem C06_fbig_to_f32_nonneg_exp : forall B m s e, 2 < B -> ilog_exact2 B <= 1 -> s <> 0 ->
  0 <= e <= nth 0 convert_small_exp_gen 0 ->
  fbig_to_float P32 B m s e = Ok (to_float_spec F32 m (s * B ^ e) 0).
Proof. exact fbig_to_f32_nonneg_exp. Qed.
Print Assumptions C06_fbig_to_f32_nonneg_exp.

(** to_f32_fast / to_f64_fast: a PROVED error bound for every numerator and positive denominator:
    the approximate quotient man * 2^ex handed to encode lies within (-1, +4.5) units of its own
    last place (man has 24/25 resp. 53/54 bits) of the exact |N| / D *)
Theorem C06_fast_quotient_bound_f32 : forall N D, N <> 0 -> 0 < D ->
  let '(man, ex) := fast_quotient P32 N D in
  if 0 <=? ex then (2 * man - 9) * (D * 2 ^ ex) < 2 * Z.abs N < (2 * man + 2) * (D * 2 ^ ex)
  else (2 * man - 9) * D < 2 * Z.abs N * 2 ^ (- ex) < (2 * man + 2) * D.
Proof. exact fast_quotient_bound_f32. Qed.
Print Assumptions C06_fast_quotient_bound_f32.

Theorem C06_fast_quotient_bound_f64 : forall N D, N <> 0 -> 0 < D ->
  let '(man, ex) := fast_quotient P64 N D in
  if 0 <=? ex then (2 * man - 9) * (D * 2 ^ ex) < 2 * Z.abs N < (2 * man + 2) * (D * 2 ^ ex)
  else (2 * man - 9) * D < 2 * Z.abs N * 2 ^ (- ex) < (2 * man + 2) * D.
Proof. exact fast_quotient_bound_f64. Qed.
Print Assumptions C06_fast_quotient_bound_f64.

(** Fourth round.  The division route of Context::convert_base (bases that are not powers of one another, small
    negative exponent) after the repair of F39: the as-is model of the repaired code (pad a short dividend, divide
    exactly, cut the quotient to exactly p digits, ONE rounding by round_ratio) returns, for EVERY target base,
    precision, mode, non-zero dividend and positive divisor, the correctly rounded p-digit float of the quotient
    with the truthful flag; its significand never exceeds the precision. *)
From Dashu Require Import Conv.ConvDivRoute.

Theorem C06_convert_base_div_route : forall B, 2 <= B -> forall p m N D e1 e2, 1 <= p -> 0 < D -> N <> 0 ->
  let u := rat_exp B N D - p + 1 in
  let M := round_rat_at B m N D u in
  let c := cmp_kx B 1 (XRat N D) M u in
  B ^ (p - 1) <= Z.abs M <= B ^ p /\ (0 < N -> 0 < M) /\ (N < 0 -> M < 0) /\
  div_round_once B p m N e1 D e2 =
    match flag_of_error (Z.sgn N) c with
    | None => (let '(h, x) := normalize B M (u + e1 - e2) in AExact h x)
    | Some a => AInexact M (u + e1 - e2) a
    end.
Proof. exact div_round_once_correct. Qed.
Print Assumptions C06_convert_base_div_route.

Theorem C06_convert_base_div_route_fits : forall B p m N D e1 e2, 2 <= B -> 1 <= p -> 0 < D -> N <> 0 ->
  let a := div_round_once B p m N e1 D e2 in
  dlen B (fst (normalize B (approx_sig a) (approx_exp a))) <= p.
Proof. exact div_round_once_fits. Qed.
Print Assumptions C06_convert_base_div_route_fits.

(** FBig<R,B>::to_f32 / to_f64 and Repr<B>::to_f32 / to_f64 for a base that is not a power of two and an exponent in
    [-THRESHOLD_SMALL_EXP, -1] (regenerated): the correctly rounded IEEE value of s / B^-e under the mode with the
    truthful flag whenever the value is not below the smallest normal number (overflow to infinity included); the
    debug assertion of into_f32/f64_internal cannot fire (the result is Ok) *)
Theorem C06_fbig_to_f64_div_route : forall B m s e, 2 < B -> ilog_exact2 B <= 1 -> s <> 0 ->
  - nth 0 convert_small_exp_gen 0 <= e < 0 ->
  emin F64 + prec F64 - 1 < mag2 (Z.abs s) (B ^ (- e)) ->
  fbig_to_float P64 B m s e =
    Ok (let r := ieee_round F64 m s (B ^ (- e)) in FR (fst r) (flag_of_error (Z.sgn s) (snd r))).
Proof. exact fbig_to_f64_div_route. Qed.
Print Assumptions C06_fbig_to_f64_div_route.

Theorem C06_fbig_to_f32_div_route : forall B m s e, 2 < B -> ilog_exact2 B <= 1 -> s <> 0 ->
  - nth 0 convert_small_exp_gen 0 <= e < 0 ->
  emin F32 + prec F32 - 1 < mag2 (Z.abs s) (B ^ (- e)) ->
  fbig_to_float P32 B m s e =
    Ok (let r := ieee_round F32 m s (B ^ (- e)) in FR (fst r) (flag_of_error (Z.sgn s) (snd r))).
Proof. exact fbig_to_f32_div_route. Qed.
Print Assumptions C06_fbig_to_f32_div_route.

(** Rust's `as` casts between integers and floats are no longer an unproved contract of the models: the two
    models the conversions are proved with are the Rust Reference's numeric casts stated over Flocq
    (integer -> float = binary_normalize mode_NE, overflow to infinity; float -> integer = Btrunc, i.e.
    round radix2 (FIX_exp 0) Ztrunc of the real value, clamped to the type, NaN -> 0), and the reference
    functions are compared with the real casts of the compiler on every run (ops cast_i2f / cast_f2i). *)
From Dashu Require Import Conv.ConvCastModel Conv.ConvCastProofs.

Theorem C06_cast_int_to_f64_is_flocq : forall v, cast_uint P64 v = int_to_f64_ref v.
Proof. exact cast_uint_f64_flocq. Qed.
Print Assumptions C06_cast_int_to_f64_is_flocq.

Theorem C06_cast_int_to_f32_is_flocq : forall v, cast_uint P32 v = int_to_f32_ref v.
Proof. exact cast_uint_f32_flocq. Qed.
Print Assumptions C06_cast_int_to_f32_is_flocq.

Theorem C06_cast_f64_to_uint_is_flocq : forall DW bits, 0 <= DW -> 0 <= bits < inf_bits P64 ->
  cast_back P64 DW bits = f64_to_int_ref false DW bits.
Proof. exact cast_back_f64_flocq. Qed.
Print Assumptions C06_cast_f64_to_uint_is_flocq.

Theorem C06_cast_f32_to_uint_is_flocq : forall DW bits, 0 <= DW -> 0 <= bits < inf_bits P32 ->
  cast_back P32 DW bits = f32_to_int_ref false DW bits.
Proof. exact cast_back_f32_flocq. Qed.
Print Assumptions C06_cast_f32_to_uint_is_flocq.

Theorem C06_cast_float_to_int_reference : forall sg TW bits,
  let f := b64_of_bits bits in
  (Binary.is_nan 53 1024 f = true -> f64_to_int_ref sg TW bits = 0) /\
  (Binary.is_finite 53 1024 f = true ->
     int_lo sg TW <= int_hi sg TW ->
     let t := Binary.Btrunc 53 1024 f in
     IZR t = round radix2 (FIX_exp 0) Ztrunc (Binary.B2R 53 1024 f) /\
     f64_to_int_ref sg TW bits = (if t <? int_lo sg TW then int_lo sg TW else if int_hi sg TW <? t then int_hi sg TW else t)) /\
  (f = Binary.B754_infinity 53 1024 false -> f64_to_int_ref sg TW bits = int_hi sg TW) /\
  (f = Binary.B754_infinity 53 1024 true -> f64_to_int_ref sg TW bits = int_lo sg TW).
Proof. exact f64_to_int_ref_spec. Qed.
Print Assumptions C06_cast_float_to_int_reference.

(** Fourth round, repair of F38 for base 2: FBig<R,2>::to_f32 / to_f64 and Repr<2>::to_f32 / to_f64 round ONCE - to 24 / 53
    bits from the smallest normal number on, to a multiple of the smallest subnormal number below it (mode of the
    number; a zero result keeps the sign).  Over the WHOLE range - normal, subnormal, underflow, overflow - and for
    every mode the result is the IEEE rounding of the exact value with the truthful flag. *)

Theorem C06_fbig2_to_f64_all : forall m s e, s <> 0 -> fbig2_to_float P64 m s e = to_float_spec F64 m s e.
Proof. exact fbig2_to_f64_all. Qed.
Print Assumptions C06_fbig2_to_f64_all.

Theorem C06_fbig2_to_f32_all : forall m s e, s <> 0 -> fbig2_to_float P32 m s e = to_float_spec F32 m s e.
Proof. exact fbig2_to_f32_all. Qed.
Print Assumptions C06_fbig2_to_f32_all.

Theorem C06_fbig_to_float_subnormal_repaired_witness :
  fbig_to_float P32 2 MHalfEven 3 (-151) = Ok (FR 1 (Some AddOne)) /\
  fbig_to_float P32 2 MHalfEven (2 ^ 25 + 23) (-153) = Ok (FR (2 ^ 21 + 1) (Some NoOp)) /\
  fbig_to_float P32 2 MUp 1 (-200) = Ok (FR 1 (Some AddOne)) /\
  fbig_to_float P32 2 MUp (-1) (-200) = Ok (FR (2 ^ 31) (Some NoOp)) /\
  fbig_to_float P32 16 MHalfEven 6 (-38) = Ok (FR 1 (Some NoOp)) /\
  ieee_round F32 MHalfEven 6 (2 ^ 152) = (1, Gt).
Proof. exact fbig_to_float_subnormal_repaired_witness. Qed.
Print Assumptions C06_fbig_to_float_subnormal_repaired_witness.

(** Fourth round: FBig<R,B> / Repr<B> ::to_f32 / to_f64 for a base that is not a power of two and |exponent| beyond
    THRESHOLD_SMALL_EXP (the ln/exp route of Context::convert_base, as-is model of C08 / C11 imported read-only, any
    f32 estimate layer O, word size W, fuel): the conversion is the old-style base-2 conversion of the route's
    approximant Y * 2^ye (one repr_round to 24 / 53 bits, then an exact encoding: no debug assertion), hence from the
    smallest normal number on the IEEE rounding of the approximant with the truthful flag.  The distance of the
    approximant from the exact value is C08's open class; its C06 face is refuted on a representable value. *)
From Dashu Require Float.ElemF32 Float.ElemAsis Float.LargeExpAsis.
From Dashu Require Import Conv.ConvLargeRoute.

Theorem C06_fbig_to_float_large_route : forall (F : Type) (O : ElemF32.f32ops F) W fuel P B m s e t, 1 <= MB P ->
  LargeExpAsis.large_trace_asis O W fuel B 2 (MB P + 1) m e = Ok t ->
  fbig_to_float_large O W fuel P B m s e =
    Ok (fbig2_to_float_old P m (s * approx_sig (LargeExpAsis.lt_exp t)) (LargeExpAsis.lt_q t + approx_exp (LargeExpAsis.lt_exp t))).
Proof. exact @fbig_to_float_large_eq. Qed.
Print Assumptions C06_fbig_to_float_large_route.

Theorem C06_fbig_to_f64_large_route : forall (F : Type) (O : ElemF32.f32ops F) W fuel B m s e t,
  LargeExpAsis.large_trace_asis O W fuel B 2 53 m e = Ok t ->
  let Y := s * approx_sig (LargeExpAsis.lt_exp t) in let ye := LargeExpAsis.lt_q t + approx_exp (LargeExpAsis.lt_exp t) in
  Y <> 0 -> emin F64 + prec F64 - 1 < blen (Z.abs Y) + ye ->
  fbig_to_float_large O W fuel P64 B m s e = Ok (to_float_spec F64 m Y ye).
Proof. exact @fbig_to_f64_large. Qed.
Print Assumptions C06_fbig_to_f64_large_route.

Theorem C06_fbig_to_f32_large_route : forall (F : Type) (O : ElemF32.f32ops F) W fuel B m s e t,
  LargeExpAsis.large_trace_asis O W fuel B 2 24 m e = Ok t ->
  let Y := s * approx_sig (LargeExpAsis.lt_exp t) in let ye := LargeExpAsis.lt_q t + approx_exp (LargeExpAsis.lt_exp t) in
  Y <> 0 -> emin F32 + prec F32 - 1 < blen (Z.abs Y) + ye ->
  fbig_to_float_large O W fuel P32 B m s e = Ok (to_float_spec F32 m Y ye).
Proof. exact @fbig_to_f32_large. Qed.
Print Assumptions C06_fbig_to_f32_large_route.

Theorem C06_fbig_to_float_large_route_refuted :
  fbig_to_float_large ElemAsis.no_f32 64 2000 P32 10 MUp (3 * 5 ^ 39) (-39) = Ok (FR 750780416 (Some AddOne)) /\
  ieee_round F32 MUp (3 * 5 ^ 39) (10 ^ 39) = (750780416, Eq) /\
  flag_of_error 1 Eq = None.
Proof. exact fbig_to_float_large_route_refuted. Qed.
Print Assumptions C06_fbig_to_float_large_route_refuted.

(** the literals of the code repaired in the fourth round, regenerated from float/src/convert.rs on every run *)
From Dashu Require Import Conv.ConvParams4Proof.
From DashuGen Require Import ConvParams4.
From Coq Require Import List.
Import ListNotations.

Theorem C06_source_literals_tie_r4 :
  binary_to_f32_gen = binary_to_lits P32 /\
  binary_to_f64_gen = binary_to_lits P64 /\
  (forall m me s e, round_to_subnormal m me s e =
     round_to_subnormal_lit (nth 0 round_to_subnormal_gen 0) (nth 1 round_to_subnormal_gen 0) m me s e) /\
  div_route_shape_gen = [1].
Proof. exact conv_params4_tie. Qed.
Print Assumptions C06_source_literals_tie_r4.

(** TryFrom<Relaxed> for UBig / IBig (and the primitive integers) after the repair 4757027 (canonicalise, then test the
    denominator): for EVERY stored pair, reduced or not, the conversion succeeds exactly on the integers *)
From Dashu Require Import Conv.ConvRelaxed.

Theorem C06_relaxed_to_ibig : forall N D, 0 < D -> relaxed_try_to_ibig N D = rat_to_int_spec false N D.
Proof. exact relaxed_try_to_ibig_correct. Qed.
Print Assumptions C06_relaxed_to_ibig.

Theorem C06_relaxed_to_ubig : forall N D, 0 < D -> relaxed_try_to_ubig N D = rat_to_int_spec true N D.
Proof. exact relaxed_try_to_ubig_correct. Qed.
Print Assumptions C06_relaxed_to_ubig.
