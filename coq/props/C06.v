(** C06 - conversions are lossless or refused; lossy ones are correctly rounded and say so.
    ONLY statements pinned here; proofs live in Dashu.Conv.*. *)
From Dashu Require Import Base.Prelude Float.RoundSpec Float.Contract Float.Model Conv.ConvSpec Conv.ConvModel Conv.ConvPrimProofs
  Conv.ConvArith Conv.ConvIeee Conv.ConvEncodeProofs Conv.ConvStickyProofs Conv.ConvDecodeProofs Conv.ConvRatProofs Conv.ConvFindings.
From DashuGen Require Import RoundTables.
Open Scope Z_scope.

Theorem C06_ubig_to_prim : forall w sg TW v,
  widths_ok w TW -> 0 <= v -> ubig_to_prim w sg TW v = to_prim_spec sg TW v.
Proof. exact ubig_to_prim_correct. Qed.
Print Assumptions C06_ubig_to_prim.

Theorem C06_ibig_to_prim : forall w sg TW v,
  widths_ok w TW -> ibig_to_prim w sg TW v = to_prim_spec sg TW v.
Proof. exact ibig_to_prim_correct. Qed.
Print Assumptions C06_ibig_to_prim.

Theorem C06_to_prim_only_if_exact : forall sg TW v r,
  to_prim_spec sg TW v = COk r -> r = v /\ prim_fits sg TW v = true.
Proof. exact to_prim_spec_sound. Qed.
Print Assumptions C06_to_prim_only_if_exact.

Theorem C06_prim_to_ibig : forall sg TW v,
  0 < TW -> prim_fits sg TW v = true -> prim_to_ibig sg TW v = v.
Proof. exact prim_to_ibig_correct. Qed.
Print Assumptions C06_prim_to_ibig.

Theorem C06_prim_to_ubig : forall sg TW v,
  0 < TW -> prim_fits sg TW v = true ->
  prim_to_ubig sg TW v = if v <? 0 then COutOfBounds else COk v.
Proof. exact prim_to_ubig_correct. Qed.
Print Assumptions C06_prim_to_ubig.

Theorem C06_prim_ibig_roundtrip : forall w sg TW v,
  widths_ok w TW -> prim_fits sg TW v = true ->
  ibig_to_prim w sg TW (prim_to_ibig sg TW v) = COk v.
Proof. exact prim_ibig_roundtrip. Qed.
Print Assumptions C06_prim_ibig_roundtrip.

(** FloatEncoding::encode = round to nearest even with the true error sign, all mantissas and exponents *)
Theorem C06_encode_f32 : forall m exp, - 2 ^ 31 <= m < 2 ^ 31 ->
  encode_asis P32 m exp = ieee_rne F32 (fst (frac_of m exp)) (snd (frac_of m exp)).
Proof. exact encode_f32_correct. Qed.
Print Assumptions C06_encode_f32.

Theorem C06_encode_f64 : forall m exp, - 2 ^ 63 <= m < 2 ^ 63 ->
  encode_asis P64 m exp = ieee_rne F64 (fst (frac_of m exp)) (snd (frac_of m exp)).
Proof. exact encode_f64_correct. Qed.
Print Assumptions C06_encode_f64.

(** the specification is odd in the source value (sign bit set, error sign mirrored) *)
Theorem C06_spec_sign_symmetry : forall f N D, 0 < N -> 0 < D ->
  ieee_rne f (- N) D = (fst (ieee_rne f N D) + sign_bit f, CompOpp (snd (ieee_rne f N D))).
Proof. exact ieee_rne_opp. Qed.
Print Assumptions C06_spec_sign_symmetry.

(** truncation with a sticky bit keeps the correctly rounded result (two guard bits) *)
Theorem C06_sticky_rounding : forall f v k, 0 < v -> 0 <= k -> prec f + 2 <= blen v - k -> 1 <= prec f ->
  ieee_rne f (fst (frac_of (sticky_of v k) k)) (snd (frac_of (sticky_of v k) k)) = ieee_rne f v 1.
Proof. exact ieee_rne_sticky. Qed.
Print Assumptions C06_sticky_rounding.

(** UBig::to_f32 / to_f64 on the multi-word route: every integer of at least 32 / 64 bits *)
Theorem C06_to_f32_nontrivial : forall v, 32 <= blen v -> to_float_nontrivial P32 v = ieee_rne F32 v 1.
Proof. exact to_f32_nontrivial_correct. Qed.
Print Assumptions C06_to_f32_nontrivial.

Theorem C06_to_f64_nontrivial : forall v, 64 <= blen v -> to_float_nontrivial P64 v = ieee_rne F64 v 1.
Proof. exact to_f64_nontrivial_correct. Qed.
Print Assumptions C06_to_f64_nontrivial.

Theorem C06_ubig_to_f64_large : forall DW v, 64 <= DW -> 2 ^ DW <= v -> ubig_to_float P64 DW v = ieee_rne F64 v 1.
Proof. exact ubig_to_f64_large. Qed.
Print Assumptions C06_ubig_to_f64_large.

Theorem C06_ubig_to_f32_large : forall DW v, 32 <= DW -> 2 ^ DW <= v -> ubig_to_float P32 DW v = ieee_rne F32 v 1.
Proof. exact ubig_to_f32_large. Qed.
Print Assumptions C06_ubig_to_f32_large.

(** decode, and float -> integer conversions: only integers convert, with their exact value *)
Theorem C06_decode_f32 : forall bits, 0 <= bits -> decode_asis P32 bits = decode_spec F32 bits.
Proof. exact decode_f32_correct. Qed.
Print Assumptions C06_decode_f32.

Theorem C06_decode_f64 : forall bits, 0 <= bits -> decode_asis P64 bits = decode_spec F64 bits.
Proof. exact decode_f64_correct. Qed.
Print Assumptions C06_decode_f64.

Theorem C06_float_to_int_f32 : forall uns bits, 0 <= bits ->
  float_try_to_int P32 uns bits = float_to_int_spec F32 uns bits.
Proof. exact float_try_to_int_f32. Qed.
Print Assumptions C06_float_to_int_f32.

Theorem C06_float_to_int_f64 : forall uns bits, 0 <= bits ->
  float_try_to_int P64 uns bits = float_to_int_spec F64 uns bits.
Proof. exact float_try_to_int_f64. Qed.
Print Assumptions C06_float_to_int_f64.

Theorem C06_float_to_int_only_if_exact : forall f uns bits v,
  float_to_int_spec f uns bits = COk v ->
  exists man exp, decode_spec f bits = DFin man exp /\
    v * snd (frac_of man exp) = fst (frac_of man exp) /\ (uns = true -> 0 <= v).
Proof. exact float_to_int_only_if_exact. Qed.
Print Assumptions C06_float_to_int_only_if_exact.

(** encode (decode bits) = Exact(bits) for every finite pattern but -0.0 *)
Theorem C06_encode_decode_f32 : forall bits man exp, 0 <= bits < 2 ^ 32 ->
  decode_spec F32 bits = DFin man exp -> bits <> 2 ^ 31 -> encode_asis P32 man exp = (bits, Eq).
Proof. exact encode_decode_f32. Qed.
Print Assumptions C06_encode_decode_f32.

Theorem C06_encode_decode_f64 : forall bits man exp, 0 <= bits < 2 ^ 64 ->
  decode_spec F64 bits = DFin man exp -> bits <> 2 ^ 63 -> encode_asis P64 man exp = (bits, Eq).
Proof. exact encode_decode_f64. Qed.
Print Assumptions C06_encode_decode_f64.

(** open findings: the as-is models leave the specification on the recorded witnesses *)
Theorem C06_rat_to_float_double_rounding_refuted :
  rat_to_fbig 10 2 MHalfAway 9449 1000 = AInexact 95 (-1) AddOne /\
  rat_to_fbig_spec 10 2 MHalfAway 9449 1000 = (94, -1, Lt) /\
  rat_to_fbig_twice 10 2 MHalfAway 9449 1000 = true.
Proof. exact rat_to_fbig_refuted. Qed.
Print Assumptions C06_rat_to_float_double_rounding_refuted.

Theorem C06_fbig_to_float_subnormal_refuted :
  fbig_to_float P32 2 MHalfEven 3 (-151) = Ok (FR 1 (Some NoOp)) /\
  ieee_round F32 MHalfEven 3 (2 ^ 151) = (1, Gt) /\
  flag_of_error 1 Gt = Some AddOne.
Proof. exact fbig_to_float_subnormal_refuted. Qed.
Print Assumptions C06_fbig_to_float_subnormal_refuted.

Theorem C06_fbig_to_float_subnormal_value_refuted :
  fbig_to_float P32 2 MHalfEven (2 ^ 25 + 23) (-153) = Ok (FR (2 ^ 21 + 2) (Some NoOp)) /\
  fst (ieee_round F32 MHalfEven (2 ^ 25 + 23) (2 ^ 153)) = 2 ^ 21 + 1.
Proof. exact fbig_to_float_subnormal_value_refuted. Qed.
Print Assumptions C06_fbig_to_float_subnormal_value_refuted.

Theorem C06_fbig_to_float_division_route_refuted :
  fbig_to_float P64 10 MHalfEven 4899 (-7) = Panic Undocumented /\
  ieee_round F64 MHalfEven 4899 (10 ^ 7) = (4557657753232426611, Gt).
Proof. exact fbig_to_float_division_refuted. Qed.
Print Assumptions C06_fbig_to_float_division_route_refuted.

Theorem C06_int_to_float_refuses_representable_refuted :
  int_try_to_float P32 16777218 = CLossOfPrecision /\ exact_to_float F32 16777218 1 = Some 1266679809.
Proof. exact int_try_to_float_refuted. Qed.
Print Assumptions C06_int_to_float_refuses_representable_refuted.

Theorem C06_rat_to_float_fast_two_ulps_refuted :
  rat_to_float_fast P32 (-4486) 73509287 = fst (ieee_rne F32 (-4486) 73509287) + 2.
Proof. exact rat_to_float_fast_refuted. Qed.
Print Assumptions C06_rat_to_float_fast_two_ulps_refuted.

(** RBig::to_f32/to_f64: rounding N/D two or more bits below the quotient's last bit only sees the
    quotient with a sticky bit; the main branch is then one rounding in encode (partial, see the
    comment in Conv/ConvRatProofs.v for what is not formalised) *)
Theorem C06_rational_sticky_rounding : forall num den c, 0 <= num -> 0 < den -> 2 <= c ->
  let m := Z.lor (num / den) (if num mod den =? 0 then 0 else 1) in
  spec_round MHalfEven num (den * 2 ^ c) = rne m c /\
  (spec_round MHalfEven num (den * 2 ^ c) * (den * 2 ^ c) ?= num) = (rne m c * 2 ^ c ?= m).
Proof. exact rne_rat_sticky. Qed.
Print Assumptions C06_rational_sticky_rounding.

Theorem C06_rat_to_float_main_partial : forall P a D,
  1 <= MB P -> MB P + 3 <= W P -> 2 * BIAS P + 2 = 2 ^ (W P - 1 - MB P) -> 1 <= BIAS P ->
  TOP_MAX P = BIAS P + 1 -> UNDER P = 1 - BIAS P - MB P ->
  (NORM_LIM P = 1 - BIAS P \/ NORM_LIM P = 2 - BIAS P) ->
  0 < a ->
  let m := fst (rat_quot_sticky P a D) in
  let shift := snd (rat_quot_sticky P a D) in
  blen (Z.abs m) <= W P ->
  (shift >=? TOP_MAX P - (MB P + 3 - 1)) = false ->
  (shift <? - (BIAS P - 1) - MB P - 1 - (MB P + 3 + 1)) = false ->
  rat_to_float P a D = ieee_rne (fmt_of P) (fst (frac_of m shift)) (snd (frac_of m shift)).
Proof. exact rat_to_float_main_partial. Qed.
Print Assumptions C06_rat_to_float_main_partial.
