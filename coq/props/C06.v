(** C06 - conversions are lossless or refused; lossy ones are correctly rounded and say so.
    ONLY statements pinned here; proofs live in Dashu.Conv.*. *)
From Dashu Require Import Base.Prelude Float.RoundSpec Float.Contract Float.Model Conv.ConvSpec Conv.ConvModel Conv.ConvPrimProofs.
Open Scope Z_scope.

Theorem C06_ubig_to_prim : forall w sg TW v,
  widths_ok w TW -> 0 <= v -> ubig_to_prim w sg TW v = to_prim_spec sg TW v.
Proof. exact ubig_to_prim_correct. Qed.
Print Assumptions C06_ubig_to_prim.

Theorem C06_ibig_to_prim : forall w sg TW v,
  widths_ok w TW -> ibig_to_prim w sg TW v = to_prim_spec sg TW v.
Proof. exact ibig_to_prim_correct. Qed.
Print Assumptions C06_ibig_to_prim.

Theorem C06_to_prim_only_if_exact : forall sg TW v r,
  to_prim_spec sg TW v = COk r -> r = v /\ prim_fits sg TW v = true.
Proof. exact to_prim_spec_sound. Qed.
Print Assumptions C06_to_prim_only_if_exact.

Theorem C06_prim_to_ibig : forall sg TW v,
  0 < TW -> prim_fits sg TW v = true -> prim_to_ibig sg TW v = v.
Proof. exact prim_to_ibig_correct. Qed.
Print Assumptions C06_prim_to_ibig.

Theorem C06_prim_to_ubig : forall sg TW v,
  0 < TW -> prim_fits sg TW v = true ->
  prim_to_ubig sg TW v = if v <? 0 then COutOfBounds else COk v.
Proof. exact prim_to_ubig_correct. Qed.
Print Assumptions C06_prim_to_ubig.

Theorem C06_prim_ibig_roundtrip : forall w sg TW v,
  widths_ok w TW -> prim_fits sg TW v = true ->
  ibig_to_prim w sg TW (prim_to_ibig sg TW v) = COk v.
Proof. exact prim_ibig_roundtrip. Qed.
Print Assumptions C06_prim_ibig_roundtrip.
