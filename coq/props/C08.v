(** C08 - float text I/O is lossless and base/precision changes are faithfully rounded. Statements only. *)
From Coq Require Import Reals.
From Flocq Require Import Core.Core IEEE754.Binary IEEE754.Bits.
From Dashu Require Import Base.Prelude Float.RoundSpec Float.RoundSpecProof Float.Contract Float.Model Float.ModelProof
  Int.IoSpec Float.TextIoSpec Float.TextIoModel Float.BaseConvProof Float.TextIoProof Float.SciProof Float.ParseProof Float.ParseSound Float.TextIoExamples
  Conv.ConvSpec Conv.ConvModel Float.IeeeImportModel Float.IeeeImportProof Float.LargeExpBound Float.LargeExpRoute.
From DashuGen Require Import RoundTables.
Open Scope Z_scope.

(** ** parsing: every text of the documented grammar (parse_spec = the grammar read from left to right: sign,
    optional 0x for base 2, digits with underscores, optional point and fraction, optional scale marker of
    the base and decimal scale) is parsed by Repr::from_str_native to exactly the written value, the
    precision being the number of written digits *)

Theorem C08_parse_grammar_exact : forall B s v, radix_valid B = true -> parse_spec B s = Some v -> parse_asis B s = Ok v.
Proof. exact parse_asis_complete. Qed.
Print Assumptions C08_parse_grammar_exact.

(** ... and nothing else is accepted: whatever the parser returns, the grammar accepts the text with exactly
    that value and digit count (after the repairs F02, F04) *)
Theorem C08_parse_nothing_outside_grammar : forall B s v, radix_valid B = true -> parse_asis B s = Ok v -> parse_spec B s = Some v.
Proof. exact parse_asis_sound. Qed.
Print Assumptions C08_parse_nothing_outside_grammar.

Theorem C08_parse_iff : forall B s v, radix_valid B = true -> (parse_asis B s = Ok v <-> parse_spec B s = Some v).
Proof. exact parse_asis_iff. Qed.
Print Assumptions C08_parse_iff.

(** ** print without options, then parse: the same number *)

Theorem C08_display_parse_roundtrip_spec : forall B, 2 <= B <= 36 -> forall m s e,
  (s mod B <> 0 \/ (s = 0 /\ e = 0)) -> in_isize e = true ->
  parse_spec B ((if s <? 0 then [45] else []) ++ display_body_spec B m s e None) = Some (s, e, printed_digits B s e).
Proof. exact display_parse_roundtrip_spec. Qed.
Print Assumptions C08_display_parse_roundtrip_spec.

Theorem C08_display_parse_roundtrip_asis : forall B, 2 <= B <= 36 -> forall m s e,
  (s mod B <> 0 \/ (s = 0 /\ e = 0)) -> in_isize e = true ->
  parse_asis B ((if s <? 0 then [45] else []) ++ fmt_round_body_asis B m s e None) = Ok (s, e, printed_digits B s e).
Proof. exact display_parse_roundtrip_asis. Qed.
Print Assumptions C08_display_parse_roundtrip_asis.

Theorem C08_normal_form_unique : forall B, 2 <= B -> forall a i b j, a mod B <> 0 -> b mod B <> 0 -> 0 <= i -> 0 <= j ->
  a * B ^ i = b * B ^ j -> a = b /\ i = j.
Proof. exact normal_unique. Qed.
Print Assumptions C08_normal_form_unique.

(** ** printing: Repr::fmt_round (Display) prints the specified text - integer part, point, exactly the
    requested number of fractional digits of the value rounded by spec_round *)

Theorem C08_display_asis_spec : forall B, 2 <= B -> forall m s e prec, (s = 0 -> e = 0) -> (forall p, prec = Some p -> 0 <= p) ->
  fmt_round_body_asis B m s e prec = display_body_spec B m s e prec.
Proof. exact fmt_round_body_asis_spec. Qed.
Print Assumptions C08_display_asis_spec.

(** LowerExp / UpperExp (Repr::fmt_round_scientific after the repair of finding F03): one digit, point,
    exactly the requested number of fractional digits of the significand rounded by spec_round, a carry
    into a new digit renormalised, marker and exponent of the leading digit *)
Theorem C08_sci_asis_spec : forall B, 2 <= B -> forall m upper s e prec, (s = 0 -> e = 0) -> (forall p, prec = Some p -> 0 <= p) ->
  sci_body_asis B m upper s e prec = sci_body_spec B m upper s e prec.
Proof. exact sci_body_asis_spec. Qed.
Print Assumptions C08_sci_asis_spec.

(** ** precision changes *)

Theorem C08_with_precision_asis_spec : forall B, 2 <= B -> forall p0 p m s e, 0 <= p -> (p0 = 0 \/ dlen B s <= p0) ->
  with_precision_asis B p0 p m s e = with_precision_spec B p m s e.
Proof. exact with_precision_asis_spec. Qed.
Print Assumptions C08_with_precision_asis_spec.

Theorem C08_with_precision_contract : forall B, 2 <= B -> forall p m s e, 1 <= p -> p < dlen B s ->
  let k := dlen B s - p in
  let r := spec_round m s (B ^ k) in
  (exists s' e' j, with_precision_spec B p m s e = (s', e', FInexact (adj_flag s (B ^ k) r)) /\
                  0 <= j /\ e' = e + k + j /\ r = s' * B ^ j) /\
  Z.abs (r * B ^ k - s) < B ^ k /\
  (is_half_mode m = true -> 2 * Z.abs (r * B ^ k - s) <= B ^ k) /\
  side_ok m s (B ^ k) r /\
  B ^ (p - 1) <= Z.abs r <= B ^ p.
Proof. exact with_precision_spec_contract. Qed.
Print Assumptions C08_with_precision_contract.

Theorem C08_with_precision_flag_truthful : forall B, 2 <= B -> forall p m s e, 1 <= p -> s mod B <> 0 ->
  (dlen B s <= p -> with_precision_spec B p m s e = (s, e, FExact)) /\
  (p < dlen B s -> Z.rem s (B ^ (dlen B s - p)) <> 0).
Proof. exact with_precision_spec_flag_truthful. Qed.
Print Assumptions C08_with_precision_flag_truthful.

(** ** base changes: the modelled routes of Context::convert_base *)

Theorem C08_ilog_exact : forall n b, 2 <= b -> 1 <= ilog_exact n b -> n = b ^ ilog_exact n b.
Proof. exact ilog_exact_spec. Qed.
Print Assumptions C08_ilog_exact.

Theorem C08_base_precision_rule : forall B NB p, 2 <= B -> 2 <= NB -> 0 <= p ->
  let p' := base_prec_spec B NB p in 0 <= p' /\ NB ^ p' <= B ^ p < NB ^ (p' + 1).
Proof. exact base_prec_spec_rule. Qed.
Print Assumptions C08_base_precision_rule.

Theorem C08_round_norm : forall NB, 2 <= NB -> forall p m s e, 0 <= p ->
  round_norm NB p m s e =
  (let '(s1, e1) := normalize NB s e in let '(s2, e2, f) := with_precision_spec NB p m s1 e1 in CDone s2 e2 f).
Proof. exact round_norm_spec. Qed.
Print Assumptions C08_round_norm.

Theorem C08_convert_same_base : forall NB, 2 <= NB -> forall p m s e, 0 <= p ->
  convert_base_asis NB NB p m s e =
  (let '(s1, e1) := normalize NB s e in let '(s2, e2, f) := with_precision_spec NB p m s1 e1 in CDone s2 e2 f).
Proof. exact convert_same_base. Qed.
Print Assumptions C08_convert_same_base.

Theorem C08_convert_power_up : forall NB B p m s e, 2 <= B -> 0 <= p -> B < NB -> 1 < ilog_exact NB B ->
  let n := ilog_exact NB B in
  NB = B ^ n /\ e = n * (e / n) + e mod n /\ 0 <= e mod n < n /\
  convert_base_asis B NB p m s e = round_norm NB p m (s * B ^ (e mod n)) (e / n).
Proof. exact convert_power_up. Qed.
Print Assumptions C08_convert_power_up.

Theorem C08_convert_power_down : forall NB, 2 <= NB -> forall B p m s e, 2 <= B -> 0 <= p -> NB < B -> 1 < ilog_exact B NB ->
  let n := ilog_exact B NB in
  B = NB ^ n /\ convert_base_asis B NB p m s e = round_norm NB p m s (e * n).
Proof. exact convert_power_down. Qed.
Print Assumptions C08_convert_power_down.

Theorem C08_convert_small_pos : forall NB, 2 <= NB -> forall B p m s e, NB <> B -> ilog_exact NB B <= 1 -> ilog_exact B NB <= 1 ->
  1 <= p -> 0 <= e <= threshold_small_exp ->
  convert_base_asis B NB p m s e = round_norm NB p m (s * B ^ e) 0.
Proof. exact convert_small_pos. Qed.
Print Assumptions C08_convert_small_pos.

Theorem C08_convert_unlimited_panics : forall NB B m s e, NB <> B -> ilog_exact NB B <= 1 -> ilog_exact B NB <= 1 ->
  convert_base_asis B NB 0 m s e = CPanic UnlimitedPrecision.
Proof. exact convert_unlimited_panics. Qed.
Print Assumptions C08_convert_unlimited_panics.

Theorem C08_div_long : forall NB, 2 <= NB -> forall p m s1 e1 s2 e2, 1 <= p -> 0 < s2 -> p < dlen NB (Z.quot s1 s2) ->
  let shift := dlen NB (Z.quot s1 s2) - p in
  let r := spec_round m s1 (s2 * NB ^ shift) in
  r <> 0 /\
  exists s' e' f j, div_long NB p m s1 e1 s2 e2 = CDone s' e' f /\
    0 <= j /\ e' = e1 - e2 + shift + j /\ r = s' * NB ^ j /\
    (f = FExact <-> s1 mod (s2 * NB ^ shift) = 0).
Proof. exact div_long_spec. Qed.
Print Assumptions C08_div_long.

Theorem C08_convert_small_neg : forall NB, 2 <= NB -> forall B p m s e, NB <> B -> ilog_exact NB B <= 1 -> ilog_exact B NB <= 1 ->
  2 <= B -> 1 <= p -> - threshold_small_exp <= e < 0 ->
  let '(n, ne) := normalize NB s 0 in
  let '(d, de) := normalize NB (B ^ (- e)) 0 in
  0 < d /\
  (dlen NB n <= p + dlen NB d ->
     let k := repr_div_shift NB p n d in
     0 <= k /\
     exists a, repr_div NB p m n ne d de = Ok a /\ approx_exp a = ne - de - k /\
       approx_sig a = spec_round m (n * NB ^ k) d /\
       (match a with AExact q _ => q * d = n * NB ^ k | AInexact _ _ _ => (n * NB ^ k) mod d <> 0 end) /\
       (Z.rem n d <> 0 -> NB ^ (p - 1) * d <= Z.abs n * NB ^ k < NB ^ (p + 1) * d)) /\
  (p + dlen NB d < dlen NB n -> convert_base_asis B NB p m s e = div_long NB p m n ne d de).
Proof. exact convert_small_neg. Qed.
Print Assumptions C08_convert_small_neg.

(** ** the large-exponent route (|exponent| > 38, bases not powers of one another): its STRUCTURE - work precision
    2p, a = ln B, m = exponent * a, c = ln NB, Euclidean division (q, r), E = exp r, Y = significand * E * NB^q,
    final rounding - with ln and exp as variables under an error contract (relative error at most kap = k units
    in the last place of the work precision; u = one such unit for the correctly rounded steps).  The pre-rounded
    result errs relatively by at most (1 + kap) * exp Theta - 1 with Theta <= kap * (3 ln NB + 5 |exponent| ln B) *)

Theorem C08_large_route_relative_error : forall LB LN : R, (0 < LB)%R -> (0 < LN)%R ->
  forall u kap : R, (0 <= u)%R -> (u <= kap)%R -> (kap <= 1 / 4)%R ->
  forall e q a c m r E : R,
  (Rabs (a - LB) <= kap * LB)%R -> (Rabs (c - LN) <= kap * LN)%R -> (Rabs (m - e * a) <= u * Rabs (e * a))%R ->
  (0 <= m - q * c < c)%R -> (Rabs (r - (m - q * c)) <= u * (m - q * c))%R -> (Rabs (E - exp r) <= kap * exp r)%R ->
  forall s : R,
  (Rabs (s * E * exp (q * LN) - s * exp (e * LB)) <= ((1 + kap) * exp (Theta LB LN u kap e q a c) - 1) * Rabs (s * exp (e * LB)))%R /\
  (Theta LB LN u kap e q a c <= kap * (3 * LN + 5 * Rabs e * LB))%R.
Proof. exact route_relative_error_closed. Qed.
Print Assumptions C08_large_route_relative_error.

(** for integer bases, exponent and significand, with the bound in rational numbers (ln x <= log2_up x): inside
    the domain 2 * tn <= D, 4k <= D (D = NB^(2p-1)) the answer Rf of the route satisfies
    |Rf - s * B^e| <= (NB^(1-p) * (1 + eps) + eps) * |s * B^e|, eps = en / D^2 *)
Theorem C08_convert_large_route_error : forall (rB rNB : radix) (p k e q s : Z) (a c m r E Rf : R),
  let LB := ln (IZR rB) in let LN := ln (IZR rNB) in
  let D := IZR (rNB ^ (2 * p - 1)) in let u := (/ D)%R in let kap := (IZR k * u)%R in
  let tn := IZR (k * (3 * Z.log2_up rNB + 5 * Z.abs e * Z.log2_up rB)) in
  let en := (IZR k * D + 2 * tn * D + 2 * IZR k * tn)%R in
  1 <= k -> 1 <= p -> (2 * tn <= D)%R -> (4 * IZR k <= D)%R ->
  (Rabs (a - LB) <= kap * LB)%R -> (Rabs (c - LN) <= kap * LN)%R ->
  (Rabs (m - IZR e * a) <= u * Rabs (IZR e * a))%R ->
  (0 <= m - IZR q * c < c)%R -> (Rabs (r - (m - IZR q * c)) <= u * (m - IZR q * c))%R ->
  (Rabs (E - exp r) <= kap * exp r)%R ->
  (Rabs (Rf - IZR s * E * bpow rNB q) <= bpow rNB (1 - p) * Rabs (IZR s * E * bpow rNB q))%R ->
  (Rabs (Rf - IZR s * bpow rB e) <=
   (bpow rNB (1 - p) * (1 + en / (D * D)) + en / (D * D)) * Rabs (IZR s * bpow rB e))%R.
Proof. exact convert_large_route_error. Qed.
Print Assumptions C08_convert_large_route_error.

(** the executable test the oracle uses for the answers of this route decides exactly that bound *)
Theorem C08_large_route_check_sound : forall (rNB : radix) k B p e N Dv rs re, 0 < Dv -> 1 <= p ->
  large_route_check k B rNB p e N Dv rs re = Some true ->
  let D := IZR (lr_D rNB p) in let en := IZR (lr_en k B rNB p e) in
  (Rabs (IZR rs * bpow rNB re - IZR N / IZR Dv) <=
   (bpow rNB (1 - p) * (1 + en / (D * D)) + en / (D * D)) * Rabs (IZR N / IZR Dv))%R.
Proof. exact large_route_check_sound. Qed.
Print Assumptions C08_large_route_check_sound.

(** the answers that can differ from the correctly rounded one: where the (monotone) final rounding is constant on
    an interval that contains the exact value and the pre-rounded one, the route returns the rounding of the
    exact value - so only exact values within eps * |V| of a jump of the rounding function (every representable
    value, for the directed modes) can come back one unit off *)
Theorem C08_large_route_correct_away_from_boundaries : forall (LB LN e q E s : R) (rnd : R -> R) lo hi,
  (forall x y, (x <= y)%R -> (rnd x <= rnd y)%R) -> rnd lo = rnd hi ->
  (lo <= s * exp (e * LB) <= hi)%R -> (lo <= s * E * exp (q * LN) <= hi)%R ->
  rnd (s * E * exp (q * LN))%R = rnd (s * exp (e * LB))%R.
Proof. exact route_correct_away_from_boundaries. Qed.
Print Assumptions C08_large_route_correct_away_from_boundaries.

(** ** import of IEEE floats: TryFrom<f32/f64> for Repr<2> / FBig<R,2> as written (the decoder is C06's as-is
    model of f32::decode / f64::decode, proved there) = the specification, which is exact: for every bit
    pattern that is neither an infinity nor a NaN the imported float s * 2^e is the real number the pattern
    denotes according to Flocq's definition of binary32 / binary64, and s fits the declared precision *)

Theorem C08_from_f32_asis_spec : forall bits, 0 <= bits < 2 ^ 32 -> from_ieee_asis P32 bits = from_ieee_spec 23 8 bits.
Proof. exact from_f32_asis_spec. Qed.
Print Assumptions C08_from_f32_asis_spec.

Theorem C08_from_f64_asis_spec : forall bits, 0 <= bits < 2 ^ 64 -> from_ieee_asis P64 bits = from_ieee_spec 52 11 bits.
Proof. exact from_f64_asis_spec. Qed.
Print Assumptions C08_from_f64_asis_spec.

Theorem C08_from_ieee_spec_exact : forall mw ew bits m x s e p,
  ieee_decode mw ew bits = IFinite m x -> from_ieee_spec mw ew bits = Some (s, e, p) ->
  (m = 0 -> s = 0 /\ e = 0) /\
  (m <> 0 -> s mod 2 <> 0 /\ exists k, 0 <= k /\ e = x + k /\ m = s * 2 ^ k) /\
  p = bit_len m /\ dlen 2 s <= p.
Proof. exact from_ieee_spec_exact. Qed.
Print Assumptions C08_from_ieee_spec_exact.

Theorem C08_from_f32_exact : forall bits s e p, 0 <= bits < 2 ^ 32 -> from_ieee_asis P32 bits = Some (s, e, p) ->
  B2R 24 128 (b32_of_bits bits) = (IZR s * bpow radix2 e)%R /\ dlen 2 s <= p.
Proof. exact from_f32_exact. Qed.
Print Assumptions C08_from_f32_exact.

Theorem C08_from_f64_exact : forall bits s e p, 0 <= bits < 2 ^ 64 -> from_ieee_asis P64 bits = Some (s, e, p) ->
  B2R 53 1024 (b64_of_bits bits) = (IZR s * bpow radix2 e)%R /\ dlen 2 s <= p.
Proof. exact from_f64_exact. Qed.
Print Assumptions C08_from_f64_exact.

Theorem C08_from_f32_none_iff : forall bits, 0 <= bits < 2 ^ 32 ->
  (from_ieee_asis P32 bits = None <-> is_finite 24 128 (b32_of_bits bits) = false).
Proof. exact from_f32_none_iff. Qed.
Print Assumptions C08_from_f32_none_iff.

Theorem C08_from_f64_none_iff : forall bits, 0 <= bits < 2 ^ 64 ->
  (from_ieee_asis P64 bits = None <-> is_finite 53 1024 (b64_of_bits bits) = false).
Proof. exact from_f64_none_iff. Qed.
Print Assumptions C08_from_f64_none_iff.

(** ** the defects found, as theorems about the old behaviour / the observed answers *)

Theorem C08_parse_before_fix_refuted :
  parse_unsigned_old 10 [43; 53] = Ok 5 /\ parse_unsigned 10 [43; 53] = Err E_InvalidDigit /\
  parse_spec 10 [49; 46; 43; 53] = None /\ parse_asis 10 [49; 46; 43; 53] = Err E_InvalidDigit /\
  parse_spec 2 [48; 120; 46] = None /\ parse_asis 2 [48; 120; 46] = Err E_NoDigits.
Proof. exact parse_before_fix_refuted. Qed.
Print Assumptions C08_parse_before_fix_refuted.

Theorem C08_sci_before_fix_refuted :
  sci_layout 10 false 996 (Some 1) (sci_rounded_old 10 MHalfAway 996 (-2) (Some 1)) = [49; 46; 48; 48; 101; 49] /\
  sci_body_spec 10 MHalfAway false 996 (-2) (Some 1) = [49; 46; 48; 101; 49] /\
  sci_body_asis 10 MHalfAway false 996 (-2) (Some 1) = [49; 46; 48; 101; 49].
Proof. exact sci_before_fix_refuted. Qed.
Print Assumptions C08_sci_before_fix_refuted.


Theorem C08_convert_base_before_fix_refuted :
  convert_exact_old 2 (1 * 10 ^ 30) 0 = CDone 931322574615478515625 30 FExact /\
  check_contract 2 9 MZero (float_rat 10 1 30) 931322574615478515625 30 FExact = false /\
  convert_base_asis 10 2 9 MZero 1 30 = CDone 403 91 (FInexact NoOp) /\
  check_contract 2 9 MZero (float_rat 10 1 30) 403 91 (FInexact NoOp) = true.
Proof. exact convert_base_before_fix_refuted. Qed.
Print Assumptions C08_convert_base_before_fix_refuted.

Theorem C08_convert_large_observed_refuted :
  let x := float_rat 10 (-98) 100 in
  let r := - 0xe006890c5e5aba3f48a41a6adc1267645e96cd1584772b07b52a0c3a5883fffffffffffffffffffffff in
  convert_base_asis 10 2 332 MZero (-98) 100 = CLarge /\
  check_contract 2 332 MZero x r 7 (FInexact NoOp) = false /\
  check_contract 2 332 MZero x (r - 1) 7 FExact = true.
Proof. exact convert_large_observed_refuted. Qed.
Print Assumptions C08_convert_large_observed_refuted.
