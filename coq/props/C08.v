(** C08 - float text I/O is lossless and base/precision changes are faithfully rounded. Statements only. *)
From Dashu Require Import Base.Prelude Float.RoundSpec Float.RoundSpecProof Float.Contract Float.Model Float.ModelProof
  Int.IoSpec Float.TextIoSpec Float.TextIoModel Float.BaseConvProof Float.TextIoProof.
From DashuGen Require Import RoundTables.
Open Scope Z_scope.

(** ** printing: Repr::fmt_round (Display) prints the specified text - integer part, point, exactly the
    requested number of fractional digits of the value rounded by spec_round *)

Theorem C08_display_asis_spec : forall B, 2 <= B -> forall m s e prec, (s = 0 -> e = 0) -> (forall p, prec = Some p -> 0 <= p) ->
  fmt_round_body_asis B m s e prec = display_body_spec B m s e prec.
Proof. exact fmt_round_body_asis_spec. Qed.
Print Assumptions C08_display_asis_spec.

(** ** precision changes *)

Theorem C08_with_precision_asis_spec : forall B, 2 <= B -> forall p0 p m s e, 0 <= p -> (p0 = 0 \/ dlen B s <= p0) ->
  with_precision_asis B p0 p m s e = with_precision_spec B p m s e.
Proof. exact with_precision_asis_spec. Qed.
Print Assumptions C08_with_precision_asis_spec.

Theorem C08_with_precision_contract : forall B, 2 <= B -> forall p m s e, 1 <= p -> p < dlen B s ->
  let k := dlen B s - p in
  let r := spec_round m s (B ^ k) in
  (exists s' e' j, with_precision_spec B p m s e = (s', e', FInexact (adj_flag s (B ^ k) r)) /\
                  0 <= j /\ e' = e + k + j /\ r = s' * B ^ j) /\
  Z.abs (r * B ^ k - s) < B ^ k /\
  (is_half_mode m = true -> 2 * Z.abs (r * B ^ k - s) <= B ^ k) /\
  side_ok m s (B ^ k) r /\
  B ^ (p - 1) <= Z.abs r <= B ^ p.
Proof. exact with_precision_spec_contract. Qed.
Print Assumptions C08_with_precision_contract.

Theorem C08_with_precision_flag_truthful : forall B, 2 <= B -> forall p m s e, 1 <= p -> s mod B <> 0 ->
  (dlen B s <= p -> with_precision_spec B p m s e = (s, e, FExact)) /\
  (p < dlen B s -> Z.rem s (B ^ (dlen B s - p)) <> 0).
Proof. exact with_precision_spec_flag_truthful. Qed.
Print Assumptions C08_with_precision_flag_truthful.

(** ** base changes: the modelled routes of Context::convert_base *)

Theorem C08_ilog_exact : forall n b, 2 <= b -> 1 <= ilog_exact n b -> n = b ^ ilog_exact n b.
Proof. exact ilog_exact_spec. Qed.
Print Assumptions C08_ilog_exact.

Theorem C08_base_precision_rule : forall B NB p, 2 <= B -> 2 <= NB -> 0 <= p ->
  let p' := base_prec_spec B NB p in 0 <= p' /\ NB ^ p' <= B ^ p < NB ^ (p' + 1).
Proof. exact base_prec_spec_rule. Qed.
Print Assumptions C08_base_precision_rule.

Theorem C08_round_norm : forall NB, 2 <= NB -> forall p m s e, 0 <= p ->
  round_norm NB p m s e =
  (let '(s1, e1) := normalize NB s e in let '(s2, e2, f) := with_precision_spec NB p m s1 e1 in CDone s2 e2 f).
Proof. exact round_norm_spec. Qed.
Print Assumptions C08_round_norm.

Theorem C08_convert_same_base : forall NB, 2 <= NB -> forall p m s e, 0 <= p ->
  convert_base_asis NB NB p m s e =
  (let '(s1, e1) := normalize NB s e in let '(s2, e2, f) := with_precision_spec NB p m s1 e1 in CDone s2 e2 f).
Proof. exact convert_same_base. Qed.
Print Assumptions C08_convert_same_base.

Theorem C08_convert_power_up : forall NB B p m s e, 2 <= B -> 0 <= p -> B < NB -> 1 < ilog_exact NB B ->
  let n := ilog_exact NB B in
  NB = B ^ n /\ e = n * (e / n) + e mod n /\ 0 <= e mod n < n /\
  convert_base_asis B NB p m s e = round_norm NB p m (s * B ^ (e mod n)) (e / n).
Proof. exact convert_power_up. Qed.
Print Assumptions C08_convert_power_up.

Theorem C08_convert_power_down : forall NB, 2 <= NB -> forall B p m s e, 2 <= B -> 0 <= p -> NB < B -> 1 < ilog_exact B NB ->
  let n := ilog_exact B NB in
  B = NB ^ n /\ convert_base_asis B NB p m s e = round_norm NB p m s (e * n).
Proof. exact convert_power_down. Qed.
Print Assumptions C08_convert_power_down.

Theorem C08_convert_small_pos : forall NB, 2 <= NB -> forall B p m s e, NB <> B -> ilog_exact NB B <= 1 -> ilog_exact B NB <= 1 ->
  1 <= p -> 0 <= e <= threshold_small_exp ->
  convert_base_asis B NB p m s e = round_norm NB p m (s * B ^ e) 0.
Proof. exact convert_small_pos. Qed.
Print Assumptions C08_convert_small_pos.

Theorem C08_convert_unlimited_panics : forall NB B m s e, NB <> B -> ilog_exact NB B <= 1 -> ilog_exact B NB <= 1 ->
  convert_base_asis B NB 0 m s e = CPanic UnlimitedPrecision.
Proof. exact convert_unlimited_panics. Qed.
Print Assumptions C08_convert_unlimited_panics.

Theorem C08_div_long : forall NB, 2 <= NB -> forall p m s1 e1 s2 e2, 1 <= p -> 0 < s2 -> p < dlen NB (Z.quot s1 s2) ->
  let shift := dlen NB (Z.quot s1 s2) - p in
  let r := spec_round m s1 (s2 * NB ^ shift) in
  r <> 0 /\
  exists s' e' f j, div_long NB p m s1 e1 s2 e2 = CDone s' e' f /\
    0 <= j /\ e' = e1 - e2 + shift + j /\ r = s' * NB ^ j /\
    (f = FExact <-> s1 mod (s2 * NB ^ shift) = 0).
Proof. exact div_long_spec. Qed.
Print Assumptions C08_div_long.

(** ** the defects found, as theorems about the old behaviour / the observed answers *)

Theorem C08_convert_base_before_fix_refuted :
  convert_exact_old 2 (1 * 10 ^ 30) 0 = CDone 931322574615478515625 30 FExact /\
  check_contract 2 9 MZero (float_rat 10 1 30) 931322574615478515625 30 FExact = false /\
  convert_base_asis 10 2 9 MZero 1 30 = CDone 403 91 (FInexact NoOp) /\
  check_contract 2 9 MZero (float_rat 10 1 30) 403 91 (FInexact NoOp) = true.
Proof. exact convert_base_before_fix_refuted. Qed.
Print Assumptions C08_convert_base_before_fix_refuted.

Theorem C08_convert_large_observed_refuted :
  let x := float_rat 10 (-98) 100 in
  let r := - 0xe006890c5e5aba3f48a41a6adc1267645e96cd1584772b07b52a0c3a5883fffffffffffffffffffffff in
  convert_base_asis 10 2 332 MZero (-98) 100 = CLarge /\
  check_contract 2 332 MZero x r 7 (FInexact NoOp) = false /\
  check_contract 2 332 MZero x (r - 1) 7 FExact = true.
Proof. exact convert_large_observed_refuted. Qed.
Print Assumptions C08_convert_large_observed_refuted.
