(** C08 - float text I/O is lossless and base/precision changes are faithfully rounded. Statements only. *)
From Dashu Require Import Base.Prelude Float.RoundSpec Float.RoundSpecProof Float.Contract Float.Model Float.ModelProof.
Open Scope Z_scope.

Theorem C08_repr_round_exact : forall B p m s e, dlen B s <= p -> repr_round B p m s e = AExact s e.
Proof. exact repr_round_exact. Qed.
Print Assumptions C08_repr_round_exact.
