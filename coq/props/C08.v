(** C08 - float text I/O is lossless and base/precision changes are faithfully rounded. Statements only. *)
From Coq Require Import Reals.
From Flocq Require Import Core.Core IEEE754.Binary IEEE754.Bits.
From Dashu Require Import Base.Prelude Float.RoundSpec Float.RoundSpecProof Float.Contract Float.Model Float.ModelProof
  Int.IoSpec Float.TextIoSpec Float.TextIoModel Float.BaseConvProof Float.TextIoProof Float.SciProof Float.ParseProof Float.ParseSound Float.TextIoExamples
  Conv.ConvSpec Conv.ConvModel Float.IeeeImportModel Float.IeeeImportProof Float.LargeExpBound Float.LargeExpRoute
  Float.AddModel Float.ElemF32 Float.ElemAsis Float.LargeExpAsis Float.LargeExpAsisProof
  Float.WithBasePrec Float.WithBasePrecProof Float.WithBasePrecRule Float.FmtPadProof Float.PartsConstModel Float.PartsConstProof
  Float.DebugSpec Float.DebugSpecExamples
  Float.ConvBaseModel4 Float.ConvBaseFull4 Float.ConvValueSpecProof Float.ConvBaseProof4 Float.RadixFmtModel Float.RadixFmtProof
  Float.ConvBaseGen4Proof Float.LargeExpAsis5 Float.LargeExpAsis5Proof Float.RoundSpecMono Float.ConvValueSpecMono.
From DashuGen Require Import RoundTables ConvBaseGen ConvBaseGen4 ConvBaseGen5.
Open Scope Z_scope.

(** ** parsing: every text of the documented grammar (parse_spec = the grammar read from left to right: sign,
    optional 0x for base 2, digits with underscores, optional point and fraction, optional scale marker of
    the base and decimal scale) is parsed by Repr::from_str_native to exactly the written value, the
    precision being the number of written digits *)

Theorem C08_parse_grammar_exact : forall B s v, radix_valid B = true -> parse_spec B s = Some v -> parse_asis B s = Ok v.
Proof. exact parse_asis_complete. Qed.
Print Assumptions C08_parse_grammar_exact.

(** ... and nothing else is accepted: whatever the parser returns, the grammar accepts the text with exactly
    that value and digit count (after the repairs F02, F04) *)
Theorem C08_parse_nothing_outside_grammar : forall B s v, radix_valid B = true -> parse_asis B s = Ok v -> parse_spec B s = Some v.
Proof. exact parse_asis_sound. Qed.
Print Assumptions C08_parse_nothing_outside_grammar.

Theorem C08_parse_iff : forall B s v, radix_valid B = true -> (parse_asis B s = Ok v <-> parse_spec B s = Some v).
Proof. exact parse_asis_iff. Qed.
Print Assumptions C08_parse_iff.

(** ** print without options, then parse: the same number *)

Theorem C08_display_parse_roundtrip_spec : forall B, 2 <= B <= 36 -> forall m s e,
  (s mod B <> 0 \/ (s = 0 /\ e = 0)) -> in_isize e = true ->
  parse_spec B ((if s <? 0 then [45] else []) ++ display_body_spec B m s e None) = Some (s, e, printed_digits B s e).
Proof. exact display_parse_roundtrip_spec. Qed.
Print Assumptions C08_display_parse_roundtrip_spec.

Theorem C08_display_parse_roundtrip_asis : forall B, 2 <= B <= 36 -> forall m s e,
  (s mod B <> 0 \/ (s = 0 /\ e = 0)) -> in_isize e = true ->
  parse_asis B ((if s <? 0 then [45] else []) ++ fmt_round_body_asis B m s e None) = Ok (s, e, printed_digits B s e).
Proof. exact display_parse_roundtrip_asis. Qed.
Print Assumptions C08_display_parse_roundtrip_asis.

Theorem C08_normal_form_unique : forall B, 2 <= B -> forall a i b j, a mod B <> 0 -> b mod B <> 0 -> 0 <= i -> 0 <= j ->
  a * B ^ i = b * B ^ j -> a = b /\ i = j.
Proof. exact normal_unique. Qed.
Print Assumptions C08_normal_form_unique.

(** ** printing: Repr::fmt_round (Display) prints the specified text - integer part, point, exactly the
    requested number of fractional digits of the value rounded by spec_round *)

Theorem C08_display_asis_spec : forall B, 2 <= B -> forall m s e prec, (s = 0 -> e = 0) -> (forall p, prec = Some p -> 0 <= p) ->
  fmt_round_body_asis B m s e prec = display_body_spec B m s e prec.
Proof. exact fmt_round_body_asis_spec. Qed.
Print Assumptions C08_display_asis_spec.

(** LowerExp / UpperExp (Repr::fmt_round_scientific after the repair of finding F03): one digit, point,
    exactly the requested number of fractional digits of the significand rounded by spec_round, a carry
    into a new digit renormalised, marker and exponent of the leading digit *)
Theorem C08_sci_asis_spec : forall B, 2 <= B -> forall m upper s e prec, (s = 0 -> e = 0) -> (forall p, prec = Some p -> 0 <= p) ->
  sci_body_asis B m upper s e prec = sci_body_spec B m upper s e prec.
Proof. exact sci_body_asis_spec. Qed.
Print Assumptions C08_sci_asis_spec.

(** ** precision changes *)

Theorem C08_with_precision_asis_spec : forall B, 2 <= B -> forall p0 p m s e, 0 <= p -> (p0 = 0 \/ dlen B s <= p0) ->
  with_precision_asis B p0 p m s e = with_precision_spec B p m s e.
Proof. exact with_precision_asis_spec. Qed.
Print Assumptions C08_with_precision_asis_spec.

Theorem C08_with_precision_contract : forall B, 2 <= B -> forall p m s e, 1 <= p -> p < dlen B s ->
  let k := dlen B s - p in
  let r := spec_round m s (B ^ k) in
  (exists s' e' j, with_precision_spec B p m s e = (s', e', FInexact (adj_flag s (B ^ k) r)) /\
                  0 <= j /\ e' = e + k + j /\ r = s' * B ^ j) /\
  Z.abs (r * B ^ k - s) < B ^ k /\
  (is_half_mode m = true -> 2 * Z.abs (r * B ^ k - s) <= B ^ k) /\
  side_ok m s (B ^ k) r /\
  B ^ (p - 1) <= Z.abs r <= B ^ p.
Proof. exact with_precision_spec_contract. Qed.
Print Assumptions C08_with_precision_contract.

Theorem C08_with_precision_flag_truthful : forall B, 2 <= B -> forall p m s e, 1 <= p -> s mod B <> 0 ->
  (dlen B s <= p -> with_precision_spec B p m s e = (s, e, FExact)) /\
  (p < dlen B s -> Z.rem s (B ^ (dlen B s - p)) <> 0).
Proof. exact with_precision_spec_flag_truthful. Qed.
Print Assumptions C08_with_precision_flag_truthful.

(** ** base changes: the modelled routes of Context::convert_base *)

Theorem C08_ilog_exact : forall n b, 2 <= b -> 1 <= ilog_exact n b -> n = b ^ ilog_exact n b.
Proof. exact ilog_exact_spec. Qed.
Print Assumptions C08_ilog_exact.

Theorem C08_base_precision_rule : forall B NB p, 2 <= B -> 2 <= NB -> 0 <= p ->
  let p' := base_prec_spec B NB p in 0 <= p' /\ NB ^ p' <= B ^ p < NB ^ (p' + 1).
Proof. exact base_prec_spec_rule. Qed.
Print Assumptions C08_base_precision_rule.

Theorem C08_round_norm : forall NB, 2 <= NB -> forall p m s e, 0 <= p ->
  round_norm NB p m s e =
  (let '(s1, e1) := normalize NB s e in let '(s2, e2, f) := with_precision_spec NB p m s1 e1 in CDone s2 e2 f).
Proof. exact round_norm_spec. Qed.
Print Assumptions C08_round_norm.

Theorem C08_convert_same_base : forall NB, 2 <= NB -> forall p m s e, 0 <= p ->
  convert_base_asis NB NB p m s e =
  (let '(s1, e1) := normalize NB s e in let '(s2, e2, f) := with_precision_spec NB p m s1 e1 in CDone s2 e2 f).
Proof. exact convert_same_base. Qed.
Print Assumptions C08_convert_same_base.

Theorem C08_convert_power_up : forall NB B p m s e, 2 <= B -> 0 <= p -> B < NB -> 1 < ilog_exact NB B ->
  let n := ilog_exact NB B in
  NB = B ^ n /\ e = n * (e / n) + e mod n /\ 0 <= e mod n < n /\
  convert_base_asis B NB p m s e = round_norm NB p m (s * B ^ (e mod n)) (e / n).
Proof. exact convert_power_up. Qed.
Print Assumptions C08_convert_power_up.

Theorem C08_convert_power_down : forall NB, 2 <= NB -> forall B p m s e, 2 <= B -> 0 <= p -> NB < B -> 1 < ilog_exact B NB ->
  let n := ilog_exact B NB in
  B = NB ^ n /\ convert_base_asis B NB p m s e = round_norm NB p m s (e * n).
Proof. exact convert_power_down. Qed.
Print Assumptions C08_convert_power_down.

Theorem C08_convert_small_pos : forall NB, 2 <= NB -> forall B p m s e, NB <> B -> ilog_exact NB B <= 1 -> ilog_exact B NB <= 1 ->
  1 <= p -> 0 <= e <= threshold_small_exp ->
  convert_base_asis B NB p m s e = round_norm NB p m (s * B ^ e) 0.
Proof. exact convert_small_pos. Qed.
Print Assumptions C08_convert_small_pos.

Theorem C08_convert_unlimited_panics : forall NB B m s e, NB <> B -> ilog_exact NB B <= 1 -> ilog_exact B NB <= 1 ->
  convert_base_asis B NB 0 m s e = CPanic UnlimitedPrecision.
Proof. exact convert_unlimited_panics. Qed.
Print Assumptions C08_convert_unlimited_panics.

Theorem C08_div_long : forall NB, 2 <= NB -> forall p m s1 e1 s2 e2, 1 <= p -> 0 < s2 -> p < dlen NB (Z.quot s1 s2) ->
  let shift := dlen NB (Z.quot s1 s2) - p in
  let r := spec_round m s1 (s2 * NB ^ shift) in
  r <> 0 /\
  exists s' e' f j, div_long NB p m s1 e1 s2 e2 = CDone s' e' f /\
    0 <= j /\ e' = e1 - e2 + shift + j /\ r = s' * NB ^ j /\
    (f = FExact <-> s1 mod (s2 * NB ^ shift) = 0).
Proof. exact div_long_spec. Qed.
Print Assumptions C08_div_long.

Theorem C08_convert_small_neg : forall NB, 2 <= NB -> forall B p m s e, NB <> B -> ilog_exact NB B <= 1 -> ilog_exact B NB <= 1 ->
  2 <= B -> 1 <= p -> - threshold_small_exp <= e < 0 ->
  let '(n, ne) := normalize NB s 0 in
  let '(d, de) := normalize NB (B ^ (- e)) 0 in
  0 < d /\
  (dlen NB n <= p + dlen NB d ->
     let k := repr_div_shift NB p n d in
     0 <= k /\
     exists a, repr_div NB p m n ne d de = Ok a /\ approx_exp a = ne - de - k /\
       approx_sig a = spec_round m (n * NB ^ k) d /\
       (match a with AExact q _ => q * d = n * NB ^ k | AInexact _ _ _ => (n * NB ^ k) mod d <> 0 end) /\
       (Z.rem n d <> 0 -> NB ^ (p - 1) * d <= Z.abs n * NB ^ k < NB ^ (p + 1) * d)) /\
  (p + dlen NB d < dlen NB n -> convert_base_asis B NB p m s e = div_long NB p m n ne d de).
Proof. exact convert_small_neg. Qed.
Print Assumptions C08_convert_small_neg.

(** ** the large-exponent route (|exponent| > 38, bases not powers of one another): its STRUCTURE - work precision
    2p, a = ln B, m = exponent * a, c = ln NB, Euclidean division (q, r), E = exp r, Y = significand * E * NB^q,
    final rounding - with ln and exp as variables under an error contract (relative error at most kap = k units
    in the last place of the work precision; u = one such unit for the correctly rounded steps).  The pre-rounded
    result errs relatively by at most (1 + kap) * exp Theta - 1 with Theta <= kap * (3 ln NB + 5 |exponent| ln B) *)

Theorem C08_large_route_relative_error : forall LB LN : R, (0 < LB)%R -> (0 < LN)%R ->
  forall u kap : R, (0 <= u)%R -> (u <= kap)%R -> (kap <= 1 / 4)%R ->
  forall e q a c m r E : R,
  (Rabs (a - LB) <= kap * LB)%R -> (Rabs (c - LN) <= kap * LN)%R -> (Rabs (m - e * a) <= u * Rabs (e * a))%R ->
  (0 <= m - q * c < c)%R -> (Rabs (r - (m - q * c)) <= u * (m - q * c))%R -> (Rabs (E - exp r) <= kap * exp r)%R ->
  forall s : R,
  (Rabs (s * E * exp (q * LN) - s * exp (e * LB)) <= ((1 + kap) * exp (Theta LB LN u kap e q a c) - 1) * Rabs (s * exp (e * LB)))%R /\
  (Theta LB LN u kap e q a c <= kap * (3 * LN + 5 * Rabs e * LB))%R.
Proof. exact route_relative_error_closed. Qed.
Print Assumptions C08_large_route_relative_error.

(** for integer bases, exponent and significand, with the bound in rational numbers (ln x <= log2_up x): inside
    the domain 2 * tn <= D, 4k <= D (D = NB^(2p-1)) the answer Rf of the route satisfies
    |Rf - s * B^e| <= (NB^(1-p) * (1 + eps) + eps) * |s * B^e|, eps = en / D^2 *)
Theorem C08_convert_large_route_error : forall (rB rNB : radix) (p k e q s : Z) (a c m r E Rf : R),
  let LB := ln (IZR rB) in let LN := ln (IZR rNB) in
  let D := IZR (rNB ^ (2 * p - 1)) in let u := (/ D)%R in let kap := (IZR k * u)%R in
  let tn := IZR (k * (3 * Z.log2_up rNB + 5 * Z.abs e * Z.log2_up rB)) in
  let en := (IZR k * D + 2 * tn * D + 2 * IZR k * tn)%R in
  1 <= k -> 1 <= p -> (2 * tn <= D)%R -> (4 * IZR k <= D)%R ->
  (Rabs (a - LB) <= kap * LB)%R -> (Rabs (c - LN) <= kap * LN)%R ->
  (Rabs (m - IZR e * a) <= u * Rabs (IZR e * a))%R ->
  (0 <= m - IZR q * c < c)%R -> (Rabs (r - (m - IZR q * c)) <= u * (m - IZR q * c))%R ->
  (Rabs (E - exp r) <= kap * exp r)%R ->
  (Rabs (Rf - IZR s * E * bpow rNB q) <= bpow rNB (1 - p) * Rabs (IZR s * E * bpow rNB q))%R ->
  (Rabs (Rf - IZR s * bpow rB e) <=
   (bpow rNB (1 - p) * (1 + en / (D * D)) + en / (D * D)) * Rabs (IZR s * bpow rB e))%R.
Proof. exact convert_large_route_error. Qed.
Print Assumptions C08_convert_large_route_error.

(** the executable test the oracle uses for the answers of this route decides exactly that bound *)
Theorem C08_large_route_check_sound : forall (rNB : radix) k B p e N Dv rs re, 0 < Dv -> 1 <= p ->
  large_route_check k B rNB p e N Dv rs re = Some true ->
  let D := IZR (lr_D rNB p) in let en := IZR (lr_en k B rNB p e) in
  (Rabs (IZR rs * bpow rNB re - IZR N / IZR Dv) <=
   (bpow rNB (1 - p) * (1 + en / (D * D)) + en / (D * D)) * Rabs (IZR N / IZR Dv))%R.
Proof. exact large_route_check_sound. Qed.
Print Assumptions C08_large_route_check_sound.

(** the answers that can differ from the correctly rounded one: where the (monotone) final rounding is constant on
    an interval that contains the exact value and the pre-rounded one, the route returns the rounding of the
    exact value - so only exact values within eps * |V| of a jump of the rounding function (every representable
    value, for the directed modes) can come back one unit off *)
Theorem C08_large_route_correct_away_from_boundaries : forall (LB LN e q E s : R) (rnd : R -> R) lo hi,
  (forall x y, (x <= y)%R -> (rnd x <= rnd y)%R) -> rnd lo = rnd hi ->
  (lo <= s * exp (e * LB) <= hi)%R -> (lo <= s * E * exp (q * LN) <= hi)%R ->
  rnd (s * E * exp (q * LN))%R = rnd (s * exp (e * LB))%R.
Proof. exact route_correct_away_from_boundaries. Qed.
Print Assumptions C08_large_route_correct_away_from_boundaries.

(** ** round 3: the ln/exp route AS IT IS (Float/LargeExpAsis.v: the code of the route transcribed on top of the C11
    as-is models of Context::ln / ln_base / exp, FBig multiplication and div_rem_euclid; the correspondence run
    compares it with the implementation bit for bit) and the fragments of float/src/convert.rs regenerated on
    every run (DashuGen.ConvBaseGen) *)

Theorem C08_gen_threshold_small_exp : threshold_small_exp_gen = threshold_small_exp.
Proof. exact gen_threshold_small_exp. Qed.
Print Assumptions C08_gen_threshold_small_exp.

(** the work precision of the route since the repair F07: twice the target precision plus the digits (base NB) of
    exponent * bit_len(B) - these cover the integer part of exponent * ln B, which the Euclidean division cancels -
    and since the repair F11 (round 4) plus the digits of 2^20: guard digits for the constant factors of the error *)
Theorem C08_gen_large_work_precision : forall p e B NB, 2 <= NB -> 2 <= B -> 1 <= p -> e <> 0 ->
  let wp := large_work_precision_gen p e B NB in
  wp = 2 * p + dlen NB (e * ElemF32.bit_len B) + dlen NB 1048576 /\ 2 * p < wp /\
  NB ^ (2 * p - 1) * (Z.abs e * ElemF32.bit_len B) < NB ^ (wp - 1).
Proof. exact gen_large_work_precision_full. Qed.
Print Assumptions C08_gen_large_work_precision.

Theorem C08_gen_with_base_precision_formula : forall (F : Type) (O : f32ops F) W B NB p,
  with_base_prec_gen O W B NB p =
  f_to_usize O (f_div O (fst (ubig_log2_bounds O W (B ^ p))) (snd (uint_log2_bounds O NB))).
Proof. exact @gen_with_base_prec. Qed.
Print Assumptions C08_gen_with_base_precision_formula.

Theorem C08_gen_from_float_precision : forall man, from_float_prec_gen man = ElemF32.bit_len man.
Proof. exact gen_from_float_prec. Qed.
Print Assumptions C08_gen_from_float_precision.

Theorem C08_from_ieee_asis_precision_gen : forall P bits,
  from_ieee_asis P bits =
  match decode_asis P bits with
  | DFin man exp => let '(s', e') := normalize 2 man exp in Some (s', e', from_float_prec_gen man)
  | _ => None
  end.
Proof. exact from_ieee_asis_prec_gen. Qed.
Print Assumptions C08_from_ieee_asis_precision_gen.

(** which inputs take the route; every other input is decided by the model of the theorems above *)
Theorem C08_convert_large_route_inputs : forall B NB p m s e,
  convert_base_asis B NB p m s e = CLarge -> NB <> B /\ p <> 0 /\ threshold_small_exp_gen < Z.abs e.
Proof. exact convert_base_large_iff. Qed.
Print Assumptions C08_convert_large_route_inputs.

Theorem C08_convert_full_asis_other_routes : forall (F : Type) (O : f32ops F) W fuel B NB p m s e,
  convert_base_asis B NB p m s e <> CLarge ->
  convert_base_full_asis O W fuel B NB p m s e = convert_base_asis B NB p m s e.
Proof. exact @convert_base_full_asis_modelled. Qed.
Print Assumptions C08_convert_full_asis_other_routes.

(** the answer of the route is ONE specification rounding (round_norm, C08_round_norm) of
    significand * sig(exp_rem) * NB^(quotient + exponent(exp_rem)) *)
Theorem C08_convert_large_asis_round : forall (F : Type) (O : f32ops F) W fuel B NB p m s e t,
  convert_base_asis B NB p m s e = CLarge ->
  large_trace_asis O W fuel B NB p m e = Ok t ->
  convert_base_full_asis O W fuel B NB p m s e =
  round_norm NB p m (s * approx_sig (lt_exp t)) (lt_q t + approx_exp (lt_exp t)).
Proof. exact @convert_large_asis_round. Qed.
Print Assumptions C08_convert_large_asis_round.

Theorem C08_convert_large_trace_shape : forall (F : Type) (O : f32ops F) W fuel B NB p m e t,
  large_trace_asis O W fuel B NB p m e = Ok t ->
  let wp := large_work_precision_gen p e B NB in
  (exists a, ln_internal NB O W fuel wp m (fst (normalize NB B 0)) (snd (normalize NB B 0)) false = Ok a /\
             lt_lnB t = FB (approx_sig a) (approx_exp a) wp) /\
  lt_newexp t = prim_mul NB m e (lt_lnB t) /\
  ln_base NB O W fuel wp m = Ok (lt_lnNB t) /\
  fb_div_rem_euclid NB m (lt_newexp t) (lt_lnNB t) = Ok (lt_q t, lt_rem t) /\
  - isize_max - 1 <= lt_q t <= isize_max /\
  exp_internal NB O W fuel (fprec (lt_rem t)) m (fsig (lt_rem t)) (fexp (lt_rem t)) false = Ok (lt_exp t).
Proof. exact @large_trace_shape. Qed.
Print Assumptions C08_convert_large_trace_shape.

(** the Euclidean step of the route is exact (the hypothesis 0 <= m - q c < c of the accuracy theorems) and its
    remainder is one convert_int rounding *)
Theorem C08_div_rem_euclid_exact : forall NB m x y q r, 2 <= NB -> 0 < fsig y ->
  fb_div_rem_euclid NB m x y = Ok (q, r) ->
  let ex := Z.min (fexp x) (fexp y) in
  let X := fsig x * NB ^ (fexp x - ex) in
  let Y := fsig y * NB ^ (fexp y - ex) in
  0 < Y /\ 0 <= X - q * Y < Y /\
  r = (let rf := convert_int NB (ctx_max (fprec x) (fprec y)) m (X - q * Y) in
       if fsig rf =? 0 then rf else FB (fsig rf) (fexp rf + ex) (fprec rf)).
Proof. exact fb_div_rem_euclid_exact. Qed.
Print Assumptions C08_div_rem_euclid_exact.

(** accuracy for an arbitrary work precision wp (D = NB^(wp-1)) ... *)
Theorem C08_convert_large_route_error_wp : forall (rB rNB : radix) (p wp k e q s : Z) (a c m r E Rf : R),
  let LB := ln (IZR rB) in let LN := ln (IZR rNB) in
  let D := IZR (rNB ^ (wp - 1)) in let u := (/ D)%R in let kap := (IZR k * u)%R in
  let tn := IZR (k * (3 * Z.log2_up rNB + 5 * Z.abs e * Z.log2_up rB)) in
  let en := (IZR k * D + 2 * tn * D + 2 * IZR k * tn)%R in
  1 <= k -> 1 <= wp -> (2 * tn <= D)%R -> (4 * IZR k <= D)%R ->
  (Rabs (a - LB) <= kap * LB)%R -> (Rabs (c - LN) <= kap * LN)%R ->
  (Rabs (m - IZR e * a) <= u * Rabs (IZR e * a))%R ->
  (0 <= m - IZR q * c < c)%R -> (Rabs (r - (m - IZR q * c)) <= u * (m - IZR q * c))%R ->
  (Rabs (E - exp r) <= kap * exp r)%R ->
  (Rabs (Rf - IZR s * E * bpow rNB q) <= bpow rNB (1 - p) * Rabs (IZR s * E * bpow rNB q))%R ->
  (Rabs (Rf - IZR s * bpow rB e) <=
   (bpow rNB (1 - p) * (1 + en / (D * D)) + en / (D * D)) * Rabs (IZR s * bpow rB e))%R.
Proof. exact convert_large_route_error_wp. Qed.
Print Assumptions C08_convert_large_route_error_wp.

(** ... and for the work precision of the code: whenever 16 k log2up(NB) <= NB^(2p-1) the bound holds for EVERY
    exponent, with eps <= 18 k log2up(NB) NB^(1-2p) (before the repair: only while |exponent| is small against
    NB^(2p-1), nothing otherwise) *)
Theorem C08_convert_large_route_error_fixed : forall (rB rNB : radix) (p k e q s : Z) (a c m r E Rf : R),
  let wp := large_work_precision_gen p e rB rNB in
  let LB := ln (IZR rB) in let LN := ln (IZR rNB) in
  let D := IZR (rNB ^ (wp - 1)) in let u := (/ D)%R in let kap := (IZR k * u)%R in
  let tn := IZR (lr_tn k rB rNB e) in
  let en := (IZR k * D + 2 * tn * D + 2 * IZR k * tn)%R in
  1 <= k -> 1 <= p -> e <> 0 -> 16 * k * Z.log2_up rNB <= rNB ^ (2 * p - 1) ->
  (Rabs (a - LB) <= kap * LB)%R -> (Rabs (c - LN) <= kap * LN)%R ->
  (Rabs (m - IZR e * a) <= u * Rabs (IZR e * a))%R ->
  (0 <= m - IZR q * c < c)%R -> (Rabs (r - (m - IZR q * c)) <= u * (m - IZR q * c))%R ->
  (Rabs (E - exp r) <= kap * exp r)%R ->
  (Rabs (Rf - IZR s * E * bpow rNB q) <= bpow rNB (1 - p) * Rabs (IZR s * E * bpow rNB q))%R ->
  (Rabs (Rf - IZR s * bpow rB e) <=
     (bpow rNB (1 - p) * (1 + en / (D * D)) + en / (D * D)) * Rabs (IZR s * bpow rB e))%R /\
  (en / (D * D) <= IZR (18 * k * Z.log2_up rNB) * bpow rNB (1 - 2 * p))%R.
Proof. exact convert_large_route_error_fixed. Qed.
Print Assumptions C08_convert_large_route_error_fixed.

(** since the repair F11 no condition on the target precision is left: NB^g > 2^20 (g = digits of 2^20), so for EVERY p >= 1,
    every exponent, every base below 2^64 and k <= 1024: eps <= 18 k log2up(NB) NB^(1-2p) / 2^20 *)
Theorem C08_gen_large_work_precision_guard : forall p e B NB, 2 <= NB -> 2 <= B -> 1 <= p -> e <> 0 ->
  let wp := large_work_precision_gen p e B NB in
  let g := dlen NB 1048576 in
  1 <= g /\ 1048576 < NB ^ g /\ 2 * p + g < wp /\ NB ^ (2 * p - 1 + g) * (Z.abs e * ElemF32.bit_len B) < NB ^ (wp - 1).
Proof. exact gen_large_work_precision_guard. Qed.
Print Assumptions C08_gen_large_work_precision_guard.

Theorem C08_convert_large_route_error_guarded : forall (rB rNB : radix) (p k e q s : Z) (a c m r E Rf : R),
  let wp := large_work_precision_gen p e rB rNB in
  let LB := ln (IZR rB) in let LN := ln (IZR rNB) in
  let D := IZR (rNB ^ (wp - 1)) in let u := (/ D)%R in let kap := (IZR k * u)%R in
  let tn := IZR (lr_tn k rB rNB e) in
  let en := (IZR k * D + 2 * tn * D + 2 * IZR k * tn)%R in
  1 <= k <= 1024 -> 1 <= p -> e <> 0 -> rNB < 2 ^ 64 ->
  (Rabs (a - LB) <= kap * LB)%R -> (Rabs (c - LN) <= kap * LN)%R ->
  (Rabs (m - IZR e * a) <= u * Rabs (IZR e * a))%R ->
  (0 <= m - IZR q * c < c)%R -> (Rabs (r - (m - IZR q * c)) <= u * (m - IZR q * c))%R ->
  (Rabs (E - exp r) <= kap * exp r)%R ->
  (Rabs (Rf - IZR s * E * bpow rNB q) <= bpow rNB (1 - p) * Rabs (IZR s * E * bpow rNB q))%R ->
  (Rabs (Rf - IZR s * bpow rB e) <=
     (bpow rNB (1 - p) * (1 + en / (D * D)) + en / (D * D)) * Rabs (IZR s * bpow rB e))%R /\
  (en / (D * D) <= IZR (18 * k * Z.log2_up rNB) * bpow rNB (1 - 2 * p) / 1048576)%R.
Proof. exact convert_large_route_error_guarded. Qed.
Print Assumptions C08_convert_large_route_error_guarded.

Theorem C08_large_route_check_wp_sound : forall (rNB : radix) k B p wp e N Dv rs re, 0 < Dv -> 1 <= p -> 1 <= wp ->
  large_route_check_wp k B rNB p wp e N Dv rs re = Some true ->
  let D := IZR (lr_Dw rNB wp) in let en := IZR (lr_enw k B rNB wp e) in
  (Rabs (IZR rs * bpow rNB re - IZR N / IZR Dv) <=
   (bpow rNB (1 - p) * (1 + en / (D * D)) + en / (D * D)) * Rabs (IZR N / IZR Dv))%R.
Proof. exact large_route_check_wp_sound. Qed.
Print Assumptions C08_large_route_check_wp_sound.

(** the witness of the repaired defect F07 (9e-39 to 3 bits: work precision 6 before, 14 after F07, 35 with the guard digits of F11) *)
Theorem C08_large_work_precision_before_fix_refuted :
  large_work_precision_gen 3 (-39) 10 2 = 35 /\
  large_route_check 4 10 2 3 (-39) 9 (10 ^ 39) 3 (-123) = None /\
  large_route_check_wp 4 10 2 3 14 (-39) 9 (10 ^ 39) 3 (-123) = Some false /\
  large_route_check_wp 4 10 2 3 14 (-39) 9 (10 ^ 39) 3 (-128) = Some true.
Proof. exact large_work_precision_ex. Qed.
Print Assumptions C08_large_work_precision_before_fix_refuted.

(** ** round 3: the WHOLE printed text (sign, body, padding) of Display and of LowerExp / UpperExp as modelled (the
    width the code computes from the parts it prints, the split of the padding by zero flag and alignment) equals
    the specified text: pad_spec (the convention of core::fmt for numbers: the zero flag pads with zeros after the
    sign and overrides fill and alignment, otherwise fill characters by alignment, right by default) around the
    specified body - for every width, fill, alignment, sign flag and precision.  True since the repair F08. *)

Theorem C08_display_full_text_asis_spec : forall B, 2 <= B -> forall m f s e prec,
  (s = 0 -> e = 0) -> (forall p, prec = Some p -> 0 <= p) ->
  fmt_round_asis B m f s e prec = display_spec B m f s e prec.
Proof. exact display_full_text_asis_spec. Qed.
Print Assumptions C08_display_full_text_asis_spec.

Theorem C08_sci_full_text_asis_spec : forall B, 2 <= B -> forall m upper f s e prec,
  (s = 0 -> e = 0) -> (forall p, prec = Some p -> 0 <= p) ->
  sci_asis B m upper f s e prec = sci_spec B m upper f s e prec.
Proof. exact sci_full_text_asis_spec. Qed.
Print Assumptions C08_sci_full_text_asis_spec.

(** ** round 3: FBig::from_parts_const (what the literal macros fbig! / dbig! expand to for short significands; longer ones
    expand to Repr::new + Context::new(digits counted by the parser) + from_repr): the digit counting loop returns the
    number of digits for EVERY DoubleWord significand, also when the next power of the base overflows (repair F09),
    and the non-power-of-two branch as a whole is the specification (normalised value, precision = max (digits, min)) *)

Theorem C08_from_parts_const_digits : forall B, 2 <= B -> forall W s, 1 <= W -> 0 < s < 2 ^ (2 * W) ->
  digits_loop (Z.to_nat (2 * W + 1)) (2 ^ (2 * W)) B s 1 1 = dlen B s.
Proof. exact digits_loop_correct. Qed.
Print Assumptions C08_from_parts_const_digits.

Theorem C08_from_parts_const_asis_spec : forall W B neg sig e minp, 1 <= W -> 2 <= B -> is_pow2 B = false ->
  0 < sig < 2 ^ (2 * W) -> (forall p, minp = Some p -> 0 <= p) ->
  from_parts_const_asis W B neg sig e minp = from_parts_const_spec B neg sig e minp.
Proof. exact from_parts_const_asis_spec. Qed.
Print Assumptions C08_from_parts_const_asis_spec.

Theorem C08_from_parts_const_before_fix_refuted :
  digits_loop_old (Z.to_nat 129) (2 ^ 128) 10 (10 ^ 38) 1 0 = 38 /\
  digits_loop (Z.to_nat 129) (2 ^ 128) 10 (10 ^ 38) 1 1 = 39 /\ dlen 10 (10 ^ 38) = 39.
Proof. exact from_parts_const_before_fix_refuted. Qed.
Print Assumptions C08_from_parts_const_before_fix_refuted.

(** FromStr for FBig is FBig::from_str_native (no difference; regenerated tie fbig_parse_precision_gen): the text is
    accepted iff the documented grammar accepts it, with the written value and the number of written digits *)
Theorem C08_fbig_from_str_iff : forall B text v, radix_valid B = true ->
  (fbig_from_str_asis B text = Ok v <-> parse_spec B text = Some v).
Proof. exact fbig_from_str_iff. Qed.
Print Assumptions C08_fbig_from_str_iff.

(** the specified Debug texts (Float/DebugSpec.v; compared with the implementation as whole texts) on two floats:
    "-1234 * 10 ^ -2 (prec: 5)" and the pretty form "Repr {\n    significand: 5 (3 bits),\n    exponent: 2 ^ 7,\n}" *)
Theorem C08_debug_spec_examples :
  fbig_debug_spec 19 (2 ^ 128) 10 (-1234) (-2) 5 =
    [45; 49; 50; 51; 52; 32; 42; 32; 49; 48; 32; 94; 32; 45; 50; 32; 40; 112; 114; 101; 99; 58; 32; 53; 41] /\
  repr_debug_alt_spec 19 (2 ^ 128) 2 5 7 =
    [82; 101; 112; 114; 32; 123; 10;
     32; 32; 32; 32; 115; 105; 103; 110; 105; 102; 105; 99; 97; 110; 100; 58; 32; 53; 32; 40; 51; 32; 98; 105; 116; 115; 41; 44; 10;
     32; 32; 32; 32; 101; 120; 112; 111; 110; 101; 110; 116; 58; 32; 50; 32; 94; 32; 55; 44; 10; 125].
Proof. exact debug_spec_examples. Qed.
Print Assumptions C08_debug_spec_examples.

(** ** round 3: the precision FBig::with_base chooses, (B^p).log2_bounds().0 / NewB.log2_bounds().1 as usize, as it is:
    the two f32 bounds as dyadic numbers lb = m1 * 2^e1, ub = m2 * 2^e2 (brought to a common scale: lb / ub = L / U),
    the IEEE division to nearest even (f32_div_rne) and the truncation (dy_floor).  Under the contract of log2_bounds
    (2^lb <= B^p, NB <= 2^ub; C12) the chosen precision p' is floor (lb / ub), or one more exactly when the division
    rounded a non-integer quotient up to an integer; NB^p' <= B^p in the first case, NB^(p'-1) <= B^p always; and p' is
    at least every n with n * ub <= lb: it is the maximal precision pmax of the documented rule iff pmax * ub <= lb *)

Theorem C08_f32_div_keeps_integers : forall m1 e1 m2 e2 n, 0 < m1 -> 0 < m2 -> 0 <= n ->
  let '(qm, qe) := f32_div_rne m1 e1 m2 e2 in
  qe <= 0 ->
  (le2 (n * m2) m1 (e1 - e2) -> n * 2 ^ (- qe) <= qm) /\ (ge2 (n * m2) m1 (e1 - e2) -> qm <= n * 2 ^ (- qe)).
Proof. exact f32_div_rne_keeps_integers. Qed.
Print Assumptions C08_f32_div_keeps_integers.

Theorem C08_with_base_precision_closed : forall B NB p, 2 <= B -> 2 <= NB -> 0 <= p ->
  forall m1 e1 m2 e2, 0 < m1 -> 0 < m2 ->
  2 ^ wb_L m1 e1 e2 <= (B ^ p) ^ (2 ^ wb_scale e1 e2) ->
  NB ^ (2 ^ wb_scale e1 e2) <= 2 ^ wb_U e1 m2 e2 ->
  forall qm qe, f32_div_rne m1 e1 m2 e2 = (qm, qe) -> qe <= 0 -> wb_L m1 e1 e2 / wb_U e1 m2 e2 + 1 < 2 ^ 24 ->
  let p' := dy_floor qm qe in
  let x := wb_L m1 e1 e2 / wb_U e1 m2 e2 in
  (p' = x \/ (p' = x + 1 /\ qm = p' * 2 ^ (- qe) /\ wb_L m1 e1 e2 mod wb_U e1 m2 e2 <> 0)) /\
  (p' = x -> NB ^ p' <= B ^ p) /\
  (1 <= p' -> NB ^ (p' - 1) <= B ^ p) /\
  (forall n, 0 <= n < 2 ^ 24 -> n * wb_U e1 m2 e2 <= wb_L m1 e1 e2 -> n <= p').
Proof. exact with_base_prec_closed. Qed.
Print Assumptions C08_with_base_precision_closed.

(** ** import of IEEE floats: TryFrom<f32/f64> for Repr<2> / FBig<R,2> as written (the decoder is C06's as-is
    model of f32::decode / f64::decode, proved there) = the specification, which is exact: for every bit
    pattern that is neither an infinity nor a NaN the imported float s * 2^e is the real number the pattern
    denotes according to Flocq's definition of binary32 / binary64, and s fits the declared precision *)

Theorem C08_from_f32_asis_spec : forall bits, 0 <= bits < 2 ^ 32 -> from_ieee_asis P32 bits = from_ieee_spec 23 8 bits.
Proof. exact from_f32_asis_spec. Qed.
Print Assumptions C08_from_f32_asis_spec.

Theorem C08_from_f64_asis_spec : forall bits, 0 <= bits < 2 ^ 64 -> from_ieee_asis P64 bits = from_ieee_spec 52 11 bits.
Proof. exact from_f64_asis_spec. Qed.
Print Assumptions C08_from_f64_asis_spec.

Theorem C08_from_ieee_spec_exact : forall mw ew bits m x s e p,
  ieee_decode mw ew bits = IFinite m x -> from_ieee_spec mw ew bits = Some (s, e, p) ->
  (m = 0 -> s = 0 /\ e = 0) /\
  (m <> 0 -> s mod 2 <> 0 /\ exists k, 0 <= k /\ e = x + k /\ m = s * 2 ^ k) /\
  p = bit_len m /\ dlen 2 s <= p.
Proof. exact from_ieee_spec_exact. Qed.
Print Assumptions C08_from_ieee_spec_exact.

Theorem C08_from_f32_exact : forall bits s e p, 0 <= bits < 2 ^ 32 -> from_ieee_asis P32 bits = Some (s, e, p) ->
  B2R 24 128 (b32_of_bits bits) = (IZR s * bpow radix2 e)%R /\ dlen 2 s <= p.
Proof. exact from_f32_exact. Qed.
Print Assumptions C08_from_f32_exact.

Theorem C08_from_f64_exact : forall bits s e p, 0 <= bits < 2 ^ 64 -> from_ieee_asis P64 bits = Some (s, e, p) ->
  B2R 53 1024 (b64_of_bits bits) = (IZR s * bpow radix2 e)%R /\ dlen 2 s <= p.
Proof. exact from_f64_exact. Qed.
Print Assumptions C08_from_f64_exact.

Theorem C08_from_f32_none_iff : forall bits, 0 <= bits < 2 ^ 32 ->
  (from_ieee_asis P32 bits = None <-> is_finite 24 128 (b32_of_bits bits) = false).
Proof. exact from_f32_none_iff. Qed.
Print Assumptions C08_from_f32_none_iff.

Theorem C08_from_f64_none_iff : forall bits, 0 <= bits < 2 ^ 64 ->
  (from_ieee_asis P64 bits = None <-> is_finite 53 1024 (b64_of_bits bits) = false).
Proof. exact from_f64_none_iff. Qed.
Print Assumptions C08_from_f64_none_iff.

(** ** round 4: convert_base AS IT IS after the repairs 344196e (padded exact division, one rounding) and F10 (exact path
    through a common root) = ONE specification of a base change, on every route without logarithm *)

(** utils.rs common_root (Euclid on the exponents; fuel 128): ends on Word operands, sound, complete *)
Theorem C08_common_root_total : forall x y, x < 2 ^ 64 -> y < 2 ^ 64 -> common_root x y <> OutOfFuel.
Proof. exact common_root_total. Qed.
Print Assumptions C08_common_root_total.

Theorem C08_common_root_sound : forall x y r a b, x < 2 ^ 64 -> y < 2 ^ 64 -> common_root x y = Ok (Some (r, a, b)) ->
  2 <= r /\ 1 <= a /\ 1 <= b /\ x = r ^ a /\ y = r ^ b.
Proof. exact common_root_sound. Qed.
Print Assumptions C08_common_root_sound.

Theorem C08_common_root_complete : forall r i j, 2 <= r -> 1 <= i -> 1 <= j -> r ^ i < 2 ^ 64 -> r ^ j < 2 ^ 64 ->
  exists g a b, common_root (r ^ i) (r ^ j) = Ok (Some (g, a, b)).
Proof. exact common_root_complete. Qed.
Print Assumptions C08_common_root_complete.

(** the specification is a function of the exact value N/D, not of the fraction that denotes it *)
Theorem C08_convert_value_spec_ratio : forall B, 2 <= B -> forall p m N D N' D', 0 < D -> 0 < D' -> N * D' = N' * D ->
  convert_value_spec B p m N D = convert_value_spec B p m N' D'.
Proof. exact convert_value_spec_ratio. Qed.
Print Assumptions C08_convert_value_spec_ratio.

(** rounding ANY representation S * NB^E of the value N/D (normalise, Context::repr_round) is the specification of N/D *)
Theorem C08_round_norm_value_spec : forall B, 2 <= B -> forall p m S E N D, 1 <= p -> S <> 0 -> 0 < D ->
  fst (value_frac B S E) * D = N * snd (value_frac B S E) ->
  round_norm B p m S E = (let '(s', e', f) := convert_value_spec B p m N D in CDone s' e' f).
Proof. exact round_norm_value_spec. Qed.
Print Assumptions C08_round_norm_value_spec.

(** the division route after the repair 344196e: padded exact division, ONE rounding = the specification of the quotient
    (in particular the result fits the precision: no p+1-digit significands any more) *)
Theorem C08_div_round_once_value_spec : forall NB, 2 <= NB -> forall p m n ne d de, 1 <= p -> n <> 0 -> 0 < d -> 0 <= ne -> 0 <= de ->
  conv_of_approx NB (div_round_once NB p m n ne d de) =
  (let '(s', e', f) := convert_value_spec NB p m (n * NB ^ ne) (d * NB ^ de) in CDone s' e' f).
Proof. exact div_round_once_value_spec. Qed.
Print Assumptions C08_div_round_once_value_spec.

(** EVERY route: the answer is the specification of s * B^e; a panic only when the exponent of the exact common-root
    path leaves isize; the ln/exp route only for |e| > 38 between bases without a common root *)
Theorem C08_convert_base4_spec : forall NB, 2 <= NB -> forall B p m s e, 2 <= B < 2 ^ 64 -> NB < 2 ^ 64 -> 1 <= p -> s <> 0 ->
  match convert_base_asis4 B NB p m s e with
  | CDone s' e' f => (s', e', f) = convert_base_spec B NB p m s e
  | CPanic _ => exists r a b, common_root B NB = Ok (Some (r, a, b)) /\ in_isize (e * a / b) = false
  | CLarge => NB <> B /\ threshold_small_exp < Z.abs e /\ common_root B NB = Ok None
  end.
Proof. exact convert_base4_spec. Qed.
Print Assumptions C08_convert_base4_spec.

Theorem C08_convert_base4_large_no_common_root : forall NB, 2 <= NB -> forall B p m s e r i j,
  2 <= r -> 1 <= i -> 1 <= j -> B = r ^ i -> NB = r ^ j -> B < 2 ^ 64 -> NB < 2 ^ 64 -> convert_base_asis4 B NB p m s e <> CLarge.
Proof. exact convert_base4_large_no_common_root. Qed.
Print Assumptions C08_convert_base4_large_no_common_root.

(** the repaired model = the round-1 model (theorems C08_convert_* above) wherever the code did not change *)
Theorem C08_convert4_agrees : forall NB, 2 <= NB -> forall B p m s e,
  (Z.abs e <= threshold_small_exp -> 0 <= e \/ p + dlen NB (fst (normalize NB (B ^ (- e)) 0)) < dlen NB (fst (normalize NB s 0))) ->
  (threshold_small_exp < Z.abs e -> common_root B NB = Ok None) ->
  convert_base_asis4 B NB p m s e = convert_base_asis B NB p m s e.
Proof. exact convert4_agrees. Qed.
Print Assumptions C08_convert4_agrees.

Theorem C08_convert_full4_other_routes : forall (F : Type) (O : f32ops F) W fuel B NB p m s e,
  convert_base_asis4 B NB p m s e <> CLarge ->
  convert_base_full_asis4 O W fuel B NB p m s e = convert_base_asis4 B NB p m s e.
Proof. exact @convert_base_full_asis4_modelled. Qed.
Print Assumptions C08_convert_full4_other_routes.

Theorem C08_convert4_large_asis_round : forall (F : Type) (O : f32ops F) W fuel B NB p m s e t,
  convert_base_asis4 B NB p m s e = CLarge ->
  large_trace_asis O W fuel B NB p m e = Ok t ->
  convert_base_full_asis4 O W fuel B NB p m s e =
  round_norm NB p m (s * approx_sig (lt_exp t)) (lt_q t + approx_exp (lt_exp t)).
Proof. exact @convert4_large_asis_round. Qed.
Print Assumptions C08_convert4_large_asis_round.

(** F10 (fixed): 3 * 4^39 to base 8 at one digit is exact; the route before the repair was the ln/exp route (CLarge in the
    round-1 model; observed answer 2 * 8^26 NoOp in the mode Down).  Witness of 344196e: 4899e-7 at 53 bits *)
Theorem C08_convert4_examples :
  convert_base_asis4 4 8 1 MDown 3 39 = CDone 3 26 FExact /\
  convert_base_asis 4 8 1 MDown 3 39 = CLarge /\
  convert_base_spec 4 8 1 MDown 3 39 = (3, 26, FExact) /\
  convert_base_asis4 9 27 1 MUp 2 (-40) = CDone 6 (-27) FExact /\
  convert_base_asis4 8 4 1 MUp 5 (-39) = CDone 3 (-58) (FInexact AddOne) /\
  convert_base_spec 8 4 1 MUp 5 (-39) = (3, -58, FInexact AddOne) /\
  common_root 4 8 = Ok (Some (2, 2, 3)) /\ common_root 16 64 = Ok (Some (4, 2, 3)) /\ common_root 10 2 = Ok None /\
  common_root 12 6 = Ok None /\ common_root 27 9 = Ok (Some (3, 3, 2)).
Proof. exact convert4_examples. Qed.
Print Assumptions C08_convert4_examples.

Theorem C08_convert4_div_route_example :
  convert_base_asis4 10 2 53 MHalfEven 4899 (-7) = CDone 4518529960855155 (-63) (FInexact AddOne) /\
  convert_base_spec 10 2 53 MHalfEven 4899 (-7) = (4518529960855155, -63, FInexact AddOne) /\
  convert_base_asis 10 2 53 MHalfEven 4899 (-7) = CDone 9037059921710309 (-64) (FInexact NoOp) /\
  convert_base_asis4 10 2 3 MZero 1 100 = CLarge /\
  convert_base_asis4 2 10 4 MHalfAway 1048575 0 = CDone 1049 3 (FInexact AddOne) /\
  convert_base_spec 2 10 6 MHalfAway 1048575 0 = (104858, 1, FInexact AddOne).
Proof. exact convert4_div_route_example. Qed.
Print Assumptions C08_convert4_div_route_example.

(** what is left to the ln/exp route for decimal -> binary (to_binary, to_f32, to_f64 of decimal floats): an exact result or a
    tie needs more than 90 bits (e >= 39), resp. a source significand of more than 27 decimal digits (e <= -39) - at 24 / 53 bits
    no value on the route sits ON a jump of the rounding function *)
Theorem C08_decimal_binary_exact_needs_91_bits : forall s e t k j, 39 <= e -> 0 <= k -> 0 <= j -> t <> 0 ->
  s * 10 ^ e * 2 ^ j = t * 2 ^ k -> 2 ^ 90 < Z.abs t.
Proof. exact decimal_binary_exact_needs_91_bits. Qed.
Print Assumptions C08_decimal_binary_exact_needs_91_bits.

Theorem C08_decimal_binary_exact_neg_needs_28_digits : forall s j t k i, 39 <= j -> 0 <= k -> 0 <= i -> s <> 0 ->
  s * 2 ^ i = t * 2 ^ k * 10 ^ j -> 10 ^ 27 < Z.abs s.
Proof. exact decimal_binary_exact_neg_needs_28_digits. Qed.
Print Assumptions C08_decimal_binary_exact_neg_needs_28_digits.

(** ** round 4: the radix-specific formats {:b} {:o} {:x} {:X} (impl_fmt_with_base!) of FBig (mode R) and Repr (Zero) *)

Theorem C08_radix_rounded_is_sci : forall B m s e prec, radix_rounded B false m s e prec = sci_rounded B m s e prec.
Proof. exact radix_rounded_sci. Qed.
Print Assumptions C08_radix_rounded_is_sci.

Theorem C08_radix_body_positional : forall B, 2 <= B -> forall m upper mk s e prec, (s = 0 -> e = 0) -> (forall p, prec = Some p -> 0 <= p) ->
  radix_body_asis B m upper false mk s e prec = sci_body_spec_mk mk B m upper s e prec.
Proof. exact radix_body_positional. Qed.
Print Assumptions C08_radix_body_positional.

(** hexadecimal form: the significand is the float itself up to 4p+4 bits, else spec_round to 4p+4 bits (carry undone) *)
Theorem C08_hex_rounded_spec : forall m s e p0, 0 <= p0 -> s <> 0 ->
  radix_rounded 2 true m s e (Some p0) =
    (let '(a, x) := hex_round m s e p0 in
     if dlen 2 s <=? 4 * p0 + 4 then (s, e) else ((if s <? 0 then - a else a), x)) /\
  (4 * p0 + 4 < dlen 2 s -> let '(a, x) := hex_round m s e p0 in 2 ^ (4 * p0) <= a < 2 ^ (4 * p0 + 4)).
Proof. exact hex_rounded_spec. Qed.
Print Assumptions C08_hex_rounded_spec.

Theorem C08_radix_body_hex : forall m upper s e prec, (s = 0 -> e = 0) -> (forall p, prec = Some p -> 0 <= p) ->
  radix_body_asis 2 m upper true 112 s e prec = hex_body_spec m upper s e prec.
Proof. exact radix_body_hex. Qed.
Print Assumptions C08_radix_body_hex.

(** the WHOLE text (sign, 0x, zeros / fill, body) of every format that exists *)
Theorem C08_radix_format_text_asis_spec : forall B t upper hex mk m f s e prec, radix_format B t = Some (upper, hex, mk) ->
  (s = 0 -> e = 0) -> (forall p, prec = Some p -> 0 <= p) ->
  radix_asis B m upper hex mk f s e prec = radix_spec B m upper hex mk f s e prec.
Proof. exact radix_format_text_asis_spec. Qed.
Print Assumptions C08_radix_format_text_asis_spec.

Theorem C08_radix_examples :
  radix_body_asis 2 MHalfEven false true 112 0xabcd 0 (Some 2) = [97; 46; 98; 100; 112; 49; 50] /\
  radix_body_spec 2 MHalfEven false true 112 0xabcd 0 (Some 2) = [97; 46; 98; 100; 112; 49; 50] /\
  radix_body_asis 2 MZero false true 112 0xabcd 0 (Some 2) = [97; 46; 98; 99; 112; 49; 50] /\
  radix_body_asis 2 MHalfAway false true 112 0x1ff 0 (Some 1) = [49; 46; 48; 112; 57] /\
  radix_body_spec 2 MHalfAway false true 112 0x1ff 0 (Some 1) = [49; 46; 48; 112; 57] /\
  radix_body_asis 2 MUp false false 98 21 0 (Some 1) = [49; 46; 49; 98; 52] /\
  radix_body_spec 2 MUp false false 98 21 0 (Some 1) = [49; 46; 49; 98; 52] /\
  radix_asis 2 MZero true true 112 (mkflags true false true None (Some 12) [32]) 0x1f (-3) (Some 2)
    = [43; 48; 120; 48; 48; 48; 49; 46; 70; 48; 112; 49] /\
  radix_spec 2 MZero true true 112 (mkflags true false true None (Some 12) [32]) 0x1f (-3) (Some 2)
    = [43; 48; 120; 48; 48; 48; 49; 46; 70; 48; 112; 49] /\
  radix_asis 8 MAway false false 111 (mkflags false false false (Some ACenter) (Some 10) [42]) (-511) 2 (Some 1)
    = [42; 42; 45; 49; 46; 48; 111; 53; 42; 42] /\
  radix_format 2 TLowerHex = Some (false, true, 112) /\ radix_format 16 TUpperHex = Some (true, false, 104) /\
  radix_format 10 TLowerHex = None.
Proof. exact radix_examples. Qed.
Print Assumptions C08_radix_examples.

(** ** round 4: fragments regenerated from fmt.rs / parse.rs / utils.rs / convert.rs on every run (coq/gen/ConvBaseGen4.v) are
    what the models use: an edit of the source breaks one of these *)

Theorem C08_gen4_fmt_rounded : forall B m s e prec, fmt_rounded_gen B m s e prec = fmt_rounded B m s e prec.
Proof. exact fmt_rounded_gen_eq. Qed.
Print Assumptions C08_gen4_fmt_rounded.

Theorem C08_gen4_sci_rounded : forall B hex m s e prec, sci_rounded_gen B hex m s e prec = radix_rounded B hex m s e prec.
Proof. exact sci_rounded_gen_eq. Qed.
Print Assumptions C08_gen4_sci_rounded.

Theorem C08_gen4_sci_rounded_lowerexp : forall B m s e prec, sci_rounded_gen B false m s e prec = sci_rounded B m s e prec.
Proof. exact sci_rounded_gen_sci. Qed.
Print Assumptions C08_gen4_sci_rounded_lowerexp.

Theorem C08_gen4_sci_width : forall B m upper hex f s e prec,
  radix_pads B m upper hex f s e prec =
  match f_width f with
  | None => (0, 0)
  | Some minw =>
    let '(signif, exp) := radix_rounded B hex m s e prec in
    let str := if (s <? 0) && (signif =? 0) then [] else dtext upper (if hex then 16 else B) (Z.abs signif) in
    let n := len str in
    let width := sci_width_gen n (len (itoa (if hex then exp + (n - 1) * 4 else exp + (n - 1)))) (s <? 0) (f_plus f) hex prec in
    if minw <=? width then (0, 0)
    else if f_zero f then (minw - width, 0)
    else match f_align f with
         | Some ALeft => (0, minw - width)
         | Some ARight | None => (minw - width, 0)
         | Some ACenter => let d := minw - width in (d / 2, d - d / 2)
         end
  end.
Proof. exact sci_width_gen_eq. Qed.
Print Assumptions C08_gen4_sci_width.

Theorem C08_gen4_radix_format : forall B t, radix_format_gen B t = radix_format B t.
Proof. exact radix_format_gen_eq. Qed.
Print Assumptions C08_gen4_radix_format.

Theorem C08_gen4_marker_set : forall B has_prefix c, marker_set_gen B has_prefix c = is_marker B has_prefix c.
Proof. exact marker_set_gen_eq. Qed.
Print Assumptions C08_gen4_marker_set.

Theorem C08_gen4_common_root_loop : forall fuel u v,
  common_root_loop (S fuel) u v =
  if u =? v then Ok (Some u)
  else match common_root_body_gen u v with
       | None => Ok None
       | Some (u', v') => common_root_loop fuel u' v'
       end.
Proof. exact common_root_loop_gen. Qed.
Print Assumptions C08_gen4_common_root_loop.

Theorem C08_gen4_convert_root : forall NB p m s e root a b,
  convert_root NB p m s e root a b =
  (let '(signif, q) := convert_root_gen s e root a b in
   if in_isize q then round_norm NB p m signif q else CPanic Undocumented).
Proof. exact convert_root_gen_eq. Qed.
Print Assumptions C08_gen4_convert_root.

(** ** the defects found, as theorems about the old behaviour / the observed answers *)

Theorem C08_parse_before_fix_refuted :
  parse_unsigned_old 10 [43; 53] = Ok 5 /\ parse_unsigned 10 [43; 53] = Err E_InvalidDigit /\
  parse_spec 10 [49; 46; 43; 53] = None /\ parse_asis 10 [49; 46; 43; 53] = Err E_InvalidDigit /\
  parse_spec 2 [48; 120; 46] = None /\ parse_asis 2 [48; 120; 46] = Err E_NoDigits.
Proof. exact parse_before_fix_refuted. Qed.
Print Assumptions C08_parse_before_fix_refuted.

Theorem C08_sci_before_fix_refuted :
  sci_layout 10 false 996 (Some 1) (sci_rounded_old 10 MHalfAway 996 (-2) (Some 1)) = [49; 46; 48; 48; 101; 49] /\
  sci_body_spec 10 MHalfAway false 996 (-2) (Some 1) = [49; 46; 48; 101; 49] /\
  sci_body_asis 10 MHalfAway false 996 (-2) (Some 1) = [49; 46; 48; 101; 49].
Proof. exact sci_before_fix_refuted. Qed.
Print Assumptions C08_sci_before_fix_refuted.


Theorem C08_convert_base_before_fix_refuted :
  convert_exact_old 2 (1 * 10 ^ 30) 0 = CDone 931322574615478515625 30 FExact /\
  check_contract 2 9 MZero (float_rat 10 1 30) 931322574615478515625 30 FExact = false /\
  convert_base_asis 10 2 9 MZero 1 30 = CDone 403 91 (FInexact NoOp) /\
  check_contract 2 9 MZero (float_rat 10 1 30) 403 91 (FInexact NoOp) = true.
Proof. exact convert_base_before_fix_refuted. Qed.
Print Assumptions C08_convert_base_before_fix_refuted.

Theorem C08_convert_large_observed_refuted :
  let x := float_rat 10 (-98) 100 in
  let r := - 0xe006890c5e5aba3f48a41a6adc1267645e96cd1584772b07b52a0c3a5883fffffffffffffffffffffff in
  convert_base_asis 10 2 332 MZero (-98) 100 = CLarge /\
  check_contract 2 332 MZero x r 7 (FInexact NoOp) = false /\
  check_contract 2 332 MZero x (r - 1) 7 FExact = true.
Proof. exact convert_large_observed_refuted. Qed.
Print Assumptions C08_convert_large_observed_refuted.

(** ** round 5: the ln/exp route after the repair of F05 (Float/LargeExpAsis5.v: retry loop, both ends of the error
    interval of the approximant rounded, exact fallback inside the window, formulas regenerated: DashuGen.ConvBaseGen5) *)

Theorem C08_gen5_work_precision : forall p e B NB extra,
  large_work_precision_extra_gen p e B NB extra = large_work_precision_gen p e B NB + extra.
Proof. exact gen5_work_precision. Qed.
Print Assumptions C08_gen5_work_precision.

Theorem C08_gen5_pad : forall p extra, large_pad_gen p extra = 2 * p + extra - 1.
Proof. exact gen5_pad. Qed.
Print Assumptions C08_gen5_pad.

Theorem C08_gen5_next_extra : forall NB extra, large_next_extra_gen NB extra = 2 * extra + dlen NB 1048576.
Proof. exact gen5_next_extra. Qed.
Print Assumptions C08_gen5_next_extra.

Theorem C08_gen5_guard_doubles : forall NB extra,
  large_next_extra_gen NB extra + dlen NB 1048576 = 2 * (extra + dlen NB 1048576).
Proof. exact gen5_guard_doubles. Qed.
Print Assumptions C08_gen5_guard_doubles.

Theorem C08_gen5_exact_window : forall NB p s e,
  large_exact_window NB p s e = (Z.abs e / 128 <=? Z.max (ElemF32.bit_len s) ((p + 1) * ElemF32.bit_len NB) + 1).
Proof. exact gen5_exact_window. Qed.
Print Assumptions C08_gen5_exact_window.

Theorem C08_large_trace_first_pass : forall {F : Type} (O : f32ops F) W fuel B NB p m e,
  large_trace_wp O W fuel NB B (large_work_precision_extra_gen p e B NB 0) m e = large_trace_asis O W fuel B NB p m e.
Proof. intros F O. exact (large_trace_first_pass O). Qed.
Print Assumptions C08_large_trace_first_pass.

(** Context::convert_base_exact (small exponents, and the fallback of the ln/exp route) = the specification, EVERY exponent *)
Theorem C08_convert_exact_asis_spec : forall NB, 2 <= NB -> forall B p m s e, 2 <= B -> 1 <= p -> s <> 0 ->
  convert_exact_asis B NB p m s e = (let '(s', e', f) := convert_base_spec B NB p m s e in CDone s' e' f).
Proof. exact convert_exact_asis_spec. Qed.
Print Assumptions C08_convert_exact_asis_spec.

Example C08_convert_exact_asis_spec_ex :
  convert_exact_asis 10 2 332 MDown (-98) 100 =
  (let '(s', e', f) := convert_base_spec 10 2 332 MDown (-98) 100 in CDone s' e' f) /\
  (exists s' e', convert_base_spec 10 2 332 MDown (-98) 100 = (s', e', FExact)).
Proof. split; [apply convert_exact_asis_spec; lia|]. vm_compute. eauto. Qed.

Theorem C08_convert_base_small_is_exact : forall NB B p m s e, NB <> B ->
  (if B <? NB then ilog_exact NB B else 0) <= 1 -> (if B <? NB then 0 else ilog_exact B NB) <= 1 -> p <> 0 ->
  Z.abs e <= threshold_small_exp ->
  convert_base_asis4 B NB p m s e = convert_exact_asis B NB p m s e.
Proof. exact convert_base_small_is_exact. Qed.
Print Assumptions C08_convert_base_small_is_exact.

(** whatever float the repaired route returns is the specification of the value (exact fallback, only inside the window)
    or the COMMON rounding, flag included, of both ends A (1 -+ NB^-pad) of the error interval of the approximant of a pass *)
Theorem C08_convert_large_loop_returns : forall {F : Type} (O : f32ops F) W NB, 2 <= NB ->
  forall passes fuel B p m s e s' e' f, 2 <= B -> 1 <= p -> s <> 0 -> forall extra,
  convert_large_loop O W passes fuel B NB p m s e extra = CDone s' e' f ->
  stable_answer O W NB fuel B p m s e (CDone s' e' f) \/
  (large_exact_window NB p s e = true /\ (s', e', f) = convert_base_spec B NB p m s e).
Proof. intros F O. exact (convert_large_loop_returns O). Qed.
Print Assumptions C08_convert_large_loop_returns.

Theorem C08_large_pass_retry : forall {F : Type} (O : f32ops F) W NB fuel B p m s e extra,
  large_pass O W fuel B NB p m s e extra = PRetry -> large_exact_window NB p s e = false.
Proof. intros F O. exact (large_pass_retry O). Qed.
Print Assumptions C08_large_pass_retry.

Theorem C08_large_end_is_spec : forall NB, 2 <= NB -> forall p m ys ye pad sg, 1 <= p -> ys <> 0 -> 1 <= pad -> (sg = 1 \/ sg = -1) ->
  round_norm NB p m (ys * (NB ^ pad + sg)) (ye - pad) =
  (let '(N, D) := value_frac NB (ys * (NB ^ pad + sg)) (ye - pad) in
   let '(s', e', f) := convert_value_spec NB p m N D in CDone s' e' f).
Proof. exact large_end_is_spec. Qed.
Print Assumptions C08_large_end_is_spec.

Theorem C08_monotone_stable_between : forall (rnd : R -> R) lo hi v,
  (forall x y, (x <= y)%R -> (rnd x <= rnd y)%R) -> rnd lo = rnd hi -> (lo <= v <= hi)%R ->
  rnd v = rnd lo /\ ((rnd lo < lo)%R -> (rnd v < v)%R) /\ ((hi < rnd hi)%R -> (v < rnd v)%R).
Proof. exact monotone_stable_between. Qed.
Print Assumptions C08_monotone_stable_between.

Theorem C08_ends_enclose : forall A V d : R, (0 <= d)%R -> (Rabs (V - A) <= d * Rabs A)%R ->
  (Rmin (A * (1 - d)) (A * (1 + d)) <= V <= Rmax (A * (1 - d)) (A * (1 + d)))%R.
Proof. exact ends_enclose. Qed.
Print Assumptions C08_ends_enclose.

(** the integer rounding of the specification is monotone in the numerator, every mode *)
Theorem C08_spec_round_floor_form : forall m N d, 0 < d -> spec_round m N d = N / d + bump m (N / d) (N mod d) d.
Proof. exact spec_round_floor_form. Qed.
Print Assumptions C08_spec_round_floor_form.

Theorem C08_spec_round_mono : forall m N1 N2 d, 0 < d -> N1 <= N2 -> spec_round m N1 d <= spec_round m N2 d.
Proof. exact spec_round_mono. Qed.
Print Assumptions C08_spec_round_mono.

(** the specification of a base change is constant between two values on which it agrees with an Inexact flag
    (across powers of the base too: there the flags of the two ends differ) *)
Theorem C08_convert_value_spec_between : forall B, 2 <= B -> forall p m N1 D1 N D N2 D2 h x r,
  1 <= p -> 0 < D1 -> 0 < D -> 0 < D2 -> N1 * D <= N * D1 -> N * D2 <= N2 * D ->
  convert_value_spec B p m N1 D1 = (h, x, FInexact r) ->
  convert_value_spec B p m N2 D2 = (h, x, FInexact r) ->
  convert_value_spec B p m N D = (h, x, FInexact r).
Proof. exact convert_value_spec_between. Qed.
Print Assumptions C08_convert_value_spec_between.

Example C08_convert_value_spec_between_ex :
  convert_value_spec 10 1 MDown 10 3 = (3, 0, FInexact NoOp) /\ convert_value_spec 10 1 MDown 11 3 = (3, 0, FInexact NoOp) /\
  convert_value_spec 10 1 MDown 7 2 = (3, 0, FInexact NoOp).
Proof. exact convert_value_spec_between_ex. Qed.

(** the stability test of the repaired ln/exp route is SOUND: both ends of the interval round to the same float with the
    same Inexact flag => every value between the ends has exactly that float and flag as its specification *)
Theorem C08_large_ends_agree_correct : forall NB, 2 <= NB -> forall p m ys ye pad N D s' e' r,
  1 <= p -> ys <> 0 -> 1 <= pad -> 0 < D ->
  round_norm NB p m (ys * (NB ^ pad - 1)) (ye - pad) = CDone s' e' (FInexact r) ->
  round_norm NB p m (ys * (NB ^ pad + 1)) (ye - pad) = CDone s' e' (FInexact r) ->
  (let '(Nl, Dl) := value_frac NB (ys * (NB ^ pad - 1)) (ye - pad) in
   let '(Nh, Dh) := value_frac NB (ys * (NB ^ pad + 1)) (ye - pad) in
   (Nl * D <= N * Dl /\ N * Dh <= Nh * D) \/ (Nh * D <= N * Dh /\ N * Dl <= Nl * D)) ->
  convert_value_spec NB p m N D = (s', e', FInexact r).
Proof. exact large_ends_agree_correct. Qed.
Print Assumptions C08_large_ends_agree_correct.

Example C08_large_ends_agree_correct_ex :
  round_norm 10 1 MDown (35 * (10 ^ 2 - 1)) (-1 - 2) = CDone 3 0 (FInexact NoOp) /\
  round_norm 10 1 MDown (35 * (10 ^ 2 + 1)) (-1 - 2) = CDone 3 0 (FInexact NoOp) /\
  value_frac 10 (35 * (10 ^ 2 - 1)) (-1 - 2) = (3465, 1000) /\ value_frac 10 (35 * (10 ^ 2 + 1)) (-1 - 2) = (3535, 1000) /\
  3465 * 2 <= 7 * 1000 /\ 7 * 1000 <= 3535 * 2.
Proof. vm_compute. repeat split; congruence. Qed.
