(** C10 - rounding to integers or to fewer digits picks the right neighbour. Statements only.
    B is the base (any B >= 2); a float is (s, e, p) = s * B^e with context precision p (0 =
    unlimited); digits_ub is ANY function that never under-estimates the digit count (the contract of
    Repr::digits_ub); [false] selects the repaired code (the pinned code is refuted at the end). *)
From Dashu Require Import Base.Prelude Float.RoundSpec Float.RoundTablesProof Float.RoundSpecProof
  Float.Contract Float.Model Float.ModelProof Float.RoundOpsModel Float.RoundOpsProof Float.RoundOpsLegal Float.RoundOpsDigits Float.RoundOpsUnique
  Ratio.RatRoundModel Ratio.RatRoundProof.
From DashuGen Require Import RoundTables.
Open Scope Z_scope.

(* ---------------------------------------------------------------- the two public primitives *)

Theorem C10_T_round : forall m I n d, 0 < d -> n <> 0 -> Z.abs n < d ->
  I + adj (round_low_part m I (sign_of n) (2 * Z.abs n ?= d)) = spec_round m (I * d + n) d.
Proof. exact T_round. Qed.
Print Assumptions C10_T_round.

Theorem C10_round_fract : forall B, 2 <= B -> forall m hi lo k, 0 <= k -> Z.abs lo < B ^ k ->
  hi + adj (round_fract B m hi lo k) = spec_round m (hi * B ^ k + lo) (B ^ k).
Proof. exact round_fract_spec. Qed.
Print Assumptions C10_round_fract.

Theorem C10_round_ratio : forall m I num den, den <> 0 -> Z.abs num < Z.abs den ->
  I + adj (round_ratio m I num den) = spec_round m (Z.sgn den * (I * den + num)) (Z.abs den).
Proof. exact round_ratio_spec. Qed.
Print Assumptions C10_round_ratio.

(* ---------------------------------------------------------------- what the specification means *)

Theorem C10_spec_round_error : forall m N d, 0 < d ->
  let r := spec_round m N d in
  Z.abs (r * d - N) < d /\ (is_half_mode m = true -> 2 * Z.abs (r * d - N) <= d).
Proof. exact spec_round_error. Qed.
Print Assumptions C10_spec_round_error.

Theorem C10_spec_round_side : forall m N d, 0 < d -> side_ok m N d (spec_round m N d).
Proof. exact spec_round_side. Qed.
Print Assumptions C10_spec_round_side.

Theorem C10_spec_round_exact : forall m N d, 0 < d -> N mod d = 0 -> spec_round m N d * d = N.
Proof. exact spec_round_exact. Qed.
Print Assumptions C10_spec_round_exact.

Theorem C10_tie_even : forall N d, 0 < d -> 2 * (N mod d) = d -> Z.even (spec_round MHalfEven N d) = true.
Proof. exact spec_round_tie_even. Qed.
Print Assumptions C10_tie_even.

Theorem C10_tie_away : forall N d, 0 < d -> 2 * (N mod d) = d -> Z.abs N < Z.abs (spec_round MHalfAway N d * d).
Proof. exact spec_round_tie_away. Qed.
Print Assumptions C10_tie_away.

Theorem C10_floor_unique : forall N d r, 0 < d -> r * d <= N < r * d + d -> r = spec_round MDown N d.
Proof. exact floor_unique. Qed.
Print Assumptions C10_floor_unique.

Theorem C10_ceil_unique : forall N d r, 0 < d -> N <= r * d < N + d -> r = spec_round MUp N d.
Proof. exact ceil_unique. Qed.
Print Assumptions C10_ceil_unique.

Theorem C10_trunc_unique : forall N d r, 0 < d -> Z.abs (r * d) <= Z.abs N -> Z.abs (r * d - N) < d ->
  r = spec_round MZero N d.
Proof. exact trunc_unique. Qed.
Print Assumptions C10_trunc_unique.

Theorem C10_nearest_unique : forall m N d r, 0 < d -> is_half_mode m = true -> 2 * Z.abs (r * d - N) < d ->
  r = spec_round m N d.
Proof. exact nearest_unique. Qed.
Print Assumptions C10_nearest_unique.

Theorem C10_tie_away_unique : forall N d r, 0 < d -> 2 * (N mod d) = d ->
  2 * Z.abs (r * d - N) = d -> Z.abs N < Z.abs (r * d) -> r = spec_round MHalfAway N d.
Proof. exact half_away_tie_unique. Qed.
Print Assumptions C10_tie_away_unique.

Theorem C10_tie_even_unique : forall N d r, 0 < d -> 2 * (N mod d) = d ->
  2 * Z.abs (r * d - N) = d -> Z.even r = true -> r = spec_round MHalfEven N d.
Proof. exact half_even_tie_unique. Qed.
Print Assumptions C10_tie_even_unique.

Theorem C10_trunc_fract_sum : forall B, 2 <= B -> forall s e, e < 0 ->
  int_spec B MZero s e * B ^ (- e) + fract_sig_spec B s e = s /\
  Z.abs (fract_sig_spec B s e) < B ^ (- e) /\
  (0 <= s -> 0 <= fract_sig_spec B s e) /\ (s <= 0 -> fract_sig_spec B s e <= 0).
Proof. exact trunc_fract_sum. Qed.
Print Assumptions C10_trunc_fract_sum.

Theorem C10_flag_range : forall B, 2 <= B -> forall m s e,
  -1 <= int_spec B m s e - int_spec B MZero s e <= 1.
Proof. exact int_spec_adj_range. Qed.
Print Assumptions C10_flag_range.

Theorem C10_exact_iff_integer : forall B, 2 <= B -> forall m s e,
  is_int B s e = true -> int_spec B m s e = int_spec B MZero s e.
Proof. exact int_spec_exact. Qed.
Print Assumptions C10_exact_iff_integer.

(* ---------------------------------------------------------------- float/src/round_ops.rs *)

Theorem C10_smaller_than_one_sound : forall B, 2 <= B -> forall digits_ub, (forall s, dlen B s <= digits_ub s) ->
  forall s e, smaller_than_one digits_ub s e = true ->
  e < 0 /\ Z.abs s * B ^ 2 < B ^ (- e) /\ 2 * Z.abs s < B ^ (- e).
Proof. exact smaller_than_one_sound. Qed.
Print Assumptions C10_smaller_than_one_sound.

Theorem C10_trunc : forall B, 2 <= B -> forall digits_ub, (forall s, dlen B s <= digits_ub s) ->
  forall p s e, int_valued B (trunc_asis B digits_ub p s e) (int_spec B MZero s e).
Proof. exact trunc_asis_spec. Qed.
Print Assumptions C10_trunc.

Theorem C10_fract : forall B, 2 <= B -> forall digits_ub, (forall s, dlen B s <= digits_ub s) ->
  forall p s e, e < 0 -> frac_valued B (fract_asis B digits_ub false p s e) e (fract_sig_spec B s e).
Proof. exact fract_asis_spec. Qed.
Print Assumptions C10_fract.

Theorem C10_fract_of_integer : forall B digits_ub p s e, 0 <= e -> fract_asis B digits_ub false p s e = FZERO.
Proof. exact fract_asis_int. Qed.
Print Assumptions C10_fract_of_integer.

Theorem C10_split_trunc : forall B digits_ub p s e,
  fst (split_asis B digits_ub p s e) = trunc_asis B digits_ub p s e.
Proof. exact split_asis_trunc. Qed.
Print Assumptions C10_split_trunc.

Theorem C10_split_fract : forall B, 2 <= B -> forall digits_ub, (forall s, dlen B s <= digits_ub s) ->
  forall p s e, e < 0 -> frac_valued B (snd (split_asis B digits_ub p s e)) e (fract_sig_spec B s e).
Proof. exact split_asis_fract. Qed.
Print Assumptions C10_split_fract.

Theorem C10_floor : forall B, 2 <= B -> forall digits_ub, (forall s, dlen B s <= digits_ub s) ->
  forall p s e, exists f, floor_asis B digits_ub false p s e = Ok f /\ int_valued B f (int_spec B MDown s e).
Proof. exact floor_asis_spec. Qed.
Print Assumptions C10_floor.

Theorem C10_ceil : forall B, 2 <= B -> forall digits_ub, (forall s, dlen B s <= digits_ub s) ->
  forall p s e, (e < 0 -> s <> 0) ->
  exists f, ceil_asis B digits_ub false p s e = Ok f /\ int_valued B f (int_spec B MUp s e).
Proof. exact ceil_asis_spec. Qed.
Print Assumptions C10_ceil.

Theorem C10_round : forall B, 2 <= B -> forall digits_ub, (forall s, dlen B s <= digits_ub s) ->
  forall p s e, exists f, round_asis B digits_ub false p s e = Ok f /\ int_valued B f (int_spec B MHalfAway s e).
Proof. exact round_asis_spec. Qed.
Print Assumptions C10_round.

(* ---------------------------------------------------------------- to_int, with_precision *)

Theorem C10_to_int : forall B, 2 <= B -> forall digits_ub, (forall s, dlen B s <= digits_ub s) ->
  forall m p s e, (e < 0 -> s mod B <> 0) ->
  to_int_asis B digits_ub false m p s e = Ok (to_int_spec B m s e).
Proof. exact to_int_asis_spec. Qed.
Print Assumptions C10_to_int.

Theorem C10_repr_to_int : forall B, 2 <= B -> forall digits_ub, (forall s, dlen B s <= digits_ub s) ->
  forall s e, (e < 0 -> s mod B <> 0) -> repr_to_int_asis B digits_ub s e = to_int_spec B MZero s e.
Proof. exact repr_to_int_asis_spec. Qed.
Print Assumptions C10_repr_to_int.

Theorem C10_with_precision : forall B, 2 <= B -> forall m p s e np, 0 <= p -> 0 <= np -> (p = 0 \/ dlen B s <= p) ->
  with_precision_asis B false m p s e np = norm_approx B (with_precision_spec B m s e np).
Proof. exact with_precision_asis_spec. Qed.
Print Assumptions C10_with_precision.

Theorem C10_with_precision_meaning : forall B, 2 <= B -> forall m s e np, 1 <= np -> np < dlen B s ->
  exists r f, with_precision_spec B m s e np = AInexact r (e + (dlen B s - np)) f /\
    let k := dlen B s - np in
    B ^ (np - 1) <= Z.abs r <= B ^ np /\ Z.abs (r * B ^ k - s) < B ^ k /\
    (is_half_mode m = true -> 2 * Z.abs (r * B ^ k - s) <= B ^ k) /\ side_ok m s (B ^ k) r /\
    adj f = r - Z.quot s (B ^ k).
Proof. exact with_precision_spec_props. Qed.
Print Assumptions C10_with_precision_meaning.

(* ---------------------------------------------------------------- result precisions stay legal *)

Theorem C10_legal_trunc : forall B, 2 <= B -> forall digits_ub p s e, 0 <= p -> (p = 0 \/ dlen B s <= p) ->
  legal B (trunc_asis B digits_ub p s e).
Proof. exact trunc_legal. Qed.
Print Assumptions C10_legal_trunc.

Theorem C10_legal_floor_ceil_round : forall B, 2 <= B -> forall digits_ub, (forall s, dlen B s <= digits_ub s) ->
  forall p s e f, 0 <= p -> (p = 0 \/ dlen B s <= p) ->
  (floor_asis B digits_ub false p s e = Ok f -> legal B f) /\
  (ceil_asis B digits_ub false p s e = Ok f -> legal B f) /\
  (round_asis B digits_ub false p s e = Ok f -> legal B f).
Proof.
  exact (fun B HB dub Hd p s e f Hp Hl =>
    conj (floor_legal B HB dub Hd p s e f Hp Hl)
      (conj (ceil_legal B HB dub Hd p s e f Hp Hl) (round_legal B HB dub Hd p s e f Hp Hl))).
Qed.
Print Assumptions C10_legal_floor_ceil_round.

Theorem C10_legal_fract_split : forall B, 2 <= B -> forall digits_ub, (forall s, dlen B s <= digits_ub s) ->
  forall p s e, legal B (fract_asis B digits_ub false p s e) /\
  (0 <= p -> (p = 0 \/ dlen B s <= p) ->
   legal B (fst (split_asis B digits_ub p s e)) /\ legal B (snd (split_asis B digits_ub p s e))).
Proof.
  exact (fun B HB dub Hd p s e => conj (fract_legal B HB dub Hd p s e) (split_legal B HB dub p s e)).
Qed.
Print Assumptions C10_legal_fract_split.

Theorem C10_legal_with_precision : forall B, 2 <= B -> forall m s e np, 0 <= np ->
  np = 0 \/ dlen B (approx_sig (norm_approx B (with_precision_spec B m s e np))) <= np.
Proof. exact with_precision_legal. Qed.
Print Assumptions C10_legal_with_precision.

(* ---------------------------------------------------------------- float/src/utils.rs digit splitting *)

Theorem C10_split_digits_10 : forall v k, 0 <= k -> split_digits_10 v k = split_digits 10 v k.
Proof. exact split_digits_10_spec. Qed.
Print Assumptions C10_split_digits_10.

Theorem C10_split_digits_pow2 : forall t v k, 0 <= t -> 0 <= k -> split_digits_pow2 t v k = split_digits (2 ^ t) v k.
Proof. exact split_digits_pow2_spec. Qed.
Print Assumptions C10_split_digits_pow2.

Theorem C10_shr_digits_10 : forall v k, 0 <= k -> shr_digits_10 v k = Z.quot v (10 ^ k).
Proof. exact shr_digits_10_spec. Qed.
Print Assumptions C10_shr_digits_10.

(* ---------------------------------------------------------------- rational/src/round.rs *)

Theorem C10_rat_trunc : forall n d, rat_trunc n d = spec_round MZero n d.
Proof. exact rat_trunc_spec. Qed.
Print Assumptions C10_rat_trunc.

Theorem C10_rat_floor : forall n d, 0 < d -> rat_floor n d = spec_round MDown n d.
Proof. exact rat_floor_spec. Qed.
Print Assumptions C10_rat_floor.

Theorem C10_rat_ceil : forall n d, 0 < d -> rat_ceil n d = spec_round MUp n d.
Proof. exact rat_ceil_spec. Qed.
Print Assumptions C10_rat_ceil.

Theorem C10_rat_round : forall n d, 0 < d -> rat_round n d = spec_round MHalfAway n d.
Proof. exact rat_round_spec. Qed.
Print Assumptions C10_rat_round.

Theorem C10_rat_fract : forall n d, 0 < d ->
  let '(fn, fd) := rat_fract n d in
  0 < fd /\ n * fd = rat_trunc n d * d * fd + fn * d /\ Z.abs fn < fd /\
  (0 <= n -> 0 <= fn) /\ (n <= 0 -> fn <= 0) /\ (Z.gcd n d = 1 -> Z.gcd fn fd = 1).
Proof. exact rat_fract_spec. Qed.
Print Assumptions C10_rat_fract.

Theorem C10_rat_split : forall n d, rat_split n d = (rat_trunc n d, rat_fract n d).
Proof. exact rat_split_spec. Qed.
Print Assumptions C10_rat_split.

Theorem C10_round_depends_on_value_only : forall m n d g, 0 < d -> 0 < g ->
  spec_round m (n * g) (d * g) = spec_round m n d.
Proof. exact spec_round_scale. Qed.
Print Assumptions C10_round_depends_on_value_only.

Theorem C10_rbig_reduction : forall n d, 0 < d ->
  let '(n', d') := rat_reduce n d in 0 < d' /\ forall m, spec_round m n' d' = spec_round m n d.
Proof. exact rat_reduce_round. Qed.
Print Assumptions C10_rbig_reduction.

Theorem C10_relaxed_reduction : forall n d, 0 < d ->
  let '(n', d') := rat_reduce2 n d in 0 < d' /\ forall m, spec_round m n' d' = spec_round m n d.
Proof. exact rat_reduce2_round. Qed.
Print Assumptions C10_relaxed_reduction.

(* ---------------------------------------------------------------- the pinned tree is refuted *)

Theorem C10_pinned_small_fraction_refuted :
  to_int_asis 10 (dub_exact 10) true MHalfEven 2 99 (-4) = Ok (IInexact 1 AddOne) /\
  to_int_spec 10 MHalfEven 99 (-4) = IInexact 0 NoOp /\
  round_asis 10 (dub_exact 10) true 2 99 (-4) = Ok (1, 0, 0) /\
  int_spec 10 MHalfAway 99 (-4) = 0 /\
  to_int_asis 10 (dub_exact 10) true MHalfAway 0 1 (-3) = Panic Undocumented.
Proof. exact split_internal_pinned_refuted. Qed.
Print Assumptions C10_pinned_small_fraction_refuted.

Theorem C10_pinned_with_precision_refuted :
  with_precision_asis 10 true MHalfAway 0 12345 0 3 = AExact 12345 0 /\
  norm_approx 10 (with_precision_spec 10 MHalfAway 12345 0 3) = AInexact 123 2 NoOp.
Proof. exact with_precision_pinned_refuted. Qed.
Print Assumptions C10_pinned_with_precision_refuted.

(* ================================================================ round 3 *)
From Coq Require Import QArith Reals Qreals.
From Dashu Require Import Float.RoundOpsDeep Float.RoundOpsDeepProof Float.RoundOpsTinyProof Float.RoundPrimGenProof Float.RoundTwiceProof Float.RoundTwiceFloat
  Float.DivMulModel Float.FilterProof Float.F32Flocq Ratio.RatRoundGenProof.
From Dashu Require Import Float.RoundAssertModel Float.RoundAssertProof Float.FilterLargeProof Float.RoundOpsGenProof Float.FilterLargeEntry.
From DashuGen Require Import RatioSmall RoundPrimGen ElemParams RoundOpsGen.
Open Scope Z_scope.

(* ---------------------------------------------------------------- the f32 pre-filter of round_fract (C03's theorem, cited) *)

(** Round::round_fract as written - coarse f32 comparison first, binary32 arithmetic of Flocq, any sound log2 bounds -
    agrees with the exact comparison below 2^24 digits (C03_round_fract_flocq32) ... *)
Theorem C10_f32_filter_admissible : forall B, 2 <= B -> forall (lb ub : Z -> Q) (b_lb b_ub : Q),
  (forall f, 0 < f -> (Q2R (lb f) <= log2R (IZR f) <= Q2R (ub f))%R) ->
  (Q2R b_lb <= log2R (IZR B) <= Q2R b_ub)%R ->
  forall m i f k, 0 <= k < 2 ^ 24 ->
  round_fract_f32 fl32 cvt32 lb ub b_lb b_ub c999_32 c1001_32 B m i f k = round_fract B m i f k.
Proof. exact rf_flocq32_ok. Qed.
Print Assumptions C10_f32_filter_admissible.

(** ... so the primitive WITH its filter returns the specification's adjustment *)
Theorem C10_round_fract_flocq32 : forall B, 2 <= B -> forall (lb ub : Z -> Q) (b_lb b_ub : Q),
  (forall f, 0 < f -> (Q2R (lb f) <= log2R (IZR f) <= Q2R (ub f))%R) ->
  (Q2R b_lb <= log2R (IZR B) <= Q2R b_ub)%R ->
  forall m hi lo k, 0 <= k < 2 ^ 24 -> Z.abs lo < B ^ k ->
  hi + adj (round_fract_f32 fl32 cvt32 lb ub b_lb b_ub c999_32 c1001_32 B m hi lo k) =
  spec_round m (hi * B ^ k + lo) (B ^ k).
Proof. exact round_fract_flocq32_spec. Qed.
Print Assumptions C10_round_fract_flocq32.

(* ---------------------------------------------------------------- the public entry points, from assert_finite on *)

(** [rf] is ANY implementation of round_fract that agrees with the exact comparison below K digits (the filter above:
    K = 2^24); (0, e <> 0) are the infinities.  Finite floats as Repr::new leaves them: *)
Theorem C10_entry_points : forall B, 2 <= B -> forall digits_ub, (forall s, dlen B s <= digits_ub s) ->
  forall (rf : mode -> Z -> Z -> Z -> rounding) K, (forall m i f k, 0 <= k < K -> rf m i f k = round_fract B m i f k) ->
  forall p s e, is_inf s e = false -> - e < K -> (e < 0 -> s mod B <> 0) ->
  (exists f, trunc_full B digits_ub p s e = Ok f /\ int_valued B f (int_spec B MZero s e)) /\
  (exists f, floor_full B digits_ub rf p s e = Ok f /\ int_valued B f (int_spec B MDown s e)) /\
  (exists f, ceil_full B digits_ub rf p s e = Ok f /\ int_valued B f (int_spec B MUp s e)) /\
  (exists f, round_full B digits_ub rf p s e = Ok f /\ int_valued B f (int_spec B MHalfAway s e)) /\
  (forall m, to_int_full B digits_ub rf m p s e = Ok (to_int_spec B m s e)) /\
  repr_to_int_full B digits_ub s e = Ok (to_int_spec B MZero s e).
Proof. exact entry_points_spec. Qed.
Print Assumptions C10_entry_points.

Theorem C10_entry_points_are_the_models : forall B, 2 <= B -> forall digits_ub,
  forall (rf : mode -> Z -> Z -> Z -> rounding) K, (forall m i f k, 0 <= k < K -> rf m i f k = round_fract B m i f k) ->
  forall p s e, is_inf s e = false -> - e < K ->
  trunc_full B digits_ub p s e = Ok (trunc_asis B digits_ub p s e) /\
  fract_full B digits_ub p s e = Ok (fract_asis B digits_ub false p s e) /\
  split_full B digits_ub p s e = Ok (split_asis B digits_ub p s e) /\
  ceil_full B digits_ub rf p s e = ceil_asis B digits_ub false p s e /\
  floor_full B digits_ub rf p s e = floor_asis B digits_ub false p s e /\
  round_full B digits_ub rf p s e = round_asis B digits_ub false p s e /\
  (forall m, to_int_full B digits_ub rf m p s e = to_int_asis B digits_ub false m p s e) /\
  repr_to_int_full B digits_ub s e = Ok (repr_to_int_asis B digits_ub s e).
Proof. exact (fun B HB dub rf K H => entry_points_finite B dub rf K H). Qed.
Print Assumptions C10_entry_points_are_the_models.

(** the instance the code runs: the f32-filtered primitive, up to 2^24 digits after the radix point *)
Theorem C10_to_int_f32 : forall B, 2 <= B -> forall digits_ub, (forall s, dlen B s <= digits_ub s) ->
  forall (lb ub : Z -> Q) (b_lb b_ub : Q),
  (forall f, 0 < f -> (Q2R (lb f) <= log2R (IZR f) <= Q2R (ub f))%R) ->
  (Q2R b_lb <= log2R (IZR B) <= Q2R b_ub)%R ->
  forall m p s e, is_inf s e = false -> - e < 2 ^ 24 -> (e < 0 -> s mod B <> 0) ->
  to_int_full B digits_ub (round_fract_f32 fl32 cvt32 lb ub b_lb b_ub c999_32 c1001_32 B) m p s e = Ok (to_int_spec B m s e).
Proof.
  exact (fun B HB dub Hd lb ub bl bu Hl Hb m p s e Hf HK Hn =>
    proj1 (proj2 (proj2 (proj2 (proj2 (entry_points_spec B HB dub Hd _ (2 ^ 24) (rf_flocq32_ok B HB lb ub bl bu Hl Hb) p s e Hf HK Hn))))) m).
Qed.
Print Assumptions C10_to_int_f32.

(** infinities: every entry point panics with the documented message, except with_precision, which reaches the
    finiteness test only when it actually rounds, and the same-base conversion, which maps them to themselves *)
Theorem C10_entry_points_infinite : forall B digits_ub (rf : mode -> Z -> Z -> Z -> rounding) p s e, is_inf s e = true ->
  trunc_full B digits_ub p s e = Panic OperateWithInf /\
  fract_full B digits_ub p s e = Panic OperateWithInf /\
  split_full B digits_ub p s e = Panic OperateWithInf /\
  ceil_full B digits_ub rf p s e = Panic OperateWithInf /\
  floor_full B digits_ub rf p s e = Panic OperateWithInf /\
  round_full B digits_ub rf p s e = Panic OperateWithInf /\
  (forall m, to_int_full B digits_ub rf m p s e = Panic OperateWithInf) /\
  repr_to_int_full B digits_ub s e = Panic OperateWithInf /\
  (forall m np, with_precision_full B rf m p s e np =
     if (p =? 0) || (p >? np) then Panic OperateWithInf else Ok (AExact s e)) /\
  (forall m np, with_same_base_full B rf m s e np = Ok (AInexact s e NoOp)).
Proof. exact entry_points_infinite. Qed.
Print Assumptions C10_entry_points_infinite.

(** to_int: with e >= 0 the answer is s * B^e itself, so its size (the allocation the documentation warns about) is
    the size of the result; with e < 0 it never exceeds the significand *)
Theorem C10_to_int_size : forall B, 2 <= B -> forall m s e,
  (0 <= e -> to_int_spec B m s e = IExact (s * B ^ e) /\ (s <> 0 -> B ^ e <= Z.abs (s * B ^ e))) /\
  (e < 0 -> Z.abs (int_spec B m s e) <= Z.abs s).
Proof. exact to_int_size. Qed.
Print Assumptions C10_to_int_size.

(* ---------------------------------------------------------------- compositions: which are single roundings *)

Theorem C10_with_precision_full : forall B, 2 <= B ->
  forall (rf : mode -> Z -> Z -> Z -> rounding) K, (forall m i f k, 0 <= k < K -> rf m i f k = round_fract B m i f k) ->
  forall m p s e np, is_inf s e = false -> 0 <= p -> 0 <= np -> (p = 0 \/ dlen B s <= p) -> dlen B s - np < K ->
  with_precision_full B rf m p s e np = Ok (norm_approx B (with_precision_spec B m s e np)).
Proof. exact with_precision_full_spec. Qed.
Print Assumptions C10_with_precision_full.

(** the instance the code runs: Context::repr_round with the f32-filtered primitive, fewer than 2^24 digits cut off *)
Theorem C10_with_precision_f32 : forall B, 2 <= B -> forall (lb ub : Z -> Q) (b_lb b_ub : Q),
  (forall f, 0 < f -> (Q2R (lb f) <= log2R (IZR f) <= Q2R (ub f))%R) ->
  (Q2R b_lb <= log2R (IZR B) <= Q2R b_ub)%R ->
  forall m p s e np, is_inf s e = false -> 0 <= p -> 0 <= np -> (p = 0 \/ dlen B s <= p) -> dlen B s - np < 2 ^ 24 ->
  with_precision_full B (round_fract_f32 fl32 cvt32 lb ub b_lb b_ub c999_32 c1001_32 B) m p s e np =
    Ok (norm_approx B (with_precision_spec B m s e np)).
Proof.
  exact (fun B HB lb ub bl bu Hl Hb => with_precision_full_spec B HB _ (2 ^ 24) (rf_flocq32_ok B HB lb ub bl bu Hl Hb)).
Qed.
Print Assumptions C10_with_precision_f32.

(** with_rounding::<NewR>() then with_precision: ONE rounding under the new mode, the old mode plays no part *)
Theorem C10_with_rounding_then_precision : forall B, 2 <= B ->
  forall (rf : mode -> Z -> Z -> Z -> rounding) K, (forall m i f k, 0 <= k < K -> rf m i f k = round_fract B m i f k) ->
  forall m_old m_new p s e np, is_inf s e = false -> 0 <= p -> 0 <= np -> (p = 0 \/ dlen B s <= p) -> dlen B s - np < K ->
  with_rounding_then_precision B rf m_old m_new p s e np = Ok (norm_approx B (with_precision_spec B m_new s e np)).
Proof. exact with_rounding_then_precision_spec. Qed.
Print Assumptions C10_with_rounding_then_precision.

(** with_base_and_precision to the SAME base: ONE rounding to np digits, whatever the old precision *)
Theorem C10_same_base_single_rounding : forall B, 2 <= B ->
  forall (rf : mode -> Z -> Z -> Z -> rounding) K, (forall m i f k, 0 <= k < K -> rf m i f k = round_fract B m i f k) ->
  forall m s e np, is_inf s e = false -> 0 <= np -> dlen B s - np < K ->
  with_same_base_full B rf m s e np = Ok (norm_approx B (with_precision_spec B m s e np)).
Proof. exact with_same_base_full_spec. Qed.
Print Assumptions C10_same_base_single_rounding.

(** with_precision twice: two single roundings, the second one OF THE ROUNDED VALUE ... *)
Theorem C10_with_precision_twice_steps : forall B, 2 <= B ->
  forall (rf : mode -> Z -> Z -> Z -> rounding) K, (forall m i f k, 0 <= k < K -> rf m i f k = round_fract B m i f k) ->
  forall m p s e np1 np2,
  is_inf s e = false -> 0 <= p -> 1 <= np1 -> 0 <= np2 -> (p = 0 \/ dlen B s <= p) ->
  dlen B s - np1 < K -> np1 + 1 - np2 < K ->
  let a1 := norm_approx B (with_precision_spec B m s e np1) in
  with_precision_twice B rf m p s e np1 np2 =
    Ok (a1, norm_approx B (with_precision_spec B m (approx_sig a1) (approx_exp a1) np2)).
Proof. exact with_precision_twice_steps. Qed.
Print Assumptions C10_with_precision_twice_steps.

(** ... which for the four directed modes is the rounding of the original, at any two positions ... *)
Theorem C10_directed_rounding_twice : forall m N d1 d2, is_directed m = true -> 0 < d1 -> 0 < d2 ->
  spec_round m (spec_round m N d1) d2 = spec_round m N (d1 * d2).
Proof. exact directed_rounding_twice. Qed.
Print Assumptions C10_directed_rounding_twice.

Theorem C10_directed_digits_twice : forall B m s k1 k2, 2 <= B -> is_directed m = true -> 0 <= k1 -> 0 <= k2 ->
  spec_round m (spec_round m s (B ^ k1)) (B ^ k2) = spec_round m s (B ^ (k1 + k2)).
Proof. exact directed_digits_twice. Qed.
Print Assumptions C10_directed_digits_twice.

(** ... and for the two nearest modes is not (double rounding is not the contract) *)
Theorem C10_nearest_rounding_twice_refuted :
  spec_round MHalfAway (spec_round MHalfAway 2449 10) 10 = 25 /\ spec_round MHalfAway 2449 (10 * 10) = 24 /\
  spec_round MHalfEven (spec_round MHalfEven 2549 10) 10 = 26 /\ spec_round MHalfEven 2549 (10 * 10) = 25 /\
  with_precision_twice 10 (round_fract 10) MHalfAway 4 2449 (-3) 3 2
    = Ok (AInexact 245 (-2) AddOne, AInexact 25 (-1) AddOne) /\
  with_precision_full 10 (round_fract 10) MHalfAway 4 2449 (-3) 2 = Ok (AInexact 24 (-1) NoOp).
Proof. exact nearest_rounding_twice_refuted. Qed.
Print Assumptions C10_nearest_rounding_twice_refuted.

(* ---------------------------------------------------------------- rational/src/round.rs, regenerated bodies *)

Theorem C10_rat_generated_bodies : forall n d,
  rat_split_at_point_gen n d = rat_split n d /\ rat_ceil_gen n d = rat_ceil n d /\
  rat_floor_gen n d = rat_floor n d /\ rat_trunc_gen n d = rat_trunc n d /\
  rat_fract_gen n d = rat_fract n d /\ rat_round_gen n d = rat_round n d.
Proof. exact rat_gen_is_model. Qed.
Print Assumptions C10_rat_generated_bodies.

Theorem C10_rat_generated_spec : forall n d, 0 < d ->
  rat_trunc_gen n d = spec_round MZero n d /\ rat_floor_gen n d = spec_round MDown n d /\
  rat_ceil_gen n d = spec_round MUp n d /\ rat_round_gen n d = spec_round MHalfAway n d /\
  rat_split_at_point_gen n d = (rat_trunc_gen n d, rat_fract_gen n d) /\
  (let '(fn, fd) := rat_fract_gen n d in
   0 < fd /\ n * fd = rat_trunc_gen n d * d * fd + fn * d /\ Z.abs fn < fd /\
   (0 <= n -> 0 <= fn) /\ (n <= 0 -> fn <= 0) /\ (Z.gcd n d = 1 -> Z.gcd fn fd = 1)).
Proof. exact rat_gen_spec. Qed.
Print Assumptions C10_rat_generated_spec.

(* ---------------------------------------------------------------- the two primitives: regenerated bodies, any input *)

Theorem C10_round_fract_generated : forall B cg cl m i f k,
  round_fract_gen cg cl (round_low_part m) B i f k = round_fract_filtered B cg cl m i f k.
Proof. exact round_fract_gen_is_model. Qed.
Print Assumptions C10_round_fract_generated.

(** restated in round 4 for the repaired source (F04: /repo 0cb53f5, the assertion looks at the sizes first and takes
    usize::MAX = M and the base as written; F05: /repo 0c09fb1, |num| < |den|): the regenerated conditions are the
    repaired models, and round_fract in a build with debug assertions is still round_fract behind |fract| < B^k *)
Theorem C10_round_fract_assertion_generated : forall M B, 2 <= B -> forall m i f k,
  round_fract_pre_gen M B f k = round_fract_pre4 M B f k /\
  round_fract_debug B m i f k = if round_fract_pre_gen M B f k then Ok (round_fract B m i f k) else Panic Undocumented.
Proof. exact round_fract_pre_gen_is_model. Qed.
Print Assumptions C10_round_fract_assertion_generated.

Theorem C10_round_ratio_generated : forall m i n d,
  round_ratio_gen (round_low_part m) i n d = round_ratio m i n d /\ round_ratio_pre_gen n d = round_ratio_pre4 n d.
Proof. exact (fun m i n d => conj (round_ratio_gen_is_model m i n d) (round_ratio_pre_gen_is_model n d)). Qed.
Print Assumptions C10_round_ratio_generated.

Theorem C10_small_tests_generated : forall dub s e,
  smaller_than_one_gen dub s e = smaller_than_one dub s e /\ round_to_zero_test_gen dub s e = (e + dub s <? -2).
Proof. exact smaller_than_one_gen_is_model. Qed.
Print Assumptions C10_small_tests_generated.

Theorem C10_round_fract_any_input : forall B, 2 <= B -> forall m i f k, 0 <= k ->
  (Z.abs f < B ^ k -> exists r, round_fract_debug B m i f k = Ok r /\ i + adj r = spec_round m (i * B ^ k + f) (B ^ k)) /\
  (B ^ k <= Z.abs f -> round_fract_debug B m i f k = Panic Undocumented).
Proof. exact round_fract_debug_spec. Qed.
Print Assumptions C10_round_fract_any_input.

Theorem C10_round_fract_precision_zero : forall B m i f,
  round_fract_debug B m i f 0 = if f =? 0 then Ok NoOp else Panic Undocumented.
Proof. exact round_fract_precision_zero. Qed.
Print Assumptions C10_round_fract_precision_zero.

Theorem C10_zero_low_part : forall B m i k d, round_fract B m i 0 k = NoOp /\ round_ratio m i 0 d = NoOp.
Proof. exact (fun B m i k d => conj (round_fract_zero_low B m i k) (round_ratio_zero_low m i d)). Qed.
Print Assumptions C10_zero_low_part.

Theorem C10_round_fract_release_outside_refuted :
  round_fract_release 10 MDown 5 30 1 = Ok NoOp /\ spec_round MDown (5 * 10 ^ 1 + 30) (10 ^ 1) = 8 /\
  round_fract_debug 10 MDown 5 30 1 = Panic Undocumented.
Proof. exact round_fract_release_outside_refuted. Qed.
Print Assumptions C10_round_fract_release_outside_refuted.

Theorem C10_round_ratio_any_input : forall m I num den,
  (den <> 0 -> Z.abs num < Z.abs den ->
     exists r, round_ratio_pub m I num den = Ok r /\
       I + adj r = spec_round m (Z.sgn den * (I * den + num)) (Z.abs den)) /\
  (den = 0 \/ Z.abs den < Z.abs num -> round_ratio_pub m I num den = Panic Undocumented).
Proof. exact round_ratio_pub_spec. Qed.
Print Assumptions C10_round_ratio_any_input.

(** |num| = |den| passes round_ratio's assertion (documented: |num/den| < 1): right for the nearest modes ... *)
Theorem C10_round_ratio_boundary_nearest : forall m I num den, is_half_mode m = true -> den <> 0 -> Z.abs num = Z.abs den ->
  exists r, round_ratio_pub m I num den = Ok r /\
    I + adj r = spec_round m (Z.sgn den * (I * den + num)) (Z.abs den).
Proof. exact round_ratio_boundary_half. Qed.
Print Assumptions C10_round_ratio_boundary_nearest.

(** ... wrong for the directed ones *)
Theorem C10_round_ratio_boundary_directed_refuted :
  round_ratio_pub MDown 0 1 1 = Ok NoOp /\ spec_round MDown (Z.sgn 1 * (0 * 1 + 1)) (Z.abs 1) = 1 /\
  round_ratio_pub MZero 3 (-2) 2 = Ok SubOne /\ round_ratio_pub MZero 3 2 2 = Ok NoOp /\
  spec_round MZero (Z.sgn 2 * (3 * 2 + 2)) (Z.abs 2) = 4.
Proof. exact round_ratio_boundary_directed_refuted. Qed.
Print Assumptions C10_round_ratio_boundary_directed_refuted.

(* ---------------------------------------------------------------- values far below one: the specification without a power *)

(** with at least one zero digit after the radix point the six roundings depend on the sign only; the oracle decides
    with these forms where B^(-e) cannot be formed (exponents down to isize::MIN, finding F03) *)
Theorem C10_int_spec_tiny : forall B, 2 <= B -> forall m s e, dlen B s + 1 <= - e -> int_spec B m s e = int_tiny m s.
Proof. exact int_spec_tiny. Qed.
Print Assumptions C10_int_spec_tiny.

Theorem C10_fract_tiny : forall B, 2 <= B -> forall s e, dlen B s + 1 <= - e -> fract_sig_spec B s e = s.
Proof. exact fract_sig_tiny. Qed.
Print Assumptions C10_fract_tiny.

Theorem C10_to_int_tiny : forall B, 2 <= B -> forall m s e, dlen B s + 1 <= - e -> to_int_spec B m s e = to_int_tiny m s.
Proof. exact to_int_spec_tiny. Qed.
Print Assumptions C10_to_int_tiny.

(* ---------------------------------------------------------------- with_precision twice at float level, directed modes *)

(** x.with_precision(np1).value().with_precision(np2), np2 <= np1, under Zero/Away/Up/Down: the same VALUE as
    x.with_precision(np2) - through the carry of the first rounding and the normalisation in between ... *)
Theorem C10_with_precision_twice_directed : forall B, 2 <= B -> forall m s e np1 np2,
  is_directed m = true -> 1 <= np2 -> np2 <= np1 ->
  let a1 := norm_approx B (with_precision_spec B m s e np1) in
  let a2 := norm_approx B (with_precision_spec B m (approx_sig a1) (approx_exp a1) np2) in
  let a := norm_approx B (with_precision_spec B m s e np2) in
  same_value B (approx_sig a2) (approx_exp a2) (approx_sig a) (approx_exp a).
Proof. exact with_precision_twice_directed. Qed.
Print Assumptions C10_with_precision_twice_directed.

(** ... and for a float as Repr::new leaves it, literally the same significand and exponent (the flags differ: each is
    relative to its own input) *)
Theorem C10_with_precision_twice_directed_eq : forall B, 2 <= B -> forall m s e np1 np2,
  is_directed m = true -> 1 <= np2 -> np2 <= np1 -> s mod B <> 0 ->
  let a1 := norm_approx B (with_precision_spec B m s e np1) in
  let a2 := norm_approx B (with_precision_spec B m (approx_sig a1) (approx_exp a1) np2) in
  let a := norm_approx B (with_precision_spec B m s e np2) in
  approx_sig a2 = approx_sig a /\ approx_exp a2 = approx_exp a.
Proof. exact with_precision_twice_directed_eq. Qed.
Print Assumptions C10_with_precision_twice_directed_eq.

(* ================================================================ round 4 *)

(* ---------------------------------------------------------------- F04: the debug assertion of round_fract *)

(** the repaired assertion (bit lengths first, B^k only when they do not decide) is the condition |fract| < B^k for
    EVERY input, any usize::MAX M, any base >= 2 ... *)
Theorem C10_assertion_repair_same_condition : forall M B, 2 <= B -> forall f k,
  round_fract_pre4 M B f k = (Z.abs f <? B ^ k).
Proof. exact round_fract_pre4_eq. Qed.
Print Assumptions C10_assertion_repair_same_condition.

Theorem C10_round_fract_debug_repaired : forall M B, 2 <= B -> forall m i f k, 0 <= k ->
  round_fract_debug4 M B m i f k = round_fract_debug B m i f k /\
  (Z.abs f < B ^ k -> exists r, round_fract_debug4 M B m i f k = Ok r /\ i + adj r = spec_round m (i * B ^ k + f) (B ^ k)) /\
  (B ^ k <= Z.abs f -> round_fract_debug4 M B m i f k = Panic Undocumented).
Proof.
  exact (fun M B HB m i f k Hk => conj (round_fract_debug4_eq M B HB m i f k)
           (round_fract_debug4_spec M B HB m i f k Hk)).
Qed.
Print Assumptions C10_round_fract_debug_repaired.

(** ... and its cost is bounded by the fraction: the power is formed only if the digit count is below the bit length of
    the fraction, and then has fewer than twice its bits; before the repair it had more than k bits whatever the
    fraction (FBig::to_int of 1 * 10^isize::MIN: 2^63 digits - witness) *)
Theorem C10_assertion_cost : forall M B, 2 <= B -> forall f k, 0 <= k -> blen f <= M ->
  (fract_cheap M B f k = false -> k < blen f /\ B ^ k < 2 ^ (2 * blen f)) /\
  assert_power_bits_new M B f k <= 2 * blen f /\ k < assert_power_bits_old B f k.
Proof.
  exact (fun M B HB f k Hk HM => conj (power_formed_small M B HB f k Hk HM)
           (conj (assert_new_cost M B HB f k Hk HM) (assert_old_cost B HB f k Hk))).
Qed.
Print Assumptions C10_assertion_cost.

Theorem C10_assertion_cost_refuted :
  assert_power_bits_new (2 ^ 64 - 1) 10 1 (2 ^ 63) = 0 /\ 2 ^ 63 < assert_power_bits_old 10 1 (2 ^ 63) /\
  round_fract_any4 (2 ^ 64 - 1) 10 MHalfEven 0 1 (2 ^ 63) = Ok NoOp.
Proof. exact assert_cost_refuted. Qed.
Print Assumptions C10_assertion_cost_refuted.

(** far below one half the primitive needs no power at all (the oracle's form up to usize::MAX digits) *)
Theorem C10_round_fract_far_below_half : forall M B, 2 <= B -> forall m i f k,
  (2 * Z.abs f < B ^ k -> round_fract B m i f k = round_fract_tiny m i f) /\
  (blen f + 1 <= sat_mul M k (blen B - 1) -> round_fract B m i f k = round_fract_tiny m i f /\ Z.abs f < B ^ k) /\
  round_fract_any4 M B m i f k = round_fract_debug B m i f k /\
  round_fract_sz M B m i f k = round_fract B m i f k.
Proof.
  exact (fun M B HB m i f k => conj (round_fract_tiny_eq B m i f k) (conj (round_fract_tiny_sizes M B HB m i f k)
           (conj (round_fract_any4_eq M B HB m i f k) (round_fract_sz_eq M B HB m i f k)))).
Qed.
Print Assumptions C10_round_fract_far_below_half.

(** FBig::to_int with the repaired assertion: the same function as before for every implementation of the primitive,
    and the specification at EVERY exponent (no bound on the number of digits after the radix point) *)
Theorem C10_to_int_repaired : forall M B, 2 <= B -> forall digits_ub rf m p s e,
  to_int_full4 M B digits_ub rf m p s e = to_int_full B digits_ub rf m p s e.
Proof. exact to_int_full4_eq. Qed.
Print Assumptions C10_to_int_repaired.

Theorem C10_to_int_any_exponent : forall M B, 2 <= B -> forall digits_ub, (forall s, dlen B s <= digits_ub s) ->
  forall m p s e, is_inf s e = false -> (e < 0 -> s mod B <> 0) ->
  to_int_full4 M B digits_ub (round_fract_sz M B) m p s e = Ok (to_int_spec B m s e).
Proof. exact to_int_any_exponent. Qed.
Print Assumptions C10_to_int_any_exponent.

(* ---------------------------------------------------------------- F05: the assertion of round_ratio *)

(** with |num| < |den| asserted, round_ratio answers iff the documented precondition holds and every answer is the
    specification's adjustment, for all six modes ... *)
Theorem C10_round_ratio_repaired : forall m I num den,
  (den <> 0 -> Z.abs num < Z.abs den ->
     exists r, round_ratio_pub4 m I num den = Ok r /\
       I + adj r = spec_round m (Z.sgn den * (I * den + num)) (Z.abs den)) /\
  (den = 0 \/ Z.abs den <= Z.abs num -> round_ratio_pub4 m I num den = Panic Undocumented) /\
  (forall r, round_ratio_pub4 m I num den = Ok r ->
     I + adj r = spec_round m (Z.sgn den * (I * den + num)) (Z.abs den)).
Proof.
  exact (fun m I num den => conj (proj1 (round_ratio_pub4_spec m I num den)) (conj (proj2 (round_ratio_pub4_spec m I num den))
           (fun r H => proj2 (proj2 (proj2 (round_ratio_pub4_sound m I num den r H)))))).
Qed.
Print Assumptions C10_round_ratio_repaired.

(** ... it differs from the assertion before the repair at |num| = |den| only ... *)
Theorem C10_round_ratio_repair_changes_boundary_only : forall m I num den,
  (Z.abs num <> Z.abs den -> round_ratio_pub4 m I num den = round_ratio_pub m I num den) /\
  (Z.abs num = Z.abs den -> round_ratio_pub4 m I num den = Panic Undocumented).
Proof. exact round_ratio_pub4_vs_old. Qed.
Print Assumptions C10_round_ratio_repair_changes_boundary_only.

(** ... and every shape of argument the workspace passes satisfies it: the remainder of a truncating division by the
    denominator (repr_div, to_float), or lo * den + r against den * scale (convert_base, to_float with extra digits) *)
Theorem C10_round_ratio_callers_pass : forall a den lo r D S,
  (den <> 0 -> round_ratio_pre4 (Z.rem a den) den = true) /\
  (0 < D -> 0 < S -> Z.abs lo < S -> Z.abs r < D -> 0 <= lo * r -> round_ratio_pre4 (lo * D + r) (D * S) = true).
Proof. exact (fun a den lo r D S => conj (rem_passes a den) (scaled_rem_passes lo r D S)). Qed.
Print Assumptions C10_round_ratio_callers_pass.

(* ---------------------------------------------------------------- Round::Reverse (table regenerated by C11) *)

(** a directed mode and its Reverse (ElemParams.reverse_mode_gen, regenerated from the six `impl Round` by C11's
    translator) return the floor and the ceiling of the exact value, which differ by one unless it is an integer;
    a nearest mode is its own reverse *)
Theorem C10_reverse_mode_brackets : forall m N d, 0 < d ->
  (is_directed m = true ->
     (spec_round m N d = spec_round MDown N d /\ spec_round (reverse_mode_gen m) N d = spec_round MUp N d) \/
     (spec_round m N d = spec_round MUp N d /\ spec_round (reverse_mode_gen m) N d = spec_round MDown N d)) /\
  spec_round MUp N d - spec_round MDown N d = (if N mod d =? 0 then 0 else 1) /\
  (is_half_mode m = true -> reverse_mode_gen m = m).
Proof.
  exact (fun m N d Hd => conj (reverse_pair m N d Hd) (conj (up_minus_down N d Hd) (reverse_nearest m))).
Qed.
Print Assumptions C10_reverse_mode_brackets.

(* ---------------------------------------------------------------- the f32 pre-filter with 2^24 and more digits *)

(** from 2^24 digits on `precision as f32` is rounded; the two coarse tests stay sound because the bounds of
    log2_bounds_large have slack: abstract f32 arithmetic (monotone rounding, conversion within 2^-24, the two literals
    within 0.9991 / 1.0009), bounds with the slack of the ADJUST factor for numbers of more than two words *)
Theorem C10_f32_filter_large_abstract : forall B, 2 <= B -> forall (fl : Q -> Q) (cvt : Z -> Q) (lb ub : Z -> Q) (b_lb b_ub c999 c1001 : Q),
  (forall x y, (x <= y)%Q -> (fl x <= fl y)%Q) ->
  (forall k, 2 ^ 24 <= k -> (IZR k * (1 - u32) <= Q2R (cvt k) <= IZR k * (1 + u32))%R) ->
  (forall f, 0 < f -> (Q2R (lb f) <= log2R (IZR f) <= Q2R (ub f))%R) ->
  (forall f, 2 ^ 128 <= f -> (Q2R (lb f) <= log2R (IZR f) * (1 - u32))%R) ->
  (forall f, 2 ^ 128 <= f -> (log2R (IZR f) * (1 + u32 - 9 * u32 * u32) - / 1073741824 <= Q2R (ub f))%R) ->
  (Q2R b_lb <= log2R (IZR B) <= Q2R b_ub)%R ->
  (Q2R c999 <= 9991 / 10000)%R -> (10009 / 10000 <= Q2R c1001)%R ->
  forall m i fract k, 2 ^ 24 <= k -> Z.log2 (Z.abs fract) < 2 ^ 34 ->
  round_fract_f32 fl cvt lb ub b_lb b_ub c999 c1001 B m i fract k = round_fract B m i fract k.
Proof. exact round_fract_f32_eq_large. Qed.
Print Assumptions C10_f32_filter_large_abstract.

(** the two products of integer/src/log.rs log2_bounds_large in Flocq's binary32 have that slack, for ANY bounds of the
    top double word that enclose its logarithm (three roundings cost (1 + u)^3, and (1 + u)^3 (1 - 4u) < 1 - u) *)
Theorem C10_log2_bounds_large_slack : forall lbs ubs : Z -> Q,
  (forall h, 0 < h < 2 ^ 128 -> (Q2R (lbs h) <= log2R (IZR h) <= Q2R (ubs h))%R) ->
  (forall f, 0 < f -> (Q2R (ubig_lb32 lbs f) <= log2R (IZR f) <= Q2R (ubig_ub32 ubs f))%R) /\
  (forall f, 2 ^ 128 <= f -> (Q2R (ubig_lb32 lbs f) <= log2R (IZR f) * (1 - u32))%R) /\
  (forall f, 2 ^ 128 <= f -> (log2R (IZR f) * (1 + u32 - 9 * u32 * u32) - / 1073741824 <= Q2R (ubig_ub32 ubs f))%R).
Proof.
  exact (fun lbs ubs H => conj (ubig_bounds_sound lbs ubs H) (conj (ubig_lb_slack lbs ubs H) (ubig_ub_slack lbs ubs H))).
Qed.
Print Assumptions C10_log2_bounds_large_slack.

(** Round::round_fract as written - binary32 arithmetic of Flocq, TypedReprRef::log2_bounds of the fraction computed
    from any sound double-word bounds, any sound bounds of the base - is the exact comparison for EVERY digit count
    (fractions of fewer than 2^34 bits): the f32 filter is no longer "compared only" from 2^24 digits on *)
Theorem C10_f32_filter_all_digit_counts : forall lbs ubs : Z -> Q,
  (forall h, 0 < h < 2 ^ 128 -> (Q2R (lbs h) <= log2R (IZR h) <= Q2R (ubs h))%R) ->
  forall B, 2 <= B -> forall b_lb b_ub : Q, (Q2R b_lb <= log2R (IZR B) <= Q2R b_ub)%R ->
  forall m i fract k, 0 <= k -> Z.log2 (Z.abs fract) < 2 ^ 34 ->
  round_fract_f32 fl32 cvt32 (ubig_lb32 lbs) (ubig_ub32 ubs) b_lb b_ub c999_32 c1001_32 B m i fract k = round_fract B m i fract k.
Proof. exact round_fract_flocq32_all. Qed.
Print Assumptions C10_f32_filter_all_digit_counts.

(* ---------------------------------------------------------------- the entry-point bodies, regenerated from source *)

(** FBig::{trunc, split_at_point, fract, ceil, floor, round, split_at_point_internal} (float/src/round_ops.rs) and
    FBig::to_int / Repr::to_int (float/src/convert.rs), translated from the Rust source on every run
    (coq/gen/RoundOpsGen.v), ARE the entry-point models the theorems above speak about - for every input, infinities
    included, over any implementation rf of round_fract behind its assertion *)
Theorem C10_entry_point_bodies_generated : forall B digits_ub (rf : mode -> Z -> Z -> Z -> rounding) p s e,
  trunc_gen B digits_ub p s e = trunc_full B digits_ub p s e /\
  split_at_point_gen B digits_ub p s e = split_full B digits_ub p s e /\
  fract_gen B digits_ub p s e = fract_full B digits_ub p s e /\
  ceil_gen B digits_ub (round_fract_chk_rf B rf) p s e = ceil_full B digits_ub rf p s e /\
  floor_gen B digits_ub (round_fract_chk_rf B rf) p s e = floor_full B digits_ub rf p s e /\
  round_gen B digits_ub (round_fract_chk_rf B rf) p s e = round_full B digits_ub rf p s e /\
  (forall m, to_int_gen B digits_ub (round_fract_chk_rf B rf) m p s e = to_int_full B digits_ub rf m p s e) /\
  repr_to_int_gen B digits_ub s e = repr_to_int_full B digits_ub s e /\
  (e < 0 -> split_internal_gen B digits_ub p s e = split_internal B digits_ub false p s e).
Proof.
  exact (fun B dub rf p s e =>
    conj (trunc_gen_is_model B dub p s e) (conj (split_at_point_gen_is_model B dub p s e) (conj (fract_gen_is_model B dub p s e)
    (conj (ceil_gen_is_model B dub rf p s e) (conj (floor_gen_is_model B dub rf p s e) (conj (round_gen_is_model B dub rf p s e)
    (conj (fun m => to_int_gen_is_model B dub rf m p s e) (conj (repr_to_int_gen_is_model B dub s e)
    (split_internal_gen_is_model B dub p s e))))))))).
Qed.
Print Assumptions C10_entry_point_bodies_generated.

(** Context::repr_round / repr_round_ref (float/src/repr.rs: finiteness assertion, digit count, split, round_fract,
    Repr::new of the adjusted significand) and the condition under which FBig::with_precision rounds, regenerated, are the
    models of C10_with_precision_full *)
Theorem C10_digit_removal_generated : forall B (rf : mode -> Z -> Z -> Z -> rounding) m p s e np,
  repr_round_gen B (round_fract_chk_rf B rf) p m s e = assert_finite s e (rmap (norm_approx B) (repr_round_rf B rf p m s e)) /\
  repr_round_ref_gen B (round_fract_chk_rf B rf) p m s e = repr_round_gen B (round_fract_chk_rf B rf) p m s e /\
  (if with_precision_rounds_gen p np then repr_round_gen B (round_fract_chk_rf B rf) np m s e else Ok (AExact s e)) =
    with_precision_full B rf m p s e np.
Proof.
  exact (fun B rf m p s e np => conj (proj1 (repr_round_gen_is_model B rf p m s e))
           (conj (proj2 (repr_round_gen_is_model B rf p m s e)) (with_precision_gen_is_model B rf m p s e np))).
Qed.
Print Assumptions C10_digit_removal_generated.

(** the precision attached to the results (documented at FBig::round): an integer keeps its precision; otherwise the
    number of digits after the radix point is subtracted (saturating) - or the result is one of the shortcut constants
    0, 1, -1 with precision 0; the fractional part carries the digit count of the fraction (split_at_point's shortcut for
    |x| < 1 returns the float itself) *)
Theorem C10_result_precisions : forall B digits_ub (rf : mode -> Z -> Z -> Z -> rounding) p s e,
  (forall f, trunc_full B digits_ub p s e = Ok f -> prec_int_ok p e f) /\
  (forall f, floor_full B digits_ub rf p s e = Ok f -> prec_int_ok p e f) /\
  (forall f, ceil_full B digits_ub rf p s e = Ok f -> prec_int_ok p e f) /\
  (forall f, round_full B digits_ub rf p s e = Ok f -> prec_int_ok p e f) /\
  (forall f, fract_full B digits_ub p s e = Ok f -> snd f = if 0 <=? e then 0 else - e) /\
  (forall t f, split_full B digits_ub p s e = Ok (t, f) ->
     prec_int_ok p e t /\ (if 0 <=? e then snd f = 0 else (snd f = - e \/ snd f = p))).
Proof. exact entry_precisions. Qed.
Print Assumptions C10_result_precisions.

(* ---------------------------------------------------------------- the entry points with the filter as written, no digit bound *)

(** FBig::to_int with Round::round_fract AS WRITTEN (f32 pre-filter in Flocq's binary32, TypedReprRef::log2_bounds from any
    sound double-word bounds, any sound bounds of the base): the specification at every exponent, for significands of fewer
    than 2^34 bits - the bound "fewer than 2^24 digits after the radix point" of C10_to_int_f32 is gone *)
Theorem C10_to_int_f32_any_exponent : forall lbs ubs : Z -> Q,
  (forall h, 0 < h < 2 ^ 128 -> (Q2R (lbs h) <= log2R (IZR h) <= Q2R (ubs h))%R) ->
  forall B, 2 <= B -> forall b_lb b_ub : Q, (Q2R b_lb <= log2R (IZR B) <= Q2R b_ub)%R ->
  forall digits_ub, (forall s, dlen B s <= digits_ub s) ->
  forall m p s e, is_inf s e = false -> (e < 0 -> s mod B <> 0) -> Z.log2 (Z.abs s) < 2 ^ 34 ->
  to_int_full B digits_ub (rf32 lbs ubs B b_lb b_ub) m p s e = Ok (to_int_spec B m s e).
Proof. exact to_int_f32_any_exponent. Qed.
Print Assumptions C10_to_int_f32_any_exponent.

(** FBig::with_precision likewise: any number of removed digits *)
Theorem C10_with_precision_f32_any : forall lbs ubs : Z -> Q,
  (forall h, 0 < h < 2 ^ 128 -> (Q2R (lbs h) <= log2R (IZR h) <= Q2R (ubs h))%R) ->
  forall B, 2 <= B -> forall b_lb b_ub : Q, (Q2R b_lb <= log2R (IZR B) <= Q2R b_ub)%R ->
  forall m p s e np, is_inf s e = false -> 0 <= p -> 0 <= np -> (p = 0 \/ dlen B s <= p) -> Z.log2 (Z.abs s) < 2 ^ 34 ->
  with_precision_full B (rf32 lbs ubs B b_lb b_ub) m p s e np = Ok (norm_approx B (with_precision_spec B m s e np)).
Proof. exact with_precision_f32_any. Qed.
Print Assumptions C10_with_precision_f32_any.
