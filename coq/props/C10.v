(** C10 - rounding to integers or to fewer digits picks the right neighbour. Statements only. *)
From Dashu Require Import Base.Prelude Float.RoundSpec Float.RoundTablesProof Float.RoundSpecProof.
From DashuGen Require Import RoundTables.
Open Scope Z_scope.

Theorem C10_T_round : forall m I n d, 0 < d -> n <> 0 -> Z.abs n < d ->
  I + adj (round_low_part m I (sign_of n) (2 * Z.abs n ?= d)) = spec_round m (I * d + n) d.
Proof. exact T_round. Qed.
Print Assumptions C10_T_round.
