(** C03 - float arithmetic honours the documented rounding contract of its mode. Statements only. *)
From Dashu Require Import Base.Prelude Float.RoundSpec Float.RoundTablesProof Float.RoundSpecProof.
From DashuGen Require Import RoundTables.
Open Scope Z_scope.

Theorem C03_T_round : forall m I n d, 0 < d -> n <> 0 -> Z.abs n < d ->
  I + adj (round_low_part m I (sign_of n) (2 * Z.abs n ?= d)) = spec_round m (I * d + n) d.
Proof. exact T_round. Qed.
Print Assumptions C03_T_round.

Theorem C03_spec_round_error : forall m N d, 0 < d ->
  let r := spec_round m N d in
  Z.abs (r * d - N) < d /\ (is_half_mode m = true -> 2 * Z.abs (r * d - N) <= d).
Proof. exact spec_round_error. Qed.
Print Assumptions C03_spec_round_error.

Theorem C03_spec_round_side : forall m N d, 0 < d -> side_ok m N d (spec_round m N d).
Proof. exact spec_round_side. Qed.
Print Assumptions C03_spec_round_side.

Theorem C03_spec_round_exact : forall m N d, 0 < d -> N mod d = 0 -> spec_round m N d * d = N.
Proof. exact spec_round_exact. Qed.
Print Assumptions C03_spec_round_exact.

Theorem C03_tie_even : forall N d, 0 < d -> 2 * (N mod d) = d -> Z.even (spec_round MHalfEven N d) = true.
Proof. exact spec_round_tie_even. Qed.
Print Assumptions C03_tie_even.

Theorem C03_tie_away : forall N d, 0 < d -> 2 * (N mod d) = d -> Z.abs N < Z.abs (spec_round MHalfAway N d * d).
Proof. exact spec_round_tie_away. Qed.
Print Assumptions C03_tie_away.
