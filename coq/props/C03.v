(** C03 - float arithmetic honours the documented rounding contract of its mode. Statements only. *)
From Dashu Require Import Base.Prelude Float.RoundSpec Float.RoundTablesProof Float.RoundSpecProof.
From DashuGen Require Import RoundTables.
Open Scope Z_scope.

Theorem C03_T_round : forall m I n d, 0 < d -> n <> 0 -> Z.abs n < d ->
  I + adj (round_low_part m I (sign_of n) (2 * Z.abs n ?= d)) = spec_round m (I * d + n) d.
Proof. exact T_round. Qed.
Print Assumptions C03_T_round.

Theorem C03_spec_round_error : forall m N d, 0 < d ->
  let r := spec_round m N d in
  Z.abs (r * d - N) < d /\ (is_half_mode m = true -> 2 * Z.abs (r * d - N) <= d).
Proof. exact spec_round_error. Qed.
Print Assumptions C03_spec_round_error.

Theorem C03_spec_round_side : forall m N d, 0 < d -> side_ok m N d (spec_round m N d).
Proof. exact spec_round_side. Qed.
Print Assumptions C03_spec_round_side.

Theorem C03_spec_round_exact : forall m N d, 0 < d -> N mod d = 0 -> spec_round m N d * d = N.
Proof. exact spec_round_exact. Qed.
Print Assumptions C03_spec_round_exact.

Theorem C03_tie_even : forall N d, 0 < d -> 2 * (N mod d) = d -> Z.even (spec_round MHalfEven N d) = true.
Proof. exact spec_round_tie_even. Qed.
Print Assumptions C03_tie_even.

Theorem C03_tie_away : forall N d, 0 < d -> 2 * (N mod d) = d -> Z.abs N < Z.abs (spec_round MHalfAway N d * d).
Proof. exact spec_round_tie_away. Qed.
Print Assumptions C03_tie_away.

From Dashu Require Import Float.Contract Float.Model Float.ModelProof.

(** as-is models of float/src/{round,repr,mul,div}.rs *)
Theorem C03_round_fract : forall B, 2 <= B -> forall m hi lo k, 0 <= k -> Z.abs lo < B ^ k ->
  hi + adj (round_fract B m hi lo k) = spec_round m (hi * B ^ k + lo) (B ^ k).
Proof. exact round_fract_spec. Qed.
Print Assumptions C03_round_fract.

Theorem C03_round_ratio : forall m I num den, den <> 0 -> Z.abs num < Z.abs den ->
  I + adj (round_ratio m I num den) = spec_round m (Z.sgn den * (I * den + num)) (Z.abs den).
Proof. exact round_ratio_spec. Qed.
Print Assumptions C03_round_ratio.

Theorem C03_repr_round_exact : forall B p m s e, dlen B s <= p -> repr_round B p m s e = AExact s e.
Proof. exact repr_round_exact. Qed.
Print Assumptions C03_repr_round_exact.

Theorem C03_repr_round_error : forall B, 2 <= B -> forall p m s e, 1 <= p -> p < dlen B s ->
  let k := dlen B s - p in
  let r := approx_sig (repr_round B p m s e) in
  Z.abs (r * B ^ k - s) < B ^ k /\ (is_half_mode m = true -> 2 * Z.abs (r * B ^ k - s) <= B ^ k) /\
  side_ok m s (B ^ k) r /\ approx_exp (repr_round B p m s e) = e + k.
Proof. exact repr_round_error. Qed.
Print Assumptions C03_repr_round_error.

Theorem C03_repr_round_digits : forall B, 2 <= B -> forall p m s e, 1 <= p -> p < dlen B s ->
  let r := approx_sig (repr_round B p m s e) in B ^ (p - 1) <= Z.abs r <= B ^ p.
Proof. exact repr_round_digits. Qed.
Print Assumptions C03_repr_round_digits.

Theorem C03_mul : forall B p m s1 e1 s2 e2, 1 <= p -> dlen B s1 <= p -> dlen B s2 <= p ->
  ctx_mul B p m s1 e1 s2 e2 = (let '(s, e) := normalize B (s1 * s2) (e1 + e2) in repr_round B p m s e).
Proof. exact ctx_mul_spec. Qed.
Print Assumptions C03_mul.

Theorem C03_sqr_cubic : forall B p m s e, 1 <= p -> dlen B s <= p ->
  ctx_sqr B p m s e = (let '(s', e') := normalize B (s * s) (2 * e) in repr_round B p m s' e') /\
  ctx_cubic B p m s e = (let '(s', e') := normalize B (s * s * s) (3 * e) in repr_round B p m s' e').
Proof. intros; split; [apply ctx_sqr_spec | apply ctx_cubic_spec]; assumption. Qed.
Print Assumptions C03_sqr_cubic.

Theorem C03_normalize : forall B, 2 <= B -> forall s e,
  let '(s', e') := normalize B s e in
  (s = 0 -> s' = 0 /\ e' = 0) /\
  (s <> 0 -> s' <> 0 /\ s' mod B <> 0 /\ exists k, 0 <= k /\ e' = e + k /\ s = s' * B ^ k).
Proof. exact normalize_spec. Qed.
Print Assumptions C03_normalize.

Theorem C03_inexact_truthful : forall B, 2 <= B -> forall s k, s mod B <> 0 -> 1 <= k -> Z.rem s (B ^ k) <> 0.
Proof. exact normalized_low_nonzero. Qed.
Print Assumptions C03_inexact_truthful.

Theorem C03_div : forall B, 2 <= B -> forall p m s1 e1 s2 e2, 1 <= p -> s2 <> 0 ->
  let k := repr_div_shift B p s1 s2 in
  0 <= k /\
  exists a, repr_div B p m s1 e1 s2 e2 = Ok a /\
    approx_exp a = e1 - e2 - k /\
    approx_sig a = spec_round m (Z.sgn s2 * (s1 * B ^ k)) (Z.abs s2) /\
    (match a with AExact q _ => q * s2 = s1 * B ^ k | AInexact _ _ _ => (s1 * B ^ k) mod s2 <> 0 end).
Proof. exact repr_div_spec. Qed.
Print Assumptions C03_div.

Theorem C03_div_magnitude : forall B, 2 <= B -> forall p s1 s2, 1 <= p -> s2 <> 0 -> Z.rem s1 s2 <> 0 ->
  let k := repr_div_shift B p s1 s2 in
  (B ^ (p - 1) * Z.abs s2 <= Z.abs s1 * B ^ k) /\
  (dlen B s1 <= p + dlen B s2 -> Z.abs s1 * B ^ k < B ^ (p + 1) * Z.abs s2).
Proof. exact repr_div_magnitude. Qed.
Print Assumptions C03_div_magnitude.

Theorem C03_div_by_zero : forall B p m s1 e1 e2, 1 <= p -> repr_div B p m s1 e1 0 e2 = Panic DivideBy0.
Proof. exact repr_div_by_zero. Qed.
Print Assumptions C03_div_by_zero.

From Dashu Require Import Float.AddModel Float.AddModelProof.

(** as-is model of float/src/add.rs: every alignment / re-alignment branch, for ALL operands that
    fit the precision, every base, mode, sign and exponent gap, and every sound digit estimate *)
Theorem C03_add : forall B, 2 <= B -> forall digits_ub, (forall s, dlen B s <= digits_ub s) ->
  forall p m s1 e1 s2 e2, 1 <= p -> dlen B s1 <= p -> dlen B s2 <= p ->
  rounded_sum B p m (exact_sum B s1 e1 s2 e2 Positive) (Z.min e1 e2) (ctx_add B digits_ub p m s1 e1 s2 e2).
Proof. exact ctx_add_correct. Qed.
Print Assumptions C03_add.

Theorem C03_sub : forall B, 2 <= B -> forall digits_ub, (forall s, dlen B s <= digits_ub s) ->
  forall p m s1 e1 s2 e2, 1 <= p -> dlen B s1 <= p -> dlen B s2 <= p ->
  rounded_sum B p m (exact_sum B s1 e1 s2 e2 Negative) (Z.min e1 e2) (ctx_sub B digits_ub p m s1 e1 s2 e2).
Proof. exact ctx_sub_correct. Qed.
Print Assumptions C03_sub.

Theorem C03_add_operator_forms : forall B, 2 <= B -> forall digits_ub, (forall s, dlen B s <= digits_ub s) ->
  forall p1 p2 m s1 e1 s2 e2 sg, let p := ctx_max p1 p2 in 1 <= p -> dlen B s1 <= p -> dlen B s2 <= p ->
  form_ok B p m s1 e1 s2 e2 sg (add_val_val B digits_ub p1 p2 m s1 e1 s2 e2 sg) /\
  form_ok B p m s1 e1 s2 e2 sg (add_val_ref B digits_ub p1 p2 m s1 e1 s2 e2 sg) /\
  form_ok B p m s1 e1 s2 e2 sg (add_ref_val B digits_ub p1 p2 m s1 e1 s2 e2 sg) /\
  form_ok B p m s1 e1 s2 e2 sg (add_ref_ref B digits_ub p1 p2 m s1 e1 s2 e2 sg).
Proof. exact fbig_add_forms_correct. Qed.
Print Assumptions C03_add_operator_forms.

Theorem C03_add_sub_unlimited : forall B, 2 <= B -> forall digits_ub m s1 e1 s2 e2 sg,
  let res := match sg with Positive => ctx_add B digits_ub 0 m s1 e1 s2 e2
                         | Negative => ctx_sub B digits_ub 0 m s1 e1 s2 e2 end in
  exists r e, res = AExact r e /\
    ((0 <= e - Z.min e1 e2 /\ r * B ^ (e - Z.min e1 e2) = exact_sum B s1 e1 s2 e2 sg) \/
     (r = 0 /\ exact_sum B s1 e1 s2 e2 sg = 0)).
Proof. exact ctx_add_sub_unlimited. Qed.
Print Assumptions C03_add_sub_unlimited.

(** what [rounded_sum] means: the documented contract, clause by clause *)
Theorem C03_rounded_sum_is_the_contract : forall B, 2 <= B -> forall p m S e0 a, 1 <= p -> rounded_sum B p m S e0 a ->
  match a with
  | AExact r e => r = 0 /\ S = 0 \/ 0 <= e - e0 /\ r * B ^ (e - e0) = S
  | AInexact r e f =>
      let U := B ^ (e - e0) in
      0 <= e - e0 /\ r * U <> S /\ Z.abs (r * U - S) < U /\ U * B ^ (p - 1) <= Z.abs S /\
      (is_half_mode m = true -> 2 * Z.abs (r * U - S) <= U) /\ side_ok m S U r /\
      (f = AddOne -> S < r * U) /\ (f = SubOne -> r * U < S) /\
      Z.abs r <= B ^ (p + 1) /\ ~ representable B p S
  end.
Proof. exact rounded_sum_contract. Qed.
Print Assumptions C03_rounded_sum_is_the_contract.

(** the far-apart stand-in is sound because rounding only sees (integer part, sign, half test) *)
Theorem C03_standin : forall m h c M1 t1 M2 t2,
  0 < c -> 0 < M1 -> 0 < M2 -> 0 < t1 * t2 -> 2 * Z.abs t1 < M1 -> 2 * Z.abs t2 < M2 ->
  spec_round m (h * M1 + t1) (c * M1) = spec_round m (h * M2 + t2) (c * M2).
Proof. exact spec_round_standin. Qed.
Print Assumptions C03_standin.

From Dashu Require Import Float.SqrtModelProof.

(** as-is model of float/src/root.rs: one rounding of the integer root of the exactly scaled radicand *)
Theorem C03_sqrt : forall B, 2 <= B -> forall p m s e, 1 <= p -> 0 <= s -> dlen B s <= p ->
  let shift := sqrt_shift B p s e in
  let N := s * B ^ shift in
  0 <= shift /\ e - shift = 2 * ((e - shift) / 2) /\
  exists a, ctx_sqrt B p m s e = Ok a /\ rounded_sqrt B p m N ((e - shift) / 2) a.
Proof. exact ctx_sqrt_correct. Qed.
Print Assumptions C03_sqrt.

Theorem C03_sqrt_round_is_the_contract : forall m N, 0 <= N -> Z.sqrt N * Z.sqrt N <> N ->
  let t := Z.sqrt N in let R := sqrt_round m N in
  t * t < N < (t + 1) * (t + 1) /\ (R = t \/ R = t + 1) /\
  match m with
  | MDown | MZero => R * R < N
  | MUp | MAway => N < R * R
  | MHalfEven | MHalfAway => (2 * R - 1) * (2 * R - 1) < 4 * N < (2 * R + 1) * (2 * R + 1)
  end.
Proof. exact sqrt_round_contract. Qed.
Print Assumptions C03_sqrt_round_is_the_contract.

Theorem C03_sqrt_panics : forall B p m s e,
  (p = 0 -> ctx_sqrt B p m s e = Panic UnlimitedPrecision) /\
  (p <> 0 -> s < 0 -> ctx_sqrt B p m s e = Panic RootNegative).
Proof. exact ctx_sqrt_panics. Qed.
Print Assumptions C03_sqrt_panics.

Example C03_sqrt_nonvacuous :
  ctx_sqrt 10 3 MHalfAway 15 1 = Ok (AInexact 122 (-1) NoOp) /\ ctx_sqrt 10 2 MHalfEven 4 0 = Ok (AExact 2 0) /\
  ctx_sqrt 10 2 MUp 9999 (-4) = Ok (AInexact 1 0 AddOne) /\ dlen 10 15 <= 3.
Proof. vm_compute. repeat split; discriminate. Qed.

From Dashu Require Import Float.AddParamsProof.
From DashuGen Require Import FloatLongParams FloatAddParams.   (* same order as in AddParamsProof.v *)

(** the far-apart test, the precision of its stand-in, the extra digit on subtraction and the sqrt
    scaling exponent are re-read from float/src/add.rs / root.rs on every run *)
Theorem C03_add_source_constants :
  (forall rp d, far_low_prec_ls_gen rp d = far_low_prec rp d) /\
  (forall rp d, far_low_prec_sl_gen rp d = far_low_prec rp d) /\
  (forall est ediff rp big, far_cond_ls_gen est ediff rp big = ((est + 1 <? ediff) && (est + 1 + rp <? big + ediff))) /\
  (forall est ediff rp big, far_cond_sl_gen est ediff rp big = ((est + 1 <? ediff) && (est + 1 + rp <? big + ediff))) /\
  (forall p b, rnd_precision_ls_gen p b = p + b2z b) /\
  (forall p b, rnd_precision_sl_gen p b = p + b2z b).
Proof. exact add_source_constants. Qed.
Print Assumptions C03_add_source_constants.

Theorem C03_sqrt_source_constants : forall B p s e, sqrt_shift_gen p (dlen B s) e = sqrt_shift B p s e.
Proof. exact sqrt_source_constants. Qed.
Print Assumptions C03_sqrt_source_constants.

Example C03_add_nonvacuous :
  ctx_add_x 10 3 MHalfEven 123 0 456 (-2) = AInexact 128 0 AddOne /\
  ctx_add_x 2 10 MHalfAway 1 0 1 (-30) = AInexact 512 (-9) NoOp /\
  ctx_sub_x 10 3 MDown 100 0 1 (-9) = AInexact 999 (-1) SubOne /\
  ctx_sub_x 10 3 MHalfEven 100 1 999 (-1) = AExact 9001 (-1) /\
  ctx_add_x 10 3 MHalfEven 999 0 5 (-1) = AInexact 1000 0 AddOne /\
  dlen 10 123 <= 3 /\ dlen 10 456 <= 3.
Proof. vm_compute. repeat split; discriminate. Qed.

Example C03_nonvacuous :
  repr_round 10 3 MHalfEven 12345 0 = AInexact 123 2 NoOp /\
  repr_round 10 3 MHalfEven 12350 0 = AInexact 124 2 AddOne /\
  repr_div 10 3 MHalfAway 1 0 3 0 = Ok (AInexact 333 (-3) NoOp) /\
  repr_div 10 3 MHalfAway (-2) 0 3 0 = Ok (AInexact (-667) (-3) SubOne) /\
  ctx_mul 10 2 MZero 99 0 99 0 = AInexact 98 2 NoOp /\ ctx_mul 10 1 MHalfAway 8 1 5 0 = AExact 4 2.
Proof. vm_compute. repeat split. Qed.

From Coq Require Import QArith Reals Qreals.
From Dashu Require Import Float.DivMulModel Float.FilterProof Float.DivMulProof Float.ContractProof Float.DivContractR.

(** Round::round_fract as written, WITH its coarse f32 pre-filter: for every pair of coarse tests that only
    answer when the strict comparison holds it is the exact comparison ... *)
Theorem C03_round_fract_filtered : forall B coarse_gt coarse_lt,
  (forall f k, 0 < f -> 0 <= k -> coarse_gt f k = true -> B ^ k < 2 * f) ->
  (forall f k, 0 < f -> 0 <= k -> coarse_lt f k = true -> 2 * f < B ^ k) ->
  forall m i fract k, 0 <= k ->
  round_fract_filtered B coarse_gt coarse_lt m i fract k = round_fract B m i fract k.
Proof. exact round_fract_filtered_eq. Qed.
Print Assumptions C03_round_fract_filtered.

(** ... and the two f32 comparisons of the code are such tests: for every monotone rounding [fl] of the last
    addition / multiplication, all sound log2 bounds of |fract| and of the base, and every precision below 2^24
    digits (where [precision as f32] is exact).  No unsoundness at large precisions (DESIGN 5.1 #30 refuted). *)
Theorem C03_round_fract_f32 : forall B, 2 <= B ->
  forall (fl : Q -> Q) (cvt : Z -> Q) (lb ub : Z -> Q) (b_lb b_ub c999 c1001 : Q),
  (forall x y, (x <= y)%Q -> (fl x <= fl y)%Q) ->
  (forall k, 0 <= k < 2 ^ 24 -> (cvt k == inject_Z k)%Q) ->
  (forall f, 0 < f -> (Q2R (lb f) <= log2R (IZR f) <= Q2R (ub f))%R) ->
  (Q2R b_lb <= log2R (IZR B) <= Q2R b_ub)%R ->
  (c999 <= 1)%Q -> (1 <= c1001)%Q ->
  forall m i fract k, 0 <= k < 2 ^ 24 ->
  round_fract_f32 fl cvt lb ub b_lb b_ub c999 c1001 B m i fract k = round_fract B m i fract k.
Proof. exact round_fract_f32_eq. Qed.
Print Assumptions C03_round_fract_f32.

(** division: exact, or the specification rounding of the exact quotient keeping p or p+1 digits, truthful flag *)
Theorem C03_div_rounded : forall B, 2 <= B -> forall p m s1 e1 s2 e2,
  1 <= p -> s2 <> 0 -> dlen B s1 <= p + dlen B s2 ->
  let k := repr_div_shift B p s1 s2 in
  0 <= k /\
  exists a, repr_div B p m s1 e1 s2 e2 = Ok a /\ approx_exp a = e1 - e2 - k /\
    rounded_quot B p m (Z.sgn s2 * (s1 * B ^ k)) (Z.abs s2) a.
Proof. exact repr_div_rounded. Qed.
Print Assumptions C03_div_rounded.

(** what [rounded_quot] means: the documented contract, clause by clause (cross-multiplied by D > 0) *)
Theorem C03_rounded_quot_is_the_contract : forall B, 2 <= B -> forall p m N D a, 1 <= p -> 0 < D -> rounded_quot B p m N D a ->
  match a with
  | AExact q _ => q * D = N /\ N mod D = 0
  | AInexact r _ f =>
      r * D <> N /\ N mod D <> 0 /\
      Z.abs (r * D - N) < D /\
      B ^ (p - 1) * D <= Z.abs N /\
      (is_half_mode m = true -> 2 * Z.abs (r * D - N) <= D) /\
      side_ok m N D r /\
      (f = AddOne -> N < r * D) /\ (f = SubOne -> r * D < N) /\
      Z.abs r <= B ^ (p + 1) /\
      ~ (exists t j, Z.abs t < B ^ p /\ ((0 <= j /\ N = t * B ^ j * D) \/ (j < 0 /\ N * B ^ (- j) = t * D)))
  end.
Proof. exact rounded_quot_contract. Qed.
Print Assumptions C03_rounded_quot_is_the_contract.

(** Context::div (pre-shrinking of an over-long dividend, any digit estimates) and Context::inv *)
Theorem C03_ctx_div_inv : forall B, 2 <= B -> forall digits_ub digits_lb p m s1 e1 s2 e2,
  (dlen B s1 <= p + dlen B s2 ->
     ctx_div B digits_ub digits_lb p m s1 e1 s2 e2 = repr_div B p m s1 e1 s2 e2) /\
  (1 <= p -> s2 <> 0 -> dlen B s1 <= p ->
     let k := repr_div_shift B p s1 s2 in
     0 <= k /\ exists a, ctx_div B digits_ub digits_lb p m s1 e1 s2 e2 = Ok a /\ approx_exp a = e1 - e2 - k /\
       rounded_quot B p m (Z.sgn s2 * (s1 * B ^ k)) (Z.abs s2) a) /\
  (1 <= p -> s2 <> 0 ->
     let k := repr_div_shift B p 1 s2 in
     0 <= k /\ exists a, ctx_inv B p m s2 e2 = Ok a /\ approx_exp a = 0 - e2 - k /\
       rounded_quot B p m (Z.sgn s2 * (1 * B ^ k)) (Z.abs s2) a).
Proof.
  intros B HB ub lb p m s1 e1 s2 e2. split; [apply ctx_div_eq; exact HB|].
  split; [apply ctx_div_rounded; exact HB | apply ctx_inv_rounded; exact HB].
Qed.
Print Assumptions C03_ctx_div_inv.

Theorem C03_div_inv_panics : forall B digits_ub digits_lb p m s1 e1 s2 e2,
  (p = 0 -> ctx_div B digits_ub digits_lb p m s1 e1 s2 e2 = Panic UnlimitedPrecision) /\
  (1 <= p -> ctx_div B digits_ub digits_lb p m s1 e1 0 e2 = Panic DivideBy0) /\
  (p = 0 -> ctx_inv B p m s1 e1 = Panic UnlimitedPrecision) /\
  (1 <= p -> ctx_inv B p m 0 e1 = Panic DivideBy0).
Proof. exact ctx_div_panics. Qed.
Print Assumptions C03_div_inv_panics.

(** division end to end, in the words of the property: against the real quotient x of the operands, with
    ulp_p(x) = B^(ex - p + 1) where B^ex <= |x| < B^(ex+1) *)
Theorem C03_div_contract_R : forall B, 2 <= B -> forall p m s1 e1 s2 e2 ex,
  1 <= p -> s2 <> 0 -> dlen B s1 <= p + dlen B s2 ->
  let x := (fval B s1 e1 / fval B s2 e2)%R in
  (bpow B ex <= Rabs x < bpow B (ex + 1))%R ->
  exists a, repr_div B p m s1 e1 s2 e2 = Ok a /\
  match a with
  | AExact q e => fval B q e = x
  | AInexact r e f =>
      let v := fval B r e in let u := bpow B (ex - p + 1) in
      v <> x /\ (Rabs (v - x) < u)%R /\ (is_half_mode m = true -> 2 * Rabs (v - x) <= u)%R /\
      match m with
      | MDown => (v < x)%R
      | MUp => (x < v)%R
      | MZero => (0 < x -> v < x)%R /\ (x < 0 -> x < v)%R
      | MAway => (0 < x -> x < v)%R /\ (x < 0 -> v < x)%R
      | MHalfEven | MHalfAway => True
      end /\
      (f = AddOne -> x < v)%R /\ (f = SubOne -> v < x)%R
  end.
Proof. exact repr_div_contract_R. Qed.
Print Assumptions C03_div_contract_R.

(** the FBig operator bodies of * and / in every ownership form, Context::max of the operand precisions *)
Theorem C03_mul_div_operator_forms : forall B, 2 <= B -> forall digits_ub digits_lb p1 p2 m s1 e1 s2 e2,
  let p := ctx_max p1 p2 in
  (1 <= p -> dlen B s1 <= p -> dlen B s2 <= p ->
     mul_val_val B p1 p2 m s1 e1 s2 e2 = approx_val (ctx_mul B p m s1 e1 s2 e2) /\
     mul_val_ref B p1 p2 m s1 e1 s2 e2 = approx_val (ctx_mul B p m s1 e1 s2 e2) /\
     mul_ref_val B p1 p2 m s1 e1 s2 e2 = approx_val (ctx_mul B p m s1 e1 s2 e2) /\
     mul_ref_ref B p1 p2 m s1 e1 s2 e2 = approx_val (ctx_mul B p m s1 e1 s2 e2)) /\
  (dlen B s1 <= p + dlen B s2 ->
     div_val_val B p1 p2 m s1 e1 s2 e2 = map_val (ctx_div B digits_ub digits_lb p m s1 e1 s2 e2) /\
     div_val_ref B p1 p2 m s1 e1 s2 e2 = map_val (ctx_div B digits_ub digits_lb p m s1 e1 s2 e2) /\
     div_ref_val B p1 p2 m s1 e1 s2 e2 = map_val (ctx_div B digits_ub digits_lb p m s1 e1 s2 e2) /\
     div_ref_ref B p1 p2 m s1 e1 s2 e2 = map_val (ctx_div B digits_ub digits_lb p m s1 e1 s2 e2)) /\
  p = Z.max p1 p2.
Proof.
  intros B HB ub lb p1 p2 m s1 e1 s2 e2 p. split; [apply fbig_mul_forms; exact HB|].
  split; [apply fbig_div_forms; exact HB | apply ctx_max_spec].
Qed.
Print Assumptions C03_mul_div_operator_forms.

(** primitive / big-integer operands are converted by FBig::from (precision = digit count, at least 1) first *)
Theorem C03_primitive_operand_forms : forall B, 2 <= B -> forall digits_ub digits_lb p m s e n, 1 <= p -> dlen B s <= p ->
  let '(sn, en) := prim_repr B n in
  let pm := ctx_max p (prim_prec B n) in
  pm = Z.max p (prim_prec B n) /\ ctx_max (prim_prec B n) p = pm /\
  mul_float_prim B p m s e n = approx_val (ctx_mul B pm m s e sn en) /\
  mul_prim_float B p m n s e = approx_val (ctx_mul B pm m sn en s e) /\
  div_float_prim B p m s e n = map_val (ctx_div B digits_ub digits_lb pm m s e sn en) /\
  div_prim_float B p m n s e = map_val (ctx_div B digits_ub digits_lb pm m sn en s e).
Proof. exact prim_forms. Qed.
Print Assumptions C03_primitive_operand_forms.

Example C03_div_nonvacuous :
  ctx_div_x 10 3 MHalfEven 1 0 3 0 = Ok (AInexact 333 (-3) NoOp) /\
  ctx_div_x1 10 3 MHalfEven 1 0 3 0 = Ok (AInexact 333 (-3) NoOp) /\
  ctx_inv 10 2 MUp 7 0 = Ok (AInexact 15 (-2) AddOne) /\
  ctx_div_x 10 3 MDown 1 0 8 0 = Ok (AExact 125 (-3)) /\
  div_float_prim 10 2 MHalfAway 1 0 300 = Ok (333, -5) /\
  mul_prim_float 10 2 MHalfAway 1234 5 0 = (617, 1) /\
  mul_ref_val 10 1 2 MZero 9 0 99 0 = (89, 1) /\
  round_fract_sharp 10 MHalfEven 13 500 3 = AddOne /\ dlen 10 1 <= 3.
Proof. vm_compute. repeat split; discriminate. Qed.

From Dashu Require Import Float.ContractProof Float.DivParamsProof.
From DashuGen Require Import FloatLongParams FloatDivParams.   (* same order as in DivParamsProof.v *)

(** soundness of the executable checker that judges every case (rational exact values): the exponent of x ... *)
Theorem C03_rat_exp : forall B, 2 <= B -> forall N D, N <> 0 -> 0 < D ->
  let ex := x_exp B (XRat N D) in
  (bpow B ex <= Rabs (xrat N D) < bpow B (ex + 1))%R.
Proof. exact rat_exp_spec. Qed.
Print Assumptions C03_rat_exp.

(** the literals and the decision order of round_fract's closure, the pre-shrinking test of Context::div and the
    scaling shifts of repr_div are re-read from float/src/round.rs / div.rs on every run *)
Theorem C03_filter_source_constants :
  (forall fl : Q -> Q, (forall x y, (x <= y)%Q -> (fl x <= fl y)%Q) -> (fl 1 == 1)%Q ->
     (fl filter_c_gt_gen <= 1)%Q /\ (1 <= fl filter_c_lt_gen)%Q) /\
  (forall B coarse_gt coarse_lt f k,
     half_test_gen (coarse_gt f k) (coarse_lt f k) (2 * f ?= B ^ k) = half_test B coarse_gt coarse_lt f k).
Proof. exact filter_source_constants. Qed.
Print Assumptions C03_filter_source_constants.

Theorem C03_cmp_kx : forall B, 2 <= B -> forall k N D a j, 0 < D ->
  match cmp_kx B k (XRat N D) a j with
  | Eq => fval B a j = (IZR k * xrat N D)%R
  | Lt => (fval B a j < IZR k * xrat N D)%R
  | Gt => (fval B a j > IZR k * xrat N D)%R
  end.
Proof. exact cmp_kx_spec. Qed.
Print Assumptions C03_cmp_kx.

Theorem C03_div_source_constants :
  (forall B ub lb p m s1 e1 s2 e2,
     ctx_div B ub lb p m s1 e1 s2 e2 =
     let '(s1', e1') :=
       if div_shrink_cond_gen (s1 =? 0) (ub s1) (lb s2) p
       then approx_val (repr_round B (div_shrink_prec_gen (dlen B s2) p) m s1 e1) else (s1, e1) in
     repr_div B p m s1' e1' s2 e2) /\
  (forall B p s1 s2,
     repr_div_shift B p s1 s2 =
     if Z.rem s1 s2 =? 0 then 0
     else div_shift_gen (Z.quot s1 s2 =? 0) (dlen B s2) p (dlen B (Z.rem s1 s2)) (dlen B (Z.quot s1 s2))).
Proof. exact div_source_constants. Qed.
Print Assumptions C03_div_source_constants.

(** ... and the verdict: [true] implies every clause of the documented contract for r = s * B^e and x = N / D,
    with one ulp u = B^(ex - p + 1) *)
Theorem C03_check_contract_sound : forall B, 2 <= B -> forall p m N D s e f, 1 <= p -> 0 < D ->
  check_contract B p m (XRat N D) s e f = true ->
  let r := fval B s e in let x := xrat N D in let u := bpow B (x_exp B (XRat N D) - p + 1) in
  dlen B s <= p + 1 /\
  ((r = x /\ (f = FExact \/ f = FUnknown)) \/
   (r <> x /\ x <> 0%R /\ f <> FExact /\
    (Rabs (r - x) < u)%R /\
    (is_half_mode m = true -> 2 * Rabs (r - x) <= u)%R /\
    match m with
    | MDown => (r < x)%R
    | MUp => (x < r)%R
    | MZero => (0 < x -> r < x)%R /\ (x < 0 -> x < r)%R
    | MAway => (0 < x -> x < r)%R /\ (x < 0 -> r < x)%R
    | MHalfEven | MHalfAway => True
    end /\
    (f = FInexact AddOne -> x < r)%R /\ (f = FInexact SubOne -> r < x)%R /\
    ~ (exists t, x = (IZR t * u)%R))).
Proof. exact check_contract_sound. Qed.
Print Assumptions C03_check_contract_sound.

(** with sound digit estimates, a dividend Context::div leaves unshrunk meets repr_div's precondition (its debug assertion) *)
Theorem C03_div_precondition : forall B digits_ub digits_lb p s1 s2,
  (forall s, dlen B s <= digits_ub s) -> (forall s, digits_lb s <= dlen B s) ->
  (negb (s1 =? 0) && (digits_ub s1 >? digits_lb s2 + p)) = false -> dlen B s1 <= p + dlen B s2 \/ s1 = 0.
Proof. exact ctx_div_precondition. Qed.
Print Assumptions C03_div_precondition.

Theorem C03_check_contract_magnitude : forall B, 2 <= B -> forall p m N D s e f, 1 <= p -> 0 < D ->
  check_contract B p m (XRat N D) s e f = true ->
  (m = MZero -> Rabs (fval B s e) <= Rabs (xrat N D))%R /\ (m = MAway -> Rabs (xrat N D) <= Rabs (fval B s e))%R.
Proof. exact check_contract_magnitude. Qed.
Print Assumptions C03_check_contract_magnitude.

Example C03_contract_nonvacuous :
  check_contract 10 3 MHalfEven (XRat 1 3) 333 (-3) (FInexact NoOp) = true /\
  check_contract 10 3 MHalfEven (XRat 1 3) 334 (-3) (FInexact AddOne) = false /\
  check_contract 10 3 MUp (XRat 1 3) 334 (-3) (FInexact AddOne) = true /\
  check_contract 10 3 MZero (XRat (-2) 3) (-666) (-3) (FInexact AddOne) = true /\
  check_contract 10 3 MZero (XRat 1 8) 125 (-3) FExact = true /\
  check_contract 10 3 MZero (XRat 1 8) 12 (-2) (FInexact NoOp) = false.
Proof. vm_compute. repeat split. Qed.

(* ===================================================================================================== *)
(** round 3: operands LONGER than the precision, the remainders, the remaining FBig forms, every Repr::new,
    the f32 filter on Flocq's binary32 *)
From Dashu Require Import Float.LongModel Float.AddLongProof Float.MulDivLongProof Float.SqrtLongProof Float.RemProof
  Float.FormsLongProof Float.NormalProof Float.F32Flocq Float.LongParamsProof.
From DashuGen Require Import FloatLongParams.

(** Context::add / Context::sub (as repaired) for operands of ANY length - stored Reprs (not divisible by the base)
    or operands that fit: the documented contract (rounded_sum) outside the class of the finding
    add_overlong_cancellation, for every sound digit estimate *)
Theorem C03_add_any_length : forall B, 2 <= B -> forall digits_ub, (forall s, dlen B s <= digits_ub s) ->
  forall p m s1 e1 s2 e2, 1 <= p -> operand_ok B p s1 -> operand_ok B p s2 ->
  add_short_class B p s1 e1 s2 e2 Positive = false ->
  rounded_sum B p m (exact_sum B s1 e1 s2 e2 Positive) (Z.min e1 e2) (ctx_add B digits_ub p m s1 e1 s2 e2).
Proof. exact ctx_add_long. Qed.
Print Assumptions C03_add_any_length.

Theorem C03_sub_any_length : forall B, 2 <= B -> forall digits_ub, (forall s, dlen B s <= digits_ub s) ->
  forall p m s1 e1 s2 e2, 1 <= p -> operand_ok B p s1 -> operand_ok B p s2 ->
  add_short_class B p s1 e1 s2 e2 Negative = false ->
  rounded_sum B p m (exact_sum B s1 e1 s2 e2 Negative) (Z.min e1 e2) (ctx_sub_fixed B digits_ub p m s1 e1 s2 e2).
Proof. exact ctx_sub_long. Qed.
Print Assumptions C03_sub_any_length.

(** an effective addition (operands of one sign) is never in the class; the repaired Context::sub is the pinned
    model whenever the subtrahend fits or the minuend is not zero *)
Theorem C03_add_same_sign_never_short : forall B, 2 <= B -> forall p s1 e1 s2 e2 sg,
  1 <= p -> 0 < s1 * (sgnz sg * s2) -> add_short_class B p s1 e1 s2 e2 sg = false.
Proof. exact add_short_class_same_sign. Qed.
Print Assumptions C03_add_same_sign_never_short.

Theorem C03_sub_repaired_is_pinned : forall B digits_ub p m s1 e1 s2 e2, dlen B s2 <= p \/ s1 <> 0 ->
  ctx_sub_fixed B digits_ub p m s1 e1 s2 e2 = ctx_sub B digits_ub p m s1 e1 s2 e2.
Proof. exact ctx_sub_fixed_fits. Qed.
Print Assumptions C03_sub_repaired_is_pinned.

(** repr_round_sum itself, any significand and low part: correct unless, after its single re-alignment step, fewer
    than p digits stand above the rounding position while a low part remains *)
Theorem C03_round_sum_any_input : forall B, 2 <= B -> forall p m sig e low lp is_sub,
  1 <= p -> 0 <= lp -> Z.abs low < B ^ lp -> rrs_short B p sig low lp is_sub = false ->
  rounded_sum B p m (sig * B ^ lp + low) (e - lp) (repr_round_sum B p m sig e low lp is_sub).
Proof. exact rrs_general. Qed.
Print Assumptions C03_round_sum_any_input.

(** the class is exact at the level of repr_round_sum (a correct result is never in it) and empty for operands that
    fit the precision: the any-length theorems contain C03_add / C03_sub *)
Theorem C03_round_sum_class_is_exact : forall B, 2 <= B -> forall p m sig e low lp is_sub,
  1 <= p -> 0 <= lp -> Z.abs low < B ^ lp ->
  rounded_sum B p m (sig * B ^ lp + low) (e - lp) (repr_round_sum B p m sig e low lp is_sub) ->
  rrs_short B p sig low lp is_sub = false.
Proof. exact rrs_short_of_rounded. Qed.
Print Assumptions C03_round_sum_class_is_exact.

Theorem C03_add_class_empty_when_operands_fit : forall B, 2 <= B -> forall p s1 e1 s2 e2 sg,
  1 <= p -> dlen B s1 <= p -> dlen B s2 <= p -> add_short_class B p s1 e1 s2 e2 sg = false.
Proof. exact add_short_class_fits. Qed.
Print Assumptions C03_add_class_empty_when_operands_fit.

Theorem C03_add_overlong_refuted :
  add_short_class 10 2 11 5 1099999 0 Negative = true /\
  ctx_sub_fixed_x 10 2 MZero 11 5 1099999 0 = AInexact 0 3 SubOne /\
  exact_sum 10 11 5 1099999 0 Negative = 1 /\
  ~ rounded_sum 10 2 MZero 1 0 (AInexact 0 3 SubOne).
Proof. exact add_overlong_refuted. Qed.
Print Assumptions C03_add_overlong_refuted.

(** Context::mul / sqr / cubic up to their pre-shrinking thresholds (2p, 2p, 3p digits): one rounding of the exact
    product, the documented contract *)
Theorem C03_mul_sqr_cubic_upto_thresholds : forall B, 2 <= B -> forall p m s1 e1 s2 e2, 1 <= p ->
  (mul_long_class B p s1 s2 = false ->
     ctx_mul B p m s1 e1 s2 e2 = (let '(s, e) := normalize B (s1 * s2) (e1 + e2) in repr_round B p m s e) /\
     rounded_sum B p m (s1 * s2) (e1 + e2) (ctx_mul B p m s1 e1 s2 e2)) /\
  (sqr_long_class B p s1 = false ->
     ctx_sqr B p m s1 e1 = (let '(s', e') := normalize B (s1 * s1) (2 * e1) in repr_round B p m s' e') /\
     rounded_sum B p m (s1 * s1) (2 * e1) (ctx_sqr B p m s1 e1)) /\
  (cubic_long_class B p s1 = false ->
     ctx_cubic B p m s1 e1 = (let '(s', e') := normalize B (s1 * s1 * s1) (3 * e1) in repr_round B p m s' e') /\
     rounded_sum B p m (s1 * s1 * s1) (3 * e1) (ctx_cubic B p m s1 e1)).
Proof.
  intros B HB p m s1 e1 s2 e2 Hp. split; [|split]; intros Hc.
  - apply ctx_mul_long; assumption.
  - apply ctx_sqr_long; assumption.
  - apply ctx_cubic_long; assumption.
Qed.
Print Assumptions C03_mul_sqr_cubic_upto_thresholds.

(** Context::div: any divisor, a dividend of up to p + digits(divisor) digits, any digit estimates; beyond that the
    dividend is always rounded first (sound estimates) *)
Theorem C03_div_upto_threshold : forall B, 2 <= B -> forall digits_ub digits_lb p m s1 e1 s2 e2,
  1 <= p -> s2 <> 0 -> div_long_class B p s1 s2 = false ->
  let k := repr_div_shift B p s1 s2 in
  0 <= k /\
  exists a, ctx_div B digits_ub digits_lb p m s1 e1 s2 e2 = Ok a /\ approx_exp a = e1 - e2 - k /\
    rounded_quot B p m (Z.sgn s2 * (s1 * B ^ k)) (Z.abs s2) a.
Proof. exact ctx_div_long. Qed.
Print Assumptions C03_div_upto_threshold.

Theorem C03_div_beyond_threshold_shrinks : forall B, 2 <= B -> forall digits_ub digits_lb p m s1 e1 s2 e2,
  0 <= p -> (forall s, dlen B s <= digits_ub s) -> (forall s, digits_lb s <= dlen B s) ->
  div_long_class B p s1 s2 = true ->
  ctx_div B digits_ub digits_lb p m s1 e1 s2 e2 =
  (let '(s1', e1') := approx_val (repr_round B (dlen B s2 + p) m s1 e1) in repr_div B p m s1' e1' s2 e2).
Proof. exact ctx_div_long_shrinks. Qed.
Print Assumptions C03_div_beyond_threshold_shrinks.

Theorem C03_overlong_double_rounding_refuted :
  mul_long_class 10 1 149 1 = true /\ ctx_mul 10 1 MHalfEven 149 0 1 0 = AInexact 2 2 AddOne /\
  ~ rounded_sum 10 1 MHalfEven (149 * 1) 0 (AInexact 2 2 AddOne) /\
  div_long_class 10 1 149 1 = true /\ ctx_div_x 10 1 MHalfEven 149 0 1 0 = Ok (AExact 15 1) /\ 15 * 10 ^ 1 <> 149 /\
  sqr_long_class 10 1 123 = true /\ ctx_sqr 10 1 MHalfEven 123 0 = AInexact 1 4 NoOp /\
  ~ rounded_sum 10 1 MHalfEven (123 * 123) 0 (AInexact 1 4 NoOp) /\
  cubic_long_class 10 1 1145 = true /\ ctx_cubic 10 1 MHalfEven 1145 0 = AInexact 1 9 NoOp /\
  ~ rounded_sum 10 1 MHalfEven (1145 * 1145 * 1145) 0 (AInexact 1 9 NoOp).
Proof. exact overlong_double_rounding_refuted. Qed.
Print Assumptions C03_overlong_double_rounding_refuted.

(** Context::sqrt for a radicand of ANY length: one rounding of sqrt (M / K), M / K the radicand as the code scales or
    cuts it, exact only if nothing was cut off and the prefix is a perfect square *)
Theorem C03_sqrt_any_length : forall B, 2 <= B -> forall p m s e, 1 <= p -> 0 <= s ->
  let shift := sqrt_shift B p s e in
  let M := fst (sqrt_radicand B p s e) in
  let K := snd (sqrt_radicand B p s e) in
  e - shift = 2 * ((e - shift) / 2) /\ 0 < K /\ 0 <= M /\
  M = s * B ^ (Z.max shift 0) /\ K = B ^ (Z.max (- shift) 0) /\
  exists a, ctx_sqrt B p m s e = Ok a /\ rounded_sqrt_frac B p m M K ((e - shift) / 2) a.
Proof. exact ctx_sqrt_long. Qed.
Print Assumptions C03_sqrt_any_length.

Theorem C03_sqrt_frac_is_the_contract : forall m M K, 0 <= M -> 0 < K ->
  let t := Z.sqrt (M / K) in let R := sqrt_round_frac m M K in
  0 <= t /\ t * t * K <= M < (t + 1) * (t + 1) * K /\ (R = t \/ R = t + 1) /\
  (t * t * K <> M ->
   match m with
   | MDown | MZero => R * R * K < M
   | MUp | MAway => M < R * R * K
   | MHalfAway => (R = t -> 4 * M < (2 * t + 1) * (2 * t + 1) * K) /\ (R = t + 1 -> (2 * t + 1) * (2 * t + 1) * K <= 4 * M)
   | MHalfEven => (R = t -> 4 * M <= (2 * t + 1) * (2 * t + 1) * K) /\ (R = t + 1 -> (2 * t + 1) * (2 * t + 1) * K <= 4 * M) /\
                  (4 * M = (2 * t + 1) * (2 * t + 1) * K -> Z.even R = true)
   end).
Proof. exact sqrt_round_frac_contract. Qed.
Print Assumptions C03_sqrt_frac_is_the_contract.

Theorem C03_sqrt_frac_int : forall m N, 0 <= N -> sqrt_round_frac m N 1 = sqrt_round m N.
Proof. exact sqrt_round_frac_int. Qed.
Print Assumptions C03_sqrt_frac_int.

(** Context::rem: the three alignment cases compute the remainder of least magnitude (ties: quotient away from zero),
    which is then rounded once - the documented contract with that remainder as the exact value *)
Theorem C03_rem_alignment_cases : forall B, 2 <= B -> forall s1 e1 s2 e2, s2 <> 0 ->
  repr_rem_sig B s1 e1 s2 e2 = rem_exact B s1 e1 s2 e2.
Proof. exact repr_rem_sig_spec. Qed.
Print Assumptions C03_rem_alignment_cases.

Theorem C03_rem_least : forall B, 2 <= B -> forall s1 e1 s2 e2, s2 <> 0 ->
  let e0 := Z.min e1 e2 in
  let A := s1 * B ^ (e1 - e0) in let D := s2 * B ^ (e2 - e0) in
  let x := rem_exact B s1 e1 s2 e2 in
  (exists n, A = n * D + x) /\ 2 * Z.abs x <= Z.abs D /\ (2 * Z.abs x = Z.abs D -> A * x <= 0).
Proof. exact rem_exact_least. Qed.
Print Assumptions C03_rem_least.

Theorem C03_rem : forall B, 2 <= B -> forall p m s1 e1 s2 e2, 1 <= p -> s2 <> 0 ->
  exists a, repr_rem B p m s1 e1 s2 e2 = Ok a /\ rounded_sum B p m (rem_exact B s1 e1 s2 e2) (Z.min e1 e2) a.
Proof. exact repr_rem_correct. Qed.
Print Assumptions C03_rem.

(** div_euclid is exact; rem_euclid is the Euclidean remainder rounded once to Context::max; all panic on a zero divisor *)
Theorem C03_euclid : forall B, 2 <= B -> forall p1 p2 m s1 e1 s2 e2, s2 <> 0 ->
  let num := s1 * B ^ (e1 - Z.min e1 e2) in let den := s2 * B ^ (e2 - Z.min e1 e2) in
  (exists q, fbig_div_euclid B s1 e1 s2 e2 = Ok q /\ exists r, num = q * den + r /\ 0 <= r < Z.abs den) /\
  (1 <= ctx_max p1 p2 ->
   exists a, rounded_sum B (ctx_max p1 p2) m (euclid_r num den) 0 a /\
     fbig_rem_euclid B p1 p2 m s1 e1 s2 e2 =
     Ok (let '(rs, re) := normalize B (approx_sig a) (approx_exp a) in
         if rs =? 0 then (rs, re) else (rs, re + Z.min e1 e2))) /\
  fbig_rem B p1 p2 m s1 e1 s2 e2 = map_val (repr_rem B (ctx_max p1 p2) m s1 e1 s2 e2).
Proof.
  intros B HB p1 p2 m s1 e1 s2 e2 Hs. split; [apply fbig_div_euclid_correct; assumption|].
  split; [intros Hp; apply fbig_rem_euclid_correct; assumption | reflexivity].
Qed.
Print Assumptions C03_euclid.

Theorem C03_rem_panics : forall B p p1 p2 m s1 e1 e2,
  repr_rem B p m s1 e1 0 e2 = Panic DivideBy0 /\
  fbig_div_euclid B s1 e1 0 e2 = Panic DivideBy0 /\ fbig_rem_euclid B p1 p2 m s1 e1 0 e2 = Panic DivideBy0 /\
  fbig_div_rem_euclid B p1 p2 m s1 e1 0 e2 = Panic DivideBy0.
Proof. intros. split; [reflexivity | apply euclid_by_zero]. Qed.
Print Assumptions C03_rem_panics.

(** FBig::sqr / cubic / sqrt / inv and + / - with a primitive or big-integer operand *)
Theorem C03_unary_forms : forall B, 2 <= B -> forall p m s e,
  fbig_sqr B p m s e = approx_val (ctx_sqr B p m s e) /\ fbig_cubic B p m s e = approx_val (ctx_cubic B p m s e) /\
  fbig_sqrt B p m s e = map_val (ctx_sqrt B p m s e) /\ fbig_inv B p m s e = map_val (ctx_inv B p m s e) /\
  (1 <= p -> s <> 0 ->
     let k := repr_div_shift B p 1 s in
     exists a, ctx_inv B p m s e = Ok a /\ fbig_inv B p m s e = Ok (approx_val a) /\ approx_exp a = 0 - e - k /\
       rounded_quot B p m (Z.sgn s * (1 * B ^ k)) (Z.abs s) a) /\
  (1 <= p -> 0 <= s -> dlen B s <= p ->
     let shift := sqrt_shift B p s e in
     exists a, ctx_sqrt B p m s e = Ok a /\ fbig_sqrt B p m s e = Ok (approx_val a) /\
       rounded_sqrt B p m (s * B ^ shift) ((e - shift) / 2) a).
Proof. exact unary_forms. Qed.
Print Assumptions C03_unary_forms.

Theorem C03_primitive_add_forms : forall B, 2 <= B -> forall digits_ub, (forall s, dlen B s <= digits_ub s) ->
  forall p m s e n sg, 1 <= p -> dlen B s <= p ->
  let '(sn, en) := prim_repr B n in
  let pm := ctx_max p (prim_prec B n) in
  pm = Z.max p (prim_prec B n) /\ ctx_max (prim_prec B n) p = pm /\
  form_ok B pm m s e sn en sg (add_float_prim_vv B digits_ub p m s e n sg) /\
  form_ok B pm m s e sn en sg (add_float_prim_rv B digits_ub p m s e n sg) /\
  form_ok B pm m sn en s e sg (add_prim_float_vv B digits_ub p m n s e sg) /\
  form_ok B pm m sn en s e sg (add_prim_float_vr B digits_ub p m n s e sg).
Proof. exact prim_add_forms. Qed.
Print Assumptions C03_primitive_add_forms.

(** normalisation: with stored operands every Context operation returns a stored Repr (zero = (0, 0), otherwise not
    divisible by the base - also after a carry), and the model with every Repr::new is the pinned model + one
    normalisation *)
Theorem C03_results_are_normalised : forall B, 2 <= B -> forall digits_ub digits_lb p m s1 e1 s2 e2,
  is_normal B s1 e1 = true -> is_normal B s2 e2 = true ->
  approx_normal B (repr_round_n B p m s1 e1) /\
  approx_normal B (ctx_add_n B digits_ub p m s1 e1 s2 e2) /\ approx_normal B (ctx_sub_n B digits_ub p m s1 e1 s2 e2) /\
  approx_normal B (ctx_mul_n B p m s1 e1 s2 e2) /\ approx_normal B (ctx_sqr_n B p m s1 e1) /\ approx_normal B (ctx_cubic_n B p m s1 e1) /\
  result_normal B (repr_div_n B p m s1 e1 s2 e2) /\ result_normal B (ctx_div_n B digits_ub digits_lb p m s1 e1 s2 e2) /\
  result_normal B (ctx_inv_n B p m s2 e2) /\ result_normal B (ctx_sqrt_n B p m s1 e1) /\ result_normal B (repr_rem_n B p m s1 e1 s2 e2).
Proof.
  intros B HB ub lb p m s1 e1 s2 e2 H1 H2.
  split; [apply repr_round_n_eq; assumption|]. split; [apply ctx_add_n_eq; assumption|]. split; [apply ctx_sub_n_eq; assumption|].
  destruct (ctx_mul_n_normal B HB p m s1 e1 s2 e2) as (A & C & D). split; [exact A|]. split; [exact C|]. split; [exact D|].
  destruct (div_n_normal B HB ub lb p m s1 e1 s2 e2) as (E & F & G). split; [exact E|]. split; [exact F|]. split; [exact G|].
  apply sqrt_rem_n_normal. exact HB.
Qed.
Print Assumptions C03_results_are_normalised.

Theorem C03_models_with_normalisation : forall B, 2 <= B -> forall digits_ub digits_lb p m s1 e1 s2 e2,
  is_normal B s1 e1 = true -> is_normal B s2 e2 = true ->
  repr_round_n B p m s1 e1 = norm_approx B (repr_round B p m s1 e1) /\
  ctx_add_n B digits_ub p m s1 e1 s2 e2 = norm_approx B (ctx_add B digits_ub p m s1 e1 s2 e2) /\
  ctx_sub_n B digits_ub p m s1 e1 s2 e2 = norm_approx B (ctx_sub_fixed B digits_ub p m s1 e1 s2 e2) /\
  (mul_long_class B p s1 s2 = false -> ctx_mul_n B p m s1 e1 s2 e2 = norm_approx B (ctx_mul B p m s1 e1 s2 e2)) /\
  (sqr_long_class B p s1 = false -> ctx_sqr_n B p m s1 e1 = norm_approx B (ctx_sqr B p m s1 e1)) /\
  (cubic_long_class B p s1 = false -> ctx_cubic_n B p m s1 e1 = norm_approx B (ctx_cubic B p m s1 e1)) /\
  (div_long_class B p s1 s2 = false ->
     ctx_div_n B digits_ub digits_lb p m s1 e1 s2 e2 = map_approx (norm_approx B) (ctx_div B digits_ub digits_lb p m s1 e1 s2 e2)) /\
  repr_rem_n B p m s1 e1 s2 e2 = map_approx (norm_approx B) (repr_rem B p m s1 e1 s2 e2) /\
  (forall a, approx_normal B a -> norm_approx B a = a).
Proof.
  intros B HB ub lb p m s1 e1 s2 e2 H1 H2.
  split; [apply repr_round_n_eq; assumption|]. split; [apply ctx_add_n_eq; assumption|]. split; [apply ctx_sub_n_eq; assumption|].
  split; [apply ctx_mul_n_eq; exact HB|]. destruct (ctx_sqr_cubic_n_eq B HB p m s1 e1) as [S C]. split; [exact S|]. split; [exact C|].
  split; [apply ctx_div_n_eq; exact HB|]. split; [apply repr_rem_n_eq; exact HB | apply norm_approx_id; exact HB].
Qed.
Print Assumptions C03_models_with_normalisation.

(** the f32 pre-filter of Round::round_fract on Flocq's binary32 rounding: no assumption about f32 arithmetic is left *)
Theorem C03_round_fract_flocq32 : forall B, 2 <= B ->
  forall (lb ub : Z -> Q) (b_lb b_ub : Q),
  (forall f, 0 < f -> (Q2R (lb f) <= log2R (IZR f) <= Q2R (ub f))%R) ->
  (Q2R b_lb <= log2R (IZR B) <= Q2R b_ub)%R ->
  forall m i fract k, 0 <= k < 2 ^ 24 ->
  round_fract_f32 fl32 cvt32 lb ub b_lb b_ub c999_32 c1001_32 B m i fract k = round_fract B m i fract k.
Proof. exact round_fract_flocq32. Qed.
Print Assumptions C03_round_fract_flocq32.

Theorem C03_fl32_is_binary32_rounding :
  (forall q, Q2R (fl32 q) = Flocq.Core.Generic_fmt.round Flocq.Core.Zaux.radix2 (Flocq.Core.FLT.FLT_exp (-149) 24) Flocq.Core.Round_NE.ZnearestE (Q2R q)) /\
  (forall x y, (x <= y)%Q -> (fl32 x <= fl32 y)%Q) /\
  (forall k, Z.abs k < 2 ^ 24 -> (fl32 (inject_Z k) == inject_Z k)%Q) /\
  (forall x y : Flocq.IEEE754.Bits.binary32,
     Flocq.IEEE754.Binary.is_finite 24 128 x = true -> Flocq.IEEE754.Binary.is_finite 24 128 y = true ->
     ((Rabs (fl32R (Flocq.IEEE754.Binary.B2R 24 128 x + Flocq.IEEE754.Binary.B2R 24 128 y)) < Flocq.Core.Raux.bpow Flocq.Core.Zaux.radix2 128)%R ->
        Flocq.IEEE754.Binary.B2R 24 128 (Flocq.IEEE754.Bits.b32_plus Flocq.IEEE754.BinarySingleNaN.mode_NE x y) =
          fl32R (Flocq.IEEE754.Binary.B2R 24 128 x + Flocq.IEEE754.Binary.B2R 24 128 y) /\
        Flocq.IEEE754.Binary.is_finite 24 128 (Flocq.IEEE754.Bits.b32_plus Flocq.IEEE754.BinarySingleNaN.mode_NE x y) = true) /\
     ((Rabs (fl32R (Flocq.IEEE754.Binary.B2R 24 128 x * Flocq.IEEE754.Binary.B2R 24 128 y)) < Flocq.Core.Raux.bpow Flocq.Core.Zaux.radix2 128)%R ->
        Flocq.IEEE754.Binary.B2R 24 128 (Flocq.IEEE754.Bits.b32_mult Flocq.IEEE754.BinarySingleNaN.mode_NE x y) =
          fl32R (Flocq.IEEE754.Binary.B2R 24 128 x * Flocq.IEEE754.Binary.B2R 24 128 y) /\
        Flocq.IEEE754.Binary.is_finite 24 128 (Flocq.IEEE754.Bits.b32_mult Flocq.IEEE754.BinarySingleNaN.mode_NE x y) = true)).
Proof.
  split; [exact Q2R_fl32|]. split; [exact fl32_mono|]. split; [exact fl32_int | exact b32_ops_are_fl32R].
Qed.
Print Assumptions C03_fl32_is_binary32_rounding.

(** the fragments of mul.rs / root.rs / div.rs / add.rs behind the round-3 theorems are re-read on every run *)
Theorem C03_long_source_constants :
  (forall B p k m s e,
     (k = mul_shrink_factor_gen \/ k = sqr_shrink_factor_gen -> k = 2) /\ cubic_shrink_factor_gen = 3 /\
     shrink B p 2 m s e =
       (if p =? 0 then (s, e)
        else if mul_shrink_cond_gen (dlen B s) (mul_shrink_factor_gen * p)
             then let a := repr_round B (mul_shrink_factor_gen * p) m s e in (approx_sig a, approx_exp a) else (s, e)) /\
     shrink B p 3 m s e =
       (if p =? 0 then (s, e)
        else if cubic_shrink_cond_gen (dlen B s) (cubic_shrink_factor_gen * p)
             then let a := repr_round B (cubic_shrink_factor_gen * p) m s e in (approx_sig a, approx_exp a) else (s, e))) /\
  (forall B p s1 s2,
     mul_long_class B p s1 s2 =
       negb (p =? 0) && (mul_shrink_cond_gen (dlen B s1) (mul_shrink_factor_gen * p) || mul_shrink_cond_gen (dlen B s2) (mul_shrink_factor_gen * p)) /\
     sqr_long_class B p s1 = negb (p =? 0) && sqr_shrink_cond_gen (dlen B s1) (sqr_shrink_factor_gen * p) /\
     cubic_long_class B p s1 = negb (p =? 0) && cubic_shrink_cond_gen (dlen B s1) (cubic_shrink_factor_gen * p)) /\
  (forall B p m s e,
     ctx_sqrt B p m s e =
     if p =? 0 then Panic UnlimitedPrecision
     else if s <? 0 then Panic RootNegative
     else
       let digits := dlen B s in
       let shift := p * 2 - ((digits + e) mod 2) - digits in
       let '(signif, low, low_digits) :=
         if shift >? 0 then (shl_digits B s shift, 0, 0)
         else let '(hi, lo) := split_digits B s (- shift) in (hi, lo, - shift) in
       let root := Z.sqrt (Z.abs signif) in
       let rem := Z.abs signif - root * root in
       let exp := Z.quot (e - shift) 2 in
       let res :=
         if sqrt_exact_cond_gen (rem =? 0) (low =? 0) then AExact root exp
         else
           let adjust := round_low_part m root Positive
                           (sqrt_half_test_gen (rem ?= root) (low * sqrt_low_mult_gen ?= B ^ low_digits)) in
           AInexact (root + adj adjust) exp adjust in
       Ok (approx_and_then res (fun s' e' => let '(s'', e'') := normalize B s' e' in repr_round B p m s'' e''))) /\
  (forall sl r1 r2, rem_pick sl r1 r2 = rem_pick_gen sl r1 r2) /\
  (forall B p m s1 e1 s2 e2,
     repr_rem B p m s1 e1 s2 e2 =
     if s2 =? 0 then Panic DivideBy0
     else let sig := repr_rem_sig B s1 e1 s2 e2 in
          if sig =? 0 then Ok (AExact 0 0)
          else let '(s, e) := normalize B sig (rem_exponent_gen e1 e2) in Ok (repr_round B p m s e)) /\
  (forall B digits_ub p m e1 s2 e2,
     ctx_sub_fixed B digits_ub p m 0 e1 s2 e2 =
     if sub_zero_negates_first_gen then repr_round B p m (- s2) e2 else approx_neg (repr_round B p m s2 e2)) /\
  (forall lp rp d, rrs_expand_shift_gen lp rp d = Z.min lp (rp - d)) /\ rrs_loops_gen = 0.
Proof. exact long_source_constants. Qed.
Print Assumptions C03_long_source_constants.

Example C03_r3_nonvacuous :
  add_short_class 10 2 12345 0 67891 3 Positive = false /\ ctx_add_x 10 2 MHalfEven 12345 0 67891 3 = AInexact 68 6 AddOne /\
  ctx_sub_fixed_x 10 2 MUp 0 0 1235 0 = AInexact (-12) 2 NoOp /\
  mul_long_class 10 2 1234 567 = false /\ ctx_mul 10 2 MHalfEven 1234 0 567 0 = AInexact 70 4 AddOne /\
  div_long_class 10 2 12345 678 = false /\ ctx_div_x 10 2 MHalfEven 12345 0 678 0 = Ok (AInexact 18 0 NoOp) /\
  ctx_sqrt 10 2 MUp 40001 0 = Ok (AInexact 21 1 AddOne) /\ ctx_sqrt 10 1 MHalfEven 225 0 = Ok (AInexact 2 1 AddOne) /\
  repr_rem 10 2 MHalfEven 7 0 2 0 = Ok (AExact (-1) 0) /\ repr_rem 10 2 MHalfEven 12345 0 7 3 = Ok (AInexact (-17) 2 SubOne) /\
  fbig_rem_euclid 10 1 1 MHalfEven (-1) 0 1 5 = Ok (1, 5) /\ fbig_div_euclid 10 (-1) 0 1 5 = Ok (-1) /\
  fbig_inv 10 2 MUp 7 0 = Ok (15, -2) /\ add_float_prim_vv_x 10 2 MHalfEven 15 (-1) 1234 Positive = (1236, 0) /\
  ctx_add_n_x 10 2 MHalfEven 99 0 5 (-1) = AInexact 1 2 AddOne /\ is_normal 10 95 0 = true /\ is_normal 10 100 0 = false.
Proof. vm_compute. repeat split; discriminate. Qed.

(* ================================================================== round 4 ================== *)
(** the two findings about operands LONGER than the precision are repaired in float/src/{add,mul,div}.rs; the
    models of the repaired code (Float/FixModel.v) meet the contract for operands of ANY length, and are the old
    models wherever the old code was right *)
From Dashu Require Import Float.NormalProof Float.FixModel Float.FixAddProof Float.FixMulDivProof.

Theorem C03_round_sum_repaired : forall B, 2 <= B -> forall p m sig e low lp is_sub,
  1 <= p -> 0 <= lp -> Z.abs low < B ^ lp -> (is_sub = false -> 0 <= sig * low) ->
  exists a, repr_round_sum_fix B p m sig e low lp is_sub = Ok a /\
            rounded_sum B p m (sig * B ^ lp + low) (e - lp) a.
Proof. exact rrs_fix_correct. Qed.
Print Assumptions C03_round_sum_repaired.

Theorem C03_round_sum_loop_invariant : forall B, 2 <= B -> forall fuel p rp sig e low lp,
  1 <= p -> p <= rp <= p + 1 -> dlen B sig <= rp -> 0 <= lp -> Z.abs low < B ^ lp -> lp < Z.of_nat fuel ->
  (rp = p -> 0 <= sig * low) ->
  exists s e' l k, expand_loop B fuel p rp sig e low lp (dlen B sig) = Some (s, e', l, k) /\
    0 <= k /\ Z.abs l < B ^ k /\ sig * B ^ lp + low = s * B ^ k + l /\ e' - k = e - lp /\
    (l <> 0 -> B ^ (p - 1 + k) <= Z.abs (s * B ^ k + l) < B ^ (p + 1 + k)).
Proof. exact expand_loop_spec. Qed.
Print Assumptions C03_round_sum_loop_invariant.

Theorem C03_round_sum_break_test : forall B, 2 <= B -> forall p s l k, 1 <= p -> 0 <= k -> l <> 0 -> Z.abs l < B ^ k ->
  (head_ok B p s l = true <-> B ^ (p - 1 + k) <= Z.abs (s * B ^ k + l)).
Proof. exact head_ok_spec. Qed.
Print Assumptions C03_round_sum_break_test.

Theorem C03_round_sum_repair_is_conservative : forall B, 2 <= B -> forall p m sig e low lp is_sub,
  1 <= p -> 0 <= lp -> Z.abs low < B ^ lp -> rrs_short B p sig low lp is_sub = false ->
  repr_round_sum_fix B p m sig e low lp is_sub = Ok (repr_round_sum B p m sig e low lp is_sub).
Proof. exact rrs_fix_eq_old. Qed.
Print Assumptions C03_round_sum_repair_is_conservative.

Theorem C03_add_repaired_any_length : forall B, 2 <= B -> forall digits_ub, (forall s, dlen B s <= digits_ub s) ->
  forall p m s1 e1 s2 e2, 1 <= p -> operand_ok B p s1 -> operand_ok B p s2 ->
  exists a, ctx_add_fix B digits_ub p m s1 e1 s2 e2 = Ok a /\
            rounded_sum B p m (exact_sum B s1 e1 s2 e2 Positive) (Z.min e1 e2) a.
Proof. exact ctx_add_fix_correct. Qed.
Print Assumptions C03_add_repaired_any_length.

Theorem C03_sub_repaired_any_length : forall B, 2 <= B -> forall digits_ub, (forall s, dlen B s <= digits_ub s) ->
  forall p m s1 e1 s2 e2, 1 <= p -> operand_ok B p s1 -> operand_ok B p s2 ->
  exists a, ctx_sub_fix B digits_ub p m s1 e1 s2 e2 = Ok a /\
            rounded_sum B p m (exact_sum B s1 e1 s2 e2 Negative) (Z.min e1 e2) a.
Proof. exact ctx_sub_fix_correct. Qed.
Print Assumptions C03_sub_repaired_any_length.

Theorem C03_add_sub_repair_is_conservative : forall B, 2 <= B -> forall digits_ub, (forall s, dlen B s <= digits_ub s) ->
  forall p m s1 e1 s2 e2, 1 <= p ->
  (add_short_class B p s1 e1 s2 e2 Positive = false ->
   ctx_add_fix B digits_ub p m s1 e1 s2 e2 = Ok (ctx_add B digits_ub p m s1 e1 s2 e2)) /\
  (add_short_class B p s1 e1 s2 e2 Negative = false ->
   ctx_sub_fix B digits_ub p m s1 e1 s2 e2 = Ok (ctx_sub_fixed B digits_ub p m s1 e1 s2 e2)).
Proof.
  intros B HB du Hdu p m s1 e1 s2 e2 Hp. split; intros H.
  - exact (ctx_add_fix_eq_old B HB du Hdu p m s1 e1 s2 e2 Hp H).
  - exact (ctx_sub_fix_eq_old B HB du Hdu p m s1 e1 s2 e2 Hp H).
Qed.
Print Assumptions C03_add_sub_repair_is_conservative.

Theorem C03_mul_sqr_cubic_repaired_any_length : forall B, 2 <= B -> forall p m s1 e1 s2 e2, 1 <= p ->
  rounded_sum B p m (s1 * s2) (e1 + e2) (ctx_mul_fix B p m s1 e1 s2 e2) /\
  rounded_sum B p m (s1 * s1) (2 * e1) (ctx_sqr_fix B p m s1 e1) /\
  rounded_sum B p m (s1 * s1 * s1) (3 * e1) (ctx_cubic_fix B p m s1 e1).
Proof.
  intros B HB p m s1 e1 s2 e2 Hp. split; [|split].
  - exact (ctx_mul_fix_correct B HB p m s1 e1 s2 e2 Hp).
  - exact (ctx_sqr_fix_correct B HB p m s1 e1 Hp).
  - exact (ctx_cubic_fix_correct B HB p m s1 e1 Hp).
Qed.
Print Assumptions C03_mul_sqr_cubic_repaired_any_length.

Theorem C03_mul_repair_is_conservative : forall B, 2 <= B -> forall p m s1 e1 s2 e2, 1 <= p ->
  (mul_long_class B p s1 s2 = false -> ctx_mul_fix B p m s1 e1 s2 e2 = ctx_mul B p m s1 e1 s2 e2) /\
  (sqr_long_class B p s1 = false -> ctx_sqr_fix B p m s1 e1 = ctx_sqr B p m s1 e1) /\
  (cubic_long_class B p s1 = false -> ctx_cubic_fix B p m s1 e1 = ctx_cubic B p m s1 e1).
Proof.
  intros B HB p m s1 e1 s2 e2 Hp. split; [|split]; intros H.
  - exact (ctx_mul_fix_eq_old B HB p m s1 e1 s2 e2 Hp H).
  - exact (ctx_sqr_fix_eq_old B HB p m s1 e1 Hp H).
  - exact (ctx_cubic_fix_eq_old B HB p m s1 e1 Hp H).
Qed.
Print Assumptions C03_mul_repair_is_conservative.

Theorem C03_div_repaired_any_length : forall B, 2 <= B -> forall p m s1 e1 s2 e2, 1 <= p -> s2 <> 0 ->
  let j := div_excess B p s1 s2 in
  let k := repr_div_shift B p s1 (s2 * B ^ j) in
  0 <= j /\ 0 <= k /\
  exists a, repr_div_fix B p m s1 e1 s2 e2 = Ok a /\ approx_exp a = e1 - e2 + j - k /\
    rounded_quot B p m (Z.sgn s2 * (s1 * B ^ k)) (Z.abs s2 * B ^ j) a.
Proof. exact repr_div_fix_rounded. Qed.
Print Assumptions C03_div_repaired_any_length.

Theorem C03_div_repair_is_conservative : forall B, 2 <= B -> forall digits_ub digits_lb p m s1 e1 s2 e2, 1 <= p ->
  (dlen B s1 <= p + dlen B s2 -> repr_div_fix B p m s1 e1 s2 e2 = repr_div B p m s1 e1 s2 e2) /\
  (div_long_class B p s1 s2 = false -> ctx_div_fix B p m s1 e1 s2 e2 = ctx_div B digits_ub digits_lb p m s1 e1 s2 e2) /\
  (s2 <> 0 -> ctx_inv_fix B p m s2 e2 = ctx_inv B p m s2 e2).
Proof.
  intros B HB du dl p m s1 e1 s2 e2 Hp. split; [|split]; intros H.
  - exact (repr_div_fix_eq_old B p m s1 e1 s2 e2 Hp H).
  - exact (ctx_div_fix_eq_old B du dl p m s1 e1 s2 e2 Hp H).
  - exact (ctx_inv_fix_eq B HB p m s2 e2 Hp H).
Qed.
Print Assumptions C03_div_repair_is_conservative.

Theorem C03_div_repaired_panics : forall B m s1 e1 s2 e2 p,
  repr_div_fix B 0 m s1 e1 s2 e2 = Panic UnlimitedPrecision /\
  (1 <= p -> repr_div_fix B p m s1 e1 0 e2 = Panic DivideBy0).
Proof. exact repr_div_fix_panics. Qed.
Print Assumptions C03_div_repaired_panics.

Theorem C03_repaired_results_normalised : forall B, 2 <= B -> forall digits_ub p m s1 e1 s2 e2,
  (is_normal B s1 e1 = true -> is_normal B s2 e2 = true ->
   ctx_add_fix_n B digits_ub p m s1 e1 s2 e2 = bind_approx (ctx_add_fix B digits_ub p m s1 e1 s2 e2) (norm_approx B) /\
   ctx_sub_fix_n B digits_ub p m s1 e1 s2 e2 = bind_approx (ctx_sub_fix B digits_ub p m s1 e1 s2 e2) (norm_approx B) /\
   result_normal B (ctx_add_fix_n B digits_ub p m s1 e1 s2 e2) /\ result_normal B (ctx_sub_fix_n B digits_ub p m s1 e1 s2 e2)) /\
  (ctx_mul_fix_n B p m s1 e1 s2 e2 = norm_approx B (ctx_mul_fix B p m s1 e1 s2 e2) /\
   ctx_sqr_fix_n B p m s1 e1 = norm_approx B (ctx_sqr_fix B p m s1 e1) /\
   ctx_cubic_fix_n B p m s1 e1 = norm_approx B (ctx_cubic_fix B p m s1 e1) /\
   approx_normal B (ctx_mul_fix_n B p m s1 e1 s2 e2) /\ approx_normal B (ctx_sqr_fix_n B p m s1 e1) /\
   approx_normal B (ctx_cubic_fix_n B p m s1 e1)) /\
  (result_normal B (repr_div_fix_n B p m s1 e1 s2 e2) /\ result_normal B (ctx_inv_fix_n B p m s2 e2)).
Proof.
  intros B HB du p m s1 e1 s2 e2. split; [|split].
  - exact (ctx_add_sub_fix_n_eq B HB du p m s1 e1 s2 e2).
  - exact (ctx_mul_fix_n_eq B HB p m s1 e1 s2 e2).
  - exact (repr_div_fix_n_normal B HB p m s1 e1 s2 e2).
Qed.
Print Assumptions C03_repaired_results_normalised.

(** the witnesses of the two former findings, after the repair (and that they are inside the former classes) *)
Theorem C03_former_witnesses_repaired :
  (add_short_class 10 2 11 5 1099999 0 Negative = true /\
   ctx_sub_fix_x 10 2 MZero 11 5 1099999 0 = Ok (AExact 1 0) /\
   ctx_sub_fix_x 10 2 MZero 11 5 1100001 0 = Ok (AExact (-1) 0) /\
   ctx_sub_fix_x 10 2 MZero 11 5 10905 2 = Ok (AExact 95 2) /\
   ctx_sub_fix_x 10 2 MZero 10 2 11 0 = Ok (AInexact 98 1 SubOne) /\
   ctx_sub_fix_x 10 2 MZero 10 2 11 0 = Ok (ctx_sub_fixed_x 10 2 MZero 10 2 11 0) /\
   ctx_add_fix_x 10 2 MHalfEven 12345 0 67891 3 = Ok (AInexact 68 6 AddOne)) /\
  (ctx_mul_fix 10 1 MHalfEven 149 0 1 0 = AInexact 1 2 NoOp /\
   repr_div_fix 10 1 MHalfEven 149 0 1 0 = Ok (AInexact 15 1 AddOne) /\
   ctx_sqr_fix 10 1 MHalfEven 123 0 = AInexact 2 4 AddOne /\
   ctx_cubic_fix 10 1 MHalfEven 1145 0 = AInexact 2 9 AddOne /\
   repr_div_fix 10 3 MHalfEven 12345678 0 7 0 = Ok (AInexact 176 4 NoOp) /\
   div_excess 10 3 12345678 7 = 4).
Proof. split; [exact add_fix_witnesses | exact muldiv_fix_witnesses]. Qed.
Print Assumptions C03_former_witnesses_repaired.

(** the WHOLE bodies of float/src/{add,mul,div,root}.rs, regenerated on every run, are these models *)
From Dashu Require Import Float.FixBodiesProof.
From DashuGen Require Import FloatAddBodies FloatOpBodies.

Theorem C03_add_bodies_regenerated : forall B digits_ub p m s1 e1 s2 e2 sg,
  (forall sig e low lp is_sub,
     rrs_gen B p m sig e low lp is_sub = bind_approx (repr_round_sum_fix B p m sig e low lp is_sub) (norm_approx B)) /\
  (forall fuel rp sig e low lp d,
     option_map (fun '(s, e', l, k, _) => (s, e', l, k)) (rrs_gen_loop B fuel p m rp sig e low lp d) =
     expand_loop B fuel p rp sig e low lp d) /\
  (e2 <= e1 -> large_small_gen B digits_ub p m s1 e1 s2 e2 sg =
    bind_approx (repr_add_large_small_fix B digits_ub p m s1 e1 s2 e2 sg) (norm_approx B)) /\
  (e1 <= e2 -> small_large_gen B digits_ub p m s1 e1 s2 e2 sg =
    bind_approx (repr_add_small_large_fix B digits_ub p m s1 e1 s2 e2 sg) (norm_approx B)) /\
  ctx_add_gen B digits_ub p m s1 e1 s2 e2 = ctx_add_fix_n B digits_ub p m s1 e1 s2 e2 /\
  ctx_sub_gen B digits_ub p m s1 e1 s2 e2 = ctx_sub_fix_n B digits_ub p m s1 e1 s2 e2.
Proof.
  intros B du p m s1 e1 s2 e2 sg. split; [|split; [|split; [|split; [|split]]]].
  - intros. apply rrs_gen_eq.
  - intros. apply rrs_gen_loop_eq.
  - intros He. apply large_small_gen_eq. exact He.
  - intros He. apply small_large_gen_eq. exact He.
  - apply ctx_add_gen_eq.
  - apply ctx_sub_gen_eq.
Qed.
Print Assumptions C03_add_bodies_regenerated.

Theorem C03_op_bodies_regenerated : forall B, 2 <= B -> forall p m s1 e1 s2 e2,
  ctx_mul_gen B p m s1 e1 s2 e2 = ctx_mul_fix_n B p m s1 e1 s2 e2 /\
  ctx_sqr_gen B p m s1 e1 = ctx_sqr_fix_n B p m s1 e1 /\
  ctx_cubic_gen B p m s1 e1 = ctx_cubic_fix_n B p m s1 e1 /\
  repr_div_gen B p m s1 e1 s2 e2 = repr_div_fix_n B p m s1 e1 s2 e2 /\
  ctx_div_gen B p m s1 e1 s2 e2 = repr_div_fix_n B p m s1 e1 s2 e2 /\
  ctx_inv_gen B p m s2 e2 = ctx_inv_fix_n B p m s2 e2 /\
  ctx_sqrt_gen B p m s1 e1 = ctx_sqrt_n B p m s1 e1.
Proof.
  intros B HB p m s1 e1 s2 e2.
  destruct (ctx_mul_gen_eq B p m s1 e1 s2 e2) as (A1 & A2 & A3).
  destruct (ctx_div_inv_gen_eq B p m s1 e1 s2 e2) as (D1 & D2).
  split; [exact A1|]. split; [exact A2|]. split; [exact A3|]. split; [apply repr_div_gen_eq|].
  split; [exact D1|]. split; [exact D2|]. apply ctx_sqrt_gen_eq. exact HB.
Qed.
Print Assumptions C03_op_bodies_regenerated.

(** Product for FBig (float/src/iter.rs): a chain of operator steps, each ONE rounding of the exact product of the
    accumulated value and the next factor at the running precision *)
From Coq Require Import List.
From Dashu Require Import Float.IterModel Float.IterProof.

Theorem C03_product_is_a_chain_of_roundings : forall B, 2 <= B -> forall m,
  fbig_product B m nil = fbig_one /\
  (forall xs x, fbig_product B m (xs ++ x :: nil) = fbig_mul_step B m (fbig_product B m xs) x) /\
  (forall pa sa ea px sx ex, 1 <= Z.max pa px ->
     let r := fbig_mul_step B m (pa, (sa, ea)) (px, (sx, ex)) in
     fst r = Z.max pa px /\
     exists a, approx_val a = snd r /\ rounded_sum B (Z.max pa px) m (sa * sx) (ea + ex) a) /\
  (forall sa ea sx ex, fbig_mul_step B m (0, (sa, ea)) (0, (sx, ex)) = (0, normalize B (sa * sx) (ea + ex))) /\
  (forall xs, fst (fbig_product B m xs) = fold_left Z.max (map fst xs) 0) /\
  (forall p s e, dlen B s <= p -> fbig_product B m ((p, (s, e)) :: nil) = (Z.max 0 p, normalize B s e)).
Proof.
  intros B HB m. split; [reflexivity|]. split; [intros; apply fbig_product_snoc|].
  split; [intros; apply (fbig_mul_step_rounded B HB); assumption|].
  split; [intros; apply fbig_mul_step_unlimited|].
  split; [intros; apply fbig_product_precision|]. intros. apply (fbig_product_single B HB). assumption.
Qed.
Print Assumptions C03_product_is_a_chain_of_roundings.

(** exponents as machine integers: Context::mul / sqr / cubic with every exponent computation checked against an
    isize of W bits return the unbounded model as soon as three exponents fit - the first sum, the exponent of the
    rounded product, the exponent Repr::new gives it - and panic when the first sum does not fit *)
From Dashu Require Import Float.ExpRangeModel Float.ExpRangeProof.

Theorem C03_exponent_range_side_conditions : forall B, 2 <= B -> forall W, 1 <= W -> forall p m s1 e1 s2 e2,
  (in_i W (e1 + e2) = true -> in_i W (approx_exp (ctx_mul_fix B p m s1 e1 s2 e2)) = true ->
   in_i W (approx_exp (ctx_mul_fix_n B p m s1 e1 s2 e2)) = true ->
   ctx_mul_chk B W p m s1 e1 s2 e2 = Ok (ctx_mul_fix_n B p m s1 e1 s2 e2)) /\
  (in_i W (2 * e1) = true -> in_i W (approx_exp (ctx_sqr_fix B p m s1 e1)) = true ->
   in_i W (approx_exp (ctx_sqr_fix_n B p m s1 e1)) = true -> ctx_sqr_chk B W p m s1 e1 = Ok (ctx_sqr_fix_n B p m s1 e1)) /\
  (in_i W (3 * e1) = true -> in_i W (approx_exp (ctx_cubic_fix B p m s1 e1)) = true ->
   in_i W (approx_exp (ctx_cubic_fix_n B p m s1 e1)) = true -> ctx_cubic_chk B W p m s1 e1 = Ok (ctx_cubic_fix_n B p m s1 e1)) /\
  (in_i W (e1 + e2) = false -> ctx_mul_chk B W p m s1 e1 s2 e2 = Panic Undocumented) /\
  (in_i W (2 * e1) = false -> ctx_sqr_chk B W p m s1 e1 = Panic Undocumented) /\
  (in_i W (3 * e1) = false -> ctx_cubic_chk B W p m s1 e1 = Panic Undocumented).
Proof.
  intros B HB W HW p m s1 e1 s2 e2.
  destruct (ctx_sqr_cubic_chk_ok B HB W HW p m s1 e1) as [S C].
  destruct (ctx_mul_chk_overflow B W p m s1 e1 s2 e2) as (O1 & O2 & O3).
  split; [apply (ctx_mul_chk_ok B HB W HW)|]. split; [exact S|]. split; [exact C|]. split; [exact O1|]. split; [exact O2 | exact O3].
Qed.
Print Assumptions C03_exponent_range_side_conditions.

Example C03_r4_nonvacuous :
  (let mx := 2 ^ 63 - 1 in
   ctx_mul_chk 10 64 3 MHalfEven 2 mx 3 1 = Panic Undocumented /\
   ctx_mul_chk 10 64 3 MHalfEven 999 (mx - 2) 999 0 = Panic Undocumented /\ in_i 64 (mx - 2 + 0) = true /\
   ctx_mul_chk 10 64 3 MHalfEven 5 mx 2 0 = Panic Undocumented /\
   ctx_mul_chk 10 64 3 MHalfEven 2 (mx - 1) 3 1 = Ok (AExact 6 mx)) /\
  fbig_product 10 MHalfEven ((2, (15, 0)) :: (3, (25, -1)) :: (2, (7, 0)) :: nil) = (3, (262, 0)) /\
  fbig_product 10 MHalfEven ((0, (123456, 0)) :: (0, (1001, 0)) :: nil) = (0, (123579456, 0)) /\
  expand_loop 10 5 2 3 1 5 (-99999) 5 1 = Some (1, 0, 0, 0) /\
  head_ok 10 2 10 (-5) = false /\ head_ok 10 2 11 (-5) = true /\ head_ok 10 2 9 5 = false.
Proof. vm_compute. repeat split. Qed.
