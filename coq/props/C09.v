(** C09 - bit operations follow infinite two's-complement semantics.
    ONLY statements pinned here; proofs live in Dashu.Int.*. *)
From Dashu Require Import Base.Prelude Int.BitsSpec Int.BitsSign.
From DashuGen Require Import SignTables.
Open Scope Z_scope.

Theorem C09_and : forall s0 m0 s1 m1, ibig_bitand_gen s0 m0 s1 m1 = Z.land (signed s0 m0) (signed s1 m1).
Proof. exact ibig_bitand_correct. Qed.
Print Assumptions C09_and.

Theorem C09_or : forall s0 m0 s1 m1, ibig_bitor_gen s0 m0 s1 m1 = Z.lor (signed s0 m0) (signed s1 m1).
Proof. exact ibig_bitor_correct. Qed.
Print Assumptions C09_or.

Theorem C09_xor : forall s0 m0 s1 m1, ibig_bitxor_gen s0 m0 s1 m1 = Z.lxor (signed s0 m0) (signed s1 m1).
Proof. exact ibig_bitxor_correct. Qed.
Print Assumptions C09_xor.

Theorem C09_and_ubig_ibig : forall m0 s1 m1, ubig_ibig_bitand_gen Positive m0 s1 m1 = Z.land m0 (signed s1 m1).
Proof. exact ubig_ibig_bitand_correct. Qed.
Print Assumptions C09_and_ubig_ibig.

Theorem C09_and_ibig_ubig : forall s0 m0 m1, ibig_ubig_bitand_gen s0 m0 Positive m1 = Z.land (signed s0 m0) m1.
Proof. exact ibig_ubig_bitand_correct. Qed.
Print Assumptions C09_and_ibig_ubig.

Theorem C09_not : forall s m, ibig_not_gen s m = Z.lnot (signed s m) /\ ibig_not_ref_gen s m = Z.lnot (signed s m).
Proof. exact ibig_not_correct. Qed.
Print Assumptions C09_not.

Theorem C09_shr : forall s m n, 0 <= n -> 0 <= m ->
  ibig_shr_gen s m n = Z.shiftr (signed s m) n /\ ibig_shr_ref_gen s m n = Z.shiftr (signed s m) n.
Proof. exact ibig_shr_correct. Qed.
Print Assumptions C09_shr.

Theorem C09_shr_floor : forall s m n, 0 <= n -> 0 <= m -> ibig_shr_gen s m n = signed s m / 2 ^ n.
Proof. exact ibig_shr_floor. Qed.
Print Assumptions C09_shr_floor.

Theorem C09_trailing_zeros : forall a k, trailing_zeros_spec a = Some k ->
  0 <= k /\ Z.testbit a k = true /\ forall i, 0 <= i < k -> Z.testbit a i = false.
Proof. exact trailing_zeros_spec_ok. Qed.
Print Assumptions C09_trailing_zeros.

Theorem C09_trailing_ones : forall a k, trailing_ones_spec a = Some k ->
  0 <= k /\ Z.testbit a k = false /\ forall i, 0 <= i < k -> Z.testbit a i = true.
Proof. exact trailing_ones_spec_ok. Qed.
Print Assumptions C09_trailing_ones.

Theorem C09_trailing_none : forall a, (trailing_zeros_spec a = None <-> a = 0) /\ (trailing_ones_spec a = None <-> a = -1).
Proof. intros a; split; [apply trailing_zeros_spec_none | apply trailing_ones_spec_none]. Qed.
Print Assumptions C09_trailing_none.

Theorem C09_next_power_of_two : forall a, 0 <= a ->
  let p := next_power_of_two_spec a in a <= p /\ (exists k, 0 <= k /\ p = 2 ^ k) /\ (1 < p -> p / 2 < a).
Proof. exact next_power_of_two_spec_ok. Qed.
Print Assumptions C09_next_power_of_two.

Theorem C09_is_power_of_two : forall a, is_power_of_two_spec a = true <-> exists k, 0 <= k /\ a = 2 ^ k.
Proof. exact is_power_of_two_spec_ok. Qed.
Print Assumptions C09_is_power_of_two.

Theorem C09_split_bits : forall a n, 0 <= n ->
  let '(lo, hi) := split_bits_spec a n in a = hi * 2 ^ n + lo /\ 0 <= lo < 2 ^ n.
Proof. exact split_bits_spec_ok. Qed.
Print Assumptions C09_split_bits.

Theorem C09_set_clear_bit : forall a n i, 0 <= n -> 0 <= i ->
  Z.testbit (set_bit_spec a n) i = (if i =? n then true else Z.testbit a i) /\
  Z.testbit (clear_bit_spec a n) i = (if i =? n then false else Z.testbit a i).
Proof. exact set_clear_bit_spec_ok. Qed.
Print Assumptions C09_set_clear_bit.

Theorem C09_bit_len : forall a, a <> 0 -> 2 ^ (bit_len_spec a - 1) <= Z.abs a < 2 ^ bit_len_spec a.
Proof. exact bit_len_spec_ok. Qed.
Print Assumptions C09_bit_len.

(** word-level as-is models of the scanning kernels (any word size w > 0) *)
From Dashu Require Import Base.Words Int.BitsWords.

Theorem C09_trailing_zeros_large : forall w, 0 < w -> forall ws, wf w ws -> value w ws <> 0 ->
  trailing_zeros_spec (value w ws) = Some (trailing_zeros_large w ws) /\ 0 <= trailing_zeros_large w ws.
Proof. exact trailing_zeros_large_correct. Qed.
Print Assumptions C09_trailing_zeros_large.

Theorem C09_trailing_ones_large : forall w, 0 < w -> forall ws, wf w ws ->
  trailing_ones_spec (value w ws) = Some (trailing_ones_large w ws) /\ 0 <= trailing_ones_large w ws.
Proof. exact trailing_ones_large_correct. Qed.
Print Assumptions C09_trailing_ones_large.

(** the repaired defect F01 stays refuted: scanning from word 1 disagrees with the specification *)
Theorem C09_trailing_ones_defective_refuted : forall w, 0 < w -> 3 <= w ->
  trailing_ones_spec (value w [5; 0; 1]) <> Some (trailing_ones_large_defective w [5; 0; 1]).
Proof. exact trailing_ones_defective_refuted. Qed.
Print Assumptions C09_trailing_ones_defective_refuted.

Theorem C09_bit_large : forall w, 0 < w -> forall ws n, wf w ws -> 0 <= n -> bit_large w ws n = Z.testbit (value w ws) n.
Proof. exact bit_large_correct. Qed.
Print Assumptions C09_bit_large.

Example C09_words_nonvacuous : wf 64 [5; 0; 1] /\ value 64 [5; 0; 1] <> 0 /\ trailing_ones_large 64 [5; 0; 1] = 1.
Proof. split; [repeat constructor; lia | split; [cbn; lia | reflexivity]]. Qed.

(** ------------------------------------------------------------------------------------------
    word-level as-is models of the magnitude kernels of bits.rs / shift.rs / shift_ops.rs /
    math.rs / repr.rs (Int/BitsKernels.v): every theorem holds for every word size w > 0, every
    operand length and every bit position / shift count. [brepr_ok] is the representation
    invariant of a magnitude (at most two words inline, otherwise >= 3 words, top word non-zero). *)
From Dashu Require Import Int.BitsKernels Int.BitsKernelsBase Int.BitsLogicProofs Int.BitsShiftProofs
  Int.BitsMiscProofs Int.BitsCountProofs Int.BitsSignedProofs Int.BitsTrailProofs.

Theorem C09_from_buffer : forall w, 0 < w -> forall ws, wf w ws ->
  bvalue w (from_buffer w ws) = value w ws /\ brepr_ok w (from_buffer w ws).
Proof. exact from_buffer_ok. Qed.
Print Assumptions C09_from_buffer.

Theorem C09_to_brepr : forall w, 0 < w -> forall v, 0 <= v -> bvalue w (to_brepr w v) = v /\ brepr_ok w (to_brepr w v).
Proof. exact to_brepr_ok. Qed.
Print Assumptions C09_to_brepr.

(** & | ^ and_not on operands of any two lengths: which buffer is kept, truncation, tail push *)
Theorem C09_bitand_large : forall w, 0 < w -> forall buf rhs, wf w buf -> wf w rhs ->
  bvalue w (bitand_large w buf rhs) = Z.land (value w buf) (value w rhs) /\ brepr_ok w (bitand_large w buf rhs).
Proof. exact bitand_large_correct. Qed.
Print Assumptions C09_bitand_large.

Theorem C09_bitor_large : forall w, 0 < w -> forall buf rhs, wf w buf -> wf w rhs ->
  bvalue w (bitor_large w buf rhs) = Z.lor (value w buf) (value w rhs) /\ brepr_ok w (bitor_large w buf rhs).
Proof. exact bitor_large_correct. Qed.
Print Assumptions C09_bitor_large.

Theorem C09_bitxor_large : forall w, 0 < w -> forall buf rhs, wf w buf -> wf w rhs ->
  bvalue w (bitxor_large w buf rhs) = Z.lxor (value w buf) (value w rhs) /\ brepr_ok w (bitxor_large w buf rhs).
Proof. exact bitxor_large_correct. Qed.
Print Assumptions C09_bitxor_large.

Theorem C09_and_not_large : forall w, 0 < w -> forall buf rhs, wf w buf -> wf w rhs ->
  bvalue w (and_not_large w buf rhs) = Z.ldiff (value w buf) (value w rhs) /\ brepr_ok w (and_not_large w buf rhs).
Proof. exact and_not_large_correct. Qed.
Print Assumptions C09_and_not_large.

(** the Small/Large dispatch of BitAnd / BitOr / BitXor / AndNot for every ownership combination *)
Theorem C09_repr_bitand : forall w, 0 < w -> forall o a b, brepr_ok w a -> brepr_ok w b ->
  bvalue w (repr_bitand w o a b) = Z.land (bvalue w a) (bvalue w b) /\ brepr_ok w (repr_bitand w o a b).
Proof. exact repr_bitand_correct. Qed.
Print Assumptions C09_repr_bitand.

Theorem C09_repr_bitor : forall w, 0 < w -> forall o a b, brepr_ok w a -> brepr_ok w b ->
  bvalue w (repr_bitor w o a b) = Z.lor (bvalue w a) (bvalue w b) /\ brepr_ok w (repr_bitor w o a b).
Proof. exact repr_bitor_correct. Qed.
Print Assumptions C09_repr_bitor.

Theorem C09_repr_bitxor : forall w, 0 < w -> forall o a b, brepr_ok w a -> brepr_ok w b ->
  bvalue w (repr_bitxor w o a b) = Z.lxor (bvalue w a) (bvalue w b) /\ brepr_ok w (repr_bitxor w o a b).
Proof. exact repr_bitxor_correct. Qed.
Print Assumptions C09_repr_bitxor.

Theorem C09_repr_and_not : forall w, 0 < w -> forall a b, brepr_ok w a -> brepr_ok w b ->
  bvalue w (repr_and_not w a b) = Z.ldiff (bvalue w a) (bvalue w b) /\ brepr_ok w (repr_and_not w a b).
Proof. exact repr_and_not_correct. Qed.
Print Assumptions C09_repr_and_not.

(** impl_ibig_bitand/bitor/bitxor over the word-level kernels = the regenerated sign tables,
    hence the two's-complement operation on the signed values *)
Theorem C09_ibig_bitops_asis_table : forall w, 0 < w -> forall o s0 r0 s1 r1, mag_ok w s0 r0 -> mag_ok w s1 r1 ->
  ibig_bitand_asis w o s0 r0 s1 r1 = ibig_bitand_gen s0 (bvalue w r0) s1 (bvalue w r1) /\
  ibig_bitor_asis w o s0 r0 s1 r1 = ibig_bitor_gen s0 (bvalue w r0) s1 (bvalue w r1) /\
  ibig_bitxor_asis w o s0 r0 s1 r1 = ibig_bitxor_gen s0 (bvalue w r0) s1 (bvalue w r1).
Proof. exact ibig_bitops_asis_table. Qed.
Print Assumptions C09_ibig_bitops_asis_table.

Theorem C09_ibig_bitops_asis : forall w, 0 < w -> forall o s0 r0 s1 r1, mag_ok w s0 r0 -> mag_ok w s1 r1 ->
  ibig_bitand_asis w o s0 r0 s1 r1 = Z.land (signed s0 (bvalue w r0)) (signed s1 (bvalue w r1)) /\
  ibig_bitor_asis w o s0 r0 s1 r1 = Z.lor (signed s0 (bvalue w r0)) (signed s1 (bvalue w r1)) /\
  ibig_bitxor_asis w o s0 r0 s1 r1 = Z.lxor (signed s0 (bvalue w r0)) (signed s1 (bvalue w r1)).
Proof. exact ibig_bitops_asis_correct. Qed.
Print Assumptions C09_ibig_bitops_asis.

(** shift.rs: bit shifts by less than a word with the carry handed from word to word *)
Theorem C09_shl_in_place : forall w, 0 < w -> forall ws s, 0 <= s < w -> wf w ws ->
  let '(r, c) := shl_in_place w ws s in
  wf w r /\ length r = length ws /\ value w r + B w ^ len ws * c = value w ws * 2 ^ s /\ 0 <= c < B w.
Proof. exact shl_in_place_correct. Qed.
Print Assumptions C09_shl_in_place.

Theorem C09_shr_in_place : forall w, 0 < w -> forall ws s, 0 <= s <= w -> wf w ws ->
  let '(r, c) := shr_in_place w ws s in
  wf w r /\ length r = length ws /\ value w r = value w ws / 2 ^ s.
Proof. exact shr_in_place_correct. Qed.
Print Assumptions C09_shr_in_place.

(** shift_ops.rs mod repr: << and >> on magnitudes (inline double word with its spill paths, heap
    buffer shifted in place or copied - the capacity test does not change the result) *)
Theorem C09_repr_shl : forall w, 0 < w -> forall cap r rhs, 0 <= rhs -> brepr_ok w r ->
  bvalue w (repr_shl w cap r rhs) = Z.shiftl (bvalue w r) rhs /\ brepr_ok w (repr_shl w cap r rhs).
Proof. exact repr_shl_correct. Qed.
Print Assumptions C09_repr_shl.

Theorem C09_repr_shl_ref : forall w, 0 < w -> forall r rhs, 0 <= rhs -> brepr_ok w r ->
  bvalue w (repr_shl_ref w r rhs) = Z.shiftl (bvalue w r) rhs /\ brepr_ok w (repr_shl_ref w r rhs).
Proof. exact repr_shl_ref_correct. Qed.
Print Assumptions C09_repr_shl_ref.

Theorem C09_shl_large_capacity_irrelevant : forall w buf rhs, shl_large w true buf rhs = shl_large w false buf rhs.
Proof. exact shl_large_capacity_irrelevant. Qed.
Print Assumptions C09_shl_large_capacity_irrelevant.

Theorem C09_repr_shr : forall w, 0 < w -> forall r rhs, 0 <= rhs -> brepr_ok w r ->
  bvalue w (repr_shr w r rhs) = Z.shiftr (bvalue w r) rhs /\ brepr_ok w (repr_shr w r rhs).
Proof. exact repr_shr_correct. Qed.
Print Assumptions C09_repr_shr.

Theorem C09_repr_shr_ref : forall w, 0 < w -> forall r rhs, 0 <= rhs -> brepr_ok w r ->
  bvalue w (repr_shr_ref w r rhs) = Z.shiftr (bvalue w r) rhs /\ brepr_ok w (repr_shr_ref w r rhs).
Proof. exact repr_shr_ref_correct. Qed.
Print Assumptions C09_repr_shr_ref.

(** are_dword_low_bits_nonzero (as repaired) / are_slice_low_bits_nonzero = the predicate the
    regenerated Shr table uses *)
Theorem C09_are_low_bits_nonzero : forall w, 0 < w -> forall r n, 0 <= n -> brepr_ok w r ->
  are_low_bits_nonzero w r n = low_bits_nonzero (bvalue w r) n.
Proof. exact are_low_bits_nonzero_correct. Qed.
Print Assumptions C09_are_low_bits_nonzero.

(** Shr for IBig / &IBig over the word-level kernels = the regenerated table = Z.shiftr = floor *)
Theorem C09_ibig_shr_asis_table : forall w, 0 < w -> forall s r n, 0 <= n -> brepr_ok w r ->
  ibig_shr_asis w s r n = ibig_shr_gen s (bvalue w r) n /\ ibig_shr_ref_asis w s r n = ibig_shr_ref_gen s (bvalue w r) n.
Proof. exact ibig_shr_asis_table. Qed.
Print Assumptions C09_ibig_shr_asis_table.

Theorem C09_ibig_shr_asis : forall w, 0 < w -> forall s r n, 0 <= n -> brepr_ok w r ->
  ibig_shr_asis w s r n = Z.shiftr (signed s (bvalue w r)) n /\
  ibig_shr_ref_asis w s r n = Z.shiftr (signed s (bvalue w r)) n /\
  ibig_shr_asis w s r n = signed s (bvalue w r) / 2 ^ n.
Proof. exact ibig_shr_asis_correct. Qed.
Print Assumptions C09_ibig_shr_asis.

Theorem C09_ibig_shl_asis : forall w, 0 < w -> forall s cap r n, 0 <= n -> brepr_ok w r ->
  ibig_shl_asis w s cap r n = Z.shiftl (signed s (bvalue w r)) n.
Proof. exact ibig_shl_asis_correct. Qed.
Print Assumptions C09_ibig_shl_asis.

(** single bits, masks, counts: each word-level model equals its specification of Int/BitsSpec.v *)
Theorem C09_repr_ones : forall w, 0 < w -> forall n, 0 <= n ->
  bvalue w (repr_ones w n) = ones_spec n /\ brepr_ok w (repr_ones w n).
Proof. exact repr_ones_correct. Qed.
Print Assumptions C09_repr_ones.

Theorem C09_repr_bit : forall w, 0 < w -> forall r n, 0 <= n -> brepr_ok w r -> repr_bit w r n = Z.testbit (bvalue w r) n.
Proof. exact repr_bit_correct. Qed.
Print Assumptions C09_repr_bit.

Theorem C09_ibig_bit : forall w, 0 < w -> forall s r n, 0 <= n -> brepr_ok w r -> bvalue w r <> 0 ->
  ibig_bit w s r n = Z.testbit (signed s (bvalue w r)) n.
Proof. exact ibig_bit_correct. Qed.
Print Assumptions C09_ibig_bit.

Theorem C09_repr_set_bit : forall w, 0 < w -> forall r n, 0 <= n -> brepr_ok w r ->
  bvalue w (repr_set_bit w r n) = set_bit_spec (bvalue w r) n /\ brepr_ok w (repr_set_bit w r n).
Proof. exact repr_set_bit_correct. Qed.
Print Assumptions C09_repr_set_bit.

Theorem C09_repr_clear_bit : forall w, 0 < w -> forall r n, 0 <= n -> brepr_ok w r ->
  bvalue w (repr_clear_bit w r n) = clear_bit_spec (bvalue w r) n /\ brepr_ok w (repr_clear_bit w r n).
Proof. exact repr_clear_bit_correct. Qed.
Print Assumptions C09_repr_clear_bit.

Theorem C09_repr_clear_high_bits : forall w, 0 < w -> forall r n, 0 <= n -> brepr_ok w r ->
  bvalue w (repr_clear_high_bits w r n) = clear_high_bits_spec (bvalue w r) n /\ brepr_ok w (repr_clear_high_bits w r n).
Proof. exact repr_clear_high_bits_correct. Qed.
Print Assumptions C09_repr_clear_high_bits.

Theorem C09_repr_split_bits : forall w, 0 < w -> forall r n, 0 <= n -> brepr_ok w r ->
  let '(lo, hi) := repr_split_bits w r n in
  (bvalue w lo, bvalue w hi) = split_bits_spec (bvalue w r) n /\ brepr_ok w lo /\ brepr_ok w hi.
Proof. exact repr_split_bits_correct. Qed.
Print Assumptions C09_repr_split_bits.

Theorem C09_repr_bit_len : forall w, 0 < w -> forall r, brepr_ok w r -> repr_bit_len w r = bit_len_spec (bvalue w r).
Proof. exact repr_bit_len_correct. Qed.
Print Assumptions C09_repr_bit_len.

Theorem C09_repr_count_ones : forall w, 0 < w -> forall r, brepr_ok w r -> repr_count_ones r = count_ones_spec (bvalue w r).
Proof. exact repr_count_ones_correct. Qed.
Print Assumptions C09_repr_count_ones.

Theorem C09_repr_count_zeros : forall w, 0 < w -> forall r, brepr_ok w r -> repr_count_zeros w r = count_zeros_spec (bvalue w r).
Proof. exact repr_count_zeros_correct. Qed.
Print Assumptions C09_repr_count_zeros.

Theorem C09_repr_is_power_of_two : forall w, 0 < w -> forall r, brepr_ok w r ->
  repr_is_power_of_two r = is_power_of_two_spec (bvalue w r).
Proof. exact repr_is_power_of_two_correct. Qed.
Print Assumptions C09_repr_is_power_of_two.

Theorem C09_repr_next_power_of_two : forall w, 0 < w -> forall r, brepr_ok w r ->
  bvalue w (repr_next_power_of_two w r) = next_power_of_two_spec (bvalue w r) /\ brepr_ok w (repr_next_power_of_two w r).
Proof. exact repr_next_power_of_two_correct. Qed.
Print Assumptions C09_repr_next_power_of_two.

(** trailing ones of a magnitude and of a negative number (trailing_ones_neg with
    trailing_zeros_large_shifted_by_one): IBig::trailing_ones = trailing_ones_spec of the signed value *)
Theorem C09_repr_trailing_ones : forall w, 0 < w -> forall r, brepr_ok w r ->
  trailing_ones_spec (bvalue w r) = Some (repr_trailing_ones w r).
Proof. exact repr_trailing_ones_correct. Qed.
Print Assumptions C09_repr_trailing_ones.

Theorem C09_ibig_trailing_ones : forall w, 0 < w -> forall s r, brepr_ok w r -> (s = Negative -> 1 <= bvalue w r) ->
  ibig_trailing_ones w s r = trailing_ones_spec (signed s (bvalue w r)).
Proof. exact ibig_trailing_ones_correct. Qed.
Print Assumptions C09_ibig_trailing_ones.

Theorem C09_repr_trailing_zeros : forall w, 0 < w -> forall r, brepr_ok w r ->
  repr_trailing_zeros w r = trailing_zeros_spec (bvalue w r).
Proof. exact repr_trailing_zeros_correct. Qed.
Print Assumptions C09_repr_trailing_zeros.

(** `big & unsigned primitive` is returned as the primitive type (try_into().unwrap()): it always fits *)
Theorem C09_and_unsigned_primitive_fits : forall x p k, 0 <= k -> 0 <= p < 2 ^ k -> 0 <= Z.land x p < 2 ^ k.
Proof. exact land_unsigned_prim_fits. Qed.
Print Assumptions C09_and_unsigned_primitive_fits.

(** non-vacuity of the hypotheses of the word-level theorems *)
Example C09_kernels_nonvacuous :
  brepr_ok 64 (BLarge [5; 0; 1]) /\ brepr_ok 64 (BSmall 7) /\ mag_ok 64 Negative (BLarge [0; 0; 0; 1]) /\
  bvalue 64 (bitand_large 64 [5; 0; 1] [7; 1]) = 5 /\
  bvalue 64 (repr_shr 64 (BLarge [0; 0; 0; 1]) 129) = 2 ^ 63 /\
  ibig_shr_asis 64 Negative (BLarge [1; 0; 0; 1]) 192 = -2.
Proof.
  assert (B1 : 0 <= 1 < B 64) by (unfold B; lia). assert (B0 : 0 <= 0 < B 64) by (unfold B; lia).
  assert (B5 : 0 <= 5 < B 64) by (unfold B; lia).
  assert (K : brepr_ok 64 (BLarge [0; 0; 0; 1])).
  { cbn [brepr_ok]. split; [repeat (apply wf_cons; split; [assumption|]); constructor|]. split; [cbn; lia | cbn; lia]. }
  split; [cbn [brepr_ok]; split; [repeat (apply wf_cons; split; [assumption|]); constructor | split; cbn; lia]|].
  split; [cbn [brepr_ok]; unfold B; lia|].
  split; [split; [exact K | intros _; cbn [bvalue value]; unfold B; lia]|].
  split; [vm_compute; reflexivity|]. split; vm_compute; reflexivity.
Qed.

(** ------------------------------------------------------------------------------------------
    round 3: operator FORMS around the kernels (Int/BitsForms.v) - primitive operands, *Assign forms,
    ownership arms - and the canonical Repr.  [to_brepr w v] is the typed view of the value v. *)
From Dashu Require Import Int.BitsForms Int.BitsFormsProofs Int.BitsFormsGenProof.
From Dashu Require Int.StorageModel.
From DashuGen Require Import BitsFormsGen.

(** the representation is canonical: same value + invariant => the same Repr, word for word *)
Theorem C09_brepr_canonical : forall w, 0 < w -> forall a b, brepr_ok w a -> brepr_ok w b -> bvalue w a = bvalue w b -> a = b.
Proof. exact brepr_canonical. Qed.
Print Assumptions C09_brepr_canonical.

Theorem C09_to_brepr_canonical : forall w, 0 < w -> forall r, brepr_ok w r -> to_brepr w (bvalue w r) = r.
Proof. exact to_brepr_canonical. Qed.
Print Assumptions C09_to_brepr_canonical.

Theorem C09_brepr_layout_canonical : forall w, 0 < w -> forall r, brepr_ok w r ->
  brepr_layout w r = brepr_layout w (to_brepr w (bvalue w r)).
Proof. exact brepr_layout_canonical. Qed.
Print Assumptions C09_brepr_layout_canonical.

(** & | ^ of magnitudes: every ownership arm (val/ref x val/ref) and both Assign forms build the identical Repr *)
Theorem C09_ubig_op_canonical : forall w, 0 < w -> forall o f a b, brepr_ok w a -> brepr_ok w b ->
  ubig_op w o f a b = to_brepr w (zop f (bvalue w a) (bvalue w b)).
Proof. exact ubig_op_canonical. Qed.
Print Assumptions C09_ubig_op_canonical.

Theorem C09_ubig_op_ownership_irrelevant : forall w, 0 < w -> forall o o' f a b, brepr_ok w a -> brepr_ok w b ->
  ubig_op w o f a b = ubig_op w o' f a b.
Proof. exact ubig_op_ownership_irrelevant. Qed.
Print Assumptions C09_ubig_op_ownership_irrelevant.

Theorem C09_ubig_assign_canonical : forall w, 0 < w -> forall f rhs_ref a b, brepr_ok w a -> brepr_ok w b ->
  ubig_assign_asis w f rhs_ref a b = to_brepr w (zop f (bvalue w a) (bvalue w b)).
Proof. exact ubig_assign_canonical. Qed.
Print Assumptions C09_ubig_assign_canonical.

Theorem C09_repr_and_not_canonical : forall w, 0 < w -> forall a b, brepr_ok w a -> brepr_ok w b ->
  repr_and_not w a b = to_brepr w (Z.ldiff (bvalue w a) (bvalue w b)).
Proof. exact repr_and_not_canonical. Qed.
Print Assumptions C09_repr_and_not_canonical.

Theorem C09_ibig_assign_correct : forall w, 0 < w -> forall f rhs_ref s0 r0 s1 r1, mag_ok w s0 r0 -> mag_ok w s1 r1 ->
  ibig_assign_asis w f rhs_ref s0 r0 s1 r1 = zop f (signed s0 (bvalue w r0)) (signed s1 (bvalue w r1)).
Proof. exact ibig_assign_correct. Qed.
Print Assumptions C09_ibig_assign_correct.

(** shifts: x << n, &x << n, x << &n, x <<= n (in place or copied), x >> n ... : one Repr *)
Theorem C09_ubig_shl_form_canonical : forall w, 0 < w -> forall by_ref cap r n, 0 <= n -> brepr_ok w r ->
  ubig_shl_form w by_ref cap r n = to_brepr w (Z.shiftl (bvalue w r) n).
Proof. exact ubig_shl_form_canonical. Qed.
Print Assumptions C09_ubig_shl_form_canonical.

Theorem C09_ubig_shr_form_canonical : forall w, 0 < w -> forall by_ref r n, 0 <= n -> brepr_ok w r ->
  ubig_shr_form w by_ref r n = to_brepr w (Z.shiftr (bvalue w r) n).
Proof. exact ubig_shr_form_canonical. Qed.
Print Assumptions C09_ubig_shr_form_canonical.

Theorem C09_ubig_shift_assign_canonical : forall w, 0 < w -> forall cap r n, 0 <= n -> brepr_ok w r ->
  ubig_shl_assign_asis w cap r n = to_brepr w (Z.shiftl (bvalue w r) n) /\
  ubig_shr_assign_asis w r n = to_brepr w (Z.shiftr (bvalue w r) n).
Proof. exact ubig_shift_assign_canonical. Qed.
Print Assumptions C09_ubig_shift_assign_canonical.

Theorem C09_ibig_shift_forms_correct : forall w, 0 < w -> forall by_ref cap s r n, 0 <= n -> brepr_ok w r ->
  ibig_shl_form w by_ref cap s r n = Z.shiftl (signed s (bvalue w r)) n /\
  ibig_shr_form w by_ref s r n = Z.shiftr (signed s (bvalue w r)) n.
Proof. exact ibig_shift_forms_correct. Qed.
Print Assumptions C09_ibig_shift_forms_correct.

Theorem C09_repr_set_clear_bit_canonical : forall w, 0 < w -> forall r n, 0 <= n -> brepr_ok w r ->
  repr_set_bit w r n = to_brepr w (set_bit_spec (bvalue w r) n) /\
  repr_clear_bit w r n = to_brepr w (clear_bit_spec (bvalue w r) n) /\
  repr_clear_high_bits w r n = to_brepr w (clear_high_bits_spec (bvalue w r) n).
Proof. exact repr_set_clear_bit_canonical. Qed.
Print Assumptions C09_repr_set_clear_bit_canonical.

Theorem C09_repr_ones_npt_canonical : forall w, 0 < w ->
  (forall n, 0 <= n -> repr_ones w n = to_brepr w (ones_spec n)) /\
  (forall r, brepr_ok w r -> repr_next_power_of_two w r = to_brepr w (next_power_of_two_spec (bvalue w r))).
Proof. exact repr_ones_npt_canonical. Qed.
Print Assumptions C09_repr_ones_npt_canonical.

(** primitive operands: big OP prim, &big OP prim, prim OP big, prim OP &big (and &prim), any primitive width *)
Theorem C09_ubig_prim_asis : forall w, 0 < w -> forall pf f ret_prim t x p, brepr_ok w x -> pty_in t p = true -> 0 <= p ->
  ret_prim_ok f ret_prim t -> ubig_prim_asis w pf f ret_prim t x p = Ok (zop f (bvalue w x) p).
Proof. exact ubig_prim_asis_correct. Qed.
Print Assumptions C09_ubig_prim_asis.

Theorem C09_ibig_prim_asis : forall w, 0 < w -> forall pf f ret_prim t s x p, mag_ok w s x -> pty_in t p = true ->
  ret_prim_ok f ret_prim t -> ibig_prim_asis w pf f ret_prim t s x p = Ok (zop f (signed s (bvalue w x)) p).
Proof. exact ibig_prim_asis_correct. Qed.
Print Assumptions C09_ibig_prim_asis.

Theorem C09_prim_assign : forall w, 0 < w -> forall f,
  (forall x p, brepr_ok w x -> 0 <= p -> ubig_prim_assign_asis w f x p = to_brepr w (zop f (bvalue w x) p)) /\
  (forall s x p, mag_ok w s x -> ibig_prim_assign_asis w f s x p = zop f (signed s (bvalue w x)) p).
Proof. exact prim_assign_correct. Qed.
Print Assumptions C09_prim_assign.

(** the table of Big x primitive instances regenerated from bits.rs: `-> $t` only for `&` with an unsigned
    primitive, so every instance in every form returns Z op and never panics *)
Theorem C09_gen_prim_table_ok : forall usz, forallb prim_row_ok (gen_prim_table usz) = true.
Proof. exact gen_prim_table_ok. Qed.
Print Assumptions C09_gen_prim_table_ok.

Theorem C09_prim_forms_table_correct : forall w usz, 0 < w -> 0 <= usz -> forall ib t f rp, In (ib, t, f, rp) (gen_prim_table usz) ->
  forall pf s x p, mag_ok w s x -> (ib = false -> s = Positive) -> pty_in t p = true ->
    (if ib then ibig_prim_asis w pf f rp t s x p else ubig_prim_asis w pf f rp t x p) = Ok (zop f (signed s (bvalue w x)) p).
Proof. exact prim_forms_table_correct. Qed.
Print Assumptions C09_prim_forms_table_correct.

(** the Small/Large dispatch regenerated from bits.rs (16 impls) computes the two's-complement operation as a
    canonical Repr, for all four ownership combinations *)
Theorem C09_gen_dispatch_correct : forall w, 0 < w -> forall o a b, brepr_ok w a -> brepr_ok w b ->
  (match o with VV => gen_bitand_vv | VR => gen_bitand_vr | RV => gen_bitand_rv | RR => gen_bitand_rr end) w a b
    = to_brepr w (Z.land (bvalue w a) (bvalue w b)) /\
  (match o with VV => gen_bitor_vv | VR => gen_bitor_vr | RV => gen_bitor_rv | RR => gen_bitor_rr end) w a b
    = to_brepr w (Z.lor (bvalue w a) (bvalue w b)) /\
  (match o with VV => gen_bitxor_vv | VR => gen_bitxor_vr | RV => gen_bitxor_rv | RR => gen_bitxor_rr end) w a b
    = to_brepr w (Z.lxor (bvalue w a) (bvalue w b)) /\
  (match o with VV => gen_and_not_vv | VR => gen_and_not_vr | RV => gen_and_not_rv | RR => gen_and_not_rr end) w a b
    = to_brepr w (Z.ldiff (bvalue w a) (bvalue w b)).
Proof. exact gen_dispatch_correct. Qed.
Print Assumptions C09_gen_dispatch_correct.

Theorem C09_gen_dispatch_is_model : forall w, 0 < w -> forall o a b, brepr_ok w a -> brepr_ok w b ->
  (match o with VV => gen_bitand_vv | VR => gen_bitand_vr | RV => gen_bitand_rv | RR => gen_bitand_rr end) w a b = repr_bitand w o a b /\
  (match o with VV => gen_bitor_vv | VR => gen_bitor_vr | RV => gen_bitor_rv | RR => gen_bitor_rr end) w a b = repr_bitor w o a b /\
  (match o with VV => gen_bitxor_vv | VR => gen_bitxor_vr | RV => gen_bitxor_rv | RR => gen_bitxor_rr end) w a b = repr_bitxor w o a b /\
  (match o with VV => gen_and_not_vv | VR => gen_and_not_vr | RV => gen_and_not_rv | RR => gen_and_not_rr end) w a b = repr_and_not w a b.
Proof. exact gen_dispatch_is_model. Qed.
Print Assumptions C09_gen_dispatch_is_model.

(** operand handling of the form macros of helper_macros.rs / impl_shifts, regenerated *)
Theorem C09_gen_form_arms_ok :
  Forall (fun r => own_of_pform (fst r) = snd r) (gen_binop_prim_arms ++ gen_commutative_prim_arms) /\
  (forall pf, In pf (map fst (gen_binop_prim_arms ++ gen_commutative_prim_arms))) /\
  Forall (fun o => o = VV) gen_assign_prim_arms /\
  Forall (fun r => assign_own (fst r) = snd r) gen_assign_by_taking_arms /\
  map fst gen_assign_by_taking_arms = [false; true].
Proof. exact gen_form_arms_ok. Qed.
Print Assumptions C09_gen_form_arms_ok.

Theorem C09_gen_shift_arms_ok :
  Forall (fun r => let '(is_shl, is_assign, cref, by_ref) := r in is_assign = true -> by_ref = false) gen_shift_arms /\
  (forall is_shl by_ref, In (is_shl, false, true, by_ref) gen_shift_arms) /\
  (forall is_shl cref, In (is_shl, true, cref, false) gen_shift_arms) /\
  length gen_shift_arms = 8%nat.
Proof. exact gen_shift_arms_ok. Qed.
Print Assumptions C09_gen_shift_arms_ok.

(** capacities: the buffers the allocating kernels hand to from_buffer, and the regenerated requests *)
Theorem C09_kernel_buffers_are_model : forall w,
  (forall ws rhs, BitsKernels.shl_large_ref w ws rhs = BitsKernels.from_buffer w (shl_large_ref_buf w ws rhs)) /\
  (forall dw rhs, shl_dword_spilled w dw rhs = BitsKernels.from_buffer w (shl_dword_spilled_buf w dw rhs)) /\
  (forall rhs, shl_one_spilled w rhs = BitsKernels.from_buffer w (shl_one_spilled_buf w rhs)) /\
  (forall d n, with_bit_dword_spilled w d n = BitsKernels.from_buffer w (with_bit_dword_spilled_buf w d n)) /\
  (forall buf n, len buf <= n / w -> with_bit_large w buf n = BitsKernels.from_buffer w (with_bit_large_grown_buf w buf n)).
Proof. exact kernel_buffers_are_model. Qed.
Print Assumptions C09_kernel_buffers_are_model.

Theorem C09_bit_kernel_requests_suffice : forall w, 0 < w -> forall M, 8 <= M ->
  (forall ws rhs, 0 <= rhs -> fits M (len (shl_large_ref_buf w ws rhs)) (bkreq_shl_large_ref_request (rhs / w) (len ws))) /\
  (forall dw rhs, 0 <= rhs -> fits M (len (shl_dword_spilled_buf w dw rhs)) (bkreq_shl_dword_spilled_request (rhs / w))) /\
  (forall rhs, 0 <= rhs -> fits M (len (shl_one_spilled_buf w rhs)) (bkreq_shl_one_spilled_request (rhs / w)) /\
                           bkreq_shl_one_spilled_zeros (rhs / w) = rhs / w) /\
  (forall d n, 2 * w <= n -> fits M (len (with_bit_dword_spilled_buf w d n)) (bkreq_with_bit_dword_spilled_request (n / w)) /\
      0 <= bkreq_with_bit_dword_spilled_zeros (n / w) /\ bkreq_with_bit_dword_spilled_zeros (n / w) = n / w - 2) /\
  (forall buf n, len buf <= n / w -> len (with_bit_large_grown_buf w buf n) <= bkreq_with_bit_large_reserve (n / w) /\
      0 <= bkreq_with_bit_large_zeros (n / w) (len buf) /\ bkreq_with_bit_large_zeros (n / w) (len buf) = n / w - len buf).
Proof. exact bit_kernel_requests_suffice. Qed.
Print Assumptions C09_bit_kernel_requests_suffice.

(** [fits M pushed request] = pushed <= request, hence within default_capacity (C17's Buffer::allocate) *)
Theorem C09_fits_meaning : forall M pushed request, fits M pushed request ->
  pushed <= request /\ (0 <= request <= M -> pushed <= StorageModel.default_capacity M request).
Proof. intros M pushed request H. exact H. Qed.
Print Assumptions C09_fits_meaning.

Theorem C09_shl_large_in_place_test : forall cap ln sw, 0 <= ln -> 0 <= sw ->
  bkreq_shl_large_needs ln sw <= cap -> ln < cap /\ sw <= cap - (ln + 1).
Proof. exact shl_large_in_place_test. Qed.
Print Assumptions C09_shl_large_in_place_test.

Theorem C09_bitor_tail_fits : forall ln rhs_len cap, ln < rhs_len -> bkreq_bitor_large_reserve rhs_len <= cap ->
  bkreq_bitxor_large_reserve rhs_len <= cap -> rhs_len - ln <= cap - ln.
Proof. exact bitor_tail_fits. Qed.
Print Assumptions C09_bitor_tail_fits.

(** tie to C17's storage machine (Int/StorageModel.v: every allocate / push / ensure_capacity with its capacity
    assertion as a guard, proved never to trip one by C17_shl / C17_set_bit): whenever the machine returns a
    Repr, its typed view is word for word the result of the C09 kernel *)
From Dashu Require Import Int.BitsStorageTie.

Theorem C09_from_buffer_machine_tie : forall w M, 0 < w -> forall b m r m',
  StorageModel.from_buffer w M b m = Ok (r, m') -> brepr_of_repr w r = BitsKernels.from_buffer w (StorageModel.bws b).
Proof. exact from_buffer_tie. Qed.
Print Assumptions C09_from_buffer_machine_tie.

Theorem C09_shl_machine_is_kernel : forall w M, 0 < w -> forall a n m r m', 0 <= n -> brepr_ok w (brepr_of_targ a) ->
  StorageModel.shl_mag w M a n m = Ok (r, m') ->
  forall cap, brepr_of_repr w r = ubig_shl_form w (targ_is_ref a) cap (brepr_of_targ a) n.
Proof. exact shl_machine_is_kernel. Qed.
Print Assumptions C09_shl_machine_is_kernel.

Theorem C09_set_bit_machine_is_kernel : forall w M, 0 < w -> forall a n m r m', 0 <= n -> brepr_ok w (brepr_of_targ a) ->
  StorageModel.set_bit w M a n m = Ok (r, m') -> brepr_of_repr w r = repr_set_bit w (brepr_of_targ a) n.
Proof. exact set_bit_machine_is_kernel. Qed.
Print Assumptions C09_set_bit_machine_is_kernel.

Example C09_machine_tie_nonvacuous :
  exists r m', StorageModel.shl_mag 64 1000 (StorageModel.TRefLarge [5; 0; 1]) 130 StorageModel.mem0 = Ok (r, m') /\
               brepr_of_repr 64 r = BLarge [0; 0; 20; 0; 4].
Proof. eexists; eexists; split; vm_compute; reflexivity. Qed.

(** non-vacuity of the hypotheses of the round-3 theorems *)
Example C09_forms_nonvacuous :
  ret_prim_ok OpAnd true (PUnsigned 8) /\ pty_in (PUnsigned 8) 255 = true /\ pty_in (PSigned 16) (-32768) = true /\
  In (true, PUnsigned 8, OpAnd, true) (gen_prim_table 64) /\
  ibig_prim_asis 64 (PF_prim_big true) OpAnd true (PUnsigned 8) Negative (BSmall 1) 255 = Ok 255 /\
  ubig_op 64 RV OpXor (BLarge [5; 0; 1]) (BLarge [5; 0; 1; 7]) = BLarge [0; 0; 0; 7] /\
  ubig_shl_form 64 true false (BSmall 1) 128 = BLarge [0; 0; 1] /\
  fits 1000 (len (shl_large_ref_buf 64 [5; 0; 1] 130)) (bkreq_shl_large_ref_request 2 3).
Proof.
  split; [intros _; split; [reflexivity | exists 8; split; [lia | reflexivity]]|].
  split; [reflexivity|]. split; [reflexivity|]. split; [cbn; tauto|]. split; [vm_compute; reflexivity|].
  split; [vm_compute; reflexivity|]. split; [vm_compute; reflexivity|]. apply fits_intro; [lia | vm_compute; discriminate].
Qed.

(* ====================================================================== round 4 *)
From Dashu Require Import Int.BitsStorageTie2 Int.BitsKernelsGenProof Int.BitsSignedWords Int.BitsSignedWordsProofs Int.BitsBeyond.
From DashuGen Require Import BitsKernelsGen.

(** (1) tie to C17's storage machine, continued: >> (all forms), clear_bit, | and ^ (double word into a buffer,
    kept buffer + pushed tail, all ownership arms), & (lowest double word, truncate) *)
Theorem C09_shr_machine_is_kernel : forall w M, 0 < w -> forall a n m r m', 0 <= n -> brepr_ok w (brepr_of_targ a) ->
  StorageModel.shr_mag w M a n m = Ok (r, m') ->
  brepr_of_repr w r = ubig_shr_form w (targ_is_ref a) (brepr_of_targ a) n.
Proof. exact shr_machine_is_kernel. Qed.
Print Assumptions C09_shr_machine_is_kernel.

Theorem C09_clear_bit_machine_is_kernel : forall w M, 0 < w -> forall a n m r m', 0 <= n -> brepr_ok w (brepr_of_targ a) ->
  StorageModel.clear_bit w M a n m = Ok (r, m') -> brepr_of_repr w r = repr_clear_bit w (brepr_of_targ a) n.
Proof. exact clear_bit_machine_is_kernel. Qed.
Print Assumptions C09_clear_bit_machine_is_kernel.

Theorem C09_orx_machine_is_kernel : forall w M, 0 < w -> forall f a b m r m',
  brepr_ok w (brepr_of_targ a) -> brepr_ok w (brepr_of_targ b) ->
  StorageModel.orx_mag w M (zop f) a b m = Ok (r, m') ->
  forall o, brepr_of_repr w r = ubig_op w o f (brepr_of_targ a) (brepr_of_targ b).
Proof. exact orx_machine_is_kernel. Qed.
Print Assumptions C09_orx_machine_is_kernel.

Theorem C09_and_machine_is_kernel : forall w M, 0 < w -> forall a b m r m',
  brepr_ok w (brepr_of_targ a) -> brepr_ok w (brepr_of_targ b) ->
  StorageModel.and_mag w M a b m = Ok (r, m') ->
  forall o, brepr_of_repr w r = ubig_op w o OpAnd (brepr_of_targ a) (brepr_of_targ b).
Proof. exact and_machine_is_kernel. Qed.
Print Assumptions C09_and_machine_is_kernel.

(** (2) the loop kernels regenerated from shift.rs / bits.rs / math.rs (coq/gen/BitsKernelsGen.v) = the hand-written ones *)
Theorem C09_gen_math_kernels : forall w x s, ones_word_gen w x = ones_word w x /\ shr_word_gen w x s = shr_word w x s.
Proof. intros w x s. exact (conj (ones_word_gen_ok w x) (shr_word_gen_ok w x s)). Qed.
Print Assumptions C09_gen_math_kernels.

Theorem C09_gen_shift_kernels : forall w ws s c,
  shl_in_place_gen w ws s = shl_in_place w ws s /\
  shr_in_place_with_carry_gen w ws s c = shr_in_place_with_carry w ws s c.
Proof. intros w ws s c. exact (conj (shl_in_place_gen_ok w ws s) (shr_in_place_with_carry_gen_ok w ws s c)). Qed.
Print Assumptions C09_gen_shift_kernels.

Theorem C09_gen_logic_kernels : forall w buf rhs,
  bitand_large_gen w buf rhs = bitand_large w buf rhs /\ bitor_large_gen w buf rhs = bitor_large w buf rhs /\
  bitxor_large_gen w buf rhs = bitxor_large w buf rhs /\ and_not_large_gen w buf rhs = and_not_large w buf rhs.
Proof.
  intros w buf rhs. exact (conj (bitand_large_gen_ok w buf rhs) (conj (bitor_large_gen_ok w buf rhs)
    (conj (bitxor_large_gen_ok w buf rhs) (and_not_large_gen_ok w buf rhs)))).
Qed.
Print Assumptions C09_gen_logic_kernels.

Theorem C09_gen_trailing_zeros_large : forall w, 0 < w -> forall ws, wf w ws -> value w ws <> 0 ->
  Z.of_nat (trailing_zeros_large_gen w ws) = trailing_zeros_large w ws.
Proof. exact trailing_zeros_large_gen_ok. Qed.
Print Assumptions C09_gen_trailing_zeros_large.

Theorem C09_gen_trailing_ones_large : forall w, 0 < w -> forall ws, wf w ws ->
  Z.of_nat (trailing_ones_large_gen w ws) = trailing_ones_large w ws.
Proof. exact trailing_ones_large_gen_ok. Qed.
Print Assumptions C09_gen_trailing_ones_large.

Theorem C09_gen_trailing_zeros_shifted : forall w, 0 < w -> forall x r, 2 <= w -> wf w (x :: r) -> value w r <> 0 ->
  Z.of_nat (trailing_zeros_large_shifted_by_one_gen w (x :: r)) = trailing_zeros_large_shifted_by_one w (x :: r).
Proof. exact trailing_zeros_large_shifted_by_one_gen_ok. Qed.
Print Assumptions C09_gen_trailing_zeros_shifted.

Theorem C09_gen_count_lowbits_kernels : forall w, 0 < w -> forall ws n,
  Z.of_nat (count_ones_large_gen w ws) = sum_words count_ones_spec ws /\
  (0 <= n -> are_slice_low_bits_nonzero_gen w ws (Z.to_nat n) = slice_low_bits_nonzero w ws n).
Proof. intros w H ws n. exact (conj (count_ones_large_gen_ok w ws) (are_slice_low_bits_nonzero_gen_ok w H ws n)). Qed.
Print Assumptions C09_gen_count_lowbits_kernels.

(** (4) the IBig tables closed at word level, citing C01: add_one / sub_one / Not / neg / IBig subtraction on words *)
Theorem C09_repr_add_sub_one_words : forall w, 8 <= w -> forall r, brepr_ok w r ->
  (bvalue w (repr_add_one w r) = bvalue w r + 1 /\ brepr_ok w (repr_add_one w r)) /\
  (1 <= bvalue w r -> bvalue w (repr_sub_one w r) = bvalue w r - 1 /\ brepr_ok w (repr_sub_one w r)).
Proof. intros w H r K. exact (conj (repr_add_one_correct w H r K) (repr_sub_one_correct w H r K)). Qed.
Print Assumptions C09_repr_add_sub_one_words.

Theorem C09_sub_one_typed_is_words : forall w, 8 <= w -> forall r, brepr_ok w r -> 1 <= bvalue w r ->
  sub_one_typed w r = repr_sub_one w r.
Proof. exact sub_one_typed_is_words. Qed.
Print Assumptions C09_sub_one_typed_is_words.

Theorem C09_ibig_not_words : forall w, 8 <= w -> forall s r, mag_ok w s r ->
  sval w (ibig_not_words w s r) = Z.lnot (signed s (bvalue w r)) /\ brepr_ok w (snd (ibig_not_words w s r)).
Proof. exact ibig_not_words_correct. Qed.
Print Assumptions C09_ibig_not_words.

Theorem C09_ibig_bitops_words : forall w, 8 <= w -> forall o s0 r0 s1 r1, mag_ok w s0 r0 -> mag_ok w s1 r1 ->
  let x := signed s0 (bvalue w r0) in let y := signed s1 (bvalue w r1) in
  (sval w (ibig_bitand_words w o s0 r0 s1 r1) = Z.land x y /\ brepr_ok w (snd (ibig_bitand_words w o s0 r0 s1 r1))) /\
  (sval w (ibig_bitor_words w o s0 r0 s1 r1) = Z.lor x y /\ brepr_ok w (snd (ibig_bitor_words w o s0 r0 s1 r1))) /\
  (sval w (ibig_bitxor_words w o s0 r0 s1 r1) = Z.lxor x y /\ brepr_ok w (snd (ibig_bitxor_words w o s0 r0 s1 r1))).
Proof. exact ibig_bitops_words_correct. Qed.
Print Assumptions C09_ibig_bitops_words.

Theorem C09_ibig_shr_words : forall w, 8 <= w -> forall by_ref s r n, 0 <= n -> mag_ok w s r ->
  exists res, ibig_shr_words w by_ref s r n = Ok res /\
    sval w res = Z.shiftr (signed s (bvalue w r)) n /\ brepr_ok w (snd res).
Proof. exact ibig_shr_words_correct. Qed.
Print Assumptions C09_ibig_shr_words.

(** counts and positions beyond the operand (2^32 + k ... usize::MAX - k): the specification is a constant *)
Theorem C09_shr_beyond_len : forall x n, 0 <= n -> Z.abs x < 2 ^ n -> Z.shiftr x n = if x <? 0 then -1 else 0.
Proof. exact shr_beyond_len. Qed.
Print Assumptions C09_shr_beyond_len.

Theorem C09_bitops_beyond_len : forall x n, 0 <= n -> 0 <= x < 2 ^ n ->
  Z.testbit x n = false /\ clear_bit_spec x n = x /\ clear_high_bits_spec x n = x /\ split_bits_spec x n = (x, 0).
Proof. exact bitops_beyond_len. Qed.
Print Assumptions C09_bitops_beyond_len.

Theorem C09_testbit_beyond_len_neg : forall x n, 0 <= n -> - 2 ^ n <= x < 0 -> Z.testbit x n = true.
Proof. exact testbit_beyond_len_neg. Qed.
Print Assumptions C09_testbit_beyond_len_neg.

(** (3) no 16-bit build can be made (force_bits="16": const evaluation error in integer/src/mul/ntt.rs): w = 16 is tied
    by theorems only - the word-level statements instantiated at w = 16 *)
Theorem C09_w16_instances :
  (forall o f a b, brepr_ok 16 a -> brepr_ok 16 b -> ubig_op 16 o f a b = to_brepr 16 (zop f (bvalue 16 a) (bvalue 16 b))) /\
  (forall by_ref r n, 0 <= n -> brepr_ok 16 r -> ubig_shr_form 16 by_ref r n = to_brepr 16 (Z.shiftr (bvalue 16 r) n)) /\
  (forall by_ref cap r n, 0 <= n -> brepr_ok 16 r -> ubig_shl_form 16 by_ref cap r n = to_brepr 16 (Z.shiftl (bvalue 16 r) n)).
Proof. exact w16_instances. Qed.
Print Assumptions C09_w16_instances.

(** round 5: the STRAIGHT-LINE bodies of shift_ops.rs / bits.rs / repr.rs regenerated from the Rust source on every run
    (coq/gen/BitsBodiesGen.v, tools/translate_c09_r5.py), with `as u32` / `as usize` casts as explicit truncations and machine
    shifts carrying their width, are equal to the hand-written models - for every word size w whose double word width fits a
    u32 and the usize (widths_ok w uw := 0 < w /\ 2w < 2^32 /\ 2w < 2^uw) - and meet the specification directly *)
From Dashu Require Import Int.BitsBodiesPrims Int.BitsBodiesGenProof Int.BitsBodiesGenSpec.
From DashuGen Require Import BitsBodiesGen.

Theorem C09_gen_shl_bodies : forall w uw, widths_ok w uw ->
  (forall rhs, shl_one_spilled_gen w uw rhs = shl_one_spilled w rhs) /\
  (forall d rhs, shl_dword_spilled_gen w uw d rhs = shl_dword_spilled w d rhs) /\
  (forall d rhs, 0 < d < B w * B w -> 0 <= rhs -> shl_dword_gen w uw d rhs = shl_dword w d rhs) /\
  (forall ws rhs, shl_large_ref_gen w uw ws rhs = shl_large_ref w ws rhs) /\
  (forall cap buf rhs, shl_large_gen w uw cap buf rhs = shl_large w (negb (cap <? len buf + rhs / w + 1)) buf rhs).
Proof. exact gen_shl_bodies. Qed.
Print Assumptions C09_gen_shl_bodies.

Theorem C09_gen_shr_bodies : forall w uw, widths_ok w uw ->
  (forall d rhs, 0 <= rhs -> shr_dword_gen w uw d rhs = shr_dword w d rhs) /\
  (forall buf rhs, shr_large_gen w uw buf rhs = shr_large w buf rhs) /\
  (forall ws rhs, shr_large_ref_gen w uw ws rhs = shr_large_ref w ws rhs).
Proof. exact gen_shr_bodies. Qed.
Print Assumptions C09_gen_shr_bodies.

Theorem C09_gen_bit_bodies : forall w uw, widths_ok w uw ->
  (forall d n, with_bit_dword_spilled_gen w uw d n = with_bit_dword_spilled w d n) /\
  (forall buf n, with_bit_large_gen w uw buf n = with_bit_large w buf n) /\
  (forall buf n, clear_high_bits_large_gen w uw buf n = clear_high_bits_large w buf n) /\
  (forall r n, 0 <= n -> typed_set_bit_gen w uw r n = repr_set_bit w r n) /\
  (forall r n, 0 <= n -> typed_clear_bit_gen w uw r n = repr_clear_bit w r n) /\
  (forall r n, 0 <= n -> typed_clear_high_bits_gen w uw r n = repr_clear_high_bits w r n) /\
  (forall r n, 0 <= n -> typed_split_bits_gen w uw r n = repr_split_bits w r n).
Proof. exact gen_bit_bodies. Qed.
Print Assumptions C09_gen_bit_bodies.

Theorem C09_gen_npt_ones_bodies : forall w uw, widths_ok w uw ->
  (forall ws, ws <> nil -> next_power_of_two_large_gen w uw ws = next_power_of_two_large w ws) /\
  (forall r, brepr_ok w r -> typed_next_power_of_two_gen w uw r = repr_next_power_of_two w r) /\
  (forall n, 0 <= n -> repr_ones_gen w uw n = repr_ones w n).
Proof. exact gen_npt_ones_bodies. Qed.
Print Assumptions C09_gen_npt_ones_bodies.

Theorem C09_gen_shift_bodies_spec : forall w uw, widths_ok w uw -> forall rhs, 0 <= rhs ->
  (forall d, 0 < d < B w * B w ->
     bvalue w (shl_dword_gen w uw d rhs) = Z.shiftl d rhs /\ brepr_ok w (shl_dword_gen w uw d rhs)) /\
  (forall cap buf, wf w buf ->
     bvalue w (shl_large_gen w uw cap buf rhs) = Z.shiftl (value w buf) rhs /\ brepr_ok w (shl_large_gen w uw cap buf rhs)) /\
  (forall ws, wf w ws ->
     bvalue w (shl_large_ref_gen w uw ws rhs) = Z.shiftl (value w ws) rhs /\ brepr_ok w (shl_large_ref_gen w uw ws rhs)) /\
  (forall d, 0 <= d < B w * B w ->
     bvalue w (shr_dword_gen w uw d rhs) = Z.shiftr d rhs /\ brepr_ok w (shr_dword_gen w uw d rhs)) /\
  (forall buf, wf w buf ->
     bvalue w (shr_large_gen w uw buf rhs) = Z.shiftr (value w buf) rhs /\ brepr_ok w (shr_large_gen w uw buf rhs)) /\
  (forall ws, wf w ws ->
     bvalue w (shr_large_ref_gen w uw ws rhs) = Z.shiftr (value w ws) rhs /\ brepr_ok w (shr_large_ref_gen w uw ws rhs)).
Proof. exact gen_shift_bodies_spec. Qed.
Print Assumptions C09_gen_shift_bodies_spec.

Theorem C09_gen_bit_bodies_spec : forall w uw, widths_ok w uw -> forall r n, 0 <= n -> brepr_ok w r ->
  (bvalue w (typed_set_bit_gen w uw r n) = set_bit_spec (bvalue w r) n /\ brepr_ok w (typed_set_bit_gen w uw r n)) /\
  (bvalue w (typed_clear_bit_gen w uw r n) = clear_bit_spec (bvalue w r) n /\ brepr_ok w (typed_clear_bit_gen w uw r n)) /\
  (bvalue w (typed_clear_high_bits_gen w uw r n) = clear_high_bits_spec (bvalue w r) n /\
     brepr_ok w (typed_clear_high_bits_gen w uw r n)) /\
  (let '(lo, hi) := typed_split_bits_gen w uw r n in
     (bvalue w lo, bvalue w hi) = split_bits_spec (bvalue w r) n /\ brepr_ok w lo /\ brepr_ok w hi) /\
  (bvalue w (typed_next_power_of_two_gen w uw r) = next_power_of_two_spec (bvalue w r) /\
     brepr_ok w (typed_next_power_of_two_gen w uw r)) /\
  (bvalue w (repr_ones_gen w uw n) = ones_spec n /\ brepr_ok w (repr_ones_gen w uw n)).
Proof. exact gen_bit_bodies_spec. Qed.
Print Assumptions C09_gen_bit_bodies_spec.

(** the seeded change of round 4 (shift count of shr_dword truncated to 32 bits) as a definition: a different function *)
Theorem C09_shr_dword_trunc32_refuted : shr_dword_trunc32 64 5 (2 ^ 32) <> shr_dword 64 5 (2 ^ 32).
Proof. exact shr_dword_trunc32_refuted. Qed.
Print Assumptions C09_shr_dword_trunc32_refuted.

Theorem C09_gen_ref_bodies : forall w uw, widths_ok w uw ->
  (forall r n, 0 <= n -> ref_bit_gen w uw r n = repr_bit w r n) /\
  (forall r, brepr_ok w r -> ref_bit_len_gen w uw r = repr_bit_len w r) /\
  (forall d n, 0 <= n -> are_dword_low_bits_nonzero_gen w uw d n = dword_low_bits_nonzero w d n) /\
  (forall r n, 0 <= n -> ref_are_low_bits_nonzero_gen w uw r n = are_low_bits_nonzero w r n).
Proof. exact gen_ref_bodies. Qed.
Print Assumptions C09_gen_ref_bodies.

From Dashu Require Import Int.BitsBodiesGenProof2.
Theorem C09_gen_ref_bodies2 : forall w uw, widths_ok w uw ->
  (forall r, ref_is_power_of_two_gen w uw r = repr_is_power_of_two r) /\
  (forall r, brepr_ok w r -> ref_trailing_zeros_gen w uw r = repr_trailing_zeros w r) /\
  (forall r, brepr_ok w r -> ref_trailing_ones_gen w uw r = repr_trailing_ones w r) /\
  (forall r, ref_trailing_ones_neg_gen w uw r = repr_trailing_ones_neg w r) /\
  (forall r, brepr_ok w r -> ref_count_ones_gen w uw r = repr_count_ones r) /\
  (forall r, brepr_ok w r -> ref_count_zeros_gen w uw r = repr_count_zeros w r).
Proof. exact gen_ref_bodies2. Qed.
Print Assumptions C09_gen_ref_bodies2.
