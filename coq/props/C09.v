(** C09 - bit operations follow infinite two's-complement semantics.
    ONLY statements pinned here; proofs live in Dashu.Int.*. *)
From Dashu Require Import Base.Prelude Int.BitsSpec Int.BitsSign.
From DashuGen Require Import SignTables.
Open Scope Z_scope.

Theorem C09_and : forall s0 m0 s1 m1, ibig_bitand_gen s0 m0 s1 m1 = Z.land (signed s0 m0) (signed s1 m1).
Proof. exact ibig_bitand_correct. Qed.
Print Assumptions C09_and.

Theorem C09_or : forall s0 m0 s1 m1, ibig_bitor_gen s0 m0 s1 m1 = Z.lor (signed s0 m0) (signed s1 m1).
Proof. exact ibig_bitor_correct. Qed.
Print Assumptions C09_or.

Theorem C09_xor : forall s0 m0 s1 m1, ibig_bitxor_gen s0 m0 s1 m1 = Z.lxor (signed s0 m0) (signed s1 m1).
Proof. exact ibig_bitxor_correct. Qed.
Print Assumptions C09_xor.

Theorem C09_and_ubig_ibig : forall m0 s1 m1, ubig_ibig_bitand_gen Positive m0 s1 m1 = Z.land m0 (signed s1 m1).
Proof. exact ubig_ibig_bitand_correct. Qed.
Print Assumptions C09_and_ubig_ibig.

Theorem C09_and_ibig_ubig : forall s0 m0 m1, ibig_ubig_bitand_gen s0 m0 Positive m1 = Z.land (signed s0 m0) m1.
Proof. exact ibig_ubig_bitand_correct. Qed.
Print Assumptions C09_and_ibig_ubig.

Theorem C09_not : forall s m, ibig_not_gen s m = Z.lnot (signed s m) /\ ibig_not_ref_gen s m = Z.lnot (signed s m).
Proof. exact ibig_not_correct. Qed.
Print Assumptions C09_not.

Theorem C09_shr : forall s m n, 0 <= n -> 0 <= m ->
  ibig_shr_gen s m n = Z.shiftr (signed s m) n /\ ibig_shr_ref_gen s m n = Z.shiftr (signed s m) n.
Proof. exact ibig_shr_correct. Qed.
Print Assumptions C09_shr.

Theorem C09_shr_floor : forall s m n, 0 <= n -> 0 <= m -> ibig_shr_gen s m n = signed s m / 2 ^ n.
Proof. exact ibig_shr_floor. Qed.
Print Assumptions C09_shr_floor.

Theorem C09_trailing_zeros : forall a k, trailing_zeros_spec a = Some k ->
  0 <= k /\ Z.testbit a k = true /\ forall i, 0 <= i < k -> Z.testbit a i = false.
Proof. exact trailing_zeros_spec_ok. Qed.
Print Assumptions C09_trailing_zeros.

Theorem C09_trailing_ones : forall a k, trailing_ones_spec a = Some k ->
  0 <= k /\ Z.testbit a k = false /\ forall i, 0 <= i < k -> Z.testbit a i = true.
Proof. exact trailing_ones_spec_ok. Qed.
Print Assumptions C09_trailing_ones.

Theorem C09_trailing_none : forall a, (trailing_zeros_spec a = None <-> a = 0) /\ (trailing_ones_spec a = None <-> a = -1).
Proof. intros a; split; [apply trailing_zeros_spec_none | apply trailing_ones_spec_none]. Qed.
Print Assumptions C09_trailing_none.

Theorem C09_next_power_of_two : forall a, 0 <= a ->
  let p := next_power_of_two_spec a in a <= p /\ (exists k, 0 <= k /\ p = 2 ^ k) /\ (1 < p -> p / 2 < a).
Proof. exact next_power_of_two_spec_ok. Qed.
Print Assumptions C09_next_power_of_two.

Theorem C09_is_power_of_two : forall a, is_power_of_two_spec a = true <-> exists k, 0 <= k /\ a = 2 ^ k.
Proof. exact is_power_of_two_spec_ok. Qed.
Print Assumptions C09_is_power_of_two.

Theorem C09_split_bits : forall a n, 0 <= n ->
  let '(lo, hi) := split_bits_spec a n in a = hi * 2 ^ n + lo /\ 0 <= lo < 2 ^ n.
Proof. exact split_bits_spec_ok. Qed.
Print Assumptions C09_split_bits.

Theorem C09_set_clear_bit : forall a n i, 0 <= n -> 0 <= i ->
  Z.testbit (set_bit_spec a n) i = (if i =? n then true else Z.testbit a i) /\
  Z.testbit (clear_bit_spec a n) i = (if i =? n then false else Z.testbit a i).
Proof. exact set_clear_bit_spec_ok. Qed.
Print Assumptions C09_set_clear_bit.

Theorem C09_bit_len : forall a, a <> 0 -> 2 ^ (bit_len_spec a - 1) <= Z.abs a < 2 ^ bit_len_spec a.
Proof. exact bit_len_spec_ok. Qed.
Print Assumptions C09_bit_len.

(** word-level as-is models of the scanning kernels (any word size w > 0) *)
From Dashu Require Import Base.Words Int.BitsWords.

Theorem C09_trailing_zeros_large : forall w, 0 < w -> forall ws, wf w ws -> value w ws <> 0 ->
  trailing_zeros_spec (value w ws) = Some (trailing_zeros_large w ws) /\ 0 <= trailing_zeros_large w ws.
Proof. exact trailing_zeros_large_correct. Qed.
Print Assumptions C09_trailing_zeros_large.

Theorem C09_trailing_ones_large : forall w, 0 < w -> forall ws, wf w ws ->
  trailing_ones_spec (value w ws) = Some (trailing_ones_large w ws) /\ 0 <= trailing_ones_large w ws.
Proof. exact trailing_ones_large_correct. Qed.
Print Assumptions C09_trailing_ones_large.

(** the repaired defect F01 stays refuted: scanning from word 1 disagrees with the specification *)
Theorem C09_trailing_ones_defective_refuted : forall w, 0 < w -> 3 <= w ->
  trailing_ones_spec (value w [5; 0; 1]) <> Some (trailing_ones_large_defective w [5; 0; 1]).
Proof. exact trailing_ones_defective_refuted. Qed.
Print Assumptions C09_trailing_ones_defective_refuted.

Theorem C09_bit_large : forall w, 0 < w -> forall ws n, wf w ws -> 0 <= n -> bit_large w ws n = Z.testbit (value w ws) n.
Proof. exact bit_large_correct. Qed.
Print Assumptions C09_bit_large.

Example C09_words_nonvacuous : wf 64 [5; 0; 1] /\ value 64 [5; 0; 1] <> 0 /\ trailing_ones_large 64 [5; 0; 1] = 1.
Proof. split; [repeat constructor; lia | split; [cbn; lia | reflexivity]]. Qed.
