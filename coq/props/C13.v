(** C13 - reduced-ring arithmetic is the homomorphic image of integer arithmetic.
    ONLY statements pinned here; proofs live in Dashu.Int.ModRing*. *)
From Dashu Require Import Base.Prelude Int.ModRingSpec.
Open Scope Z_scope.
