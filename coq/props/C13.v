(** C13 - reduced-ring arithmetic is the homomorphic image of integer arithmetic.
    ONLY statements pinned here; proofs live in Dashu.Int.ModRing*. *)
From Dashu Require Import Base.Prelude Base.Words Int.ModRingSpec Int.ModRingSpecProofs
  Int.ModRingPowModel Int.ModRingPowProofs Int.ModRingModel Int.ModRingProofs Int.ModRingOpsProofs
  Int.ModRingMain Int.ModRingExpr Int.ModRingInst Int.ModRingInstProofs
  Int.DivWordModel Int.DivLargeProofs Int.DivContracts Int.ModRingWords Int.ModRingWordsProofs Int.ModRingWordsMulProofs Int.ModRingWordsInst
  Int.DivNumModular Int.ModRingNumModular Int.ModRingNumModularDefs
  Int.ModRingConv Int.ModRingConvProofs Int.ModRingWordsSrc Int.ModRingConvInst Int.ModRingConvInstProofs Int.ModRingGenProofs
  Int.GrlModel Int.ModRingGcdSmall
  Int.GrlLehmer Int.ModRingLehmer Int.ModRingLehmerGuess Int.ModRingLehmerProofs Int.ModRingLehmerInst Int.ModRingLehmerSrc
  Int.RingAdd Int.ModRingReducerWords Int.ModRingReducerWordsProofs Int.ModRingClone Int.ModRingCloneProofs
  Int.ModRingWInst Int.ModRingWInstProofs Int.ModRingBodiesGenProofs.
From DashuGen Require Import ModRingGen ModRingBodiesGen.
Open Scope Z_scope.

(** ---------------- what the statement demands of the specification ---------------- *)
Theorem C13_spec_homomorphism : forall m a b, 0 < m ->
  add_spec m (reduce_spec m a) (reduce_spec m b) = reduce_spec m (a + b) /\
  sub_spec m (reduce_spec m a) (reduce_spec m b) = reduce_spec m (a - b) /\
  mul_spec m (reduce_spec m a) (reduce_spec m b) = reduce_spec m (a * b) /\
  neg_spec m (reduce_spec m a) = reduce_spec m (- a) /\
  dbl_spec m (reduce_spec m a) = reduce_spec m (2 * a) /\
  sqr_spec m (reduce_spec m a) = reduce_spec m (a * a) /\
  0 <= reduce_spec m a < m.
Proof. exact spec_homomorphism. Qed.
Print Assumptions C13_spec_homomorphism.

Theorem C13_spec_pow : forall m a e, 0 < m -> 0 <= e ->
  pow_spec m (reduce_spec m a) e = reduce_spec m (a ^ e) /\ powm m a e = pow_spec m a e.
Proof. exact spec_pow. Qed.
Print Assumptions C13_spec_pow.

Theorem C13_spec_inverse : forall m a, 0 < m ->
  match inv_spec m a with
  | Some x => 0 <= x < m /\ (a * x) mod m = 1 mod m /\ Z.gcd a m = 1
  | None => Z.gcd a m <> 1
  end.
Proof. exact spec_inverse. Qed.
Print Assumptions C13_spec_inverse.

Theorem C13_spec_inverse_iff : forall m a, 0 < m -> ((exists x, inv_spec m a = Some x) <-> Z.gcd a m = 1).
Proof. exact inv_spec_some_iff. Qed.
Print Assumptions C13_spec_inverse_iff.

Theorem C13_spec_inverse_unique : forall m a x y, 0 < m -> is_inverse m a x -> is_inverse m a y -> x = y.
Proof. exact inverse_unique. Qed.
Print Assumptions C13_spec_inverse_unique.

Theorem C13_spec_inv_checker : forall m a r, 0 < m -> (inv_ok m a r = true <-> r = inv_spec m a).
Proof. exact inv_ok_iff. Qed.
Print Assumptions C13_spec_inv_checker.

Theorem C13_spec_div : forall m a b, 0 < m ->
  (Z.gcd b m = 1 -> exists x, is_inverse m b x /\ div_spec m a b = Ok (mul_spec m a x)) /\
  (Z.gcd b m <> 1 -> div_spec m a b = Panic NonInvertible).
Proof. exact div_spec_ok. Qed.
Print Assumptions C13_spec_div.

Theorem C13_spec_div_mul_back : forall m a b q, 0 < m -> div_spec m a b = Ok q -> 0 <= q < m /\ (q * b) mod m = a mod m.
Proof. exact div_spec_mul_back. Qed.
Print Assumptions C13_spec_div_mul_back.

(** ---------------- the exponentiation algorithms of pow.rs, in any structure ---------------- *)
(** binary method, one exponent word at a time (single / double word rings) *)
Theorem C13_pow_binary_generic : forall w, 0 < w ->
  forall (T : Type) (one : T) (sqr : T -> T) (mul : T -> T -> T) (R : T -> Z -> Prop),
  R one 0 ->
  (forall x j, 0 <= j -> R x j -> R (sqr x) (2 * j)) ->
  (forall x y j k, 0 <= j -> 0 <= k -> R x j -> R y k -> R (mul x y) (j + k)) ->
  forall raw exp, R raw 1 -> 0 <= exp -> R (pow_prim w T one sqr mul raw exp) exp.
Proof. exact pow_prim_ok. Qed.
Print Assumptions C13_pow_binary_generic.

(** sliding window with a table of odd powers (multi-word rings), every window length the code can choose *)
Theorem C13_pow_window_generic : forall w (T : Type) (one : T) (sqr : T -> T) (mul : T -> T -> T) (R : T -> Z -> Prop),
  R one 0 ->
  (forall x j, 0 <= j -> R x j -> R (sqr x) (2 * j)) ->
  (forall x y j k, 0 <= j -> 0 <= k -> R x j -> R y k -> R (mul x y) (j + k)) ->
  forall (winf : Z -> Z -> Z -> Z) raw exp, R raw 1 -> 0 <= exp ->
  (forall wl bit, 1 <= wl < w -> 0 <= bit -> winf exp bit wl = window_val exp bit wl) -> 2 <= w ->
  exists res, pow_large w T one sqr mul winf raw exp = Ok res /\ R res exp.
Proof. exact pow_large_ok. Qed.
Print Assumptions C13_pow_window_generic.

(** the word-level window extraction of the code reads the window of the whole exponent *)
Theorem C13_window_at : forall w exp bit wl, 0 < w -> 0 <= exp -> 0 <= bit -> 1 <= wl < w ->
  window_at w exp bit wl = window_val exp bit wl.
Proof. exact window_at_val. Qed.
Print Assumptions C13_window_at.

(** ---------------- as-is model: every word size >= 2, every modulus >= 1, all operands ---------------- *)
Theorem C13_asis_reduce : forall w f2 f3 finv fgcd, 2 <= w -> externals_ok w f2 f3 finv fgcd ->
  forall id m x, 1 <= m ->
  exists r e, new_ring w id m = Ok r /\ ring_wf w r /\ r_m r = m /\ r_id r = id /\
    reduce_asis w f2 f3 r x = Ok e /\ rep r x e /\
    residue_asis e = Ok (x mod m) /\ modulus_asis e = m /\ 0 <= x mod m < m.
Proof. exact asis_reduce. Qed.
Print Assumptions C13_asis_reduce.

Theorem C13_asis_ring_ops : forall w f2 f3 finv fgcd, 2 <= w -> externals_ok w f2 f3 finv fgcd ->
  forall r x y a b, ring_wf w r -> rep r x a -> rep r y b ->
  (exists c, add_asis w a b = Ok c /\ rep r (x + y) c) /\
  (exists c, sub_asis w a b = Ok c /\ rep r (x - y) c) /\
  (exists c, mul_asis w f2 f3 a b = Ok c /\ rep r (x * y) c) /\
  (exists c, neg_asis a = Ok c /\ rep r (- x) c) /\
  (exists c, dbl_asis w a = Ok c /\ rep r (2 * x) c) /\
  (exists c, sqr_asis w f2 f3 a = Ok c /\ rep r (x * x) c) /\
  eq_asis a b = Ok (x mod r_m r =? y mod r_m r).
Proof. exact asis_ring_ops. Qed.
Print Assumptions C13_asis_ring_ops.

Theorem C13_asis_pow : forall w f2 f3 finv fgcd, 2 <= w -> externals_ok w f2 f3 finv fgcd ->
  forall r x a e, ring_wf w r -> rep r x a -> 0 <= e ->
  exists c, pow_asis w f2 f3 a e = Ok c /\ rep r (x ^ e) c.
Proof. exact asis_pow. Qed.
Print Assumptions C13_asis_pow.

Theorem C13_asis_inv : forall w f2 f3 finv fgcd, 2 <= w -> externals_ok w f2 f3 finv fgcd ->
  forall r x a, ring_wf w r -> rep r x a ->
  (exists o, inv_asis w finv fgcd a = Ok o /\
     match o with
     | Some c => exists v, rep r v c /\ is_inverse (r_m r) x (v mod r_m r) /\ Z.gcd x (r_m r) = 1
     | None => Z.gcd x (r_m r) <> 1
     end) /\
  ((exists c, inv_asis w finv fgcd a = Ok (Some c)) <-> Z.gcd x (r_m r) = 1).
Proof. exact asis_inv. Qed.
Print Assumptions C13_asis_inv.

Theorem C13_asis_div : forall w f2 f3 finv fgcd, 2 <= w -> externals_ok w f2 f3 finv fgcd ->
  forall r x y a b, ring_wf w r -> rep r x a -> rep r y b ->
  match div_spec (r_m r) x y with
  | Ok q => exists c, div_asis w f2 f3 finv fgcd a b = Ok c /\ rep r q c
  | Panic p => div_asis w f2 f3 finv fgcd a b = Panic p
  | _ => False
  end.
Proof. exact asis_div. Qed.
Print Assumptions C13_asis_div.

Theorem C13_asis_different_rings : forall w f2 f3 a b, r_id (e_ring a) <> r_id (e_ring b) ->
  add_asis w a b = Panic DifferentRings /\ sub_asis w a b = Panic DifferentRings /\
  mul_asis w f2 f3 a b = Panic DifferentRings /\ eq_asis a b = Panic DifferentRings.
Proof. exact different_rings_panic. Qed.
Print Assumptions C13_asis_different_rings.

Theorem C13_asis_reducer : forall w f2 f3 finv fgcd, 2 <= w -> externals_ok w f2 f3 finv fgcd ->
  forall r x y e, ring_wf w r -> 0 <= e ->
  let f v := v mod r_m r * 2 ^ r_shift r in
  (0 <= x -> rd_transform w f2 f3 r x = Ok (f x)) /\
  (forall t, 0 <= t -> rd_check w r t = (t mod 2 ^ r_shift r =? 0) && (t / 2 ^ r_shift r <? r_m r)) /\
  rd_check w r (f x) = true /\
  rd_residue r (f x) = x mod r_m r /\ rd_modulus r = r_m r /\ rd_is_zero (f x) = (x mod r_m r =? 0) /\
  rd_add w r (f x) (f y) = Ok (f (x + y)) /\ rd_sub r (f x) (f y) = Ok (f (x - y)) /\
  rd_dbl w r (f x) = Ok (f (2 * x)) /\ rd_neg r (f x) = Ok (f (- x)) /\
  rd_mul w f2 f3 r (f x) (f y) = Ok (f (x * y)) /\ rd_sqr w f2 f3 r (f x) = Ok (f (x * x)) /\
  rd_pow w f2 f3 r (f x) e = Ok (f (x ^ e)) /\
  exists o, rd_inv w finv fgcd r (f x) = Ok o /\
    match o with
    | Some t => exists v, t = f v /\ is_inverse (r_m r) x (v mod r_m r) /\ Z.gcd x (r_m r) = 1
    | None => Z.gcd x (r_m r) <> 1
    end.
Proof. exact asis_reducer. Qed.
Print Assumptions C13_asis_reducer.

(** ---------------- whole expressions (all finite histories of operations on one ring) ---------------- *)
Theorem C13_expr_spec_homomorphism : forall m e, 0 < m -> div_free e -> exps_ok e -> eval_spec m e = Ok (evalZ e mod m).
Proof. exact eval_spec_hom. Qed.
Print Assumptions C13_expr_spec_homomorphism.

Theorem C13_expr_asis : forall w f2 f3 finv fgcd, 2 <= w -> externals_ok w f2 f3 finv fgcd ->
  forall r e, ring_wf w r -> exps_ok e ->
  match eval_spec (r_m r) e with
  | Ok q => exists c, eval_asis w f2 f3 finv fgcd r e = Ok c /\ rep r q c
  | Panic p => eval_asis w f2 f3 finv fgcd r e = Panic p
  | _ => False
  end.
Proof. exact eval_asis_ok. Qed.
Print Assumptions C13_expr_asis.

Theorem C13_expr_homomorphism : forall w f2 f3 finv fgcd, 2 <= w -> externals_ok w f2 f3 finv fgcd ->
  forall r e, ring_wf w r -> div_free e -> exps_ok e ->
  exists c, eval_asis w f2 f3 finv fgcd r e = Ok c /\ residue_asis c = Ok (evalZ e mod r_m r) /\
            0 <= evalZ e mod r_m r < r_m r.
Proof. exact expr_homomorphism. Qed.
Print Assumptions C13_expr_homomorphism.

(** ---------------- the extracted 64-bit model the oracle runs = the specification, all inputs ---------------- *)
Theorem C13_run_reduce : forall m a, 1 <= m -> run_reduce m a = Ok (reduce_spec m a, m).
Proof. exact run_reduce_correct. Qed.
Print Assumptions C13_run_reduce.

Theorem C13_run_un : forall o m a, 1 <= m -> run_un o m a = Ok (un_spec o m a).
Proof. exact run_un_correct. Qed.
Print Assumptions C13_run_un.

Theorem C13_run_bin : forall o id m a b, 1 <= m -> run_bin o id id m m a b = bin_spec o m a b.
Proof. exact run_bin_correct. Qed.
Print Assumptions C13_run_bin.

Theorem C13_run_bin_mixed : forall o id1 id2 m1 m2 a b, 1 <= m1 -> 1 <= m2 -> id1 <> id2 ->
  run_bin o id1 id2 m1 m2 a b =
  match o with
  | ODiv => if inv_spec m2 b then Panic DifferentRings else Panic NonInvertible
  | _ => Panic DifferentRings
  end.
Proof. exact run_bin_mixed. Qed.
Print Assumptions C13_run_bin_mixed.

Theorem C13_run_pow : forall m a e, 1 <= m -> 0 <= e -> run_pow m a e = Ok (powm m a e) /\ powm m a e = (a ^ e) mod m.
Proof. exact run_pow_correct. Qed.
Print Assumptions C13_run_pow.

Theorem C13_run_inv : forall m a, 1 <= m -> run_inv m a = Ok (inv_spec m a).
Proof. exact run_inv_correct. Qed.
Print Assumptions C13_run_inv.

Theorem C13_run_eq : forall id m a b, 1 <= m -> run_eq id id m m a b = Ok (reduce_spec m a =? reduce_spec m b).
Proof. exact run_eq_correct. Qed.
Print Assumptions C13_run_eq.

Theorem C13_run_reducer : forall o m a b, 1 <= m -> 0 <= a -> 0 <= b ->
  exists raw, run_rd true o m a b = Ok (rd_spec o m a b, true, raw).
Proof. exact run_rd_correct. Qed.
Print Assumptions C13_run_reducer.

Theorem C13_run_reducer_check : forall m t, 1 <= m -> 0 <= t -> run_rd_check true m t = rd_check_spec m t.
Proof. exact run_rd_check_correct. Qed.
Print Assumptions C13_run_reducer_check.

Theorem C13_run_reducer_inv : forall m a, 1 <= m -> 0 <= a ->
  exists o, run_rd_inv m a = Ok o /\
    match o, inv_spec m a with
    | Some (res, chk, _), Some iv => res = iv /\ chk = true
    | None, None => True
    | _, _ => False
    end.
Proof. exact run_rd_inv_correct. Qed.
Print Assumptions C13_run_reducer_inv.

(** ---------------- the repaired defects stay refuted on the pre-repair models ---------------- *)
Theorem C13_F01_unit_of_modulus_one_refuted : run_pow_prefix 1 5 0 = Panic Undocumented /\ run_pow 1 5 0 = Ok 0.
Proof. exact F01_refuted. Qed.
Print Assumptions C13_F01_unit_of_modulus_one_refuted.

Theorem C13_F02_rem_dword_unshifted_refuted : forall w f2 r x,
  ring_wf w r -> r_kind r = KSingle -> r_shift r = 0 -> 0 <= x -> nd r <= x / 2 ^ w ->
  s_rem_dword_prefix w f2 r x = Panic Undocumented.
Proof. exact s_rem_dword_prefix_refuted. Qed.

Theorem C13_F02_witness :
  match i_new 0 (2 ^ 63) with
  | Ok r => s_rem_dword_prefix W64 ex_2by1 r (2 ^ 128 - 2 ^ 64 + 1) = Panic Undocumented /\
            s_rem_dword W64 ex_2by1 r (2 ^ 128 - 2 ^ 64 + 1) = Ok 1
  | _ => False
  end.
Proof. exact F02_refuted. Qed.
Print Assumptions C13_F02_witness.

Theorem C13_F03_witness :
  let m := 2 ^ 128 + 1 in
  run_rd false RAdd m 1 (2 ^ 128) = Ok (m, true, m * 2 ^ 63) /\
  run_rd true RAdd m 1 (2 ^ 128) = Ok (0, true, 0) /\
  run_rd_check false m (m * 2 ^ 63) = Ok true /\ rd_check_spec m (m * 2 ^ 63) = Ok false.
Proof. exact F03_refuted. Qed.
Print Assumptions C13_F03_witness.
Print Assumptions C13_F02_rem_dword_unshifted_refuted.

Theorem C13_F03_reducer_check_refuted : forall w, 2 <= w -> forall r, ring_wf w r -> r_kind r = KLarge ->
  rd_check_prefix w r (nd r) = true /\ rd_check w r (nd r) = false /\
  forall x y, x + y = nd r -> rd_add_with w false r x y = Ok (nd r).
Proof. exact rd_check_prefix_refuted. Qed.
Print Assumptions C13_F03_reducer_check_refuted.

(** ---------------- word-level layout of the multi-word ring (every word size >= 2) ---------------- *)
(** ReducedLarge::is_valid (as repaired) holds exactly for the reduced forms: len = modulus len, raw = residue << shift *)
Theorem C13_words_is_valid_iff : forall w, 2 <= w -> forall R r raw, lring_ok w R r -> ring_wf w r -> Words.wf w raw ->
  (wl_is_valid R raw = true <->
   length raw = length (lr_nd R) /\ exists x, 0 <= x < r_m r /\ Words.value w raw = x * 2 ^ r_shift r).
Proof. exact wl_is_valid_iff. Qed.
Print Assumptions C13_words_is_valid_iff.

Theorem C13_words_is_valid_value : forall w, 2 <= w -> forall R r raw, lring_ok w R r -> ring_wf w r -> Words.wf w raw ->
  length raw = length (lr_nd R) -> wl_is_valid R raw = is_valid r (Words.value w raw).
Proof. exact wl_is_valid_value. Qed.
Print Assumptions C13_words_is_valid_value.

(** F03 at word level: the pre-repair test (is_le) accepted the normalised divisor itself *)
Theorem C13_words_F03_is_valid_prefix_refuted : forall w, 2 <= w -> forall R r, lring_ok w R r -> ring_wf w r ->
  wl_is_valid_prefix R (lr_nd R) = true /\ wl_is_valid R (lr_nd R) = false.
Proof. exact wl_is_valid_prefix_refuted. Qed.
Print Assumptions C13_words_F03_is_valid_prefix_refuted.

(** the carry / borrow kernels on word lists return, for ALL well-formed operands of the ring's length (valid or not),
    exactly the result of the value-level model - words in range, length kept, debug assertions included *)
Theorem C13_words_add_refines : forall w, 2 <= w -> forall R r lhs rhs, lring_ok w R r -> ring_wf w r ->
  Words.wf w lhs -> Words.wf w rhs -> length lhs = length (lr_nd R) -> length rhs = length (lr_nd R) ->
  refines w (length (lr_nd R)) (wl_add_in_place w R lhs rhs) (raw_of (add_asis w (abs w r lhs) (abs w r rhs))).
Proof. exact wl_add_refines. Qed.
Print Assumptions C13_words_add_refines.

Theorem C13_words_sub_refines : forall w, 2 <= w -> forall R r lhs rhs, lring_ok w R r -> ring_wf w r ->
  Words.wf w lhs -> Words.wf w rhs -> length lhs = length (lr_nd R) -> length rhs = length (lr_nd R) ->
  refines w (length (lr_nd R)) (wl_sub_in_place w R lhs rhs) (raw_of (sub_asis w (abs w r lhs) (abs w r rhs))).
Proof. exact wl_sub_refines. Qed.
Print Assumptions C13_words_sub_refines.

Theorem C13_words_dbl_neg_refine : forall w, 2 <= w -> forall R r raw, lring_ok w R r -> ring_wf w r ->
  Words.wf w raw -> length raw = length (lr_nd R) ->
  refines w (length (lr_nd R)) (wl_dbl w R raw) (raw_of (dbl_asis w (abs w r raw))) /\
  refines w (length (lr_nd R)) (wl_neg w R raw) (raw_of (neg_asis (abs w r raw))).
Proof. intros w Hw R r raw H1 H2 H3 H4. split; [exact (wl_dbl_refines w Hw R r raw H1 H2 H3 H4) | exact (wl_neg_refines w Hw R r raw H1 H2 H3 H4)]. Qed.
Print Assumptions C13_words_dbl_neg_refine.

(** property level on word lists: reduced forms in, reduced forms of the integer results out *)
Theorem C13_words_ring_ops : forall w, 2 <= w -> forall R r x y a b, lring_ok w R r -> ring_wf w r ->
  wrep w R r x a -> wrep w R r y b ->
  (exists c, wl_add_in_place w R a b = Ok c /\ wrep w R r (x + y) c) /\
  (exists c, wl_sub_in_place w R a b = Ok c /\ wrep w R r (x - y) c) /\
  (exists c, wl_dbl w R a = Ok c /\ wrep w R r (2 * x) c) /\
  (exists c, wl_neg w R a = Ok c /\ wrep w R r (- x) c) /\
  (exists c, wl_residue w R a = Ok c /\ Words.wf w c /\ Words.value w c = x mod r_m r) /\
  words_eqb a b = (x mod r_m r =? y mod r_m r).
Proof. exact wl_ring_ops. Qed.
Print Assumptions C13_words_ring_ops.

Theorem C13_words_one : forall w, 2 <= w -> forall R r f2, lring_ok w R r -> ring_wf w r ->
  Words.wf w (wl_one R) /\ length (wl_one R) = length (lr_nd R) /\ raw_one w f2 r = Ok (Words.value w (wl_one R)).
Proof. exact wl_one_ok. Qed.
Print Assumptions C13_words_one.

(** ---------------- multiplication, squaring and exponentiation on word lists ---------------- *)
(** mul_normalized / sqr_normalized (trim, multiply, shift, full division or one conditional subtraction) return the
    words of the value-level model for all valid operands, for any kernels meeting the contracts of
    mul::multiply, sqr::sqr and div::div_rem_in_place *)
Theorem C13_words_mul_refines : forall w, 2 <= w -> forall mulk sqrk divk,
  (forall a b, Words.wf w a -> Words.wf w b ->
     exists r, mulk a b = Ok r /\ length r = (length a + length b)%nat /\ Words.wf w r /\ Words.value w r = Words.value w a * Words.value w b) ->
  (forall a, Words.wf w a ->
     exists r, sqrk a = Ok r /\ length r = (2 * length a)%nat /\ Words.wf w r /\ Words.value w r = Words.value w a * Words.value w a) ->
  (forall lhs rhs, kernel_pre w lhs rhs -> exists res c, divk lhs rhs = Ok (res, c) /\ kernel_post w lhs rhs res c) ->
  forall R r a b, lring_ok w R r -> ring_wf w r -> Words.wf w a -> Words.wf w b ->
  wl_is_valid R a = true -> wl_is_valid R b = true ->
  (exists l, wl_mul_normalized w mulk divk R a b = Ok l /\ Words.wf w l /\ length l = length (lr_nd R) /\
             Words.value w l = l_mul_normalized w r (Words.value w a) (Words.value w b)) /\
  (exists l, wl_sqr_normalized w sqrk divk R a = Ok l /\ Words.wf w l /\ length l = length (lr_nd R) /\
             Words.value w l = l_sqr_normalized w r (Words.value w a)) /\
  (exists l, wl_mul_in_place w mulk sqrk divk R a b = Ok l /\ Words.wf w l /\ length l = length (lr_nd R) /\
             Words.value w l = l_mul w r (Words.value w a) (Words.value w b)).
Proof.
  intros w Hw mulk sqrk divk Hm Hs Hd R r a b HR Hwf Ha Hb Va Vb. split; [|split].
  - exact (wl_mul_normalized_ok w Hw mulk divk Hm Hd R r a b HR Hwf Ha Hb Va Vb).
  - exact (wl_sqr_normalized_ok w Hw sqrk divk Hs Hd R r a HR Hwf Ha Va).
  - exact (wl_mul_in_place_ok w Hw mulk sqrk divk Hm Hs Hd R r a b HR Hwf Ha Hb Va Vb).
Qed.
Print Assumptions C13_words_mul_refines.

(** with the REAL kernels: C01's as-is models of mul::multiply / sqr::sqr (thresholds of the source, proved in Ring*.v)
    and C02's as-is model of div::div_rem_in_place (proved in Div*.v); remaining premises = the two contracts C02's
    division theorems themselves assume (num-modular div_rem_3by2; add_signed_mul with a negative sign) *)
Theorem C13_words_mul_real : forall w, 8 <= w -> forall f3 fms, contract_3by2 w f3 -> contract_mul_sub w fms ->
  forall R r x y a b, lring_ok w R r -> ring_wf w r -> wrep w R r x a -> wrep w R r y b ->
  (exists c, wl_mul_in_place w (k_mul w) (k_sqr w) (k_div w f3 fms) R a b = Ok c /\ wrep w R r (x * y) c) /\
  (exists c, wl_mul_normalized w (k_mul w) (k_div w f3 fms) R a b = Ok c /\ wrep w R r (x * y) c) /\
  (exists c, wl_sqr w (k_sqr w) (k_div w f3 fms) R a = Ok c /\ wrep w R r (x * x) c).
Proof. exact real_mul_ops. Qed.
Print Assumptions C13_words_mul_real.

(** large::pow (sliding window, table of odd powers) on word lists with the real kernels: every exponent *)
Theorem C13_words_pow_real : forall w, 8 <= w -> forall f3 fms, contract_3by2 w f3 -> contract_mul_sub w fms ->
  forall R r x a e, lring_ok w R r -> ring_wf w r -> wrep w R r x a -> 0 <= e ->
  exists c, wl_pow w (k_mul w) (k_sqr w) (k_div w f3 fms) R a e = Ok c /\ wrep w R r (x ^ e) c.
Proof. exact real_pow. Qed.
Print Assumptions C13_words_pow_real.

(** ... with num-modular's div_rem_3by2 as transcribed (C02: DivNumModular.v, proved in DivNumModularProofs.v): the
    only premise left is add_signed_mul(c, Negative, a, b) on an accumulator longer than the product *)
Theorem C13_words_mul_pow_real_nm : forall w fms, 8 <= w -> contract_mul_sub w fms ->
  forall R r x y a b e, lring_ok w R r -> ring_wf w r -> wrep w R r x a -> wrep w R r y b -> 0 <= e ->
  (exists c, wl_mul_in_place w (k_mul w) (k_sqr w) (k_div w (nm3by2 w) fms) R a b = Ok c /\ wrep w R r (x * y) c) /\
  (exists c, wl_sqr w (k_sqr w) (k_div w (nm3by2 w) fms) R a = Ok c /\ wrep w R r (x * x) c) /\
  (exists c, wl_pow w (k_mul w) (k_sqr w) (k_div w (nm3by2 w) fms) R a e = Ok c /\ wrep w R r (x ^ e) c).
Proof.
  intros w fms Hw Hms R r x y a b e HR Hwf Ha Hb He.
  destruct (real_mul_ops_nm w fms Hw Hms R r x y a b HR Hwf Ha Hb) as (H1 & _ & H3).
  split; [exact H1|]. split; [exact H3|]. exact (real_pow_nm w fms Hw Hms R r x a e HR Hwf Ha He).
Qed.
Print Assumptions C13_words_mul_pow_real_nm.

(** ---------------- the contracts of num-modular removed ---------------- *)
(** invm (extended Euclid through subm / mulm / negm, src/prim.rs) as transcribed = the specification's inverse *)
Theorem C13_nm_invm : forall x m, 0 < m -> 0 <= x -> nm_invm_asis x m = Ok (inv_spec m x).
Proof. exact nm_invm_asis_correct. Qed.
Print Assumptions C13_nm_invm.

(** [externals_ok] holds for the transcribed div_rem_2by1 / div_rem_3by2 (C02's proofs) and invm, given only the
    contract of dashu's multi-word gcd_ext *)
Theorem C13_nm_externals : forall w fgcd, 2 <= w -> gcd_ext_ok fgcd -> externals_ok w (nm2by1 w) (nm3by2 w) nm_finv fgcd.
Proof. exact externals_nm. Qed.
Print Assumptions C13_nm_externals.

(** no hypothesis on any external function: construction, reduce, + - * neg dbl sqr ==, pow - all rings, all inputs *)
Theorem C13_nm_reduce : forall w, 2 <= w -> forall id m x, 1 <= m ->
  exists r e, new_ring w id m = Ok r /\ ring_wf w r /\ r_m r = m /\ r_id r = id /\
    reduce_asis w (nm2by1 w) (nm3by2 w) r x = Ok e /\ rep r x e /\
    residue_asis e = Ok (x mod m) /\ modulus_asis e = m /\ 0 <= x mod m < m.
Proof. exact nm_reduce. Qed.
Print Assumptions C13_nm_reduce.

Theorem C13_nm_ring_ops : forall w, 2 <= w -> forall r x y a b, ring_wf w r -> rep r x a -> rep r y b ->
  (exists c, add_asis w a b = Ok c /\ rep r (x + y) c) /\
  (exists c, sub_asis w a b = Ok c /\ rep r (x - y) c) /\
  (exists c, mul_asis w (nm2by1 w) (nm3by2 w) a b = Ok c /\ rep r (x * y) c) /\
  (exists c, neg_asis a = Ok c /\ rep r (- x) c) /\
  (exists c, dbl_asis w a = Ok c /\ rep r (2 * x) c) /\
  (exists c, sqr_asis w (nm2by1 w) (nm3by2 w) a = Ok c /\ rep r (x * x) c) /\
  eq_asis a b = Ok (x mod r_m r =? y mod r_m r).
Proof. exact nm_ring_ops. Qed.
Print Assumptions C13_nm_ring_ops.

Theorem C13_nm_pow : forall w, 2 <= w -> forall r x a e, ring_wf w r -> rep r x a -> 0 <= e ->
  exists c, pow_asis w (nm2by1 w) (nm3by2 w) a e = Ok c /\ rep r (x ^ e) c.
Proof. exact nm_pow. Qed.
Print Assumptions C13_nm_pow.

(** inverse in the single / double word rings: unconditional (invm proved, gcd_ext not called) *)
Theorem C13_nm_inv_small : forall w, 2 <= w -> forall fgcd r x a, r_kind r <> KLarge -> ring_wf w r -> rep r x a ->
  exists o, inv_asis w nm_finv fgcd a = Ok o /\
     match o with
     | Some c => exists v, rep r v c /\ is_inverse (r_m r) x (v mod r_m r) /\ Z.gcd x (r_m r) = 1
     | None => Z.gcd x (r_m r) <> 1
     end.
Proof. exact nm_inv_small_ok. Qed.
Print Assumptions C13_nm_inv_small.

(** inverse, division and whole expressions in every ring: the only premise is the contract of gcd_ext *)
Theorem C13_nm_inv_div : forall w, 2 <= w -> forall fgcd r x y a b, gcd_ext_ok fgcd -> ring_wf w r -> rep r x a -> rep r y b ->
  ((exists c, inv_asis w nm_finv fgcd a = Ok (Some c)) <-> Z.gcd x (r_m r) = 1) /\
  match div_spec (r_m r) x y with
  | Ok q => exists c, div_asis w (nm2by1 w) (nm3by2 w) nm_finv fgcd a b = Ok c /\ rep r q c
  | Panic p => div_asis w (nm2by1 w) (nm3by2 w) nm_finv fgcd a b = Panic p
  | _ => False
  end.
Proof.
  intros w Hw fgcd r x y a b Hg Hwf Ha Hb. split.
  - exact (proj2 (nm_inv w Hw fgcd r x a Hg Hwf Ha)).
  - exact (nm_div w Hw fgcd r x y a b Hg Hwf Ha Hb).
Qed.
Print Assumptions C13_nm_inv_div.

Theorem C13_nm_expr : forall w, 2 <= w -> forall fgcd r e, gcd_ext_ok fgcd -> ring_wf w r -> exps_ok e ->
  match eval_spec (r_m r) e with
  | Ok q => exists c, eval_asis w (nm2by1 w) (nm3by2 w) nm_finv fgcd r e = Ok c /\ rep r q c
  | Panic p => eval_asis w (nm2by1 w) (nm3by2 w) nm_finv fgcd r e = Panic p
  | _ => False
  end.
Proof. exact nm_expr. Qed.
Print Assumptions C13_nm_expr.

(** ==================== round 3 ==================== *)
(** ---------------- the multi-word ring on word lists with EVERY kernel transcribed: no contract left ---------------- *)
(** mul_in_place / mul_normalized / sqr / sliding-window pow with C01's multiply / sqr, C02's div_rem_in_place,
    num-modular's div_rem_3by2 as transcribed and C01's add_signed_mul as the subtract-multiply kernel: every w >= 8 *)
Theorem C13_words_mul_pow_src : forall w, 8 <= w -> forall R r x y a b e,
  lring_ok w R r -> ring_wf w r -> wrep w R r x a -> wrep w R r y b -> 0 <= e ->
  (exists c, wl_mul_in_place w (k_mul w) (k_sqr w) (src_div w) R a b = Ok c /\ wrep w R r (x * y) c) /\
  (exists c, wl_mul_normalized w (k_mul w) (src_div w) R a b = Ok c /\ wrep w R r (x * y) c) /\
  (exists c, wl_sqr w (k_sqr w) (src_div w) R a = Ok c /\ wrep w R r (x * x) c) /\
  (exists c, wl_pow w (k_mul w) (k_sqr w) (src_div w) R a e = Ok c /\ wrep w R r (x ^ e) c).
Proof. exact src_mul_pow. Qed.
Print Assumptions C13_words_mul_pow_src.

(** ConstLargeDivisor::new (div::normalize) builds the word-level form of the ring new_ring describes *)
Theorem C13_words_new : forall w, 2 <= w -> forall id m, Words.B w * Words.B w <= m ->
  exists R r, wl_new w m = Ok R /\ new_ring w id m = Ok r /\ lring_ok w R r /\ ring_wf w r /\ r_m r = m /\ r_id r = id /\
              r_kind r = KLarge.
Proof. exact wl_new_ok. Qed.
Print Assumptions C13_words_new.

(** ConstLargeDivisor::rem_large: shift, optional carry word, full division only for long buffers - for any division
    kernel meeting the contract of div::div_rem_in_place *)
Theorem C13_words_rem_large : forall w, 2 <= w -> forall divk,
  (forall lhs rhs, kernel_pre w lhs rhs -> exists res c, divk lhs rhs = Ok (res, c) /\ kernel_post w lhs rhs res c) ->
  forall R r words, lring_ok w R r -> ring_wf w r -> Words.wf w words ->
  exists buf, wl_rem_large w divk R words = Ok buf /\ Words.wf w buf /\ (length buf <= length (lr_nd R))%nat /\
              Words.value w buf = (Words.value w words * 2 ^ r_shift r) mod nd r.
Proof. exact wl_rem_large_ok. Qed.
Print Assumptions C13_words_rem_large.

(** ConstDivisor::new + reduce of any integer (UBig, IBig and every primitive go through these two) + residue + modulus
    on word lists with the real kernels: negative numbers get the canonical representative *)
Theorem C13_words_new_reduce_src : forall w, 8 <= w -> forall id m a, Words.B w * Words.B w <= m ->
  exists R r l, wl_new w m = Ok R /\ new_ring w id m = Ok r /\ lring_ok w R r /\ ring_wf w r /\ r_m r = m /\
    wl_into_ring_ibig w (src_div w) R a = Ok l /\ wrep w R r a l /\
    (exists c, wl_residue w R l = Ok c /\ Words.wf w c /\ Words.value w c = a mod m) /\
    (exists d, wl_divisor w R = Ok d /\ Words.wf w d /\ Words.value w d = m) /\
    0 <= a mod m < m.
Proof. exact src_new_reduce. Qed.
Print Assumptions C13_words_new_reduce_src.

Theorem C13_words_from_ubig_src : forall w, 8 <= w -> forall R r x, lring_ok w R r -> ring_wf w r -> 0 <= x ->
  (exists l, wl_from_ubig w (src_div w) R x = Ok l /\ wrep w R r x l) /\
  wl_transform w (src_div w) R x = Ok ((x mod r_m r) * 2 ^ r_shift r).
Proof. exact src_from_ubig. Qed.
Print Assumptions C13_words_from_ubig_src.

(** the one- and two-word rings reduce a multi-word operand on its WORDS (fast_rem_by_normalized_word / _dword as
    proved by C02, num-modular as transcribed) exactly as the value-level model says *)
Theorem C13_small_from_ubig_words : forall w, 8 <= w -> forall r x, ring_wf w r -> 0 <= x ->
  (r_kind r = KSingle -> ws_from_ubig w (nm1by1 w) (nm2by1 w) r x = s_from_ubig w (nm2by1 w) r x) /\
  (r_kind r = KDouble -> wd_from_ubig w (nm2by2 w) (nm3by2 w) (nm4by2 w) r x = d_from_ubig w (nm3by2 w) r x).
Proof. exact src_small_from_ubig. Qed.
Print Assumptions C13_small_from_ubig_words.

(** inv_large on word lists: unshift, the 0 / 1 / 2 / n word dispatch, the `g_len == 1 && raw[0] == 1` test on the words
    of g, zero fill, shift back, is_valid, negate - Some(inverse) exactly when gcd = 1.  Premise: the contract of the
    multi-word extended gcd (gcd_ext_word / gcd_ext_dword / gcd_ext_in_place), nothing else *)
Theorem C13_words_inv : forall w, 2 <= w -> forall fgcd,
  (forall lhs rhs, 0 < rhs < lhs ->
     let '(g, b, s) := fgcd lhs rhs in
     g = Z.gcd lhs rhs /\ 0 <= b < lhs /\ (g = 1 -> (rhs * signed s b) mod lhs = 1 mod lhs)) ->
  forall R r x raw, lring_ok w R r -> ring_wf w r -> wrep w R r x raw ->
  exists o, wl_inv w fgcd R raw = Ok o /\
    match o with
    | Some c => exists v, wrep w R r v c /\ is_inverse (r_m r) x (v mod r_m r) /\ Z.gcd x (r_m r) = 1
    | None => Z.gcd x (r_m r) <> 1
    end.
Proof. exact wl_inv_ok. Qed.
Print Assumptions C13_words_inv.

(** ---------------- two of the three extended-gcd branches of inv_large without a contract ---------------- *)
(** C12's as-is model of the primitive ExtendedGcd (Word / DoubleWord): gcd, Bezout identity, cofactors of opposite
    signs bounded by the other operand over the gcd *)
Theorem C13_gcd_prim_cofactors : forall fuel a b g s t, 0 < a -> 0 < b ->
  prim_gcd_ext_asis fuel a b = Ok (g, s, t) ->
  g = Z.gcd a b /\ s * a + t * b = g /\ s * t <= 0 /\ Z.abs s * g <= b /\ Z.abs t * g <= a.
Proof. exact prim_gcd_ext_full. Qed.
Print Assumptions C13_gcd_prim_cofactors.

(** gcd_ext_word / gcd_ext_dword (divide, primitive extended Euclid on (rhs, remainder), |b| = q * |t| + |s| with the
    sign rule of the source): total, the debug assertion on the carries cannot fire, and the result meets the contract
    the modular inverse needs *)
Theorem C13_gcd_ext_small : forall cap lhs rhs, 0 < rhs < lhs -> lhs <= cap ->
  exists g b sg, gcd_ext_small_asis (small_fuel rhs) cap lhs rhs = Ok (g, b, sg) /\
    g = Z.gcd lhs rhs /\ 0 <= b < lhs /\ (g = 1 -> (rhs * signed sg b) mod lhs = 1 mod lhs).
Proof. exact gcd_ext_small_ok. Qed.
Print Assumptions C13_gcd_ext_small.

(** Reduced::inv of the multi-word ring on word lists, gcd_ext_word / gcd_ext_dword transcribed: the ONLY premise is
    the contract of gcd_ext_in_place (Lehmer) on values of three and more words *)
Theorem C13_words_inv_lehmer_only : forall w, 8 <= w -> forall lehmer,
  (forall lhs rhs, 2 ^ w * 2 ^ w <= rhs < lhs ->
     let '(g, b, s) := lehmer lhs rhs in
     g = Z.gcd lhs rhs /\ 0 <= b < lhs /\ (g = 1 -> (rhs * signed s b) mod lhs = 1 mod lhs)) ->
  forall R r x raw, lring_ok w R r -> ring_wf w r -> wrep w R r x raw ->
  exists o, wl_inv w (gcd_ext_dispatch w lehmer) R raw = Ok o /\
    match o with
    | Some c => exists v, wrep w R r v c /\ is_inverse (r_m r) x (v mod r_m r) /\ Z.gcd x (r_m r) = 1
    | None => Z.gcd x (r_m r) <> 1
    end.
Proof. exact src_inv. Qed.
Print Assumptions C13_words_inv_lehmer_only.

(** ... and the value-level theorems about inverse / division / expressions (C13_asis_inv, C13_asis_div, C13_expr_asis)
    apply with that premise alone *)
Theorem C13_externals_lehmer_only : forall w, 8 <= w -> forall lehmer,
  (forall lhs rhs, 2 ^ w * 2 ^ w <= rhs < lhs ->
     let '(g, b, s) := lehmer lhs rhs in
     g = Z.gcd lhs rhs /\ 0 <= b < lhs /\ (g = 1 -> (rhs * signed s b) mod lhs = 1 mod lhs)) ->
  externals_ok w (nm2by1 w) (nm3by2 w) nm_finv (gcd_ext_dispatch w lehmer).
Proof. exact src_externals. Qed.
Print Assumptions C13_externals_lehmer_only.

(** ---------------- the second extracted 64-bit instance (word lists + real kernels; num-modular transcribed) ---------------- *)
Theorem C13_hrun_reduce : forall m a, 1 <= m -> hrun_reduce m a = Ok (reduce_spec m a, m).
Proof. exact hrun_reduce_correct. Qed.
Print Assumptions C13_hrun_reduce.

Theorem C13_hrun_un : forall o m a, 1 <= m -> hrun_un o m a = Ok (un_spec o m a).
Proof. exact hrun_un_correct. Qed.
Print Assumptions C13_hrun_un.

Theorem C13_hrun_bin : forall o m a b, 1 <= m -> hrun_bin o m a b = bin_spec o m a b.
Proof. exact hrun_bin_correct. Qed.
Print Assumptions C13_hrun_bin.

Theorem C13_hrun_pow : forall m a e, 1 <= m -> 0 <= e -> hrun_pow m a e = Ok (powm m a e).
Proof. exact hrun_pow_correct. Qed.
Print Assumptions C13_hrun_pow.

Theorem C13_hrun_inv : forall m a, 1 <= m -> hrun_inv m a = Ok (inv_spec m a).
Proof. exact hrun_inv_correct. Qed.
Print Assumptions C13_hrun_inv.

Theorem C13_hrun_eq : forall m a b, 1 <= m -> hrun_eq m a b = Ok (reduce_spec m a =? reduce_spec m b).
Proof. exact hrun_eq_correct. Qed.
Print Assumptions C13_hrun_eq.

Theorem C13_hrun_transform : forall m a, 1 <= m -> 0 <= a ->
  hrun_transform m a = rbind (i_new 0 m) (fun r => Ok (reduce_spec m a * 2 ^ r_shift r)).
Proof. exact hrun_transform_correct. Qed.
Print Assumptions C13_hrun_transform.

(** ConstDivisor::new(0) / from_word(0) / from_dword(0): the documented panic *)
Theorem C13_new_zero : forall w id m, m <= 0 -> new_ring w id m = Panic DivideBy0.
Proof. intros w id m H. unfold new_ring. destruct (Z.leb_spec m 0); [reflexivity | lia]. Qed.
Print Assumptions C13_new_zero.

(** ---------------- fragments regenerated from the Rust sources on every run (coq/gen/ModRingGen.v) ---------------- *)
Theorem C13_gen_window_len : forall w n, 2 <= w -> 1 <= gen_choose_window_len w n < w.
Proof. exact gen_window_range. Qed.
Print Assumptions C13_gen_window_len.

(** the model of large::pow runs the regenerated window-length function, table size and first bit *)
Theorem C13_gen_pow_params : forall w (T : Type) (sqr : T -> T) (mul : T -> T -> T) winf raw exp, 2 <= w ->
  pow_nontrivial_large w T sqr mul winf raw exp =
    let bl := Z.log2 exp + 1 in
    let wl := gen_choose_window_len w bl in
    let val := sqr raw in
    window_loop T sqr mul winf (Z.to_nat bl) raw (build_table T mul (Z.to_nat (gen_table_entries wl)) raw val) wl exp (gen_first_bit bl) val.
Proof. exact gen_pow_params. Qed.
Print Assumptions C13_gen_pow_params.

(** finite domain (stated bound): exponent bit lengths 2 .. gen_window_table_max = 4096, 64-bit words *)
Theorem C13_gen_window_table : forall n, 2 <= n <= gen_window_table_max ->
  table_lookup gen_window_table n = Some (gen_choose_window_len 64 n).
Proof. exact gen_window_table_ok. Qed.
Print Assumptions C13_gen_window_table.

Theorem C13_gen_comparisons : forall c n s,
  gen_cmp_add_in_place c = is_ge c /\ gen_cmp_dbl_in_place c = is_ge c /\
  gen_cmp_mul_normalized c = is_ge c /\ gen_cmp_sqr_normalized c = is_ge c /\
  gen_cmp_is_valid_large c = is_lt c /\ gen_cmp_reducer_check c = is_lt c /\
  gen_mul_long n s = (n <? s)%nat /\ gen_sqr_long n s = (n <? s)%nat.
Proof.
  intros c n s. destruct (gen_comparisons c) as (H1 & H2 & H3 & H4 & H5 & H6). destruct (gen_long_switch n s) as (H7 & H8).
  repeat split; assumption.
Qed.
Print Assumptions C13_gen_comparisons.

Theorem C13_gen_units : forall w f2 r,
  raw_one w f2 r = match r_kind r with
                   | KSingle => if gen_one_word_reduced then s_rem_word w f2 r 1 else Ok (2 ^ r_shift r)
                   | KDouble => if gen_one_dword_reduced then Panic Undocumented else Ok (2 ^ r_shift r)
                   | KLarge => Ok (2 ^ r_shift r)
                   end.
Proof. exact gen_units. Qed.
Print Assumptions C13_gen_units.

(** IntoRing for every primitive type listed in convert.rs: the reduced form of every value of the type *)
Theorem C13_gen_into_ring_prims : forall w, 2 <= w -> forall r t via bits sg v, ring_wf w r ->
  In (t, via, bits) (gen_into_ring_prims w) -> In (t, sg) gen_into_ring_signed -> prim_range sg bits v ->
  via = sg /\
  exists e, prim_into_ring w (nm2by1 w) (nm3by2 w) via r v = Ok e /\ rep r v e /\ residue_asis e = Ok (v mod r_m r) /\ 0 <= v mod r_m r < r_m r.
Proof.
  intros w Hw r t via bits sg v Hwf H1 H2 Hr. split; [exact (gen_prims_via w t via bits sg H1 H2)|].
  pose proof (externals_nm w ex_gcd_ext Hw ex_gcd_ext_ok) as E.
  exact (gen_prims_reduce w Hw (nm2by1 w) (nm3by2 w) (ext_2by1 _ _ _ _ _ E) (ext_3by2 _ _ _ _ _ E) r t via bits sg v Hwf H1 H2 Hr).
Qed.
Print Assumptions C13_gen_into_ring_prims.

(** ==================== round 4 ==================== *)
(** ---------------- the Lehmer extended gcd (gcd::lehmer::gcd_ext_in_place, C12's as-is model) is TOTAL ---------------- *)
(** lehmer_guess / lehmer_guess_dword on aligned leading words 0 <= Y0 <= X0: return (no checked word operation
    overflows, no division by zero), the matrix is unimodular with entries in [0, COEFF_LIMIT], the reduced leading words
    stay >= b resp. >= c, and the matrix has the odd shape (exact Jebelean test: x' <= y' follows) or the even shape (the
    source's weaker second test: only 2Q <= X0' - b for the last quotient Q) *)
Theorem C13_lehmer_guess_total : forall w X0 Y0, 2 <= w -> 0 <= Y0 <= X0 ->
  (X0 < 2 ^ w -> exists a b c d, lehmer_guess w X0 Y0 = Ok (a, b, c, d) /\ guess_post (coeff_limit w) X0 Y0 a b c d) /\
  (X0 < 2 ^ (2 * w) -> exists a b c d, lehmer_guess_dword w X0 Y0 = Ok (a, b, c, d) /\ guess_post (coeff_limit w) X0 Y0 a b c d).
Proof.
  intros w X0 Y0 Hw H. split; intros HB; [exact (lehmer_guess_ok w X0 Y0 Hw H HB) | exact (lehmer_guess_dword_ok w X0 Y0 Hw H HB)].
Qed.
Print Assumptions C13_lehmer_guess_total.

(** the main loop of gcd_ext_in_place: with fuel logarithmic in x * y it returns, keeping  t1 * x + t0 * y = lhs,
    t0 < lhs and the order of the cofactors that bounds the final `t0 += q * t1` *)
Theorem C13_lehmer_ext_loop_total : forall w, 2 <= w -> forall mdl lhs, 3 <= mdl -> forall fuel x y t0 t1 sw,
  oinv lhs x y t0 t1 -> x * y < 2 ^ Z.of_nat fuel ->
  exists x' y' t0' t1' sw', lehmer_ext_loop (S fuel) mdl w (wlen w lhs + 1) x y t0 t1 sw = Ok (x', y', t0', t1', sw') /\
    oinv lhs x' y' t0' t1' /\ wlen w y' <=? 1 = true.
Proof. exact ext_loop_ok. Qed.
Print Assumptions C13_lehmer_ext_loop_total.

(** gcd_ext_in_place (any MIN_DWORD_GUESS_LEN >= 3, any word size): returns for every 0 < rhs < lhs - no debug assertion,
    slice bound or checked operation of the model fires - with g = gcd, 0 <= |b| < lhs, lhs | g - b * rhs *)
Theorem C13_gcd_ext_in_place_total : forall w, 2 <= w -> forall mdl lf pf lhs rhs, 3 <= mdl -> 0 < rhs < lhs ->
  lhs * rhs < 2 ^ Z.of_nat lf -> 2 * w <= Z.of_nat pf ->
  exists g bm bs, gcd_ext_in_place_gen true (S lf) pf mdl w lhs rhs = Ok (g, bm, bs) /\
    g = Z.gcd lhs rhs /\ 0 <= bm < lhs /\ (lhs | g - signed bs bm * rhs).
Proof. exact gcd_ext_in_place_total. Qed.
Print Assumptions C13_gcd_ext_in_place_total.

(** the single-word ending re-slices t0 to x.len() + t1_len words before `t0 += q * t1`: no word of t0 is cut off, the
    sum fits, the slice fits the lhs_len + 1 word buffer (also when the cofactors are in the order t0 > t1) *)
Theorem C13_lehmer_ending_fits : forall w, 2 <= w -> forall lhs x y t0 t1, oinv lhs x y t0 t1 -> 1 <= y ->
  0 <= t0 <= t0 + x / y * t1 /\ t0 + x / y * t1 < 2 ^ (w * (wlen w x + wlen w t1)) /\ wlen w x + wlen w t1 <= wlen w lhs + 1.
Proof. exact ending_fits. Qed.
Print Assumptions C13_lehmer_ending_fits.

(** ... with the constants of the source and the logarithmic fuels the oracle runs *)
Theorem C13_lehmer_inplace : forall w lhs rhs, 2 <= w -> 0 < rhs < lhs ->
  exists g b s, lehmer_inplace_asis w lhs rhs = Ok (g, b, s) /\
    g = Z.gcd lhs rhs /\ 0 <= b < lhs /\ (lhs | g - signed s b * rhs) /\
    (g = 1 -> (rhs * signed s b) mod lhs = 1 mod lhs).
Proof. exact lehmer_inplace_ok. Qed.
Print Assumptions C13_lehmer_inplace.

(** logarithmic fuel for the primitive extended Euclid (ExtendedGcd for Word / DoubleWord, C12's model) and for
    gcd_ext_word / gcd_ext_dword: the oracle can execute them *)
Theorem C13_prim_gcd_ext_log_fuel : forall fuel a b, 0 < a -> 0 < b -> a * b < 2 ^ Z.of_nat fuel ->
  exists res, prim_gcd_ext_asis fuel a b = Ok res.
Proof. exact prim_gcd_ext_total_log. Qed.
Print Assumptions C13_prim_gcd_ext_log_fuel.

Theorem C13_gcd_ext_small_log : forall cap lhs rhs, 0 < rhs < lhs -> lhs <= cap ->
  exists g b sg, gcd_ext_small_asis (Z.to_nat (Z.log2 (rhs * (lhs mod rhs)) + 1)) cap lhs rhs = Ok (g, b, sg) /\
    g = Z.gcd lhs rhs /\ 0 <= b < lhs /\ (g = 1 -> (rhs * signed sg b) mod lhs = 1 mod lhs).
Proof. exact gcd_ext_small_log_ok. Qed.
Print Assumptions C13_gcd_ext_small_log.

(** the dispatch of inv_large (1 word / 2 words / Lehmer) as transcribed: returns, with the contract - NO premise *)
Theorem C13_gcd_ext_src : forall w lhs rhs, 2 <= w -> 0 < rhs < lhs ->
  exists g b s, gcd_ext_src w lhs rhs = Ok (g, b, s) /\
    g = Z.gcd lhs rhs /\ 0 <= b < lhs /\ (g = 1 -> (rhs * signed s b) mod lhs = 1 mod lhs).
Proof. exact gcd_ext_src_ok. Qed.
Print Assumptions C13_gcd_ext_src.

(** Reduced::inv of the multi-word ring on word lists: NO premise (was: contract of gcd_ext_in_place) *)
Theorem C13_words_inv_src : forall w, 8 <= w -> forall R r x raw, lring_ok w R r -> ring_wf w r -> wrep w R r x raw ->
  exists o, wl_inv w (gcd_src w) R raw = Ok o /\
    match o with
    | Some c => exists v, wrep w R r v c /\ is_inverse (r_m r) x (v mod r_m r) /\ Z.gcd x (r_m r) = 1
    | None => Z.gcd x (r_m r) <> 1
    end.
Proof. exact src_inv_nocontract. Qed.
Print Assumptions C13_words_inv_src.

(** every external function of the value-level model is a proved transcription: NO premise *)
Theorem C13_externals_src : forall w, 2 <= w -> externals_ok w (nm2by1 w) (nm3by2 w) nm_finv (gcd_src w).
Proof. exact src_externals_nocontract. Qed.
Print Assumptions C13_externals_src.

(** inverse exactly for units, division = div_spec, any expression tree - every ring, every operand, NO premise *)
Theorem C13_inv_div_src : forall w, 2 <= w -> forall r x y a b, ring_wf w r -> rep r x a -> rep r y b ->
  ((exists c, inv_asis w nm_finv (gcd_src w) a = Ok (Some c)) <-> Z.gcd x (r_m r) = 1) /\
  match div_spec (r_m r) x y with
  | Ok q => exists c, div_asis w (nm2by1 w) (nm3by2 w) nm_finv (gcd_src w) a b = Ok c /\ rep r q c
  | Panic p => div_asis w (nm2by1 w) (nm3by2 w) nm_finv (gcd_src w) a b = Panic p
  | _ => False
  end.
Proof.
  intros w Hw r x y a b Hwf Ha Hb. exact (C13_nm_inv_div w Hw (gcd_src w) r x y a b (gcd_src_ok w Hw) Hwf Ha Hb).
Qed.
Print Assumptions C13_inv_div_src.

Theorem C13_expr_src : forall w, 2 <= w -> forall r e, ring_wf w r -> exps_ok e ->
  match eval_spec (r_m r) e with
  | Ok q => exists c, eval_asis w (nm2by1 w) (nm3by2 w) nm_finv (gcd_src w) r e = Ok c /\ rep r q c
  | Panic p => eval_asis w (nm2by1 w) (nm3by2 w) nm_finv (gcd_src w) r e = Panic p
  | _ => False
  end.
Proof. intros w Hw r e Hwf He. exact (C13_nm_expr w Hw (gcd_src w) r e (gcd_src_ok w Hw) Hwf He). Qed.
Print Assumptions C13_expr_src.

(** the third as-is run of the oracle (word lists + real kernels + the gcd code of the source) = specification *)
Theorem C13_hrun_inv_src : forall m a, 1 <= m -> hrun_inv_src m a = Ok (inv_spec m a).
Proof. exact hrun_inv_src_correct. Qed.
Print Assumptions C13_hrun_inv_src.

Theorem C13_hrun_div_src : forall m a b, 1 <= m -> hrun_div_src m a b = div_spec m a b.
Proof. exact hrun_div_src_correct. Qed.
Print Assumptions C13_hrun_div_src.

Theorem C13_hrun_gcd_probe : forall m a, 1 <= m -> a mod m <> 0 ->
  exists br g b s, hrun_gcd_probe m a = Ok (br, g, b, s) /\ g = Z.gcd m (a mod m) /\ 0 <= b < m /\ 1 <= br <= 3.
Proof. exact hrun_gcd_probe_ok. Qed.
Print Assumptions C13_hrun_gcd_probe.

(** ---------------- Reducer::reduce_once / reduce_negate of the multi-word ring on word lists ---------------- *)
(** sub_large (length test, add::sub_in_place), sub_large_dword (add::sub_dword_in_place, debug_assert!(!overflow)),
    sub_large_ref_val (sub_same_len_in_place_swap on the low words, the high words pushed, `borrow && sub_one_in_place`)
    with C01's as-is carry / borrow kernels = the value-level model; NegativeUBig exactly when the difference is negative *)
Theorem C13_words_reducer_once : forall w, 2 <= w -> forall strict R r t, lring_ok w R r -> ring_wf w r -> 0 <= t ->
  wl_rd_reduce_once w strict R r t = rd_reduce_once_with w strict r t.
Proof. exact wl_rd_reduce_once_ok. Qed.
Print Assumptions C13_words_reducer_once.

Theorem C13_words_reducer_negate : forall w, 2 <= w -> forall R r t, lring_ok w R r -> ring_wf w r -> 0 <= t ->
  wl_rd_reduce_negate w R t = rd_reduce_negate r t.
Proof. exact wl_rd_reduce_negate_ok. Qed.
Print Assumptions C13_words_reducer_negate.

(** the run of the oracle (Reducer::add / dbl / sub / neg, raw form) with those helpers on word lists = the value-level run *)
Theorem C13_hrun_rd_lin : forall o m a b, 1 <= m -> 0 <= a -> 0 <= b -> (o = RAdd \/ o = RDbl \/ o = RSub \/ o = RNeg) ->
  hrun_rd_lin o m a b = rbind (run_rd true o m a b) (fun t => Ok (snd t)).
Proof. exact hrun_rd_lin_correct. Qed.
Print Assumptions C13_hrun_rd_lin.

(** ---------------- Clone for Reduced ---------------- *)
(** x = r1.reduce(a); y = r2.reduce(b) in another ConstDivisor instance (any modulus, any representation / word count /
    shift); y.clone_from(&x) (or y = x.clone()): y.modulus() = m1, y.residue() = a mod m1, y == x holds (no DifferentRings
    panic) and y + r1.reduce(c) is (a + c) mod m1 *)
Theorem C13_clone_from : forall m1 m2 a b c, 1 <= m1 -> 1 <= m2 ->
  run_clone_from m1 m2 a b c = Ok (m1, reduce_spec m1 a, true, reduce_spec m1 (a + c)).
Proof. exact run_clone_from_correct. Qed.
Print Assumptions C13_clone_from.

(** ---------------- round 5: the runs of the oracle at EVERY word size w >= 8 ---------------- *)
(** the correspondence run evaluates the three as-is instances at the word size of the build: 64, and 32 against the
    force_bits="32" build (Word = u32: rings of one / two / three and more 32-bit words, normalisation shifts 0..31);
    `g<name> w` is the instance with the word size as a parameter *)
Theorem C13_wrun_value : forall w, 8 <= w -> forall m a b e id, 1 <= m -> 0 <= e ->
  grun_reduce w m a = Ok (reduce_spec m a, m) /\
  (forall o, grun_bin w o id id m m a b = bin_spec o m a b) /\
  (forall o, grun_un w o m a = Ok (un_spec o m a)) /\
  grun_pow w m a e = Ok ((a ^ e) mod m) /\
  grun_inv w m a = Ok (inv_spec m a) /\
  grun_eq w id id m m a b = Ok (reduce_spec m a =? reduce_spec m b).
Proof. exact wrun_value_spec. Qed.
Print Assumptions C13_wrun_value.

Theorem C13_wrun_mixed : forall w, 8 <= w -> forall o id1 id2 m1 m2 a b, 1 <= m1 -> 1 <= m2 -> id1 <> id2 ->
  grun_bin w o id1 id2 m1 m2 a b =
  match o with
  | ODiv => if inv_spec m2 b then Panic DifferentRings else Panic NonInvertible
  | _ => Panic DifferentRings
  end.
Proof. exact grun_bin_mixed. Qed.
Print Assumptions C13_wrun_mixed.

Theorem C13_wrun_reducer : forall w, 8 <= w -> forall o m a b, 1 <= m -> 0 <= a -> 0 <= b ->
  (exists raw, grun_rd w true o m a b = Ok (rd_spec o m a b, true, raw)) /\
  grun_rd_check w true m a = grd_check_spec w m a /\
  grun_rd_modulus w m = Ok m /\
  (exists r, grun_rd_inv w m a = Ok r /\
    match r, inv_spec m a with
    | Some (res, chk, _), Some iv => res = iv /\ chk = true
    | None, None => True
    | _, _ => False
    end).
Proof. exact wrun_reducer_spec. Qed.
Print Assumptions C13_wrun_reducer.

Theorem C13_wrun_clone_from : forall w, 8 <= w -> forall m1 m2 a b c, 1 <= m1 -> 1 <= m2 ->
  grun_clone_from w m1 m2 a b c = Ok (m1, reduce_spec m1 a, true, reduce_spec m1 (a + c)).
Proof. exact grun_clone_from_correct. Qed.
Print Assumptions C13_wrun_clone_from.

(** word lists + the real kernels (C01 multiply / sqr, C02 div_rem_in_place, num-modular transcribed) at word size w *)
Theorem C13_whrun_ring : forall w, 8 <= w -> forall m a b e, 1 <= m -> 0 <= e ->
  ghrun_reduce w m a = Ok (reduce_spec m a, m) /\
  (forall o, ghrun_bin w o m a b = bin_spec o m a b) /\
  (forall o, ghrun_un w o m a = Ok (un_spec o m a)) /\
  ghrun_pow w m a e = Ok (powm m a e) /\
  ghrun_inv w m a = Ok (inv_spec m a) /\
  ghrun_eq w m a b = Ok (reduce_spec m a =? reduce_spec m b) /\
  (0 <= a -> ghrun_transform w m a = rbind (new_ring w 0 m) (fun r => Ok (reduce_spec m a * 2 ^ r_shift r))).
Proof. exact whrun_ring_spec. Qed.
Print Assumptions C13_whrun_ring.

(** inverse / division with the extended gcd of the source (gcd_ext_word / gcd_ext_dword / Lehmer) at word size w *)
Theorem C13_whrun_gcd_src : forall w, 8 <= w -> forall m a b, 1 <= m ->
  ghrun_inv_src w m a = Ok (inv_spec m a) /\
  ghrun_div_src w m a b = div_spec m a b /\
  (a mod m <> 0 -> exists br g c s, ghrun_gcd_probe w m a = Ok (br, g, c, s) /\ g = Z.gcd m (a mod m) /\ 0 <= c < m /\ 1 <= br <= 3).
Proof. exact whrun_gcd_src_spec. Qed.
Print Assumptions C13_whrun_gcd_src.

Theorem C13_whrun_rd_lin : forall w, 8 <= w -> forall o m a b, 1 <= m -> 0 <= a -> 0 <= b -> (o = RAdd \/ o = RDbl \/ o = RSub \/ o = RNeg) ->
  ghrun_rd_lin w o m a b = rbind (grun_rd w true o m a b) (fun t => Ok (snd t)).
Proof. exact ghrun_rd_lin_correct. Qed.
Print Assumptions C13_whrun_rd_lin.

(** at w = 64 the parametrised runs are the 64-bit instances of rounds 1-4 *)
Theorem C13_wruns_at_64 :
  grun_reduce 64 = run_reduce /\ grun_bin 64 = run_bin /\ grun_un 64 = run_un /\ grun_pow 64 = run_pow /\ grun_inv 64 = run_inv /\
  grun_eq 64 = run_eq /\ grun_rd 64 = run_rd /\ grun_rd_inv 64 = run_rd_inv /\ grun_rd_check 64 = run_rd_check /\
  grd_check_spec 64 = rd_check_spec /\ grun_rd_modulus 64 = run_rd_modulus /\ grun_clone_from 64 = run_clone_from /\
  ghrun_reduce 64 = hrun_reduce /\ ghrun_bin 64 = hrun_bin /\ ghrun_un 64 = hrun_un /\ ghrun_pow 64 = hrun_pow /\
  ghrun_inv 64 = hrun_inv /\ ghrun_eq 64 = hrun_eq /\ ghrun_transform 64 = hrun_transform /\
  ghrun_inv_src 64 = hrun_inv_src /\ ghrun_div_src 64 = hrun_div_src /\ ghrun_gcd_probe 64 = hrun_gcd_probe /\
  ghrun_rd_lin 64 = hrun_rd_lin.
Proof. exact gruns_at_64. Qed.
Print Assumptions C13_wruns_at_64.

(** ---------------- round 5: bodies regenerated from modular/{add,repr}.rs = the hand models ---------------- *)
(** coq/gen/ModRingBodiesGen.v is rewritten from the Rust source on every run (tools/translate_c13_r5.py over the parser of
    tools/translate_c01_r4.py): negate / add / dbl / sub / sub_swap in place with their debug assertions, the zero guard of
    negate_in_place, the conditional correction steps, ReducedLarge::is_valid - every word size, ring, operand *)
Theorem C13_gen_bodies : forall w R a b,
  is_valid_gen w (lr_nd R) (lr_shift R) a = wl_is_valid R a /\
  negate_in_place_gen w (lr_nd R) (lr_shift R) a = wl_negate_in_place w R a /\
  add_in_place_gen w (lr_nd R) (lr_shift R) a b = wl_add_in_place w R a b /\
  dbl_in_place_gen w (lr_nd R) (lr_shift R) a = wl_dbl_in_place w R a /\
  sub_in_place_gen w (lr_nd R) (lr_shift R) a b = wl_sub_in_place w R a b /\
  sub_in_place_swap_gen w (lr_nd R) (lr_shift R) a b = wl_sub_in_place w R a b.
Proof. exact gen_bodies_eq. Qed.
Print Assumptions C13_gen_bodies.

(** Clone for ReducedRepr: `clone` rebuilds every arm from its own fields; `clone_from` sets BOTH the ring (`*ring = src_ring`)
    and the content in the (Large, Large) arm and is `*self = source.clone()` otherwise: the destination becomes the source *)
Theorem C13_gen_clone : forall dst src, clone_gen src = clone_asis src /\ clone_from_gen dst src = clone_from_asis dst src.
Proof. intros dst src. split; [exact (clone_gen_eq src) | exact (clone_from_gen_eq dst src)]. Qed.
Print Assumptions C13_gen_clone.

(** reducer.rs regenerated: reduce_once / reduce_negate (every ring arm, the Small / Large target arms) and Reducer::add / dbl /
    sub / neg built from them = the value-level model of rounds 1-4 (C13_asis_reducer is about that model) *)
Theorem C13_gen_reducer : forall w r x y,
  reduce_once_gen w r x = rd_reduce_once_with w true r x /\ reduce_negate_gen w r x = rd_reduce_negate r x /\
  rd_add_gen w r x y = rd_add_with w true r x y /\ rd_dbl_gen w r x = rd_dbl_with w true r x /\
  rd_sub_gen w r x y = rd_sub r x y /\ rd_neg_gen w r x = rd_neg r x.
Proof. exact gen_reducer_eq. Qed.
Print Assumptions C13_gen_reducer.

(** div.rs regenerated: inv_large after the extended gcd (`if !is_g_one { return None; }`, shift back, validity assertion, the
    sign line `if b_sign == Sign::Negative { negate_in_place }`, Some(inv)) = that part of the hand model wl_inv_large, which is
    its gcd prefix followed by this tail *)
Theorem C13_gen_inv_tail : forall w fgcd R raw g s bw,
  inv_large_tail_gen w (lr_nd R) (lr_shift R) g s bw = wl_inv_tail w R g s bw /\
  wl_inv_large w fgcd R raw =
  (let n := length (lr_nd R) in
   let '(modulus, c1) := shr_in_place w (lr_nd R) (lr_shift R) in
   if negb (c1 =? 0) then Panic Undocumented else
   let '(raw1, c2) := shr_in_place w raw (lr_shift R) in
   if negb (c2 =? 0) then Panic Undocumented else
   let raw_len := top_plus_one raw1 in
   if Nat.eqb raw_len 0 then Ok None else
   let '(g, b, b_sign) := fgcd (Words.value w modulus) (Words.value w (firstn raw_len raw1)) in
   let is_g_one :=
     if (raw_len <=? 2)%nat then g =? 1
     else let gw := to_words w raw_len g in Nat.eqb (top_plus_one gw) 1 && (hd 0 gw =? 1) in
   wl_inv_tail w R is_g_one b_sign (to_words w n b)).
Proof. intros w fgcd R raw g s bw. split; [exact (inv_large_tail_gen_eq w R g s bw) | exact (wl_inv_large_is_prefix_tail w fgcd R raw)]. Qed.
Print Assumptions C13_gen_inv_tail.

(** pow.rs regenerated: the window read of large::pow_nontrivial (word index / bit index, the two exponent words, the shift by
    bit_idx + 1 + WORD_BITS - window_len, the mask) = window_at of the sliding-window model, every word size *)
Theorem C13_gen_pow_window : forall w exp bit wl, 0 <= wl -> pow_window_gen w exp bit wl = window_at w exp bit wl.
Proof. exact pow_window_gen_eq. Qed.
Print Assumptions C13_gen_pow_window.
