(** C07 - integer text and byte encodings round-trip and match the reference digits.
    ONLY statements pinned here; proofs live in Dashu.Int.Io*. *)
From Dashu Require Import Base.Prelude Base.Words Int.IoSpec Int.IoModel Int.IoDigits Int.IoPrint Int.IoParse
  Int.IoRadix Int.IoLayout Int.IoBytes Int.IoRound Int.IoPow2 Int.IoTop Int.IoChunks Int.IoBytesAsIs Int.IoWords Int.IoTablesProof Int.IoSwar Int.IoPowers Int.IoBytesBEModel Int.IoBytesBE Int.IoDword
  Int.IoDebugModel Int.IoDebug Int.IoFmt3Model Int.IoFmt3 Int.IoBigModel Int.IoBig Int.IoWriter Int.IoChunksW Int.GrlSpec.
From DashuGen Require Import Params IoTables IoTables3.
Open Scope Z_scope.

(** the specification digits are a positional representation of the value ... *)
Theorem C07_digits_value : forall r, 2 <= r -> forall n, 0 <= n -> digits_value r (digits_spec r n) = n.
Proof. exact digits_spec_value. Qed.
Print Assumptions C07_digits_value.

(** ... with digits in range and no leading zero (the single digit 0 for zero) ... *)
Theorem C07_digits_canonical : forall r, 2 <= r -> forall n, 0 <= n -> canonical r (digits_spec r n).
Proof. exact digits_spec_canonical. Qed.
Print Assumptions C07_digits_canonical.

(** ... and the only one *)
Theorem C07_digits_unique : forall r, 2 <= r -> forall n ds, 0 <= n -> canonical r ds -> digits_value r ds = n -> ds = digits_spec r n.
Proof. exact digits_spec_unique. Qed.
Print Assumptions C07_digits_unique.

(** radix.rs: the table entry (digits per word, range per word) computed by estimate-then-multiply is
    the largest power of the radix that fits a word, for every (even) word size; the model's fuel suffices *)
Theorem C07_radix_table : forall w r, 0 < w -> w mod 2 = 0 -> 2 <= r -> r < Bw w ->
  exists dpw R, radix_info w r = (dpw, R) /\ 0 < dpw /\ R = r ^ dpw /\ R < Bw w /\ Bw w <= R * r.
Proof. exact radix_info_ok. Qed.
Print Assumptions C07_radix_table.

(** fmt/non_power_two.rs (per-word extraction, double-word split, medium groups, divide-and-conquer with
    cached squared radix powers) and fmt/power_two.rs (shift-and-mask for one/two words, the word walk with
    digits straddling two words): the digit generator prints exactly the specification digits - every
    magnitude, every radix below the word base, every even word size *)
Theorem C07_print_digits : forall w r x, 0 < w -> w mod 2 = 0 -> 2 <= r -> r < Bw w -> 0 <= x ->
  digits_asis w r x = digits_spec r x.
Proof. exact digits_asis_correct. Qed.
Print Assumptions C07_print_digits.

(** parse/mod.rs + parse/non_power_two.rs (per-word Horner, 256-group chunks, divide-and-conquer) +
    parse/power_two.rs (digit << bits packing, digits straddling two words): the unsigned parser returns the
    specification's value or error kind for texts of any length (underscores, leading zeros, either case) *)
Theorem C07_parse_body : forall w r s, 0 < w -> w mod 2 = 0 -> 2 <= r -> r < Bw w -> body_asis w r s = body_spec r s.
Proof. exact body_asis_correct. Qed.
Print Assumptions C07_parse_body.

(** from_str_radix / FromStr (sign front end) and from_str_with_radix_prefix / _default (sign + 0b/0o/0x) *)
Theorem C07_from_str_radix : forall w sg r s, 0 < w -> w mod 2 = 0 -> 36 < Bw w ->
  from_str_radix_asis w sg r s = from_str_radix_spec sg r s.
Proof. exact from_str_radix_asis_correct. Qed.
Print Assumptions C07_from_str_radix.

Theorem C07_from_str_prefix : forall w sg default s, 0 < w -> w mod 2 = 0 -> 36 < Bw w -> 2 <= default <= 36 ->
  from_str_prefix_asis w sg default s = from_str_prefix_spec sg default s.
Proof. exact from_str_prefix_asis_correct. Qed.
Print Assumptions C07_from_str_prefix.

(** fmt/mod.rs format_prepared = core::fmt's pad_integral for every flag combination *)
Theorem C07_layout : forall f neg prefix digits,
  format_prepared_asis f neg (if f_alt f then prefix else []) digits = pad_integral_spec f (negb neg) prefix digits.
Proof. exact format_prepared_correct. Qed.
Print Assumptions C07_layout.

(** Display / Binary / Octal / LowerHex / UpperHex / in_radix: the whole text (digits, sign, prefix, padding)
    is the specification's, or the documented panic for an invalid radix *)
Theorem C07_fmt : forall w k f v, 0 < w -> w mod 2 = 0 -> 36 < Bw w -> fmt_asis w k f v = fmt_spec k f v.
Proof. exact fmt_asis_correct. Qed.
Print Assumptions C07_fmt.

(** model of the printer followed by model of the parser: the integer comes back *)
Theorem C07_print_parse : forall w r f v t, 0 < w -> w mod 2 = 0 -> 36 < Bw w -> 2 <= r <= 36 -> f_width f = None ->
  fmt_asis w (KInRadix r) f v = Ok t -> from_str_radix_asis w true r t = Ok v.
Proof. exact print_parse_asis. Qed.
Print Assumptions C07_print_parse.

(** a negative number is printed as '-' followed by the text of its magnitude, in every radix *)
Theorem C07_negative_text : forall k f m, 0 < m -> f_width f = None -> f_plus f = false ->
  forall t, fmt_spec k f m = Ok t -> fmt_spec k f (- m) = Ok (45 :: t).
Proof. exact fmt_spec_negative. Qed.
Print Assumptions C07_negative_text.

(** grammar: accepted texts are in the grammar and mean their positional value; the rest is an error *)
Theorem C07_accepts_grammar : forall r s n, body_spec r s = Ok n ->
  exists ds, body_rel r s ds /\ ds <> [] /\ n = digits_value r ds.
Proof. exact body_spec_ok. Qed.
Print Assumptions C07_accepts_grammar.

Theorem C07_rejects_rest : forall r s, (exists n, body_spec r s = Ok n) \/
  (body_spec r s = Err E_NoDigits /\ body_rel r s []) \/
  (body_spec r s = Err E_InvalidDigit /\ forall ds, ~ body_rel r s ds).
Proof. exact body_spec_err. Qed.
Print Assumptions C07_rejects_rest.

(** round trip: the printed digits, decorated in any way (underscores, leading zeros, either case), parse to n *)
Theorem C07_parse_decorated : forall r, 2 <= r -> forall n s k, 0 <= n ->
  body_rel r s (repeat 0 k ++ digits_spec r n) -> body_spec r s = Ok n.
Proof. exact parse_decorated. Qed.
Print Assumptions C07_parse_decorated.

Theorem C07_print_in_grammar : forall r, 2 <= r -> r <= 36 -> forall upper n, 0 <= n ->
  body_rel r (digit_text upper r n) (digits_spec r n).
Proof. exact print_in_grammar. Qed.
Print Assumptions C07_print_in_grammar.

Theorem C07_text_roundtrip : forall r, 2 <= r -> r <= 36 -> forall f v t, f_width f = None ->
  fmt_spec (KInRadix r) f v = Ok t -> from_str_radix_spec true r t = Ok v.
Proof. exact from_str_radix_roundtrip. Qed.
Print Assumptions C07_text_roundtrip.

Theorem C07_prefix_roundtrip : forall k f v t default, std_kind k = true -> f_alt f = true -> f_width f = None ->
  fmt_spec k f v = Ok t -> from_str_prefix_spec true default t = Ok (v, kind_radix k).
Proof. exact from_str_prefix_roundtrip. Qed.
Print Assumptions C07_prefix_roundtrip.

(** bytes: encode/decode are mutually inverse (unsigned; two's complement for ALL integers) *)
Theorem C07_bytes_roundtrip : forall v, 0 <= v -> le_value (to_le_bytes_spec v) = v.
Proof. exact to_le_bytes_roundtrip. Qed.
Print Assumptions C07_bytes_roundtrip.

Theorem C07_bytes_back : forall bs, bytes_ok bs -> le_bytes_n (length bs) (le_value bs) = bs.
Proof. exact le_bytes_of_value. Qed.
Print Assumptions C07_bytes_back.

Theorem C07_signed_bytes_roundtrip : forall v, le_signed_value (to_signed_le_bytes_spec v) = v.
Proof. exact to_signed_le_bytes_roundtrip. Qed.
Print Assumptions C07_signed_bytes_roundtrip.

Theorem C07_be_bytes_roundtrip : forall v, be_signed_value (rev (to_signed_le_bytes_spec v)) = v.
Proof. exact to_signed_be_bytes_roundtrip. Qed.
Print Assumptions C07_be_bytes_roundtrip.

(** convert.rs from_le_bytes / from_signed_le_bytes (word padding, flip-add-one-negate) decode the
    specification value, any word size that is a whole number of bytes *)
Theorem C07_from_bytes_asis : forall w bs, from_le_bytes_asis w bs = le_value bs.
Proof. exact from_le_bytes_asis_correct. Qed.
Print Assumptions C07_from_bytes_asis.

Theorem C07_from_signed_bytes_asis : forall w, 0 < w -> forall bs, w mod 8 = 0 -> bytes_ok bs ->
  from_signed_le_bytes_asis w bs = le_signed_value bs.
Proof. exact from_signed_le_bytes_asis_correct. Qed.
Print Assumptions C07_from_signed_bytes_asis.

(** bit chunks *)
Theorem C07_chunks_roundtrip : forall v cb, 0 < cb -> 0 <= v -> from_chunks_spec cb (to_chunks_spec v cb) = v.
Proof. exact to_chunks_roundtrip. Qed.
Print Assumptions C07_chunks_roundtrip.

Theorem C07_from_chunks_asis : forall w, 0 < w -> forall cb cs, 0 <= cb -> from_chunks_asis w cb cs = from_chunks_spec cb cs.
Proof. exact from_chunks_asis_correct. Qed.
Print Assumptions C07_from_chunks_asis.

(** convert.rs to_le_bytes / to_signed_le_bytes (after the repair of F01): every path (double word, word buffer,
    flipped words of magnitude-1, sign byte) produces the specification encoding; with from_*: the identity *)
Theorem C07_to_bytes_asis : forall w, 0 < w -> w mod 8 = 0 -> forall m, 0 <= m -> to_le_bytes_asis w m = to_le_bytes_spec m.
Proof. exact to_le_bytes_asis_correct. Qed.
Print Assumptions C07_to_bytes_asis.

Theorem C07_to_signed_bytes_asis : forall w, 0 < w -> w mod 8 = 0 -> forall v, to_signed_le_bytes_asis w v = to_signed_le_bytes_spec v.
Proof. exact to_signed_le_bytes_asis_correct. Qed.
Print Assumptions C07_to_signed_bytes_asis.

Theorem C07_bytes_roundtrip_asis : forall w, 0 < w -> w mod 8 = 0 -> forall v,
  from_signed_le_bytes_asis w (to_signed_le_bytes_asis w v) = v.
Proof. exact bytes_roundtrip_asis. Qed.
Print Assumptions C07_bytes_roundtrip_asis.

(** convert.rs to_chunks (after the repair of F02): double-word, word-aligned and general paths return the
    specification chunks; with from_chunks: the identity *)
Theorem C07_to_chunks_asis : forall w, 0 < w -> forall v cb, 0 <= v -> 0 < cb -> to_chunks_asis w v cb = Ok (to_chunks_spec v cb).
Proof. exact to_chunks_asis_correct. Qed.
Print Assumptions C07_to_chunks_asis.

Theorem C07_chunks_roundtrip_asis : forall w v cb cs, 0 < w -> 0 <= v -> 0 < cb ->
  to_chunks_asis w v cb = Ok cs -> from_chunks_asis w cb cs = v.
Proof. exact chunks_roundtrip_asis. Qed.
Print Assumptions C07_chunks_roundtrip_asis.

(** the repaired defects: the code as it was is refuted on the witnesses, the code as it is agrees *)
Theorem C07_F01_refuted :
  le_signed_value (to_signed_le_bytes_before_fix 64 (- 2 ^ 128)) = 0 /\
  le_signed_value (to_signed_le_bytes_asis 64 (- 2 ^ 128)) = - 2 ^ 128 /\
  to_signed_le_bytes_asis 64 (- 2 ^ 128) = to_signed_le_bytes_spec (- 2 ^ 128).
Proof. exact to_signed_le_bytes_before_fix_refuted. Qed.
Print Assumptions C07_F01_refuted.

Theorem C07_F02_refuted :
  to_chunks_before_fix 64 (2 ^ 130) 128 = Panic Undocumented /\
  to_chunks_asis 64 (2 ^ 130) 128 = Ok (to_chunks_spec (2 ^ 130) 128) /\
  to_chunks_spec (2 ^ 130) 128 = [0; 4].
Proof. exact to_chunks_before_fix_refuted. Qed.
Print Assumptions C07_F02_refuted.

Theorem C07_F03_refuted :
  body_asis_before_fix 64 10 [95] = Ok 0 /\ body_spec 10 [95] = Err E_NoDigits /\ body_asis 64 10 [95] = Err E_NoDigits /\
  body_asis_before_fix 64 16 [95; 95] = Ok 0 /\ body_asis 64 16 [95; 95] = Err E_NoDigits.
Proof. exact body_asis_before_fix_refuted. Qed.
Print Assumptions C07_F03_refuted.

(** the word loops under the converters, on little-endian word lists of any word size >= 8 (even):
    PreparedMedium::new / PreparedLarge::write_chunk = repeated div::fast_div_by_word_in_place (C02's model and
    proof) + stripping of top zero words; parse_chunk = mul::mul_word_in_place_with_carry (C01's model and proof)
    + push of the carry.  They return what the value-level models return; their panics (index underflow of the
    unguarded strip loop, debug_assert!(buffer_len == 1), assert_eq!(buffer_len, 0), push beyond the capacity
    Buffer::allocate(groups.len())) are modelled and unreachable *)
Theorem C07_medium_words : forall w r, 8 <= w -> w mod 2 = 0 -> 2 <= r -> r < Bw w ->
  forall buf, Words.wf w buf -> buf <> [] -> (topnz buf \/ buf = [0]) ->
  prepared_medium_words w r buf = Ok (prepared_medium w r (Words.value w buf)).
Proof. exact prepared_medium_words_total. Qed.
Print Assumptions C07_medium_words.

Theorem C07_write_chunk_words : forall w r, 8 <= w -> w mod 2 = 0 -> 2 <= r -> r < Bw w ->
  forall buf, Words.wf w buf -> (topnz buf \/ buf = [0]) -> Words.value w buf < snd (radix_info w r) ^ fmt_chunk_len ->
  write_chunk_words w r buf = Ok (write_chunk w r (Words.value w buf)).
Proof. exact write_chunk_words_total. Qed.
Print Assumptions C07_write_chunk_words.

Theorem C07_parse_chunk_words : forall w r, 8 <= w -> w mod 2 = 0 -> 2 <= r -> r < Bw w -> forall s,
  match parse_chunk_words w r s with
  | Ok buf => Words.wf w buf /\ parse_chunk w r s = Ok (Words.value w buf)
  | Err e => parse_chunk w r s = Err e
  | _ => False
  end.
Proof. exact parse_chunk_words_total. Qed.
Print Assumptions C07_parse_chunk_words.

(** regenerated on every run from radix.rs / parse/mod.rs / math.rs / the converters / arch/generic/digits.rs
    (coq/gen/IoTables.v): the hand-written models are the interpretation of the tables in the source *)
Theorem C07_tables_digit : forall r c, digit_from_ascii r c = table_digit_from_ascii r c.
Proof. exact digit_from_ascii_table. Qed.
Print Assumptions C07_tables_digit.

Theorem C07_tables_prefix : forall default s, strip_radix_prefix default s = table_radix_prefix gen_prefix_table default s.
Proof. exact strip_radix_prefix_table. Qed.
Print Assumptions C07_tables_prefix.

Theorem C07_tables_consts :
  (forall r, radix_valid r = (gen_min_radix <=? r) && (r <=? gen_max_radix)) /\
  (forall upper d, digit_char upper d =
     gen_swar_zero + d + (if d <? 2 ^ gen_swar_shift - gen_swar_bias then 0 else if upper then gen_case_upper else gen_case_lower)) /\
  fmt_chunk_len = gen_fmt_chunk_len /\ parse_chunk_len = gen_parse_chunk_len /\
  (forall w base, max_exp_in_word w base =
     if base >? Z.ones (w / gen_max_exp_shortcut_div) then Ok (1, base)
     else let exp := w / blen base in max_exp_loop w (Z.to_nat w) base exp (base ^ exp)).
Proof. exact tables_consts. Qed.
Print Assumptions C07_tables_consts.

(** radix.rs MAX_WORD_DIGITS_NON_POW_2 / MAX_DWORD_DIGITS_NON_POW_2 (= max_exp_in_(d)word(3).0 + 1, constants read from
    the source): the digit arrays of PreparedWord / PreparedDword hold the digits of every (double) word in every
    radix >= 3, and every group zero-padded to digits_per_word - the start index never underflows *)
Theorem C07_digit_buffers_fit : forall w, 0 < w -> w mod 2 = 0 -> 3 < Bw w ->
  (forall r x, 3 <= r -> 0 <= x < Bw w -> len (digits_spec r x) <= max_word_digits w) /\
  (forall r, 3 <= r -> r < Bw w -> fst (radix_info w r) < max_word_digits w) /\
  (forall r x, 3 <= r -> 0 <= x < Bw w * Bw w -> len (digits_spec r x) <= max_dword_digits w).
Proof. exact digit_buffers_fit. Qed.
Print Assumptions C07_digit_buffers_fit.

(** arch/generic/digits.rs digit_chunk_raw_to_ascii (SWAR: bias, shift, mask, multiply, add inside one word) is the
    byte-wise digit -> character map of the specification, for every chunk length (word size) *)
Theorem C07_swar_chunk : forall n (upper : bool) ds, length ds = n -> Forall (fun d => 0 <= d < 36) ds ->
  swar_chunk n (if upper then gen_case_upper else gen_case_lower) ds = map (digit_char upper) ds.
Proof. exact swar_chunk_digit_char. Qed.
Print Assumptions C07_swar_chunk.

Theorem C07_swar_chunk_no_letters : forall n ds, length ds = n -> Forall (fun d => 0 <= d < 10) ds ->
  swar_chunk n 0 ds = map (digit_char false) ds.
Proof. exact swar_chunk_no_letters. Qed.
Print Assumptions C07_swar_chunk_no_letters.

(** PreparedLarge::new: the cached powers (largest first) are successive squares down to range_per_word^CHUNK_LEN; the
    word-count shortcut of the squaring loop never stops too early and the model's fuel never runs out, so the
    largest power p satisfies p <= x < p*p; the quotient left after the division cascade is below
    range_per_word^CHUNK_LEN: the top chunk fits the CHUNK_LEN-word buffer of PreparedMedium *)
Theorem C07_printer_power_table : forall w, 0 < w -> forall R x, 2 <= R -> R ^ fmt_chunk_len <= x ->
  let ps := fmt_powers w (Z.to_nat (blen x)) x [R ^ fmt_chunk_len] in
  squares_chain ps /\ last ps 0 = R ^ fmt_chunk_len /\
  (match ps with p :: _ => p <= x < p * p | [] => False end) /\
  0 <= cascade_top ps true x < R ^ fmt_chunk_len.
Proof. exact prepared_large_table. Qed.
Print Assumptions C07_printer_power_table.

Theorem C07_printer_top_chunk : forall w r ps first x tail,
  exists tail', large_split w r ps first x tail = prepared_medium w r (cascade_top ps first x) ++ tail'.
Proof. exact large_split_top. Qed.
Print Assumptions C07_printer_top_chunk.

(** parse_large / parse_large_divide_conquer / parse_chunk with every debug_assert! as a panic: the table built by the
    squaring loop covers the text, and the assertion holds at the entry and at every recursive call - for texts of
    every length the asserting model is the model *)
Theorem C07_parser_asserts_hold : forall w r s,
  let '(dpw, R) := radix_info w r in
  0 < dpw ->
  let cb := parse_chunk_len * dpw in
  let ps := parse_powers (Z.to_nat (blen (len s))) cb (len s) [R ^ parse_chunk_len] in
  len s <= cb * 2 ^ len ps /\ parse_dc_dbg w r cb ps s = parse_large_np2 w r s.
Proof. exact parse_large_asserts_hold. Qed.
Print Assumptions C07_parser_asserts_hold.

(** convert.rs big-endian functions as their own models (words_to_be_bytes_skip: top word first, skipped bytes cut from
    the front, the other words in reverse order; sign byte inserted at index 0; from_be_*: padding in front):
    they produce / decode the specification encoding read backwards, and are mutually inverse on all integers *)
Theorem C07_to_be_bytes_asis : forall w m, 0 < w -> w mod 8 = 0 -> 0 <= m -> to_be_bytes_asis w m = rev (to_le_bytes_spec m).
Proof. exact to_be_bytes_asis_correct. Qed.
Print Assumptions C07_to_be_bytes_asis.

Theorem C07_to_signed_be_bytes_asis : forall w v, 0 < w -> w mod 8 = 0 ->
  to_signed_be_bytes_asis w v = rev (to_signed_le_bytes_spec v).
Proof. exact to_signed_be_bytes_asis_correct. Qed.
Print Assumptions C07_to_signed_be_bytes_asis.

Theorem C07_from_be_bytes_asis : forall w bs, 0 <= w -> from_be_bytes_asis w bs = be_value bs.
Proof. exact from_be_bytes_asis_correct. Qed.
Print Assumptions C07_from_be_bytes_asis.

Theorem C07_from_signed_be_bytes_asis : forall w bs, 0 < w -> w mod 8 = 0 -> bytes_ok bs ->
  from_signed_be_bytes_asis w bs = be_signed_value bs.
Proof. exact from_signed_be_bytes_asis_correct. Qed.
Print Assumptions C07_from_signed_be_bytes_asis.

Theorem C07_be_bytes_roundtrip_asis : forall w v, 0 < w -> w mod 8 = 0 ->
  from_signed_be_bytes_asis w (to_signed_be_bytes_asis w v) = v.
Proof. exact be_bytes_roundtrip_asis. Qed.
Print Assumptions C07_be_bytes_roundtrip_asis.

(** PreparedDword::new at word level (shl_dword, three div_rem_2by1 by the normalised range_per_word, the shift of the
    quotient inside a double word): every division meets its precondition, the shift loses no bit (the informal
    comment in the source, proved), and the digits are those of the value-level model - every even word size,
    every radix with 2*r*r <= 2^w (2..36 for 16/32/64-bit words) *)
Theorem C07_dword_words : forall w, 0 < w -> forall r x, w mod 2 = 0 -> 2 <= r -> 2 * r * r <= Words.B w ->
  Words.B w <= x < Words.B w * Words.B w -> prepared_dword_words w r x = Ok (prepared_dword w r x).
Proof. exact prepared_dword_words_correct. Qed.
Print Assumptions C07_dword_words.

(** ---- round 3 ---- *)

(** Debug (`{:?}`, `{:#?}`, `{:+?}`): fmt/mod.rs DoubleEnd + fmt/non_power_two.rs DoubleEnd::fmt_non_power_two, with the literals and
    the radix regenerated from the source.  Every integer whose bit length fits a word, every even word size >= 8, ANY logarithm
    routine meeting the contract of log_word_base: the text is the sign, all decimal digits below a double word, otherwise the
    digits_per_word(10) leading digits, "..", and as many trailing digits; `#` appends the true digit count and bit length.
    Inside: 10^exp is divisible by range_per_word/10, the divisor has more than one word, the shifted number has exactly one
    word more than the normalised divisor (one Knuth step gives the whole quotient), div_rem_highest_word's assertions hold *)
Theorem C07_debug : forall w ilog plus alt v, 8 <= w -> w mod 2 = 0 ->
  (forall m, Bw w * Bw w <= m -> 0 <= ilog m /\ 10 ^ ilog m <= m < 10 ^ (ilog m + 1)) ->
  blen (Z.abs v) < Bw w ->
  debug_asis w gen_dbg_lits ilog plus alt v = Ok (debug_spec (fst (radix_info w 10)) (Bw w * Bw w) plus alt v).
Proof. exact debug_asis_correct. Qed.
Print Assumptions C07_debug.

(** the hypothesis on the logarithm is C12's certificate for log_word_base (C12_log_word_base_asis_correct) *)
Theorem C07_debug_c12 : forall w ilog plus alt v, 8 <= w -> w mod 2 = 0 ->
  (forall m, Bw w * Bw w <= m -> ilog_cert m 10 (ilog m) = true) ->
  blen (Z.abs v) < Bw w ->
  debug_asis w gen_dbg_lits ilog plus alt v = Ok (debug_spec (fst (radix_info w 10)) (Bw w * Bw w) plus alt v).
Proof. exact debug_asis_c12. Qed.
Print Assumptions C07_debug_c12.

(** ... and it is satisfiable: the instance the oracle runs *)
Theorem C07_debug_exact_log : forall w plus alt v, 8 <= w -> w mod 2 = 0 -> blen (Z.abs v) < Bw w ->
  debug_asis w gen_dbg_lits (ilog_exact 10) plus alt v = Ok (debug_spec (fst (radix_info w 10)) (Bw w * Bw w) plus alt v).
Proof. exact debug_asis_exact. Qed.
Print Assumptions C07_debug_exact_log.

(** what the specification's head and tail are: the digits of n / r^(count - k) and of n mod r^k, the head has exactly k digits *)
Theorem C07_debug_head_tail : forall r, 2 <= r -> forall e (k : nat) n, (0 < k)%nat -> Z.of_nat k <= e -> r ^ e <= n < r ^ (e + 1) ->
  let ds := digits_spec r n in
  firstn k ds = digits_spec r (n / r ^ (e + 1 - Z.of_nat k)) /\
  skipn (length ds - k) ds = digits_pad k r (n mod r ^ Z.of_nat k) /\
  r ^ (Z.of_nat k - 1) <= n / r ^ (e + 1 - Z.of_nat k) < r ^ Z.of_nat k.
Proof. exact digits_head_tail. Qed.
Print Assumptions C07_debug_head_tail.

(** fmt/mod.rs through the REGENERATED trait table (impl Display/Binary/Octal/LowerHex/UpperHex for UBig and for IBig: radix,
    prefix, DigitCase), the regenerated digit-case rule of `impl Display for InRadix` and the DigitCase offsets: the text of the
    specification for both types, every flag combination, in_radix with lower and (under `#`) upper case letters *)
Theorem C07_fmt_tables : forall w y f v, 0 < w -> w mod 2 = 0 -> 36 < Bw w -> y = 0 \/ y = 1 ->
  forall k, fmt_tables_asis w y k f v = fmt_spec k f v.
Proof. exact fmt_tables_asis_correct. Qed.
Print Assumptions C07_fmt_tables.

Theorem C07_trait_table : forall k t y, trait_id k = Some t -> y = 0 \/ y = 1 ->
  exists p c, trait_lookup t y gen_fmt_traits = Some (kind_radix k, p, c) /\ p = kind_prefix k /\
    forall f d, d < kind_radix k -> case_char c d = digit_char (kind_upper k f) d.
Proof. exact trait_table_ok. Qed.
Print Assumptions C07_trait_table.

(** NoLetters is chosen only where no digit reaches 10; otherwise `#` selects upper case *)
Theorem C07_inradix_case : forall r f d, d < r -> case_char (inradix_case r (f_alt f)) d = digit_char (kind_upper (KInRadix r) f) d.
Proof. exact inradix_case_ok. Qed.
Print Assumptions C07_inradix_case.

Theorem C07_layout_literals : gen_sign_minus = [45] /\ gen_sign_plus = [43] /\ gen_zero_pad = 48 /\ gen_separator = 95.
Proof. exact layout_literals_ok. Qed.
Print Assumptions C07_layout_literals.

(** num-traits `Num::from_str_radix` (2 impls) = `Self::from_str_radix`; serde human readable forms (2 types) = Display /
    from_str_with_radix_prefix with the radix dropped: these string forms are the functions of C07_from_str_radix, C07_fmt,
    C07_from_str_prefix (the run exercises the serde forms through serde_json) *)
Theorem C07_third_party_routes : gen_num_traits_routes = 2 /\ gen_serde_routes = 2.
Proof. exact third_party_routes. Qed.
Print Assumptions C07_third_party_routes.

(** the big operations of the divide-and-conquer converters ARE the as-is models of C01 (pow, sqr, mul: schoolbook / Karatsuba /
    Toom-3 behind the thresholds of the source) and C02 (div_rem: whole dispatch, num-modular primitives transcribed): exact *)
Theorem C07_big_operations : forall w, 8 <= w ->
  (forall a b, 0 <= a -> 0 <= b -> big_mul w a b = Ok (a * b)) /\
  (forall a, 0 <= a -> big_sqr w a = Ok (a * a)) /\
  (forall a e, 0 <= a -> 0 <= e -> big_pow w a e = Ok (a ^ e)) /\
  (forall a b, 0 <= a -> 0 < b -> big_divrem w a b = Ok (a / b, a mod b)).
Proof. intros w Hw. repeat split; intros; [apply big_mul_ok | apply big_sqr_ok | apply big_pow_ok | apply big_divrem_ok]; assumption. Qed.
Print Assumptions C07_big_operations.

(** the whole non-power-of-two printer below the value level: one word (PreMulInv division by its contract), double word
    (IoDword), medium (fast_div_by_word_in_place groups, [Word; CHUNK_LEN] bounds), large (C01 pow / sqr, C02 div_rem cascade,
    write_big_chunk recursion, write_chunk with its assert_eq!) - the specification digits, no panic, for every magnitude *)
Theorem C07_print_words : forall w r x, 8 <= w -> w mod 2 = 0 -> 2 <= r -> 2 * r * r <= Words.B w -> 0 <= x ->
  digits_np2_words w r x = Ok (digits_spec r x).
Proof. exact digits_np2_words_total. Qed.
Print Assumptions C07_print_words.

(** the non-power-of-two parser below the value level: word Horner, mul_word_in_place_with_carry chunks, divide-and-conquer with
    C01's pow and mul - the value-level model (hence, C07_parse_body, the specification) for every text *)
Theorem C07_parse_words : forall w r s, 8 <= w -> w mod 2 = 0 -> 2 <= r -> r < Bw w -> parse_np2_words w r s = parse_np2 w r s.
Proof. exact parse_np2_words_total. Qed.
Print Assumptions C07_parse_words.

Theorem C07_fmt_words : forall w k f v, 8 <= w -> w mod 2 = 0 -> 2 * 36 * 36 <= Words.B w -> fmt_words_asis w k f v = fmt_spec k f v.
Proof. exact fmt_words_asis_correct. Qed.
Print Assumptions C07_fmt_words.

Theorem C07_body_words : forall w r s, 8 <= w -> w mod 2 = 0 -> 2 <= r -> r < Bw w -> body_words_asis w r s = body_spec r s.
Proof. exact body_words_asis_correct. Qed.
Print Assumptions C07_body_words.

(** fmt/digit_writer.rs DigitWriter (buffer of round_up(BUFFER_LEN_MIN, chunk) digits, write = copy what fits / flush when full,
    flush = zero-fill, SWAR chunk by chunk, emit buffer_len bytes): for every chunk length and EVERY partition of the digits
    into write calls the characters are the byte-wise map of the digits *)
Theorem C07_digit_writer : forall n (upper : bool) writes, (0 < n)%nat -> Forall (fun d => 0 <= d < 36) (concat writes) ->
  dw_run n (if upper then gen_case_upper else gen_case_lower) writes = map (digit_char upper) (concat writes).
Proof. exact digit_writer_text. Qed.
Print Assumptions C07_digit_writer.

Theorem C07_digit_writer_no_letters : forall n writes, (0 < n)%nat -> Forall (fun d => 0 <= d < 10) (concat writes) ->
  dw_run n 0 writes = map (digit_char false) (concat writes).
Proof. exact digit_writer_text_no_letters. Qed.
Print Assumptions C07_digit_writer_no_letters.

(** convert.rs chunks_to_words / Repr::from_chunks on word lists (C02's shl_in_place, C01's add_in_place, the allocation sizes
    of the code): total - no index out of range, the discarded shift carry and the asserted addition carry are zero - and the
    words denote the specification, every word size, every chunk width, chunks wider than chunk_bits included *)
Theorem C07_from_chunks_words : forall w, 0 < w -> forall cb chunks, 0 < cb -> Forall (Words.wf w) chunks ->
  exists out, from_chunks_words w cb chunks = Ok out /\ Words.wf w out /\
    Words.value w out = from_chunks_spec cb (map (Words.value w) chunks).
Proof. exact from_chunks_words_correct. Qed.
Print Assumptions C07_from_chunks_words.

(** radix.rs digit_from_ascii_byte - however it is written inside the translator's expression language - evaluated for all 256
    byte values is the grammar's digit function on EVERY byte (finite domain 0..255: the argument is a u8); a rewrite that
    changes the meaning of one byte (e.g. case folding with `byte | 0x20`, which turns 0x10..0x19 into digits) breaks this *)
Theorem C07_digit_table : forall c, 0 <= c < 256 -> table_digit c = digit_of_char c.
Proof. exact digit_table_ok. Qed.
Print Assumptions C07_digit_table.

Theorem C07_digit_from_ascii_table : forall r c, 0 <= c < 256 ->
  digit_from_ascii r c = match table_digit c with Some d => if d <? r then Some d else None | None => None end.
Proof. exact digit_from_ascii_table256. Qed.
Print Assumptions C07_digit_from_ascii_table.

(* ================================================================================================================ *)
(** * round 4 *)
From Dashu Require Import Int.IoToChunksModel Int.IoToChunks Int.IoDebugLwbModel Int.IoDebugLwb Int.IoDispatch4Model Int.IoDispatch4Proofs.
From Dashu Require Int.GrlModel.
From DashuGen Require Import IoDispatch4.

(** convert.rs words_to_chunks / TypedReprRef::to_chunks (RefLarge) on word lists: the zeroed buffers of
    ceil(chunk_bits / WORD_BITS) + 1 words, both loops (word aligned: slices; general: window copy, `&= ones_word(end_bits)`,
    C09's shr_in_place).  Every word size, every normalised word array, every chunk width: total - no slice bound is exceeded,
    no copy_from_slice length mismatch, no usize underflow, `debug_assert!(start < end)` holds - and the buffers denote the
    specification chunks *)
Theorem C07_to_chunks_large_words : forall w, 0 < w -> forall words cb,
  Words.wf w words -> words <> [] -> last words 0 <> 0 -> 0 < cb ->
  exists cs, to_chunks_large_words w words cb = Ok cs /\ Forall (Words.wf w) cs /\
    map (Words.value w) cs = to_chunks_spec (Words.value w words) cb.
Proof. exact to_chunks_large_words_correct. Qed.
Print Assumptions C07_to_chunks_large_words.

(** UBig::to_chunks over those loops (double-word values: shift and mask): the specification, for every value *)
Theorem C07_to_chunks_words : forall w, 0 < w -> forall v cb, 0 <= v -> 0 < cb ->
  to_chunks_words_z w v cb = Ok (to_chunks_spec v cb).
Proof. exact to_chunks_words_z_correct. Qed.
Print Assumptions C07_to_chunks_words.

(** log::repr::log_word_base (C12's as-is model GrlModel.log_word_base_asis: assertion, whole-word stage, digit stage, one
    division back) is TOTAL within bit length + 1 rounds for every estimate that passes its assertion, and returns the floor
    logarithm with its power (C12_log_word_base_asis_correct is the second half) *)
Theorem C07_log_word_base_total : forall w target base wexp est,
  0 < w -> 2 <= base -> 1 <= target -> 1 <= wexp -> base ^ wexp < 2 ^ w -> 2 <= GrlModel.wlen w target -> 0 <= est -> base ^ est <= target ->
  exists e, GrlModel.log_word_base_asis (lwb_fuel target) w est wexp target base = Ok (e, base ^ e) /\ ilog_cert target base e = true.
Proof. exact lwb_fuel_suffices. Qed.
Print Assumptions C07_log_word_base_total.

(** the Debug printer with log_word_base INSIDE the model (no hypothesis on the logarithm any more; what remains is the f32
    estimate, any value that passes the code's own `assert!(est_pow <= target)`): it prints the specification *)
Theorem C07_debug_log_word_base : forall w est plus alt v, 8 <= w -> w mod 2 = 0 ->
  (forall m, Bw w * Bw w <= m -> 0 <= est m /\ 10 ^ est m <= m) ->
  blen (Z.abs v) < Bw w ->
  debug_lwb_asis w gen_dbg_lits est plus alt v = Ok (debug_spec (fst (radix_info w 10)) (Bw w * Bw w) plus alt v).
Proof. exact debug_lwb_asis_correct. Qed.
Print Assumptions C07_debug_log_word_base.

(** ... satisfiable: the instance the oracle runs (exact exponent lowered by 0..40: both correction loops run) *)
Theorem C07_debug_log_word_base_run : forall w plus alt v, 8 <= w -> w mod 2 = 0 -> blen (Z.abs v) < Bw w ->
  debug_lwb_asis w gen_dbg_lits est_under plus alt v = Ok (debug_spec (fst (radix_info w 10)) (Bw w * Bw w) plus alt v).
Proof. exact debug_lwb_asis_under. Qed.
Print Assumptions C07_debug_log_word_base_run.

(** the DISPATCH of the converters REGENERATED from parse/*.rs and fmt/*.rs (coq/gen/IoDispatch4.v: which parser / printer for
    which radix, which path for which length / representation, chunk_bytes, the `while` condition of the parser's squaring loop,
    the split point and the "goes down undivided" test of parse_large_divide_conquer, the length shortcut of the printer's
    squaring loop, CHUNK_LENs, the width formula of the power-of-two printer): the converters read through the generated
    functions are the hand transcription, for every word size, radix, magnitude and text ... *)
Theorem C07_dispatch_print_eq : forall w, 0 <= w -> forall r x, 2 <= r -> digits_gen w r x = digits_asis w r x.
Proof. exact digits_gen_eq. Qed.
Print Assumptions C07_dispatch_print_eq.

Theorem C07_dispatch_parse_eq : forall w r s, body_gen w r s = body_asis w r s.
Proof. exact body_gen_eq. Qed.
Print Assumptions C07_dispatch_parse_eq.

Theorem C07_dispatch_parse_dc : forall w r cb ps s, parse_dc_gen w r cb ps s = parse_dc w r cb ps s.
Proof. exact parse_dc_gen_eq. Qed.
Print Assumptions C07_dispatch_parse_dc.

Theorem C07_dispatch_parse_powers : forall fuel cb n ps, parse_powers_gen fuel cb n ps = parse_powers fuel cb n ps.
Proof. exact parse_powers_gen_eq. Qed.
Print Assumptions C07_dispatch_parse_powers.

Theorem C07_dispatch_fmt_powers : forall w fuel x ps, fmt_powers_gen w fuel x ps = fmt_powers w fuel x ps.
Proof. exact fmt_powers_gen_eq. Qed.
Print Assumptions C07_dispatch_fmt_powers.

Theorem C07_dispatch_p2_width : forall lr x, 0 < lr -> gen4_p2_width (blen x) lr = p2_width lr x.
Proof. exact p2_width_gen_eq. Qed.
Print Assumptions C07_dispatch_p2_width.

(** ... hence print the specification digits and parse to the specification value / error kind *)
Theorem C07_dispatch_print : forall w r x, 0 < w -> w mod 2 = 0 -> 2 <= r -> r < Bw w -> 0 <= x -> digits_gen w r x = digits_spec r x.
Proof. exact digits_gen_correct. Qed.
Print Assumptions C07_dispatch_print.

Theorem C07_dispatch_parse : forall w r s, 0 < w -> w mod 2 = 0 -> 2 <= r -> r < Bw w -> body_gen w r s = body_spec r s.
Proof. exact body_gen_correct. Qed.
Print Assumptions C07_dispatch_parse.

(** fmt/mod.rs InRadixWriter::format_prepared REGENERATED by a symbolic run of its output statements (write_str(sign),
    write_str(prefix), the write_char loops with their ranges, write_digits, under the `match f.width()` / if / `match f.align()`
    structure; coq/gen/IoDispatch4.v gen4_layout): it is the hand transcription and therefore core::fmt's pad_integral, for every
    flag combination, width, fill, prefix and digit text *)
Theorem C07_layout_gen_eq : forall f neg prefix digits,
  format_prepared_gen f neg prefix digits = format_prepared_asis f neg prefix digits.
Proof. exact format_prepared_gen_eq. Qed.
Print Assumptions C07_layout_gen_eq.

Theorem C07_layout_gen : forall f neg prefix digits,
  format_prepared_gen f neg (if f_alt f then prefix else []) digits = pad_integral_spec f (negb neg) prefix digits.
Proof. exact format_prepared_gen_correct. Qed.
Print Assumptions C07_layout_gen.
