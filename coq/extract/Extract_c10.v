Require Import FastZ.
From Dashu Require Import Base.Prelude Float.RoundSpec Float.Contract Float.Model Float.RoundOpsModel Ratio.RatRoundModel.
Extraction "model.ml" dlen spec_round round_fract round_ratio normalize repr_round
  int_spec is_int to_int_spec fract_sig_spec with_precision_spec flag_of_adj
  smaller_than_one split_internal trunc_asis fract_asis split_asis ceil_asis floor_asis round_asis
  to_int_asis repr_to_int_asis with_precision_asis split_digits_10 split_digits_pow2 shr_digits_10 split_digits
  dub_exact dub_plus
  rat_split rat_ceil rat_floor rat_trunc rat_fract rat_round rat_reduce rat_reduce2.
