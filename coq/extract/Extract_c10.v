Require Import FastZ.
From Dashu Require Import Base.Prelude Float.RoundSpec Float.Contract Float.Model Float.RoundOpsModel Ratio.RatRoundModel Float.RoundOpsDeep Float.RoundAssertModel.
From DashuGen Require Import RatioSmall RoundPrimGen RoundOpsGen.
Extraction "model.ml" dlen spec_round round_fract round_ratio normalize repr_round
  int_spec is_int to_int_spec fract_sig_spec with_precision_spec flag_of_adj
  smaller_than_one split_internal trunc_asis fract_asis split_asis ceil_asis floor_asis round_asis
  to_int_asis repr_to_int_asis with_precision_asis split_digits_10 split_digits_pow2 shr_digits_10 split_digits
  dub_exact dub_plus
  rat_split rat_ceil rat_floor rat_trunc rat_fract rat_round rat_reduce rat_reduce2
  is_inf trunc_full fract_full split_full ceil_full floor_full round_full to_int_full repr_to_int_full
  with_precision_full with_same_base_full with_precision_twice round_fract_debug round_ratio_pub round_ratio_pre
  rat_split_at_point_gen rat_ceil_gen rat_floor_gen rat_trunc_gen rat_fract_gen rat_round_gen
  round_fract_gen round_fract_pre_gen round_ratio_gen round_ratio_pre_gen smaller_than_one_gen round_to_zero_test_gen
  round_low_part int_tiny to_int_tiny
  blen sat_mul fract_cheap round_fract_pre4 round_fract_debug4 round_ratio_pre4 round_ratio_pub4 round_fract_tiny round_fract_any4
  round_fract_sz to_int_full4 bit_len_gen round_fract_chk4
  trunc_gen split_at_point_gen fract_gen ceil_gen floor_gen round_gen to_int_gen repr_to_int_gen split_internal_gen
  repr_round_gen repr_round_ref_gen with_precision_rounds_gen sat_sub.
