(** extraction of the C09 model (sign tables regenerated from the source + specs) *)
Require Import FastZ.
From Dashu Require Import Base.Prelude Base.Words Int.BitsSpec Int.BitsWords.
From DashuGen Require Import SignTables.
Extraction "model.ml"
  signed sign_of
  ibig_bitand_gen ibig_bitor_gen ibig_bitxor_gen ubig_ibig_bitand_gen ibig_ubig_bitand_gen
  ibig_not_gen ibig_not_ref_gen ibig_shr_gen ibig_shr_ref_gen
  bit_len_spec set_bit_spec clear_bit_spec trailing_zeros_spec trailing_ones_spec
  count_ones_spec count_zeros_spec split_bits_spec clear_high_bits_spec
  is_power_of_two_spec next_power_of_two_spec ones_spec
  to_words trailing_zeros_large trailing_ones_large bit_large.
