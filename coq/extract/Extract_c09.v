(** extraction of the C09 model (sign tables regenerated from the source + specs) *)
Require Import FastZ.
From Dashu Require Import Base.Prelude Base.Words Int.BitsSpec Int.BitsWords Int.BitsKernels Int.BitsForms Int.BitsSignedWords.
From DashuGen Require Import SignTables BitsFormsGen BitsKernelsGen.
Extraction "model.ml"
  signed sign_of
  ibig_bitand_gen ibig_bitor_gen ibig_bitxor_gen ubig_ibig_bitand_gen ibig_ubig_bitand_gen
  ibig_not_gen ibig_not_ref_gen ibig_shr_gen ibig_shr_ref_gen
  bit_len_spec set_bit_spec clear_bit_spec trailing_zeros_spec trailing_ones_spec
  count_ones_spec count_zeros_spec split_bits_spec clear_high_bits_spec
  is_power_of_two_spec next_power_of_two_spec ones_spec
  to_words trailing_zeros_large trailing_ones_large bit_large
  to_brepr bvalue repr_bitand repr_bitor repr_bitxor repr_and_not
  ibig_bitand_asis ibig_bitor_asis ibig_bitxor_asis
  repr_shl repr_shl_ref repr_shr repr_shr_ref ibig_shr_asis ibig_shr_ref_asis ibig_shl_asis are_low_bits_nonzero
  repr_ones repr_bit ibig_bit repr_trailing_zeros repr_set_bit repr_clear_bit repr_clear_high_bits repr_split_bits
  repr_trailing_ones ibig_trailing_ones
  repr_bit_len repr_count_ones repr_count_zeros repr_is_power_of_two repr_next_power_of_two
  zop ubig_op ibig_op ubig_prim_asis ibig_prim_asis ubig_prim_assign_asis ibig_prim_assign_asis
  ubig_assign_asis ibig_assign_asis ubig_shl_form ubig_shr_form ibig_shl_form ibig_shr_form brepr_layout
  gen_bitand_vv gen_bitand_vr gen_bitand_rv gen_bitand_rr gen_bitor_vv gen_bitor_vr gen_bitor_rv gen_bitor_rr
  gen_bitxor_vv gen_bitxor_vr gen_bitxor_rv gen_bitxor_rr
  from_buffer shl_in_place_gen shr_in_place_with_carry_gen bitand_large_gen bitor_large_gen bitxor_large_gen and_not_large_gen
  trailing_zeros_large_gen trailing_ones_large_gen trailing_zeros_large_shifted_by_one_gen count_ones_large_gen
  are_slice_low_bits_nonzero_gen
  repr_add_one repr_sub_one ibig_not_words ibig_bitand_words ibig_bitor_words ibig_bitxor_words ibig_shr_words.
