Require Import FastZ.
From Dashu Require Import Base.Prelude Float.RoundSpec Float.Contract Float.Model Float.ElemEncl Float.ElemEntry Float.ElemF32 Float.ElemAsis.
(* CoqInterval's enclosure code is pure Z code, but extraction drags the real-number axiom
   sig_forall_dec in as a top-level value that would raise at module initialisation; it is never
   called (DESIGN section 6, named in TRUSTED_BASE of props/C11.py). *)
Extract Constant ClassicalDedekindReals.sig_forall_dec => "(fun _ -> assert false)".
Extraction "model.ml" check_exp check_expm1 check_ln check_ln1p check_powi check_powf
  loose_exp loose_expm1 loose_ln loose_ln1p loose_powi loose_powf
  exp_entry ln_entry ln_entry_before_fix powi_entry powf_entry normalize dlen feq
  mk_f32ops powi_asis powi_overlong exp_internal ln_internal powf_asis repr_log2_est repr_log2_bounds uint_log2_est.
