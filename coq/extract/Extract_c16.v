(** extraction of the C16 model: documented panic table, as-is panic mechanisms, Farey walk, index-level text parsers,
    serde deserialisers (visitors + JSON text layer), Repr::new with the isize exponent, extended Lehmer gcd, cost bounds *)
Require Import FastZ.
From Dashu Require Import Base.Prelude Cross.PanicSpec Cross.PanicAsis Cross.Utf8 Cross.ParseIdx Cross.ReprNew Cross.SerdeText
  Int.GrlLehmer Cross.CostClasses.
Extraction "model.ml"
  documented may exp_band accepts asis known asis_predicts farey_asis auto_prec_zero pow_related
  with_base_asis preason_beq outcome_beq ndig opdiv_long
  utf8_from float_parse_code ratio_radix_code ratio_prefix_code int_radix_code int_default_code
  serde_json_code struct_code repr_new_code repr_new_spec_code lehmer_gcd_ext_asis lehmer_gcd_asis cost_code.
