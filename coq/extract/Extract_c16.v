(** extraction of the C16 model: documented panic table, as-is panic mechanisms, Farey walk, index-level text parsers *)
Require Import FastZ.
From Dashu Require Import Base.Prelude Cross.PanicSpec Cross.PanicAsis Cross.Utf8 Cross.ParseIdx.
Extraction "model.ml"
  documented may exp_band accepts asis known asis_predicts farey_asis auto_prec_zero pow_related
  with_base_asis preason_beq outcome_beq ndig opdiv_long
  utf8_from float_parse_code ratio_radix_code ratio_prefix_code int_radix_code int_default_code.
