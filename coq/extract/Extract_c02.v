(** extraction of the C02 model: specifications, sign layer over the regenerated tables, and the
    word-level as-is models instantiated at the 64-bit word of the default build *)
Require Import FastZ.
From Dashu Require Import Base.Prelude Base.Words Int.DivSpec Int.DivWordModel Int.DivWordInst Int.DivNumModular Int.DivSrcInst Int.DivPrim Int.DivMemBase Int.DivMemModel Int.DivOwn Int.DivRemIdx Int.DivKernelsBase Int.DivConstNew Int.DivKernelsInst Int.DivBodiesInst Int.DivConstGenInst.
From DashuGen Require Import SignTables Params DivDispatch DivKernelsGen DivReprGen DivBodiesGen.

Definition m_repr_div_rem := i_repr_div_rem 64.
Definition m_repr_div := i_repr_div 64.
Definition m_repr_rem := i_repr_rem 64.
Definition m_const_div_rem := i_const_div_rem 64.
Definition m_const_rem := i_const_rem 64.
Definition m_kernel_asis := kernel_asis 64.
Definition m_kernel_spec := kernel_spec 64.
(** the fully transcribed instance (num-modular's reciprocal division as in barrett.rs, C01's add_signed_mul):
    proved equal to the specification in Int/DivSrcInstProofs.v (C02_division_unconditional) *)
Definition s64_repr_div_rem := s_repr_div_rem 64.
Definition s64_repr_div := s_repr_div 64.
Definition s64_repr_rem := s_repr_rem 64.
Definition s64_const_div_rem := s_const_div_rem 64.
Definition s64_const_rem := s_const_rem 64.
Definition s64_kernel_asis := s_kernel_asis 64.
(** primitive-typed operands (Int/DivPrim.v; = prim_form_spec by C02_prim_forms) and is_multiple_of_const *)
Definition s64_is_multiple_of_const := is_multiple_of_const_asis 64 (nm1by1 64) (nm2by1 64) (nm2by2 64) (nm3by2 64) (nm4by2 64).

(** scratch memory (Int/DivMemModel.v over the regenerated coq/gen/DivDispatch.v): words really needed / reserved *)
Definition m_mul_reserved (la lb : Z) : Z := g_mul_mem_exact (la + lb) (Z.min la lb).

(** div_ops.rs::repr with the ownership arms regenerated from the source (Int/DivOwn.v; C02_typed_unconditional) *)
Definition s64_typed_values := typed_values 64.

(** rem_by_word / rem_by_dword with the index arithmetic of the source (Int/DivRemIdx.v; C02_rem_by_idx): the remainder
    of a Large magnitude m (more than two words) by a word / double-word divisor d *)
Definition s64_rem_idx (m d : Z) : result Z :=
  if d <? 2 ^ 64 then rem_by_word_idx 64 (nm1by1 64) (nm2by1 64) (words_of 64 m) d
  else rem_by_dword_idx 64 (nm2by2 64) (nm3by2 64) (nm4by2 64) (words_of 64 m) d.

(** round 4: the same models at the word size of the build under test (w = 64 default / release, w = 32 force_bits="32") *)
Definition w_repr_div_rem (w : Z) := s_repr_div_rem w.
Definition w_repr_div (w : Z) := s_repr_div w.
Definition w_repr_rem (w : Z) := s_repr_rem w.
Definition w_const_div_rem (w : Z) := s_const_div_rem w.
Definition w_const_rem (w : Z) := s_const_rem w.
Definition w_kernel_asis (w : Z) := s_kernel_asis w.
Definition wx_repr_div_rem (w : Z) := i_repr_div_rem w.
Definition wx_repr_div (w : Z) := i_repr_div w.
Definition wx_repr_rem (w : Z) := i_repr_rem w.
Definition wx_const_div_rem (w : Z) := i_const_div_rem w.
Definition wx_const_rem (w : Z) := i_const_rem w.
Definition wx_kernel_asis (w : Z) := kernel_asis w.
Definition w_kernel_spec (w : Z) := kernel_spec w.
Definition w_typed_values (w : Z) := typed_values w.
Definition w_is_multiple_of_const (w : Z) := is_multiple_of_const_asis w (nm1by1 w) (nm2by1 w) (nm2by2 w) (nm3by2 w) (nm4by2 w).
Definition w_rem_idx (w m d : Z) : result Z :=
  if d <? 2 ^ w then rem_by_word_idx w (nm1by1 w) (nm2by1 w) (words_of w m) d
  else rem_by_dword_idx w (nm2by2 w) (nm3by2 w) (nm4by2 w) (words_of w m) d.
(** round 4: entry points built ONLY from the kernels regenerated from the source (coq/gen/DivKernelsGen.v, DivReprGen.v;
    = the hand models by the C02_gen theorems), and the construction of a ConstDivisor with its stored fields (Int/DivConstNew.v) *)
Definition gw_div_rem_small := g_div_rem_small.
Definition gw_rem_small := g_rem_small.
Definition gw_div_rem_large := g_div_rem_large.
Definition gw_div_large := g_div_large.
Definition gw_rem_large := g_rem_large.
Definition gw_kernel := g_kernel.
Definition gw_const_fields := g_const_fields.
Definition gw_const_from := g_const_from.

(** round 5: the hook-level kernels with the recursion of divide_conquer.rs regenerated (coq/gen/DivBodiesGen.v) *)
Definition gw5_kernel := g5_kernel.
(** round 5: word / double-word ConstDivisor through the regenerated arms of div_const.rs::repr, and the regenerated
    *_large_dword helpers of div_ops.rs::repr (values of the returned Repr) *)
Definition gw5_const_rem (w : Z) := gc_rem (Pnm w) w.
Definition gw5_const_div_rem (w : Z) := gc_div_rem (Pnm w) w.
Definition gw5_const_div (w : Z) := gc_div (Pnm w) w.
Definition gw5_large_dword (w a b : Z) : result (list Z) :=
  rbind (div_rem_large_dword_chk_gen (Pnm w) w (words_of w a) b) (fun '(q, r) =>
  rbind (div_large_dword_chk_gen (Pnm w) w (words_of w a) b) (fun q2 =>
  rbind (rem_large_dword_chk_gen (Pnm w) w (words_of w a) b) (fun r2 =>
  Ok [tvalue w q; tvalue w r; tvalue w q2; tvalue w r2]))).

Extraction "model.ml" gw5_kernel gw5_const_rem gw5_const_div_rem gw5_const_div gw5_large_dword
  w_repr_div_rem w_repr_div w_repr_rem w_const_div_rem w_const_rem w_kernel_asis wx_repr_div_rem wx_repr_div wx_repr_rem
  wx_const_div_rem wx_const_rem wx_kernel_asis w_kernel_spec w_typed_values w_is_multiple_of_const w_rem_idx
  gw_div_rem_small gw_rem_small gw_div_rem_large gw_div_large gw_rem_large gw_kernel gw_const_fields gw_const_from
  form_spec ibig_form_asis ubig_form_asis ubig_ibig_form_asis ibig_ubig_form_asis
  const_ubig_form_asis const_ibig_form_asis div_threshold_simple
  m_repr_div_rem m_repr_div m_repr_rem m_const_div_rem m_const_rem m_kernel_asis m_kernel_spec
  s64_repr_div_rem s64_repr_div s64_repr_rem s64_const_div_rem s64_const_rem s64_kernel_asis
  prim_form_asis prim_form_spec is_multiple_of_spec s64_is_multiple_of_const
  hook_peak hook_reserved mul_peak_auto m_mul_reserved s64_typed_values s64_rem_idx.
