(** extraction of the C02 model: specifications, sign layer over the regenerated tables, and the
    word-level as-is models instantiated at the 64-bit word of the default build *)
Require Import FastZ.
From Dashu Require Import Base.Prelude Base.Words Int.DivSpec Int.DivWordModel Int.DivWordInst.
From DashuGen Require Import SignTables Params.

Definition m_repr_div_rem := i_repr_div_rem 64.
Definition m_repr_div := i_repr_div 64.
Definition m_repr_rem := i_repr_rem 64.
Definition m_const_div_rem := i_const_div_rem 64.
Definition m_const_rem := i_const_rem 64.
Definition m_kernel_asis := kernel_asis 64.
Definition m_kernel_spec := kernel_spec 64.

Extraction "model.ml"
  form_spec ibig_form_asis ubig_form_asis ubig_ibig_form_asis ibig_ubig_form_asis
  const_ubig_form_asis const_ibig_form_asis div_threshold_simple
  m_repr_div_rem m_repr_div m_repr_rem m_const_div_rem m_const_rem m_kernel_asis m_kernel_spec.
