(** extraction of the C02 model: specifications, sign layer over the regenerated tables, and the
    word-level as-is models instantiated at the 64-bit word of the default build *)
Require Import FastZ.
From Dashu Require Import Base.Prelude Base.Words Int.DivSpec Int.DivWordModel Int.DivWordInst Int.DivNumModular Int.DivSrcInst Int.DivPrim Int.DivMemBase Int.DivMemModel Int.DivOwn Int.DivRemIdx.
From DashuGen Require Import SignTables Params DivDispatch.

Definition m_repr_div_rem := i_repr_div_rem 64.
Definition m_repr_div := i_repr_div 64.
Definition m_repr_rem := i_repr_rem 64.
Definition m_const_div_rem := i_const_div_rem 64.
Definition m_const_rem := i_const_rem 64.
Definition m_kernel_asis := kernel_asis 64.
Definition m_kernel_spec := kernel_spec 64.
(** the fully transcribed instance (num-modular's reciprocal division as in barrett.rs, C01's add_signed_mul):
    proved equal to the specification in Int/DivSrcInstProofs.v (C02_division_unconditional) *)
Definition s64_repr_div_rem := s_repr_div_rem 64.
Definition s64_repr_div := s_repr_div 64.
Definition s64_repr_rem := s_repr_rem 64.
Definition s64_const_div_rem := s_const_div_rem 64.
Definition s64_const_rem := s_const_rem 64.
Definition s64_kernel_asis := s_kernel_asis 64.
(** primitive-typed operands (Int/DivPrim.v; = prim_form_spec by C02_prim_forms) and is_multiple_of_const *)
Definition s64_is_multiple_of_const := is_multiple_of_const_asis 64 (nm1by1 64) (nm2by1 64) (nm2by2 64) (nm3by2 64) (nm4by2 64).

(** scratch memory (Int/DivMemModel.v over the regenerated coq/gen/DivDispatch.v): words really needed / reserved *)
Definition m_mul_reserved (la lb : Z) : Z := g_mul_mem_exact (la + lb) (Z.min la lb).

(** div_ops.rs::repr with the ownership arms regenerated from the source (Int/DivOwn.v; C02_typed_unconditional) *)
Definition s64_typed_values := typed_values 64.

(** rem_by_word / rem_by_dword with the index arithmetic of the source (Int/DivRemIdx.v; C02_rem_by_idx): the remainder
    of a Large magnitude m (more than two words) by a word / double-word divisor d *)
Definition s64_rem_idx (m d : Z) : result Z :=
  if d <? 2 ^ 64 then rem_by_word_idx 64 (nm1by1 64) (nm2by1 64) (words_of 64 m) d
  else rem_by_dword_idx 64 (nm2by2 64) (nm3by2 64) (nm4by2 64) (words_of 64 m) d.

Extraction "model.ml"
  form_spec ibig_form_asis ubig_form_asis ubig_ibig_form_asis ibig_ubig_form_asis
  const_ubig_form_asis const_ibig_form_asis div_threshold_simple
  m_repr_div_rem m_repr_div m_repr_rem m_const_div_rem m_const_rem m_kernel_asis m_kernel_spec
  s64_repr_div_rem s64_repr_div s64_repr_rem s64_const_div_rem s64_const_rem s64_kernel_asis
  prim_form_asis prim_form_spec is_multiple_of_spec s64_is_multiple_of_const
  hook_peak hook_reserved mul_peak_auto m_mul_reserved s64_typed_values s64_rem_idx.
