(** extraction of the C20 model: token loops, grammar, generators, constructors; round 3: the lexer model and the
    end-to-end pipelines over the run-time parser models of C07 / C08 / C04 *)
Require Import FastZ.
From Dashu Require Import Base.Prelude Base.Words Int.IoSpec Int.IoModel Float.TextIoSpec Float.TextIoModel Float.PartsConstModel
  Ratio.RatArithModel Macro.LitModel Macro.LitLexModel Macro.LitRefModel.
Extraction "model.ml"
  signed sign_of blen
  le_bytes quote_words select_words eval_words
  gen_int_asis eval_ishape int_spec
  gen_float_asis eval_fshape float_spec
  gen_ratio_asis eval_rshape ratio_parts_spec
  int_tokens_asis int_tokens_spec
  rat_tokens_asis rat_tokens_spec
  macro_uint_value macro_rat_value
  join_tokens fbin_text_split fbin_text_asis fbin_text_spec
  lex macro_int_asis macro_fbin_asis macro_fdec_asis macro_rat_asis rat_runtime rat_texts_ok int_runtime value_text_ok.
