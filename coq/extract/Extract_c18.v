(** extraction of the C18 model: specifications, checkers and as-is models *)
Require Import FastZ.
From Dashu Require Import Base.Prelude Float.RoundSpec Ratio.SimplestSpec Ratio.SimplestModel Ratio.SimplestFindings
  Ratio.SimplestDeepModel Ratio.SimplestIeeeDeepModel Ratio.SimplifyBodiesModel.
From DashuGen Require Import SimplifyGen.
Extraction "model.ml"
  freduce flt feq simpler simplest_in_spec simplest_closed
  next_up_check next_down_check nearest_check
  float_interval_spec simplest_from_float_spec round_to_prec scaled
  ieee_interval_spec simplest_from_ieee_spec ieee_value ieee_round
  known_ieee known_unlimited known_oddbase known_halfeven known_powbase
  is_simpler_than_asis is_simpler_than_pinned simplest_in_asis simplest_in_pinned_shortcut
  nearest_asis next_up_asis next_down_asis next_up_pinned next_down_pinned
  simplest_from_ieee_asis simplest_from_ieee_pinned simplest_from_float_asis simplest_from_float_pinned simplest_from_float_r2 error_bounds_asis fnormalize
  is_simpler_than_gen
  simplest_from_float_deep_x simplest_from_float_deep_x1 float_bounds_deep_x simplest_from_f32_deep simplest_from_f64_deep
  simplest_in_gen_x nearest_gen_x next_up_gen_x next_down_gen_x.
