(** extraction of the C15 model: form-by-form models + the specifications they are judged against *)
Require Import FastZ.
From Dashu Require Import Base.Prelude Float.RoundSpec Float.Contract Float.Model Float.AddModel.
From Dashu Require Import Ratio.RatArithModel Int.ModRingSpec Forms.FormsSpec Forms.FormsFloatSpec.
From Dashu Require Import Int.RingOps Int.BitsKernels Forms.FormsMul Forms.FormsDiv Forms.FormsBits.
From Dashu Require Import Forms.FormsR3Spec Forms.FormsGcd Forms.FormsGcdInst Forms.FormsR4Spec.
Extraction "model.ml"
  iop_spec divrem_spec rem_euclid_spec div_euclid_spec divrem_euclid_spec in_ty try_into big_op out_ty
  prim_right_asis prim_left_asis prim_assign_asis prim_divrem_asis prim_unrepresentable assign_by_taking
  fshift_spec fshl_asis fshr_asis fshr_assign_pinned
  default_capacity max_compact_capacity clone_cap clone_from_cap
  shl_spec shr_spec
  check_contract dlen cmp_kx normalize
  ctx_add_x ctx_sub_x add_val_val_x add_val_ref_x add_ref_val_x add_ref_ref_x approx_val add_path
  ctx_mul ctx_sqr ctx_cubic repr_div fmul_op fdiv_op fdiv_ctx ctx_max
  canon veqb rha ediv emod
  c15_qbin c15_qdive c15_qdivreme c15_qun c15_qint c15_qmulsign
  c15_madd c15_msub c15_mmul c15_mneg c15_mdiv
  repr_value srepr_value typed_of_value bvalue to_brepr
  repr_mul_form ibig_mul_form
  i_div_rem_form i_div_form i_rem_form i_ibig_div_rem_form i_ibig_div_form i_ibig_rem_form
  repr_bitand repr_bitor repr_bitxor ibig_bitand_asis ibig_bitor_asis ibig_bitxor_asis
  repr_shl repr_shl_ref repr_shr repr_shr_ref ibig_shl_asis ibig_shl_ref_asis ibig_shr_asis ibig_shr_ref_asis
  fadd_form_x ctx_sub_r3_x fsum_asis_x fprod_asis i_gcd_form
  fmul_ctx_r4 fdiv_op_r4 fdiv_ctx_r4 fsqr_r4 fcubic_r4 finv_r4 cd_divrem_asis cd_div_asis cd_rem_asis.
