(** extraction of the C12 specifications and as-is models *)
Require Import FastZ.
From Dashu Require Import Base.Prelude Int.GrlSpec.
Extraction "model.ml"
  gcd_spec gcd_ext_cert root_cert iroot_cert root_panic sqrt_rem_spec root_rem_cert
  ilog_panic ilog_cert remove_cert remove_none remove_spec
  log2_lb_dec log2_lb_exact f32_decode f64_decode dyadic log2_bound_check log2_bound_exact log2_bound_k.
