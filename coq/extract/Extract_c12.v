(** extraction of the C12 specifications and as-is models *)
Require Import FastZ.
From Dashu Require Import Base.Prelude Int.GrlSpec Int.GrlModel Int.GrlLog2Tab Int.GrlKsqrt Int.GrlLehmer Int.GrlPrimRoot Int.GrlLog2Wide Int.GrlLehmerW Int.GrlPrimRootCert.
Extraction "model.ml"
  gcd_spec gcd_ext_cert root_cert iroot_cert root_panic sqrt_rem_spec root_rem_cert
  ilog_panic ilog_cert remove_cert remove_none remove_spec
  log2_lb_dec log2_lb_exact f32_decode f64_decode dyadic log2_bound_check log2_bound_exact log2_bound_k
  nth_root_asis inth_root_asis icbrt_asis sqrt_rem_large_gen ilog_shortcuts remove_asis
  prim_gcd_asis prim_gcd_ext_asis nostd_log2_u16
  ksqrt ksqrt_fuel sqrt_rem_large_asis
  lehmer_gcd_asis lehmer_gcd_ext_asis lehmer_guess lehmer_guess_dword
  prim_sqrt_rem_asis prim_cbrt_rem_asis nostd_log2_wide nostd_wide_bits
  wval to_words lstep_words lext_words lehmer_iter_words highest_word_normalized highest_dword_normalized coeff_limit
  sq32_class cb32_class sq64_cert cb64_cert.
