(** extraction of the C14 model: exact values, the specification of cross-type ordering and hashing,
    the as-is bodies run with two different admissible estimators, and the transcribed f32 estimators of the
    library (XLog2Model on Flocq's binary32) with the bodies run on top of them *)
Require Import FastZ.
From Dashu Require Import Base.Prelude Cross.XVal Cross.XOrdModel Cross.XDispatch Cross.XLog2Model Cross.XEstF32Model Cross.XPrimHashModel Cross.XImplModel Cross.XImplPairs.
Extraction "model.ml"
  untag value_of spec_cmp spec_abs_cmp spec_hash mk_rbig mk_relaxed repr_new decode
  ord_run ord_run2 abs_run abs_run2 fsame_run hash_asis
  f_of_bits f_to_bits next_up next_down ibig_log2_bounds f_log2_bounds f_log2_bounds_pinned q_log2_bounds digits_ub32
  ord_raw abs_raw fsame_raw prim_int_hash prim_float_hash has_numord has_absord has_numhash.
