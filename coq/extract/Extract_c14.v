(** extraction of the C14 model: exact values, the specification of cross-type ordering and hashing,
    and the as-is bodies run with two different admissible estimators *)
Require Import FastZ.
From Dashu Require Import Base.Prelude Cross.XVal Cross.XOrdModel Cross.XDispatch.
Extraction "model.ml"
  untag value_of spec_cmp spec_abs_cmp spec_hash mk_rbig mk_relaxed repr_new decode
  ord_run ord_run2 abs_run abs_run2 fsame_run hash_asis.
