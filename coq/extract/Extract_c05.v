(** extraction of the C05 model: as-is comparison / hashing / layout models and value-level specs *)
Require Import FastZ.
From Dashu Require Import Base.Prelude Int.ReprOrdModel Float.FloatOrdModel Ratio.RatioOrdModel.
Extraction "model.ml"
  layout_ok repr_of_layout words_of canonicalb repr_eq ubig_cmp ibig_cmp abs_cmp abs_eq hash_input rvalue
  ones ones_pinned from_buffer from_dword rclone rclone_from
  fbig_eq repr_cmp_same_base repr_cmp_same_base_pinned fcmp_spec fabs_cmp_spec feq_spec normalizedb ndigits excess_digits normalize xval_eq
  q_repr_eq q_repr_cmp rbig_eq rbig_abs_eq qcmp_spec qeq_spec qabs reducedb relaxed_ok.
