(** extraction of the C05 model: as-is comparison / hashing / layout models and value-level specs *)
Require Import FastZ.
From Dashu Require Import Base.Prelude Int.ReprOrdModel Float.FloatOrdModel Ratio.RatioOrdModel.
From Dashu Require Import Int.DivSpec Int.GrlSpec Int.ReprOrdArith2Model Cross.XLog2Model Float.DigitsUbModel Float.FloatOrdProducers2Model.
From Dashu Require Import Int.ReprOrdArith3Model Int.HashSeqModel.
From DashuGen Require Import CmpGen DigitsEstGen HashGen.
Extraction "model.ml"
  layout_ok repr_of_layout words_of canonicalb repr_eq ubig_cmp ibig_cmp abs_cmp abs_eq hash_input rvalue
  ones ones_pinned from_buffer from_dword rclone rclone_from
  fbig_eq repr_cmp_same_base repr_cmp_same_base_pinned fcmp_spec fabs_cmp_spec feq_spec normalizedb ndigits excess_digits normalize xval_eq
  q_repr_eq q_repr_cmp rbig_eq rbig_abs_eq qcmp_spec qeq_spec qabs reducedb relaxed_ok
  fbig_eq_gen repr_cmp_same_base_gen q_repr_eq_gen q_repr_cmp_gen rbig_eq_gen rbig_abs_eq_gen rbig_hash_fields_gen
  store_fit rlen ibig_bit ibig_not ibig_shift ubig_div_rem ubig_div ubig_rem ibig_divform form_spec
  digits_ub_est digits_lb_est f_of_bits f_to_bits f32_decode log2_bound_check fprod_asis
  repr_gcd repr_gcd_ext repr_sqrt repr_sqrt_rem repr_nth_root repr_ipow repr_parse
  hash_fields repr_hash_steps_gen repr_hash rbig_hash sign_disc_gen typed_cmp_gen ibig_cmp_gen as_typed.
