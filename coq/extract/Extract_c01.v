(** extraction of the C01 model: specifications (Z) and the as-is word-level models *)
Require Import FastZ.
From Dashu Require Import Base.Prelude Base.Words Int.RingSpec Int.RingAdd Int.RingMul Int.RingOps
  Int.RingToomW Int.DivWordModel Int.DivWordInst Int.RingMulW Int.RingOpsW Int.RingScratch Int.RingPowW Int.RingPrim
  Int.WordPrims Int.WordKernelSpec Int.WordKernelRun Int.RingOpsW4 Int.RingPowShift Int.RingPrimW4 Int.MulBodiesRun.
From DashuGen Require Import SignTables Params MulMemory WordKernelsGen MulBodiesGen.
Extraction "model.ml"
  signed sign_of value to_words
  ubig_add_spec ubig_sub_spec ubig_mul_spec ibig_add_spec ibig_sub_spec ibig_mul_spec
  sqr_spec cubic_spec pow_spec mul_kernel_spec
  ibig_add_gen ibig_sub_gen ibig_mul_gen
  mul_threshold_simple mul_threshold_karatsuba karatsuba_min_len toom3_min_len sqr_max_len_simple mul_simple_chunk_len
  add_in_place sub_in_place sub_in_place_with_sign add_dword_in_place sub_dword_in_place add_one_in_place sub_one_in_place
  mul_word_in_place mul_dword_in_place
  simple_add_signed_mul split_into_chunks karatsuba_same_len toom3_same_len
  add_signed_mul_same_len add_signed_mul multiply simple_square sqr
  repr_value srepr_value from_buffer typed_of_value repr_add repr_sub repr_sub_signed repr_mul repr_sqr
  ibig_add_asis ibig_sub_asis ibig_mul_asis ubig_cubic_asis ibig_cubic_asis repr_pow ubig_pow_asis ibig_pow_asis
  x2by1 toom3x_same_len add_signed_mul_same_len_w add_signed_mul_w multiply_w sqr_w
  simple_add_signed_mul_w karatsuba_add_signed_mul_w toom3_add_signed_mul_w
  repr_mul_w repr_sqr_w ibig_mul_asis_w ubig_cubic_asis_w ibig_cubic_asis_w
  kernel_need kernel_alloc mul_need sqr_need mul_memory_words_exact sqr_memory_words
  repr_pow_w ubig_pow_w ibig_pow_w
  ubig_prim ibig_prim ibig_from_unsigned ibig_from_signed
  word_kernel_spec word_kernel_gen word_kernel_hand signed_mul_chunk_gen repr_mul_w4 shl_in_place_gen pow_shift repr_from_unsigned_w
  kmul_bodies_gen ksqr_bodies_gen.
