(** extraction of the C13 model: specifications (ModRingSpec) + 64-bit instance of the value-level as-is model
    (ModRingInst.v) + the second 64-bit instance (ModRingConvInst.v: multi-word rings on word lists with the real
    kernels of C01 / C02, one- and two-word rings with num-modular as transcribed) + (round 4) inverse / division of the
    multi-word ring with the extended gcd of the source (gcd_ext_word / gcd_ext_dword transcribed, C12's as-is Lehmer
    gcd_ext_in_place; ModRingLehmerInst.v) *)
Require Import FastZ.
From Dashu Require Import Base.Prelude Int.ModRingSpec Int.ModRingPowModel Int.ModRingModel Int.ModRingInst
  Int.ModRingWords Int.ModRingConv Int.ModRingConvInst Int.GrlLehmer Int.ModRingLehmer Int.ModRingLehmerInst Int.ModRingReducerWords Int.ModRingClone.

Extraction "model.ml"
  reduce_spec add_spec sub_spec mul_spec neg_spec dbl_spec sqr_spec powm inv_spec inv_ok div_spec
  bin_spec un_spec rd_check_spec
  run_reduce run_bin run_un run_pow run_pow_prefix run_inv run_eq
  run_rd run_rd_inv run_rd_check run_rd_modulus i_new r_shift r_kind
  hrun_reduce hrun_bin hrun_un hrun_pow hrun_inv hrun_eq hrun_transform
  hrun_inv_src hrun_div_src hrun_gcd_probe hrun_rd_lin run_clone_from.
