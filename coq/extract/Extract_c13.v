(** extraction of the C13 model: specifications (ModRingSpec) + 64-bit instance of the value-level as-is model
    (ModRingInst.v) + the second 64-bit instance (ModRingConvInst.v: multi-word rings on word lists with the real
    kernels of C01 / C02, one- and two-word rings with num-modular as transcribed) + (round 4) inverse / division of the
    multi-word ring with the extended gcd of the source (gcd_ext_word / gcd_ext_dword transcribed, C12's as-is Lehmer
    gcd_ext_in_place; ModRingLehmerInst.v) + (round 5) all of them with the word size as a parameter (ModRingWInst.v: g<name> w),
    which is what the driver calls, at the word size the harness reports (wb=64 / wb=32) *)
Require Import FastZ.
From Dashu Require Import Base.Prelude Int.ModRingSpec Int.ModRingPowModel Int.ModRingModel Int.ModRingInst
  Int.ModRingWords Int.ModRingConv Int.ModRingConvInst Int.GrlLehmer Int.ModRingLehmer Int.ModRingLehmerInst Int.ModRingReducerWords Int.ModRingClone Int.ModRingWInst.

Extraction "model.ml"
  reduce_spec add_spec sub_spec mul_spec neg_spec dbl_spec sqr_spec powm inv_spec inv_ok div_spec
  bin_spec un_spec rd_check_spec
  run_reduce run_bin run_un run_pow run_pow_prefix run_inv run_eq
  run_rd run_rd_inv run_rd_check run_rd_modulus i_new r_shift r_kind
  hrun_reduce hrun_bin hrun_un hrun_pow hrun_inv hrun_eq hrun_transform
  hrun_inv_src hrun_div_src hrun_gcd_probe hrun_rd_lin run_clone_from
  grun_reduce grun_bin grun_un grun_pow grun_inv grun_eq grun_rd grun_rd_inv grun_rd_check grd_check_spec grun_rd_modulus gi_new
  ghrun_reduce ghrun_bin ghrun_un ghrun_pow ghrun_inv ghrun_eq ghrun_transform
  ghrun_inv_src ghrun_div_src ghrun_gcd_probe ghrun_rd_lin grun_clone_from.
