(** extraction of the C17 model: the storage machine (as-is) and the layout specification, 64-bit words *)
Require Import FastZ.
From Dashu Require Import Base.Prelude Base.Words Int.StorageModel Int.StorageOps2 Int.StorageOps3 Int.StorageOps5 Int.ScratchModel.
From DashuGen Require Import StorageGen StorageGen4 StorageGen5.
Definition w64 : Z := 64.
Definition maxcap64 : Z := gen_max_capacity (2 ^ 64 - 1) 64.   (* Buffer::MAX_CAPACITY, regenerated from buffer.rs *)
Definition step64 := step w64 maxcap64.
(** the extended machine (round 3): pow, sqr, gcd (the side the Lehmer kernel leaves the result in is an input), div_rem,
    next_power_of_two, clear_high_bits, split_bits *)
Definition step2_64 (sw : bool) := step2 w64 maxcap64 (gk_inst w64 sw).
(** the machine of round 4: sqrt / sqrt_rem, ring steps, signed bit operations and shifts, the parsers, the chunk round trip
    (what root::sqrt_rem leaves in the input copy when only the root is wanted is never read: zeros) *)
Definition step3_64 (sw : bool) := step3 w64 maxcap64 (gk_inst w64 sw) (fun _ => 0).
(** the machine of round 5: + the parser of texts of any length in a radix that is not a power of two (word / chunk / divide
    and conquer over the squared radix powers) as one step *)
Definition step5_64 (sw : bool) := step5 w64 maxcap64 (gk_inst w64 sw) (fun _ => 0).
Definition drop_all64 := drop_all.
Definition layout_ok64 := layout_ok_b w64 maxcap64.
Definition repr_ok64 := repr_ok_b w64 maxcap64.
Definition rvalue64 := rvalue w64.
Definition default_capacity64 := default_capacity maxcap64.
Definition max_compact_capacity64 := max_compact_capacity maxcap64.
(** scratch memory (round 3): words reserved by mul::memory_requirement_exact(_, min), words the allocation plans of the
    general product ask for, and the offset machine itself on a chunk of `words` words at an aligned address *)
Definition scratch_reserved (la lb : Z) : Z := gen_mul_requirement (Z.min la lb).
Definition scratch_demand (la lb : Z) : Z := dgen (S (Z.to_nat (Z.min la lb))) (Z.max la lb) (Z.min la lb).
Definition scratch_run (la lb words : Z) : bool :=
  match mul_gen 8 (2 ^ 64 - 1) (S (Z.to_nat (Z.min la lb))) (Z.max la lb) (Z.min la lb) (chunk 8 4096 words) with Ok _ => true | _ => false end.
Extraction "model.ml"
  step64 step2_64 step3_64 step5_64 drop_all64 layout_ok64 repr_ok64 rvalue64 signed_cap rwords rcap mem0 zero
  default_capacity64 max_compact_capacity64 nlive nwords scratch_reserved scratch_demand scratch_run.
