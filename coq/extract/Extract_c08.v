Require Import FastZ.
From Dashu Require Import Base.Prelude Float.RoundSpec Float.Contract Float.Model Int.IoSpec Float.TextIoSpec Float.TextIoModel Conv.ConvSpec Conv.ConvModel Float.IeeeImportModel Float.LargeExpBound.
Extraction "model.ml" check_contract check_within_ulp check_within_ulp_incl dlen x_exp cmp_kx spec_round normalize
  parse_spec display_spec sci_spec display_body_spec sci_body_spec pad_spec layout_ok with_precision_spec float_rat base_prec_spec power_related
  from_ieee_spec ieee_decode repr_round repr_div
  parse_asis fmt_round_asis sci_body_asis with_precision_asis convert_base_asis with_base_prec_asis from_ieee_asis P32 P64 large_route_check.
