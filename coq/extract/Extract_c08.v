Require Import FastZ.
From Dashu Require Import Base.Prelude Float.RoundSpec Float.Contract Float.Model Int.IoSpec Float.TextIoSpec Float.TextIoModel Conv.ConvSpec Conv.ConvModel Float.IeeeImportModel Float.LargeExpBound
  Float.ElemF32 Float.ElemAsis Float.LargeExpAsis Float.WithBasePrec Int.GrlSpec Int.IoModel Int.IoDebugModel Float.DebugSpec Float.PartsConstModel
  Float.ConvBaseModel4 Float.ConvBaseFull4 Float.RadixFmtModel Float.LargeExpAsis5.
From DashuGen Require Import ConvBaseGen ConvBaseGen5.
Extraction "model.ml" check_contract check_within_ulp check_within_ulp_incl dlen x_exp cmp_kx spec_round normalize
  parse_spec display_spec sci_spec display_body_spec sci_body_spec pad_spec layout_ok with_precision_spec float_rat base_prec_spec power_related
  from_ieee_spec ieee_decode repr_round repr_div
  parse_asis fmt_round_asis sci_body_asis sci_asis with_precision_asis convert_base_asis with_base_prec_asis from_ieee_asis P32 P64 large_route_check
  mk_f32ops convert_base_full_asis large_trace_asis large_pre large_route_check_wp
  large_work_precision_gen threshold_small_exp_gen with_base_prec_gen from_float_prec_gen
  f32_pos_decode with_base_prec_code wb_L wb_U log2_lb_dec
  radix_info repr_debug_spec fbig_debug_spec repr_debug_alt_spec fbig_debug_alt_spec
  from_parts_const_asis from_parts_const_spec fbig_from_str_asis
  convert_base_asis4 convert_base_full_asis4 convert_base_spec common_root
  convert_base_full_asis5 convert_exact_asis large_exact_window large_pass
  radix_format radix_asis radix_spec radix_body_asis radix_body_spec.
