(** extraction of the C04 model: specifications (canonical exact rationals) and as-is transcriptions *)
Require Import FastZ.
From Dashu Require Import Base.Prelude Int.BitsSpec Ratio.RatArithModel Ratio.RatioAtoms Ratio.RatioBodiesModel Ratio.Reduce2WordsModel.
From DashuGen Require Import RatioBodies.
Extraction "model.ml"
  canon invb veqb
  bin_spec dive_spec divreme_spec un_spec pow_spec int_spec mulsign_spec
  from_parts_spec from_parts_signed_spec from_parts_const_spec parse_spec
  trunc_spec floor_spec ceil_spec round_spec split_spec
  reduce_asis bin_asis dive_asis divreme_asis un_asis pow_asis int_asis mulsign_asis
  from_parts_asis from_parts_signed_asis from_parts_const_asis parse_asis xparse_asis
  trunc_asis floor_asis ceil_asis round_asis split_asis
  xbin_asis xdivreme_asis xint_asis xfrom_parts_asis xfrom_parts_signed_asis xfrom_parts_const_asis
  heval_spec heval_asis heval_xasis hstep hdst pget
  (* round 3: the bodies regenerated from the Rust source (coq/gen/RatioBodies.v) and their operator tables *)
  gbin gxbin gdive gxdive gdivreme gxdivreme gint gxint gun gpow gmulsign gsplit gtrunc gfloor gceil ground heval_gen heval_xgen
  gen_reduce gen_RBig_from_parts gen_Relaxed_from_parts gen_RBig_from_parts_signed gen_Relaxed_from_parts_signed
  gen_RBig_is_zero gen_RBig_is_one gen_RBig_is_int gen_Relaxed_is_zero gen_Relaxed_is_one
  from_int_asis from_float_asis from_float_spec gen_ratio_iter_is_a_module xfrom_parts_words.
