(** extraction of the C04 model: specifications (canonical exact rationals) and as-is transcriptions *)
Require Import FastZ.
From Dashu Require Import Base.Prelude Int.BitsSpec Ratio.RatArithModel.
Extraction "model.ml"
  canon invb veqb
  bin_spec dive_spec divreme_spec un_spec pow_spec int_spec mulsign_spec
  from_parts_spec from_parts_signed_spec from_parts_const_spec parse_spec
  trunc_spec floor_spec ceil_spec round_spec split_spec
  reduce_asis bin_asis dive_asis divreme_asis un_asis pow_asis int_asis mulsign_asis
  from_parts_asis from_parts_signed_asis from_parts_const_asis parse_asis xparse_asis
  trunc_asis floor_asis ceil_asis round_asis split_asis
  xbin_asis xdivreme_asis xint_asis xfrom_parts_asis xfrom_parts_signed_asis xfrom_parts_const_asis
  heval_spec heval_asis heval_xasis hstep hdst pget.
