(** extraction of the C04 model: specifications (canonical exact rationals) and as-is transcriptions *)
Require Import FastZ.
From Dashu Require Import Base.Prelude Int.BitsSpec Ratio.RatArithModel Ratio.RatioAtoms Ratio.RatioBodiesModel Ratio.Reduce2WordsModel
  Ratio.RatioAtoms4 Ratio.RatioBodies4Model.
From DashuGen Require Import RatioBodies RatioBodies4.
Extraction "model.ml"
  canon invb veqb
  bin_spec dive_spec divreme_spec un_spec pow_spec int_spec mulsign_spec
  from_parts_spec from_parts_signed_spec from_parts_const_spec parse_spec
  trunc_spec floor_spec ceil_spec round_spec split_spec
  reduce_asis bin_asis dive_asis divreme_asis un_asis pow_asis int_asis mulsign_asis
  from_parts_asis from_parts_signed_asis from_parts_const_asis parse_asis xparse_asis
  trunc_asis floor_asis ceil_asis round_asis split_asis
  xbin_asis xdivreme_asis xint_asis xfrom_parts_asis xfrom_parts_signed_asis xfrom_parts_const_asis
  heval_spec heval_asis heval_xasis hstep hdst pget
  (* round 3: the bodies regenerated from the Rust source (coq/gen/RatioBodies.v) and their operator tables *)
  gbin gxbin gdive gxdive gdivreme gxdivreme gint gxint gun gpow gmulsign gsplit gtrunc gfloor gceil ground heval_gen heval_xgen
  gen_reduce gen_RBig_from_parts gen_Relaxed_from_parts gen_RBig_from_parts_signed gen_Relaxed_from_parts_signed
  gen_RBig_is_zero gen_RBig_is_one gen_RBig_is_int gen_Relaxed_is_zero gen_Relaxed_is_one
  from_int_asis from_float_asis from_float_spec gen_ratio_iter_is_a_module xfrom_parts_words
  (* round 4: coq/gen/RatioBodies4.v (clone / clone_from, in-place operators, from_parts_const with its loop, parsers,
     conversions, wrappers, serde) and the extended histories *)
  gun4 gassign gxassign fpc_fuel gen_RBig_from_parts_const gen_Relaxed_from_parts_const
  gen_RBig_from_str_radix gen_RBig_from_str gen_RBig_from_str_with_radix_prefix
  gen_Relaxed_from_str_radix gen_Relaxed_from_str gen_Relaxed_from_str_with_radix_prefix parse_radix_spec parse_prefix_spec
  gen_RBig_try_from_float gen_Relaxed_try_from_float
  gen_IBig_try_from_RBig gen_UBig_try_from_RBig gen_IBig_try_from_Relaxed gen_UBig_try_from_Relaxed
  gen_RBig_from_IBig gen_RBig_from_UBig gen_RBig_from_prim gen_Relaxed_from_IBig gen_Relaxed_from_UBig gen_Relaxed_from_prim
  gen_serde_RBig_deserialize gen_serde_Relaxed_deserialize deserialize_spec
  gen_RBig_clone gen_Relaxed_clone gen_RBig_clone_from gen_Relaxed_clone_from gen_RBig_default gen_Relaxed_default
  gen_Relaxed_canonicalize gen_RBig_relax gen_RBig_pow gen_Relaxed_pow
  gen_RBig_split_at_point gen_Relaxed_split_at_point gen_RBig_trunc gen_Relaxed_trunc gen_RBig_floor gen_Relaxed_floor
  gen_RBig_ceil gen_Relaxed_ceil gen_RBig_round gen_Relaxed_round
  heval4_spec heval4_gen heval4_xgen hstep4.
