Require Import FastZ.
From Dashu Require Import Base.Prelude Float.RoundSpec Float.Contract Float.Model Float.RoundOpsModel Conv.ConvSpec Conv.ConvModel
  Conv.ConvModel2 Conv.ConvTryProofs Conv.ConvFloat2Proofs Conv.ConvToInt Conv.ConvCastModel Conv.ConvRelaxed.
From Dashu Require Float.ElemF32 Conv.ConvLargeRoute.
From DashuGen Require Import ConvParams2.
Open Scope Z_scope.

(** instances used by the oracle: the exact digit count / the exact floor of log2 are admissible
    estimates (the theorems hold for every sound estimate) *)
Definition to_int_x (B : Z) (m : mode) (p s e : Z) : result iapprox := to_int_asis B (dub_exact B) false m p s e.
Definition repr_to_int_x (B s e : Z) : iapprox := repr_to_int_asis B (dub_exact B) s e.
Definition fbig_try_to_prim_x (w B : Z) (sg : bool) (TW : Z) (inf : bool) (s e : Z) : conv Z :=
  fbig_try_to_prim (lb_exact B) w B sg TW inf s e.
(** the models at the literals regenerated from the sources on this run *)
Definition g (l : list Z) (i : nat) : Z := nth i l 0.
Definition rat_fast_x (P : enc_params) (f32 : bool) (N D : Z) : Z :=
  let l := if f32 then rat_fast_f32_gen else rat_fast_f64_gen in
  rat_to_float_fast_gen P (g l 0) (g l 1) (g l 2) (g l 3 - g l 4) N D.
Definition rat_try_x (P : enc_params) (f32 : bool) (N D : Z) : conv Z :=
  let l := if f32 then rat_try_f32_gen else rat_try_f64_gen in
  rat_try_to_float_gen P (g l 0) (g l 1) (MB P + 1) N D.

Extraction "model.ml"
  F32 F64 P32 P64 fmt_of blen dlen normalize cmp_kx round_rat_at spec_round
  ieee_round ieee_rne decode_spec frac_of to_prim_spec float_to_int_spec exact_to_float rat_to_int_spec
  rat_trunc_spec flag_of_error int_round_spec rat_to_fbig_spec
  decode_asis encode_asis ubig_to_float ibig_to_float int_try_to_float float_try_to_int
  ubig_to_prim ibig_to_prim prim_to_ubig prim_to_ibig rat_to_float rat_to_float_fast
  fbig2_to_float fbig_to_float rat_to_fbig rat_to_fbig_twice
  conv_ok rat_try_to_float float_try_to_rat rat_try_to_prim rat_to_int_asis fbig2_try_to_float float_try_to_fbig
  ibig_try_to_ubig fbig_try_to_ibig fbig_try_to_ubig fbig_try_to_rbig rat_try_to_ubig rat_try_to_ibig int_to_repr
  fbig_try_to_prim_x to_int_x repr_to_int_x two_step iapprox_of rat_fast_x rat_try_x
  int_to_f64_ref int_to_f32_ref f64_to_int_ref f32_to_int_ref cast_uint cast_back inf_bits div_round_once
  ElemF32.mk_f32ops ConvLargeRoute.fbig_to_float_large convert_small_exp_gen relaxed_try_to_ibig relaxed_try_to_ubig.
