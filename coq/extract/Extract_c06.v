Require Import FastZ.
From Dashu Require Import Base.Prelude Float.RoundSpec Float.Contract Float.Model Conv.ConvSpec Conv.ConvModel.
Extraction "model.ml"
  F32 F64 P32 P64 fmt_of blen dlen normalize cmp_kx round_rat_at spec_round
  ieee_round ieee_rne decode_spec frac_of to_prim_spec float_to_int_spec exact_to_float rat_to_int_spec
  rat_trunc_spec flag_of_error int_round_spec rat_to_fbig_spec
  decode_asis encode_asis ubig_to_float ibig_to_float int_try_to_float float_try_to_int
  ubig_to_prim ibig_to_prim prim_to_ubig prim_to_ibig rat_to_float rat_to_float_fast
  fbig2_to_float fbig_to_float rat_to_fbig rat_to_fbig_twice.
