(** A probe over every Z function that FastZ.v / ExtrOcamlZBigInt remap: extracted twice (pure:
    ExtrOcamlBasic only; fast: FastZ) and compared on shared inputs by tools/fastz_selftest.py. *)
Require Import ZArith.
Open Scope Z_scope.
Definition cmp2z (c : comparison) : Z := match c with Lt => -1 | Eq => 0 | Gt => 1 end.
Definition probe (op a b : Z) : Z :=
  match op with
  | 0 => a + b | 1 => a - b | 2 => a * b | 3 => a / b | 4 => a mod b
  | 5 => Z.quot a b | 6 => Z.rem a b | 7 => Z.gcd a b
  | 8 => Z.land a b | 9 => Z.lor a b | 10 => Z.lxor a b | 11 => Z.ldiff a b | 12 => Z.lnot a
  | 13 => Z.b2z (Z.testbit a b) | 14 => Z.log2 a | 15 => Z.sqrt a | 16 => Z.pow a b
  | 17 => Z.shiftl a b | 18 => Z.shiftr a b
  | 19 => Z.b2z (a <? b) | 20 => Z.b2z (a <=? b) | 21 => Z.b2z (a >? b) | 22 => Z.b2z (a >=? b)
  | 23 => Z.b2z (Z.even a) | 24 => Z.b2z (Z.odd a) | 25 => Z.sgn a | 26 => Z.abs a
  | 27 => Z.max a b | 28 => Z.min a b | 29 => cmp2z (a ?= b) | 30 => Z.b2z (a =? b)
  | 31 => Z.of_N (Z.to_N a) | 32 => Z.of_N (Z.abs_N a) | 33 => - a | 34 => Z.succ a | 35 => Z.pred a
  | 36 => let '(q, r) := Z.quotrem a b in q * 1000003 + r
  | 37 => let '(q, r) := Z.div_eucl a b in q * 1000003 + r
  | 38 => Z.of_N (N.div (Z.abs_N a) (Z.abs_N b)) | 39 => Z.of_N (N.modulo (Z.abs_N a) (Z.abs_N b))
  | 40 => Z.of_N (N.sub (Z.abs_N a) (Z.abs_N b)) | 41 => Z.of_N (N.shiftl (Z.abs_N a) (Z.abs_N b))
  | 42 => Z.of_N (N.shiftr (Z.abs_N a) (Z.abs_N b))
  | 43 => Z.pos (Pos.sub (Z.to_pos a) (Z.to_pos b)) | 44 => Z.pos (Pos.pred (Z.to_pos a))
  | 45 => cmp2z (Pos.compare (Z.to_pos a) (Z.to_pos b))
  | _ => 0
  end.
Definition nprobes : Z := 46.
