(** extraction of the C07 model: specifications (IoSpec) and as-is models (IoModel) *)
Require Import FastZ.
From Dashu Require Import Base.Prelude Int.IoSpec Int.IoModel Int.IoBytesBEModel Int.IoDebugModel Int.IoFmt3Model Int.IoBigModel Int.IoWriter Int.IoChunksW Int.IoToChunksModel Int.IoDebugLwbModel Int.IoDispatch4Model.
From DashuGen Require Import IoTables3.
Extraction "model.ml"
  digits_spec digits_value digit_char radix_valid
  fmt_spec fmt_asis pad_integral_spec format_prepared_asis digits_asis radix_info
  body_spec body_asis body_asis_before_fix
  from_str_radix_spec from_str_prefix_spec from_str_radix_asis from_str_prefix_asis from_str_radix_gen from_str_prefix_gen
  le_value le_signed_value be_value be_signed_value to_le_bytes_spec to_signed_le_bytes_spec
  to_le_bytes_asis to_signed_le_bytes_asis to_signed_le_bytes_before_fix from_le_bytes_asis from_signed_le_bytes_asis
  to_be_bytes_asis to_signed_be_bytes_asis from_be_bytes_asis from_signed_be_bytes_asis
  to_chunks_spec from_chunks_spec chunk_count to_chunks_asis to_chunks_before_fix from_chunks_asis
  debug_spec debug_asis gen_dbg_lits ilog_exact fmt_tables_asis fmt_words_asis body_words_asis
  dw_text trait_id trait_lookup gen_fmt_traits case_offset inradix_case from_chunks_words_z
  to_chunks_words_z debug_lwb_asis est_under digits_gen body_gen format_prepared_gen kind_prefix.
