Require Import FastZ.
From Dashu Require Import Base.Prelude Float.RoundSpec Float.Contract Float.Model Float.AddModel Float.DivMulModel Float.LongModel Float.FixModel Float.IterModel Float.ExpRangeModel.
Extraction "model.ml" check_contract dlen x_exp cmp_kx spec_round round_rat_at
  repr_round ctx_mul ctx_sqr ctx_cubic repr_div round_fract round_ratio
  ctx_add_x ctx_sub_x ctx_add_x1 ctx_sub_x1 add_val_val_x add_val_ref_x add_ref_val_x add_ref_ref_x ctx_sqrt add_path approx_val
  ctx_div_x ctx_div_x1 ctx_inv fbig_mul fbig_div mul_float_prim mul_prim_float div_float_prim div_prim_float
  prim_prec ctx_max round_fract_sharp
  add_short_class mul_long_class sqr_long_class cubic_long_class div_long_class ctx_sub_fixed_x ctx_sub_fixed_x1
  repr_rem rem_exact fbig_rem fbig_div_euclid fbig_rem_euclid fbig_div_rem_euclid
  fbig_sqr fbig_cubic fbig_sqrt fbig_inv add_float_prim_vv_x add_float_prim_rv_x add_prim_float_vv_x add_prim_float_vr_x
  is_normal ctx_add_n_x ctx_sub_n_x ctx_mul_n ctx_sqr_n ctx_cubic_n ctx_div_n_x ctx_inv_n ctx_sqrt_n repr_rem_n sqrt_round_frac
  ctx_add_fix_x ctx_sub_fix_x ctx_add_fix_x1 ctx_sub_fix_x1 ctx_add_fix_n_x ctx_sub_fix_n_x
  ctx_mul_fix_n ctx_sqr_fix_n ctx_cubic_fix_n repr_div_fix_n ctx_inv_fix_n fbig_div_fix
  fbig_product ctx_mul_chk ctx_sqr_chk ctx_cubic_chk in_i.
