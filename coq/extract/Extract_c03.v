Require Import FastZ.
From Dashu Require Import Base.Prelude Float.RoundSpec Float.Contract.
Extraction "model.ml" check_contract dlen x_exp cmp_kx spec_round round_rat_at.
