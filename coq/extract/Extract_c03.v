Require Import FastZ.
From Dashu Require Import Base.Prelude Float.RoundSpec Float.Contract Float.Model Float.AddModel Float.DivMulModel.
Extraction "model.ml" check_contract dlen x_exp cmp_kx spec_round round_rat_at
  repr_round ctx_mul ctx_sqr ctx_cubic repr_div round_fract round_ratio
  ctx_add_x ctx_sub_x ctx_add_x1 ctx_sub_x1 add_val_val_x add_val_ref_x add_ref_val_x add_ref_ref_x ctx_sqrt add_path approx_val
  ctx_div_x ctx_div_x1 ctx_inv fbig_mul fbig_div mul_float_prim mul_prim_float div_float_prim div_prim_float
  prim_prec ctx_max round_fract_sharp.
