Require Import FastZ.
From Dashu Require Import Base.Prelude Float.RoundSpec Float.Contract Float.Model.
Extraction "model.ml" check_contract dlen x_exp cmp_kx spec_round round_rat_at
  repr_round ctx_mul ctx_sqr ctx_cubic repr_div round_fract round_ratio.
