(** Extraction settings of the "fast" oracle build: Coq's Z/N/positive become zarith integers.
    ExtrOcamlZBigInt is the standard library's mapping; the [Extract Constant] lines below are OURS
    and part of the trusted base (DESIGN.md section 6): they replace a few Coq functions on Z, whose
    extracted definitions recurse bit by bit, by the zarith function of the same meaning.
    The "pure" oracle build uses none of this file and must agree with the fast build. *)
Require Import ZArith.
Require Export ExtrOcamlBasic ExtrOcamlZBigInt.
Extract Constant Z.quot => "(fun a b -> if Zar.equal b Zar.zero then Zar.zero else Zar.div a b)".
Extract Constant Z.rem => "(fun a b -> if Zar.equal b Zar.zero then a else Zar.rem a b)".
Extract Constant Z.quotrem => "(fun a b -> if Zar.equal b Zar.zero then (Zar.zero, a) else Zar.div_rem a b)".
Extract Constant Z.gcd => "Zar.gcd".
Extract Constant Z.land => "Zar.logand".
Extract Constant Z.lor => "Zar.logor".
Extract Constant Z.lxor => "Zar.logxor".
Extract Constant Z.ldiff => "(fun a b -> Zar.logand a (Zar.lognot b))".
Extract Constant Z.lnot => "Zar.lognot".
Extract Constant Z.testbit => "(fun a n -> if Zar.sign n < 0 then false else if Zar.fits_int n then Zar.testbit a (Zar.to_int n) else Zar.sign a < 0)".
Extract Constant Z.log2 => "(fun a -> if Zar.sign a <= 0 then Zar.zero else Zar.of_int (Zar.log2 a))".
Extract Constant Z.sqrt => "(fun a -> if Zar.sign a <= 0 then Zar.zero else Zar.sqrt a)".
Extract Constant Z.pow => "(fun a n -> if Zar.sign n < 0 then Zar.zero else Zar.pow a (Zar.to_int n))".
Extract Constant Z.ltb => "Zar.lt".
Extract Constant Z.leb => "Zar.leq".
Extract Constant Z.gtb => "Zar.gt".
Extract Constant Z.geb => "Zar.geq".
Extract Constant Z.even => "Zar.is_even".
Extract Constant Z.odd => "Zar.is_odd".
Extract Constant Z.sgn => "(fun a -> Zar.of_int (Zar.sign a))".
