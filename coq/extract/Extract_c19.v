(** extraction of the C19 model: wire formats (Serde/WireModel.v), value-level specifications replayed
    in every build configuration (Serde/CfgValueSpec.v) and the specifications of the other
    properties whose operations are replayed (imported read-only) *)
Require Import FastZ.
From Dashu Require Import Base.Prelude Base.Words Int.BitsSpec Int.IoSpec Int.GrlSpec Float.RoundSpec Float.Contract.
From Dashu Require Import Ratio.SimplestSpec.
From Dashu Require Import Serde.WireModel Serde.CfgValueSpec Serde.FloatToIeeeAsis.
Extraction "model.ml"
  to_words value
  sle_value sle_bytes ubig_enc ubig_dec ibig_enc ibig_dec
  ubig_ser_asis ibig_ser_asis ubig_de_asis ibig_de_asis
  varint_enc varint_dec zigzag unzigzag bytes_enc bytes_dec
  w_ubig_enc w_ibig_enc w_ubig_dec w_ibig_dec
  rat_reduce rat_reduce2 rat_canonb relaxed_canonb w_rat_enc w_rbig_dec w_relaxed_dec
  fnormalize ndigits repr_canonb fbig_canonb w_repr_enc w_fbig_enc w_repr_dec w_fbig_dec
  dec_text rat_text
  cv_divrem cv_diveuc cv_cmp cv_bitlen cv_gcdext_ok cv_root_ok cv_ilog_ok cv_powmod cv_int_to_float cv_qcanon
  trailing_zeros_spec count_ones_spec
  digits_spec digit_char from_str_radix_spec from_str_prefix_spec to_signed_le_bytes_spec le_signed_value
  f32_decode f64_decode log2_bound_check log2_bound_exact log2_bound_k
  check_contract cmp_kx
  next_up_check next_down_check
  wide_class.
