(** extraction of the C19 model: wire formats (Serde/WireModel.v), value-level specifications replayed
    in every build configuration (Serde/CfgValueSpec.v) and the specifications of the other
    properties whose operations are replayed (imported read-only) *)
Require Import FastZ.
From Dashu Require Import Base.Prelude Base.Words Int.BitsSpec Int.IoSpec Int.GrlSpec Float.RoundSpec Float.Contract.
From Dashu Require Import Ratio.SimplestSpec.
From Dashu Require Import Serde.WireModel Serde.CfgValueSpec Serde.FloatToIeeeAsis.
(** round 3 (model files only, so that the oracle builds even when a proof breaks): the word-level runs (Serde/WordRunsModel.v;
    proved = specification for every word size in Serde/WordRuns.v), the single
    multiplication kernels of C01 at the word size of the build, the human-readable serde forms (Serde/JsonModel.v),
    the byte conversions of C07 at the word size of the build, C06's specification and as-is models of the
    conversions to f32 / f64 *)
From Dashu Require Import Int.RingMul Int.DivWordInst Int.RingMulW Int.IoModel.
From Dashu Require Import Conv.ConvSpec Conv.ConvModel.
From Dashu Require Import Float.Model Float.ElemEncl Float.ElemEntry.
(* CoqInterval's enclosure code is pure Z code, but extraction drags the real-number axiom sig_forall_dec in as a
   top-level value that would raise at module initialisation; it is never called (as in Extract_c11.v) *)
Extract Constant ClassicalDedekindReals.sig_forall_dec => "(fun _ -> assert false)".
From Dashu Require Import Serde.WordRunsModel Serde.JsonModel Serde.ArchModel Serde.ArchSelect.
(** round 4 (model files only): gcd / gcd_ext / nth_root / ilog with the dispatch of each word size (Serde/WordRunsModel2.v over
    C12's kernels), arbitrary JSON token streams and the repaired float text form (Serde/JsonTokenModel.v over the regenerated
    coq/gen/SerdeVisitorsGen.v), C03's digit-exact float models with every Repr::new (Float/LongModel.v) *)
From Dashu Require Import Int.GrlModel Int.GrlLehmer Float.LongModel Serde.WordRunsModel2 Serde.JsonTokenModel Serde.ExpRangeModel.
Require Import ExtrOcamlNativeString.
Extraction "model.ml"
  wr_gcd wr_gcdext wr_nthroot wr_ilog wr_gcd_path wr_ilog_path
  json_str_token json_tok_int json_tok_rat json_tok_float json_float_ser json_float_de_gen
  ctx_add_n_x ctx_sub_n_x ctx_mul_n ctx_div_n_x ctx_sqrt_n is_normal mul_exp_range_class ctx_mul_build
  to_words value
  sle_value sle_bytes ubig_enc ubig_dec ibig_enc ibig_dec
  ubig_ser_asis ibig_ser_asis ubig_de_asis ibig_de_asis
  varint_enc varint_dec zigzag unzigzag bytes_enc bytes_dec
  w_ubig_enc w_ibig_enc w_ubig_dec w_ibig_dec
  rat_reduce rat_reduce2 rat_canonb relaxed_canonb w_rat_enc w_rbig_dec w_relaxed_dec
  fnormalize ndigits repr_canonb fbig_canonb w_repr_enc w_fbig_enc w_repr_dec w_fbig_dec
  dec_text rat_text
  cv_divrem cv_diveuc cv_cmp cv_bitlen cv_gcdext_ok cv_root_ok cv_ilog_ok cv_powmod cv_int_to_float cv_qcanon
  trailing_zeros_spec count_ones_spec
  digits_spec digit_char from_str_radix_spec from_str_prefix_spec to_signed_le_bytes_spec le_signed_value
  f32_decode f64_decode log2_bound_check log2_bound_exact log2_bound_k
  check_contract cmp_kx
  next_up_check next_down_check
  wide_class
  wr_mul wr_sqr wr_add wr_sub wr_pow wr_divrem wr_and wr_or wr_xor wr_shl wr_shr wr_bitlen wr_tz wr_ones
  wr_tostr wr_fromstr wr_sqrt wr_tof64 wr_tof32 ws_modmul ws_modpow
  x2by1 wr_T_simple wr_T_kara wr_CHUNK add_signed_mul_w simple_add_signed_mul_w karatsuba_add_signed_mul_w toom3_add_signed_mul_w
  to_le_bytes_asis to_signed_le_bytes_asis from_le_bytes_asis from_signed_le_bytes_asis
  json_int_text json_int_text_asis json_int_de json_int_de_asis json_rat_text json_rat_de
  json_float_text json_float_de json_inf_collision
  F32 F64 P32 P64 ieee_rne ieee_round flag_of_error rat_to_float fbig_to_float
  arch_word_bits
  check_exp check_ln check_powi loose_exp loose_ln loose_powi exp_entry ln_entry powi_entry normalize dlen.
