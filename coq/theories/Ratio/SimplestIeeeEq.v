(** C18 - simplest_from_f32 / simplest_from_f64 outside finding F04: for every format (mb >= 1
    mantissa bits, any exponent width) and every bit pattern whose last mantissa bit has a
    non-positive exponent (ulp <= 1, i.e. not [known_ieee]) and which is not a normal power of two,
    the as-is model of impl_simplest_from_float! equals the specification.
    PARTIAL: normal powers of two (M = 0, E >= 2) are left out.  There the code's lower bound is
    f - ulp/2 instead of f - ulp/4; the answers still agree (every fraction below f in the wider
    interval is less simple than f itself), which is observed on every run (class pow2) but not
    proved here. *)
From Dashu Require Import Base.Prelude Ratio.BinIter Float.RoundSpec Ratio.SimplestSpec Ratio.SimplestModel
  Ratio.SimplerOrder Ratio.SimplestProof Ratio.SimplestAsis Ratio.FareyProof Ratio.SimplestClosed Ratio.SimplestFindings
  Ratio.SimplestFloatEq.
Open Scope Z_scope.

(** ** the order of the two end-point tests does not matter *)
Lemma sle_antisym : forall x y, sle x y -> sle y x -> x = y.
Proof.
  intros x y [E|H1] [E'|H2]; try congruence. pose proof (simpler_asym _ _ H1). congruence.
Qed.

Lemma pick_comm : forall c1 x c2 y r0, pick c2 y (pick c1 x r0) = pick c1 x (pick c2 y r0).
Proof.
  intros c1 x c2 y r0.
  destruct (pick_spec c1 x r0) as (A1 & A2 & A3). destruct (pick_spec c2 y (pick c1 x r0)) as (B1 & B2 & B3).
  destruct (pick_spec c2 y r0) as (C1 & C2 & C3). destruct (pick_spec c1 x (pick c2 y r0)) as (D1 & D2 & D3).
  set (p1 := pick c1 x r0) in *. set (r := pick c2 y p1) in *.
  set (q1 := pick c2 y r0) in *. set (r' := pick c1 x q1) in *.
  assert (R0 : sle r r0) by (apply (sle_trans r p1 r0); assumption).
  assert (R0' : sle r' r0) by (apply (sle_trans r' q1 r0); assumption).
  assert (Rx : c1 = true -> sle r x) by (intros H; apply (sle_trans r p1 x); [assumption|exact (A2 H)]).
  assert (Ry' : c2 = true -> sle r' y) by (intros H; apply (sle_trans r' q1 y); [assumption|exact (C2 H)]).
  apply sle_antisym.
  - (* r <= r' : r' is one of r0, x, y *)
    destruct D3 as [->|(Hc & ->)]; [|exact (Rx Hc)]. destruct C3 as [->|(Hc & ->)]; [exact R0|exact (B2 Hc)].
  - destruct B3 as [->|(Hc & ->)]; [|exact (Ry' Hc)]. destruct A3 as [->|(Hc & ->)]; [exact R0'|exact (D2 Hc)].
Qed.

Lemma simplest_in_spec_swap : forall lo hi, fval_lt lo hi -> simplest_in_spec hi lo = simplest_in_spec lo hi.
Proof.
  intros lo hi H. unfold fval_lt in H. unfold simplest_in_spec, feq, flt.
  destruct (Z.eqb_spec (fst hi * snd lo) (fst lo * snd hi)); [lia|].
  destruct (Z.eqb_spec (fst lo * snd hi) (fst hi * snd lo)); [lia|].
  destruct (Z.ltb_spec (fst hi * snd lo) (fst lo * snd hi)); [lia|].
  destruct (Z.ltb_spec (fst lo * snd hi) (fst hi * snd lo)); [|lia]. reflexivity.
Qed.

Lemma simplest_closed_swap : forall lo hi ilo ihi, fval_lt lo hi ->
  simplest_closed (hi, lo, ihi, ilo) = simplest_closed (lo, hi, ilo, ihi).
Proof.
  intros lo hi ilo ihi H. unfold simplest_closed. rewrite (simplest_in_spec_swap lo hi H).
  destruct (simplest_in_spec lo hi); try reflexivity. rewrite pick_comm. reflexivity.
Qed.

(** ** end points of the macro in units of 2^(ex - 2) *)
Lemma est_end : forall n ex s, ex <= 0 ->
  let est : frac := if 0 <=? ex then (n * 2 ^ ex, 1) else (n, 2 ^ (- ex)) in
  freduce (2 * fst est + s, 2 * snd est) = scaled 2 (4 * n + 2 * s) (ex - 2) 1.
Proof.
  intros n ex s Hex est. unfold scaled. destruct (Z.leb_spec 0 (ex - 2)); [lia|].
  assert (HQ : 0 < 2 ^ (- ex)) by (apply Z.pow_pos_nonneg; lia).
  assert (HP : 2 ^ (- (ex - 2)) = 2 ^ (- ex) * 4).
  { replace (- (ex - 2)) with (- ex + 2) by ring. rewrite Z.pow_add_r by lia. reflexivity. }
  apply freduce_eqv.
  - unfold est. destruct (0 <=? ex); cbn [snd]; lia.
  - cbn [snd]. lia.
  - unfold fval_eq. cbn [fst snd]. rewrite HP. unfold est. destruct (Z.leb_spec 0 ex); cbn [fst snd].
    + assert (ex = 0) by lia. subst ex. change (- 0) with 0. rewrite Z.pow_0_r. ring.
    + ring.
Qed.

Lemma est_end_m : forall n ex, ex <= 0 ->
  let est : frac := if 0 <=? ex then (n * 2 ^ ex, 1) else (n, 2 ^ (- ex)) in
  freduce (2 * fst est - 1, 2 * snd est) = scaled 2 (4 * n - 2) (ex - 2) 1.
Proof. intros n ex H. exact (est_end n ex (-1) H). Qed.

Lemma est_end_p : forall n ex, ex <= 0 ->
  let est : frac := if 0 <=? ex then (n * 2 ^ ex, 1) else (n, 2 ^ (- ex)) in
  freduce (2 * fst est + 1, 2 * snd est) = scaled 2 (4 * n + 2) (ex - 2) 1.
Proof. intros n ex H. exact (est_end n ex 1 H). Qed.

Lemma even_low_bits : forall bits mb, 1 <= mb -> Z.even (bits mod 2 ^ mb) = Z.even bits.
Proof.
  intros bits mb Hmb. assert (HP : 0 < 2 ^ mb) by (apply Z.pow_pos_nonneg; lia).
  rewrite (Z.div_mod bits (2 ^ mb)) at 2 by lia.
  rewrite Z.even_add, Z.even_mul. replace mb with (1 + (mb - 1)) at 2 by ring.
  rewrite Z.pow_add_r by lia. rewrite Z.pow_1_r, Z.even_mul. cbn [Z.even orb]. destruct (Z.even (bits mod 2 ^ mb)); reflexivity.
Qed.

Lemma even_hidden_bit : forall M mb, 1 <= mb -> Z.even (M + 2 ^ mb) = Z.even M.
Proof.
  intros M mb Hmb. rewrite Z.even_add. replace mb with (1 + (mb - 1)) by ring.
  rewrite Z.pow_add_r by lia. rewrite Z.pow_1_r, Z.even_mul. cbn [Z.even orb]. destruct (Z.even M); reflexivity.
Qed.

Theorem simplest_from_ieee_asis_spec_partial : forall mb eb bits, 1 <= mb ->
  known_ieee mb eb bits = false ->
  (bits mod 2 ^ mb =? 0) && (2 <=? (bits / 2 ^ mb) mod 2 ^ eb) = false ->
  simplest_from_ieee_asis mb eb bits = simplest_from_ieee_spec mb eb bits.
Proof.
  intros mb eb bits Hmb Hk Hpw.
  pose proof (simplest_from_ieee_asis_closed mb eb bits) as HA. cbv zeta in HA. rewrite HA. clear HA.
  unfold simplest_from_ieee_spec, ieee_interval_spec. cbv zeta.
  unfold known_ieee in Hk. cbv zeta in Hk.
  set (E := (bits / 2 ^ mb) mod 2 ^ eb) in *.
  set (M := bits mod 2 ^ mb) in *.
  set (ex := (if E =? 0 then 1 else E) - (2 ^ (eb - 1) - 1) - mb) in *.
  set (man0 := if E =? 0 then M else M + 2 ^ mb) in *.
  assert (Hex : ex <= 0) by (apply Z.ltb_ge in Hk; exact Hk).
  destruct (E =? 2 ^ eb - 1); [reflexivity|]. destruct ((E =? 0) && (M =? 0)); [reflexivity|].
  rewrite Hpw.
  assert (Hev : Z.even bits = Z.even man0).
  { unfold man0, M. destruct (E =? 0); [|rewrite even_hidden_bit by exact Hmb]; symmetry; apply even_low_bits; exact Hmb. }
  rewrite Hev.
  assert (Hlt : fval_lt (scaled 2 (4 * man0 - 2) (ex - 2) 1) (scaled 2 (4 * man0 + 2) (ex - 2) 1)).
  { pose proof (uval_scaled 2 (ex - 2) ltac:(lia) (4 * man0 - 2) 1 ltac:(lia)) as U1.
    pose proof (uval_scaled 2 (ex - 2) ltac:(lia) (4 * man0 + 2) 1 ltac:(lia)) as U2.
    pose proof (scaled_pos 2 (4 * man0 - 2) (ex - 2) 1 ltac:(lia) ltac:(lia)) as P1.
    pose proof (scaled_pos 2 (4 * man0 + 2) (ex - 2) 1 ltac:(lia) ltac:(lia)) as P2.
    unfold uval in U1, U2. unfold fval_lt.
    set (x := scaled 2 (4 * man0 - 2) (ex - 2) 1) in *. set (y := scaled 2 (4 * man0 + 2) (ex - 2) 1) in *.
    assert (HBK : 0 < 2 ^ Z.abs (ex - 2)) by (apply Z.pow_pos_nonneg; lia).
    assert (HPP : 0 < 2 ^ (ex - 2 + Z.abs (ex - 2))) by (apply Z.pow_pos_nonneg; lia).
    set (BK := 2 ^ Z.abs (ex - 2)) in *. set (PP := 2 ^ (ex - 2 + Z.abs (ex - 2))) in *.
    assert (fst x * snd y * BK < fst y * snd x * BK); [|nia].
    replace (fst x * snd y * BK) with ((fst x * 1 * BK) * snd y) by ring. rewrite U1.
    replace (fst y * snd x * BK) with ((fst y * 1 * BK) * snd x) by ring. rewrite U2.
    assert (0 < PP * snd x * snd y) by (apply Z.mul_pos_pos; [apply Z.mul_pos_pos|]; assumption). nia. }
  set (lo_m := scaled 2 (4 * man0 - 2) (ex - 2) 1) in *. set (hi_m := scaled 2 (4 * man0 + 2) (ex - 2) 1) in *.
  destruct ((bits / 2 ^ (mb + eb)) mod 2 =? 1).
  - (* negative: (est + 1/2, est - 1/2) = (- lo, - hi) *)
    pose proof (est_end_p (- man0) ex Hex) as L. pose proof (est_end_m (- man0) ex Hex) as R. cbv zeta in L, R.
    rewrite L, R.
    replace (4 * - man0 + 2) with (- (4 * man0 - 2)) by ring.
    replace (4 * - man0 - 2) with (- (4 * man0 + 2)) by ring.
    rewrite <- !fneg_scaled by lia. fold lo_m hi_m.
    rewrite (simplest_closed_swap (fneg hi_m) (fneg lo_m)).
    + destruct (simplest_closed _); reflexivity.
    + unfold fval_lt in *. unfold fneg. cbn [fst snd]. lia.
  - pose proof (est_end_p man0 ex Hex) as L. pose proof (est_end_m man0 ex Hex) as R. cbv zeta in L, R.
    rewrite L, R.
    fold lo_m hi_m.
    rewrite (simplest_closed_swap lo_m hi_m) by exact Hlt.
    destruct (simplest_closed _); reflexivity.
Qed.

(** non-vacuity: 0.1f32, -22/7 as f32, the smallest subnormal f64 *)
Example simplest_from_ieee_examples :
  known_ieee 23 8 1036831949 = false /\ simplest_from_ieee_asis 23 8 1036831949 = Ok (Some (1, 10)) /\
  simplest_from_ieee_asis 23 8 3226018962 = Ok (Some (-22, 7)) /\ simplest_from_ieee_spec 23 8 3226018962 = Ok (Some (-22, 7)) /\
  known_ieee 52 11 1 = false /\ simplest_from_ieee_asis 52 11 1 = simplest_from_ieee_spec 52 11 1.
Proof. repeat split; vm_compute; reflexivity. Qed.
